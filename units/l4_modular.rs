// L4: modular add/sub/neg/double/halve/mul (src/uint/add_mod.rs, sub_mod.rs, neg_mod.rs, mul_mod.rs, src/modular/div_by_2.rs) -- C07
use vstd::prelude::*;
use vstd::arithmetic::power::*;
use vstd::arithmetic::power2::*;
use vstd::arithmetic::div_mod::*;
use crate::speclib::*;
use crate::speclib_bits::*;
use crate::l0_prim::*;
use crate::l1_choice::*;
use crate::l1_limb::*;
use crate::l2_core::*;
use crate::l2_shift::*;
use crate::l3_divlimb::*;
use crate::l3_mul::*;
use crate::l3_div_vt::*;
verus! {

// ---- local lemmas
proof fn lemma_rng<const LIMBS: usize>(x: &Uint<LIMBS>)
    ensures 0 <= x.v() < bp(LIMBS as nat), bp(LIMBS as nat) > 0
{ lemma_val_bound(x.limbs@, LIMBS as nat); }

/// B^n = 2 * 2^(64n-1)
proof fn lemma_top_bit(n: nat)
    requires n >= 1
    ensures 2 * p2((64 * n - 1) as nat) == bp(n), p2((64 * n - 1) as nat) > 0
{
    lemma_bp_pow2(n);
    lemma_pow2_unfold((64 * n) as nat);
    lemma_pow2_pos((64 * n - 1) as nat);
}


/// arithmetic core of Algorithm 14.47 (HAC) as used by mul_mod_special, W = B^LIMBS, p = W - c
proof fn lemma_mms_core<const LIMBS: usize>(a: int, b: int, lo0: int, hv: int, lo1: int, c1: int, lo2: int, c2: int, cv: int)
    requires LIMBS >= 2, a >= 0, b >= 0,
        0 <= lo0 < bp(LIMBS as nat), 0 <= hv < bp(LIMBS as nat), 0 <= lo1 < bp(LIMBS as nat), 0 <= lo2 < bp(LIMBS as nat),
        1 <= cv < B(), 0 <= c1 < B(), 0 <= c2,
        lo0 + hv * bp(LIMBS as nat) == a * b,
        lo1 + c1 * bp(LIMBS as nat) == lo0 + hv * cv,
        lo2 + c2 * bp(LIMBS as nat) == lo1 + (c1 + 1) * cv,
    ensures c2 == 0 || c2 == 1,
        lo2 - (if c2 == 1 { 0 } else { cv }) == (a * b) % (bp(LIMBS as nat) - cv),
        0 <= (a * b) % (bp(LIMBS as nat) - cv) < bp(LIMBS as nat) - cv
{
    let ww = bp(LIMBS as nat); let p = ww - cv; let n = a * b;
    lemma_bp_succ((LIMBS - 1) as nat); lemma_bp_succ((LIMBS - 2) as nat);
    assert(ww >= B() * B()) by (nonlinear_arith) requires ww == B() * bp((LIMBS - 1) as nat), bp((LIMBS - 1) as nat) == B() * bp((LIMBS - 2) as nat), bp((LIMBS - 2) as nat) >= 1, B() > 0;
    // S1 = lo0 + hi*c = lo1 + c1*W ; n - t = (hi + c1) * p
    let t = lo1 + c1 * cv;
    assert(n - t == (hv + c1) * p) by (nonlinear_arith)
        requires n == lo0 + hv * ww, lo1 + c1 * ww == lo0 + hv * cv, t == lo1 + c1 * cv, p == ww - cv;
    assert(n >= 0) by (nonlinear_arith) requires n == a * b, a >= 0, b >= 0;
    let s2 = lo1 + (c1 + 1) * cv;
    assert((c1 + 1) * cv == c1 * cv + cv) by (nonlinear_arith);
    assert(c1 * cv <= (B() - 1) * (B() - 1)) by (nonlinear_arith) requires 0 <= c1 <= B() - 1, 0 <= cv <= B() - 1;
    assert((B() - 1) * (B() - 1) == B() * B() - 2 * B() + 1) by (nonlinear_arith);
    assert(c2 == 0 || c2 == 1) by (nonlinear_arith) requires lo2 + c2 * ww == s2, s2 < 2 * ww, lo2 >= 0, c2 >= 0, ww > 0;
    assert(c2 * ww == (if c2 == 1 { ww } else { 0 })) by (nonlinear_arith) requires c2 == 0 || c2 == 1;
    assert(t >= 0) by (nonlinear_arith) requires t == lo1 + c1 * cv, lo1 >= 0, c1 >= 0, cv >= 0;
    // the quotient estimate is off by at most one: t < 2p is not needed, only t - p < p when the second addition overflows
    let res = if c2 == 1 { t - p } else { t };
    assert(0 <= res < p);
    let qq = if c2 == 1 { hv + c1 + 1 } else { hv + c1 };
    assert(n == p * qq + res) by (nonlinear_arith) requires n - t == (hv + c1) * p, res == (if c2 == 1 { t - p } else { t }), qq == (if c2 == 1 { hv + c1 + 1 } else { hv + c1 });
    lemma_fundamental_div_mod_converse(n, p, qq, res);
}

/// conditional subtraction of the modulus after an addition: s in [0, 2p), out = s mod p
proof fn lemma_cond_sub(s: int, p: int, ww: int, w: int, lt: bool)
    requires 0 <= s < 2 * p, p < ww, 0 <= w < ww, lt == (s < p),
        w == (if lt { s - p + ww } else { s - p })
    ensures (w + (if lt { p } else { 0 })) % ww == s % p, s % p < p
{
    if lt {
        lemma_small_mod(s as nat, p as nat);
        lemma_mod_add_multiples_vanish(s, ww);
        lemma_small_mod(s as nat, ww as nat);
        assert(w + p == ww + s);
    } else {
        lemma_fundamental_div_mod_converse(s, p, 1, s - p);
        lemma_small_mod(w as nat, ww as nat);
    }
}

/// conditional addition of the modulus after a subtraction: d in [-p, p), out = d mod p
proof fn lemma_cond_add(d: int, p: int, ww: int, out: int, neg: bool)
    requires -p <= d < p, 0 < p < ww, 0 <= out < ww, neg == (d < 0),
        out == (if neg { d + ww } else { d })
    ensures (out + (if neg { p } else { 0 })) % ww == d % p, 0 <= d % p < p
{
    if neg {
        lemma_mod_add_multiples_vanish(d + p, ww); lemma_small_mod((d + p) as nat, ww as nat);
        lemma_mod_add_multiples_vanish(d, p); lemma_small_mod((d + p) as nat, p as nat);
        assert(out + p == ww + (d + p));
    } else {
        lemma_small_mod(d as nat, ww as nat); lemma_small_mod(d as nat, p as nat);
    }
}

//@@ subst \b(Self|Uint)::(ZERO|ONE|MAX|BITS|LOG2_BITS)\b(?!\() => \1::\2()
//@@ subst \bUint::<(\w+)>::(ZERO|ONE|MAX|BITS)\b(?!\() => Uint::<\1>::\2()
//@@ fn src/uint/bit_and.rs | impl<const LIMBS: usize> Uint<LIMBS> | bitand_limb | body | props C05 C11
impl<const LIMBS: usize> Uint<LIMBS> {
pub const fn bitand_limb(&self, rhs: Limb) -> (ret__: Self)
//@+
    ensures forall|k: int| 0 <= k < LIMBS ==> ret__.limbs@[k].0 == self.limbs@[k].0 & rhs.0,
        rhs.0 == 0 ==> ret__.v() == 0, rhs.0 == u64::MAX ==> ret__.v() == self.v()
//@-
{
        let mut limbs = [Limb::ZERO; LIMBS];
        let mut i = 0;
        while i < LIMBS
//@+
    invariant i <= LIMBS, forall|k: int| 0 <= k < i ==> limbs@[k].0 == self.limbs@[k].0 & rhs.0,
    decreases LIMBS - i,
//@-
{
            limbs[i] = self.limbs[i].bitand(rhs);
            i += 1;
        }
//@+
    proof {
        let m = rhs.0;
        assert forall|k: int| 0 <= k < LIMBS && m == 0 implies limbs@[k].0 == 0 by {
            let x = self.limbs@[k].0; assert(x & 0 == 0) by (bit_vector);
        }
        assert forall|k: int| 0 <= k < LIMBS && m == u64::MAX implies limbs@[k] == self.limbs@[k] by {
            let x = self.limbs@[k].0; assert(x & 0xffff_ffff_ffff_ffffu64 == x) by (bit_vector);
        }
        if m == 0 { lemma_val_zero(limbs@, LIMBS as nat); }
        if m == u64::MAX { lemma_val_ext(limbs@, self.limbs@, LIMBS as nat); }
    }
//@-
        Self { limbs }
    }
}
//@@ end
//@@ fn src/non_zero.rs | impl NonZero<Limb> | new_unwrap | body | props C12 C11
impl NonZero<Limb> {
pub const fn new_unwrap(n: Limb) -> (ret__: Self)
//@+
    requires n.0 != 0
    ensures ret__.0 == n
//@-
{
        if n.is_nonzero().is_true_vartime() {
            Self(n)
        } else {
            panic!("Invalid value: zero")
        }
    }
}
//@@ end
//@@ fn src/uint/add_mod.rs | impl<const LIMBS: usize> Uint<LIMBS> | add_mod | body | props C07 C11
impl<const LIMBS: usize> Uint<LIMBS> {
pub const fn add_mod(&self, rhs: &Self, p: &Self) -> (ret__: Self)
//@+
    requires self.v() + rhs.v() < 2 * p.v()
    ensures ret__.v() == (self.v() + rhs.v()) % p.v(), ret__.v() < p.v()
//@-
{
        let (w, carry) = self.adc(rhs, Limb::ZERO);
//@+
    let ghost w0 = w;
//@-
        // Attempt to subtract the modulus, to ensure the result is in the field.
        let (w, borrow) = w.sbb(p, Limb::ZERO);
        let (_, mask) = carry.sbb(Limb::ZERO, borrow);
//@+
    proof {
        lemma_rng(self); lemma_rng(rhs); lemma_rng(p); lemma_rng(&w); lemma_rng(&w0);
        let ww = bp(LIMBS as nat); let s = self.v() + rhs.v();
        let c = carry.0 as int;
        assert(c * ww == (if c == 1 { ww } else { 0 })) by (nonlinear_arith) requires c == 0 || c == 1;
        assert(bb(borrow) * ww == (if bb(borrow) == 1 { ww } else { 0 })) by (nonlinear_arith) requires bb(borrow) == 0 || bb(borrow) == 1;
        // mask == MAX  <=>  s < p
        assert((mask.0 == u64::MAX) == (s < p.v()));
        assert(mask.0 == 0 || mask.0 == u64::MAX);
        lemma_cond_sub(s, p.v(), ww, w.v(), s < p.v());
    }
//@-
        // If underflow occurred on the final limb, borrow = 0xfff...fff, otherwise
        // borrow = 0x000...000. Thus, we use it as a mask to conditionally add the
        // modulus.
        w.wrapping_add(&p.bitand_limb(mask))
    }
}
//@@ end
//@@ fn src/uint/add_mod.rs | impl<const LIMBS: usize> Uint<LIMBS> | double_mod | body | props C07 C11
impl<const LIMBS: usize> Uint<LIMBS> {
pub const fn double_mod(&self, p: &Self) -> (ret__: Self)
//@+
    requires self.v() < p.v()
    ensures ret__.v() == (2 * self.v()) % p.v(), ret__.v() < p.v()
//@-
{
//@+
    proof { if LIMBS == 0 { assert(self.v() == 0 && p.v() == 0); } }
//@-
        let (w, carry) = self.overflowing_shl1();
//@+
    let ghost w0 = w;
//@-
        // Attempt to subtract the modulus, to ensure the result is in the field.
        let (w, borrow) = w.sbb(p, Limb::ZERO);
        let (_, mask) = carry.sbb(Limb::ZERO, borrow);
//@+
    proof {
        lemma_rng(self); lemma_rng(p); lemma_rng(&w); lemma_rng(&w0);
        let ww = bp(LIMBS as nat); let s = 2 * self.v();
        let c = carry.0 as int;
        assert(c * ww == (if c == 1 { ww } else { 0 })) by (nonlinear_arith) requires c == 0 || c == 1;
        assert(bb(borrow) * ww == (if bb(borrow) == 1 { ww } else { 0 })) by (nonlinear_arith) requires bb(borrow) == 0 || bb(borrow) == 1;
        assert((mask.0 == u64::MAX) == (s < p.v()));
        assert(mask.0 == 0 || mask.0 == u64::MAX);
        lemma_cond_sub(s, p.v(), ww, w.v(), s < p.v());
    }
//@-
        // If underflow occurred on the final limb, borrow = 0xfff...fff, otherwise
        // borrow = 0x000...000. Thus, we use it as a mask to conditionally add the
        // modulus.
        w.wrapping_add(&p.bitand_limb(mask))
    }
}
//@@ end
//@@ fn src/uint/add_mod.rs | impl<const LIMBS: usize> Uint<LIMBS> | add_mod_special | body | props C07 C11
impl<const LIMBS: usize> Uint<LIMBS> {
pub const fn add_mod_special(&self, rhs: &Self, c: Limb) -> (ret__: Self)
//@+
    requires LIMBS >= 1, c.0 >= 1, self.v() + rhs.v() < 2 * (bp(LIMBS as nat) - c.0 as int)
    ensures ret__.v() == (self.v() + rhs.v()) % (bp(LIMBS as nat) - c.0 as int), ret__.v() < bp(LIMBS as nat) - c.0 as int
//@-
{
        // `Uint::adc` also works with a carry greater than 1.
        let (out, carry) = self.adc(rhs, c);
        // If overflow occurred, then above addition of `c` already accounts
        // for the overflow. Otherwise, we need to subtract `c` again, which
        // in that case cannot underflow.
        let l = carry.0.wrapping_sub(1) & c.0;
//@+
    proof {
        lemma_rng(self); lemma_rng(rhs); lemma_rng(&out);
        let ww = bp(LIMBS as nat); let cv = c.0 as int; let p = ww - cv; let s = self.v() + rhs.v(); let cy = carry.0 as int;
        lemma_bp_succ((LIMBS - 1) as nat);
        assert(ww >= B()) by (nonlinear_arith) requires ww == B() * bp((LIMBS - 1) as nat), bp((LIMBS - 1) as nat) >= 1;
        assert(cy == 0 || cy == 1) by (nonlinear_arith) requires out.v() + cy * ww == s + cv, s + cv < 2 * ww, out.v() >= 0, cy >= 0, ww > 0;
        assert(cy * ww == (if cy == 1 { ww } else { 0 })) by (nonlinear_arith) requires cy == 0 || cy == 1;
        let cw = carry.0; let c0 = c.0;
        let ws = cw.wrapping_sub(1);
        lemma_wsub_u64(cw, 1, ws);
        assert(l == (if cw == 1 { 0 } else { c0 })) by (bit_vector) requires l == (sub(cw, 1) & c0), cw == 0 || cw == 1;
        if cy == 1 {
            // s + c >= W  => s >= p ; out = s + c - W = s - p
            lemma_fundamental_div_mod_converse(s, p, 1, s - p);
            lemma_small_mod(out.v() as nat, ww as nat);
        } else {
            // s + c < W => s < p ; out - c = s
            lemma_small_mod(s as nat, p as nat);
            lemma_small_mod(s as nat, ww as nat);
        }
    }
//@-
        out.wrapping_sub(&Self::from_word(l))
    }
}
//@@ end
//@@ fn src/uint/sub_mod.rs | impl<const LIMBS: usize> Uint<LIMBS> | sub_mod | body | props C07 C11
impl<const LIMBS: usize> Uint<LIMBS> {
pub const fn sub_mod(&self, rhs: &Self, p: &Self) -> (ret__: Self)
//@+
    requires -p.v() <= self.v() - rhs.v() < p.v(), p.v() > 0
    ensures ret__.v() == (self.v() - rhs.v()) % p.v(), ret__.v() < p.v()
//@-
{
        let (out, mask) = self.sbb(rhs, Limb::ZERO);
//@+
    proof {
        lemma_rng(self); lemma_rng(rhs); lemma_rng(p); lemma_rng(&out);
        let ww = bp(LIMBS as nat); let d = self.v() - rhs.v();
        assert(bb(mask) * ww == (if bb(mask) == 1 { ww } else { 0 })) by (nonlinear_arith) requires bb(mask) == 0 || bb(mask) == 1;
        lemma_cond_add(d, p.v(), ww, out.v(), d < 0);
    }
//@-
        // If underflow occurred on the final limb, borrow = 0xfff...fff, otherwise
        // borrow = 0x000...000. Thus, we use it as a mask to conditionally add the modulus.
        out.wrapping_add(&p.bitand_limb(mask))
    }
}
//@@ end
//@@ fn src/uint/sub_mod.rs | impl<const LIMBS: usize> Uint<LIMBS> | sub_mod_with_carry | body | props C07 C08 C11
impl<const LIMBS: usize> Uint<LIMBS> {
pub const fn sub_mod_with_carry(&self, carry: Limb, rhs: &Self, p: &Self) -> (ret__: Self)
//@+
    requires carry.0 <= 1, -p.v() <= self.v() + carry.0 as int * bp(LIMBS as nat) - rhs.v() < p.v(), p.v() > 0
    ensures ret__.v() == (self.v() + carry.0 as int * bp(LIMBS as nat) - rhs.v()) % p.v(), ret__.v() < p.v()
//@-
{
        debug_assert!(carry.0 <= 1);
        let (out, borrow) = self.sbb(rhs, Limb::ZERO);
        // The new `borrow = Word::MAX` iff `carry == 0` and `borrow == Word::MAX`.
//@+
    let ghost cw = carry.0; let ghost bw = borrow.0;
    proof {
        assert(0 < B()); lemma_mod_self_0(B()); lemma_small_mod((B() - 1) as nat, B() as nat);
        assert(!0u64 == 0xffff_ffff_ffff_ffffu64) by (bit_vector);
        assert(!0xffff_ffff_ffff_ffffu64 == 0u64) by (bit_vector);
        assert(0xffff_ffff_ffff_ffffu64 & bw == bw) by (bit_vector);
        assert(0u64 & bw == 0u64) by (bit_vector);
    }
//@-
        let mask = carry.wrapping_neg().not().bitand(borrow);
//@+
    proof {
        lemma_rng(self); lemma_rng(rhs); lemma_rng(p); lemma_rng(&out);
        let ww = bp(LIMBS as nat); let c = carry.0 as int; let d = self.v() + c * ww - rhs.v();
        assert(c * ww == (if c == 1 { ww } else { 0 })) by (nonlinear_arith) requires c == 0 || c == 1;
        assert(bb(borrow) * ww == (if bb(borrow) == 1 { ww } else { 0 })) by (nonlinear_arith) requires bb(borrow) == 0 || bb(borrow) == 1;
        assert((mask.0 == u64::MAX) == (c == 0 && borrow.0 == u64::MAX));
        assert(mask.0 == 0 || mask.0 == u64::MAX);
        assert((mask.0 == u64::MAX) == (d < 0));
        lemma_cond_add(d, p.v(), ww, out.v(), d < 0);
    }
//@-
        // If underflow occurred on the final limb, borrow = 0xfff...fff, otherwise
        // borrow = 0x000...000. Thus, we use it as a mask to conditionally add the modulus.
        out.wrapping_add(&p.bitand_limb(mask))
    }
}
//@@ end
//@@ fn src/uint/sub_mod.rs | impl<const LIMBS: usize> Uint<LIMBS> | sub_mod_special | body | props C07 C11
impl<const LIMBS: usize> Uint<LIMBS> {
pub const fn sub_mod_special(&self, rhs: &Self, c: Limb) -> (ret__: Self)
//@+
    requires LIMBS >= 1, c.0 >= 1, -(bp(LIMBS as nat) - c.0 as int) <= self.v() - rhs.v() < bp(LIMBS as nat) - c.0 as int
    ensures ret__.v() == (self.v() - rhs.v()) % (bp(LIMBS as nat) - c.0 as int), ret__.v() < bp(LIMBS as nat) - c.0 as int
//@-
{
        let (out, borrow) = self.sbb(rhs, Limb::ZERO);
        // If underflow occurred, then we need to subtract `c` to account for
        // the underflow. This cannot underflow due to the assumption
        // `self - rhs >= -p`.
        let l = borrow.0 & c.0;
//@+
    proof {
        lemma_rng(self); lemma_rng(rhs); lemma_rng(&out);
        let ww = bp(LIMBS as nat); let cv = c.0 as int; let p = ww - cv; let d = self.v() - rhs.v();
        lemma_bp_succ((LIMBS - 1) as nat);
        assert(ww >= B()) by (nonlinear_arith) requires ww == B() * bp((LIMBS - 1) as nat), bp((LIMBS - 1) as nat) >= 1;
        assert(bb(borrow) * ww == (if bb(borrow) == 1 { ww } else { 0 })) by (nonlinear_arith) requires bb(borrow) == 0 || bb(borrow) == 1;
        let bw = borrow.0; let c0 = c.0;
        assert(l == (if bw == 0xffff_ffff_ffff_ffffu64 { c0 } else { 0 })) by (bit_vector) requires l == (bw & c0), bw == 0 || bw == 0xffff_ffff_ffff_ffffu64;
        if d < 0 {
            // out = d + W ; out - c = d + p
            lemma_small_mod((d + p) as nat, ww as nat);
            lemma_mod_add_multiples_vanish(d, p); lemma_small_mod((d + p) as nat, p as nat);
        } else {
            lemma_small_mod(d as nat, ww as nat); lemma_small_mod(d as nat, p as nat);
        }
    }
//@-
        out.wrapping_sub(&Self::from_word(l))
    }
}
//@@ end
//@@ fn src/uint/neg_mod.rs | impl<const LIMBS: usize> Uint<LIMBS> | neg_mod | body | props C07 C11
impl<const LIMBS: usize> Uint<LIMBS> {
pub const fn neg_mod(&self, p: &Self) -> (ret__: Self)
//@+
    requires self.v() < p.v()
    ensures ret__.v() == (p.v() - self.v()) % p.v(), ret__.v() < p.v()
//@-
{
        let z = self.is_nonzero();
        let mut ret = p.sbb(self, Limb::ZERO).0;
//@+
    let ghost r0 = ret;
//@-
        let mut i = 0;
        while i < LIMBS
//@+
    invariant 0 <= i <= LIMBS, z.wf(),
        forall|k: int| 0 <= k < i ==> ret.limbs@[k].0 == (if z.t() { r0.limbs@[k].0 } else { 0 }),
        forall|k: int| i <= k < LIMBS ==> ret.limbs@[k] == r0.limbs@[k],
    decreases LIMBS - i,
//@-
{
            // Set ret to 0 if the original value was 0, in which
            // case ret would be p.
            ret.limbs[i].0 = z.if_true_word(ret.limbs[i].0);
            i += 1;
        }
//@+
    proof {
        lemma_rng(self); lemma_rng(p); lemma_rng(&r0);
        let ww = bp(LIMBS as nat);
        assert(0 * ww == 0);
        assert(1 * ww == ww);
        if z.t() {
            lemma_val_ext(ret.limbs@, r0.limbs@, LIMBS as nat);
            lemma_small_mod((p.v() - self.v()) as nat, p.v() as nat);
        } else {
            lemma_val_zero(ret.limbs@, LIMBS as nat);
            lemma_mod_self_0(p.v());
        }
    }
//@-
        ret
    }
}
//@@ end
//@@ fn src/uint/neg_mod.rs | impl<const LIMBS: usize> Uint<LIMBS> | neg_mod_special | body | props C07 C11
impl<const LIMBS: usize> Uint<LIMBS> {
pub const fn neg_mod_special(&self, c: Limb) -> (ret__: Self)
//@+
    requires LIMBS >= 1, c.0 >= 1, self.v() <= bp(LIMBS as nat) - c.0 as int
    ensures ret__.v() == (-self.v()) % (bp(LIMBS as nat) - c.0 as int), ret__.v() < bp(LIMBS as nat) - c.0 as int
//@-
{
//@+
    proof {
        lemma_rng(self);
        lemma_bp_succ((LIMBS - 1) as nat);
        assert(bp(LIMBS as nat) >= B()) by (nonlinear_arith) requires bp(LIMBS as nat) == B() * bp((LIMBS - 1) as nat), bp((LIMBS - 1) as nat) >= 1;
    }
//@-
        Self::ZERO().sub_mod_special(self, c)
    }
}
//@@ end
//@@ fn src/modular/div_by_2.rs | - | div_by_2 | body | props C07 C08 C11
pub const fn div_by_2<const LIMBS: usize>(
    a: &Uint<LIMBS>,
    modulus: &Odd<Uint<LIMBS>>,
) -> (ret__: Uint<LIMBS>)
//@+
    requires 1 <= LIMBS < 0x400_0000, modulus.0.v() % 2 == 1, a.v() < modulus.0.v()
    ensures ret__.v() < modulus.0.v(), (2 * ret__.v()) % modulus.0.v() == a.v()
//@-
{
    // We are looking for such `b` that `b + b = a mod modulus`.
    // Two possibilities:
    // - if `a` is even, we can just divide by 2;
    // - if `a` is odd, we divide `(a + modulus)` by 2.
    // Note that this also works if `a` is a Montgomery representation modulo `modulus`
    // of some integer `x`.
    // If `b + b = a mod modulus` it means that `y + y = x mod modulus` where `y` is the integer
    // whose Montgomery representation is `b`.
    let is_odd = a.is_odd();
    let (if_odd, carry) = a.adc(&modulus.0, Limb::ZERO);
//@+
    let ghost carry0 = carry;
//@-
    let carry = Limb::select(Limb::ZERO, carry, is_odd);
//@+
    proof {
        lemma_rng(a); lemma_rng(&modulus.0); lemma_rng(&if_odd);
        let ww = bp(LIMBS as nat); let m = modulus.0.v(); let av = a.v(); let c = carry.0 as int;
        let hh = p2((64 * LIMBS - 1) as nat);
        lemma_top_bit(LIMBS as nat);
        let s = if is_odd.t() { if_odd.v() } else { av };
        let r = s / 2 + (if c == 1 { hh } else { 0 });
        if is_odd.t() {
            assert(c == 0 || c == 1);
            assert(c * ww == (if c == 1 { ww } else { 0 })) by (nonlinear_arith) requires c == 0 || c == 1;
            assert((av + m) % 2 == 0);
            assert(2 * r == av + m);
            lemma_fundamental_div_mod_converse(av + m, m, 1, av);
        } else {
            assert(c == 0);
            assert(2 * r == av);
            lemma_small_mod(av as nat, m as nat);
        }
        assert(r < m);
        assert((2 * r) % m == av);
        assert(0 <= s / 2 < hh);
        assert forall|v: int, k: nat| k == 64 * LIMBS - 1 && 0 <= v < p2(k) implies #[trigger] (v / p2(k)) == 0 by {
            lemma_basic_div(v, p2(k));
        }
        assert(0int % 2 == 0);
    }
//@-
    Uint::<LIMBS>::select(a, &if_odd, is_odd)
        .shr1()
        .set_bit(Uint::<LIMBS>::BITS() - 1, carry.is_nonzero())
}
//@@ end
//@@ fn src/uint/mul_mod.rs | - | mac_by_limb | body | props C07 C11
pub const fn mac_by_limb<const LIMBS: usize>(
    a: &Uint<LIMBS>,
    b: &Uint<LIMBS>,
    c: Limb,
    carry: Limb,
) -> (ret__: (Uint<LIMBS>, Limb))
//@+
    ensures ret__.0.v() + ret__.1.0 as int * bp(LIMBS as nat) == a.v() + b.v() * c.0 as int + carry.0 as int
//@-
{
//@+
    let ghost a0 = *a; let ghost carry0 = carry;
//@-
    let mut i = 0;
    let mut a = *a;
    let mut carry = carry;
//@+
    proof { lemma_bp_succ(0); assert(0 * c.0 as int == 0); }
//@-
    while i < LIMBS
//@+
    invariant 0 <= i <= LIMBS,
        forall|k: int| i <= k < LIMBS ==> a.limbs@[k] == a0.limbs@[k],
        val(a.limbs@, i as nat) + carry.0 as int * bp(i as nat) == val(a0.limbs@, i as nat) + val(b.limbs@, i as nat) * c.0 as int + carry0.0 as int,
    decreases LIMBS - i,
//@-
{
//@+
    let ghost ab = a.limbs@; let ghost cb = carry;
//@-
        let (__t0, __t1) = a.limbs[i].mac(b.limbs[i], c, carry); a.limbs[i] = __t0; carry = __t1;
//@+
    proof {
        lemma_val_ext(ab, a.limbs@, i as nat);
        lemma_bp_succ(i as nat);
        let pk = bp(i as nat); let x = __t0.0 as int; let c1 = carry.0 as int; let c0 = cb.0 as int;
        let ai = a0.limbs@[i as int].0 as int; let bi = b.limbs@[i as int].0 as int; let cv = c.0 as int;
        assert(x + c1 * B() == ai + bi * cv + c0);
        assert(x * pk + c1 * (B() * pk) == ai * pk + (bi * pk) * cv + c0 * pk) by (nonlinear_arith) requires x + c1 * B() == ai + bi * cv + c0;
        assert((val(b.limbs@, i as nat) + bi * pk) * cv == val(b.limbs@, i as nat) * cv + (bi * pk) * cv) by (nonlinear_arith);
    }
//@-
        i += 1;
    }
    (a, carry)
}
//@@ end
//@@ fn src/uint/mul_mod.rs | impl<const LIMBS: usize> Uint<LIMBS> | mul_mod_special | body | props C07 C11
impl<const LIMBS: usize> Uint<LIMBS> {
pub const fn mul_mod_special(&self, rhs: &Self, c: Limb) -> (ret__: Self)
//@+
    requires LIMBS >= 1, 2 * LIMBS <= usize::MAX, c.0 >= 1
    ensures ret__.v() == (self.v() * rhs.v()) % (bp(LIMBS as nat) - c.0 as int), ret__.v() < bp(LIMBS as nat) - c.0 as int
//@-
{
//@+
    let ghost rhs0 = *rhs;
//@-
        // We implicitly assume `LIMBS > 0`, because `Uint<0>` doesn't compile.
        // Still the case `LIMBS == 1` needs special handling.
        if LIMBS == 1 {
//@+
    proof {
        lemma_bp1();
        lemma_val_single(self.limbs@, 1); lemma_val_single(rhs.limbs@, 1);
        let c0 = c.0; let m = 0u64.wrapping_sub(c0);
        assert(m as int == B() - c0 as int);
    }
//@-
            let reduced = mul_rem(
                self.limbs[0],
                rhs.limbs[0],
                NonZero::<Limb>::new_unwrap(Limb(Word::MIN.wrapping_sub(c.0))),
            );
//@+
    proof {
        let n = self.v() * rhs0.v(); let p = B() - c.0 as int;
        assert(n >= 0) by (nonlinear_arith) requires n == self.v() * rhs0.v(), self.v() >= 0, rhs0.v() >= 0;
        lemma_mod_pos_bound(n, p);
    }
//@-
            return Self::from_word(reduced.0);
        }
        let (lo, hi) = self.split_mul(rhs);
//@+
    let ghost lo0 = lo;
//@-
        // Now use Algorithm 14.47 for the reduction
        let (lo, carry) = mac_by_limb(&lo, &hi, c, Limb::ZERO);
//@+
    let ghost lo1 = lo; let ghost carry1 = carry;
    proof {
        lemma_rng(&lo0); lemma_rng(&hi); lemma_rng(&lo1); lemma_rng(self); lemma_rng(&rhs0);
        let cv = c.0 as int; let c1 = carry1.0 as int;
        assert((c1 + 1) * cv <= 0xffff_ffff_ffff_ffff * 0x1_0000_0000_0000_0000) by (nonlinear_arith) requires 0 <= c1 <= 0xffff_ffff_ffff_ffff, 0 <= cv <= 0xffff_ffff_ffff_ffff;
    }
//@-
        let (lo, carry) = {
            let rhs = (carry.0 as WideWord + 1) * c.0 as WideWord;
            lo.adc(&Self::from_wide_word(rhs), Limb::ZERO)
        };
//@+
    let ghost lo2 = lo; let ghost carry2 = carry;
//@-
        let (lo, _) = {
            let rhs = carry.0.wrapping_sub(1) & c.0;
//@+
    proof {
        lemma_rng(&lo2);
        lemma_mms_core::<LIMBS>(self.v(), rhs0.v(), lo0.v(), hi.v(), lo1.v(), carry1.0 as int, lo2.v(), carry2.0 as int, c.0 as int);
        let cw = carry2.0; let c0 = c.0; let ws = cw.wrapping_sub(1);
        lemma_wsub_u64(cw, 1, ws);
        assert(rhs == (if cw == 1 { 0 } else { c0 })) by (bit_vector) requires rhs == (sub(cw, 1) & c0), cw == 0 || cw == 1;
        assert(0u64 >> 63 == 0) by (bit_vector);
        let n = self.v() * rhs0.v(); let p = bp(LIMBS as nat) - c.0 as int;
        assert(lo2.v() - rhs as int == n % p);
        lemma_small_mod((n % p) as nat, bp(LIMBS as nat) as nat);
    }
//@-
            lo.sbb(&Self::from_word(rhs), Limb::ZERO)
        };
        lo
    }
}
//@@ end
//@@ fn src/uint/mul_mod.rs | impl<const LIMBS: usize> Uint<LIMBS> | mul_mod_vartime | body | props C07 C11 C15
impl<const LIMBS: usize> Uint<LIMBS> {
pub fn mul_mod_vartime(&self, rhs: &Uint<LIMBS>, p: &NonZero<Uint<LIMBS>>) -> (ret__: Uint<LIMBS>)
//@+
    requires 1 <= LIMBS < 0x400_0000, p.0.v() != 0
    ensures ret__.v() == (self.v() * rhs.v()) % p.0.v(), ret__.v() < p.0.v()
//@-
{
//@+
    proof {
        lemma_rng(self); lemma_rng(rhs); lemma_rng(&p.0);
        let n = self.v() * rhs.v();
        assert(n >= 0) by (nonlinear_arith) requires n == self.v() * rhs.v(), self.v() >= 0, rhs.v() >= 0;
        lemma_mod_pos_bound(n, p.0.v());
    }
//@-
        let lo_hi = self.split_mul(rhs);
        Self::rem_wide_vartime(lo_hi, p)
    }
}
//@@ end

} // verus!
