// L3: division by a single limb (src/uint/div_limb.rs and the limb forms in src/uint/div.rs) -- C02
use vstd::prelude::*;
use vstd::arithmetic::power::*;
use vstd::arithmetic::power2::*;
use vstd::arithmetic::div_mod::*;
use crate::speclib::*;
use crate::speclib_bits::*;
use crate::l0_prim::*;
use crate::l1_choice::*;
use crate::l1_limb::*;
use crate::l2_core::*;
verus! {

//@@ item src/uint/div_limb.rs | struct Reciprocal
#[derive(Copy, Clone)]
pub struct Reciprocal {
    pub divisor_normalized: Word,
    pub shift: u32,
    pub reciprocal: Word,
}
//@@ end
impl Reciprocal {
    /// the Moeller-Granlund reciprocal relation: v = floor((B^2 - 1) / d) - B for a normalised d
    pub open spec fn wf(&self) -> bool {
        let d = self.divisor_normalized as int; let v = self.reciprocal as int;
        &&& d >= B() / 2 &&& (B() + v) * d <= B() * B() - 1 &&& B() * B() - 1 < (B() + v) * d + d &&& self.shift < 64
    }
    /// the divisor this reciprocal was built for
    pub open spec fn dv(&self) -> int { self.divisor_normalized as int / p2(self.shift as nat) }
}

// ---------------------------------------------------------------- div2by1 (Moeller-Granlund, Algorithm 4)
/// b*rt == u1*k + u0*(b-d) + q0*d - b*d   (symbolic b)
proof fn lemma_d21_identity(b: int, u1: int, u0: int, d: int, v: int, q1p: int, q0: int, k: int, rt: int)
    requires rt == u1 * b + u0 - (q1p + 1) * d, k == b * b - (b + v) * d, q1p * b + q0 == (b + v) * u1 + u0
    ensures b * rt == u1 * k + u0 * (b - d) + q0 * d - b * d
{
    let x = q1p * b; let y = (b + v) * u1; let bb = b * b; let z = (b + v) * d;
    assert(b * rt == u1 * bb + u0 * b - x * d - b * d) by (nonlinear_arith)
        requires rt == u1 * b + u0 - (q1p + 1) * d, x == q1p * b, bb == b * b;
    assert(x * d == y * d + u0 * d - q0 * d) by (nonlinear_arith) requires x == y + u0 - q0;
    assert(u1 * k == u1 * bb - u1 * z) by (nonlinear_arith) requires k == bb - z;
    assert(u1 * z == y * d) by (nonlinear_arith) requires z == (b + v) * d, y == (b + v) * u1;
    assert(u0 * (b - d) == u0 * b - u0 * d) by (nonlinear_arith);
}

/// u1 < d, u0 < b  ==>  u1*b + u0 < d*b   (symbolic b)
proof fn lemma_d21_uu_bound(b: int, u1: int, u0: int, d: int)
    requires u1 <= d - 1, u0 < b, b > 0
    ensures u1 * b + u0 < d * b
{
    assert(u1 * b <= (d - 1) * b) by (nonlinear_arith) requires u1 <= d - 1, b > 0;
    assert((d - 1) * b == d * b - b) by (nonlinear_arith);
}

/// Theorem 2 of Moeller-Granlund: bounds of the candidate remainder rt = u - (q1p + 1) d
proof fn lemma_div2by1(u1: int, u0: int, d: int, v: int, q1p: int, q0: int)
    requires
        B() / 2 <= d < B(), 0 <= v < B(), 0 <= u1 < d, 0 <= u0 < B(),
        (B() + v) * d <= B() * B() - 1,
        B() * B() - 1 < (B() + v) * d + d,
        0 <= q0 < B(),
        q1p * B() + q0 == (B() + v) * u1 + u0,
    ensures
        0 <= q1p < B(),
        ({ let rt = u1 * B() + u0 - (q1p + 1) * d;
           &&& rt >= -d
           &&& rt >= q0 + 1 - B()
           &&& (rt < B() - d || rt < q0) }),
{
    let b = B();
    let k = b * b - (b + v) * d;
    assert(1 <= k <= d);
    assert((b + v) * u1 <= (b + v) * (d - 1)) by (nonlinear_arith) requires u1 <= d - 1, b + v >= 0;
    assert((b + v) * (d - 1) == (b + v) * d - (b + v)) by (nonlinear_arith);
    assert(q1p * b + q0 < b * b);
    assert(q1p < b) by (nonlinear_arith) requires q1p * b + q0 < b * b, q0 >= 0, b > 0;
    assert(q1p >= 0) by (nonlinear_arith) requires q1p * b + q0 >= 0, q0 < b, b > 0;
    let rt = u1 * b + u0 - (q1p + 1) * d;
    lemma_d21_identity(b, u1, u0, d, v, q1p, q0, k, rt);
    assert(u1 * k >= 0) by (nonlinear_arith) requires u1 >= 0, k >= 0;
    assert(u0 * (b - d) >= 0) by (nonlinear_arith) requires u0 >= 0, b - d >= 0;
    assert(q0 * d >= 0) by (nonlinear_arith) requires q0 >= 0, d >= 0;
    assert(rt >= -d) by (nonlinear_arith) requires b * rt >= -(b * d), b > 0;
    assert((q0 - b) * d >= (q0 - b) * b) by (nonlinear_arith) requires q0 - b <= 0, d <= b;
    assert(q0 * d - b * d == (q0 - b) * d) by (nonlinear_arith);
    assert(rt >= q0 - b) by (nonlinear_arith) requires b * rt >= (q0 - b) * b, b > 0;
    assert(rt >= q0 + 1 - b) by {
        if rt == q0 - b {
            assert((q0 - b) * d > (q0 - b) * b) by (nonlinear_arith) requires q0 - b < 0, d < b;
            assert(b * rt == b * (q0 - b));
            assert(b * (q0 - b) == (q0 - b) * b) by (nonlinear_arith);
            assert(false);
        }
    }
    assert(u1 * k <= (d - 1) * d) by (nonlinear_arith) requires 0 <= u1 <= d - 1, 0 <= k <= d;
    assert(u0 * (b - d) <= (b - 1) * (b - d)) by (nonlinear_arith) requires 0 <= u0 <= b - 1, b - d >= 0;
    let m = if b - d >= q0 { b - d } else { q0 };
    assert((b - d) * (b - d) + q0 * d <= m * b) by (nonlinear_arith)
        requires m >= b - d, m >= q0, b - d >= 0, d >= 0, q0 >= 0;
    assert((d - 1) * d + (b - 1) * (b - d) + q0 * d - b * d == (b - d) * (b - d) + q0 * d - b) by (nonlinear_arith);
    assert(b * rt <= m * b - b);
    assert(rt < m) by (nonlinear_arith) requires b * rt <= m * b - b, b > 0;
}

/// v*u1 + (u1, u0) does not overflow two words (precondition of addhilo)
proof fn lemma_d21_addhilo_pre(u1: int, u0: int, d: int, v: int, q1: int, q0: int)
    requires
        0 <= d < B(), 0 <= v < B(), 0 <= u1 < d, 0 <= u0 < B(),
        (B() + v) * d <= B() * B() - 1,
        q1 * B() + q0 == v * u1,
    ensures (q1 * B() + q0) + (u1 * B() + u0) < B() * B()
{
    let b = B();
    assert((b + v) * u1 <= (b + v) * (d - 1)) by (nonlinear_arith) requires u1 <= d - 1, b + v >= 0;
    assert((b + v) * (d - 1) == (b + v) * d - (b + v)) by (nonlinear_arith);
    assert((b + v) * u1 == u1 * b + v * u1) by (nonlinear_arith);
}

/// the wrapping computation r = u0 - q1*d (mod B) yields rt mod B
proof fn lemma_d21_wrap(u1: int, u0: int, d: int, q1p: int, q1: int, m: int, r: int)
    requires
        0 <= u0 < B(), 0 <= d < B(), 0 <= q1p < B(),
        q1 == (if q1p + 1 >= B() { q1p + 1 - B() } else { q1p + 1 }),
        m == (q1 * d) % B(),
        r == (if u0 - m >= 0 { u0 - m } else { u0 - m + B() }),
        -d <= u1 * B() + u0 - (q1p + 1) * d < B(),
    ensures
        ({ let rt = u1 * B() + u0 - (q1p + 1) * d; r == (if rt >= 0 { rt } else { rt + B() }) }),
{
    let b = B(); let a = (q1p + 1) * d;
    let rt = u1 * b + u0 - a;
    assert(q1 == (q1p + 1) % b) by {
        if q1p + 1 == b { lemma_mod_self_0(b); } else { lemma_small_mod((q1p + 1) as nat, b as nat); }
    }
    lemma_mul_mod_noop_left(q1p + 1, d, b);
    assert(m == a % b);
    lemma_mod_bound(a, b);
    assert(r == (u0 - m) % b) by {
        if u0 - m >= 0 { lemma_small_mod((u0 - m) as nat, b as nat); }
        else { lemma_mod_add_multiples_vanish(u0 - m, b); lemma_small_mod((u0 - m + b) as nat, b as nat); }
    }
    lemma_sub_mod_noop_right(u0, a, b);
    assert((u0 - m) % b == (u0 - a) % b);
    lemma_mod_multiples_vanish(u1, u0 - a, b);
    assert(b * u1 + (u0 - a) == rt) by (nonlinear_arith) requires rt == u1 * b + u0 - a;
    assert(rt % b == (u0 - a) % b);
    if rt >= 0 { lemma_small_mod(rt as nat, b as nat); }
    else { lemma_mod_add_multiples_vanish(rt, b); lemma_small_mod((rt + b) as nat, b as nat); }
}

/// state after the first (unlikely-branch-free) adjustment step
proof fn lemma_d21_fix1(u1: int, u0: int, d: int, q1p: int, q0: int, q10: int, r0: int, q1: int, r: int)
    requires
        B() / 2 <= d < B(), 0 <= u1 < d, 0 <= u0 < B(), 0 <= q1p < B(), 0 <= q0 < B(),
        ({ let rt = u1 * B() + u0 - (q1p + 1) * d;
           &&& rt >= -d
           &&& rt >= q0 + 1 - B()
           &&& (rt < B() - d || rt < q0)
           &&& r0 == (if rt >= 0 { rt } else { rt + B() }) }),
        q10 == (if q1p + 1 >= B() { q1p + 1 - B() } else { q1p + 1 }),
        q1 == (if q0 < r0 { if q10 - 1 < 0 { q10 - 1 + B() } else { q10 - 1 } } else { q10 }),
        r == (if q0 < r0 { if r0 + d >= B() { r0 + d - B() } else { r0 + d } } else { r0 }),
    ensures
        q1 * d + r == u1 * B() + u0,
        0 <= r < B(), 0 <= q1 < B(),
        r >= d ==> q1 < B() - 1,
{
    let b = B(); let uu = u1 * b + u0;
    let rt = uu - (q1p + 1) * d;
    assert((q1p + 1) * d == q1p * d + d) by (nonlinear_arith);
    lemma_d21_uu_bound(b, u1, u0, d);
    if rt >= 0 {
        assert(q1p + 1 < b) by (nonlinear_arith) requires (q1p + 1) * d <= uu, uu < d * b, d > 0;
    }
    assert(q1 * d + r == uu) by (nonlinear_arith)
        requires (q1 == q1p && r == rt + d) || (q1 == q1p + 1 && r == rt),
            rt == uu - (q1p + 1) * d, (q1p + 1) * d == q1p * d + d;
    assert(r >= d ==> q1 < b - 1) by (nonlinear_arith) requires q1 * d + r == uu, uu < d * b, d > 0;
}

// ---------------------------------------------------------------- div3by2 (Knuth Algorithm Q, 3-by-2 form)
/// Knuth 4.3.1 Theorem B, 3-by-2 form, integer-only
proof fn lemma_qhat_bound(qh: int, x: int, v1: int, v0: int, u0: int, q: int)
    requires
        B() / 2 <= v1 < B(), 0 <= v0 < B(), 0 <= u0 < B(), 0 <= x,
        0 <= qh <= B() - 1, qh * v1 <= x,
        q >= 0,
        q * (v1 * B() + v0) <= x * B() + u0 < (q + 1) * (v1 * B() + v0),
    ensures qh <= q + 2
{
    if qh >= q + 3 {
        let b = B();
        assert((q + 3) * v1 <= qh * v1) by (nonlinear_arith) requires q + 3 <= qh, v1 >= 0;
        assert((q + 3) * v1 * b <= x * b) by (nonlinear_arith) requires (q + 3) * v1 <= x, b > 0;
        assert((q + 1) * (v1 * b + v0) < (q + 1) * ((v1 + 1) * b)) by (nonlinear_arith) requires q + 1 > 0, v0 < b;
        assert((q + 1) * ((v1 + 1) * b) == (q + 1) * (v1 + 1) * b) by (nonlinear_arith);
        assert((q + 3) * v1 < (q + 1) * (v1 + 1)) by (nonlinear_arith)
            requires (q + 3) * v1 * b < (q + 1) * (v1 + 1) * b, b > 0;
        assert((q + 3) * v1 == q * v1 + 3 * v1) by (nonlinear_arith);
        assert((q + 1) * (v1 + 1) == q * v1 + q + v1 + 1) by (nonlinear_arith);
        assert(q >= b);
        assert(false);
    }
}

/// the true quotient qq = uu / vv brackets uu
proof fn lemma_d32_setup(v1: int, v0: int, x: int, u0: int)
    requires B() / 2 <= v1 < B(), 0 <= v0 < B(), 0 <= x, 0 <= u0 < B()
    ensures ({
        let vv = v1 * B() + v0; let uu = x * B() + u0; let qq = uu / vv;
        &&& vv > 0 &&& uu >= 0 &&& qq >= 0 &&& qq * vv <= uu < (qq + 1) * vv })
{
    let vv = v1 * B() + v0; let uu = x * B() + u0; let qq = uu / vv;
    assert(vv >= B() / 2 * B()) by (nonlinear_arith) requires vv == v1 * B() + v0, v1 >= B() / 2, v0 >= 0;
    assert(vv > 0);
    lemma_fundamental_div_mod(uu, vv);
    lemma_mod_bound(uu, vv);
    assert(uu >= 0) by (nonlinear_arith) requires uu == x * B() + u0, x >= 0, u0 >= 0;
    lemma_div_pos_is_pos(uu, vv);
    assert(vv * qq == qq * vv) by (nonlinear_arith);
    assert(qq * vv <= uu < (qq + 1) * vv) by (nonlinear_arith) requires uu == vv * qq + uu % vv, 0 <= uu % vv < vv;
}

/// the 2-by-1 estimate is never below the true quotient
proof fn lemma_d32_qhat_lower(qi: int, ri: int, x: int, v1: int, v0: int, u0: int, qq: int)
    requires
        B() / 2 <= v1 < B(), 0 <= v0 < B(), 0 <= u0 < B(), 0 <= x, qq >= 0,
        qi * v1 + ri == x, 0 <= ri < v1,
        qq * (v1 * B() + v0) <= x * B() + u0,
    ensures qq <= qi
{
    let b = B(); let vv = v1 * b + v0; let uu = x * b + u0;
    assert(qq * (v1 * b) <= qq * vv) by (nonlinear_arith) requires qq >= 0, vv == v1 * b + v0, v0 >= 0;
    assert(qq * (v1 * b) == qq * v1 * b) by (nonlinear_arith);
    assert(qq * v1 < x + 1) by (nonlinear_arith) requires qq * v1 * b <= uu, uu == x * b + u0, u0 < b, b > 0;
    assert(qq < qi + 1) by (nonlinear_arith) requires qq * v1 <= qi * v1 + ri, ri < v1, v1 > 0;
}

/// the loop test `rem >= B || quo*v0 <= rem*B + u0` decides quo*vv <= uu, i.e. quo <= qq
proof fn lemma_d32_done(qi: int, ri: int, x: int, v1: int, v0: int, u0: int, qq: int, done: bool)
    requires
        B() / 2 <= v1 < B(), 0 <= v0 < B(), 0 <= u0 < B(), 0 <= qi < B(), 0 <= ri, qq >= 0,
        qi * v1 + ri == x,
        qq * (v1 * B() + v0) <= x * B() + u0 < (qq + 1) * (v1 * B() + v0),
        done == (ri >= B() || qi * v0 <= ri * B() + u0),
    ensures
        done == (qi <= qq), !done ==> qi >= 1,
{
    let b = B(); let vv = v1 * b + v0; let uu = x * b + u0;
    assert(vv > 0) by (nonlinear_arith) requires vv == v1 * b + v0, v1 >= 1, v0 >= 0, b > 0;
    assert(qi * vv - uu == qi * v0 - ri * b - u0) by (nonlinear_arith)
        requires vv == v1 * b + v0, uu == x * b + u0, qi * v1 + ri == x;
    if ri >= b {
        assert(qi * v0 < b * b) by (nonlinear_arith) requires 0 <= qi, qi < b, 0 <= v0, v0 < b;
        assert(ri * b >= b * b) by (nonlinear_arith) requires ri >= b, b > 0;
    }
    assert(done == (qi * vv <= uu));
    if !done {
        assert(qi > qq) by (nonlinear_arith) requires qi * vv > uu, uu >= qq * vv, vv > 0;
    } else {
        assert(qi <= qq) by (nonlinear_arith) requires qi * vv <= uu, uu < (qq + 1) * vv, vv > 0;
    }
}

// ---------------------------------------------------------------- Reciprocal::new
/// normalisation by the leading-zero count: d << lz == d * 2^lz, top bit set
proof fn lemma_recip_new(d: u64, s: u32)
    requires d != 0, s == vstd::std_specs::bits::u64_leading_zeros(d)
    ensures
        s < 64,
        (d << s) as int == d as int * p2(s as nat),
        (d << s) >= 0x8000_0000_0000_0000u64,
        (d << s) as int / p2(s as nat) == d as int,
        d as int >= B() / 2 ==> (s == 0 && (d << s) == d),
{
    lemma_lz64(d);
    lemma_pow2_64();
    let ps = p2(s as nat); let di = d as int;
    lemma_pow2_pos(s as nat);
    lemma_pow2_adds((64 - s) as nat, s as nat);
    lemma_pow2_adds((63 - s) as nat, s as nat);
    assert(di * ps < B()) by (nonlinear_arith) requires di < p2((64 - s) as nat), p2((64 - s) as nat) * ps == B(), ps > 0, di >= 0;
    assert(di * ps >= B() / 2) by (nonlinear_arith) requires di >= p2((63 - s) as nat), p2((63 - s) as nat) * ps == B() / 2, ps > 0;
    lemma_u64_shl_mod(d, s);
    lemma_small_mod((di * ps) as nat, B() as nat);
    lemma_div_multiples_vanish(di, ps);
    assert(di * ps == ps * di) by (nonlinear_arith);
    if di >= B() / 2 {
        if s > 0 { lemma_pow2_strictly_increases((64 - s) as nat, 64); if s > 1 { lemma_pow2_strictly_increases((64 - s) as nat, 63); } }
        assert(s == 0);
        assert(d << 0u32 == d) by (bit_vector);
    }
}

// ---------------------------------------------------------------- limb-by-limb long division
/// the limb shifted out by shl_limb is below the normalised divisor
proof fn lemma_divlimb_init(usv: int, hi: int, uv: int, ps: int, dv: int, n: nat)
    requires usv + hi * bp(n) == uv * ps, 0 <= usv, 0 <= uv < bp(n), ps > 0, dv >= 1, hi >= 0
    ensures hi < ps, hi < dv * ps
{
    let p = bp(n);
    assert(uv * ps < p * ps) by (nonlinear_arith) requires uv < p, ps > 0;
    assert(hi < ps) by (nonlinear_arith) requires hi * p < p * ps, p > 0;
    assert(dv * ps >= ps) by (nonlinear_arith) requires dv >= 1, ps > 0;
}

/// one step of the schoolbook loop: bring down limb j, append quotient limb qj
proof fn lemma_divlimb_step(qo: Seq<Limb>, qn: Seq<Limb>, us: Seq<Limb>, j: nat, n: nat, dn: int, r: int, qj: int, rj: int, total: int)
    requires
        j < n,
        forall|k: int| j < k < n ==> qn[k] == qo[k],
        qn[j as int].0 as int == qj,
        qj * dn + rj == r * B() + us[j as int].0 as int,
        tv(qo, j + 1, n) * dn + r * bp(j + 1) + val(us, j + 1) == total,
    ensures
        tv(qn, j, n) * dn + rj * bp(j) + val(us, j) == total,
{
    lemma_tv_ext(qo, qn, j + 1, n);
    lemma_val_step(qn, j);
    lemma_val_step(us, j);
    lemma_bp_succ(j);
    let t = tv(qo, j + 1, n); let p = bp(j); let x = us[j as int].0 as int; let b = B();
    assert(tv(qn, j, n) == t + qj * p);
    assert((t + qj * p) * dn + rj * p == t * dn + r * (b * p) + x * p) by (nonlinear_arith)
        requires qj * dn + rj == r * b + x;
}

/// the (discarded) quotient word of div2by1 is a u64 value determined by the inputs
proof fn lemma_divlimb_quot(r: int, x: int, dn: int, rj: int)
    requires dn > 0, 0 <= r < dn, 0 <= x < B(), rj == (r * B() + x) % dn
    ensures ({ let q = (r * B() + x) / dn; 0 <= q < B() && q * dn + rj == r * B() + x })
{
    let b = B(); let y = r * b + x; let q = y / dn;
    lemma_fundamental_div_mod(y, dn);
    lemma_mod_bound(y, dn);
    assert(dn * q == q * dn) by (nonlinear_arith);
    lemma_d21_uu_bound(b, r, x, dn);
    assert(y >= 0) by (nonlinear_arith) requires y == r * b + x, r >= 0, x >= 0, b > 0;
    assert(q < b) by (nonlinear_arith) requires q * dn + rj == y, y < dn * b, rj >= 0, dn > 0;
    assert(q >= 0) by (nonlinear_arith) requires q * dn + rj == y, y >= 0, rj < dn, dn > 0;
}

/// undo the normalisation: Q*(dv*2^s) + r == U*2^s  ==>  Q*dv + r/2^s == U
proof fn lemma_divlimb_final(qv: int, r: int, uv: int, dv: int, ps: int)
    requires ps > 0, qv * (dv * ps) + r == uv * ps, 0 <= r < dv * ps
    ensures qv * dv + r / ps == uv, 0 <= r / ps < dv
{
    let x = uv - qv * dv;
    assert(x * ps == r) by (nonlinear_arith) requires x == uv - qv * dv, qv * (dv * ps) + r == uv * ps;
    lemma_div_multiples_vanish(x, ps);
    assert(ps * x == x * ps) by (nonlinear_arith);
    assert(x < dv) by (nonlinear_arith) requires x * ps < dv * ps, ps > 0;
    assert(x >= 0) by (nonlinear_arith) requires x * ps >= 0, ps > 0;
}

// ---------------------------------------------------------------- wide remainder
/// changing only limb 0 changes the value by the difference of the two limbs
proof fn lemma_val_set0(s0: Seq<Limb>, s1: Seq<Limb>, n: nat)
    requires n >= 1, forall|k: int| 1 <= k < n ==> s1[k] == s0[k]
    ensures val(s1, n) == val(s0, n) + s1[0].0 as int - s0[0].0 as int
{
    lemma_tv_ext(s0, s1, 1, n);
    lemma_bp1();
    lemma_val_step(s0, 0); lemma_val_step(s1, 0);
    let a0 = s0[0].0 as int; let a1 = s1[0].0 as int; let one = bp(0);
    assert(a0 * one == a0 && a1 * one == a1) by (nonlinear_arith) requires one == 1;
    assert(val(s0, 0) == 0 && val(s1, 0) == 0);
    assert(val(s0, 1) == a0);
    assert(val(s1, 1) == a1);
    assert(tv(s0, 1, n) == tv(s1, 1, n));
}

proof fn lemma_tv_empty_mul(q: Seq<Limb>, n: nat, dn: int)
    ensures tv(q, n, n) * dn == 0
{
    let t = tv(q, n, n);
    assert(t * dn == 0) by (nonlinear_arith) requires t == 0;
}

/// or-ing the bits shifted out of the low half into limb 0 of the shifted high half is an addition
proof fn lemma_wide_or(h0: u64, c: u64, s: u32, hsv: int, hv: int, xhi: int, lov: int, lv: int, n: nat)
    requires
        s < 64, n >= 1,
        hsv + xhi * bp(n) == hv * p2(s as nat), hsv >= 0, hsv % B() == h0 as int,
        lov + c as int * bp(n) == lv * p2(s as nat), 0 <= lov, 0 <= lv < bp(n),
    ensures (h0 | c) as int == h0 as int + c as int, (c as int) < p2(s as nat)
{
    let ps = p2(s as nat); let pr = p2((64 - s) as nat); let b = B();
    lemma_pow2_pos(s as nat); lemma_pow2_64();
    lemma_pow2_adds(s as nat, (64 - s) as nat);
    assert(ps * pr == b);
    lemma_divlimb_init(lov, c as int, lv, ps, 1, n);
    // h0 is a multiple of 2^s
    let g = hsv / b; let p1 = bp((n - 1) as nat); let bn = bp(n);
    lemma_fundamental_div_mod(hsv, b);
    lemma_bp_succ((n - 1) as nat);
    let e1 = xhi * (pr * p1); let e2 = pr * g;
    assert(xhi * bn == e1 * ps) by (nonlinear_arith) requires bn == b * p1, b == ps * pr, e1 == xhi * (pr * p1);
    assert(b * g == e2 * ps) by (nonlinear_arith) requires b == ps * pr, e2 == pr * g;
    let k = hv - e1 - e2;
    assert(h0 as int == k * ps) by (nonlinear_arith)
        requires h0 as int == hsv - b * g, hsv + xhi * bn == hv * ps, xhi * bn == e1 * ps, b * g == e2 * ps, k == hv - e1 - e2;
    lemma_mod_multiples_basic(k, ps);
    let d = 1u64 << s;
    assert(d == 1u64 << (s as u64)) by (bit_vector) requires d == 1u64 << s, s < 64;
    lemma_one_shl(s as u64);
    assert(d as int == ps);
    assert(h0 % d == 0);
    assert(h0 % d == 0 && c < d ==> (h0 | c) == add(h0, c) && h0 <= 0xffff_ffff_ffff_ffffu64 - c) by (bit_vector)
        requires d == 1u64 << s, s < 64;
    let w = (h0 + c) as u64;
    lemma_wadd_u64(h0, c, w);
}

/// the two remainder passes (high half then low half) together divide the wide value
proof fn lemma_wide_combine(lv: int, hv: int, lov: int, hsv: int, c: int, xhi: int, bl: int, ps: int, dn: int, qa: int, r1: int, qb: int, r: int)
    requires
        lov + c * bl == lv * ps, hsv + xhi * bl == hv * ps,
        qa * dn + r1 == hsv + c + xhi * bl,
        qb * dn + r == lov + r1 * bl,
    ensures (qa * bl + qb) * dn + r == (lv + hv * bl) * ps
{
    assert((lv + hv * bl) * ps == lv * ps + (hv * ps) * bl) by (nonlinear_arith);
    assert((hsv + xhi * bl) * bl == hsv * bl + (xhi * bl) * bl) by (nonlinear_arith);
    assert((qa * dn + r1) * bl == (qa * bl) * dn + r1 * bl) by (nonlinear_arith);
    assert((hsv + c + xhi * bl) * bl == hsv * bl + c * bl + (xhi * bl) * bl) by (nonlinear_arith);
    assert((qa * bl + qb) * dn == (qa * bl) * dn + qb * dn) by (nonlinear_arith);
}

/// value of a two-limb sequence
proof fn lemma_val2(s: Seq<Limb>)
    ensures val(s, 2) == s[1].0 as int * B() + s[0].0 as int
{
    lemma_val_step(s, 1); lemma_val_step(s, 0); lemma_bp1();
    let a0 = s[0].0 as int; let one = bp(0);
    assert(a0 * one == a0) by (nonlinear_arith) requires one == 1;
    assert(val(s, 0) == 0);
}

//@@ subst \b(Self|Uint)::(ZERO|ONE|MAX|BITS|LOG2_BITS)\b(?!\() => \1::\2()
//@@ subst \bUint::<(\w+)>::(ZERO|ONE|MAX|BITS)\b(?!\() => Uint::<\1>::\2()
//@@ fn src/uint/div_limb.rs | - | reciprocal | stub | props C02 C11
#[verifier::external_body]
pub const fn reciprocal(d: Word) -> (ret__: Word)
//@+
    requires d >= 0x8000_0000_0000_0000u64
    ensures (B() + ret__ as int) * d as int <= B() * B() - 1, B() * B() - 1 < (B() + ret__ as int) * d as int + d as int
//@-
{
    unimplemented!()
}
//@@ end
//@@ fn src/uint/div_limb.rs | impl Reciprocal | new | body | props C02 C11
impl Reciprocal {
pub const fn new(divisor: NonZero<Limb>) -> (ret__: Self)
//@+
    requires divisor.0.0 != 0
    ensures ret__.wf(), ret__.dv() == divisor.0.0 as int, ret__.divisor_normalized as int == divisor.0.0 as int * p2(ret__.shift as nat),
        divisor.0.0 as int >= B() / 2 ==> (ret__.shift == 0 && ret__.divisor_normalized == divisor.0.0)
//@-
{
        let divisor = divisor.0;
        // Assuming this is constant-time for primitive types.
        let shift = divisor.0.leading_zeros();
        // Will not panic since divisor is non-zero
//@+
        proof { lemma_recip_new(divisor.0, shift); }
//@-
        let divisor_normalized = divisor.0 << shift;
        Self {
            divisor_normalized,
            shift,
            reciprocal: reciprocal(divisor_normalized),
        }
    }
}
//@@ end
//@@ fn src/uint/div_limb.rs | impl Reciprocal | default | body | props C02 C11
impl Reciprocal {
pub const fn default() -> (ret__: Self)
//@+
    ensures ret__.wf(), ret__.shift == 0, ret__.divisor_normalized == u64::MAX, ret__.reciprocal == 1, ret__.dv() == B() - 1
//@-
{
//@+
        proof { lemma_pow2_64(); assert((B() + 1) * (B() - 1) == B() * B() - 1) by (nonlinear_arith); lemma_div_basics(u64::MAX as int); assert(p2(0) == 1); }
//@-
        Self {
            divisor_normalized: Word::MAX,
            shift: 0,
            // The result of calling `reciprocal(Word::MAX)`
            // This holds both for 32- and 64-bit versions.
            reciprocal: 1,
        }
    }
}
//@@ end
//@@ fn src/uint/div_limb.rs | impl Reciprocal | divisor | body | props C02 C11
impl Reciprocal {
pub const fn divisor(&self) -> (ret__: NonZero<Limb>)
//@+
    requires self.shift < 64
    ensures ret__.0.0 as int == self.dv()
//@-
{
//@+
        proof { lemma_u64_shr_div(self.divisor_normalized, self.shift); }
//@-
        NonZero(Limb(self.divisor_normalized >> self.shift))
    }
}
//@@ end
//@@ fn src/uint/div_limb.rs | impl Reciprocal | shift | body | props C02 C11
impl Reciprocal {
pub const fn shift(&self) -> (ret__: u32)
//@+
    ensures ret__ == self.shift
//@-
{
        self.shift
    }
}
//@@ end
//@@ fn src/uint/div_limb.rs | - | div2by1 | body | props C02 C11
pub const fn div2by1(u1: Word, u0: Word, reciprocal: &Reciprocal) -> (ret__: (Word, Word))
//@+
    requires reciprocal.wf(), u1 < reciprocal.divisor_normalized
    ensures ret__.0 as int * reciprocal.divisor_normalized as int + ret__.1 as int == u1 as int * B() + u0 as int, ret__.1 < reciprocal.divisor_normalized,
        ret__.0 as int == (u1 as int * B() + u0 as int) / (reciprocal.divisor_normalized as int),
        ret__.1 as int == (u1 as int * B() + u0 as int) % (reciprocal.divisor_normalized as int),
//@-
{
    let d = reciprocal.divisor_normalized;
//@+
    proof { assert((1u64 << 63) == 0x8000_0000_0000_0000u64) by (bit_vector); assert(B() / 2 == 0x8000_0000_0000_0000int); }
//@-
    debug_assert!(d >= (1 << (Word::BITS - 1)));
    debug_assert!(u1 < d);
    let (q1, q0) = mulhilo(reciprocal.reciprocal, u1);
//@+
    proof { lemma_d21_addhilo_pre(u1 as int, u0 as int, d as int, reciprocal.reciprocal as int, q1 as int, q0 as int); }
//@-
    let (q1, q0) = addhilo(q1, q0, u1, u0);
//@+
    let ghost q1p = q1 as int;
    let ghost rt = u1 as int * B() + u0 as int - (q1p + 1) * d as int;
    proof {
        let b = B(); let v = reciprocal.reciprocal as int;
        assert(q1 as int * b + q0 as int == (b + v) * (u1 as int) + u0 as int) by (nonlinear_arith)
            requires q1 as int * b + q0 as int == (v * (u1 as int)) + (u1 as int * b + u0 as int);
        lemma_div2by1(u1 as int, u0 as int, d as int, v, q1 as int, q0 as int);
    }
//@-
    let q1 = q1.wrapping_add(1);
    let r = u0.wrapping_sub(q1.wrapping_mul(d));
//@+
    let ghost m = q1.wrapping_mul(d);
    proof {
        assert(m as int == (q1 as int * d as int) % B());
        lemma_d21_wrap(u1 as int, u0 as int, d as int, q1p, q1 as int, m as int, r as int);
    }
    let ghost r0 = r; let ghost q10 = q1;
//@-
    let r_gt_q0 = ConstChoice::from_word_lt(q0, r);
    let q1 = r_gt_q0.select_word(q1, q1.wrapping_sub(1));
    let r = r_gt_q0.select_word(r, r.wrapping_add(d));
//@+
    proof { lemma_d21_fix1(u1 as int, u0 as int, d as int, q1p, q0 as int, q10 as int, r0 as int, q1 as int, r as int); }
//@-
    // If this was a normal `if`, we wouldn't need wrapping ops, because there would be no overflow.
    // But since we calculate both results either way, we have to wrap.
    // Added an assert to still check the lack of overflow in debug mode.
    debug_assert!(r < d || q1 < Word::MAX);
//@+
    let ghost q11 = q1; let ghost r1 = r;
//@-
    let r_ge_d = ConstChoice::from_word_le(d, r);
    let q1 = r_ge_d.select_word(q1, q1.wrapping_add(1));
    let r = r_ge_d.select_word(r, r.wrapping_sub(d));
//@+
    proof {
        assert((q11 as int + 1) * d as int == q11 as int * d as int + d as int) by (nonlinear_arith);
        lemma_fundamental_div_mod_converse(u1 as int * B() + u0 as int, d as int, q1 as int, r as int);
    }
//@-
    (q1, r)
}
//@@ end
//@@ fn src/uint/div_limb.rs | - | div3by2 | body | props C02 C11
pub const fn div3by2(
    u2: Word,
    u1: Word,
    u0: Word,
    v1_reciprocal: &Reciprocal,
    v0: Word,
) -> (ret__: Word)
//@+
    requires v1_reciprocal.wf(), v1_reciprocal.shift == 0, u2 <= v1_reciprocal.divisor_normalized
    ensures ret__ as int == min_int(B() - 1, ((u2 as int * B() + u1 as int) * B() + u0 as int) / (v1_reciprocal.divisor_normalized as int * B() + v0 as int))
//@-
{
    debug_assert!(v1_reciprocal.shift == 0);
    debug_assert!(u2 <= v1_reciprocal.divisor_normalized);
//@+
    let ghost v1 = v1_reciprocal.divisor_normalized as int;
    let ghost vv = v1 * B() + v0 as int;
    let ghost x = u2 as int * B() + u1 as int;
    let ghost uu = x * B() + u0 as int;
    let ghost qq = uu / vv;
    proof { lemma_d32_setup(v1, v0 as int, x, u0 as int); }
//@-
    // This method corresponds to Algorithm Q:
    // https://janmr.com/blog/2014/04/basic-multiple-precision-long-division/
    let q_maxed = ConstChoice::from_word_eq(u2, v1_reciprocal.divisor_normalized);
    let (mut quo, rem) = div2by1(q_maxed.select_word(u2, 0), u1, v1_reciprocal);
    // When the leading dividend word equals the leading divisor word, cap the quotient
    // at Word::MAX and set the remainder to the sum of the top dividend words.
    quo = q_maxed.select_word(quo, Word::MAX);
    let mut rem = q_maxed.select_wide_word(rem as WideWord, (u2 as WideWord) + (u1 as WideWord));
//@+
    proof {
        assert(quo as int * v1 + rem as int == x) by {
            if q_maxed.t() {
                assert((B() - 1) * v1 + v1 + u1 as int == v1 * B() + u1 as int) by (nonlinear_arith);
            } else {}
        }
        lemma_qhat_bound(quo as int, x, v1, v0 as int, u0 as int, qq);
        if !q_maxed.t() {
            lemma_d32_qhat_lower(quo as int, rem as int, x, v1, v0 as int, u0 as int, qq);
        }
    }
//@-
    let mut i = 0;
    while i < 2
//@+
        invariant
            0 <= i <= 2,
            v1 == v1_reciprocal.divisor_normalized as int, B() / 2 <= v1 < B(),
            vv == v1 * B() + v0 as int, uu == x * B() + u0 as int, qq * vv <= uu < (qq + 1) * vv, qq >= 0, vv > 0,
            quo as int * v1 + rem as int == x,
            0 <= rem as int <= 2 * B() + (i as int) * B(),
            quo as int <= qq + 2 - i,
            quo as int >= min_int(B() - 1, qq),
        decreases 2 - i
//@-
{
//@+
        proof { lemma_mul_u64_bound(quo, v0); }
//@-
        let qy = (quo as WideWord) * (v0 as WideWord);
        let rx = (rem << Word::BITS) | (u0 as WideWord);
        // If r < b and q*y[-2] > r*x[-1], then set q = q - 1 and r = r + v1
        let done = ConstChoice::from_word_nonzero((rem >> Word::BITS) as Word)
            .or(ConstChoice::from_wide_word_le(qy, rx));
//@+
        proof {
            assert(((rem >> 64) as u64 != 0) == (rem >= 0x1_0000_0000_0000_0000u128)) by (bit_vector) requires rem < 0x4_0000_0000_0000_0000u128;
            assert(rem < 0x1_0000_0000_0000_0000u128 ==> ((rem << 64) | (u0 as u128)) == rem * 0x1_0000_0000_0000_0000u128 + (u0 as u128)) by (bit_vector);
            lemma_d32_done(quo as int, rem as int, x, v1, v0 as int, u0 as int, qq, done.t());
        }
//@-
        quo = done.select_word(quo.wrapping_sub(1), quo);
        rem = done.select_wide_word(rem + (v1_reciprocal.divisor_normalized as WideWord), rem);
//@+
        proof {
            assert((quo as int + 1) * v1 == quo as int * v1 + v1) by (nonlinear_arith);
        }
//@-
        i += 1;
    }
    quo
}
//@@ end
//@@ fn src/uint/div_limb.rs | - | div_rem_limb_with_reciprocal | body | props C02 C11
pub const fn div_rem_limb_with_reciprocal<const L: usize>(
    u: &Uint<L>,
    reciprocal: &Reciprocal,
) -> (ret__: (Uint<L>, Limb))
//@+
    requires L >= 1, reciprocal.wf(), reciprocal.dv() > 0, reciprocal.divisor_normalized as int == reciprocal.dv() * p2(reciprocal.shift as nat)
    ensures ret__.0.v() * reciprocal.dv() + ret__.1.0 as int == u.v(), (ret__.1.0 as int) < reciprocal.dv()
//@-
{
    let (u_shifted, u_hi) = u.shl_limb(reciprocal.shift);
    let mut r = u_hi.0;
    let mut q = [Limb::ZERO; L];
//@+
    let ghost dn = reciprocal.divisor_normalized as int;
    let ghost ps = p2(reciprocal.shift as nat);
    let ghost total = u.v() * ps;
    proof {
        lemma_val_bound(u.limbs@, L as nat); lemma_val_bound(u_shifted.limbs@, L as nat);
        lemma_pow2_pos(reciprocal.shift as nat);
        lemma_divlimb_init(u_shifted.v(), u_hi.0 as int, u.v(), ps, reciprocal.dv(), L as nat);
        lemma_tv_empty_mul(q@, L as nat, dn);
    }
//@-
    let mut j = L;
    while j > 0
//@+
        invariant
            0 <= j <= L, reciprocal.wf(), dn == reciprocal.divisor_normalized as int, r < reciprocal.divisor_normalized,
            tv(q@, j as nat, L as nat) * dn + r as int * bp(j as nat) + val(u_shifted.limbs@, j as nat) == total,
        decreases j
//@-
{
        j -= 1;
        let (qj, rj) = div2by1(r, u_shifted.as_limbs()[j].0, reciprocal);
//@+
        let ghost qold = q@; let ghost r_old = r;
//@-
        q[j] = Limb(qj);
        r = rj;
//@+
        proof { lemma_divlimb_step(qold, q@, u_shifted.limbs@, j as nat, L as nat, dn, r_old as int, qj as int, rj as int, total); }
//@-
    }
//@+
    proof {
        lemma_bp1();
        lemma_divlimb_final(val(q@, L as nat), r as int, u.v(), reciprocal.dv(), ps);
        lemma_u64_shr_div(r, reciprocal.shift);
    }
//@-
    (Uint::<L>::new(q), Limb(r >> reciprocal.shift))
}
//@@ end
//@@ fn src/uint/div_limb.rs | - | rem_limb_with_reciprocal | body | props C02 C11 C15
pub const fn rem_limb_with_reciprocal<const L: usize>(
    u: &Uint<L>,
    reciprocal: &Reciprocal,
) -> (ret__: Limb)
//@+
    requires L >= 1, reciprocal.wf(), reciprocal.dv() > 0, reciprocal.divisor_normalized as int == reciprocal.dv() * p2(reciprocal.shift as nat)
    ensures ret__.0 as int == u.v() % reciprocal.dv()
//@-
{
    let (u_shifted, u_hi) = u.shl_limb(reciprocal.shift);
    let mut r = u_hi.0;
//@+
    let ghost dn = reciprocal.divisor_normalized as int;
    let ghost ps = p2(reciprocal.shift as nat);
    let ghost total = u.v() * ps;
    let ghost mut q: Seq<Limb> = Seq::new(L as nat, |k: int| Limb(0));
    proof {
        lemma_val_bound(u.limbs@, L as nat); lemma_val_bound(u_shifted.limbs@, L as nat);
        lemma_pow2_pos(reciprocal.shift as nat);
        lemma_divlimb_init(u_shifted.v(), u_hi.0 as int, u.v(), ps, reciprocal.dv(), L as nat);
        lemma_tv_empty_mul(q, L as nat, dn);
    }
//@-
    let mut j = L;
    while j > 0
//@+
        invariant
            0 <= j <= L, reciprocal.wf(), dn == reciprocal.divisor_normalized as int, r < reciprocal.divisor_normalized,
            q.len() == L,
            tv(q, j as nat, L as nat) * dn + r as int * bp(j as nat) + val(u_shifted.limbs@, j as nat) == total,
        decreases j
//@-
{
        j -= 1;
//@+
        let ghost r_old = r;
//@-
        let (_, rj) = div2by1(r, u_shifted.as_limbs()[j].0, reciprocal);
        r = rj;
//@+
        proof {
            let qj = (r_old as int * B() + u_shifted.limbs@[j as int].0 as int) / dn;
            lemma_divlimb_quot(r_old as int, u_shifted.limbs@[j as int].0 as int, dn, rj as int);
            let qold = q;
            q = q.update(j as int, Limb(qj as u64));
            lemma_divlimb_step(qold, q, u_shifted.limbs@, j as nat, L as nat, dn, r_old as int, qj, rj as int, total);
        }
//@-
    }
//@+
    proof {
        lemma_bp1();
        lemma_divlimb_final(val(q, L as nat), r as int, u.v(), reciprocal.dv(), ps);
        lemma_u64_shr_div(r, reciprocal.shift);
        lemma_fundamental_div_mod_converse(u.v(), reciprocal.dv(), val(q, L as nat), r as int / ps);
    }
//@-
    Limb(r >> reciprocal.shift)
}
//@@ end
//@@ fn src/uint/div_limb.rs | - | rem_limb_with_reciprocal_wide | body | props C02 C11
pub const fn rem_limb_with_reciprocal_wide<const L: usize>(
    lo_hi: (&Uint<L>, &Uint<L>),
    reciprocal: &Reciprocal,
) -> (ret__: Limb)
//@+
    requires L >= 1, reciprocal.wf(), reciprocal.dv() > 0, reciprocal.divisor_normalized as int == reciprocal.dv() * p2(reciprocal.shift as nat)
    ensures ret__.0 as int == (lo_hi.0.v() + lo_hi.1.v() * bp(L as nat)) % reciprocal.dv()
//@-
{
    let (lo_shifted, carry) = lo_hi.0.shl_limb(reciprocal.shift);
    let (mut hi_shifted, xhi) = lo_hi.1.shl_limb(reciprocal.shift);
//@+
    let ghost dn = reciprocal.divisor_normalized as int;
    let ghost ps = p2(reciprocal.shift as nat);
    let ghost lv = lo_hi.0.v(); let ghost hv = lo_hi.1.v();
    let ghost hs0 = hi_shifted.limbs@;
    let ghost lov = lo_shifted.v(); let ghost hsv = hi_shifted.v();
    proof {
        lemma_val_bound(lo_hi.0.limbs@, L as nat); lemma_val_bound(lo_hi.1.limbs@, L as nat);
        lemma_val_bound(lo_shifted.limbs@, L as nat); lemma_val_bound(hs0, L as nat);
        lemma_pow2_pos(reciprocal.shift as nat);
        lemma_divlimb_init(hsv, xhi.0 as int, hv, ps, reciprocal.dv(), L as nat);
        lemma_val_low(hs0, L as nat);
        lemma_wide_or(hs0[0].0, carry.0, reciprocal.shift, hsv, hv, xhi.0 as int, lov, lv, L as nat);
    }
//@-
    hi_shifted.limbs[0].0 |= carry.0;
//@+
    let ghost t1 = hsv + carry.0 as int + xhi.0 as int * bp(L as nat);
    let ghost mut q1: Seq<Limb> = Seq::new(L as nat, |k: int| Limb(0));
    proof {
        lemma_val_set0(hs0, hi_shifted.limbs@, L as nat);
        lemma_tv_empty_mul(q1, L as nat, dn);
    }
//@-
    let mut r = xhi.0;
    let mut j = L;
    while j > 0
//@+
        invariant
            0 <= j <= L, reciprocal.wf(), dn == reciprocal.divisor_normalized as int, r < reciprocal.divisor_normalized,
            q1.len() == L,
            tv(q1, j as nat, L as nat) * dn + r as int * bp(j as nat) + val(hi_shifted.limbs@, j as nat) == t1,
        decreases j
//@-
{
        j -= 1;
//@+
        let ghost r_old = r;
//@-
        let (_, rj) = div2by1(r, hi_shifted.as_limbs()[j].0, reciprocal);
        r = rj;
//@+
        proof {
            let qj = (r_old as int * B() + hi_shifted.limbs@[j as int].0 as int) / dn;
            lemma_divlimb_quot(r_old as int, hi_shifted.limbs@[j as int].0 as int, dn, rj as int);
            let qold = q1;
            q1 = q1.update(j as int, Limb(qj as u64));
            lemma_divlimb_step(qold, q1, hi_shifted.limbs@, j as nat, L as nat, dn, r_old as int, qj, rj as int, t1);
        }
//@-
    }
//@+
    let ghost r1 = r as int;
    let ghost t2 = lov + r1 * bp(L as nat);
    let ghost mut q2: Seq<Limb> = Seq::new(L as nat, |k: int| Limb(0));
    proof {
        lemma_bp1();
        assert(val(q1, L as nat) * dn + r1 == t1);
        lemma_tv_empty_mul(q2, L as nat, dn);
    }
//@-
    j = L;
    while j > 0
//@+
        invariant
            0 <= j <= L, reciprocal.wf(), dn == reciprocal.divisor_normalized as int, r < reciprocal.divisor_normalized,
            q2.len() == L,
            tv(q2, j as nat, L as nat) * dn + r as int * bp(j as nat) + val(lo_shifted.limbs@, j as nat) == t2,
        decreases j
//@-
{
        j -= 1;
//@+
        let ghost r_old = r;
//@-
        let (_, rj) = div2by1(r, lo_shifted.as_limbs()[j].0, reciprocal);
        r = rj;
//@+
        proof {
            let qj = (r_old as int * B() + lo_shifted.limbs@[j as int].0 as int) / dn;
            lemma_divlimb_quot(r_old as int, lo_shifted.limbs@[j as int].0 as int, dn, rj as int);
            let qold = q2;
            q2 = q2.update(j as int, Limb(qj as u64));
            lemma_divlimb_step(qold, q2, lo_shifted.limbs@, j as nat, L as nat, dn, r_old as int, qj, rj as int, t2);
        }
//@-
    }
//@+
    proof {
        let wv = lv + hv * bp(L as nat);
        let qv = val(q1, L as nat) * bp(L as nat) + val(q2, L as nat);
        lemma_wide_combine(lv, hv, lov, hsv, carry.0 as int, xhi.0 as int, bp(L as nat), ps, dn, val(q1, L as nat), r1, val(q2, L as nat), r as int);
        lemma_divlimb_final(qv, r as int, wv, reciprocal.dv(), ps);
        lemma_u64_shr_div(r, reciprocal.shift);
        lemma_fundamental_div_mod_converse(wv, reciprocal.dv(), qv, r as int / ps);
    }
//@-
    Limb(r >> reciprocal.shift)
}
//@@ end
//@@ fn src/uint/div_limb.rs | - | mul_rem | body | props C02 C11
pub const fn mul_rem(a: Limb, b: Limb, d: NonZero<Limb>) -> (ret__: Limb)
//@+
    requires d.0.0 != 0
    ensures ret__.0 as int == (a.0 as int * b.0 as int) % (d.0.0 as int)
//@-
{
    let rec = Reciprocal::new(d);
    let (hi, lo) = mulhilo(a.0, b.0);
//@+
    assert forall|s: Seq<Limb>| s[0].0 == lo && s[1].0 == hi implies #[trigger] val(s, 2) == a.0 as int * b.0 as int by { lemma_val2(s); }
//@-
    rem_limb_with_reciprocal(&Uint::from_words([lo, hi]), &rec)
}
//@@ end
//@@ fn src/uint/div.rs | impl<const LIMBS: usize> Uint<LIMBS> | div_rem_limb_with_reciprocal | body | props C02 C11 C15
impl<const LIMBS: usize> Uint<LIMBS> {
pub const fn div_rem_limb_with_reciprocal(&self, reciprocal: &Reciprocal) -> (ret__: (Self, Limb))
//@+
    requires LIMBS >= 1, reciprocal.wf(), reciprocal.dv() > 0, reciprocal.divisor_normalized as int == reciprocal.dv() * p2(reciprocal.shift as nat)
    ensures ret__.0.v() * reciprocal.dv() + ret__.1.0 as int == self.v(), (ret__.1.0 as int) < reciprocal.dv()
//@-
{
        div_rem_limb_with_reciprocal(self, reciprocal)
    }
}
//@@ end
//@@ fn src/uint/div.rs | impl<const LIMBS: usize> Uint<LIMBS> | div_rem_limb | body | props C02 C11 C15
impl<const LIMBS: usize> Uint<LIMBS> {
pub const fn div_rem_limb(&self, rhs: NonZero<Limb>) -> (ret__: (Self, Limb))
//@+
    requires LIMBS >= 1, rhs.0.0 != 0
    ensures ret__.0.v() * rhs.0.0 as int + ret__.1.0 as int == self.v(), ret__.1.0 < rhs.0.0
//@-
{
        div_rem_limb_with_reciprocal(self, &Reciprocal::new(rhs))
    }
}
//@@ end
//@@ fn src/uint/div.rs | impl<const LIMBS: usize> Uint<LIMBS> | rem_limb_with_reciprocal | body | props C02 C11 C15
impl<const LIMBS: usize> Uint<LIMBS> {
pub const fn rem_limb_with_reciprocal(&self, reciprocal: &Reciprocal) -> (ret__: Limb)
//@+
    requires LIMBS >= 1, reciprocal.wf(), reciprocal.dv() > 0, reciprocal.divisor_normalized as int == reciprocal.dv() * p2(reciprocal.shift as nat)
    ensures ret__.0 as int == self.v() % reciprocal.dv()
//@-
{
        rem_limb_with_reciprocal(self, reciprocal)
    }
}
//@@ end
//@@ fn src/uint/div.rs | impl<const LIMBS: usize> Uint<LIMBS> | rem_limb | body | props C02 C11 C15
impl<const LIMBS: usize> Uint<LIMBS> {
pub const fn rem_limb(&self, rhs: NonZero<Limb>) -> (ret__: Limb)
//@+
    requires LIMBS >= 1, rhs.0.0 != 0
    ensures ret__.0 as int == self.v() % (rhs.0.0 as int)
//@-
{
        rem_limb_with_reciprocal(self, &Reciprocal::new(rhs))
    }
}
//@@ end

} // verus!
