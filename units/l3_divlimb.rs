// L3: division by a single limb (src/uint/div_limb.rs and the limb forms in src/uint/div.rs) -- C02
use vstd::prelude::*;
use vstd::arithmetic::power::*;
use vstd::arithmetic::power2::*;
use vstd::arithmetic::div_mod::*;
use crate::speclib::*;
use crate::speclib_bits::*;
use crate::l0_prim::*;
use crate::l1_choice::*;
use crate::l1_limb::*;
use crate::l2_core::*;
verus! {

//@@ item src/uint/div_limb.rs | struct Reciprocal
//@@ end
impl Reciprocal {
    /// the Moeller-Granlund reciprocal relation: v = floor((B^2 - 1) / d) - B for a normalised d
    pub open spec fn wf(&self) -> bool {
        let d = self.divisor_normalized as int; let v = self.reciprocal as int;
        &&& d >= B() / 2 &&& (B() + v) * d <= B() * B() - 1 &&& B() * B() - 1 < (B() + v) * d + d &&& self.shift < 64
    }
    /// the divisor this reciprocal was built for
    pub open spec fn dv(&self) -> int { self.divisor_normalized as int / p2(self.shift as nat) }
}

//@@ subst \b(Self|Uint)::(ZERO|ONE|MAX|BITS|LOG2_BITS)\b(?!\() => \1::\2()
//@@ subst \bUint::<(\w+)>::(ZERO|ONE|MAX|BITS)\b(?!\() => Uint::<\1>::\2()
//@@ fn src/uint/div_limb.rs | - | reciprocal | stub | props C02 C11
#[verifier::external_body]
pub const fn reciprocal(d: Word) -> (ret__: Word)
//@+
    requires d >= 0x8000_0000_0000_0000u64
    ensures (B() + ret__ as int) * d as int <= B() * B() - 1, B() * B() - 1 < (B() + ret__ as int) * d as int + d as int
//@-
{
    unimplemented!()
}
//@@ end
//@@ fn src/uint/div_limb.rs | impl Reciprocal | new | stub | props C02 C11
impl Reciprocal {
#[verifier::external_body]
pub const fn new(divisor: NonZero<Limb>) -> (ret__: Self)
//@+
    requires divisor.0.0 != 0
    ensures ret__.wf(), ret__.dv() == divisor.0.0 as int, ret__.divisor_normalized as int == divisor.0.0 as int * p2(ret__.shift as nat),
        divisor.0.0 as int >= B() / 2 ==> (ret__.shift == 0 && ret__.divisor_normalized == divisor.0.0)
//@-
{
    unimplemented!()
}
}
//@@ end
//@@ fn src/uint/div_limb.rs | - | div2by1 | stub | props C02 C11
#[verifier::external_body]
pub const fn div2by1(u1: Word, u0: Word, reciprocal: &Reciprocal) -> (ret__: (Word, Word))
//@+
    requires reciprocal.wf(), u1 < reciprocal.divisor_normalized
    ensures ret__.0 as int * reciprocal.divisor_normalized as int + ret__.1 as int == u1 as int * B() + u0 as int, ret__.1 < reciprocal.divisor_normalized
//@-
{
    unimplemented!()
}
//@@ end
//@@ fn src/uint/div_limb.rs | - | div3by2 | stub | props C02 C11
#[verifier::external_body]
pub const fn div3by2(
    u2: Word,
    u1: Word,
    u0: Word,
    v1_reciprocal: &Reciprocal,
    v0: Word,
) -> (ret__: Word)
//@+
    requires v1_reciprocal.wf(), v1_reciprocal.shift == 0, u2 <= v1_reciprocal.divisor_normalized
    ensures ret__ as int == min_int(B() - 1, ((u2 as int * B() + u1 as int) * B() + u0 as int) / (v1_reciprocal.divisor_normalized as int * B() + v0 as int))
//@-
{
    unimplemented!()
}
//@@ end
//@@ fn src/uint/div_limb.rs | - | div_rem_limb_with_reciprocal | stub | props C02 C11
#[verifier::external_body]
pub const fn div_rem_limb_with_reciprocal<const L: usize>(
    u: &Uint<L>,
    reciprocal: &Reciprocal,
) -> (ret__: (Uint<L>, Limb))
//@+
    requires L >= 1, reciprocal.wf(), reciprocal.dv() > 0, reciprocal.divisor_normalized as int == reciprocal.dv() * p2(reciprocal.shift as nat)
    ensures ret__.0.v() * reciprocal.dv() + ret__.1.0 as int == u.v(), (ret__.1.0 as int) < reciprocal.dv()
//@-
{
    unimplemented!()
}
//@@ end
//@@ fn src/uint/div_limb.rs | - | rem_limb_with_reciprocal | stub | props C02 C11 C15
#[verifier::external_body]
pub const fn rem_limb_with_reciprocal<const L: usize>(
    u: &Uint<L>,
    reciprocal: &Reciprocal,
) -> (ret__: Limb)
//@+
    requires L >= 1, reciprocal.wf(), reciprocal.dv() > 0, reciprocal.divisor_normalized as int == reciprocal.dv() * p2(reciprocal.shift as nat)
    ensures ret__.0 as int == u.v() % reciprocal.dv()
//@-
{
    unimplemented!()
}
//@@ end
//@@ fn src/uint/div_limb.rs | - | rem_limb_with_reciprocal_wide | stub | props C02 C11
#[verifier::external_body]
pub const fn rem_limb_with_reciprocal_wide<const L: usize>(
    lo_hi: (&Uint<L>, &Uint<L>),
    reciprocal: &Reciprocal,
) -> (ret__: Limb)
//@+
    requires L >= 1, reciprocal.wf(), reciprocal.dv() > 0, reciprocal.divisor_normalized as int == reciprocal.dv() * p2(reciprocal.shift as nat)
    ensures ret__.0 as int == (lo_hi.0.v() + lo_hi.1.v() * bp(L as nat)) % reciprocal.dv()
//@-
{
    unimplemented!()
}
//@@ end
//@@ fn src/uint/div.rs | impl<const LIMBS: usize> Uint<LIMBS> | div_rem_limb_with_reciprocal | stub | props C02 C11 C15
impl<const LIMBS: usize> Uint<LIMBS> {
#[verifier::external_body]
pub const fn div_rem_limb_with_reciprocal(&self, reciprocal: &Reciprocal) -> (ret__: (Self, Limb))
//@+
    requires LIMBS >= 1, reciprocal.wf(), reciprocal.dv() > 0, reciprocal.divisor_normalized as int == reciprocal.dv() * p2(reciprocal.shift as nat)
    ensures ret__.0.v() * reciprocal.dv() + ret__.1.0 as int == self.v(), (ret__.1.0 as int) < reciprocal.dv()
//@-
{
    unimplemented!()
}
}
//@@ end
//@@ fn src/uint/div.rs | impl<const LIMBS: usize> Uint<LIMBS> | div_rem_limb | stub | props C02 C11 C15
impl<const LIMBS: usize> Uint<LIMBS> {
#[verifier::external_body]
pub const fn div_rem_limb(&self, rhs: NonZero<Limb>) -> (ret__: (Self, Limb))
//@+
    requires LIMBS >= 1, rhs.0.0 != 0
    ensures ret__.0.v() * rhs.0.0 as int + ret__.1.0 as int == self.v(), ret__.1.0 < rhs.0.0
//@-
{
    unimplemented!()
}
}
//@@ end
//@@ fn src/uint/div.rs | impl<const LIMBS: usize> Uint<LIMBS> | rem_limb_with_reciprocal | stub | props C02 C11 C15
impl<const LIMBS: usize> Uint<LIMBS> {
#[verifier::external_body]
pub const fn rem_limb_with_reciprocal(&self, reciprocal: &Reciprocal) -> (ret__: Limb)
//@+
    requires LIMBS >= 1, reciprocal.wf(), reciprocal.dv() > 0, reciprocal.divisor_normalized as int == reciprocal.dv() * p2(reciprocal.shift as nat)
    ensures ret__.0 as int == self.v() % reciprocal.dv()
//@-
{
    unimplemented!()
}
}
//@@ end
//@@ fn src/uint/div.rs | impl<const LIMBS: usize> Uint<LIMBS> | rem_limb | stub | props C02 C11 C15
impl<const LIMBS: usize> Uint<LIMBS> {
#[verifier::external_body]
pub const fn rem_limb(&self, rhs: NonZero<Limb>) -> (ret__: Limb)
//@+
    requires LIMBS >= 1, rhs.0.0 != 0
    ensures ret__.0 as int == self.v() % (rhs.0.0 as int)
//@-
{
    unimplemented!()
}
}
//@@ end

} // verus!
