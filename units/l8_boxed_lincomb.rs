// L8: lincomb_boxed_monty_form (src/modular/lincomb.rs, the `alloc` twin) -- C09
// Copy-adaptation of l6_lincomb.rs (longa_lincomb_monty + lincomb_monty_form) to `Box<[Limb]>` / run-time `nlimbs`.
// Imported by l8_boxed_monty.rs (`BoxedMontyForm::lincomb_vartime` calls it); the two units import each other.
use vstd::prelude::*;
use vstd::arithmetic::power::*;
use vstd::arithmetic::power2::*;
use vstd::arithmetic::div_mod::*;
extern crate alloc;
use crate::speclib::*;
use crate::speclib_bits::*;
use crate::l0_prim::*;
use crate::l0_corespec::*;
use crate::l1_choice::*;
use crate::l1_limb::*;
use crate::l2_core::*;
use crate::l5_monty::*;
use crate::l6_montyform::lemma_repr_zero;
use crate::l6_lincomb::{psum, rowsum, sop, sor};
use crate::l7_boxed_slices::*;
use crate::l7_boxed_div::*;
use crate::l8_boxed_methods::*;
use crate::l8_boxed_monty::{BoxedMontyForm, BoxedMontyParams, bsor, same_modulus};

// adapter for the invocations inside `lincomb_boxed_monty_form` (hand-written, as in l6_lincomb.rs)
macro_rules! impl_longa_monty_lincomb {
    ($a_b:expr, $u:expr, $modulus:expr, $mod_neg_inv:expr, $nlimbs:expr) => {
        bl_longa_lincomb_boxed($a_b, &mut $u, &$modulus, $mod_neg_inv, $nlimbs)
    };
}

verus! {

proof fn bl_lemma_psum_zero(al: Seq<Seq<Limb>>, bl: Seq<Seq<Limb>>, n: nat, cnt: nat)
    ensures psum(al, bl, 0, n, cnt) == 0
    decreases cnt
{
    if cnt > 0 {
        bl_lemma_psum_zero(al, bl, n, (cnt - 1) as nat);
        assert(0 * val(bl[cnt - 1], n) == 0);
    }
}

proof fn bl_lemma_psum_succ(al: Seq<Seq<Limb>>, bl: Seq<Seq<Limb>>, j: nat, n: nat, cnt: nat)
    ensures psum(al, bl, j + 1, n, cnt) == psum(al, bl, j, n, cnt) + bp(j) * rowsum(al, bl, j, n, cnt)
    decreases cnt
{
    if cnt > 0 {
        let c1 = (cnt - 1) as nat;
        bl_lemma_psum_succ(al, bl, j, n, c1);
        let x = al[cnt - 1][j as int].0 as int; let bv = val(bl[cnt - 1], n); let av = val(al[cnt - 1], j);
        let r1 = rowsum(al, bl, j, n, c1); let pj = bp(j);
        assert(val(al[cnt - 1], j + 1) == av + x * pj);
        assert((av + x * pj) * bv == av * bv + pj * (x * bv)) by (nonlinear_arith);
        assert(pj * (r1 + x * bv) == pj * r1 + pj * (x * bv)) by (nonlinear_arith);
    } else {
        assert(bp(j) * 0 == 0);
    }
}

proof fn bl_lemma_rowsum_bound(al: Seq<Seq<Limb>>, bl: Seq<Seq<Limb>>, j: nat, n: nat, cnt: nat, mv: int)
    requires forall|i: int| 0 <= i < cnt ==> val(#[trigger] bl[i], n) < mv
    ensures 0 <= rowsum(al, bl, j, n, cnt) <= cnt * ((B() - 1) * mv)
    decreases cnt
{
    if cnt > 0 {
        let c1 = (cnt - 1) as nat;
        bl_lemma_rowsum_bound(al, bl, j, n, c1, mv);
        let x = al[cnt - 1][j as int].0 as int; let bv = val(bl[cnt - 1], n);
        lemma_val_bound(bl[cnt - 1], n);
        assert(0 <= x * bv <= (B() - 1) * mv) by (nonlinear_arith) requires 0 <= x <= B() - 1, 0 <= bv < mv;
        let e = (B() - 1) * mv;
        assert(cnt * e == c1 * e + e) by (nonlinear_arith) requires cnt == c1 + 1;
    } else {
        assert(0 * ((B() - 1) * mv) == 0);
    }
}

proof fn bl_lemma_sop_bound(al: Seq<Seq<Limb>>, bl: Seq<Seq<Limb>>, n: nat, cnt: nat, mv: int)
    requires forall|i: int| 0 <= i < cnt ==> val(#[trigger] al[i], n) < mv,
        forall|i: int| 0 <= i < cnt ==> val(#[trigger] bl[i], n) < mv,
    ensures 0 <= psum(al, bl, n, n, cnt) <= cnt * (mv * (mv - 1))
    decreases cnt
{
    if cnt > 0 {
        let c1 = (cnt - 1) as nat;
        bl_lemma_sop_bound(al, bl, n, c1, mv);
        let av = val(al[cnt - 1], n); let bv = val(bl[cnt - 1], n);
        lemma_val_bound(al[cnt - 1], n); lemma_val_bound(bl[cnt - 1], n);
        assert(0 <= av * bv <= mv * (mv - 1)) by (nonlinear_arith) requires 0 <= av < mv, 0 <= bv < mv;
        let e = mv * (mv - 1);
        assert(cnt * e == c1 * e + e) by (nonlinear_arith) requires cnt == c1 + 1;
    } else {
        assert(0 * (mv * (mv - 1)) == 0);
    }
}

/// at most 2^lz terms below a modulus with lz leading zero bits accumulate to less than m * R
proof fn bl_lemma_accum_fits(s: int, cnt: nat, lz: nat, mv: int, n: nat)
    requires cnt <= p2(lz), lz <= 64 * n, 0 < mv < p2((64 * n - lz) as nat), s <= cnt * (mv * (mv - 1))
    ensures s < mv * bp(n)
{
    let r = bp(n); let w = p2(lz); let h = p2((64 * n - lz) as nat);
    lemma_bp_pow2(n);
    lemma_pow2_adds((64 * n - lz) as nat, lz);
    assert(h * w == r);
    let e = mv * (mv - 1);
    assert(e >= 0) by (nonlinear_arith) requires mv > 0, e == mv * (mv - 1);
    assert(cnt * e <= w * e) by (nonlinear_arith) requires cnt <= w, e >= 0;
    assert(w * (mv * (mv - 1)) == (mv * w) * (mv - 1)) by (nonlinear_arith);
    lemma_pow2_pos(lz); lemma_bp_succ(n);
    assert(mv * w < r) by (nonlinear_arith) requires mv < h, h * w == r, w > 0;
    assert((mv * w) * (mv - 1) <= r * (mv - 1)) by (nonlinear_arith) requires mv * w < r, mv - 1 >= 0;
    assert(r * (mv - 1) < mv * r) by (nonlinear_arith) requires r > 0;
}

// ---- lemmas for the interleaved multiply-accumulate / reduce loops

/// (a + ((a*k) % B) * m0) % B == 0 when (k*m0) % B == B-1   (as in l5_monty)
proof fn bl_lemma_lc_low_word_zero(a: int, k: int, m0: int)
    requires 0 <= a < B(), 0 <= k < B(), 0 <= m0 < B(), (k * m0) % B() == B() - 1
    ensures (a + ((a * k) % B()) * m0) % B() == 0
{
    let b = B();
    let u = (a * k) % b;
    lemma_mul_mod_noop_left(a * k, m0, b);
    assert((u * m0) % b == ((a * k) * m0) % b);
    assert((a * k) * m0 == a * (k * m0)) by (nonlinear_arith);
    lemma_mul_mod_noop_right(a, k * m0, b);
    assert((a * (k * m0)) % b == (a * (b - 1)) % b);
    assert(a * (b - 1) == a * b - a) by (nonlinear_arith);
    lemma_add_mod_noop_right(a, u * m0, b);
    lemma_add_mod_noop_right(a, a * (b - 1), b);
    assert((a + u * m0) % b == (a + a * (b - 1)) % b);
    assert(a + a * (b - 1) == a * b);
    lemma_mod_multiples_basic(a, b);
}

/// the low word cancels: carry * B == a + q * m0 for the mac result (lw, carry)
proof fn bl_lemma_lc_first(lw: int, carry: int, a: int, k: int, q: int, m0: int)
    requires 0 <= a < B(), 0 <= k < B(), 0 <= m0 < B(), (k * m0) % B() == B() - 1, q == (a * k) % B(),
        0 <= lw < B(), lw + carry * B() == a + q * m0
    ensures carry * B() == a + q * m0
{
    bl_lemma_lc_low_word_zero(a, k, m0);
    lemma_mod_multiples_vanish(carry, lw, B());
    assert(B() * carry + lw == lw + carry * B()) by (nonlinear_arith);
    lemma_small_mod(lw as nat, B() as nat);
}

/// one multiply-accumulate step of row x * ys into the accumulator (position k)
proof fn bl_lemma_row_step(ua: Seq<Limb>, ub: Seq<Limb>, u0: Seq<Limb>, ys: Seq<Limb>, k: nat, x: int, c_after: int, c_before: int)
    requires k < ub.len(), ua =~= ub.update(k as int, ua[k as int]), ub[k as int] == u0[k as int],
        ua[k as int].0 as int + c_after * B() == u0[k as int].0 as int + x * ys[k as int].0 as int + c_before,
        val(ub, k) + c_before * bp(k) == val(u0, k) + x * val(ys, k),
    ensures val(ua, k + 1) + c_after * bp(k + 1) == val(u0, k + 1) + x * val(ys, k + 1)
{
    lemma_val_ext(ub, ua, k);
    lemma_bp_succ(k);
    let pk = bp(k); let w = ua[k as int].0 as int; let o = u0[k as int].0 as int; let y = ys[k as int].0 as int;
    assert(w * pk + c_after * (B() * pk) == o * pk + x * (y * pk) + c_before * pk) by (nonlinear_arith)
        requires w + c_after * B() == o + x * y + c_before;
    assert(x * (val(ys, k) + y * pk) == x * val(ys, k) + x * (y * pk)) by (nonlinear_arith);
}

/// one step of the shifted reduction row: position i-1 receives (u0[i] + q * ms[i] + carry) mod B
proof fn bl_lemma_shift_step(ua: Seq<Limb>, ub: Seq<Limb>, u0: Seq<Limb>, ms: Seq<Limb>, i: nat, q: int, c_after: int, c_before: int)
    requires 1 <= i < ub.len(), ua =~= ub.update(i - 1, ua[i - 1]),
        ua[i - 1].0 as int + c_after * B() == u0[i as int].0 as int + q * ms[i as int].0 as int + c_before,
        val(ub, (i - 1) as nat) * B() + c_before * bp(i) == val(u0, i) + q * val(ms, i),
    ensures val(ua, i) * B() + c_after * bp(i + 1) == val(u0, i + 1) + q * val(ms, i + 1)
{
    let i1 = (i - 1) as nat;
    lemma_val_ext(ub, ua, i1);
    lemma_bp_succ(i1); lemma_bp_succ(i);
    let pi_ = bp(i); let p1 = bp(i1);
    let w = ua[i - 1].0 as int; let o = u0[i as int].0 as int; let y = ms[i as int].0 as int;
    assert(val(ua, i) == val(ua, i1) + w * p1);
    assert((val(ua, i1) + w * p1) * B() == val(ua, i1) * B() + w * pi_) by (nonlinear_arith) requires pi_ == B() * p1;
    assert(w * pi_ + c_after * (B() * pi_) == o * pi_ + q * (y * pi_) + c_before * pi_) by (nonlinear_arith)
        requires w + c_after * B() == o + q * y + c_before;
    assert(q * (val(ms, i) + y * pi_) == q * val(ms, i) + q * (y * pi_)) by (nonlinear_arith);
}

/// the row of term i is added to the (n+2)-limb accumulator (u, hi, hc)
proof fn bl_lemma_acc_step(uva: int, uvb: int, hia: int, hib: int, hcb: int, c: int, carry: int, xb: int, r: int)
    requires uva + carry * r == uvb + xb, hia + c * B() == hib + carry
    ensures uva + hia * r + (hcb + c) * (r * B()) == uvb + hib * r + hcb * (r * B()) + xb
{
    assert((hib + carry - c * B()) * r + (hcb + c) * (r * B()) == hib * r + carry * r + hcb * (r * B())) by (nonlinear_arith);
}

/// the reduction row: the accumulator plus q*m is divided by B exactly
proof fn bl_lemma_red_step(uv0: int, lowv: int, top: int, c1: int, c2: int, hi: int, hc: int, q: int, mv: int, r: int, r1: int)
    requires r == B() * r1, lowv * B() + c1 * r == uv0 + q * mv, top + c2 * B() == hi + c1
    ensures (lowv + top * r1 + (hc + c2) * r) * B() == uv0 + hi * r + hc * (r * B()) + q * mv
{
    assert((lowv + top * r1 + (hc + c2) * r) * B() == lowv * B() + top * (B() * r1) + (hc + c2) * (r * B())) by (nonlinear_arith);
    assert(top * r == hi * r + c1 * r - c2 * (r * B())) by (nonlinear_arith) requires top == hi + c1 - c2 * B();
    assert((hc + c2) * (r * B()) == hc * (r * B()) + c2 * (r * B())) by (nonlinear_arith);
}

/// the accumulator stays below (len+1) * m
proof fn bl_lemma_red_bound(ap: int, a0: int, rs: int, q: int, mv: int, len: int)
    requires ap * B() == a0 + rs + q * mv, a0 < (len + 1) * mv, 0 <= rs <= len * ((B() - 1) * mv), 0 <= q <= B() - 1, mv > 0, len >= 0
    ensures ap < (len + 1) * mv
{
    assert(q * mv <= (B() - 1) * mv) by (nonlinear_arith) requires 0 <= q <= B() - 1, mv > 0;
    assert((len + 1) * mv + len * ((B() - 1) * mv) + (B() - 1) * mv == ((len + 1) * mv) * B()) by (nonlinear_arith);
    assert(ap < (len + 1) * mv) by (nonlinear_arith) requires ap * B() < ((len + 1) * mv) * B();
}

/// the outer invariant advances by one row
proof fn bl_lemma_outer_step(ap: int, a0: int, rs: int, q: int, mv: int, pj: int, ps: int, ps1: int, qacc: int)
    requires ap * B() == a0 + rs + q * mv, a0 * pj == ps + qacc * mv, ps1 == ps + pj * rs
    ensures ap * (B() * pj) == ps1 + (qacc + q * pj) * mv
{
    assert(ap * (B() * pj) == (ap * B()) * pj) by (nonlinear_arith);
    assert((a0 + rs + q * mv) * pj == a0 * pj + pj * rs + (q * pj) * mv) by (nonlinear_arith);
    assert((qacc + q * pj) * mv == qacc * mv + (q * pj) * mv) by (nonlinear_arith);
}

/// final step (as in l5_monty): the accumulator is < 2m, the top carry is a bit, one conditional subtraction gives t * R^-1 mod m
proof fn bl_lemma_lc_final(upv: int, meta: int, t: int, u: int, m: int, r: int)
    requires 0 <= u < r, (upv + meta * r) * r == t + u * m, 0 <= t < m * r, 0 <= upv < r, 0 <= meta, 0 < m < r
    ensures meta <= 1, 0 <= upv + meta * r < 2 * m,
        ((((upv + meta * r) - m) % m) * r) % m == t % m
{
    let x = upv + meta * r;
    assert(u * m < r * m) by (nonlinear_arith) requires 0 <= u < r, 0 < m;
    assert(m * r == r * m) by (nonlinear_arith);
    assert(x < 2 * m) by (nonlinear_arith) requires x * r < 2 * (m * r), r > 0;
    assert(meta * r >= 0) by (nonlinear_arith) requires meta >= 0, r > 0;
    assert(meta <= 1) by (nonlinear_arith) requires meta * r < 2 * r, r > 0;
    let q = (x - m) / m; let rem = (x - m) % m;
    lemma_fundamental_div_mod(x - m, m);
    assert(rem * r == m * (u - r - q * r) + t) by (nonlinear_arith)
        requires x - m == m * q + rem, x * r == t + u * m;
    lemma_mod_multiples_vanish(u - r - q * r, t, m);
}

// ---- from the unreduced sum of products to the represented residues

/// Σ a_i * b_i == R^2 * Σ repr(a_i) * repr(b_i)  (mod m)
proof fn bl_lemma_sop_sor(al: Seq<Seq<Limb>>, bl: Seq<Seq<Limb>>, m: int, n: nat, cnt: nat)
    requires m > 0, m % 2 == 1
    ensures psum(al, bl, n, n, cnt) % m == ((sor(al, bl, m, n, 0, cnt) * bp(n)) * bp(n)) % m
    decreases cnt
{
    let r = bp(n);
    if cnt > 0 {
        let c1 = (cnt - 1) as nat;
        bl_lemma_sop_sor(al, bl, m, n, c1);
        let a = val(al[cnt - 1], n); let b = val(bl[cnt - 1], n);
        let ra = mont_repr(a, m, n); let rb = mont_repr(b, m, n);
        lemma_mont_repr(a, m, n); lemma_mont_repr(b, m, n);
        let s1 = sor(al, bl, m, n, 0, c1);
        lemma_mul_mod_noop_general(a, b, m);
        lemma_mul_mod_noop_general(ra * r, rb * r, m);
        assert((ra * r) * (rb * r) == ((ra * rb) * r) * r) by (nonlinear_arith);
        assert((a * b) % m == (((ra * rb) * r) * r) % m);
        lemma_add_mod_noop(psum(al, bl, n, n, c1), a * b, m);
        lemma_add_mod_noop((s1 * r) * r, ((ra * rb) * r) * r, m);
        assert(((s1 + ra * rb) * r) * r == (s1 * r) * r + ((ra * rb) * r) * r) by (nonlinear_arith);
    } else {
        assert((0 * r) * r == 0);
    }
}

/// a value that reduces the sum of products represents the sum of the products of the residues
proof fn bl_lemma_lincomb_repr(rv: int, al: Seq<Seq<Limb>>, bl: Seq<Seq<Limb>>, m: int, n: nat, cnt: nat)
    requires m > 0, m % 2 == 1, mont_red(rv, psum(al, bl, n, n, cnt), m, bp(n))
    ensures mont_repr(rv, m, n) == sor(al, bl, m, n, 0, cnt) % m
{
    let r = bp(n);
    let x = mont_repr(rv, m, n); let s = sor(al, bl, m, n, 0, cnt);
    lemma_mont_repr(rv, m, n);
    bl_lemma_sop_sor(al, bl, m, n, cnt);
    lemma_mul_mod_noop_left(x * r, r, m);
    lemma_mul_mod_noop_left(rv, r, m);
    assert(((x * r) * r) % m == ((s * r) * r) % m);
    lemma_mont_cancel(x * r, s * r, m, n);
    lemma_mont_cancel(x, s, m, n);
    lemma_small_mod(x as nat, m as nat);
}

/// a window of `count` terms starting at `done` extends the sum over the first `done` terms
proof fn bl_lemma_sor_window(al: Seq<Seq<Limb>>, bl: Seq<Seq<Limb>>, wal: Seq<Seq<Limb>>, wbl: Seq<Seq<Limb>>, m: int, n: nat, done: nat, count: nat)
    requires forall|i: int| 0 <= i < count ==> #[trigger] wal[i] == al[done + i],
        forall|i: int| 0 <= i < count ==> #[trigger] wbl[i] == bl[done + i],
    ensures sor(al, bl, m, n, 0, done + count) == sor(al, bl, m, n, 0, done) + sor(wal, wbl, m, n, 0, count)
    decreases count
{
    if count > 0 {
        bl_lemma_sor_window(al, bl, wal, wbl, m, n, done, (count - 1) as nat);
        assert(wal[count - 1] == al[done + (count - 1)]);
        assert(wbl[count - 1] == bl[done + (count - 1)]);
    }
}

/// 1 << lz as a usize is 2^lz
proof fn bl_lemma_max_accum(lz: usize, w: usize)
    requires lz <= 63, w == 1usize << lz
    ensures w as int == p2(lz as nat), w >= 1
{
    let l = lz as u64;
    lemma_one_shl(l);
    lemma_pow2_pos(lz as nat);
    assert(1usize << lz == (1u64 << l) as usize) by (bit_vector) requires l == lz as u64, lz <= 63;
}

/// one accumulation window: at most 2^lz terms -> the reduced accumulator represents the sum over the window
proof fn bl_lemma_window_result(uv: int, carry: int, q: int, al: Seq<Seq<Limb>>, bl: Seq<Seq<Limb>>, m: int, n: nat, cnt: nat, lz: nat)
    requires m > 0, m % 2 == 1, m < bp(n), 0 <= uv < bp(n), 0 <= carry,
        cnt <= p2(lz), lz <= 64 * n, m < p2((64 * n - lz) as nat),
        forall|i: int| 0 <= i < cnt ==> val(#[trigger] al[i], n) < m,
        forall|i: int| 0 <= i < cnt ==> val(#[trigger] bl[i], n) < m,
        mont_rel(q, uv, carry, psum(al, bl, n, n, cnt), m, bp(n)),
    ensures carry <= 1, -m <= uv + carry * bp(n) - m < m,
        mont_repr((uv + carry * bp(n) - m) % m, m, n) == sor(al, bl, m, n, 0, cnt) % m
{
    let t = psum(al, bl, n, n, cnt);
    bl_lemma_sop_bound(al, bl, n, cnt, m);
    bl_lemma_accum_fits(t, cnt, lz, m, n);
    bl_lemma_lc_final(uv, carry, t, q, m, bp(n));
    let rv = (uv + carry * bp(n) - m) % m;
    lemma_mod_bound(uv + carry * bp(n) - m, m);
    bl_lemma_lincomb_repr(rv, al, bl, m, n, cnt);
}

/// the limbs of the first / second factors of a product list
pub open spec fn bl_a(p: Seq<(&BoxedMontyForm, &BoxedMontyForm)>) -> Seq<Seq<Limb>> {
    Seq::new(p.len(), |i: int| p[i].0.montgomery_form.limbs@)
}
pub open spec fn bl_b(p: Seq<(&BoxedMontyForm, &BoxedMontyForm)>) -> Seq<Seq<Limb>> {
    Seq::new(p.len(), |i: int| p[i].1.montgomery_form.limbs@)
}

/// the sum over the limb sequences is the sum `bsor` over the forms (all of precision n)
proof fn bl_lemma_sor_bsor(p: Seq<(&BoxedMontyForm, &BoxedMontyForm)>, m: int, n: nat, cnt: nat)
    requires cnt <= p.len(),
        forall|i: int| 0 <= i < cnt ==> (#[trigger] p[i]).0.montgomery_form.nl() == n && p[i].1.montgomery_form.nl() == n,
    ensures sor(bl_a(p), bl_b(p), m, n, 0, cnt) == bsor(p, m, n, cnt)
    decreases cnt
{
    if cnt > 0 {
        bl_lemma_sor_bsor(p, m, n, (cnt - 1) as nat);
        assert(p[cnt - 1].0.montgomery_form.nl() == n);
        assert(bl_a(p)[cnt - 1] == p[cnt - 1].0.montgomery_form.limbs@);
        assert(bl_b(p)[cnt - 1] == p[cnt - 1].1.montgomery_form.limbs@);
    }
}

/// the precondition of `BoxedMontyForm::lincomb_vartime` (the one caller) implies the strengthened precondition of `lincomb_boxed_monty_form`
/// (check only; not used by the proofs below -- may be dropped when the regions are moved into l8_boxed_monty.rs)
proof fn bl_lemma_caller_ok(p: Seq<(&BoxedMontyForm, &BoxedMontyForm)>)
    requires p.len() >= 1,
        forall|i: int| 0 <= i < p.len() ==> (#[trigger] p[i]).0.wf() && p[i].1.wf()
            && same_modulus(&p[i].0.params, &p[0].0.params) && same_modulus(&p[i].1.params, &p[0].0.params),
    ensures
        forall|i: int| 0 <= i < p.len() ==> (#[trigger] p[i]).0.montgomery_form.v() < p[0].0.params.modulus.0.v()
            && p[i].1.montgomery_form.v() < p[0].0.params.modulus.0.v()
            && p[i].0.montgomery_form.nl() == p[0].0.params.modulus.0.nl() && p[i].1.montgomery_form.nl() == p[0].0.params.modulus.0.nl()
            && p[i].0.montgomery_form.v() < p[i].0.params.modulus.0.v()
            && p[i].1.montgomery_form.v() < p[i].1.params.modulus.0.v(),
{
}

//@@ macroblock src/modular/lincomb.rs | impl_longa_monty_lincomb | arm 0 | a_b=a_b,u=u,modulus=modulus,mod_neg_inv=mod_neg_inv,nlimbs=nlimbs | bl_longa_lincomb_boxed | body | props C09 C11 | sig pub fn bl_longa_lincomb_boxed(a_b: &[(&BoxedMontyForm, &BoxedMontyForm)], u: &mut [Limb], modulus: &[Limb], mod_neg_inv: Limb, nlimbs: usize) -> Limb | invocation impl_longa_monty_lincomb!(products, ret.limbs, modulus.0.limbs, mod_neg_inv, nlimbs); | invocation impl_longa_monty_lincomb!(window, buf.limbs, modulus.0.limbs, mod_neg_inv, nlimbs);
pub fn bl_longa_lincomb_boxed(a_b: &[(&BoxedMontyForm, &BoxedMontyForm)], u: &mut [Limb], modulus: &[Limb], mod_neg_inv: Limb, nlimbs: usize) -> (ret__: Limb)
//@+
    // last two conjuncts of the `forall`: `as_montgomery()` debug-asserts canonicity with respect to the form's OWN parameters
    requires
        nlimbs >= 1, old(u)@.len() == nlimbs, modulus@.len() == nlimbs,
        neg_inv_ok(mod_neg_inv, modulus@[0]), val(modulus@, nlimbs as nat) > 0,
        val(old(u)@, nlimbs as nat) == 0,
        forall|i: int| 0 <= i < a_b@.len() ==> (#[trigger] a_b@[i]).1.montgomery_form.v() < val(modulus@, nlimbs as nat)
            && a_b@[i].0.montgomery_form.nl() == nlimbs && a_b@[i].1.montgomery_form.nl() == nlimbs
            && a_b@[i].0.montgomery_form.v() < a_b@[i].0.params.modulus.0.v()
            && a_b@[i].1.montgomery_form.v() < a_b@[i].1.params.modulus.0.v(),
    ensures
        final(u)@.len() == nlimbs,
        exists|q: int| #[trigger] mont_rel(q, val(final(u)@, nlimbs as nat), ret__.0 as int,
            sop(bl_a(a_b@), bl_b(a_b@), nlimbs as nat, a_b@.len()), val(modulus@, nlimbs as nat), bp(nlimbs as nat)),
//@-
{
//@+
    let ghost n = nlimbs as nat;
    let ghost al = bl_a(a_b@); let ghost bl = bl_b(a_b@);
    let ghost mv = val(modulus@, n);
    let ghost r = bp(n);
    let ghost mut qacc: int = 0;
    proof {
        lemma_bp_succ(0); lemma_bp_succ(n);
        bl_lemma_psum_zero(al, bl, n, a_b@.len());
        assert forall|i: int| 0 <= i < a_b@.len() implies val(#[trigger] bl[i], n) < mv by {
            assert(a_b@[i].1.montgomery_form.v() < mv);
        }
        assert((0 + 0 * r) * bp(0) == 0 + 0 * mv);
        assert((a_b@.len() + 1) * mv > 0) by (nonlinear_arith) requires a_b@.len() >= 0, mv > 0;
    }
//@-
        let len = a_b.len();
        let mut hi_carry = Limb::ZERO;
        let mut hi;
        let mut carry;
        let mut j = 0;
        while j < nlimbs
//@+
        invariant
            n == nlimbs, nlimbs >= 1, len == a_b@.len(), al == bl_a(a_b@), bl == bl_b(a_b@), mv == val(modulus@, n), r == bp(n), r > 0,
            mv > 0, neg_inv_ok(mod_neg_inv, modulus@[0]), u@.len() == nlimbs, modulus@.len() == nlimbs,
            forall|i: int| 0 <= i < a_b@.len() ==> (#[trigger] a_b@[i]).0.montgomery_form.nl() == nlimbs && a_b@[i].1.montgomery_form.nl() == nlimbs
                && a_b@[i].0.montgomery_form.v() < a_b@[i].0.params.modulus.0.v()
                && a_b@[i].1.montgomery_form.v() < a_b@[i].1.params.modulus.0.v(),
            forall|i: int| 0 <= i < len ==> val(#[trigger] bl[i], n) < mv,
            j <= nlimbs, 0 <= qacc < bp(j as nat),
            (val(u@, n) + hi_carry.0 as int * r) * bp(j as nat) == psum(al, bl, j as nat, n, len as nat) + qacc * mv,
            val(u@, n) + hi_carry.0 as int * r < (len + 1) * mv,
        decreases nlimbs - j
//@-
{
//@+
            let ghost a0 = val(u@, n) + hi_carry.0 as int * r;
            let ghost rb = r * B();
//@-
            hi = hi_carry;
            hi_carry = Limb::ZERO;
            let mut i = 0;
//@+
            proof { assert(0 * rb == 0); }
//@-
            while i < len
//@+
            invariant
                n == nlimbs, nlimbs >= 1, len == a_b@.len(), al == bl_a(a_b@), bl == bl_b(a_b@), r == bp(n), rb == r * B(),
                j < nlimbs, i <= len, hi_carry.0 <= i, u@.len() == nlimbs,
                forall|i: int| 0 <= i < a_b@.len() ==> (#[trigger] a_b@[i]).0.montgomery_form.nl() == nlimbs && a_b@[i].1.montgomery_form.nl() == nlimbs
                    && a_b@[i].0.montgomery_form.v() < a_b@[i].0.params.modulus.0.v()
                    && a_b@[i].1.montgomery_form.v() < a_b@[i].1.params.modulus.0.v(),
                val(u@, n) + hi.0 as int * r + hi_carry.0 as int * rb == a0 + rowsum(al, bl, j as nat, n, i as nat),
            decreases len - i
//@-
{
//@+
                let ghost u_b = u@;
                let ghost hi_b = hi; let ghost hc_b = hi_carry;
                let ghost x = al[i as int][j as int].0 as int;
                let ghost ys = bl[i as int];
//@-
                let (ai, bi) = &a_b[i];
                carry = Limb::ZERO;
                let mut k = 0;
//@+
                proof {
                    assert(0 * bp(0) == 0); assert(x * 0 == 0);
                    assert(a_b@[i as int].0.montgomery_form.nl() == nlimbs && a_b@[i as int].1.montgomery_form.nl() == nlimbs);
                    assert(al[i as int] == a_b@[i as int].0.montgomery_form.limbs@);
                    assert(bl[i as int] == a_b@[i as int].1.montgomery_form.limbs@);
                }
//@-
                while k < nlimbs
//@+
                invariant
                    n == nlimbs, i < len, len == a_b@.len(), j < nlimbs, k <= nlimbs, u@.len() == nlimbs, u_b.len() == nlimbs,
                    ai.montgomery_form.v() < ai.params.modulus.0.v(), bi.montgomery_form.v() < bi.params.modulus.0.v(),
                    ai.montgomery_form.limbs@ == al[i as int], bi.montgomery_form.limbs@ == ys, ys.len() == nlimbs, al[i as int].len() == nlimbs,
                    x == al[i as int][j as int].0 as int,
                    forall|t: int| k <= t < nlimbs ==> u@[t] == u_b[t],
                    val(u@, k as nat) + carry.0 as int * bp(k as nat) == val(u_b, k as nat) + x * val(ys, k as nat),
                decreases nlimbs - k
//@-
{
//@+
                    let ghost ub = u@; let ghost cb = carry;
//@-
                    let (__t0, __t1) = u[k].mac( ai.as_montgomery().limbs[j], bi.as_montgomery().limbs[k], carry, ); u[k] = __t0; carry = __t1;
//@+
                    proof { bl_lemma_row_step(u@, ub, u_b, ys, k as nat, x, carry.0 as int, cb.0 as int); }
//@-
                    k += 1;
                }
//@+
                let ghost c1 = carry;
//@-
                let (__t2, __t3) = hi.adc(carry, Limb::ZERO); hi = __t2; carry = __t3;
                hi_carry = hi_carry.wrapping_add(carry);
//@+
                proof {
                    lemma_small_mod((hc_b.0 as int + carry.0 as int) as nat, B() as nat);
                    bl_lemma_acc_step(val(u@, n), val(u_b, n), hi.0 as int, hi_b.0 as int, hc_b.0 as int, carry.0 as int,
                        c1.0 as int, x * val(ys, n), r);
                }
//@-
                i += 1;
            }
//@+
            let ghost u0 = u@;
            let ghost rs = rowsum(al, bl, j as nat, n, len as nat);
//@-
            let q = u[0].wrapping_mul(mod_neg_inv);
            let (_, __t4) = u[0].mac(q, modulus[0], Limb::ZERO); carry = __t4;
            i = 1;
//@+
            proof {
                let a = u0[0].0 as int; let m0 = modulus@[0].0 as int;
                let lw = a + q.0 as int * m0 - carry.0 as int * B();
                bl_lemma_lc_first(lw, carry.0 as int, a, mod_neg_inv.0 as int, q.0 as int, m0);
                lemma_bp1();
                assert(val(modulus@, 1) == m0) by { reveal_with_fuel(val, 2); }
                assert(val(u0, 1) == a) by { reveal_with_fuel(val, 2); }
                assert(val(u@, 0) * B() == 0);
            }
//@-
            while i < nlimbs
//@+
            invariant
                n == nlimbs, 1 <= i <= nlimbs, u@.len() == nlimbs, u0.len() == nlimbs, modulus@.len() == nlimbs,
                forall|t: int| i <= t < nlimbs ==> u@[t] == u0[t],
                val(u@, (i - 1) as nat) * B() + carry.0 as int * bp(i as nat) == val(u0, i as nat) + q.0 as int * val(modulus@, i as nat),
            decreases nlimbs - i
//@-
{
//@+
                let ghost ub = u@; let ghost cb = carry;
//@-
                let (__t5, __t6) = u[i].mac(q, modulus[i], carry); u[i - 1] = __t5; carry = __t6;
//@+
                proof { bl_lemma_shift_step(u@, ub, u0, modulus@, i as nat, q.0 as int, carry.0 as int, cb.0 as int); }
//@-
                i += 1;
            }
//@+
            let ghost ub = u@; let ghost c1 = carry; let ghost hc_b = hi_carry;
//@-
            let (__t7, __t8) = hi.adc(carry, Limb::ZERO); u[nlimbs - 1] = __t7; carry = __t8;
            hi_carry = hi_carry.wrapping_add(carry);
//@+
            proof {
                let n1 = (n - 1) as nat;
                let ap = val(u@, n) + (hc_b.0 as int + carry.0 as int) * r;
                lemma_val_ext(ub, u@, n1);
                lemma_bp_succ(n1);
                assert(val(u@, n) == val(u@, n1) + u@[n - 1].0 as int * bp(n1));
                bl_lemma_red_step(val(u0, n), val(ub, n1), u@[n - 1].0 as int, c1.0 as int, carry.0 as int, hi.0 as int, hc_b.0 as int,
                    q.0 as int, mv, r, bp(n1));
                assert(ap * B() == a0 + rs + q.0 as int * mv);
                bl_lemma_rowsum_bound(al, bl, j as nat, n, len as nat, mv);
                bl_lemma_red_bound(ap, a0, rs, q.0 as int, mv, len as int);
                // no wrap of hi_carry: ap < (len+1) * m <= B * R
                lemma_val_bound(u@, n); lemma_val_bound(modulus@, n);
                assert((len + 1) * mv <= B() * r) by (nonlinear_arith) requires 0 <= len + 1 <= B(), 0 < mv < r;
                assert((hc_b.0 as int + carry.0 as int) < B()) by (nonlinear_arith)
                    requires val(u@, n) + (hc_b.0 as int + carry.0 as int) * r < B() * r, val(u@, n) >= 0, r > 0;
                lemma_small_mod((hc_b.0 as int + carry.0 as int) as nat, B() as nat);
                bl_lemma_psum_succ(al, bl, j as nat, n, len as nat);
                lemma_bp_succ(j as nat);
                bl_lemma_outer_step(ap, a0, rs, q.0 as int, mv, bp(j as nat), psum(al, bl, j as nat, n, len as nat),
                    psum(al, bl, (j + 1) as nat, n, len as nat), qacc);
                let pj = bp(j as nat);
                assert(q.0 as int * pj <= (B() - 1) * pj) by (nonlinear_arith) requires 0 <= q.0 as int <= B() - 1, pj > 0;
                assert(q.0 as int * pj >= 0) by (nonlinear_arith) requires 0 <= q.0 as int, pj > 0;
                assert((B() - 1) * pj + pj == B() * pj) by (nonlinear_arith);
                qacc = qacc + q.0 as int * pj;
            }
//@-
            j += 1;
        }
//@+
        proof {
            assert(mont_rel(qacc, val(u@, n), hi_carry.0 as int, sop(al, bl, n, len as nat), mv, r));
        }
//@-
        hi_carry
    }
//@@ end
//@@ fn src/modular/lincomb.rs | - | lincomb_boxed_monty_form | body | props C09 C11
pub fn lincomb_boxed_monty_form(
    mut products: &[(&BoxedMontyForm, &BoxedMontyForm)],
    modulus: &Odd<BoxedUint>,
    mod_neg_inv: Limb,
    mod_leading_zeros: u32,
) -> (ret__: BoxedUint)
//@+
    // PROVED. NEW with respect to the formerly assumed contract: the last two conjuncts of the `forall` (`BoxedMontyForm::as_montgomery`
    // debug-asserts canonicity with respect to the form's OWN parameters, which the bound against the `modulus` argument does not imply)
    requires
        modulus.0.wf(), modulus.0.v() % 2 == 1, neg_inv_ok(mod_neg_inv, modulus.0.limbs@[0]),
        mod_leading_zeros <= 63, modulus.0.v() < p2((64 * modulus.0.nl() - mod_leading_zeros) as nat),
        forall|i: int| 0 <= i < products@.len() ==> (#[trigger] products@[i]).0.montgomery_form.v() < modulus.0.v()
            && products@[i].1.montgomery_form.v() < modulus.0.v()
            && products@[i].0.montgomery_form.nl() == modulus.0.nl() && products@[i].1.montgomery_form.nl() == modulus.0.nl()
            && products@[i].0.montgomery_form.v() < products@[i].0.params.modulus.0.v()
            && products@[i].1.montgomery_form.v() < products@[i].1.params.modulus.0.v(),
    ensures
        ret__.nl() == modulus.0.nl(), ret__.v() < modulus.0.v(),
        mont_repr(ret__.v(), modulus.0.v(), modulus.0.nl()) == bsor(products@, modulus.0.v(), modulus.0.nl(), products@.len()) % modulus.0.v(),
//@-
{
//@+
    let ghost n = modulus.0.nl();
    let ghost m = modulus.0.v();
    let ghost lz = mod_leading_zeros as nat;
    let ghost p0 = products@;
    let ghost al = bl_a(p0); let ghost bl = bl_b(p0);
    let ghost total = p0.len();
    proof {
        lemma_val_bound(modulus.0.limbs@, n);
        assert forall|i: int| 0 <= i < total implies val(#[trigger] al[i], n) < m by { assert(p0[i].0.montgomery_form.v() < m); }
        assert forall|i: int| 0 <= i < total implies val(#[trigger] bl[i], n) < m by { assert(p0[i].1.montgomery_form.v() < m); }
        bl_lemma_sor_bsor(p0, m, n, total);
        assert((64 * n + 63) / 64 == n);
    }
//@-
    let max_accum = 1 << (mod_leading_zeros as usize);
//@+
    proof { bl_lemma_max_accum(mod_leading_zeros as usize, max_accum); }
//@-
    let nlimbs = modulus.0.nlimbs();
    let mut ret = BoxedUint::zero_with_precision(modulus.0.bits_precision());
    let mut remain = products.len();
    if remain <= max_accum {
        let carry =
            impl_longa_monty_lincomb!(products, ret.limbs, modulus.0.limbs, mod_neg_inv, nlimbs);
//@+
        proof {
            let q = choose|q: int| #[trigger] mont_rel(q, ret.v(), carry.0 as int, sop(al, bl, n, total), m, bp(n));
            lemma_val_bound(ret.limbs@, n);
            bl_lemma_window_result(ret.v(), carry.0 as int, q, al, bl, m, n, total, lz);
        }
//@-
        ret.sub_assign_mod_with_carry(carry, &modulus.0, &modulus.0);
    } else {
        let mut window;
//@+
        let ghost mut done: nat = 0;
        proof {
            lemma_repr_zero(m, n);
            lemma_small_mod(0, m as nat);
            assert(p0.subrange(0, total as int) =~= p0);
        }
//@-
        let mut buf = BoxedUint::zero_with_precision(modulus.0.bits_precision());
        while remain > 0
//@+
        invariant
            n == nlimbs, n == modulus.0.nl(), modulus.0.wf(), m == modulus.0.v(), m % 2 == 1, 0 < m < bp(n), neg_inv_ok(mod_neg_inv, modulus.0.limbs@[0]),
            lz <= 63, m < p2((64 * n - lz) as nat), max_accum as int == p2(lz), max_accum >= 1,
            total == p0.len(), al == bl_a(p0), bl == bl_b(p0),
            forall|i: int| 0 <= i < total ==> val(#[trigger] al[i], n) < m,
            forall|i: int| 0 <= i < total ==> val(#[trigger] bl[i], n) < m,
            forall|i: int| 0 <= i < total ==> (#[trigger] p0[i]).0.montgomery_form.nl() == n && p0[i].1.montgomery_form.nl() == n
                && p0[i].0.montgomery_form.v() < p0[i].0.params.modulus.0.v()
                && p0[i].1.montgomery_form.v() < p0[i].1.params.modulus.0.v(),
            done + remain == total, products@ == p0.subrange(done as int, total as int),
            ret.nl() == n, buf.nl() == n,
            ret.v() < m, mont_repr(ret.v(), m, n) == sor(al, bl, m, n, 0, done) % m,
        decreases remain
//@-
{
            buf.limbs.fill(Limb::ZERO);
//@+
            proof { lemma_val_zero(buf.limbs@, n); }
//@-
            let mut count = remain;
            if count > max_accum {
                count = max_accum;
            }
            let (__t0, __t1) = products.split_at(count); window = __t0; products = __t1;
//@+
            let ghost wal = bl_a(window@); let ghost wbl = bl_b(window@);
            proof {
                assert forall|i: int| 0 <= i < count implies #[trigger] wal[i] == al[done + i] by { assert(window@[i] == p0[done + i]); }
                assert forall|i: int| 0 <= i < count implies #[trigger] wbl[i] == bl[done + i] by { assert(window@[i] == p0[done + i]); }
                assert forall|i: int| 0 <= i < count implies val(#[trigger] wal[i], n) < m by { assert(wal[i] == al[done + i]); }
                assert forall|i: int| 0 <= i < count implies val(#[trigger] wbl[i], n) < m by { assert(wbl[i] == bl[done + i]); }
                assert forall|i: int| 0 <= i < window@.len() implies (#[trigger] window@[i]).1.montgomery_form.v() < m
                    && window@[i].0.montgomery_form.nl() == n && window@[i].1.montgomery_form.nl() == n
                    && window@[i].0.montgomery_form.v() < window@[i].0.params.modulus.0.v()
                    && window@[i].1.montgomery_form.v() < window@[i].1.params.modulus.0.v() by {
                    assert(window@[i] == p0[done + i]);
                    assert(val(wbl[i], n) < m);
                }
                assert(products@ =~= p0.subrange(done + count, total as int));
            }
//@-
            let carry =
                impl_longa_monty_lincomb!(window, buf.limbs, modulus.0.limbs, mod_neg_inv, nlimbs);
//@+
            proof {
                let q = choose|q: int| #[trigger] mont_rel(q, buf.v(), carry.0 as int, sop(wal, wbl, n, count as nat), m, bp(n));
                lemma_val_bound(buf.limbs@, n);
                bl_lemma_window_result(buf.v(), carry.0 as int, q, wal, wbl, m, n, count as nat, lz);
            }
//@-
            buf.sub_assign_mod_with_carry(carry, &modulus.0, &modulus.0);
//@+
            let ghost ret_b = ret.v();
//@-
            let carry = ret.adc_assign(&buf, Limb::ZERO);
            ret.sub_assign_mod_with_carry(carry, &modulus.0, &modulus.0);
//@+
            proof {
                lemma_mod_sub_multiples_vanish(ret_b + buf.v(), m);
                assert(ret.v() == (ret_b + buf.v()) % m);
                lemma_mont_repr_add(ret_b, buf.v(), m, n);
                bl_lemma_sor_window(al, bl, wal, wbl, m, n, done, count as nat);
                lemma_add_mod_noop(sor(al, bl, m, n, 0, done), sor(wal, wbl, m, n, 0, count as nat), m);
                done = done + count as nat;
            }
//@-
            remain -= count;
        }
    }
    ret
}
//@@ end

} // verus!
