// L2: Uint byte / hex encoding (src/uint/encoding.rs) -- C16
// body (proved, every LIMBS): Uint::from_be_slice / from_le_slice (value == bytes_val_be/le of the input), uint_to_be_bytes / uint_to_le_bytes
//   (value of the output == v(), plus the positional form: byte k == floor(v / 256^(n-1-k)) mod 256 resp. 256^k), decode_nibble (exhaustive,
//   bit_vector), decode_hex_byte, Uint::from_be_hex / from_le_hex. Lemmas: lemma_be_roundtrip / lemma_le_roundtrip (both directions),
//   lemma_bv_{be,le}_{inj,digit,ext,bound,word}.
// assumed: the four `external_body` shims word_{from,to}_{be,le}_bytes (= u64::{from,to}_{be,le}_bytes, positional semantics); see the note there.
// The hex decoders panic on a non-hex character (`assert!(err == 0)`): `all_hex` is a precondition; that every non-hex byte is reported is the
//   second postcondition of decode_hex_byte.
use vstd::prelude::*;
use vstd::arithmetic::power::*;
use vstd::arithmetic::power2::*;
use vstd::arithmetic::div_mod::*;
use vstd::arithmetic::mul::*;
use vstd::string::*;
use crate::speclib::*;
use crate::l0_prim::*;
use crate::l1_choice::*;
use crate::l1_limb::*;
use crate::l2_core::*;
verus! {


// ---------------------------------------------------------------- spec vocabulary: byte strings
/// 256^n
pub open spec fn p256(n: nat) -> int { pow(256, n) }
/// little-endian value of the first n bytes of s
pub open spec fn bv_le(s: Seq<u8>, n: nat) -> int
    decreases n
{ if n == 0 { 0 } else { bv_le(s, (n - 1) as nat) + s[n - 1] as int * p256((n - 1) as nat) } }
/// big-endian value of the first n bytes of s
pub open spec fn bv_be(s: Seq<u8>, n: nat) -> int
    decreases n
{ if n == 0 { 0 } else { bv_be(s, (n - 1) as nat) * 256 + s[n - 1] as int } }
/// value of a byte string read as a little-endian number
pub open spec fn bytes_val_le(s: Seq<u8>) -> int { bv_le(s, s.len()) }
/// value of a byte string read as a big-endian number
pub open spec fn bytes_val_be(s: Seq<u8>) -> int { bv_be(s, s.len()) }
/// the 8 bytes b[o..o+8] read as a little-endian word
pub open spec fn word_le(b: Seq<u8>, o: int) -> int {
    b[o] as int + b[o + 1] as int * 0x100 + b[o + 2] as int * 0x1_0000 + b[o + 3] as int * 0x100_0000
    + b[o + 4] as int * 0x1_0000_0000 + b[o + 5] as int * 0x100_0000_0000 + b[o + 6] as int * 0x1_0000_0000_0000
    + b[o + 7] as int * 0x100_0000_0000_0000
}
/// the 8 bytes b[o..o+8] read as a big-endian word
pub open spec fn word_be(b: Seq<u8>, o: int) -> int {
    b[o + 7] as int + b[o + 6] as int * 0x100 + b[o + 5] as int * 0x1_0000 + b[o + 4] as int * 0x100_0000
    + b[o + 3] as int * 0x1_0000_0000 + b[o + 2] as int * 0x100_0000_0000 + b[o + 1] as int * 0x1_0000_0000_0000
    + b[o] as int * 0x100_0000_0000_0000
}

// ---- core integer <-> byte array conversions (assumed; positional semantics).
// `u64::{from,to}_{be,le}_bytes` have the signature `[u8; size_of::<Self>()]` whose anonymous length constant cannot be
// named in an `assume_specification` ("requires function type signature to match exactly", probed), so the four calls are
// routed through the `external_body` shims below by the use-site `subst` rewrites further down; each shim's body is the
// original call. They are reported as assumed (trusted base).
#[verifier::external_body]
pub const fn word_from_le_bytes(b: [u8; 8]) -> (r: u64)
    ensures r as int == word_le(b@, 0)
{ u64::from_le_bytes(b) }
#[verifier::external_body]
pub const fn word_from_be_bytes(b: [u8; 8]) -> (r: u64)
    ensures r as int == word_be(b@, 0)
{ u64::from_be_bytes(b) }
#[verifier::external_body]
pub const fn word_to_le_bytes(x: u64) -> (r: [u8; 8])
    ensures x as int == word_le(r@, 0)
{ x.to_le_bytes() }
#[verifier::external_body]
pub const fn word_to_be_bytes(x: u64) -> (r: [u8; 8])
    ensures x as int == word_be(r@, 0)
{ x.to_be_bytes() }

pub proof fn lemma_p256_succ(n: nat)
    ensures p256(n + 1) == 256 * p256(n), p256(n) > 0, p256(0) == 1
{ reveal(pow); lemma_pow_positive(256, n); lemma_pow0(256); }

/// 256^(8i) == B^i
pub proof fn lemma_p256_8(i: nat)
    ensures p256(8 * i) == bp(i)
    decreases i
{
    lemma_bp_succ(0); lemma_p256_succ(0);
    if i > 0 {
        lemma_p256_8((i - 1) as nat);
        lemma_bp_succ((i - 1) as nat);
        let n = (8 * (i - 1)) as nat;
        lemma_p256_succ(n); lemma_p256_succ(n + 1); lemma_p256_succ(n + 2); lemma_p256_succ(n + 3);
        lemma_p256_succ(n + 4); lemma_p256_succ(n + 5); lemma_p256_succ(n + 6); lemma_p256_succ(n + 7);
        assert(n + 8 == 8 * i);
    }
}

pub proof fn lemma_bv_le_ext(s: Seq<u8>, t: Seq<u8>, n: nat)
    requires forall|k: int| 0 <= k < n ==> s[k] == t[k],
    ensures bv_le(s, n) == bv_le(t, n),
    decreases n
{ if n > 0 { lemma_bv_le_ext(s, t, (n - 1) as nat); } }

pub proof fn lemma_bv_be_ext(s: Seq<u8>, t: Seq<u8>, n: nat)
    requires forall|k: int| 0 <= k < n ==> s[k] == t[k],
    ensures bv_be(s, n) == bv_be(t, n),
    decreases n
{ if n > 0 { lemma_bv_be_ext(s, t, (n - 1) as nat); } }

pub proof fn lemma_bv_le_bound(s: Seq<u8>, n: nat)
    ensures 0 <= bv_le(s, n) < p256(n)
    decreases n
{
    lemma_p256_succ(0);
    if n > 0 {
        lemma_bv_le_bound(s, (n - 1) as nat); lemma_p256_succ((n - 1) as nat);
        let x = s[n - 1] as int; let p = p256((n - 1) as nat);
        assert(0 <= x * p <= 255 * p) by (nonlinear_arith) requires 0 <= x <= 255, p > 0;
    }
}

pub proof fn lemma_bv_be_bound(s: Seq<u8>, n: nat)
    ensures 0 <= bv_be(s, n) < p256(n)
    decreases n
{
    lemma_p256_succ(0);
    if n > 0 { lemma_bv_be_bound(s, (n - 1) as nat); lemma_p256_succ((n - 1) as nat); }
}

/// eight more bytes, little endian
pub proof fn lemma_bv_le_word(s: Seq<u8>, n: nat)
    ensures bv_le(s, n + 8) == bv_le(s, n) + word_le(s, n as int) * p256(n), 0 <= word_le(s, n as int) < B()
{
    let p = p256(n); let m = n as int;
    lemma_p256_succ(n); lemma_p256_succ(n + 1); lemma_p256_succ(n + 2); lemma_p256_succ(n + 3);
    lemma_p256_succ(n + 4); lemma_p256_succ(n + 5); lemma_p256_succ(n + 6); lemma_p256_succ(n + 7);
    assert(bv_le(s, n + 1) == bv_le(s, n) + s[m] as int * p);
    assert(bv_le(s, n + 2) == bv_le(s, n + 1) + s[m + 1] as int * p256(n + 1));
    assert(bv_le(s, n + 3) == bv_le(s, n + 2) + s[m + 2] as int * p256(n + 2));
    assert(bv_le(s, n + 4) == bv_le(s, n + 3) + s[m + 3] as int * p256(n + 3));
    assert(bv_le(s, n + 5) == bv_le(s, n + 4) + s[m + 4] as int * p256(n + 4));
    assert(bv_le(s, n + 6) == bv_le(s, n + 5) + s[m + 5] as int * p256(n + 5));
    assert(bv_le(s, n + 7) == bv_le(s, n + 6) + s[m + 6] as int * p256(n + 6));
    assert(bv_le(s, n + 8) == bv_le(s, n + 7) + s[m + 7] as int * p256(n + 7));
    let (a0, a1, a2, a3) = (s[m] as int, s[m + 1] as int, s[m + 2] as int, s[m + 3] as int);
    let (a4, a5, a6, a7) = (s[m + 4] as int, s[m + 5] as int, s[m + 6] as int, s[m + 7] as int);
    assert(a1 * (0x100 * p) == (a1 * 0x100) * p) by (nonlinear_arith);
    assert(a2 * (0x1_0000 * p) == (a2 * 0x1_0000) * p) by (nonlinear_arith);
    assert(a3 * (0x100_0000 * p) == (a3 * 0x100_0000) * p) by (nonlinear_arith);
    assert(a4 * (0x1_0000_0000 * p) == (a4 * 0x1_0000_0000) * p) by (nonlinear_arith);
    assert(a5 * (0x100_0000_0000 * p) == (a5 * 0x100_0000_0000) * p) by (nonlinear_arith);
    assert(a6 * (0x1_0000_0000_0000 * p) == (a6 * 0x1_0000_0000_0000) * p) by (nonlinear_arith);
    assert(a7 * (0x100_0000_0000_0000 * p) == (a7 * 0x100_0000_0000_0000) * p) by (nonlinear_arith);
    let (x1, x2, x3, x4, x5, x6, x7) = (a1 * 0x100, a2 * 0x1_0000, a3 * 0x100_0000, a4 * 0x1_0000_0000, a5 * 0x100_0000_0000,
        a6 * 0x1_0000_0000_0000, a7 * 0x100_0000_0000_0000);
    assert(a0 * p + x1 * p + x2 * p + x3 * p + x4 * p + x5 * p + x6 * p + x7 * p == (a0 + x1 + x2 + x3 + x4 + x5 + x6 + x7) * p) by (nonlinear_arith);
}

/// eight more bytes, big endian
pub proof fn lemma_bv_be_word(s: Seq<u8>, n: nat)
    ensures bv_be(s, n + 8) == bv_be(s, n) * B() + word_be(s, n as int), 0 <= word_be(s, n as int) < B()
{
    let m = n as int;
    assert(bv_be(s, n + 1) == bv_be(s, n) * 256 + s[m] as int);
    assert(bv_be(s, n + 2) == bv_be(s, n + 1) * 256 + s[m + 1] as int);
    assert(bv_be(s, n + 3) == bv_be(s, n + 2) * 256 + s[m + 2] as int);
    assert(bv_be(s, n + 4) == bv_be(s, n + 3) * 256 + s[m + 3] as int);
    assert(bv_be(s, n + 5) == bv_be(s, n + 4) * 256 + s[m + 4] as int);
    assert(bv_be(s, n + 6) == bv_be(s, n + 5) * 256 + s[m + 5] as int);
    assert(bv_be(s, n + 7) == bv_be(s, n + 6) * 256 + s[m + 6] as int);
    assert(bv_be(s, n + 8) == bv_be(s, n + 7) * 256 + s[m + 7] as int);
}


/// big-endian byte strings of equal length with equal value are equal
pub proof fn lemma_bv_be_inj(s: Seq<u8>, t: Seq<u8>, n: nat)
    requires bv_be(s, n) == bv_be(t, n)
    ensures forall|k: int| 0 <= k < n ==> s[k] == t[k]
    decreases n
{
    if n > 0 {
        let (a, b) = (bv_be(s, (n - 1) as nat), bv_be(t, (n - 1) as nat));
        assert(a * 256 + s[n - 1] as int == b * 256 + t[n - 1] as int);
        lemma_bv_be_inj(s, t, (n - 1) as nat);
    }
}

/// little-endian byte strings of equal length with equal value are equal
pub proof fn lemma_bv_le_inj(s: Seq<u8>, t: Seq<u8>, n: nat)
    requires bv_le(s, n) == bv_le(t, n)
    ensures forall|k: int| 0 <= k < n ==> s[k] == t[k]
    decreases n
{
    if n > 0 {
        let m = (n - 1) as nat;
        let (a, b, p) = (s[n - 1] as int, t[n - 1] as int, p256(m));
        lemma_bv_le_bound(s, m); lemma_bv_le_bound(t, m);
        assert(a > b ==> a * p >= b * p + p) by (nonlinear_arith) requires p > 0;
        assert(a < b ==> b * p >= a * p + p) by (nonlinear_arith) requires p > 0;
        lemma_bv_le_inj(s, t, m);
    }
}

/// positional: s[i] == floor(bv_le(s, n) / 256^i) mod 256
pub proof fn lemma_bv_le_digit(s: Seq<u8>, n: nat, i: nat) -> (h: int)
    requires i < n
    ensures h >= 0, bv_le(s, n) == bv_le(s, i) + s[i as int] as int * p256(i) + h * p256(i + 1),
        s[i as int] as int == (bv_le(s, n) / p256(i)) % 256
    decreases n
{
    let p = p256(i); let a = s[i as int] as int;
    lemma_p256_succ(i); lemma_bv_le_bound(s, i);
    let h: int;
    if n == i + 1 { h = 0; }
    else {
        let m = (n - 1) as nat;
        let h0 = lemma_bv_le_digit(s, m, i);
        // 256^m == 256^(i+1) * 256^(m-i-1)
        lemma_pow_adds(256, i + 1, (m - i - 1) as nat);
        let q = p256((m - i - 1) as nat); lemma_p256_succ((m - i - 1) as nat);
        let c = s[m as int] as int;
        assert(p256(m) == p256(i + 1) * q);
        h = h0 + c * q;
        assert(c * (p256(i + 1) * q) == (c * q) * p256(i + 1)) by (nonlinear_arith);
        assert((h0 + c * q) * p256(i + 1) == h0 * p256(i + 1) + (c * q) * p256(i + 1)) by (nonlinear_arith);
        assert(c * q >= 0) by (nonlinear_arith) requires c >= 0, q > 0;
    }
    let x = bv_le(s, n); let r = bv_le(s, i);
    assert(h * (256 * p) == (h * 256) * p) by (nonlinear_arith);
    assert(x == (a + h * 256) * p + r) by (nonlinear_arith) requires x == r + a * p + (h * 256) * p;
    lemma_fundamental_div_mod_converse(x, p, a + h * 256, r);
    lemma_fundamental_div_mod_converse(a + h * 256, 256, h, a);
    h
}

/// positional: s[i] == floor(bv_be(s, n) / 256^(n-1-i)) mod 256
pub proof fn lemma_bv_be_digit(s: Seq<u8>, n: nat, i: nat) -> (r: int)
    requires i < n
    ensures 0 <= r < p256((n - 1 - i) as nat), bv_be(s, n) == (bv_be(s, i) * 256 + s[i as int] as int) * p256((n - 1 - i) as nat) + r,
        s[i as int] as int == (bv_be(s, n) / p256((n - 1 - i) as nat)) % 256
    decreases n
{
    let a = s[i as int] as int; let hi = bv_be(s, i);
    lemma_p256_succ(0); lemma_bv_be_bound(s, i);
    let r: int;
    if n == i + 1 { r = 0; assert(bv_be(s, n) == hi * 256 + a); assert((hi * 256 + a) * p256(0) == hi * 256 + a) by (nonlinear_arith) requires p256(0) == 1; }
    else {
        let m = (n - 1) as nat;
        let r0 = lemma_bv_be_digit(s, m, i);
        let q = p256((m - 1 - i) as nat); lemma_p256_succ((m - 1 - i) as nat);
        r = r0 * 256 + s[m as int] as int;
        assert(((hi * 256 + a) * q + r0) * 256 == (hi * 256 + a) * (256 * q) + r0 * 256) by (nonlinear_arith);
        assert((m - 1 - i) as nat + 1 == (n - 1 - i) as nat);
    }
    let p = p256((n - 1 - i) as nat); lemma_p256_succ((n - 1 - i) as nat);
    let x = bv_be(s, n);
    lemma_fundamental_div_mod_converse(x, p, hi * 256 + a, r);
    lemma_fundamental_div_mod_converse(hi * 256 + a, 256, hi, a);
    r
}

/// C16 round trip, big endian: decoding the encoding gives the same integer; encoding a decoded byte string gives the same bytes.
/// (`enc`, `dec` stand for the results of `uint_to_be_bytes` / `Uint::from_be_slice`, characterised by their contracts.)
pub proof fn lemma_be_roundtrip<const LIMBS: usize>(x: Uint<LIMBS>, enc: Seq<u8>, dec: Uint<LIMBS>, bytes: Seq<u8>, enc2: Seq<u8>)
    requires bytes_val_be(enc) == x.v(), dec.v() == bytes_val_be(enc),
        bytes.len() == 8 * LIMBS, enc2.len() == 8 * LIMBS, dec.v() == bytes_val_be(bytes), bytes_val_be(enc2) == dec.v(),
    ensures dec.limbs@ =~= x.limbs@, enc2 =~= bytes
{
    lemma_val_inj(dec.limbs@, x.limbs@, LIMBS as nat);
    lemma_bv_be_inj(enc2, bytes, (8 * LIMBS) as nat);
}

/// C16 round trip, little endian
pub proof fn lemma_le_roundtrip<const LIMBS: usize>(x: Uint<LIMBS>, enc: Seq<u8>, dec: Uint<LIMBS>, bytes: Seq<u8>, enc2: Seq<u8>)
    requires bytes_val_le(enc) == x.v(), dec.v() == bytes_val_le(enc),
        bytes.len() == 8 * LIMBS, enc2.len() == 8 * LIMBS, dec.v() == bytes_val_le(bytes), bytes_val_le(enc2) == dec.v(),
    ensures dec.limbs@ =~= x.limbs@, enc2 =~= bytes
{
    lemma_val_inj(dec.limbs@, x.limbs@, LIMBS as nat);
    lemma_bv_le_inj(enc2, bytes, (8 * LIMBS) as nat);
}


// ---------------------------------------------------------------- spec vocabulary: hex strings
/// value of an ASCII hex digit ([0-9A-Fa-f]); -1 for every other byte
pub open spec fn hex_digit(c: u8) -> int {
    if 0x30 <= c <= 0x39 { c - 0x30 } else if 0x41 <= c <= 0x46 { c - 0x41 + 10 } else if 0x61 <= c <= 0x66 { c - 0x61 + 10 } else { -1 }
}
/// every byte of s is a hex digit
pub open spec fn all_hex(s: Seq<u8>) -> bool { forall|k: int| 0 <= k < s.len() ==> hex_digit(#[trigger] s[k]) >= 0 }
/// byte i of the byte string denoted by the hex string s (two characters per byte, high nibble first)
pub open spec fn hex_byte(s: Seq<u8>, i: int) -> u8 { (16 * hex_digit(s[2 * i]) + hex_digit(s[2 * i + 1])) as u8 }
/// the byte string denoted by a hex string
pub open spec fn hex_bytes(s: Seq<u8>) -> Seq<u8> { Seq::new((s.len() / 2) as nat, |i: int| hex_byte(s, i)) }

//@@ subst \b(Self|Uint)::(ZERO|ONE|MAX|BITS|LOG2_BITS)\b(?!\() => \1::\2()
//@@ subst \bWord::from_(be|le)_bytes\( => word_from_\1_bytes(
//@@ subst = (.*)\.to_(be|le)_bytes\(\); => = word_to_\2_bytes(\1);
//@@ fn src/uint/encoding.rs | impl<const LIMBS:usize>Uint<LIMBS> | from_be_slice | body | props C16 C11
impl<const LIMBS:usize>Uint<LIMBS> {
pub const fn from_be_slice(bytes: &[u8]) -> (ret__: Self)
//@+
    requires bytes@.len() == 8 * LIMBS
    ensures ret__.v() == bytes_val_be(bytes@)
//@-
{
        assert!(
            bytes.len() == Limb::BYTES * LIMBS,
            "bytes are not the expected size"
        );
        let mut res = [Limb::ZERO; LIMBS];
        let mut buf = [0u8; Limb::BYTES];
        let mut i = 0;
//@+
        proof { lemma_bp_succ(0); }
//@-
        while i < LIMBS
//@+
            invariant i <= LIMBS, bytes@.len() == 8 * LIMBS,
                tv(res@, (LIMBS - i) as nat, LIMBS as nat) == bv_be(bytes@, (8 * i) as nat) * bp((LIMBS - i) as nat),
            decreases LIMBS - i
//@-
{
            let mut j = 0;
//@+
            assert(i * Limb::BYTES == 8 * i) by (nonlinear_arith) requires Limb::BYTES == 8;
//@-
            while j < Limb::BYTES
//@+
                invariant j <= 8, i < LIMBS, bytes@.len() == 8 * LIMBS, i * Limb::BYTES == 8 * i,
                    forall|k: int| 0 <= k < j ==> buf@[k] == bytes@[8 * i + k],
                decreases 8 - j
//@-
{
                buf[j] = bytes[i * Limb::BYTES + j];
                j += 1;
            }
//@+
            let ghost old_res = res@;
//@-
            res[LIMBS - i - 1] = Limb(word_from_be_bytes(buf));
//@+
            proof {
                let n = (LIMBS - i - 1) as nat;
                let l = res@[n as int].0 as int;
                assert(l == word_be(bytes@, 8 * i));
                lemma_bv_be_word(bytes@, (8 * i) as nat);
                lemma_tv_ext(old_res, res@, n + 1, LIMBS as nat);
                lemma_val_step(res@, n);
                lemma_bp_succ(n);
                let x = bv_be(bytes@, (8 * i) as nat); let pn = bp(n);
                assert(x * (B() * pn) + l * pn == (x * B() + l) * pn) by (nonlinear_arith);
                assert(8 * i + 8 == 8 * (i + 1));
            }
//@-
            i += 1;
        }
//@+
        proof { lemma_bp_succ(0); let x = bv_be(bytes@, (8 * i) as nat); assert(x * bp(0) == x) by (nonlinear_arith) requires bp(0) == 1; }
//@-
        Uint::new(res)
    }
}
//@@ end
//@@ fn src/uint/encoding.rs | impl<const LIMBS:usize>Uint<LIMBS> | from_le_slice | body | props C16 C11
impl<const LIMBS:usize>Uint<LIMBS> {
pub const fn from_le_slice(bytes: &[u8]) -> (ret__: Self)
//@+
    requires bytes@.len() == 8 * LIMBS
    ensures ret__.v() == bytes_val_le(bytes@)
//@-
{
        assert!(
            bytes.len() == Limb::BYTES * LIMBS,
            "bytes are not the expected size"
        );
        let mut res = [Limb::ZERO; LIMBS];
        let mut buf = [0u8; Limb::BYTES];
        let mut i = 0;
        while i < LIMBS
//@+
            invariant i <= LIMBS, bytes@.len() == 8 * LIMBS,
                val(res@, i as nat) == bv_le(bytes@, (8 * i) as nat),
            decreases LIMBS - i
//@-
{
            let mut j = 0;
//@+
            assert(i * Limb::BYTES == 8 * i) by (nonlinear_arith) requires Limb::BYTES == 8;
//@-
            while j < Limb::BYTES
//@+
                invariant j <= 8, i < LIMBS, bytes@.len() == 8 * LIMBS, i * Limb::BYTES == 8 * i,
                    forall|k: int| 0 <= k < j ==> buf@[k] == bytes@[8 * i + k],
                decreases 8 - j
//@-
{
                buf[j] = bytes[i * Limb::BYTES + j];
                j += 1;
            }
//@+
            let ghost old_res = res@;
//@-
            res[i] = Limb(word_from_le_bytes(buf));
//@+
            proof {
                let l = res@[i as int].0 as int;
                assert(l == word_le(bytes@, 8 * i));
                lemma_bv_le_word(bytes@, (8 * i) as nat);
                lemma_p256_8(i as nat);
                lemma_val_ext(old_res, res@, i as nat);
                lemma_val_step(res@, i as nat);
                assert(8 * i + 8 == 8 * (i + 1));
            }
//@-
            i += 1;
        }
//@+
        proof { lemma_bp_succ(0); }
//@-
        Uint::new(res)
    }
}
//@@ end
//@@ fn src/uint/encoding.rs | - | uint_to_be_bytes | body | props C16 C11
pub const fn uint_to_be_bytes<const LIMBS: usize, const BYTES: usize>(
    uint: &Uint<LIMBS>,
) -> (ret__: [u8; BYTES])
//@+
    requires BYTES == 8 * LIMBS
    ensures bytes_val_be(ret__@) == uint.v(),
        forall|k: int| 0 <= k < BYTES ==> (#[trigger] ret__@[k]) as int == (uint.v() / p256((BYTES - 1 - k) as nat)) % 256,
//@-
{
    if BYTES != LIMBS * Limb::BYTES {
        panic!("BYTES != LIMBS * Limb::BYTES");
    }
    let mut ret = [0u8; BYTES];
    let mut i = 0;
//@+
    proof { lemma_bp_succ(0); }
//@-
    while i < LIMBS
//@+
        invariant i <= LIMBS, BYTES == 8 * LIMBS,
            tv(uint.limbs@, (LIMBS - i) as nat, LIMBS as nat) == bv_be(ret@, (8 * i) as nat) * bp((LIMBS - i) as nat),
        decreases LIMBS - i
//@-
{
        let limb_bytes = word_to_be_bytes(uint.limbs[LIMBS - i - 1].0);
        let mut j = 0;
//@+
        assert(i * Limb::BYTES == 8 * i) by (nonlinear_arith) requires Limb::BYTES == 8;
        let ghost r0 = ret@;
//@-
        while j < Limb::BYTES
//@+
            invariant j <= 8, i < LIMBS, BYTES == 8 * LIMBS, i * Limb::BYTES == 8 * i,
                forall|k: int| 0 <= k < 8 * i ==> ret@[k] == r0[k],
                forall|k: int| 0 <= k < j ==> ret@[8 * i + k] == limb_bytes@[k],
            decreases 8 - j
//@-
{
            ret[i * Limb::BYTES + j] = limb_bytes[j];
            j += 1;
        }
//@+
        proof {
            let n = (LIMBS - i - 1) as nat;
            let l = uint.limbs@[n as int].0 as int;
            assert(l == word_be(ret@, 8 * i));
            lemma_bv_be_ext(r0, ret@, (8 * i) as nat);
            lemma_bv_be_word(ret@, (8 * i) as nat);
            lemma_val_step(uint.limbs@, n);
            lemma_bp_succ(n);
            let x = bv_be(ret@, (8 * i) as nat); let pn = bp(n);
            assert(x * (B() * pn) + l * pn == (x * B() + l) * pn) by (nonlinear_arith);
            assert(8 * i + 8 == 8 * (i + 1));
        }
//@-
        i += 1;
    }
//@+
    proof { lemma_bp_succ(0); let x = bv_be(ret@, (8 * i) as nat); assert(x * bp(0) == x) by (nonlinear_arith) requires bp(0) == 1;
        assert forall|k: int| 0 <= k < BYTES implies (#[trigger] ret@[k]) as int == (uint.v() / p256((BYTES - 1 - k) as nat)) % 256 by { lemma_bv_be_digit(ret@, BYTES as nat, k as nat); } }
//@-
    ret
}
//@@ end
//@@ fn src/uint/encoding.rs | - | uint_to_le_bytes | body | props C16 C11
pub const fn uint_to_le_bytes<const LIMBS: usize, const BYTES: usize>(
    uint: &Uint<LIMBS>,
) -> (ret__: [u8; BYTES])
//@+
    requires BYTES == 8 * LIMBS
    ensures bytes_val_le(ret__@) == uint.v(),
        forall|k: int| 0 <= k < BYTES ==> (#[trigger] ret__@[k]) as int == (uint.v() / p256(k as nat)) % 256,
//@-
{
    if BYTES != LIMBS * Limb::BYTES {
        panic!("BYTES != LIMBS * Limb::BYTES");
    }
    let mut ret = [0u8; BYTES];
    let mut i = 0;
    while i < LIMBS
//@+
        invariant i <= LIMBS, BYTES == 8 * LIMBS,
            val(uint.limbs@, i as nat) == bv_le(ret@, (8 * i) as nat),
        decreases LIMBS - i
//@-
{
        let limb_bytes = word_to_le_bytes(uint.limbs[i].0);
        let mut j = 0;
//@+
        assert(i * Limb::BYTES == 8 * i) by (nonlinear_arith) requires Limb::BYTES == 8;
        let ghost r0 = ret@;
//@-
        while j < Limb::BYTES
//@+
            invariant j <= 8, i < LIMBS, BYTES == 8 * LIMBS, i * Limb::BYTES == 8 * i,
                forall|k: int| 0 <= k < 8 * i ==> ret@[k] == r0[k],
                forall|k: int| 0 <= k < j ==> ret@[8 * i + k] == limb_bytes@[k],
            decreases 8 - j
//@-
{
            ret[i * Limb::BYTES + j] = limb_bytes[j];
            j += 1;
        }
//@+
        proof {
            let l = uint.limbs@[i as int].0 as int;
            assert(l == word_le(ret@, 8 * i));
            lemma_bv_le_ext(r0, ret@, (8 * i) as nat);
            lemma_bv_le_word(ret@, (8 * i) as nat);
            lemma_p256_8(i as nat);
            lemma_val_step(uint.limbs@, i as nat);
            assert(8 * i + 8 == 8 * (i + 1));
        }
//@-
        i += 1;
    }
//@+
    proof { lemma_bp_succ(0); }
//@-
//@+
    proof {
        assert forall|k: int| 0 <= k < BYTES implies (#[trigger] ret@[k]) as int == (uint.v() / p256(k as nat)) % 256 by { lemma_bv_le_digit(ret@, BYTES as nat, k as nat); } }
//@-
    ret
}
//@@ end
//@@ fn src/uint/encoding.rs | - | decode_nibble | body | props C16 C11
pub const fn decode_nibble(src: u8) -> (ret__: u16)
//@+
    ensures hex_digit(src) >= 0 ==> ret__ as int == hex_digit(src),
        hex_digit(src) < 0 ==> ret__ == 0xFFFFu16,
//@-
{
    let byte = src as i16;
    let mut ret: i16 = -1;
//@+
    assert((((0x2fi16 - byte) as i16 & (byte - 0x3ai16) as i16) >> 8) & (byte - 47i16) as i16
        == (if 0x30 <= byte && byte <= 0x39 { (byte - 47i16) as i16 } else { 0i16 })) by (bit_vector) requires 0 <= byte <= 255;
    assert((((0x40i16 - byte) as i16 & (byte - 0x47i16) as i16) >> 8) & (byte - 54i16) as i16
        == (if 0x41 <= byte && byte <= 0x46 { (byte - 54i16) as i16 } else { 0i16 })) by (bit_vector) requires 0 <= byte <= 255;
    assert((((0x60i16 - byte) as i16 & (byte - 0x67i16) as i16) >> 8) & (byte - 86i16) as i16
        == (if 0x61 <= byte && byte <= 0x66 { (byte - 86i16) as i16 } else { 0i16 })) by (bit_vector) requires 0 <= byte <= 255;
//@-
    // 0-9  0x30-0x39
    // if (byte > 0x2f && byte < 0x3a) ret += byte - 0x30 + 1; // -47
    ret += (((0x2fi16 - byte) & (byte - 0x3a)) >> 8) & (byte - 47);
    // A-F  0x41-0x46
    // if (byte > 0x40 && byte < 0x47) ret += byte - 0x41 + 10 + 1; // -54
    ret += (((0x40i16 - byte) & (byte - 0x47)) >> 8) & (byte - 54);
    // a-f  0x61-0x66
    // if (byte > 0x60 && byte < 0x67) ret += byte - 0x61 + 10 + 1; // -86
    ret += (((0x60i16 - byte) & (byte - 0x67)) >> 8) & (byte - 86);
//@+
    assert(ret == -1i16 ==> ret as u16 == 0xFFFFu16) by (bit_vector);
    assert(0 <= ret ==> ret as u16 as int == ret as int) by (bit_vector);
//@-
    ret as u16
}
//@@ end
//@@ fn src/uint/encoding.rs | - | decode_hex_byte | body | props C16 C11
pub const fn decode_hex_byte(bytes: [u8; 2]) -> (ret__: (u8, u16))
//@+
    ensures (hex_digit(bytes@[0]) >= 0 && hex_digit(bytes@[1]) >= 0) ==> ret__.1 == 0 && ret__.0 as int == 16 * hex_digit(bytes@[0]) + hex_digit(bytes@[1]),
        (hex_digit(bytes@[0]) < 0 || hex_digit(bytes@[1]) < 0) ==> ret__.1 != 0,
//@-
{
    let hi = decode_nibble(bytes[0]);
    let lo = decode_nibble(bytes[1]);
//@+
    assert(hi <= 15 && lo <= 15 ==> ((hi << 4) | lo) >> 8 == 0 && (((hi << 4) | lo) as u8) as int == 16 * hi + lo) by (bit_vector);
    assert(hi == 0xFFFFu16 || lo == 0xFFFFu16 ==> ((hi << 4) | lo) >> 8 != 0) by (bit_vector);
//@-
    let byte = (hi << 4) | lo;
    let err = byte >> 8;
    let result = byte as u8;
    (result, err)
}
//@@ end
//@@ fn src/uint/encoding.rs | impl<const LIMBS:usize>Uint<LIMBS> | from_be_hex | body | props C16 C11
impl<const LIMBS:usize>Uint<LIMBS> {
pub const fn from_be_hex(hex: &str) -> (ret__: Self)
//@+
    requires hex.spec_bytes().len() == 16 * LIMBS, all_hex(hex.spec_bytes())
    ensures ret__.v() == bytes_val_be(hex_bytes(hex.spec_bytes()))
//@-
{
        let bytes = hex.as_bytes();
        assert!(
            bytes.len() == Limb::BYTES * LIMBS * 2,
            "hex string is not the expected size"
        );
        let mut res = [Limb::ZERO; LIMBS];
        let mut buf = [0u8; Limb::BYTES];
        let mut i = 0;
        let mut err = 0;
//@+
        let ghost hb = hex_bytes(bytes@);
        proof { lemma_bp_succ(0); }
//@-
        while i < LIMBS
//@+
            invariant i <= LIMBS, bytes@.len() == 16 * LIMBS, all_hex(bytes@), hb == hex_bytes(bytes@), err == 0, 16 * LIMBS <= usize::MAX,
                tv(res@, (LIMBS - i) as nat, LIMBS as nat) == bv_be(hb, (8 * i) as nat) * bp((LIMBS - i) as nat),
            decreases LIMBS - i
//@-
{
            let mut j = 0;
//@+
            assert(i * Limb::BYTES == 8 * i) by (nonlinear_arith) requires Limb::BYTES == 8;
//@-
            while j < Limb::BYTES
//@+
                invariant j <= 8, i < LIMBS, bytes@.len() == 16 * LIMBS, i * Limb::BYTES == 8 * i, all_hex(bytes@), hb == hex_bytes(bytes@), err == 0, 16 * LIMBS <= usize::MAX,
                    forall|k: int| 0 <= k < j ==> buf@[k] == hb[8 * i + k],
                decreases 8 - j
//@-
{
//@+
                assert((i * Limb::BYTES + j) * 2 == 16 * i + 2 * j);
//@-
                let offset = (i * Limb::BYTES + j) * 2;
                let (result, byte_err) = decode_hex_byte([bytes[offset], bytes[offset + 1]]);
//@+
                assert(hex_digit(bytes@[offset as int]) >= 0 && hex_digit(bytes@[offset + 1]) >= 0);
                assert(result == hb[8 * i + j]);
                assert(err | byte_err == 0) by (bit_vector) requires err == 0 && byte_err == 0;
//@-
                err |= byte_err;
                buf[j] = result;
                j += 1;
            }
//@+
            let ghost old_res = res@;
//@-
            res[LIMBS - i - 1] = Limb(word_from_be_bytes(buf));
//@+
            proof {
                let n = (LIMBS - i - 1) as nat;
                let l = res@[n as int].0 as int;
                assert(l == word_be(hb, 8 * i));
                lemma_bv_be_word(hb, (8 * i) as nat);
                lemma_tv_ext(old_res, res@, n + 1, LIMBS as nat);
                lemma_val_step(res@, n);
                lemma_bp_succ(n);
                let x = bv_be(hb, (8 * i) as nat); let pn = bp(n);
                assert(x * (B() * pn) + l * pn == (x * B() + l) * pn) by (nonlinear_arith);
                assert(8 * i + 8 == 8 * (i + 1));
            }
//@-
            i += 1;
        }
//@+
        proof { lemma_bp_succ(0); let x = bv_be(hb, (8 * i) as nat); assert(x * bp(0) == x) by (nonlinear_arith) requires bp(0) == 1; }
//@-
        assert!(err == 0, "invalid hex byte");
        Uint::new(res)
    }
}
//@@ end
//@@ fn src/uint/encoding.rs | impl<const LIMBS:usize>Uint<LIMBS> | from_le_hex | body | props C16 C11
impl<const LIMBS:usize>Uint<LIMBS> {
pub const fn from_le_hex(hex: &str) -> (ret__: Self)
//@+
    requires hex.spec_bytes().len() == 16 * LIMBS, all_hex(hex.spec_bytes())
    ensures ret__.v() == bytes_val_le(hex_bytes(hex.spec_bytes()))
//@-
{
        let bytes = hex.as_bytes();
        assert!(
            bytes.len() == Limb::BYTES * LIMBS * 2,
            "bytes are not the expected size"
        );
        let mut res = [Limb::ZERO; LIMBS];
        let mut buf = [0u8; Limb::BYTES];
        let mut i = 0;
        let mut err = 0;
//@+
        let ghost hb = hex_bytes(bytes@);
        proof { lemma_bp_succ(0); }
//@-
        while i < LIMBS
//@+
            invariant i <= LIMBS, bytes@.len() == 16 * LIMBS, all_hex(bytes@), hb == hex_bytes(bytes@), err == 0, 16 * LIMBS <= usize::MAX,
                val(res@, i as nat) == bv_le(hb, (8 * i) as nat),
            decreases LIMBS - i
//@-
{
            let mut j = 0;
//@+
            assert(i * Limb::BYTES == 8 * i) by (nonlinear_arith) requires Limb::BYTES == 8;
//@-
            while j < Limb::BYTES
//@+
                invariant j <= 8, i < LIMBS, bytes@.len() == 16 * LIMBS, i * Limb::BYTES == 8 * i, all_hex(bytes@), hb == hex_bytes(bytes@), err == 0, 16 * LIMBS <= usize::MAX,
                    forall|k: int| 0 <= k < j ==> buf@[k] == hb[8 * i + k],
                decreases 8 - j
//@-
{
//@+
                assert((i * Limb::BYTES + j) * 2 == 16 * i + 2 * j);
//@-
                let offset = (i * Limb::BYTES + j) * 2;
                let (result, byte_err) = decode_hex_byte([bytes[offset], bytes[offset + 1]]);
//@+
                assert(hex_digit(bytes@[offset as int]) >= 0 && hex_digit(bytes@[offset + 1]) >= 0);
                assert(result == hb[8 * i + j]);
                assert(err | byte_err == 0) by (bit_vector) requires err == 0 && byte_err == 0;
//@-
                err |= byte_err;
                buf[j] = result;
                j += 1;
            }
//@+
            let ghost old_res = res@;
//@-
            res[i] = Limb(word_from_le_bytes(buf));
//@+
            proof {
                let l = res@[i as int].0 as int;
                assert(l == word_le(hb, 8 * i));
                lemma_bv_le_word(hb, (8 * i) as nat);
                lemma_p256_8(i as nat);
                lemma_val_ext(old_res, res@, i as nat);
                lemma_val_step(res@, i as nat);
                assert(8 * i + 8 == 8 * (i + 1));
            }
//@-
            i += 1;
        }
//@+
        proof { lemma_bp_succ(0); }
//@-
        assert!(err == 0, "invalid hex byte");
        Uint::new(res)
    }
}
//@@ end

} // verus!
