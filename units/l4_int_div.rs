// L4: signed division (src/int/div.rs, src/int/div_uint.rs) -- C14
// Proved modularly over the contracts of Uint::div_rem (l3_div_ct) and Uint::div_rem_vartime (l3_div_vt).
// Not covered (closures / subtle::CtOption / traits): checked_div, checked_div_vartime, checked_div_floor,
// checked_div_floor_vartime, CheckedDiv, DivVartime, the Div/Rem/DivAssign/RemAssign operators on Int and Wrapping<Int>.
// Known finding F12: the mixed-width remainder of div_rem_uint_vartime / rem_uint_vartime (see the end of this file).
use vstd::prelude::*;
use vstd::arithmetic::power::*;
use vstd::arithmetic::power2::*;
use vstd::arithmetic::div_mod::*;
use core::ops::Deref;
use crate::speclib::*;
use crate::speclib_bits::*;
use crate::l0_prim::*;
use crate::l1_choice::*;
use crate::l1_limb::*;
use crate::l2_core::*;
use crate::l2_shift::*;
use crate::l3_div_ct::*;
use crate::l3_div_vt::*;
use crate::l4_int::*;
verus! {

// ---- mathematical quotients

/// truncating quotient (rounds toward zero): sign(n)·sign(d)·(|n| div |d|)
pub open spec fn trunc_q(n: int, d: int) -> int {
    if (n >= 0) == (d > 0) { abs_i(n) / abs_i(d) } else { -(abs_i(n) / abs_i(d)) }
}
/// flooring quotient ⌊n/d⌋ (Euclidean division by the positive one of d, -d)
pub open spec fn floor_q(n: int, d: int) -> int { if d > 0 { n / d } else { (-n) / (-d) } }
/// remainder of the truncating division
pub open spec fn true_rem(n: int, d: int) -> int { n - trunc_q(n, d) * d }

/// magnitudes (q, r) of |n| = q·|d| + r  ->  truncating quotient / remainder of n, d
pub proof fn lemma_trunc(n: int, d: int, q: int, r: int)
    requires d != 0, q * abs_i(d) + r == abs_i(n), 0 <= r < abs_i(d), q >= 0
    ensures abs_i(n) / abs_i(d) == q, abs_i(n) % abs_i(d) == r,
        trunc_q(n, d) == (if (n < 0) != (d < 0) { -q } else { q }),
        n == trunc_q(n, d) * d + (if n < 0 { -r } else { r }),
        true_rem(n, d) == (if n < 0 { -r } else { r })
{
    let na = abs_i(n); let da = abs_i(d);
    assert(na == da * q + r) by (nonlinear_arith) requires q * da + r == na;
    lemma_fundamental_div_mod_converse(na, da, q, r);
    assert(q * d == -(q * (-d))) by (nonlinear_arith);
    assert((-q) * d == -(q * d)) by (nonlinear_arith);
    assert((-q) * (-d) == q * d) by (nonlinear_arith);
}

/// floor adjustment: when the signs oppose and r != 0 the quotient magnitude grows by one and the remainder becomes |d| - r
pub proof fn lemma_floor(n: int, d: int, q: int, r: int)
    requires d != 0, q * abs_i(d) + r == abs_i(n), 0 <= r < abs_i(d), q >= 0
    ensures ({
        let da = abs_i(d);
        let opp = (n < 0) != (d < 0); let md = opp && r != 0;
        let qm = if md { q + 1 } else { q }; let rm = if md { da - r } else { r };
        let qs = if opp { -qm } else { qm }; let rs = if d < 0 { -rm } else { rm };
        &&& qs == floor_q(n, d) &&& n == qs * d + rs &&& 0 <= rm < da &&& (rm == 0) == (r == 0) })
{
    lemma_trunc(n, d, q, r);
    let da = abs_i(d);
    let opp = (n < 0) != (d < 0); let md = opp && r != 0;
    let qm = if md { q + 1 } else { q }; let rm = if md { da - r } else { r };
    let qs = if opp { -qm } else { qm }; let rs = if d < 0 { -rm } else { rm };
    assert((q + 1) * da == q * da + da) by (nonlinear_arith);
    assert(q * d == -(q * (-d))) by (nonlinear_arith);
    assert((-q) * d == -(q * d)) by (nonlinear_arith);
    assert((-q) * (-d) == q * d) by (nonlinear_arith);
    assert((-(q + 1)) * d == -(q * d) - d) by (nonlinear_arith);
    assert((-(q + 1)) * (-d) == q * d + d) by (nonlinear_arith);
    assert((q + 1) * d == q * d + d) by (nonlinear_arith);
    assert((q + 1) * (-d) == -(q * d) - d) by (nonlinear_arith);
    assert(n == qs * d + rs);
    if d > 0 {
        assert(n == d * qs + rs) by (nonlinear_arith) requires n == qs * d + rs;
        lemma_fundamental_div_mod_converse(n, d, qs, rs);
    } else {
        assert(-n == (-d) * qs + (-rs)) by (nonlinear_arith) requires n == qs * d + rs;
        lemma_fundamental_div_mod_converse(-n, -d, qs, -rs);
    }
}

/// size of the quotient magnitude: it reaches h = |MIN| only for MIN / ±1
pub proof fn lemma_qbound(n: int, d: int, q: int, r: int, h: int)
    requires d != 0, h >= 1, -h <= n < h, q * abs_i(d) + r == abs_i(n), 0 <= r < abs_i(d), q >= 0
    ensures q <= abs_i(n), q <= h, (q == h) == (n == -h && abs_i(d) == 1), r <= abs_i(n)
{
    let na = abs_i(n); let da = abs_i(d);
    assert(q <= na && r <= na) by (nonlinear_arith) requires q * da + r == na, da >= 1, r >= 0, q >= 0;
    if q == h { assert(da == 1) by (nonlinear_arith) requires q * da + r == na, na <= q, da >= 1, r >= 0, q >= 1; }
    if n == -h && da == 1 { assert(q == h) by (nonlinear_arith) requires q * da + r == na, da == 1, 0 <= r < da, na == h; }
}

pub proof fn lemma_floor_qbound(n: int, d: int, q: int, r: int, h: int)
    requires d != 0, h >= 2, -h <= n < h, q * abs_i(d) + r == abs_i(n), 0 <= r < abs_i(d), q >= 0
    ensures ({
        let opp = (n < 0) != (d < 0); let md = opp && r != 0;
        let qm = if md { q + 1 } else { q };
        &&& qm <= h &&& q + 1 <= h + 1 &&& (qm == h) == (n == -h && abs_i(d) == 1) &&& r <= abs_i(n) })
{
    lemma_qbound(n, d, q, r, h);
    let na = abs_i(n); let da = abs_i(d);
    if r != 0 {
        assert(q < na) by (nonlinear_arith) requires q * da + r == na, da >= 1, r >= 1, q >= 0;
        if q + 1 == h {
            assert(q * da >= q * 2) by (nonlinear_arith) requires da >= 2, q >= 0;
            assert(false);
        }
    }
}

//@@ subst \b(Self|Uint|Int)::(ZERO|ONE|MINUS_ONE|MIN|MAX|SIGN_MASK|FULL_MASK|BITS|LIMBS|LOG2_BITS)\b(?!\() => \1::\2()
//@@ subst \b(Uint|Int)::<(\w+)>::(ZERO|ONE|MAX|MIN|BITS)\b(?!\() => \1::<\2>::\3()
//@@ fn src/int/div.rs | impl<const LIMBS: usize> Int<LIMBS> | div_rem_base | body | props C14 C11
impl<const LIMBS: usize> Int<LIMBS> {
pub const fn div_rem_base(
        &self,
        rhs: &NonZero<Self>,
    ) -> (ret__: (Uint<{ LIMBS }>, Uint<{ LIMBS }>, ConstChoice, ConstChoice))
//@+
    requires 1 <= LIMBS < 0x400_0000, rhs.0.iv() != 0
    ensures ret__.2.wf(), ret__.3.wf(), ret__.2.t() == (self.iv() < 0), ret__.3.t() == (rhs.0.iv() < 0),
        ret__.0.v() * abs_i(rhs.0.iv()) + ret__.1.v() == abs_i(self.iv()), 0 <= ret__.1.v() < abs_i(rhs.0.iv())
//@-
{
        // Step 1: split operands into signs and magnitudes.
        let (lhs_mag, lhs_sgn) = self.abs_sign();
        let (rhs_mag, rhs_sgn) = rhs.abs_sign();
        // Step 2. Divide magnitudes
        // safe to unwrap since rhs is NonZero.
        let (quotient, remainder) = lhs_mag.div_rem(&rhs_mag);
        (quotient, remainder, lhs_sgn, rhs_sgn)
    }
}
//@@ end
//@@ fn src/int/div.rs | impl<const LIMBS: usize> Int<LIMBS> | checked_div_rem | body | props C14 C11
impl<const LIMBS: usize> Int<LIMBS> {
pub const fn checked_div_rem(&self, rhs: &NonZero<Self>) -> (ret__: (ConstCtOption<Self>, Self))
//@+
    requires 1 <= LIMBS < 0x400_0000, rhs.0.iv() != 0
    ensures
        self.iv() == trunc_q(self.iv(), rhs.0.iv()) * rhs.0.iv() + ret__.1.iv(),
        abs_i(ret__.1.iv()) < abs_i(rhs.0.iv()),
        ret__.1.iv() == 0 || (ret__.1.iv() < 0) == (self.iv() < 0),
        ret__.0.is_some.wf(),
        ret__.0.is_some.t() == !(self.iv() == -ih(LIMBS as nat) && rhs.0.iv() == -1),
        ret__.0.is_some.t() ==> ret__.0.value.iv() == trunc_q(self.iv(), rhs.0.iv())
//@-
{
        let (quotient, remainder, lhs_sgn, rhs_sgn) = self.div_rem_base(rhs);
        let opposing_signs = lhs_sgn.ne(rhs_sgn);
//@+
    proof {
        let n = self.iv(); let d = rhs.0.iv();
        lemma_half(LIMBS as nat); lemma_half(LIMBS as nat);
        lemma_val_bound(quotient.limbs@, LIMBS as nat); lemma_val_bound(remainder.limbs@, LIMBS as nat);
        lemma_val_bound(self.0.limbs@, LIMBS as nat); lemma_val_bound(rhs.0.0.limbs@, LIMBS as nat);
        lemma_iv_bounds(self.0.v(), LIMBS as nat); lemma_iv_bounds(rhs.0.0.v(), LIMBS as nat);
        lemma_trunc(n, d, quotient.v(), remainder.v());
        lemma_qbound(n, d, quotient.v(), remainder.v(), ih(LIMBS as nat));
    }
//@-
        (
            Self::new_from_abs_sign(quotient, opposing_signs),
            remainder.as_int().wrapping_neg_if(lhs_sgn), // as_int mapping is safe; remainder < 2^{k-1} by construction.
        )
    }
}
//@@ end
//@@ fn src/int/div.rs | impl<const LIMBS: usize> Int<LIMBS> | rem | body | props C14 C11
impl<const LIMBS: usize> Int<LIMBS> {
pub const fn rem(&self, rhs: &NonZero<Self>) -> (ret__: Self)
//@+
    requires 1 <= LIMBS < 0x400_0000, rhs.0.iv() != 0
    ensures ret__.iv() == self.iv() - trunc_q(self.iv(), rhs.0.iv()) * rhs.0.iv(),
        abs_i(ret__.iv()) < abs_i(rhs.0.iv()), ret__.iv() == 0 || (ret__.iv() < 0) == (self.iv() < 0)
//@-
{
        self.checked_div_rem(rhs).1
    }
}
//@@ end
//@@ fn src/int/div.rs | impl<const LIMBS: usize> Int<LIMBS> | div_rem_base_vartime | body | props C14 C11
impl<const LIMBS: usize> Int<LIMBS> {
pub const fn div_rem_base_vartime<const RHS_LIMBS: usize>(
        &self,
        rhs: &NonZero<Int<RHS_LIMBS>>,
    ) -> (ret__: (Uint<LIMBS>, Uint<RHS_LIMBS>, ConstChoice, ConstChoice))
//@+
    requires 1 <= LIMBS < 0x400_0000, 1 <= RHS_LIMBS < 0x400_0000, rhs.0.iv() != 0
    ensures ret__.2.wf(), ret__.3.wf(), ret__.2.t() == (self.iv() < 0), ret__.3.t() == (rhs.0.iv() < 0),
        ret__.0.v() * abs_i(rhs.0.iv()) + ret__.1.v() == abs_i(self.iv()), 0 <= ret__.1.v() < abs_i(rhs.0.iv())
//@-
{
        // Step 1: split operands into signs and magnitudes.
        let (lhs_mag, lhs_sgn) = self.abs_sign();
        let (rhs_mag, rhs_sgn) = rhs.abs_sign();
        // Step 2. Divide magnitudes
        // safe to unwrap since rhs is NonZero.
        let (quotient, remainder) = lhs_mag.div_rem_vartime(&rhs_mag);
        (quotient, remainder, lhs_sgn, rhs_sgn)
    }
}
//@@ end
//@@ fn src/int/div.rs | impl<const LIMBS: usize> Int<LIMBS> | checked_div_rem_vartime | body | props C14 C11
impl<const LIMBS: usize> Int<LIMBS> {
pub const fn checked_div_rem_vartime<const RHS_LIMBS: usize>(
        &self,
        rhs: &NonZero<Int<RHS_LIMBS>>,
    ) -> (ret__: (ConstCtOption<Self>, Int<RHS_LIMBS>))
//@+
    requires 1 <= LIMBS < 0x400_0000, 1 <= RHS_LIMBS < 0x400_0000, rhs.0.iv() != 0
    ensures
        self.iv() == trunc_q(self.iv(), rhs.0.iv()) * rhs.0.iv() + ret__.1.iv(),
        abs_i(ret__.1.iv()) < abs_i(rhs.0.iv()),
        ret__.1.iv() == 0 || (ret__.1.iv() < 0) == (self.iv() < 0),
        ret__.0.is_some.wf(),
        ret__.0.is_some.t() == !(self.iv() == -ih(LIMBS as nat) && rhs.0.iv() == -1),
        ret__.0.is_some.t() ==> ret__.0.value.iv() == trunc_q(self.iv(), rhs.0.iv())
//@-
{
        let (quotient, remainder, lhs_sgn, rhs_sgn) = self.div_rem_base_vartime(rhs);
        let opposing_signs = lhs_sgn.ne(rhs_sgn);
//@+
    proof {
        let n = self.iv(); let d = rhs.0.iv();
        lemma_half(LIMBS as nat); lemma_half(RHS_LIMBS as nat);
        lemma_val_bound(quotient.limbs@, LIMBS as nat); lemma_val_bound(remainder.limbs@, RHS_LIMBS as nat);
        lemma_val_bound(self.0.limbs@, LIMBS as nat); lemma_val_bound(rhs.0.0.limbs@, RHS_LIMBS as nat);
        lemma_iv_bounds(self.0.v(), LIMBS as nat); lemma_iv_bounds(rhs.0.0.v(), RHS_LIMBS as nat);
        lemma_trunc(n, d, quotient.v(), remainder.v());
        lemma_qbound(n, d, quotient.v(), remainder.v(), ih(LIMBS as nat));
    }
//@-
        (
            Self::new_from_abs_sign(quotient, opposing_signs),
            remainder.as_int().wrapping_neg_if(lhs_sgn), // as_int mapping is safe; remainder < 2^{k-1} by construction.
        )
    }
}
//@@ end
//@@ fn src/int/div.rs | impl<const LIMBS: usize> Int<LIMBS> | rem_vartime | body | props C14 C11
impl<const LIMBS: usize> Int<LIMBS> {
pub const fn rem_vartime<const RHS_LIMBS: usize>(
        &self,
        rhs: &NonZero<Int<RHS_LIMBS>>,
    ) -> (ret__: Int<RHS_LIMBS>)
//@+
    requires 1 <= LIMBS < 0x400_0000, 1 <= RHS_LIMBS < 0x400_0000, rhs.0.iv() != 0
    ensures ret__.iv() == self.iv() - trunc_q(self.iv(), rhs.0.iv()) * rhs.0.iv(),
        abs_i(ret__.iv()) < abs_i(rhs.0.iv()), ret__.iv() == 0 || (ret__.iv() < 0) == (self.iv() < 0)
//@-
{
        self.checked_div_rem_vartime(rhs).1
    }
}
//@@ end
//@@ fn src/int/div.rs | impl<const LIMBS: usize> Int<LIMBS> | checked_div_rem_floor_vartime | body | props C14 C11
impl<const LIMBS: usize> Int<LIMBS> {
pub const fn checked_div_rem_floor_vartime<const RHS_LIMBS: usize>(
        &self,
        rhs: &NonZero<Int<RHS_LIMBS>>,
    ) -> (ret__: (ConstCtOption<Self>, Int<RHS_LIMBS>))
//@+
    requires 1 <= LIMBS < 0x400_0000, 1 <= RHS_LIMBS < 0x400_0000, rhs.0.iv() != 0
    ensures
        self.iv() == floor_q(self.iv(), rhs.0.iv()) * rhs.0.iv() + ret__.1.iv(),
        abs_i(ret__.1.iv()) < abs_i(rhs.0.iv()),
        ret__.1.iv() == 0 || (ret__.1.iv() < 0) == (rhs.0.iv() < 0),
        ret__.0.is_some.wf(),
        ret__.0.is_some.t() == !(self.iv() == -ih(LIMBS as nat) && rhs.0.iv() == -1),
        ret__.0.is_some.t() ==> ret__.0.value.iv() == floor_q(self.iv(), rhs.0.iv())
//@-
{
        let (lhs_mag, lhs_sgn) = self.abs_sign();
        let (rhs_mag, rhs_sgn) = rhs.abs_sign();
        let (quotient, remainder) = lhs_mag.div_rem_vartime(&rhs_mag);
        // Modify quotient and remainder when lhs and rhs have opposing signs and the remainder is
        // non-zero.
//@+
    let ghost q0 = quotient.v(); let ghost r0 = remainder.v();
    proof {
        lemma_half(LIMBS as nat); lemma_half(RHS_LIMBS as nat);
        lemma_val_bound(quotient.limbs@, LIMBS as nat); lemma_val_bound(remainder.limbs@, RHS_LIMBS as nat);
        lemma_val_bound(self.0.limbs@, LIMBS as nat); lemma_val_bound(rhs.0.0.limbs@, RHS_LIMBS as nat);
        lemma_iv_bounds(self.0.v(), LIMBS as nat); lemma_iv_bounds(rhs.0.0.v(), RHS_LIMBS as nat);
        lemma_floor(self.iv(), rhs.0.iv(), q0, r0);
        lemma_floor_qbound(self.iv(), rhs.0.iv(), q0, r0, ih(LIMBS as nat));
        lemma_small_mod((q0 + 1) as nat, bp(LIMBS as nat) as nat);
        if r0 != 0 { lemma_small_mod((abs_i(rhs.0.iv()) - r0) as nat, bp(RHS_LIMBS as nat) as nat); }
    }
//@-
        let opposing_signs = lhs_sgn.xor(rhs_sgn);
        let modify = remainder.is_nonzero().and(opposing_signs);
        // Increase the quotient by one.
        let quotient_plus_one = quotient.wrapping_add(&Uint::ONE()); // cannot wrap.
        let quotient = Uint::select(&quotient, &quotient_plus_one, modify);
        // Invert the remainder.
        let inv_remainder = rhs_mag.0.wrapping_sub(&remainder);
        let remainder = Uint::select(&remainder, &inv_remainder, modify);
        // Negate the quotient when lhs and rhs have opposing signs; the remainder takes the sign of rhs.
//@+
    proof { lemma_val_bound(quotient.limbs@, LIMBS as nat); lemma_val_bound(remainder.limbs@, RHS_LIMBS as nat); }
//@-
        let quotient = Int::new_from_abs_sign(quotient, opposing_signs);
        let remainder = remainder.as_int().wrapping_neg_if(rhs_sgn); // rem always small enough for safe as_int conversion
        (quotient, remainder)
    }
}
//@@ end
//@@ fn src/int/div.rs | impl<const LIMBS: usize> Int<LIMBS> | checked_div_rem_floor | body | props C14 C11
impl<const LIMBS: usize> Int<LIMBS> {
pub const fn checked_div_rem_floor(&self, rhs: &NonZero<Self>) -> (ret__: (ConstCtOption<Self>, Self))
//@+
    requires 1 <= LIMBS < 0x400_0000, rhs.0.iv() != 0
    ensures
        self.iv() == floor_q(self.iv(), rhs.0.iv()) * rhs.0.iv() + ret__.1.iv(),
        abs_i(ret__.1.iv()) < abs_i(rhs.0.iv()),
        ret__.1.iv() == 0 || (ret__.1.iv() < 0) == (rhs.0.iv() < 0),
        ret__.0.is_some.wf(),
        ret__.0.is_some.t() == !(self.iv() == -ih(LIMBS as nat) && rhs.0.iv() == -1),
        ret__.0.is_some.t() ==> ret__.0.value.iv() == floor_q(self.iv(), rhs.0.iv())
//@-
{
        let (lhs_mag, lhs_sgn) = self.abs_sign();
        let (rhs_mag, rhs_sgn) = rhs.abs_sign();
        let (quotient, remainder) = lhs_mag.div_rem(&rhs_mag);
        // Modify quotient and remainder when lhs and rhs have opposing signs and the remainder is
        // non-zero.
//@+
    let ghost q0 = quotient.v(); let ghost r0 = remainder.v();
    proof {
        lemma_half(LIMBS as nat); lemma_half(LIMBS as nat);
        lemma_val_bound(quotient.limbs@, LIMBS as nat); lemma_val_bound(remainder.limbs@, LIMBS as nat);
        lemma_val_bound(self.0.limbs@, LIMBS as nat); lemma_val_bound(rhs.0.0.limbs@, LIMBS as nat);
        lemma_iv_bounds(self.0.v(), LIMBS as nat); lemma_iv_bounds(rhs.0.0.v(), LIMBS as nat);
        lemma_floor(self.iv(), rhs.0.iv(), q0, r0);
        lemma_floor_qbound(self.iv(), rhs.0.iv(), q0, r0, ih(LIMBS as nat));
        lemma_small_mod((q0 + 1) as nat, bp(LIMBS as nat) as nat);
        if r0 != 0 { lemma_small_mod((abs_i(rhs.0.iv()) - r0) as nat, bp(LIMBS as nat) as nat); }
    }
//@-
        let opposing_signs = lhs_sgn.xor(rhs_sgn);
        let modify = remainder.is_nonzero().and(opposing_signs);
        // Increase the quotient by one.
        let quotient_plus_one = quotient.wrapping_add(&Uint::ONE()); // cannot wrap.
        let quotient = Uint::select(&quotient, &quotient_plus_one, modify);
        // Invert the remainder.
        let inv_remainder = rhs_mag.0.wrapping_sub(&remainder);
        let remainder = Uint::select(&remainder, &inv_remainder, modify);
        // Negate the quotient when lhs and rhs have opposing signs; the remainder takes the sign of rhs.
//@+
    proof { lemma_val_bound(quotient.limbs@, LIMBS as nat); lemma_val_bound(remainder.limbs@, LIMBS as nat); }
//@-
        let quotient = Int::new_from_abs_sign(quotient, opposing_signs);
        let remainder = remainder.as_int().wrapping_neg_if(rhs_sgn); // rem always small enough for safe as_int conversion
        (quotient, remainder)
    }
}
//@@ end
//@@ fn src/int/div_uint.rs | impl<const LIMBS: usize> Int<LIMBS> | div_rem_base_uint | body | props C14 C11
impl<const LIMBS: usize> Int<LIMBS> {
pub const fn div_rem_base_uint(
        &self,
        rhs: &NonZero<Uint<LIMBS>>,
    ) -> (ret__: (Uint<{ LIMBS }>, Uint<{ LIMBS }>, ConstChoice))
//@+
    requires 1 <= LIMBS < 0x400_0000, rhs.0.v() != 0
    ensures ret__.2.wf(), ret__.2.t() == (self.iv() < 0),
        ret__.0.v() * rhs.0.v() + ret__.1.v() == abs_i(self.iv()), 0 <= ret__.1.v() < rhs.0.v()
//@-
{
        let (lhs_mag, lhs_sgn) = self.abs_sign();
        let (quotient, remainder) = lhs_mag.div_rem(rhs);
        (quotient, remainder, lhs_sgn)
    }
}
//@@ end
//@@ fn src/int/div_uint.rs | impl<const LIMBS: usize> Int<LIMBS> | div_rem_uint | body | props C14 C11
impl<const LIMBS: usize> Int<LIMBS> {
pub const fn div_rem_uint(&self, rhs: &NonZero<Uint<LIMBS>>) -> (ret__: (Self, Self))
//@+
    requires 1 <= LIMBS < 0x400_0000, rhs.0.v() != 0
    ensures self.iv() == ret__.0.iv() * rhs.0.v() + ret__.1.iv(),
        ret__.0.iv() == trunc_q(self.iv(), rhs.0.v()),
        abs_i(ret__.1.iv()) < rhs.0.v(),
        ret__.1.iv() == 0 || (ret__.1.iv() < 0) == (self.iv() < 0)
//@-
{
        let (quotient, remainder, lhs_sgn) = self.div_rem_base_uint(rhs);
//@+
    proof {
        let n = self.iv(); let d = rhs.0.v();
        lemma_half(LIMBS as nat); lemma_half(LIMBS as nat);
        lemma_val_bound(quotient.limbs@, LIMBS as nat); lemma_val_bound(remainder.limbs@, LIMBS as nat);
        lemma_val_bound(self.0.limbs@, LIMBS as nat); lemma_val_bound(rhs.0.limbs@, LIMBS as nat);
        lemma_iv_bounds(self.0.v(), LIMBS as nat);
        lemma_trunc(n, d, quotient.v(), remainder.v());
        lemma_qbound(n, d, quotient.v(), remainder.v(), ih(LIMBS as nat));
        lemma_neg_mag(quotient.v(), (bp(LIMBS as nat) - quotient.v()) % bp(LIMBS as nat), LIMBS as nat);
        lemma_neg_mag(remainder.v(), (bp(LIMBS as nat) - remainder.v()) % bp(LIMBS as nat), LIMBS as nat);
    }
//@-
        (
            Self(quotient).wrapping_neg_if(lhs_sgn),
            Self(remainder).wrapping_neg_if(lhs_sgn),
        )
    }
}
//@@ end
//@@ fn src/int/div_uint.rs | impl<const LIMBS: usize> Int<LIMBS> | div_uint | body | props C14 C11
impl<const LIMBS: usize> Int<LIMBS> {
pub const fn div_uint(&self, rhs: &NonZero<Uint<LIMBS>>) -> (ret__: Self)
//@+
    requires 1 <= LIMBS < 0x400_0000, rhs.0.v() != 0
    ensures ret__.iv() == trunc_q(self.iv(), rhs.0.v())
//@-
{
        self.div_rem_uint(rhs).0
    }
}
//@@ end
//@@ fn src/int/div_uint.rs | impl<const LIMBS: usize> Int<LIMBS> | rem_uint | body | props C14 C11
impl<const LIMBS: usize> Int<LIMBS> {
pub const fn rem_uint(&self, rhs: &NonZero<Uint<LIMBS>>) -> (ret__: Self)
//@+
    requires 1 <= LIMBS < 0x400_0000, rhs.0.v() != 0
    ensures ret__.iv() == self.iv() - trunc_q(self.iv(), rhs.0.v()) * rhs.0.v(), abs_i(ret__.iv()) < rhs.0.v(), ret__.iv() == 0 || (ret__.iv() < 0) == (self.iv() < 0)
//@-
{
        self.div_rem_uint(rhs).1
    }
}
//@@ end
//@@ fn src/int/div_uint.rs | impl<const LIMBS: usize> Int<LIMBS> | div_rem_base_uint_vartime | body | props C14 C11
impl<const LIMBS: usize> Int<LIMBS> {
pub const fn div_rem_base_uint_vartime<const RHS_LIMBS: usize>(
        &self,
        rhs: &NonZero<Uint<RHS_LIMBS>>,
    ) -> (ret__: (Uint<LIMBS>, Uint<RHS_LIMBS>, ConstChoice))
//@+
    requires 1 <= LIMBS < 0x400_0000, 1 <= RHS_LIMBS < 0x400_0000, rhs.0.v() != 0
    ensures ret__.2.wf(), ret__.2.t() == (self.iv() < 0),
        ret__.0.v() * rhs.0.v() + ret__.1.v() == abs_i(self.iv()), 0 <= ret__.1.v() < rhs.0.v()
//@-
{
        let (lhs_mag, lhs_sgn) = self.abs_sign();
        let (quotient, remainder) = lhs_mag.div_rem_vartime(rhs);
        (quotient, remainder, lhs_sgn)
    }
}
//@@ end
//@@ fn src/int/div_uint.rs | impl<const LIMBS: usize> Int<LIMBS> | div_rem_uint_vartime | body | props C14 C11
impl<const LIMBS: usize> Int<LIMBS> {
pub const fn div_rem_uint_vartime<const RHS_LIMBS: usize>(
        &self,
        rhs: &NonZero<Uint<RHS_LIMBS>>,
    ) -> (ret__: (Self, Int<RHS_LIMBS>))
//@+
    requires 1 <= LIMBS < 0x400_0000, 1 <= RHS_LIMBS < 0x400_0000, rhs.0.v() != 0
    ensures ret__.0.iv() == trunc_q(self.iv(), rhs.0.v()),
        abs_i(true_rem(self.iv(), rhs.0.v())) < rhs.0.v(),
        true_rem(self.iv(), rhs.0.v()) == 0 || (true_rem(self.iv(), rhs.0.v()) < 0) == (self.iv() < 0),
        ret__.1.iv() == wrap_i(true_rem(self.iv(), rhs.0.v()), RHS_LIMBS as nat),
        (RHS_LIMBS >= LIMBS || rhs.0.v() <= ih(RHS_LIMBS as nat)) ==> in_range(true_rem(self.iv(), rhs.0.v()), RHS_LIMBS as nat),
        in_range(true_rem(self.iv(), rhs.0.v()), RHS_LIMBS as nat) ==> self.iv() == ret__.0.iv() * rhs.0.v() + ret__.1.iv()
//@-
{
        let (quotient, remainder, lhs_sgn) = self.div_rem_base_uint_vartime(rhs);
//@+
    proof {
        let n = self.iv(); let d = rhs.0.v();
        lemma_half(LIMBS as nat); lemma_half(RHS_LIMBS as nat);
        lemma_val_bound(quotient.limbs@, LIMBS as nat); lemma_val_bound(remainder.limbs@, RHS_LIMBS as nat);
        lemma_val_bound(self.0.limbs@, LIMBS as nat); lemma_val_bound(rhs.0.limbs@, RHS_LIMBS as nat);
        lemma_iv_bounds(self.0.v(), LIMBS as nat);
        lemma_trunc(n, d, quotient.v(), remainder.v());
        lemma_qbound(n, d, quotient.v(), remainder.v(), ih(LIMBS as nat));
        lemma_neg_mag(quotient.v(), (bp(LIMBS as nat) - quotient.v()) % bp(LIMBS as nat), LIMBS as nat);
        let r0 = remainder.v(); let rt = true_rem(n, d);
        assert(rt == (if n < 0 { -r0 } else { r0 }));
        lemma_iv_bounds(r0, RHS_LIMBS as nat); lemma_small_mod(r0 as nat, bp(RHS_LIMBS as nat) as nat);
        lemma_ineg(r0, (bp(RHS_LIMBS as nat) - r0) % bp(RHS_LIMBS as nat), RHS_LIMBS as nat);
        let xiv = iv_of(r0, RHS_LIMBS as nat); let wr = bp(RHS_LIMBS as nat);
        if n < 0 {
            // the reinterpreted remainder may already be negative (r0 >= W_R/2): -(r0 - W_R) ≡ -r0 (mod W_R)
            if xiv != r0 { assert(xiv == r0 - wr); lemma_wrap_shift(-r0, 1, RHS_LIMBS as nat); assert(-r0 + 1 * wr == -xiv); }
            assert(wrap_i(-xiv, RHS_LIMBS as nat) == wrap_i(rt, RHS_LIMBS as nat));
        } else {
            assert(wrap_i(rt, RHS_LIMBS as nat) == xiv);
        }
        if in_range(rt, RHS_LIMBS as nat) { lemma_wrap_id(rt, RHS_LIMBS as nat); }
        if RHS_LIMBS >= LIMBS { lemma_bp_mono(LIMBS as nat, RHS_LIMBS as nat); }
    }
//@-
        (
            Self(quotient).wrapping_neg_if(lhs_sgn),
            remainder.as_int().wrapping_neg_if(lhs_sgn),
        )
    }
}
//@@ end
//@@ fn src/int/div_uint.rs | impl<const LIMBS: usize> Int<LIMBS> | div_uint_vartime | body | props C14 C11
impl<const LIMBS: usize> Int<LIMBS> {
pub const fn div_uint_vartime<const RHS_LIMBS: usize>(
        &self,
        rhs: &NonZero<Uint<RHS_LIMBS>>,
    ) -> (ret__: Self)
//@+
    requires 1 <= LIMBS < 0x400_0000, 1 <= RHS_LIMBS < 0x400_0000, rhs.0.v() != 0
    ensures ret__.iv() == trunc_q(self.iv(), rhs.0.v())
//@-
{
        self.div_rem_uint_vartime(rhs).0
    }
}
//@@ end
//@@ fn src/int/div_uint.rs | impl<const LIMBS: usize> Int<LIMBS> | rem_uint_vartime | body | props C14 C11
impl<const LIMBS: usize> Int<LIMBS> {
pub const fn rem_uint_vartime<const RHS_LIMBS: usize>(
        &self,
        rhs: &NonZero<Uint<RHS_LIMBS>>,
    ) -> (ret__: Int<RHS_LIMBS>)
//@+
    requires 1 <= LIMBS < 0x400_0000, 1 <= RHS_LIMBS < 0x400_0000, rhs.0.v() != 0
    ensures ret__.iv() == wrap_i(true_rem(self.iv(), rhs.0.v()), RHS_LIMBS as nat),
        (RHS_LIMBS >= LIMBS || rhs.0.v() <= ih(RHS_LIMBS as nat)) ==> ret__.iv() == true_rem(self.iv(), rhs.0.v()),
        abs_i(true_rem(self.iv(), rhs.0.v())) < rhs.0.v(),
        true_rem(self.iv(), rhs.0.v()) == 0 || (true_rem(self.iv(), rhs.0.v()) < 0) == (self.iv() < 0)
//@-
{
//@+
    proof { if in_range(true_rem(self.iv(), rhs.0.v()), RHS_LIMBS as nat) { lemma_wrap_id(true_rem(self.iv(), rhs.0.v()), RHS_LIMBS as nat); } }
//@-
        self.div_rem_uint_vartime(rhs).1
    }
}
//@@ end
//@@ fn src/int/div_uint.rs | impl<const LIMBS: usize> Int<LIMBS> | div_rem_floor_uint | body | props C14 C11
impl<const LIMBS: usize> Int<LIMBS> {
pub fn div_rem_floor_uint(&self, rhs: &NonZero<Uint<LIMBS>>) -> (ret__: (Self, Uint<LIMBS>))
//@+
    requires 1 <= LIMBS < 0x400_0000, rhs.0.v() != 0
    ensures self.iv() == ret__.0.iv() * rhs.0.v() + ret__.1.v(), 0 <= ret__.1.v() < rhs.0.v(),
        ret__.0.iv() == self.iv() / rhs.0.v(), ret__.1.v() == self.iv() % rhs.0.v(), ret__.0.iv() == floor_q(self.iv(), rhs.0.v())
//@-
{
        let (quotient, remainder, lhs_sgn) = self.div_rem_base_uint(rhs);
//@+
    let ghost q0 = quotient.v(); let ghost r0 = remainder.v();
    proof {
        let n = self.iv(); let d = rhs.0.v();
        lemma_half(LIMBS as nat);
        lemma_val_bound(quotient.limbs@, LIMBS as nat); lemma_val_bound(remainder.limbs@, LIMBS as nat);
        lemma_val_bound(self.0.limbs@, LIMBS as nat); lemma_val_bound(rhs.0.limbs@, LIMBS as nat);
        lemma_iv_bounds(self.0.v(), LIMBS as nat);
        lemma_floor(n, d, q0, r0);
        lemma_floor_qbound(n, d, q0, r0, ih(LIMBS as nat));
        lemma_small_mod((q0 + 1) as nat, bp(LIMBS as nat) as nat);
        if r0 != 0 { lemma_small_mod((d - r0) as nat, bp(LIMBS as nat) as nat); }
    }
//@-
        // Increase the quotient by one when self is negative and there is a non-zero remainder.
        let modify = remainder.is_nonzero().and(lhs_sgn);
        let quotient = Uint::select(&quotient, &quotient.wrapping_add(&Uint::ONE()), modify);
        // Invert the remainder when self is negative and there is a non-zero remainder.
        let remainder = Uint::select(&remainder, &rhs.wrapping_sub(&remainder), modify);
        // Negate if applicable
//@+
    proof {
        lemma_val_bound(quotient.limbs@, LIMBS as nat);
        lemma_neg_mag(quotient.v(), (bp(LIMBS as nat) - quotient.v()) % bp(LIMBS as nat), LIMBS as nat);
        let qs = if self.iv() < 0 { -quotient.v() } else { quotient.v() };
        lemma_fundamental_div_mod_converse(self.iv(), rhs.0.v(), qs, remainder.v());
    }
//@-
        let quotient = Self(quotient).wrapping_neg_if(lhs_sgn);
        (quotient, remainder)
    }
}
//@@ end
//@@ fn src/int/div_uint.rs | impl<const LIMBS: usize> Int<LIMBS> | div_floor_uint | body | props C14 C11
impl<const LIMBS: usize> Int<LIMBS> {
pub fn div_floor_uint(&self, rhs: &NonZero<Uint<LIMBS>>) -> (ret__: Self)
//@+
    requires 1 <= LIMBS < 0x400_0000, rhs.0.v() != 0
    ensures ret__.iv() == self.iv() / rhs.0.v(), ret__.iv() == floor_q(self.iv(), rhs.0.v())
//@-
{
        let (q, _) = self.div_rem_floor_uint(rhs);
        q
    }
}
//@@ end
//@@ fn src/int/div_uint.rs | impl<const LIMBS: usize> Int<LIMBS> | normalized_rem | body | props C14 C11
impl<const LIMBS: usize> Int<LIMBS> {
pub fn normalized_rem(&self, rhs: &NonZero<Uint<LIMBS>>) -> (ret__: Uint<LIMBS>)
//@+
    requires 1 <= LIMBS < 0x400_0000, rhs.0.v() != 0
    ensures 0 <= ret__.v() < rhs.0.v(), ret__.v() == self.iv() % rhs.0.v()
//@-
{
        let (_, r) = self.div_rem_floor_uint(rhs);
        r
    }
}
//@@ end
//@@ fn src/int/div_uint.rs | impl<const LIMBS: usize> Int<LIMBS> | div_rem_floor_uint_vartime | body | props C14 C11
impl<const LIMBS: usize> Int<LIMBS> {
pub fn div_rem_floor_uint_vartime<const RHS_LIMBS: usize>(
        &self,
        rhs: &NonZero<Uint<RHS_LIMBS>>,
    ) -> (ret__: (Self, Uint<RHS_LIMBS>))
//@+
    requires 1 <= LIMBS < 0x400_0000, 1 <= RHS_LIMBS < 0x400_0000, rhs.0.v() != 0
    ensures self.iv() == ret__.0.iv() * rhs.0.v() + ret__.1.v(), 0 <= ret__.1.v() < rhs.0.v(),
        ret__.0.iv() == self.iv() / rhs.0.v(), ret__.1.v() == self.iv() % rhs.0.v(), ret__.0.iv() == floor_q(self.iv(), rhs.0.v())
//@-
{
        let (quotient, remainder, lhs_sgn) = self.div_rem_base_uint_vartime(rhs);
//@+
    let ghost q0 = quotient.v(); let ghost r0 = remainder.v();
    proof {
        let n = self.iv(); let d = rhs.0.v();
        lemma_half(LIMBS as nat);
        lemma_val_bound(quotient.limbs@, LIMBS as nat); lemma_val_bound(remainder.limbs@, RHS_LIMBS as nat);
        lemma_val_bound(self.0.limbs@, LIMBS as nat); lemma_val_bound(rhs.0.limbs@, RHS_LIMBS as nat);
        lemma_iv_bounds(self.0.v(), LIMBS as nat);
        lemma_floor(n, d, q0, r0);
        lemma_floor_qbound(n, d, q0, r0, ih(LIMBS as nat));
        lemma_small_mod((q0 + 1) as nat, bp(LIMBS as nat) as nat);
        if r0 != 0 { lemma_small_mod((d - r0) as nat, bp(RHS_LIMBS as nat) as nat); }
    }
//@-
        // Increase the quotient by one when self is negative and there is a non-zero remainder.
        let modify = remainder.is_nonzero().and(lhs_sgn);
        let quotient = Uint::select(&quotient, &quotient.wrapping_add(&Uint::ONE()), modify);
        // Invert the remainder when self is negative and there is a non-zero remainder.
        let remainder = Uint::select(&remainder, &rhs.wrapping_sub(&remainder), modify);
        // Negate if applicable
//@+
    proof {
        lemma_val_bound(quotient.limbs@, LIMBS as nat);
        lemma_neg_mag(quotient.v(), (bp(LIMBS as nat) - quotient.v()) % bp(LIMBS as nat), LIMBS as nat);
        let qs = if self.iv() < 0 { -quotient.v() } else { quotient.v() };
        lemma_fundamental_div_mod_converse(self.iv(), rhs.0.v(), qs, remainder.v());
    }
//@-
        let quotient = Self(quotient).wrapping_neg_if(lhs_sgn);
        (quotient, remainder)
    }
}
//@@ end
//@@ fn src/int/div_uint.rs | impl<const LIMBS: usize> Int<LIMBS> | div_floor_uint_vartime | body | props C14 C11
impl<const LIMBS: usize> Int<LIMBS> {
pub fn div_floor_uint_vartime<const RHS_LIMBS: usize>(
        &self,
        rhs: &NonZero<Uint<RHS_LIMBS>>,
    ) -> (ret__: Self)
//@+
    requires 1 <= LIMBS < 0x400_0000, 1 <= RHS_LIMBS < 0x400_0000, rhs.0.v() != 0
    ensures ret__.iv() == self.iv() / rhs.0.v(), ret__.iv() == floor_q(self.iv(), rhs.0.v())
//@-
{
        let (q, _) = self.div_rem_floor_uint_vartime(rhs);
        q
    }
}
//@@ end
//@@ fn src/int/div_uint.rs | impl<const LIMBS: usize> Int<LIMBS> | normalized_rem_vartime | body | props C14 C11
impl<const LIMBS: usize> Int<LIMBS> {
pub fn normalized_rem_vartime<const RHS_LIMBS: usize>(
        &self,
        rhs: &NonZero<Uint<RHS_LIMBS>>,
    ) -> (ret__: Uint<RHS_LIMBS>)
//@+
    requires 1 <= LIMBS < 0x400_0000, 1 <= RHS_LIMBS < 0x400_0000, rhs.0.v() != 0
    ensures 0 <= ret__.v() < rhs.0.v(), ret__.v() == self.iv() % rhs.0.v()
//@-
{
        let (_, r) = self.div_rem_floor_uint_vartime(rhs);
        r
    }
}
//@@ end

// KNOWN FINDING F12 (see /verif/known_findings.json): expected to fail; witness
// I128::from_i128(2^64-2).div_rem_uint_vartime(&NonZero(U64::MAX)) -> r = I64(-2)
// (and n = -(2^64-3) -> r = +3). The remainder type Int<RHS_LIMBS> cannot hold |r| >= 2^(64*RHS_LIMBS-1) when
// RHS_LIMBS < LIMBS. `requires` = the proved postcondition of Int::div_rem_uint_vartime, `ensures` = the unconditional
// claim of property C14. The body is empty on purpose: this obligation MUST fail.
pub proof fn known_finding_C14_F12<const LIMBS: usize, const RHS_LIMBS: usize>(n: Int<LIMBS>, d: NonZero<Uint<RHS_LIMBS>>, q: Int<LIMBS>, r: Int<RHS_LIMBS>)
    requires 1 <= LIMBS < 0x400_0000, 1 <= RHS_LIMBS < 0x400_0000, d.0.v() != 0,
        q.iv() == trunc_q(n.iv(), d.0.v()),
        abs_i(true_rem(n.iv(), d.0.v())) < d.0.v(),
        true_rem(n.iv(), d.0.v()) == 0 || (true_rem(n.iv(), d.0.v()) < 0) == (n.iv() < 0),
        r.iv() == wrap_i(true_rem(n.iv(), d.0.v()), RHS_LIMBS as nat),
        (RHS_LIMBS >= LIMBS || d.0.v() <= ih(RHS_LIMBS as nat)) ==> in_range(true_rem(n.iv(), d.0.v()), RHS_LIMBS as nat),
        in_range(true_rem(n.iv(), d.0.v()), RHS_LIMBS as nat) ==> n.iv() == q.iv() * d.0.v() + r.iv(),
    ensures n.iv() == q.iv() * d.0.v() + r.iv(), abs_i(r.iv()) < d.0.v()
{
}

// KNOWN FINDING F12, same defect seen through Int::rem_uint_vartime: expected to fail.
pub proof fn known_finding_C14_F12_rem<const LIMBS: usize, const RHS_LIMBS: usize>(n: Int<LIMBS>, d: NonZero<Uint<RHS_LIMBS>>, r: Int<RHS_LIMBS>)
    requires 1 <= LIMBS < 0x400_0000, 1 <= RHS_LIMBS < 0x400_0000, d.0.v() != 0,
        r.iv() == wrap_i(true_rem(n.iv(), d.0.v()), RHS_LIMBS as nat),
        (RHS_LIMBS >= LIMBS || d.0.v() <= ih(RHS_LIMBS as nat)) ==> r.iv() == true_rem(n.iv(), d.0.v()),
        abs_i(true_rem(n.iv(), d.0.v())) < d.0.v(),
        true_rem(n.iv(), d.0.v()) == 0 || (true_rem(n.iv(), d.0.v()) < 0) == (n.iv() < 0),
    ensures r.iv() == n.iv() - trunc_q(n.iv(), d.0.v()) * d.0.v(), abs_i(r.iv()) < d.0.v()
{
}

} // verus!
