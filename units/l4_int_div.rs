// L4: signed division (src/int/div.rs, src/int/div_uint.rs) -- C14
use vstd::prelude::*;
use vstd::arithmetic::power::*;
use vstd::arithmetic::power2::*;
use vstd::arithmetic::div_mod::*;
use core::ops::Deref;
use crate::speclib::*;
use crate::speclib_bits::*;
use crate::l0_prim::*;
use crate::l1_choice::*;
use crate::l1_limb::*;
use crate::l2_core::*;
use crate::l2_shift::*;
use crate::l3_div_ct::*;
use crate::l3_div_vt::*;
use crate::l4_int::*;
verus! {

//@@ subst \b(Self|Uint|Int)::(ZERO|ONE|MINUS_ONE|MIN|MAX|SIGN_MASK|FULL_MASK|BITS|LIMBS|LOG2_BITS)\b(?!\() => \1::\2()
//@@ subst \b(Uint|Int)::<(\w+)>::(ZERO|ONE|MAX|MIN|BITS)\b(?!\() => \1::<\2>::\3()
//@@ fn src/int/div.rs | impl<const LIMBS: usize> Int<LIMBS> | div_rem_base | body | props C14 C11
impl<const LIMBS: usize> Int<LIMBS> {
pub const fn div_rem_base(
        &self,
        rhs: &NonZero<Self>,
    ) -> (ret__: (Uint<{ LIMBS }>, Uint<{ LIMBS }>, ConstChoice, ConstChoice))
{
        // Step 1: split operands into signs and magnitudes.
        let (lhs_mag, lhs_sgn) = self.abs_sign();
        let (rhs_mag, rhs_sgn) = rhs.abs_sign();
        // Step 2. Divide magnitudes
        // safe to unwrap since rhs is NonZero.
        let (quotient, remainder) = lhs_mag.div_rem(&rhs_mag);
        (quotient, remainder, lhs_sgn, rhs_sgn)
    }
}
//@@ end
//@@ fn src/int/div.rs | impl<const LIMBS: usize> Int<LIMBS> | checked_div_rem | body | props C14 C11
impl<const LIMBS: usize> Int<LIMBS> {
pub const fn checked_div_rem(&self, rhs: &NonZero<Self>) -> (ret__: (ConstCtOption<Self>, Self))
{
        let (quotient, remainder, lhs_sgn, rhs_sgn) = self.div_rem_base(rhs);
        let opposing_signs = lhs_sgn.ne(rhs_sgn);
        (
            Self::new_from_abs_sign(quotient, opposing_signs),
            remainder.as_int().wrapping_neg_if(lhs_sgn), // as_int mapping is safe; remainder < 2^{k-1} by construction.
        )
    }
}
//@@ end
//@@ fn src/int/div.rs | impl<const LIMBS: usize> Int<LIMBS> | rem | body | props C14 C11
impl<const LIMBS: usize> Int<LIMBS> {
pub const fn rem(&self, rhs: &NonZero<Self>) -> (ret__: Self)
{
        self.checked_div_rem(rhs).1
    }
}
//@@ end
//@@ fn src/int/div.rs | impl<const LIMBS: usize> Int<LIMBS> | div_rem_base_vartime | body | props C14 C11
impl<const LIMBS: usize> Int<LIMBS> {
pub const fn div_rem_base_vartime<const RHS_LIMBS: usize>(
        &self,
        rhs: &NonZero<Int<RHS_LIMBS>>,
    ) -> (ret__: (Uint<LIMBS>, Uint<RHS_LIMBS>, ConstChoice, ConstChoice))
{
        // Step 1: split operands into signs and magnitudes.
        let (lhs_mag, lhs_sgn) = self.abs_sign();
        let (rhs_mag, rhs_sgn) = rhs.abs_sign();
        // Step 2. Divide magnitudes
        // safe to unwrap since rhs is NonZero.
        let (quotient, remainder) = lhs_mag.div_rem_vartime(&rhs_mag);
        (quotient, remainder, lhs_sgn, rhs_sgn)
    }
}
//@@ end
//@@ fn src/int/div.rs | impl<const LIMBS: usize> Int<LIMBS> | checked_div_rem_vartime | body | props C14 C11
impl<const LIMBS: usize> Int<LIMBS> {
pub const fn checked_div_rem_vartime<const RHS_LIMBS: usize>(
        &self,
        rhs: &NonZero<Int<RHS_LIMBS>>,
    ) -> (ret__: (ConstCtOption<Self>, Int<RHS_LIMBS>))
{
        let (quotient, remainder, lhs_sgn, rhs_sgn) = self.div_rem_base_vartime(rhs);
        let opposing_signs = lhs_sgn.ne(rhs_sgn);
        (
            Self::new_from_abs_sign(quotient, opposing_signs),
            remainder.as_int().wrapping_neg_if(lhs_sgn), // as_int mapping is safe; remainder < 2^{k-1} by construction.
        )
    }
}
//@@ end
//@@ fn src/int/div.rs | impl<const LIMBS: usize> Int<LIMBS> | rem_vartime | body | props C14 C11
impl<const LIMBS: usize> Int<LIMBS> {
pub const fn rem_vartime<const RHS_LIMBS: usize>(
        &self,
        rhs: &NonZero<Int<RHS_LIMBS>>,
    ) -> (ret__: Int<RHS_LIMBS>)
{
        self.checked_div_rem_vartime(rhs).1
    }
}
//@@ end
//@@ fn src/int/div.rs | impl<const LIMBS: usize> Int<LIMBS> | checked_div_rem_floor_vartime | body | props C14 C11
impl<const LIMBS: usize> Int<LIMBS> {
pub const fn checked_div_rem_floor_vartime<const RHS_LIMBS: usize>(
        &self,
        rhs: &NonZero<Int<RHS_LIMBS>>,
    ) -> (ret__: (ConstCtOption<Self>, Int<RHS_LIMBS>))
{
        let (lhs_mag, lhs_sgn) = self.abs_sign();
        let (rhs_mag, rhs_sgn) = rhs.abs_sign();
        let (quotient, remainder) = lhs_mag.div_rem_vartime(&rhs_mag);
        // Modify quotient and remainder when lhs and rhs have opposing signs and the remainder is
        // non-zero.
        let opposing_signs = lhs_sgn.xor(rhs_sgn);
        let modify = remainder.is_nonzero().and(opposing_signs);
        // Increase the quotient by one.
        let quotient_plus_one = quotient.wrapping_add(&Uint::ONE()); // cannot wrap.
        let quotient = Uint::select(&quotient, &quotient_plus_one, modify);
        // Invert the remainder.
        let inv_remainder = rhs_mag.0.wrapping_sub(&remainder);
        let remainder = Uint::select(&remainder, &inv_remainder, modify);
        // Negate the quotient when lhs and rhs have opposing signs; the remainder takes the sign of rhs.
        let quotient = Int::new_from_abs_sign(quotient, opposing_signs);
        let remainder = remainder.as_int().wrapping_neg_if(rhs_sgn); // rem always small enough for safe as_int conversion
        (quotient, remainder)
    }
}
//@@ end
//@@ fn src/int/div.rs | impl<const LIMBS: usize> Int<LIMBS> | checked_div_rem_floor | body | props C14 C11
impl<const LIMBS: usize> Int<LIMBS> {
pub const fn checked_div_rem_floor(&self, rhs: &NonZero<Self>) -> (ret__: (ConstCtOption<Self>, Self))
{
        let (lhs_mag, lhs_sgn) = self.abs_sign();
        let (rhs_mag, rhs_sgn) = rhs.abs_sign();
        let (quotient, remainder) = lhs_mag.div_rem(&rhs_mag);
        // Modify quotient and remainder when lhs and rhs have opposing signs and the remainder is
        // non-zero.
        let opposing_signs = lhs_sgn.xor(rhs_sgn);
        let modify = remainder.is_nonzero().and(opposing_signs);
        // Increase the quotient by one.
        let quotient_plus_one = quotient.wrapping_add(&Uint::ONE()); // cannot wrap.
        let quotient = Uint::select(&quotient, &quotient_plus_one, modify);
        // Invert the remainder.
        let inv_remainder = rhs_mag.0.wrapping_sub(&remainder);
        let remainder = Uint::select(&remainder, &inv_remainder, modify);
        // Negate the quotient when lhs and rhs have opposing signs; the remainder takes the sign of rhs.
        let quotient = Int::new_from_abs_sign(quotient, opposing_signs);
        let remainder = remainder.as_int().wrapping_neg_if(rhs_sgn); // rem always small enough for safe as_int conversion
        (quotient, remainder)
    }
}
//@@ end
//@@ fn src/int/div_uint.rs | impl<const LIMBS: usize> Int<LIMBS> | div_rem_base_uint | body | props C14 C11
impl<const LIMBS: usize> Int<LIMBS> {
pub const fn div_rem_base_uint(
        &self,
        rhs: &NonZero<Uint<LIMBS>>,
    ) -> (ret__: (Uint<{ LIMBS }>, Uint<{ LIMBS }>, ConstChoice))
{
        let (lhs_mag, lhs_sgn) = self.abs_sign();
        let (quotient, remainder) = lhs_mag.div_rem(rhs);
        (quotient, remainder, lhs_sgn)
    }
}
//@@ end
//@@ fn src/int/div_uint.rs | impl<const LIMBS: usize> Int<LIMBS> | div_rem_uint | body | props C14 C11
impl<const LIMBS: usize> Int<LIMBS> {
pub const fn div_rem_uint(&self, rhs: &NonZero<Uint<LIMBS>>) -> (ret__: (Self, Self))
{
        let (quotient, remainder, lhs_sgn) = self.div_rem_base_uint(rhs);
        (
            Self(quotient).wrapping_neg_if(lhs_sgn),
            Self(remainder).wrapping_neg_if(lhs_sgn),
        )
    }
}
//@@ end
//@@ fn src/int/div_uint.rs | impl<const LIMBS: usize> Int<LIMBS> | div_uint | body | props C14 C11
impl<const LIMBS: usize> Int<LIMBS> {
pub const fn div_uint(&self, rhs: &NonZero<Uint<LIMBS>>) -> (ret__: Self)
{
        self.div_rem_uint(rhs).0
    }
}
//@@ end
//@@ fn src/int/div_uint.rs | impl<const LIMBS: usize> Int<LIMBS> | rem_uint | body | props C14 C11
impl<const LIMBS: usize> Int<LIMBS> {
pub const fn rem_uint(&self, rhs: &NonZero<Uint<LIMBS>>) -> (ret__: Self)
{
        self.div_rem_uint(rhs).1
    }
}
//@@ end
//@@ fn src/int/div_uint.rs | impl<const LIMBS: usize> Int<LIMBS> | div_rem_base_uint_vartime | body | props C14 C11
impl<const LIMBS: usize> Int<LIMBS> {
pub const fn div_rem_base_uint_vartime<const RHS_LIMBS: usize>(
        &self,
        rhs: &NonZero<Uint<RHS_LIMBS>>,
    ) -> (ret__: (Uint<LIMBS>, Uint<RHS_LIMBS>, ConstChoice))
{
        let (lhs_mag, lhs_sgn) = self.abs_sign();
        let (quotient, remainder) = lhs_mag.div_rem_vartime(rhs);
        (quotient, remainder, lhs_sgn)
    }
}
//@@ end
//@@ fn src/int/div_uint.rs | impl<const LIMBS: usize> Int<LIMBS> | div_rem_uint_vartime | body | props C14 C11
impl<const LIMBS: usize> Int<LIMBS> {
pub const fn div_rem_uint_vartime<const RHS_LIMBS: usize>(
        &self,
        rhs: &NonZero<Uint<RHS_LIMBS>>,
    ) -> (ret__: (Self, Int<RHS_LIMBS>))
{
        let (quotient, remainder, lhs_sgn) = self.div_rem_base_uint_vartime(rhs);
        (
            Self(quotient).wrapping_neg_if(lhs_sgn),
            remainder.as_int().wrapping_neg_if(lhs_sgn),
        )
    }
}
//@@ end
//@@ fn src/int/div_uint.rs | impl<const LIMBS: usize> Int<LIMBS> | div_uint_vartime | body | props C14 C11
impl<const LIMBS: usize> Int<LIMBS> {
pub const fn div_uint_vartime<const RHS_LIMBS: usize>(
        &self,
        rhs: &NonZero<Uint<RHS_LIMBS>>,
    ) -> (ret__: Self)
{
        self.div_rem_uint_vartime(rhs).0
    }
}
//@@ end
//@@ fn src/int/div_uint.rs | impl<const LIMBS: usize> Int<LIMBS> | rem_uint_vartime | body | props C14 C11
impl<const LIMBS: usize> Int<LIMBS> {
pub const fn rem_uint_vartime<const RHS_LIMBS: usize>(
        &self,
        rhs: &NonZero<Uint<RHS_LIMBS>>,
    ) -> (ret__: Int<RHS_LIMBS>)
{
        self.div_rem_uint_vartime(rhs).1
    }
}
//@@ end
//@@ fn src/int/div_uint.rs | impl<const LIMBS: usize> Int<LIMBS> | div_rem_floor_uint | body | props C14 C11
impl<const LIMBS: usize> Int<LIMBS> {
pub fn div_rem_floor_uint(&self, rhs: &NonZero<Uint<LIMBS>>) -> (ret__: (Self, Uint<LIMBS>))
{
        let (quotient, remainder, lhs_sgn) = self.div_rem_base_uint(rhs);
        // Increase the quotient by one when self is negative and there is a non-zero remainder.
        let modify = remainder.is_nonzero().and(lhs_sgn);
        let quotient = Uint::select(&quotient, &quotient.wrapping_add(&Uint::ONE()), modify);
        // Invert the remainder when self is negative and there is a non-zero remainder.
        let remainder = Uint::select(&remainder, &rhs.wrapping_sub(&remainder), modify);
        // Negate if applicable
        let quotient = Self(quotient).wrapping_neg_if(lhs_sgn);
        (quotient, remainder)
    }
}
//@@ end
//@@ fn src/int/div_uint.rs | impl<const LIMBS: usize> Int<LIMBS> | div_floor_uint | body | props C14 C11
impl<const LIMBS: usize> Int<LIMBS> {
pub fn div_floor_uint(&self, rhs: &NonZero<Uint<LIMBS>>) -> (ret__: Self)
{
        let (q, _) = self.div_rem_floor_uint(rhs);
        q
    }
}
//@@ end
//@@ fn src/int/div_uint.rs | impl<const LIMBS: usize> Int<LIMBS> | normalized_rem | body | props C14 C11
impl<const LIMBS: usize> Int<LIMBS> {
pub fn normalized_rem(&self, rhs: &NonZero<Uint<LIMBS>>) -> (ret__: Uint<LIMBS>)
{
        let (_, r) = self.div_rem_floor_uint(rhs);
        r
    }
}
//@@ end
//@@ fn src/int/div_uint.rs | impl<const LIMBS: usize> Int<LIMBS> | div_rem_floor_uint_vartime | body | props C14 C11
impl<const LIMBS: usize> Int<LIMBS> {
pub fn div_rem_floor_uint_vartime<const RHS_LIMBS: usize>(
        &self,
        rhs: &NonZero<Uint<RHS_LIMBS>>,
    ) -> (ret__: (Self, Uint<RHS_LIMBS>))
{
        let (quotient, remainder, lhs_sgn) = self.div_rem_base_uint_vartime(rhs);
        // Increase the quotient by one when self is negative and there is a non-zero remainder.
        let modify = remainder.is_nonzero().and(lhs_sgn);
        let quotient = Uint::select(&quotient, &quotient.wrapping_add(&Uint::ONE()), modify);
        // Invert the remainder when self is negative and there is a non-zero remainder.
        let remainder = Uint::select(&remainder, &rhs.wrapping_sub(&remainder), modify);
        // Negate if applicable
        let quotient = Self(quotient).wrapping_neg_if(lhs_sgn);
        (quotient, remainder)
    }
}
//@@ end
//@@ fn src/int/div_uint.rs | impl<const LIMBS: usize> Int<LIMBS> | div_floor_uint_vartime | body | props C14 C11
impl<const LIMBS: usize> Int<LIMBS> {
pub fn div_floor_uint_vartime<const RHS_LIMBS: usize>(
        &self,
        rhs: &NonZero<Uint<RHS_LIMBS>>,
    ) -> (ret__: Self)
{
        let (q, _) = self.div_rem_floor_uint_vartime(rhs);
        q
    }
}
//@@ end
//@@ fn src/int/div_uint.rs | impl<const LIMBS: usize> Int<LIMBS> | normalized_rem_vartime | body | props C14 C11
impl<const LIMBS: usize> Int<LIMBS> {
pub fn normalized_rem_vartime<const RHS_LIMBS: usize>(
        &self,
        rhs: &NonZero<Uint<RHS_LIMBS>>,
    ) -> (ret__: Uint<RHS_LIMBS>)
{
        let (_, r) = self.div_rem_floor_uint_vartime(rhs);
        r
    }
}
//@@ end

} // verus!
