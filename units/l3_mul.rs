// L3: multiplication and squaring (src/uint/mul.rs) -- C03
use vstd::prelude::*;
use vstd::arithmetic::power::*;
use vstd::arithmetic::power2::*;
use vstd::arithmetic::div_mod::*;
use crate::speclib::*;
use crate::speclib_bits::*;
use crate::l0_prim::*;
use crate::l1_choice::*;
use crate::l1_limb::*;
use crate::l2_core::*;
verus! {

//@@ subst \b(Self|Uint)::(ZERO|ONE|MAX|BITS|LOG2_BITS)\b(?!\() => \1::\2()
//@@ subst \bUint::<(\w+)>::(ZERO|ONE|MAX|BITS)\b(?!\() => Uint::<\1>::\2()
//@@ fn src/uint/mul.rs | impl<const LIMBS: usize> Uint<LIMBS> | split_mul | stub | props C03 C11
impl<const LIMBS: usize> Uint<LIMBS> {
#[verifier::external_body]
pub const fn split_mul<const RHS_LIMBS: usize>(
        &self,
        rhs: &Uint<RHS_LIMBS>,
    ) -> (ret__: (Self, Uint<RHS_LIMBS>))
//@+
    requires LIMBS >= 1, RHS_LIMBS >= 1
    ensures ret__.0.v() + ret__.1.v() * bp(LIMBS as nat) == self.v() * rhs.v()
//@-
{
    unimplemented!()
}
}
//@@ end
//@@ fn src/uint/mul.rs | impl<const LIMBS: usize> Uint<LIMBS> | wrapping_mul | stub | props C03 C11
impl<const LIMBS: usize> Uint<LIMBS> {
#[verifier::external_body]
pub const fn wrapping_mul<const H: usize>(&self, rhs: &Uint<H>) -> (ret__: Self)
//@+
    requires LIMBS >= 1, H >= 1
    ensures ret__.v() == (self.v() * rhs.v()) % bp(LIMBS as nat)
//@-
{
    unimplemented!()
}
}
//@@ end
//@@ fn src/uint/mul.rs | impl<const LIMBS: usize> Uint<LIMBS> | square_wide | stub | props C03 C11 C15
impl<const LIMBS: usize> Uint<LIMBS> {
#[verifier::external_body]
pub const fn square_wide(&self) -> (ret__: (Self, Self))
//@+
    requires LIMBS >= 1
    ensures ret__.0.v() + ret__.1.v() * bp(LIMBS as nat) == self.v() * self.v()
//@-
{
    unimplemented!()
}
}
//@@ end

} // verus!
