// L3: multiplication and squaring (src/uint/mul.rs) -- C03
use vstd::prelude::*;
use vstd::arithmetic::power::*;
use vstd::arithmetic::power2::*;
use vstd::arithmetic::div_mod::*;
use crate::speclib::*;
use crate::speclib_bits::*;
use crate::l0_prim::*;
use crate::l1_choice::*;
use crate::l1_limb::*;
use crate::l2_core::*;
use crate::l3_karatsuba::*;
verus! {

//@@ subst \b(Self|Uint)::(ZERO|ONE|MAX|BITS|LOG2_BITS)\b(?!\() => \1::\2()
//@@ subst \bUint::<(\w+)>::(ZERO|ONE|MAX|BITS)\b(?!\() => Uint::<\1>::\2()

// ---- lemmas for the schoolbook grids

/// value of a concatenation: val(a ++ b, |a| + m) = val(a, |a|) + val(b, m)·B^|a|
pub proof fn lemma_val_concat(a: Seq<Limb>, b: Seq<Limb>, m: nat)
    requires m <= b.len()
    ensures val(a + b, a.len() + m) == val(a, a.len()) + val(b, m) * bp(a.len())
    decreases m
{
    let n = a.len();
    if m == 0 {
        lemma_val_ext(a + b, a, n);
        assert(0 * bp(n) == 0);
    } else {
        let m1 = (m - 1) as nat;
        lemma_val_concat(a, b, m1);
        lemma_bp_add(n, m1);
        assert((a + b)[(n + m1) as int] == b[m1 as int]);
        let x = b[m1 as int].0 as int;
        assert((val(b, m1) + x * bp(m1)) * bp(n) == val(b, m1) * bp(n) + x * (bp(n) * bp(m1))) by (nonlinear_arith);
        assert((n + m) as nat == (n + m1 + 1) as nat);
    }
}

/// one multiply-accumulate step of a schoolbook row: position k = i + j receives x·y[j]
proof fn lemma_mac_step(ca: Seq<Limb>, cold: Seq<Limb>, ys: Seq<Limb>, i: nat, j: nat, x: int, carry: int, carry_before: int)
    requires
        ca[(i + j) as int].0 as int + carry * B() == cold[(i + j) as int].0 as int + x * ys[j as int].0 as int + carry_before,
    ensures
        val(ca, i + j + 1) + carry * bp(i + j + 1) - val(cold, i + j + 1)
            == val(ca, i + j) + carry_before * bp(i + j) - val(cold, i + j)
               + x * val(ys, j + 1) * bp(i) - x * val(ys, j) * bp(i)
{
    let k = i + j;
    let pk = bp(k);
    lemma_bp_succ(k);
    lemma_bp_add(i, j);
    let w = ca[k as int].0 as int;
    let c0 = cold[k as int].0 as int;
    let y = ys[j as int].0 as int;
    assert(w * pk + carry * (B() * pk) == c0 * pk + x * y * pk + carry_before * pk) by (nonlinear_arith)
        requires w + carry * B() == c0 + x * y + carry_before;
    assert(x * y * pk == x * (y * bp(j)) * bp(i)) by (nonlinear_arith)
        requires pk == bp(i) * bp(j);
    assert(x * (val(ys, j) + y * bp(j)) * bp(i) == x * val(ys, j) * bp(i) + x * (y * bp(j)) * bp(i)) by (nonlinear_arith);
    assert(val(ys, j + 1) == val(ys, j) + y * bp(j));
    assert(val(ca, k + 1) == val(ca, k) + w * pk);
    assert(val(cold, k + 1) == val(cold, k) + c0 * pk);
}


// ---- squaring: half grid / diagonal decomposition

/// half of the multiplication grid below the diagonal: sum_{r<i} x_r · val(x, r) · B^r  ( = sum_{j<r<i} x_r x_j B^(r+j) )
pub open spec fn sq_half(s: Seq<Limb>, i: nat) -> int
    decreases i
{ if i == 0 { 0 } else { sq_half(s, (i - 1) as nat) + s[i - 1].0 as int * val(s, (i - 1) as nat) * bp((i - 1) as nat) } }

/// the diagonal of the grid: sum_{r<i} x_r² · B^(2r)
pub open spec fn sq_diag(s: Seq<Limb>, i: nat) -> int
    decreases i
{ if i == 0 { 0 } else { sq_diag(s, (i - 1) as nat) + s[i - 1].0 as int * s[i - 1].0 as int * bp((2 * (i - 1)) as nat) } }

/// val(x, n)² = 2·half + diagonal
proof fn lemma_sq_decomp(s: Seq<Limb>, n: nat)
    ensures val(s, n) * val(s, n) == 2 * sq_half(s, n) + sq_diag(s, n)
    decreases n
{
    if n == 0 {
        assert(val(s, 0) == 0);
    } else {
        let m = (n - 1) as nat;
        lemma_sq_decomp(s, m);
        lemma_bp_add(m, m);
        assert((m + m) as nat == (2 * (n - 1)) as nat);
        let v = val(s, m); let a = s[m as int].0 as int; let q = bp(m); let qq = bp((2 * (n - 1)) as nat);
        assert((v + a * q) * (v + a * q) == v * v + 2 * (a * v * q) + a * a * qq) by (nonlinear_arith)
            requires qq == q * q;
    }
}

/// writing limb k with carry-out `cout`: if the limbs below k agree and ca[k] + cout·B == rhs then …
proof fn lemma_limb_step(ca: Seq<Limb>, cb: Seq<Limb>, k: nat, cout: int, rhs: int)
    requires forall|j: int| 0 <= j < k ==> ca[j] == cb[j], ca[k as int].0 as int + cout * B() == rhs
    ensures val(ca, k + 1) + cout * bp(k + 1) == val(cb, k) + rhs * bp(k)
{
    lemma_val_ext(ca, cb, k); lemma_bp_succ(k);
    let w = ca[k as int].0 as int; let pk = bp(k);
    assert((w + cout * B()) * pk == w * pk + cout * (B() * pk)) by (nonlinear_arith);
}

/// (w << 1 | c, w >> 63) is 2w + c split into limb and carry
proof fn lemma_dbl(w: u64, c: u64, r: u64, h: u64)
    requires c <= 1, r == (w << 1) | c, h as int == w as int / p2(63)
    ensures r as int + h as int * B() == 2 * (w as int) + c as int, h <= 1
{
    lemma_u64_shr_div(w, 63);
    let hw = w >> 63u32;
    assert(h == hw);
    assert(((w << 1u32) | c) as int + (hw as int) * 0x1_0000_0000_0000_0000 == 2 * (w as int) + c as int && hw <= 1) by (bit_vector)
        requires c <= 1, hw == w >> 63u32;
}

/// one step of the doubling pass at position k
proof fn lemma_dbl_step(ca: Seq<Limb>, cb: Seq<Limb>, c0: Seq<Limb>, k: nat, cout: int, cin: int)
    requires
        forall|j: int| 0 <= j < k ==> ca[j] == cb[j],
        ca[k as int].0 as int + cout * B() == 2 * (c0[k as int].0 as int) + cin,
        val(cb, k) + cin * bp(k) == 2 * val(c0, k),
    ensures val(ca, k + 1) + cout * bp(k + 1) == 2 * val(c0, k + 1)
{
    let w = c0[k as int].0 as int; let pk = bp(k);
    lemma_limb_step(ca, cb, k, cout, 2 * w + cin);
    assert((2 * w + cin) * pk == 2 * (w * pk) + cin * pk) by (nonlinear_arith);
}

/// one step of the diagonal pass: positions 2i (mac x_i²) and 2i+1 (carry propagation)
proof fn lemma_diag_step(ca: Seq<Limb>, cm: Seq<Limb>, cb: Seq<Limb>, c1: Seq<Limb>, xs: Seq<Limb>, i: nat, cin: int, cmid: int, cout: int)
    requires
        forall|j: int| 0 <= j < 2 * i ==> cm[j] == cb[j],
        forall|j: int| 0 <= j < 2 * i + 1 ==> ca[j] == cm[j],
        cm[(2 * i) as int].0 as int + cmid * B() == c1[(2 * i) as int].0 as int + xs[i as int].0 as int * xs[i as int].0 as int + cin,
        ca[(2 * i + 1) as int].0 as int + cout * B() == c1[(2 * i + 1) as int].0 as int + cmid,
        val(cb, 2 * i) + cin * bp(2 * i) == val(c1, 2 * i) + sq_diag(xs, i),
    ensures
        val(ca, 2 * i + 2) + cout * bp(2 * i + 2) == val(c1, 2 * i + 2) + sq_diag(xs, i + 1)
{
    let k = 2 * i; let pk = bp(k); let pk1 = bp(k + 1);
    let a = c1[k as int].0 as int; let b = c1[(k + 1) as int].0 as int; let x = xs[i as int].0 as int;
    lemma_limb_step(cm, cb, k, cmid, a + x * x + cin);
    assert((a + x * x + cin) * pk == a * pk + x * x * pk + cin * pk) by (nonlinear_arith);
    lemma_limb_step(ca, cm, k + 1, cout, b + cmid);
    assert((b + cmid) * pk1 == b * pk1 + cmid * pk1) by (nonlinear_arith);
    assert(val(c1, k + 1) == val(c1, k) + a * pk);
    assert(val(c1, k + 2) == val(c1, k + 1) + b * pk1);
    assert(sq_diag(xs, i + 1) == sq_diag(xs, i) + x * x * bp((2 * ((i + 1) - 1)) as nat));
    assert((2 * ((i + 1) - 1)) as nat == k);
}

/// lo + hi·w == p with 0 <= lo < w: quotient / remainder / overflow facts
proof fn lemma_split_facts(lo: int, hi: int, w: int, p: int)
    requires lo + hi * w == p, 0 <= lo < w, hi >= 0
    ensures lo == p % w, hi == p / w, (hi == 0) == (p < w), p >= 0
{
    lemma_fundamental_div_mod_converse(p, w, hi, lo);
    assert(hi >= 1 ==> hi * w >= w) by (nonlinear_arith) requires w > 0;
    assert(hi == 0 ==> hi * w == 0);
    assert(hi * w >= 0) by (nonlinear_arith) requires hi >= 0, w > 0;
}

//@@ fn src/uint/mul.rs | - | schoolbook_multiplication | body | props C03 C11
pub const fn schoolbook_multiplication(lhs: &[Limb], rhs: &[Limb], lo: &mut [Limb], hi: &mut [Limb])
//@+
    requires
        lhs.len() == old(lo).len(), rhs.len() == old(hi).len(),
        lhs.len() + rhs.len() <= usize::MAX,
        forall|k: int| 0 <= k < old(lo).len() ==> old(lo)[k].0 == 0,
        forall|k: int| 0 <= k < old(hi).len() ==> old(hi)[k].0 == 0,
    ensures
        final(lo).len() == lhs.len(), final(hi).len() == rhs.len(),
        val(final(lo)@ + final(hi)@, (lhs.len() + rhs.len()) as nat) == val(lhs@, lhs.len() as nat) * val(rhs@, rhs.len() as nat),
        val(final(lo)@, lhs.len() as nat) + val(final(hi)@, rhs.len() as nat) * bp(lhs.len() as nat) == val(lhs@, lhs.len() as nat) * val(rhs@, rhs.len() as nat),
//@-
{
    if lhs.len() != lo.len() || rhs.len() != hi.len() {
        panic!("schoolbook multiplication length mismatch");
    }
//@+
    let ghost n = lhs.len() as nat;
    let ghost m = rhs.len() as nat;
//@-
    let mut i = 0;
//@+
    proof {
        lemma_val_zero(lo@ + hi@, m);
    }
//@-
    while i < lhs.len()
//@+
        invariant
            n == lhs.len(), m == rhs.len(), lo.len() == n, hi.len() == m, n + m <= usize::MAX,
            i <= n,
            i == 0 ==> val(lo@ + hi@, m) == 0,
            i > 0 ==> val(lo@ + hi@, (i + m) as nat) == val(lhs@, i as nat) * val(rhs@, m),
        decreases n - i
//@-
{
        let mut j = 0;
        let mut carry = Limb::ZERO;
        let xi = lhs[i];
//@+
        let ghost cold = lo@ + hi@;
        let ghost p = val(lhs@, i as nat) * val(rhs@, m);
        proof {
            assert(val(cold, (i + m) as nat) == p) by {
                if i == 0 {
                    assert(val(lhs@, 0) == 0);
                    assert(0 * val(rhs@, m) == 0);
                }
            }
            lemma_bp_succ(0);
        }
//@-
        while j < rhs.len()
//@+
            invariant
                n == lhs.len(), m == rhs.len(), lo.len() == n, hi.len() == m, n + m <= usize::MAX,
                i < n, j <= m, xi == lhs[i as int],
                cold.len() == n + m,
                val(cold, (i + m) as nat) == p,
                forall|k: int| i + j <= k < n + m ==> (lo@ + hi@)[k] == cold[k],
                val(lo@ + hi@, (i + j) as nat) + carry.0 as int * bp((i + j) as nat) + (val(cold, (i + m) as nat) - val(cold, (i + j) as nat))
                    == p + xi.0 as int * val(rhs@, j as nat) * bp(i as nat),
            decreases m - j
//@-
{
            let k = i + j;
//@+
            let ghost c_before = lo@ + hi@;
            let ghost carry_before = carry;
//@-
            if k >= lhs.len() {
                let (__t0, __t1) = hi[k - lhs.len()].mac(xi, rhs[j], carry); hi[k - lhs.len()] = __t0; carry = __t1;
            } else {
                let (__t2, __t3) = lo[k].mac(xi, rhs[j], carry); lo[k] = __t2; carry = __t3;
            }
//@+
            proof {
                let c_after = lo@ + hi@;
                assert(c_after =~= c_before.update(k as int, c_after[k as int]));
                lemma_val_ext(c_before, c_after, k as nat);
                assert(c_before[k as int] == cold[k as int]);
                lemma_mac_step(c_after, cold, rhs@, i as nat, j as nat, xi.0 as int, carry.0 as int, carry_before.0 as int);
            }
//@-
            j += 1;
        }
//@+
        let ghost c_before = lo@ + hi@;
//@-
        if i + j >= lhs.len() {
            hi[i + j - lhs.len()] = carry;
        } else {
            lo[i + j] = carry;
        }
//@+
        proof {
            let c_after = lo@ + hi@;
            let k = (i + m) as nat;
            assert(c_after =~= c_before.update(k as int, carry));
            lemma_val_ext(c_before, c_after, k);
            assert(val(c_after, k + 1) == val(c_after, k) + carry.0 as int * bp(k));
            let x = xi.0 as int;
            assert(val(lhs@, (i + 1) as nat) == val(lhs@, i as nat) + x * bp(i as nat));
            assert((val(lhs@, i as nat) + x * bp(i as nat)) * val(rhs@, m) == p + x * val(rhs@, m) * bp(i as nat)) by (nonlinear_arith)
                requires p == val(lhs@, i as nat) * val(rhs@, m);
        }
//@-
        i += 1;
    }
//@+
    proof {
        if n == 0 {
            assert(val(lhs@, 0) == 0);
            assert(0 * val(rhs@, m) == 0);
        }
        lemma_val_concat(lo@, hi@, m);
    }
//@-
}
//@@ end
//@@ fn src/uint/mul.rs | - | schoolbook_squaring | body | props C03 C11
pub const fn schoolbook_squaring(limbs: &[Limb], lo: &mut [Limb], hi: &mut [Limb])
//@+
    requires
        limbs.len() >= 1,
        limbs.len() == old(lo).len(), old(lo).len() == old(hi).len(),
        2 * limbs.len() <= usize::MAX,
        forall|k: int| 0 <= k < old(lo).len() ==> old(lo)[k].0 == 0,
        forall|k: int| 0 <= k < old(hi).len() ==> old(hi)[k].0 == 0,
    ensures
        final(lo).len() == limbs.len(), final(hi).len() == limbs.len(),
        val(final(lo)@ + final(hi)@, (2 * limbs.len()) as nat) == val(limbs@, limbs.len() as nat) * val(limbs@, limbs.len() as nat),
        val(final(lo)@, limbs.len() as nat) + val(final(hi)@, limbs.len() as nat) * bp(limbs.len() as nat) == val(limbs@, limbs.len() as nat) * val(limbs@, limbs.len() as nat),
//@-
{
    // Translated from https://github.com/ucbrise/jedi-pairing/blob/c4bf151/include/core/bigint.hpp#L410
    //
    // Permission to relicense the resulting translation as Apache 2.0 + MIT was given
    // by the original author Sam Kumar: https://github.com/RustCrypto/crypto-bigint/pull/133#discussion_r1056870411
    if limbs.len() != lo.len() || lo.len() != hi.len() {
        panic!("schoolbook squaring length mismatch");
    }
//@+
    let ghost n = limbs.len() as nat;
    let ghost xs = limbs@;
    proof {
        lemma_val_zero(lo@ + hi@, 1);
        lemma_bp_succ(0);
        assert(sq_half(xs, 1) == 0) by {
            assert(sq_half(xs, 0) == 0);
            assert(val(xs, 0) == 0);
            assert(xs[0].0 as int * 0 * bp(0) == 0) by (nonlinear_arith);
        }
    }
//@-
    let mut i = 1;
    while i < limbs.len()
//@+
        invariant
            n == limbs.len(), xs == limbs@, lo.len() == n, hi.len() == n, 2 * n <= usize::MAX,
            1 <= i <= n,
            val(lo@ + hi@, (2 * i - 1) as nat) == sq_half(xs, i as nat),
            forall|k: int| 2 * i - 1 <= k < 2 * n ==> (lo@ + hi@)[k].0 == 0,
        decreases n - i
//@-
{
        let mut j = 0;
        let mut carry = Limb::ZERO;
        let xi = limbs[i];
//@+
        let ghost cold = lo@ + hi@;
        let ghost p = sq_half(xs, i as nat);
        proof {
            lemma_val_hi_zero(cold, (2 * i - 1) as nat, (2 * i) as nat);
            lemma_bp_succ(0);
            assert(val(xs, 0) == 0);
            assert(xi.0 as int * 0 * bp(i as nat) == 0) by (nonlinear_arith);
        }
//@-
        while j < i
//@+
            invariant
                n == limbs.len(), xs == limbs@, lo.len() == n, hi.len() == n, 2 * n <= usize::MAX,
                1 <= i < n, j <= i, xi == limbs[i as int],
                cold.len() == 2 * n,
                val(cold, (2 * i) as nat) == p,
                forall|k: int| 2 * i - 1 <= k < 2 * n ==> cold[k].0 == 0,
                forall|k: int| i + j <= k < 2 * n ==> (lo@ + hi@)[k] == cold[k],
                val(lo@ + hi@, (i + j) as nat) + carry.0 as int * bp((i + j) as nat) + (val(cold, (2 * i) as nat) - val(cold, (i + j) as nat))
                    == p + xi.0 as int * val(xs, j as nat) * bp(i as nat),
            decreases i - j
//@-
{
            let k = i + j;
//@+
            let ghost c_before = lo@ + hi@;
            let ghost carry_before = carry;
//@-
            if k >= limbs.len() {
                let (__t0, __t1) = hi[k - limbs.len()].mac(xi, limbs[j], carry); hi[k - limbs.len()] = __t0; carry = __t1;
            } else {
                let (__t2, __t3) = lo[k].mac(xi, limbs[j], carry); lo[k] = __t2; carry = __t3;
            }
//@+
            proof {
                let c_after = lo@ + hi@;
                assert(c_after =~= c_before.update(k as int, c_after[k as int]));
                lemma_val_ext(c_before, c_after, k as nat);
                assert(c_before[k as int] == cold[k as int]);
                lemma_mac_step(c_after, cold, xs, i as nat, j as nat, xi.0 as int, carry.0 as int, carry_before.0 as int);
            }
//@-
            j += 1;
        }
//@+
        let ghost c_before = lo@ + hi@;
//@-
        if (2 * i) < limbs.len() {
            lo[2 * i] = carry;
        } else {
            hi[2 * i - limbs.len()] = carry;
        }
//@+
        proof {
            let c_after = lo@ + hi@;
            let k = (2 * i) as nat;
            assert(c_after =~= c_before.update(k as int, carry));
            lemma_val_ext(c_before, c_after, k);
            assert(val(c_after, k + 1) == val(c_after, k) + carry.0 as int * bp(k));
            assert(sq_half(xs, (i + 1) as nat) == p + xi.0 as int * val(xs, i as nat) * bp(i as nat));
            assert((2 * (i + 1) - 1) as nat == k + 1);
            assert forall|q: int| 2 * (i + 1) - 1 <= q < 2 * n implies c_after[q].0 == 0 by {
                assert(c_after[q] == c_before[q]);
                assert(c_before[q] == cold[q]);
            }
        }
//@-
        i += 1;
    }
    // Double the current result, this accounts for the other half of the multiplication grid.
    // The top word is empty, so we use a special purpose shl.
    let mut carry = Limb::ZERO;
    let mut i = 0;
//@+
    let ghost c0 = lo@ + hi@;
    proof { lemma_bp_succ(0); }
//@-
    while i < limbs.len()
//@+
        invariant
            n == limbs.len(), lo.len() == n, hi.len() == n, 2 * n <= usize::MAX,
            i <= n, carry.0 <= 1, c0.len() == 2 * n,
            forall|k: int| i <= k < 2 * n ==> (lo@ + hi@)[k] == c0[k],
            val(lo@ + hi@, i as nat) + carry.0 as int * bp(i as nat) == 2 * val(c0, i as nat),
        decreases n - i
//@-
{
//@+
        let ghost cb = lo@ + hi@;
        let ghost cin = carry.0;
//@-
        let (__t4, __t5) = ((lo[i].0 << 1) | carry.0, lo[i].shr(Limb::BITS - 1)); lo[i].0 = __t4; carry = __t5;
//@+
        proof {
            let ca = lo@ + hi@;
            let w = c0[i as int].0;
            assert(cb[i as int] == c0[i as int]);
            lemma_dbl(w, cin, __t4, __t5.0);
            assert(ca =~= cb.update(i as int, Limb(__t4)));
            lemma_dbl_step(ca, cb, c0, i as nat, __t5.0 as int, cin as int);
        }
//@-
        i += 1;
    }
    let mut i = 0;
    while i < limbs.len() - 1
//@+
        invariant
            n == limbs.len(), n >= 1, lo.len() == n, hi.len() == n, 2 * n <= usize::MAX,
            i <= n - 1, carry.0 <= 1, c0.len() == 2 * n,
            forall|k: int| n + i <= k < 2 * n ==> (lo@ + hi@)[k] == c0[k],
            val(lo@ + hi@, (n + i) as nat) + carry.0 as int * bp((n + i) as nat) == 2 * val(c0, (n + i) as nat),
        decreases n - 1 - i
//@-
{
//@+
        let ghost cb = lo@ + hi@;
        let ghost cin = carry.0;
//@-
        let (__t6, __t7) = ((hi[i].0 << 1) | carry.0, hi[i].shr(Limb::BITS - 1)); hi[i].0 = __t6; carry = __t7;
//@+
        proof {
            let ca = lo@ + hi@;
            let w = c0[n + i].0;
            assert(cb[n + i] == c0[n + i]);
            lemma_dbl(w, cin, __t6, __t7.0);
            assert(ca =~= cb.update(n + i, Limb(__t6)));
            lemma_dbl_step(ca, cb, c0, (n + i) as nat, __t7.0 as int, cin as int);
        }
//@-
        i += 1;
    }
//@+
    let ghost cb2 = lo@ + hi@;
//@-
    hi[limbs.len() - 1] = carry;
    // Handle the diagonal of the multiplication grid, which finishes the multiplication grid.
    let mut carry = Limb::ZERO;
    let mut i = 0;
//@+
    let ghost c1 = lo@ + hi@;
    proof {
        let k = (2 * n - 1) as nat;
        assert(c1 =~= cb2.update(k as int, c1[k as int]));
        lemma_val_ext(cb2, c1, k);
        assert(val(c1, k + 1) == val(c1, k) + c1[k as int].0 as int * bp(k));
        assert(val(c1, (2 * n) as nat) == 2 * sq_half(xs, n));
        assert(sq_diag(xs, 0) == 0);
    }
//@-
    while i < limbs.len()
//@+
        invariant
            n == limbs.len(), xs == limbs@, lo.len() == n, hi.len() == n, 2 * n <= usize::MAX,
            i <= n, c1.len() == 2 * n,
            forall|k: int| 2 * i <= k < 2 * n ==> (lo@ + hi@)[k] == c1[k],
            val(lo@ + hi@, (2 * i) as nat) + carry.0 as int * bp((2 * i) as nat) == val(c1, (2 * i) as nat) + sq_diag(xs, i as nat),
        decreases n - i
//@-
{
        let xi = limbs[i];
//@+
        let ghost cb = lo@ + hi@;
        let ghost cin = carry.0 as int;
//@-
        if (i * 2) < limbs.len() {
            let (__t8, __t9) = lo[i * 2].mac(xi, xi, carry); lo[i * 2] = __t8; carry = __t9;
        } else {
            let (__t10, __t11) = hi[i * 2 - limbs.len()].mac(xi, xi, carry); hi[i * 2 - limbs.len()] = __t10; carry = __t11;
        }
//@+
        let ghost cm = lo@ + hi@;
        let ghost cmid = carry.0 as int;
        proof {
            let k = (2 * i) as nat;
            assert(cm =~= cb.update(k as int, cm[k as int]));
            assert(cb[k as int] == c1[k as int]);
        }
//@-
        if (i * 2 + 1) < limbs.len() {
            let (__t12, __t13) = lo[i * 2 + 1].overflowing_add(carry); lo[i * 2 + 1] = __t12; carry = __t13;
        } else {
            let (__t14, __t15) = hi[i * 2 + 1 - limbs.len()].overflowing_add(carry); hi[i * 2 + 1 - limbs.len()] = __t14; carry = __t15;
        }
//@+
        proof {
            let ca = lo@ + hi@;
            let k = (2 * i) as nat;
            assert(ca =~= cm.update((k + 1) as int, ca[(k + 1) as int]));
            assert(cm[(k + 1) as int] == c1[(k + 1) as int]);
            lemma_diag_step(ca, cm, cb, c1, xs, i as nat, cin, cmid, carry.0 as int);
        }
//@-
        i += 1;
    }
//@+
    proof {
        let c = lo@ + hi@;
        let x = val(xs, n);
        lemma_sq_decomp(xs, n);
        lemma_val_bound(xs, n);
        lemma_val_bound(c, (2 * n) as nat);
        lemma_bp_add(n, n);
        let w = bp(n); let ww = bp((2 * n) as nat); let cy = carry.0 as int;
        assert((n + n) as nat == (2 * n) as nat);
        assert(x * x < w * w) by (nonlinear_arith) requires 0 <= x < w;
        assert(cy == 0) by (nonlinear_arith) requires val(c, (2 * n) as nat) + cy * ww == x * x, x * x < ww, val(c, (2 * n) as nat) >= 0, cy >= 0;
        assert(0 * ww == 0);
        lemma_val_concat(lo@, hi@, n);
    }
//@-
}
//@@ end
//@@ fn src/uint/mul.rs | - | uint_mul_limbs | body | props C03 C11
pub const fn uint_mul_limbs<const LIMBS: usize, const RHS_LIMBS: usize>(
    lhs: &[Limb],
    rhs: &[Limb],
) -> (ret__: (Uint<LIMBS>, Uint<RHS_LIMBS>))
//@+
    requires LIMBS >= 1, RHS_LIMBS >= 1, lhs.len() == LIMBS, rhs.len() == RHS_LIMBS, LIMBS + RHS_LIMBS <= usize::MAX
    ensures ret__.0.v() + ret__.1.v() * bp(LIMBS as nat) == val(lhs@, LIMBS as nat) * val(rhs@, RHS_LIMBS as nat),
        ret__.0.v() == (val(lhs@, LIMBS as nat) * val(rhs@, RHS_LIMBS as nat)) % bp(LIMBS as nat),
        ret__.1.v() == (val(lhs@, LIMBS as nat) * val(rhs@, RHS_LIMBS as nat)) / bp(LIMBS as nat),
        (ret__.1.v() == 0) == (val(lhs@, LIMBS as nat) * val(rhs@, RHS_LIMBS as nat) < bp(LIMBS as nat))
//@-
{
    debug_assert!(lhs.len() == LIMBS && rhs.len() == RHS_LIMBS);
    let mut lo: Uint<LIMBS> = Uint::<LIMBS>::ZERO();
    let mut hi = Uint::<RHS_LIMBS>::ZERO();
    schoolbook_multiplication(lhs, rhs, &mut lo.limbs, &mut hi.limbs);
//@+
    proof {
        lemma_val_bound(lo.limbs@, LIMBS as nat); lemma_val_bound(hi.limbs@, RHS_LIMBS as nat);
        lemma_split_facts(lo.v(), hi.v(), bp(LIMBS as nat), val(lhs@, LIMBS as nat) * val(rhs@, RHS_LIMBS as nat));
    }
//@-
    (lo, hi)
}
//@@ end
//@@ fn src/uint/mul.rs | - | uint_square_limbs | body | props C03 C11
pub const fn uint_square_limbs<const LIMBS: usize>(
    limbs: &[Limb],
) -> (ret__: (Uint<LIMBS>, Uint<LIMBS>))
//@+
    requires LIMBS >= 1, limbs.len() == LIMBS, 2 * LIMBS <= usize::MAX
    ensures ret__.0.v() + ret__.1.v() * bp(LIMBS as nat) == val(limbs@, LIMBS as nat) * val(limbs@, LIMBS as nat),
        ret__.0.v() == (val(limbs@, LIMBS as nat) * val(limbs@, LIMBS as nat)) % bp(LIMBS as nat),
        ret__.1.v() == (val(limbs@, LIMBS as nat) * val(limbs@, LIMBS as nat)) / bp(LIMBS as nat),
        (ret__.1.v() == 0) == (val(limbs@, LIMBS as nat) * val(limbs@, LIMBS as nat) < bp(LIMBS as nat))
//@-
{
    let mut lo = Uint::<LIMBS>::ZERO();
    let mut hi = Uint::<LIMBS>::ZERO();
    schoolbook_squaring(limbs, &mut lo.limbs, &mut hi.limbs);
//@+
    proof {
        lemma_val_bound(lo.limbs@, LIMBS as nat); lemma_val_bound(hi.limbs@, LIMBS as nat);
        lemma_split_facts(lo.v(), hi.v(), bp(LIMBS as nat), val(limbs@, LIMBS as nat) * val(limbs@, LIMBS as nat));
    }
//@-
    (lo, hi)
}
//@@ end
//@@ fn src/uint/mul.rs | impl<const LIMBS: usize> Uint<LIMBS> | split_mul | body | props C03 C11
impl<const LIMBS: usize> Uint<LIMBS> {
pub const fn split_mul<const RHS_LIMBS: usize>(
        &self,
        rhs: &Uint<RHS_LIMBS>,
    ) -> (ret__: (Self, Uint<RHS_LIMBS>))
//@+
    requires LIMBS >= 1, RHS_LIMBS >= 1, LIMBS + RHS_LIMBS <= usize::MAX
    ensures ret__.0.v() + ret__.1.v() * bp(LIMBS as nat) == self.v() * rhs.v(),
        ret__.0.v() == (self.v() * rhs.v()) % bp(LIMBS as nat),
        ret__.1.v() == (self.v() * rhs.v()) / bp(LIMBS as nat),
        (ret__.1.v() == 0) == (self.v() * rhs.v() < bp(LIMBS as nat))
//@-
{
        if LIMBS == RHS_LIMBS {
            if LIMBS == 128 {
                let (a, b) = UintKaratsubaMul::<128>::multiply(&self.limbs, &rhs.limbs);
//@+
                proof {
                    lemma_val_bound(a.limbs@, 128); lemma_val_bound(b.limbs@, 128);
                    lemma_split_facts(a.v(), b.v(), bp(128), self.v() * rhs.v());
                }
//@-
                // resize() should be a no-op, but the compiler can't infer that Uint<LIMBS> is Uint<128>
                return (a.resize(), b.resize());
            }
            if LIMBS == 64 {
                let (a, b) = UintKaratsubaMul::<64>::multiply(&self.limbs, &rhs.limbs);
//@+
                proof {
                    lemma_val_bound(a.limbs@, 64); lemma_val_bound(b.limbs@, 64);
                    lemma_split_facts(a.v(), b.v(), bp(64), self.v() * rhs.v());
                }
//@-
                return (a.resize(), b.resize());
            }
            if LIMBS == 32 {
                let (a, b) = UintKaratsubaMul::<32>::multiply(&self.limbs, &rhs.limbs);
//@+
                proof {
                    lemma_val_bound(a.limbs@, 32); lemma_val_bound(b.limbs@, 32);
                    lemma_split_facts(a.v(), b.v(), bp(32), self.v() * rhs.v());
                }
//@-
                return (a.resize(), b.resize());
            }
            if LIMBS == 16 {
                let (a, b) = UintKaratsubaMul::<16>::multiply(&self.limbs, &rhs.limbs);
//@+
                proof {
                    lemma_val_bound(a.limbs@, 16); lemma_val_bound(b.limbs@, 16);
                    lemma_split_facts(a.v(), b.v(), bp(16), self.v() * rhs.v());
                }
//@-
                return (a.resize(), b.resize());
            }
        }
        uint_mul_limbs(&self.limbs, &rhs.limbs)
    }
}
//@@ end
//@@ fn src/uint/mul.rs | impl<const LIMBS: usize> Uint<LIMBS> | wrapping_mul | body | props C03 C11
impl<const LIMBS: usize> Uint<LIMBS> {
pub const fn wrapping_mul<const H: usize>(&self, rhs: &Uint<H>) -> (ret__: Self)
//@+
    requires LIMBS >= 1, H >= 1, LIMBS + H <= usize::MAX
    ensures ret__.v() == (self.v() * rhs.v()) % bp(LIMBS as nat)
//@-
{
        self.split_mul(rhs).0
    }
}
//@@ end
//@@ fn src/uint/mul.rs | impl<const LIMBS: usize> Uint<LIMBS> | square_wide | body | props C03 C11 C15
impl<const LIMBS: usize> Uint<LIMBS> {
pub const fn square_wide(&self) -> (ret__: (Self, Self))
//@+
    requires LIMBS >= 1, 2 * LIMBS <= usize::MAX
    ensures ret__.0.v() + ret__.1.v() * bp(LIMBS as nat) == self.v() * self.v(),
        ret__.0.v() == (self.v() * self.v()) % bp(LIMBS as nat),
        ret__.1.v() == (self.v() * self.v()) / bp(LIMBS as nat),
        (ret__.1.v() == 0) == (self.v() * self.v() < bp(LIMBS as nat))
//@-
{
        if LIMBS == 128 {
            let (a, b) = UintKaratsubaMul::<128>::square(&self.limbs);
//@+
            proof {
                lemma_val_bound(a.limbs@, 128); lemma_val_bound(b.limbs@, 128);
                lemma_split_facts(a.v(), b.v(), bp(128), self.v() * self.v());
            }
//@-
            // resize() should be a no-op, but the compiler can't infer that Uint<LIMBS> is Uint<128>
            return (a.resize(), b.resize());
        }
        if LIMBS == 64 {
            let (a, b) = UintKaratsubaMul::<64>::square(&self.limbs);
//@+
            proof {
                lemma_val_bound(a.limbs@, 64); lemma_val_bound(b.limbs@, 64);
                lemma_split_facts(a.v(), b.v(), bp(64), self.v() * self.v());
            }
//@-
            return (a.resize(), b.resize());
        }
        uint_square_limbs(&self.limbs)
    }
}
//@@ end
//@@ fn src/uint/mul.rs | impl<const LIMBS: usize> Uint<LIMBS> | saturating_mul | body | props C03 C11
impl<const LIMBS: usize> Uint<LIMBS> {
pub const fn saturating_mul<const RHS_LIMBS: usize>(&self, rhs: &Uint<RHS_LIMBS>) -> (ret__: Self)
//@+
    requires LIMBS >= 1, RHS_LIMBS >= 1, LIMBS + RHS_LIMBS <= usize::MAX
    ensures ret__.v() == min_int(self.v() * rhs.v(), bp(LIMBS as nat) - 1)
//@-
{
        let (res, overflow) = self.split_mul(rhs);
//@+
        proof { lemma_val_bound(res.limbs@, LIMBS as nat); }
//@-
        Self::select(&res, &Self::MAX(), overflow.is_nonzero())
    }
}
//@@ end
//@@ fn src/uint/mul.rs | impl<const LIMBS: usize> Uint<LIMBS> | checked_square | body | props C03 C11
impl<const LIMBS: usize> Uint<LIMBS> {
pub const fn checked_square(&self) -> (ret__: ConstCtOption<Uint<LIMBS>>)
//@+
    requires LIMBS >= 1, 2 * LIMBS <= usize::MAX
    ensures ret__.is_some.wf(), ret__.is_some.t() == (self.v() * self.v() < bp(LIMBS as nat)),
        ret__.value.v() == (self.v() * self.v()) % bp(LIMBS as nat),
        ret__.is_some.t() ==> ret__.value.v() == self.v() * self.v()
//@-
{
        let (lo, hi) = self.square_wide();
        ConstCtOption::new(lo, Self::eq(&hi, &Self::ZERO()))
    }
}
//@@ end
//@@ fn src/uint/mul.rs | impl<const LIMBS: usize> Uint<LIMBS> | wrapping_square | body | props C03 C11
impl<const LIMBS: usize> Uint<LIMBS> {
pub const fn wrapping_square(&self) -> (ret__: Uint<LIMBS>)
//@+
    requires LIMBS >= 1, 2 * LIMBS <= usize::MAX
    ensures ret__.v() == (self.v() * self.v()) % bp(LIMBS as nat)
//@-
{
        self.square_wide().0
    }
}
//@@ end
//@@ fn src/uint/mul.rs | impl<const LIMBS: usize> Uint<LIMBS> | saturating_square | body | props C03 C11
impl<const LIMBS: usize> Uint<LIMBS> {
pub const fn saturating_square(&self) -> (ret__: Self)
//@+
    requires LIMBS >= 1, 2 * LIMBS <= usize::MAX
    ensures ret__.v() == min_int(self.v() * self.v(), bp(LIMBS as nat) - 1)
//@-
{
        let (res, overflow) = self.square_wide();
//@+
        proof { lemma_val_bound(res.limbs@, LIMBS as nat); }
//@-
        Self::select(&res, &Self::MAX(), overflow.is_nonzero())
    }
}
//@@ end

} // verus!
