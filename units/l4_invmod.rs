// L4: modular inversion and gcd on Uint (src/uint/inv_mod.rs, src/uint/gcd.rs) -- C10
use vstd::prelude::*;
use vstd::arithmetic::power::*;
use vstd::arithmetic::power2::*;
use vstd::arithmetic::div_mod::*;
use vstd::arithmetic::mul::*;
use crate::speclib::*;
use crate::speclib_bits::*;
use crate::l0_prim::*;
use crate::l1_choice::*;
use crate::l1_limb::*;
use crate::l2_core::*;
use crate::l2_shift::*;
use crate::l3_mul::*;
verus! {

//@@ subst \b(Self|Uint)::(ZERO|ONE|MAX|BITS|LOG2_BITS)\b(?!\() => \1::\2()
//@@ subst \bUint::<(\w+)>::(ZERO|ONE|MAX|BITS)\b(?!\() => Uint::<\1>::\2()

//@@ fn src/uint/bit_and.rs | impl<const LIMBS: usize> Uint<LIMBS> | bitand | body | props C05 C11
impl<const LIMBS: usize> Uint<LIMBS> {
pub const fn bitand(&self, rhs: &Self) -> (ret__: Self)
{
        let mut limbs = [Limb::ZERO; LIMBS];
        let mut i = 0;
        while i < LIMBS
{
            limbs[i] = self.limbs[i].bitand(rhs.limbs[i]);
            i += 1;
        }
        Self { limbs }
    }
}
//@@ end
//@@ fn src/const_choice.rs | impl<T> ConstCtOption<T> | and_choice | body | props C06 C11
impl<T> ConstCtOption<T> {
pub const fn and_choice(self, is_some: ConstChoice) -> (ret__: Self)
{
let mut self__ = self;
        self__.is_some = self__.is_some.and(is_some);
        self__
    }
}
//@@ end

//@@ fn src/uint/inv_mod.rs | impl<const LIMBS: usize> Uint<LIMBS> | inv_mod2k_full_vartime | body | props C10 C11 C15
impl<const LIMBS: usize> Uint<LIMBS> {
pub const fn inv_mod2k_full_vartime(&self, k: u32) -> (ret__: Option<Self>)
{
        // Using the Algorithm 3 from "A Secure Algorithm for Inversion Modulo 2k"
        // by Sadiel de la Fe and Carles Ferrer.
        // See <https://www.mdpi.com/2410-387X/2/3/23>.
        // Note that we are not using Alrgorithm 4, since we have a different approach
        // of enforcing constant-timeness w.r.t. `self`.
        let mut x = Self::ZERO(); // keeps `x` during iterations
        let mut b = Self::ONE(); // keeps `b_i` during iterations
        let mut i = 0;
        // The inverse exists either if `k` is 0 or if `self` is odd.
        if k != 0 && !self.is_odd().to_bool_vartime() {
            return None;
        }
        while i < k
{
            // X_i = b_i mod 2
            let x_i = b.limbs[0].0 & 1;
            // b_{i+1} = (b_i - a * X_i) / 2
            if x_i != 0 {
                b = b.wrapping_sub(self);
            }
            b = b.shr1();
            // Store the X_i bit in the result (x = x | (1 << X_i))
            x = x.set_bit_vartime(i, x_i != 0);
            i += 1;
        }
        Some(x)
    }
}
//@@ end
//@@ fn src/uint/inv_mod.rs | impl<const LIMBS: usize> Uint<LIMBS> | inv_mod2k_vartime | body | props C10 C11 C15
impl<const LIMBS: usize> Uint<LIMBS> {
pub const fn inv_mod2k_vartime(&self, k: u32) -> (ret__: ConstCtOption<Self>)
{
        // Using the Algorithm 3 from "A Secure Algorithm for Inversion Modulo 2k"
        // by Sadiel de la Fe and Carles Ferrer.
        // See <https://www.mdpi.com/2410-387X/2/3/23>.
        // Note that we are not using Alrgorithm 4, since we have a different approach
        // of enforcing constant-timeness w.r.t. `self`.
        let mut x = Self::ZERO(); // keeps `x` during iterations
        let mut b = Self::ONE(); // keeps `b_i` during iterations
        let mut i = 0;
        // The inverse exists either if `k` is 0 or if `self` is odd.
        let is_some = ConstChoice::from_u32_nonzero(k).not().or(self.is_odd());
        while i < k
{
            // X_i = b_i mod 2
            let x_i = b.limbs[0].0 & 1;
            let x_i_choice = ConstChoice::from_word_lsb(x_i);
            // b_{i+1} = (b_i - a * X_i) / 2
            b = Self::select(&b, &b.wrapping_sub(self), x_i_choice).shr1();
            // Store the X_i bit in the result (x = x | (1 << X_i))
            let shifted = Uint::from_word(x_i)
                .overflowing_shl_vartime(i)
                .expect("shift within range");
            x = x.bitor(&shifted);
            i += 1;
        }
        ConstCtOption::new(x, is_some)
    }
}
//@@ end
//@@ fn src/uint/inv_mod.rs | impl<const LIMBS: usize> Uint<LIMBS> | inv_mod2k | body | props C10 C11 C15
impl<const LIMBS: usize> Uint<LIMBS> {
pub const fn inv_mod2k(&self, k: u32) -> (ret__: ConstCtOption<Self>)
{
        // This is the same algorithm as in `inv_mod2k_vartime()`,
        // but made constant-time w.r.t `k` as well.
        let mut x = Self::ZERO(); // keeps `x` during iterations
        let mut b = Self::ONE(); // keeps `b_i` during iterations
        let mut i = 0;
        // The inverse exists either if `k` is 0 or if `self` is odd.
        let is_some = ConstChoice::from_u32_nonzero(k).not().or(self.is_odd());
        while i < Self::BITS()
{
            // Only iterations for i = 0..k need to change `x`,
            // the rest are dummy ones performed for the sake of constant-timeness.
            let within_range = ConstChoice::from_u32_lt(i, k);
            // X_i = b_i mod 2
            let x_i = b.limbs[0].0 & 1;
            let x_i_choice = ConstChoice::from_word_lsb(x_i);
            // b_{i+1} = (b_i - self * X_i) / 2
            b = Self::select(&b, &b.wrapping_sub(self), x_i_choice).shr1();
            // Store the X_i bit in the result (x = x | (1 << X_i))
            // Don't change the result in dummy iterations.
            let x_i_choice = x_i_choice.and(within_range);
            x = x.set_bit(i, x_i_choice);
            i += 1;
        }
        ConstCtOption::new(x, is_some)
    }
}
//@@ end

} // verus!
