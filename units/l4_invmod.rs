// L4: modular inversion and gcd on Uint (src/uint/inv_mod.rs, src/uint/gcd.rs) -- C10
use vstd::prelude::*;
use vstd::arithmetic::power::*;
use vstd::arithmetic::power2::*;
use vstd::arithmetic::div_mod::*;
use vstd::arithmetic::mul::*;
use crate::speclib::*;
use crate::speclib_bits::*;
use crate::l0_prim::*;
use crate::l1_choice::*;
use crate::l1_limb::*;
use crate::l2_core::*;
use crate::l2_shift::*;
use crate::l3_mul::*;
verus! {

//@@ subst \b(Self|Uint)::(ZERO|ONE|MAX|BITS|LOG2_BITS)\b(?!\() => \1::\2()
//@@ subst \bUint::<(\w+)>::(ZERO|ONE|MAX|BITS)\b(?!\() => Uint::<\1>::\2()


// ---------------------------------------------------------------- gcd (specification vocabulary of C10)
/// Euclid's gcd on naturals; gcd(a, 0) == a, gcd(0, 0) == 0
pub open spec fn gcd(a: nat, b: nat) -> nat
    decreases b
{ if b == 0 { a } else { gcd(b, a % b) } }

/// gcd(a, b) divides a and b (and is positive unless a == b == 0)
pub proof fn lemma_gcd_divides(a: nat, b: nat)
    ensures (a > 0 || b > 0) ==> gcd(a, b) > 0,
        gcd(a, b) > 0 ==> (a % gcd(a, b) == 0 && b % gcd(a, b) == 0),
        (a == 0 && b == 0) ==> gcd(a, b) == 0,
    decreases b
{
    if b == 0 {
        if a > 0 { lemma_mod_self_0(a as int); lemma_small_mod(0, a); }
    } else {
        lemma_gcd_divides(b, a % b);
        let g = gcd(a, b) as int;
        assert(g == gcd(b, a % b));
        assert(g > 0);
        lemma_fundamental_div_mod(a as int, b as int);
        // g | b and g | a % b  ==>  g | (a/b)*b + a%b
        let q = a as int / b as int; let r = a as int % b as int;
        lemma_fundamental_div_mod(b as int, g); lemma_fundamental_div_mod(r, g);
        let bq = b as int / g; let rq = r / g;
        assert(a as int == g * (q * bq + rq) + 0) by (nonlinear_arith)
            requires a as int == b as int * q + r, b as int == g * bq, r == g * rq;
        lemma_fundamental_div_mod_converse(a as int, g, q * bq + rq, 0);
    }
}

/// every common divisor of a and b divides gcd(a, b)
pub proof fn lemma_gcd_greatest(a: nat, b: nat, d: int)
    requires d > 0, a as int % d == 0, b as int % d == 0
    ensures gcd(a, b) as int % d == 0
    decreases b
{
    if b != 0 {
        let q = a as int / b as int; let r = a as int % b as int;
        lemma_fundamental_div_mod(a as int, b as int);
        lemma_fundamental_div_mod(a as int, d); lemma_fundamental_div_mod(b as int, d);
        let aq = a as int / d; let bq = b as int / d;
        assert(r == d * (aq - q * bq) + 0) by (nonlinear_arith)
            requires a as int == b as int * q + r, a as int == d * aq, b as int == d * bq;
        lemma_mod_bound(a as int, b as int);
        lemma_fundamental_div_mod_converse(r, d, aq - q * bq, 0);
        lemma_gcd_greatest(b, (a % b) as nat, d);
    }
}

pub proof fn lemma_gcd_one(a: nat)
    ensures gcd(a, 1) == 1
{
    assert(gcd(a, 1) == gcd(1, a % 1));
    assert(a % 1 == 0);
    assert(gcd(1, 0) == 1);
}

/// an inverse exists  ==>  coprime
pub proof fn lemma_inverse_coprime(a: nat, m: nat, x: int)
    requires m >= 1, x >= 0, (a as int * x) % (m as int) == 1int % (m as int)
    ensures gcd(a, m) == 1
{
    if m == 1 { lemma_gcd_one(a); }
    else {
        lemma_gcd_divides(a, m);
        let g = gcd(a, m) as int;
        let ax = a as int * x;
        lemma_small_mod(1, m);
        lemma_fundamental_div_mod(ax, m as int);
        let q = ax / (m as int);
        lemma_fundamental_div_mod(a as int, g); lemma_fundamental_div_mod(m as int, g);
        let aq = a as int / g; let mq = m as int / g;
        assert(1 == g * (aq * x - mq * q)) by (nonlinear_arith)
            requires a as int * x == m as int * q + 1, a as int == g * aq, m as int == g * mq;
        let t = aq * x - mq * q;
        assert(g == 1) by (nonlinear_arith) requires 1 == g * t, g > 0;
    }
}

/// coprime to m  ==>  coprime to every divisor s of m
pub proof fn lemma_coprime_divisor(a: nat, m: nat, s: nat)
    requires s >= 1, m >= 1, m as int % (s as int) == 0, gcd(a, m) == 1
    ensures gcd(a, s) == 1
{
    lemma_gcd_divides(a, s);
    let g = gcd(a, s) as int;
    // g | s | m
    lemma_fundamental_div_mod(m as int, s as int); lemma_fundamental_div_mod(s as int, g);
    let ms = m as int / (s as int); let sg = s as int / g;
    assert(m as int == g * (sg * ms) + 0) by (nonlinear_arith) requires m as int == s as int * ms, s as int == g * sg;
    lemma_fundamental_div_mod_converse(m as int, g, sg * ms, 0);
    lemma_gcd_greatest(a, m, g);
    // 1 % g == 0  ==>  g == 1
    if g > 1 { lemma_small_mod(1, g as nat); }
}

/// coprime to an even number  ==>  odd
pub proof fn lemma_coprime_even(a: nat, m: nat)
    requires m >= 1, m % 2 == 0, gcd(a, m) == 1
    ensures a % 2 == 1
{
    if a % 2 == 0 {
        lemma_gcd_greatest(a, m, 2);
        lemma_small_mod(1, 2);
    }
}

// ---------------------------------------------------------------- powers of two
proof fn lemma_p2_pos(n: nat)
    ensures p2(n) >= 1
{ lemma_pow2_pos(n); }

proof fn lemma_p2_succ(n: nat)
    ensures p2(n + 1) == 2 * p2(n), p2(0) == 1
{ lemma_pow2_unfold(n + 1); lemma2_to64(); }

/// 2^a * 2^b == 2^(a+b)
proof fn lemma_p2_add(a: nat, b: nat)
    ensures p2(a) * p2(b) == p2(a + b)
{ lemma_pow2_adds(a, b); }

/// for k <= 64 n:  B^n == 2^k * 2^(64n - k)
proof fn lemma_bp_split(n: nat, k: nat)
    requires k <= 64 * n
    ensures bp(n) == p2(k) * p2((64 * n - k) as nat), bp(n) % p2(k) == 0, p2(k) <= bp(n)
{
    lemma_bp_pow2(n);
    lemma_p2_add(k, (64 * n - k) as nat);
    let a = p2(k); let c = p2((64 * n - k) as nat);
    lemma_p2_pos(k); lemma_p2_pos((64 * n - k) as nat);
    assert(a * c == c * a + 0) by (nonlinear_arith);
    lemma_fundamental_div_mod_converse(bp(n), a, c, 0);
    assert(a <= a * c) by (nonlinear_arith) requires a >= 1, c >= 1;
}

proof fn lemma_p2_mono(a: nat, b: nat)
    requires a <= b
    ensures p2(a) <= p2(b)
{
    if a < b { lemma_pow2_strictly_increases(a, b); }
}

// ---------------------------------------------------------------- inverse mod 2^k: one step of the bit-serial loop
/// invariant a*x + b*2^i == 1 (mod w) is preserved by   x_i = b mod 2,  b' = (b - a*x_i mod w) / 2,  x' = x + x_i*2^i
proof fn lemma_inv2k_step(a: int, x: int, b: int, i: nat, w: int, xi: int, c: int, b2: int, x2: int)
    requires a % 2 == 1, a >= 0, w > 1, w % 2 == 0,
        0 <= x < p2(i), 0 <= b < w,
        (a * x + b * p2(i)) % w == 1,
        xi == b % 2,
        c == (if xi == 1 { (b - a) % w } else { b }),
        b2 == c / 2,
        x2 == x + xi * p2(i),
    ensures 0 <= x2 < p2(i + 1), 0 <= b2 < w, (a * x2 + b2 * p2(i + 1)) % w == 1
{
    lemma_p2_succ(i); lemma_p2_pos(i);
    let p = p2(i);
    if xi == 0 {
        assert(b == 2 * b2);
        assert(b2 * (2 * p) == b * p) by (nonlinear_arith) requires b == 2 * b2;
        assert(x2 == x) by (nonlinear_arith) requires x2 == x + xi * p, xi == 0;
    } else {
        assert(xi == 1);
        lemma_fundamental_div_mod(b - a, w);
        lemma_mod_bound(b - a, w);
        let q = (b - a) / w;
        let wh = w / 2;
        assert(w == 2 * wh);
        // c = (b - a) - q*w is even
        assert(q * w == 2 * (q * wh)) by (nonlinear_arith) requires w == 2 * wh;
        assert(c == 2 * (b / 2 - a / 2 - q * wh)) by (nonlinear_arith)
            requires b - a == w * q + c, q * w == 2 * (q * wh), b == 2 * (b / 2) + 1, a == 2 * (a / 2) + 1;
        assert(c % 2 == 0);
        assert(c == 2 * b2);
        assert(x2 == x + p) by (nonlinear_arith) requires x2 == x + xi * p, xi == 1;
        assert(a * x2 + b2 * (2 * p) == (-(q * p)) * w + (a * x + b * p)) by (nonlinear_arith)
            requires x2 == x + p, c == 2 * b2, b - a == w * q + c;
        lemma_mod_multiples_vanish(-(q * p), a * x + b * p, w);
    }
}

/// at i == k the invariant gives the inverse modulo 2^k
proof fn lemma_inv2k_final(a: int, x: int, b: int, k: nat, w: int)
    requires w > 1, w % p2(k) == 0, (a * x + b * p2(k)) % w == 1
    ensures (a * x) % p2(k) == 1int % p2(k)
{
    let p = p2(k);
    lemma_p2_pos(k);
    lemma_fundamental_div_mod(a * x + b * p, w);
    let q = (a * x + b * p) / w;
    lemma_fundamental_div_mod(w, p);
    let t = w / p;
    assert(a * x == p * (q * t - b) + 1) by (nonlinear_arith)
        requires a * x + b * p == w * q + 1, w == p * t;
    lemma_mod_multiples_vanish(q * t - b, 1, p);
    assert(p * (q * t - b) + 1 == 1 + (q * t - b) * p) by (nonlinear_arith);
}


/// initial state of the bit-serial inversion: x = 0, b = 1
proof fn lemma_inv2k_init<const LIMBS: usize>(a: int)
    requires LIMBS >= 1
    ensures bp(LIMBS as nat) > 1, bp(LIMBS as nat) % 2 == 0, (a * 0 + 1 * p2(0)) % bp(LIMBS as nat) == 1, p2(0) == 1
{
    lemma_bp_succ((LIMBS - 1) as nat); lemma_p2_succ(0);
    let w = bp(LIMBS as nat); let r = bp((LIMBS - 1) as nat);
    assert(w == 2 * (0x8000_0000_0000_0000 * r)) by (nonlinear_arith) requires w == B() * r;
    assert(w >= B()) by (nonlinear_arith) requires w == B() * r, r >= 1;
    assert(a * 0 + 1 * 1 == 1) by (nonlinear_arith);
    lemma_small_mod(1, w as nat);
}

/// set_bit on a bit that is known to be clear (x < 2^i): the result is x + c*2^i < 2^(i+1)
proof fn lemma_set_bit_fresh(x: int, i: nat, c: int, r: int)
    requires 0 <= x < p2(i), c == 0 || c == 1,
        r == x - ((x / p2(i)) % 2) * p2(i) + (if c == 1 { 1int } else { 0int }) * p2(i)
    ensures r == x + c * p2(i), 0 <= r < p2(i + 1), c == 0 ==> r == x
{
    lemma_p2_succ(i); lemma_p2_pos(i);
    lemma_basic_div(x, p2(i));
    let p = p2(i);
    assert(((x / p) % 2) * p == 0) by (nonlinear_arith) requires x / p == 0;
    assert(c * p == (if c == 1 { p } else { 0 })) by (nonlinear_arith) requires c == 0 || c == 1;
    assert((if c == 1 { 1int } else { 0int }) * p == c * p) by (nonlinear_arith) requires c == 0 || c == 1;
}

// ---------------------------------------------------------------- limb-wise OR with a single disjoint bit
/// r = a | b limb-wise, val(a) < 2^i, val(b) == c*2^i (c a bit)   ==>   val(r) == val(a) + val(b)
proof fn lemma_bitor_disjoint_bit(a: Seq<Limb>, b: Seq<Limb>, r: Seq<Limb>, n: nat, i: nat, c: int)
    requires i < 64 * n, 0 <= val(a, n) < p2(i), val(b, n) == c * p2(i), c == 0 || c == 1,
        forall|k: int| 0 <= k < n ==> r[k].0 == a[k].0 | b[k].0
    ensures val(r, n) == val(a, n) + val(b, n)
    decreases n
{
    let q = (n - 1) as nat;
    let at = a[q as int].0; let bt = b[q as int].0; let rt = r[q as int].0;
    lemma_val_bound(a, q); lemma_val_bound(b, q); lemma_val_bound(r, q); lemma_bp_succ(q);
    lemma_p2_pos(i);
    let pq = bp(q);
    assert(rt == at | bt);
    if c == 0 {
        assert(c * p2(i) == 0) by (nonlinear_arith) requires c == 0;
        lemma_val_zero_iff(b, n);
        assert forall|k: int| 0 <= k < n implies r[k].0 == a[k].0 by {
            let x = a[k].0; let y = b[k].0;
            assert(x | y == x) by (bit_vector) requires y == 0;
        }
        lemma_val_eq_iff(r, a, n);
    } else if i < 64 * q {
        assert(c * p2(i) == p2(i)) by (nonlinear_arith) requires c == 1;
        // top limbs of a and b are zero
        lemma_bp_split(q, i);
        assert(at == 0) by (nonlinear_arith)
            requires val(a, q) + at as int * pq < p2(i), p2(i) <= pq, val(a, q) >= 0, at >= 0;
        lemma_p2_mono(i, (64 * q - 1) as nat); lemma_p2_succ((64 * q - 1) as nat); lemma_bp_pow2(q);
        assert(p2(i) < pq);
        assert(bt == 0) by (nonlinear_arith)
            requires val(b, q) + bt as int * pq == p2(i), p2(i) < pq, val(b, q) >= 0, bt >= 0;
        assert(at | bt == 0) by (bit_vector) requires at == 0, bt == 0;
        assert(at as int * pq == 0 && bt as int * pq == 0 && rt as int * pq == 0) by (nonlinear_arith) requires at == 0, bt == 0, rt == 0;
        lemma_bitor_disjoint_bit(a, b, r, q, i, c);
    } else {
        assert(c * p2(i) == p2(i)) by (nonlinear_arith) requires c == 1;
        let sh = (i - 64 * q) as nat;
        lemma_bp_pow2(q); lemma_p2_add(sh, 64 * q);
        let ps = p2(sh);
        assert(p2(i) == ps * pq);
        lemma_p2_pos(sh);
        // b: top limb is 2^sh, the rest is zero
        assert(bt as int == ps && val(b, q) == 0) by (nonlinear_arith)
            requires val(b, q) + bt as int * pq == ps * pq, 0 <= val(b, q) < pq, bt >= 0, ps >= 1;
        lemma_val_zero_iff(b, q);
        assert forall|k: int| 0 <= k < q implies r[k].0 == a[k].0 by {
            let x = a[k].0; let y = b[k].0;
            assert(x | y == x) by (bit_vector) requires y == 0;
        }
        lemma_val_eq_iff(r, a, q);
        // a: top limb < 2^sh
        assert((at as int) < ps) by (nonlinear_arith)
            requires val(a, q) + at as int * pq < ps * pq, val(a, q) >= 0, pq > 0;
        lemma_one_shl(sh as u64);
        let shu = sh as u64;
        assert(bt == 1u64 << shu);
        assert((at | bt) as u128 == (at as u128) + (bt as u128)) by (bit_vector) requires bt == 1u64 << shu, at < bt, shu < 64;
        assert((at as int + bt as int) * pq == at as int * pq + bt as int * pq) by (nonlinear_arith);
    }
}

//@@ fn src/uint/bit_and.rs | impl<const LIMBS: usize> Uint<LIMBS> | bitand | body | props C05 C11
impl<const LIMBS: usize> Uint<LIMBS> {
pub const fn bitand(&self, rhs: &Self) -> (ret__: Self)
//@+
    ensures forall|k: int| 0 <= k < LIMBS ==> ret__.limbs@[k].0 == self.limbs@[k].0 & rhs.limbs@[k].0
//@-
{
        let mut limbs = [Limb::ZERO; LIMBS];
        let mut i = 0;
        while i < LIMBS
//@+
    invariant i <= LIMBS, forall|k: int| 0 <= k < i ==> limbs@[k].0 == self.limbs@[k].0 & rhs.limbs@[k].0,
    decreases LIMBS - i,
//@-
{
            limbs[i] = self.limbs[i].bitand(rhs.limbs[i]);
            i += 1;
        }
        Self { limbs }
    }
}
//@@ end
//@@ fn src/const_choice.rs | impl<T> ConstCtOption<T> | and_choice | body | props C06 C11
impl<T> ConstCtOption<T> {
pub const fn and_choice(self, is_some: ConstChoice) -> (ret__: Self)
//@+
    requires self.is_some.wf(), is_some.wf()
    ensures ret__.value == self.value, ret__.is_some.wf(), ret__.is_some.t() == (self.is_some.t() && is_some.t())
//@-
{
let mut self__ = self;
        self__.is_some = self__.is_some.and(is_some);
        self__
    }
}
//@@ end

//@@ fn src/uint/inv_mod.rs | impl<const LIMBS: usize> Uint<LIMBS> | inv_mod2k_full_vartime | body | props C10 C11 C15
impl<const LIMBS: usize> Uint<LIMBS> {
pub const fn inv_mod2k_full_vartime(&self, k: u32) -> (ret__: Option<Self>)
//@+
    requires 1 <= LIMBS < 0x400_0000, k as int <= 64 * LIMBS
    ensures ret__.is_some() == (k == 0 || self.v() % 2 == 1),
        ret__.is_some() ==> 0 <= ret__.unwrap().v() < p2(k as nat) && (self.v() * ret__.unwrap().v()) % p2(k as nat) == 1int % p2(k as nat)
//@-
{
        // Using the Algorithm 3 from "A Secure Algorithm for Inversion Modulo 2k"
        // by Sadiel de la Fe and Carles Ferrer.
        // See <https://www.mdpi.com/2410-387X/2/3/23>.
        // Note that we are not using Alrgorithm 4, since we have a different approach
        // of enforcing constant-timeness w.r.t. `self`.
        let mut x = Self::ZERO(); // keeps `x` during iterations
        let mut b = Self::ONE(); // keeps `b_i` during iterations
        let mut i = 0;
        // The inverse exists either if `k` is 0 or if `self` is odd.
        if k != 0 && !self.is_odd().to_bool_vartime() {
            return None;
        }
//@+
    let ghost a = self.v(); let ghost w = bp(LIMBS as nat);
    proof {
        lemma_inv2k_init::<LIMBS>(a);
        lemma_val_bound(b.limbs@, LIMBS as nat); lemma_val_bound(self.limbs@, LIMBS as nat);
    }
//@-
        while i < k
//@+
    invariant 1 <= LIMBS < 0x400_0000, k as int <= 64 * LIMBS, i <= k, a == self.v(), w == bp(LIMBS as nat), a >= 0, w > 1, w % 2 == 0,
        0 <= b.v() < w, 0 <= x.v() < p2(i as nat),
        k != 0 ==> a % 2 == 1,
        a % 2 == 1 ==> (a * x.v() + b.v() * p2(i as nat)) % w == 1,
    decreases k - i,
//@-
{
//@+
    let ghost b0 = b.v(); let ghost x0 = x.v();
    let ghost bl = b.limbs@[0].0;
    proof {
        lemma_val_low(b.limbs@, LIMBS as nat);
        assert((bl & 1) == 0 || (bl & 1) == 1) by (bit_vector);
        assert((bl & 1) == bl % 2) by (bit_vector);
    }
//@-
            // X_i = b_i mod 2
            let x_i = b.limbs[0].0 & 1;
            // b_{i+1} = (b_i - a * X_i) / 2
            if x_i != 0 {
                b = b.wrapping_sub(self);
            }
//@+
    let ghost c = b.v();
//@-
            b = b.shr1();
            // Store the X_i bit in the result (x = x | (1 << X_i))
            x = x.set_bit_vartime(i, x_i != 0);
//@+
    proof {
        lemma_val_bound(b.limbs@, LIMBS as nat);
        lemma_set_bit_fresh(x0, i as nat, x_i as int, x.v());
        lemma_inv2k_step(a, x0, b0, i as nat, w, x_i as int, c, b.v(), x.v());
    }
//@-
            i += 1;
        }
//@+
    proof {
        if k == 0 { lemma_p2_succ(0); }
        else { lemma_bp_split(LIMBS as nat, k as nat); lemma_inv2k_final(a, x.v(), b.v(), k as nat, w); }
    }
//@-
        Some(x)
    }
}
//@@ end
//@@ fn src/uint/inv_mod.rs | impl<const LIMBS: usize> Uint<LIMBS> | inv_mod2k_vartime | body | props C10 C11 C15
impl<const LIMBS: usize> Uint<LIMBS> {
pub const fn inv_mod2k_vartime(&self, k: u32) -> (ret__: ConstCtOption<Self>)
//@+
    requires 1 <= LIMBS < 0x400_0000, k as int <= 64 * LIMBS
    ensures ret__.is_some.wf(), ret__.is_some.t() == (k == 0 || self.v() % 2 == 1),
        ret__.is_some.t() ==> 0 <= ret__.value.v() < p2(k as nat) && (self.v() * ret__.value.v()) % p2(k as nat) == 1int % p2(k as nat)
//@-
{
        // Using the Algorithm 3 from "A Secure Algorithm for Inversion Modulo 2k"
        // by Sadiel de la Fe and Carles Ferrer.
        // See <https://www.mdpi.com/2410-387X/2/3/23>.
        // Note that we are not using Alrgorithm 4, since we have a different approach
        // of enforcing constant-timeness w.r.t. `self`.
        let mut x = Self::ZERO(); // keeps `x` during iterations
        let mut b = Self::ONE(); // keeps `b_i` during iterations
        let mut i = 0;
        // The inverse exists either if `k` is 0 or if `self` is odd.
        let is_some = ConstChoice::from_u32_nonzero(k).not().or(self.is_odd());
//@+
    let ghost a = self.v(); let ghost w = bp(LIMBS as nat);
    proof {
        lemma_inv2k_init::<LIMBS>(a);
        lemma_val_bound(b.limbs@, LIMBS as nat); lemma_val_bound(self.limbs@, LIMBS as nat);
    }
//@-
        while i < k
//@+
    invariant 1 <= LIMBS < 0x400_0000, k as int <= 64 * LIMBS, i <= k, a == self.v(), w == bp(LIMBS as nat), a >= 0, w > 1, w % 2 == 0,
        0 <= b.v() < w, 0 <= x.v() < p2(i as nat),
        a % 2 == 1 ==> (a * x.v() + b.v() * p2(i as nat)) % w == 1,
    decreases k - i,
//@-
{
//@+
    let ghost b0 = b.v(); let ghost x0 = x.v(); let ghost xs0 = x.limbs@;
    let ghost bl = b.limbs@[0].0;
    proof {
        lemma_val_low(b.limbs@, LIMBS as nat);
        assert((bl & 1) == 0 || (bl & 1) == 1) by (bit_vector);
        assert((bl & 1) == bl % 2) by (bit_vector);
    }
//@-
            // X_i = b_i mod 2
            let x_i = b.limbs[0].0 & 1;
            let x_i_choice = ConstChoice::from_word_lsb(x_i);
//@+
    let ghost c = if x_i == 1 { (b0 - a) % w } else { b0 };
//@-
            // b_{i+1} = (b_i - a * X_i) / 2
            b = Self::select(&b, &b.wrapping_sub(self), x_i_choice).shr1();
//@+
    proof {
        lemma_bp_split(LIMBS as nat, i as nat); lemma_p2_pos(i as nat);
        lemma_p2_mono((i + 1) as nat, (64 * LIMBS) as nat); lemma_p2_succ(i as nat); lemma_bp_pow2(LIMBS as nat);
        assert(x_i as int * p2(i as nat) < w) by (nonlinear_arith) requires 0 <= x_i as int <= 1, 2 * p2(i as nat) <= w, p2(i as nat) >= 1;
        assert(x_i as int * p2(i as nat) >= 0) by (nonlinear_arith) requires 0 <= x_i as int <= 1, p2(i as nat) >= 1;
        lemma_small_mod((x_i as int * p2(i as nat)) as nat, w as nat);
    }
//@-
            // Store the X_i bit in the result (x = x | (1 << X_i))
            let shifted = Uint::from_word(x_i)
                .overflowing_shl_vartime(i)
                .expect("shift within range");
            x = x.bitor(&shifted);
//@+
    proof {
        lemma_val_bound(b.limbs@, LIMBS as nat);
        lemma_bitor_disjoint_bit(xs0, shifted.limbs@, x.limbs@, LIMBS as nat, i as nat, x_i as int);
        if a % 2 == 1 {
            lemma_inv2k_step(a, x0, b0, i as nat, w, x_i as int, c, b.v(), x.v());
        } else {
            lemma_p2_succ(i as nat);
            assert(x0 + x_i as int * p2(i as nat) < 2 * p2(i as nat)) by (nonlinear_arith) requires x0 < p2(i as nat), 0 <= x_i as int <= 1, p2(i as nat) >= 1;
        }
    }
//@-
            i += 1;
        }
//@+
    proof {
        if k == 0 { lemma_p2_succ(0); }
        else if a % 2 == 1 { lemma_bp_split(LIMBS as nat, k as nat); lemma_inv2k_final(a, x.v(), b.v(), k as nat, w); }
    }
//@-
        ConstCtOption::new(x, is_some)
    }
}
//@@ end
//@@ fn src/uint/inv_mod.rs | impl<const LIMBS: usize> Uint<LIMBS> | inv_mod2k | body | props C10 C11 C15
impl<const LIMBS: usize> Uint<LIMBS> {
pub const fn inv_mod2k(&self, k: u32) -> (ret__: ConstCtOption<Self>)
//@+
    requires 1 <= LIMBS < 0x400_0000, k as int <= 64 * LIMBS
    ensures ret__.is_some.wf(), ret__.is_some.t() == (k == 0 || self.v() % 2 == 1),
        ret__.is_some.t() ==> 0 <= ret__.value.v() < p2(k as nat) && (self.v() * ret__.value.v()) % p2(k as nat) == 1int % p2(k as nat)
//@-
{
        // This is the same algorithm as in `inv_mod2k_vartime()`,
        // but made constant-time w.r.t `k` as well.
        let mut x = Self::ZERO(); // keeps `x` during iterations
        let mut b = Self::ONE(); // keeps `b_i` during iterations
        let mut i = 0;
        // The inverse exists either if `k` is 0 or if `self` is odd.
        let is_some = ConstChoice::from_u32_nonzero(k).not().or(self.is_odd());
//@+
    let ghost a = self.v(); let ghost w = bp(LIMBS as nat);
    proof {
        lemma_inv2k_init::<LIMBS>(a);
        lemma_val_bound(b.limbs@, LIMBS as nat); lemma_val_bound(self.limbs@, LIMBS as nat);
        if k == 0 { lemma_p2_succ(0); }
    }
//@-
        while i < Self::BITS()
//@+
    invariant 1 <= LIMBS < 0x400_0000, k as int <= 64 * LIMBS, i as int <= 64 * LIMBS, a == self.v(), w == bp(LIMBS as nat), a >= 0, w > 1, w % 2 == 0,
        0 <= b.v() < w, 0 <= x.v() < p2(min_int(i as int, k as int) as nat),
        (a % 2 == 1 && i <= k) ==> (a * x.v() + b.v() * p2(i as nat)) % w == 1,
        (a % 2 == 1 && i >= k) ==> (a * x.v()) % p2(k as nat) == 1int % p2(k as nat),
        k == 0 ==> (a * x.v()) % p2(k as nat) == 1int % p2(k as nat),
    decreases 64 * LIMBS - i,
//@-
{
//@+
    let ghost b0 = b.v(); let ghost x0 = x.v();
    let ghost bl = b.limbs@[0].0;
    proof {
        lemma_val_low(b.limbs@, LIMBS as nat);
        assert((bl & 1) == 0 || (bl & 1) == 1) by (bit_vector);
        assert((bl & 1) == bl % 2) by (bit_vector);
    }
//@-
            // Only iterations for i = 0..k need to change `x`,
            // the rest are dummy ones performed for the sake of constant-timeness.
            let within_range = ConstChoice::from_u32_lt(i, k);
            // X_i = b_i mod 2
            let x_i = b.limbs[0].0 & 1;
            let x_i_choice = ConstChoice::from_word_lsb(x_i);
//@+
    let ghost c = if x_i == 1 { (b0 - a) % w } else { b0 };
//@-
            // b_{i+1} = (b_i - self * X_i) / 2
            b = Self::select(&b, &b.wrapping_sub(self), x_i_choice).shr1();
            // Store the X_i bit in the result (x = x | (1 << X_i))
            // Don't change the result in dummy iterations.
            let x_i_choice = x_i_choice.and(within_range);
            x = x.set_bit(i, x_i_choice);
//@+
    proof {
        lemma_val_bound(b.limbs@, LIMBS as nat);
        if i < k {
            lemma_set_bit_fresh(x0, i as nat, x_i as int, x.v());
            if a % 2 == 1 {
                lemma_inv2k_step(a, x0, b0, i as nat, w, x_i as int, c, b.v(), x.v());
                if i + 1 == k { lemma_bp_split(LIMBS as nat, k as nat); lemma_inv2k_final(a, x.v(), b.v(), k as nat, w); }
            }
        } else {
            // dummy iteration: bit i of x is already clear and stays clear
            lemma_p2_mono(k as nat, i as nat);
            lemma_set_bit_fresh(x0, i as nat, 0, x.v());
        }
    }
//@-
            i += 1;
        }
        ConstCtOption::new(x, is_some)
    }
}
//@@ end

//@@ fn src/odd.rs | impl<T> Odd<T> | as_ref | body | props C08 C10 C11
impl<T> Odd<T> {
pub const fn as_ref(&self) -> (ret__: &T)
//@+
    ensures *ret__ == self.0
//@-
{
        &self.0
    }
}
//@@ end

} // verus!
