// L4: modular inversion and gcd on Uint (src/uint/inv_mod.rs, src/uint/gcd.rs) -- C10
use vstd::prelude::*;
use vstd::arithmetic::power::*;
use vstd::arithmetic::power2::*;
use vstd::arithmetic::div_mod::*;
use vstd::arithmetic::mul::*;
use crate::speclib::*;
use crate::speclib_bits::*;
use crate::l0_prim::*;
use crate::l1_choice::*;
use crate::l1_limb::*;
use crate::l2_core::*;
use crate::l2_shift::*;
use crate::l3_mul::*;
use crate::l4_safegcd::*;
verus! {

//@@ subst \b(Self|Uint)::(ZERO|ONE|MAX|BITS|LOG2_BITS)\b(?!\() => \1::\2()
//@@ subst \bUint::<(\w+)>::(ZERO|ONE|MAX|BITS)\b(?!\() => Uint::<\1>::\2()


// ---------------------------------------------------------------- gcd (specification vocabulary of C10)
/// Euclid's gcd on naturals; gcd(a, 0) == a, gcd(0, 0) == 0
pub open spec fn gcd(a: nat, b: nat) -> nat
    decreases b
{ if b == 0 { a } else { gcd(b, a % b) } }

/// gcd(a, b) divides a and b (and is positive unless a == b == 0)
pub proof fn lemma_gcd_divides(a: nat, b: nat)
    ensures (a > 0 || b > 0) ==> gcd(a, b) > 0,
        gcd(a, b) > 0 ==> (a % gcd(a, b) == 0 && b % gcd(a, b) == 0),
        (a == 0 && b == 0) ==> gcd(a, b) == 0,
    decreases b
{
    if b == 0 {
        if a > 0 { lemma_mod_self_0(a as int); lemma_small_mod(0, a); }
    } else {
        lemma_gcd_divides(b, a % b);
        let g = gcd(a, b) as int;
        assert(g == gcd(b, a % b));
        assert(g > 0);
        lemma_fundamental_div_mod(a as int, b as int);
        // g | b and g | a % b  ==>  g | (a/b)*b + a%b
        let q = a as int / b as int; let r = a as int % b as int;
        lemma_fundamental_div_mod(b as int, g); lemma_fundamental_div_mod(r, g);
        let bq = b as int / g; let rq = r / g;
        assert(a as int == g * (q * bq + rq) + 0) by (nonlinear_arith)
            requires a as int == b as int * q + r, b as int == g * bq, r == g * rq;
        lemma_fundamental_div_mod_converse(a as int, g, q * bq + rq, 0);
    }
}

/// every common divisor of a and b divides gcd(a, b)
pub proof fn lemma_gcd_greatest(a: nat, b: nat, d: int)
    requires d > 0, a as int % d == 0, b as int % d == 0
    ensures gcd(a, b) as int % d == 0
    decreases b
{
    if b != 0 {
        let q = a as int / b as int; let r = a as int % b as int;
        lemma_fundamental_div_mod(a as int, b as int);
        lemma_fundamental_div_mod(a as int, d); lemma_fundamental_div_mod(b as int, d);
        let aq = a as int / d; let bq = b as int / d;
        assert(r == d * (aq - q * bq) + 0) by (nonlinear_arith)
            requires a as int == b as int * q + r, a as int == d * aq, b as int == d * bq;
        lemma_mod_bound(a as int, b as int);
        lemma_fundamental_div_mod_converse(r, d, aq - q * bq, 0);
        lemma_gcd_greatest(b, (a % b) as nat, d);
    }
}

pub proof fn lemma_gcd_one(a: nat)
    ensures gcd(a, 1) == 1
{
    assert(gcd(a, 1) == gcd(1, a % 1));
    assert(a % 1 == 0);
    assert(gcd(1, 0) == 1);
}


pub proof fn lemma_gcd_sym(a: nat, b: nat)
    ensures gcd(a, b) == gcd(b, a)
{
    lemma_gcd_divides(a, b); lemma_gcd_divides(b, a);
    if a > 0 || b > 0 {
        let g1 = gcd(a, b) as int; let g2 = gcd(b, a) as int;
        lemma_gcd_greatest(b, a, g1); lemma_gcd_greatest(a, b, g2);
        lemma_fundamental_div_mod(g2, g1); lemma_fundamental_div_mod(g1, g2);
        let u = g2 / g1; let v = g1 / g2;
        assert(g1 == g2) by (nonlinear_arith) requires g2 == g1 * u, g1 == g2 * v, g1 > 0, g2 > 0;
    }
}

/// gcd(c*a, c*b) == c * gcd(a, b)
pub proof fn lemma_gcd_scale(a: nat, b: nat, c: nat)
    requires c > 0
    ensures gcd(c * a, c * b) == c * gcd(a, b)
    decreases b
{
    if b == 0 {
        assert(c * b == 0) by (nonlinear_arith) requires b == 0;
    } else {
        assert(c * b > 0) by (nonlinear_arith) requires b > 0, c > 0;
        lemma_truncate_middle(a as int, c as int, b as int);
        assert((c * a) % (c * b) == c * (a % b));
        lemma_gcd_scale(b, a % b, c);
    }
}

/// a positive number bounds its divisors: gcd(a, b) <= a for a > 0
pub proof fn lemma_gcd_le(a: nat, b: nat)
    requires a > 0
    ensures 0 < gcd(a, b) <= a
{
    lemma_gcd_divides(a, b);
    let g = gcd(a, b) as int;
    lemma_fundamental_div_mod(a as int, g);
    let q = a as int / g;
    assert(g <= a) by (nonlinear_arith) requires a as int == g * q, g > 0, a > 0;
}

/// an inverse exists  ==>  coprime
pub proof fn lemma_inverse_coprime(a: nat, m: nat, x: int)
    requires m >= 1, x >= 0, (a as int * x) % (m as int) == 1int % (m as int)
    ensures gcd(a, m) == 1
{
    if m == 1 { lemma_gcd_one(a); }
    else {
        lemma_gcd_divides(a, m);
        let g = gcd(a, m) as int;
        let ax = a as int * x;
        lemma_small_mod(1, m);
        lemma_fundamental_div_mod(ax, m as int);
        let q = ax / (m as int);
        lemma_fundamental_div_mod(a as int, g); lemma_fundamental_div_mod(m as int, g);
        let aq = a as int / g; let mq = m as int / g;
        assert(1 == g * (aq * x - mq * q)) by (nonlinear_arith)
            requires a as int * x == m as int * q + 1, a as int == g * aq, m as int == g * mq;
        let t = aq * x - mq * q;
        assert(g == 1) by (nonlinear_arith) requires 1 == g * t, g > 0;
    }
}

/// coprime to m  ==>  coprime to every divisor s of m
pub proof fn lemma_coprime_divisor(a: nat, m: nat, s: nat)
    requires s >= 1, m >= 1, m as int % (s as int) == 0, gcd(a, m) == 1
    ensures gcd(a, s) == 1
{
    lemma_gcd_divides(a, s);
    let g = gcd(a, s) as int;
    // g | s | m
    lemma_fundamental_div_mod(m as int, s as int); lemma_fundamental_div_mod(s as int, g);
    let ms = m as int / (s as int); let sg = s as int / g;
    assert(m as int == g * (sg * ms) + 0) by (nonlinear_arith) requires m as int == s as int * ms, s as int == g * sg;
    lemma_fundamental_div_mod_converse(m as int, g, sg * ms, 0);
    lemma_gcd_greatest(a, m, g);
    // 1 % g == 0  ==>  g == 1
    if g > 1 { lemma_small_mod(1, g as nat); }
}

/// coprime to an even number  ==>  odd
pub proof fn lemma_coprime_even(a: nat, m: nat)
    requires m >= 1, m % 2 == 0, gcd(a, m) == 1
    ensures a % 2 == 1
{
    if a % 2 == 0 {
        lemma_gcd_greatest(a, m, 2);
        lemma_small_mod(1, 2);
    }
}

// ---------------------------------------------------------------- powers of two
proof fn lemma_p2_pos(n: nat)
    ensures p2(n) >= 1
{ lemma_pow2_pos(n); }

proof fn lemma_p2_succ(n: nat)
    ensures p2(n + 1) == 2 * p2(n), p2(0) == 1
{ lemma_pow2_unfold(n + 1); lemma2_to64(); }

/// 2^a * 2^b == 2^(a+b)
proof fn lemma_p2_add(a: nat, b: nat)
    ensures p2(a) * p2(b) == p2(a + b)
{ lemma_pow2_adds(a, b); }

/// for k <= 64 n:  B^n == 2^k * 2^(64n - k)
proof fn lemma_bp_split(n: nat, k: nat)
    requires k <= 64 * n
    ensures bp(n) == p2(k) * p2((64 * n - k) as nat), bp(n) % p2(k) == 0, p2(k) <= bp(n)
{
    lemma_bp_pow2(n);
    lemma_p2_add(k, (64 * n - k) as nat);
    let a = p2(k); let c = p2((64 * n - k) as nat);
    lemma_p2_pos(k); lemma_p2_pos((64 * n - k) as nat);
    assert(a * c == c * a + 0) by (nonlinear_arith);
    lemma_fundamental_div_mod_converse(bp(n), a, c, 0);
    assert(a <= a * c) by (nonlinear_arith) requires a >= 1, c >= 1;
}

proof fn lemma_p2_mono(a: nat, b: nat)
    requires a <= b
    ensures p2(a) <= p2(b)
{
    if a < b { lemma_pow2_strictly_increases(a, b); }
}

// ---------------------------------------------------------------- inverse mod 2^k: one step of the bit-serial loop
/// invariant a*x + b*2^i == 1 (mod w) is preserved by   x_i = b mod 2,  b' = (b - a*x_i mod w) / 2,  x' = x + x_i*2^i
proof fn lemma_inv2k_step(a: int, x: int, b: int, i: nat, w: int, xi: int, c: int, b2: int, x2: int)
    requires a % 2 == 1, a >= 0, w > 1, w % 2 == 0,
        0 <= x < p2(i), 0 <= b < w,
        (a * x + b * p2(i)) % w == 1,
        xi == b % 2,
        c == (if xi == 1 { (b - a) % w } else { b }),
        b2 == c / 2,
        x2 == x + xi * p2(i),
    ensures 0 <= x2 < p2(i + 1), 0 <= b2 < w, (a * x2 + b2 * p2(i + 1)) % w == 1
{
    lemma_p2_succ(i); lemma_p2_pos(i);
    let p = p2(i);
    if xi == 0 {
        assert(b == 2 * b2);
        assert(b2 * (2 * p) == b * p) by (nonlinear_arith) requires b == 2 * b2;
        assert(x2 == x) by (nonlinear_arith) requires x2 == x + xi * p, xi == 0;
    } else {
        assert(xi == 1);
        lemma_fundamental_div_mod(b - a, w);
        lemma_mod_bound(b - a, w);
        let q = (b - a) / w;
        let wh = w / 2;
        assert(w == 2 * wh);
        // c = (b - a) - q*w is even
        assert(q * w == 2 * (q * wh)) by (nonlinear_arith) requires w == 2 * wh;
        assert(c == 2 * (b / 2 - a / 2 - q * wh)) by (nonlinear_arith)
            requires b - a == w * q + c, q * w == 2 * (q * wh), b == 2 * (b / 2) + 1, a == 2 * (a / 2) + 1;
        assert(c % 2 == 0);
        assert(c == 2 * b2);
        assert(x2 == x + p) by (nonlinear_arith) requires x2 == x + xi * p, xi == 1;
        assert(a * x2 + b2 * (2 * p) == (-(q * p)) * w + (a * x + b * p)) by (nonlinear_arith)
            requires x2 == x + p, c == 2 * b2, b - a == w * q + c;
        lemma_mod_multiples_vanish(-(q * p), a * x + b * p, w);
    }
}

/// at i == k the invariant gives the inverse modulo 2^k
proof fn lemma_inv2k_final(a: int, x: int, b: int, k: nat, w: int)
    requires w > 1, w % p2(k) == 0, (a * x + b * p2(k)) % w == 1
    ensures (a * x) % p2(k) == 1int % p2(k)
{
    let p = p2(k);
    lemma_p2_pos(k);
    lemma_fundamental_div_mod(a * x + b * p, w);
    let q = (a * x + b * p) / w;
    lemma_fundamental_div_mod(w, p);
    let t = w / p;
    assert(a * x == p * (q * t - b) + 1) by (nonlinear_arith)
        requires a * x + b * p == w * q + 1, w == p * t;
    lemma_mod_multiples_vanish(q * t - b, 1, p);
    assert(p * (q * t - b) + 1 == 1 + (q * t - b) * p) by (nonlinear_arith);
}


/// initial state of the bit-serial inversion: x = 0, b = 1
proof fn lemma_inv2k_init<const LIMBS: usize>(a: int)
    requires LIMBS >= 1
    ensures bp(LIMBS as nat) > 1, bp(LIMBS as nat) % 2 == 0, (a * 0 + 1 * p2(0)) % bp(LIMBS as nat) == 1, p2(0) == 1
{
    lemma_bp_succ((LIMBS - 1) as nat); lemma_p2_succ(0);
    let w = bp(LIMBS as nat); let r = bp((LIMBS - 1) as nat);
    assert(w == 2 * (0x8000_0000_0000_0000 * r)) by (nonlinear_arith) requires w == B() * r;
    assert(w >= B()) by (nonlinear_arith) requires w == B() * r, r >= 1;
    assert(a * 0 + 1 * 1 == 1) by (nonlinear_arith);
    lemma_small_mod(1, w as nat);
}

/// set_bit on a bit that is known to be clear (x < 2^i): the result is x + c*2^i < 2^(i+1)
proof fn lemma_set_bit_fresh(x: int, i: nat, c: int, r: int)
    requires 0 <= x < p2(i), c == 0 || c == 1,
        r == x - ((x / p2(i)) % 2) * p2(i) + (if c == 1 { 1int } else { 0int }) * p2(i)
    ensures r == x + c * p2(i), 0 <= r < p2(i + 1), c == 0 ==> r == x
{
    lemma_p2_succ(i); lemma_p2_pos(i);
    lemma_basic_div(x, p2(i));
    let p = p2(i);
    assert(((x / p) % 2) * p == 0) by (nonlinear_arith) requires x / p == 0;
    assert(c * p == (if c == 1 { p } else { 0 })) by (nonlinear_arith) requires c == 0 || c == 1;
    assert((if c == 1 { 1int } else { 0int }) * p == c * p) by (nonlinear_arith) requires c == 0 || c == 1;
}

// ---------------------------------------------------------------- limb-wise OR with a single disjoint bit
/// r = a | b limb-wise, val(a) < 2^i, val(b) == c*2^i (c a bit)   ==>   val(r) == val(a) + val(b)
proof fn lemma_bitor_disjoint_bit(a: Seq<Limb>, b: Seq<Limb>, r: Seq<Limb>, n: nat, i: nat, c: int)
    requires i < 64 * n, 0 <= val(a, n) < p2(i), val(b, n) == c * p2(i), c == 0 || c == 1,
        forall|k: int| 0 <= k < n ==> r[k].0 == a[k].0 | b[k].0
    ensures val(r, n) == val(a, n) + val(b, n)
    decreases n
{
    let q = (n - 1) as nat;
    let at = a[q as int].0; let bt = b[q as int].0; let rt = r[q as int].0;
    lemma_val_bound(a, q); lemma_val_bound(b, q); lemma_val_bound(r, q); lemma_bp_succ(q);
    lemma_p2_pos(i);
    let pq = bp(q);
    assert(rt == at | bt);
    if c == 0 {
        assert(c * p2(i) == 0) by (nonlinear_arith) requires c == 0;
        lemma_val_zero_iff(b, n);
        assert forall|k: int| 0 <= k < n implies r[k].0 == a[k].0 by {
            let x = a[k].0; let y = b[k].0;
            assert(x | y == x) by (bit_vector) requires y == 0;
        }
        lemma_val_eq_iff(r, a, n);
    } else if i < 64 * q {
        assert(c * p2(i) == p2(i)) by (nonlinear_arith) requires c == 1;
        // top limbs of a and b are zero
        lemma_bp_split(q, i);
        assert(at == 0) by (nonlinear_arith)
            requires val(a, q) + at as int * pq < p2(i), p2(i) <= pq, val(a, q) >= 0, at >= 0;
        lemma_p2_mono(i, (64 * q - 1) as nat); lemma_p2_succ((64 * q - 1) as nat); lemma_bp_pow2(q);
        assert(p2(i) < pq);
        assert(bt == 0) by (nonlinear_arith)
            requires val(b, q) + bt as int * pq == p2(i), p2(i) < pq, val(b, q) >= 0, bt >= 0;
        assert(at | bt == 0) by (bit_vector) requires at == 0, bt == 0;
        assert(at as int * pq == 0 && bt as int * pq == 0 && rt as int * pq == 0) by (nonlinear_arith) requires at == 0, bt == 0, rt == 0;
        lemma_bitor_disjoint_bit(a, b, r, q, i, c);
    } else {
        assert(c * p2(i) == p2(i)) by (nonlinear_arith) requires c == 1;
        let sh = (i - 64 * q) as nat;
        lemma_bp_pow2(q); lemma_p2_add(sh, 64 * q);
        let ps = p2(sh);
        assert(p2(i) == ps * pq);
        lemma_p2_pos(sh);
        // b: top limb is 2^sh, the rest is zero
        assert(bt as int == ps && val(b, q) == 0) by (nonlinear_arith)
            requires val(b, q) + bt as int * pq == ps * pq, 0 <= val(b, q) < pq, bt >= 0, ps >= 1;
        lemma_val_zero_iff(b, q);
        assert forall|k: int| 0 <= k < q implies r[k].0 == a[k].0 by {
            let x = a[k].0; let y = b[k].0;
            assert(x | y == x) by (bit_vector) requires y == 0;
        }
        lemma_val_eq_iff(r, a, q);
        // a: top limb < 2^sh
        assert((at as int) < ps) by (nonlinear_arith)
            requires val(a, q) + at as int * pq < ps * pq, val(a, q) >= 0, pq > 0;
        lemma_one_shl(sh as u64);
        let shu = sh as u64;
        assert(bt == 1u64 << shu);
        assert((at | bt) as u128 == (at as u128) + (bt as u128)) by (bit_vector) requires bt == 1u64 << shu, at < bt, shu < 64;
        assert((at as int + bt as int) * pq == at as int * pq + bt as int * pq) by (nonlinear_arith);
    }
}

//@@ fn src/uint/bit_and.rs | impl<const LIMBS: usize> Uint<LIMBS> | bitand | body | props C05 C11
impl<const LIMBS: usize> Uint<LIMBS> {
pub const fn bitand(&self, rhs: &Self) -> (ret__: Self)
//@+
    ensures forall|k: int| 0 <= k < LIMBS ==> ret__.limbs@[k].0 == self.limbs@[k].0 & rhs.limbs@[k].0
//@-
{
        let mut limbs = [Limb::ZERO; LIMBS];
        let mut i = 0;
        while i < LIMBS
//@+
    invariant i <= LIMBS, forall|k: int| 0 <= k < i ==> limbs@[k].0 == self.limbs@[k].0 & rhs.limbs@[k].0,
    decreases LIMBS - i,
//@-
{
            limbs[i] = self.limbs[i].bitand(rhs.limbs[i]);
            i += 1;
        }
        Self { limbs }
    }
}
//@@ end
//@@ fn src/const_choice.rs | impl<T> ConstCtOption<T> | and_choice | body | props C06 C11
impl<T> ConstCtOption<T> {
pub const fn and_choice(self, is_some: ConstChoice) -> (ret__: Self)
//@+
    requires self.is_some.wf(), is_some.wf()
    ensures ret__.value == self.value, ret__.is_some.wf(), ret__.is_some.t() == (self.is_some.t() && is_some.t())
//@-
{
let mut self__ = self;
        self__.is_some = self__.is_some.and(is_some);
        self__
    }
}
//@@ end

//@@ fn src/uint/inv_mod.rs | impl<const LIMBS: usize> Uint<LIMBS> | inv_mod2k_full_vartime | body | props C10 C11 C15
impl<const LIMBS: usize> Uint<LIMBS> {
pub const fn inv_mod2k_full_vartime(&self, k: u32) -> (ret__: Option<Self>)
//@+
    requires 1 <= LIMBS < 0x400_0000, k as int <= 64 * LIMBS
    ensures ret__.is_some() == (k == 0 || self.v() % 2 == 1),
        ret__.is_some() ==> 0 <= ret__.unwrap().v() < p2(k as nat) && (self.v() * ret__.unwrap().v()) % p2(k as nat) == 1int % p2(k as nat)
//@-
{
        // Using the Algorithm 3 from "A Secure Algorithm for Inversion Modulo 2k"
        // by Sadiel de la Fe and Carles Ferrer.
        // See <https://www.mdpi.com/2410-387X/2/3/23>.
        // Note that we are not using Alrgorithm 4, since we have a different approach
        // of enforcing constant-timeness w.r.t. `self`.
        let mut x = Self::ZERO(); // keeps `x` during iterations
        let mut b = Self::ONE(); // keeps `b_i` during iterations
        let mut i = 0;
        // The inverse exists either if `k` is 0 or if `self` is odd.
        if k != 0 && !self.is_odd().to_bool_vartime() {
            return None;
        }
//@+
    let ghost a = self.v(); let ghost w = bp(LIMBS as nat);
    proof {
        lemma_inv2k_init::<LIMBS>(a);
        lemma_val_bound(b.limbs@, LIMBS as nat); lemma_val_bound(self.limbs@, LIMBS as nat);
    }
//@-
        while i < k
//@+
    invariant 1 <= LIMBS < 0x400_0000, k as int <= 64 * LIMBS, i <= k, a == self.v(), w == bp(LIMBS as nat), a >= 0, w > 1, w % 2 == 0,
        0 <= b.v() < w, 0 <= x.v() < p2(i as nat),
        k != 0 ==> a % 2 == 1,
        a % 2 == 1 ==> (a * x.v() + b.v() * p2(i as nat)) % w == 1,
    decreases k - i,
//@-
{
//@+
    let ghost b0 = b.v(); let ghost x0 = x.v();
    let ghost bl = b.limbs@[0].0;
    proof {
        lemma_val_low(b.limbs@, LIMBS as nat);
        assert((bl & 1) == 0 || (bl & 1) == 1) by (bit_vector);
        assert((bl & 1) == bl % 2) by (bit_vector);
    }
//@-
            // X_i = b_i mod 2
            let x_i = b.limbs[0].0 & 1;
            // b_{i+1} = (b_i - a * X_i) / 2
            if x_i != 0 {
                b = b.wrapping_sub(self);
            }
//@+
    let ghost c = b.v();
//@-
            b = b.shr1();
            // Store the X_i bit in the result (x = x | (1 << X_i))
            x = x.set_bit_vartime(i, x_i != 0);
//@+
    proof {
        lemma_val_bound(b.limbs@, LIMBS as nat);
        lemma_set_bit_fresh(x0, i as nat, x_i as int, x.v());
        lemma_inv2k_step(a, x0, b0, i as nat, w, x_i as int, c, b.v(), x.v());
    }
//@-
            i += 1;
        }
//@+
    proof {
        if k == 0 { lemma_p2_succ(0); }
        else { lemma_bp_split(LIMBS as nat, k as nat); lemma_inv2k_final(a, x.v(), b.v(), k as nat, w); }
    }
//@-
        Some(x)
    }
}
//@@ end
//@@ fn src/uint/inv_mod.rs | impl<const LIMBS: usize> Uint<LIMBS> | inv_mod2k_vartime | body | props C10 C11 C15
impl<const LIMBS: usize> Uint<LIMBS> {
pub const fn inv_mod2k_vartime(&self, k: u32) -> (ret__: ConstCtOption<Self>)
//@+
    requires 1 <= LIMBS < 0x400_0000
    // every k is admitted: for k > BITS only the low BITS bits are representable and the result is the inverse mod 2^BITS,
    // like the constant-time `inv_mod2k` (this pins the repair of the `k > BITS` panic, known_findings F18)
    ensures ret__.is_some.wf(), ret__.is_some.t() == (k == 0 || self.v() % 2 == 1),
        ret__.is_some.t() ==> ({ let kk = (if k as int > 64 * LIMBS { 64 * LIMBS } else { k as int }) as nat;
            0 <= ret__.value.v() < p2(kk) && (self.v() * ret__.value.v()) % p2(kk) == 1int % p2(kk) })
//@-
{
        // Using the Algorithm 3 from "A Secure Algorithm for Inversion Modulo 2k"
        // by Sadiel de la Fe and Carles Ferrer.
        // See <https://www.mdpi.com/2410-387X/2/3/23>.
        // Note that we are not using Alrgorithm 4, since we have a different approach
        // of enforcing constant-timeness w.r.t. `self`.
        let mut x = Self::ZERO(); // keeps `x` during iterations
        let mut b = Self::ONE(); // keeps `b_i` during iterations
        let mut i = 0;
        // The inverse exists either if `k` is 0 or if `self` is odd.
        let is_some = ConstChoice::from_u32_nonzero(k).not().or(self.is_odd());
        // Only the low `BITS` bits of the inverse are representable (same result as `inv_mod2k`).
        let k = if k > Self::BITS() { Self::BITS() } else { k };
//@+
    let ghost a = self.v(); let ghost w = bp(LIMBS as nat);
    proof {
        lemma_inv2k_init::<LIMBS>(a);
        lemma_val_bound(b.limbs@, LIMBS as nat); lemma_val_bound(self.limbs@, LIMBS as nat);
    }
//@-
        while i < k
//@+
    invariant 1 <= LIMBS < 0x400_0000, k as int <= 64 * LIMBS, i <= k, a == self.v(), w == bp(LIMBS as nat), a >= 0, w > 1, w % 2 == 0,
        0 <= b.v() < w, 0 <= x.v() < p2(i as nat),
        a % 2 == 1 ==> (a * x.v() + b.v() * p2(i as nat)) % w == 1,
    decreases k - i,
//@-
{
//@+
    let ghost b0 = b.v(); let ghost x0 = x.v(); let ghost xs0 = x.limbs@;
    let ghost bl = b.limbs@[0].0;
    proof {
        lemma_val_low(b.limbs@, LIMBS as nat);
        assert((bl & 1) == 0 || (bl & 1) == 1) by (bit_vector);
        assert((bl & 1) == bl % 2) by (bit_vector);
    }
//@-
            // X_i = b_i mod 2
            let x_i = b.limbs[0].0 & 1;
            let x_i_choice = ConstChoice::from_word_lsb(x_i);
//@+
    let ghost c = if x_i == 1 { (b0 - a) % w } else { b0 };
//@-
            // b_{i+1} = (b_i - a * X_i) / 2
            b = Self::select(&b, &b.wrapping_sub(self), x_i_choice).shr1();
//@+
    proof {
        lemma_bp_split(LIMBS as nat, i as nat); lemma_p2_pos(i as nat);
        lemma_p2_mono((i + 1) as nat, (64 * LIMBS) as nat); lemma_p2_succ(i as nat); lemma_bp_pow2(LIMBS as nat);
        assert(x_i as int * p2(i as nat) < w) by (nonlinear_arith) requires 0 <= x_i as int <= 1, 2 * p2(i as nat) <= w, p2(i as nat) >= 1;
        assert(x_i as int * p2(i as nat) >= 0) by (nonlinear_arith) requires 0 <= x_i as int <= 1, p2(i as nat) >= 1;
        lemma_small_mod((x_i as int * p2(i as nat)) as nat, w as nat);
    }
//@-
            // Store the X_i bit in the result (x = x | (1 << X_i))
            let shifted = Uint::from_word(x_i)
                .overflowing_shl_vartime(i)
                .expect("shift within range");
            x = x.bitor(&shifted);
//@+
    proof {
        lemma_val_bound(b.limbs@, LIMBS as nat);
        lemma_bitor_disjoint_bit(xs0, shifted.limbs@, x.limbs@, LIMBS as nat, i as nat, x_i as int);
        if a % 2 == 1 {
            lemma_inv2k_step(a, x0, b0, i as nat, w, x_i as int, c, b.v(), x.v());
        } else {
            lemma_p2_succ(i as nat);
            assert(x0 + x_i as int * p2(i as nat) < 2 * p2(i as nat)) by (nonlinear_arith) requires x0 < p2(i as nat), 0 <= x_i as int <= 1, p2(i as nat) >= 1;
        }
    }
//@-
            i += 1;
        }
//@+
    proof {
        if k == 0 { lemma_p2_succ(0); }
        else if a % 2 == 1 { lemma_bp_split(LIMBS as nat, k as nat); lemma_inv2k_final(a, x.v(), b.v(), k as nat, w); }
    }
//@-
        ConstCtOption::new(x, is_some)
    }
}
//@@ end
//@@ fn src/uint/inv_mod.rs | impl<const LIMBS: usize> Uint<LIMBS> | inv_mod2k | body | props C10 C11 C15
impl<const LIMBS: usize> Uint<LIMBS> {
pub const fn inv_mod2k(&self, k: u32) -> (ret__: ConstCtOption<Self>)
//@+
    requires 1 <= LIMBS < 0x400_0000, k as int <= 64 * LIMBS
    ensures ret__.is_some.wf(), ret__.is_some.t() == (k == 0 || self.v() % 2 == 1),
        ret__.is_some.t() ==> 0 <= ret__.value.v() < p2(k as nat) && (self.v() * ret__.value.v()) % p2(k as nat) == 1int % p2(k as nat)
//@-
{
        // This is the same algorithm as in `inv_mod2k_vartime()`,
        // but made constant-time w.r.t `k` as well.
        let mut x = Self::ZERO(); // keeps `x` during iterations
        let mut b = Self::ONE(); // keeps `b_i` during iterations
        let mut i = 0;
        // The inverse exists either if `k` is 0 or if `self` is odd.
        let is_some = ConstChoice::from_u32_nonzero(k).not().or(self.is_odd());
//@+
    let ghost a = self.v(); let ghost w = bp(LIMBS as nat);
    proof {
        lemma_inv2k_init::<LIMBS>(a);
        lemma_val_bound(b.limbs@, LIMBS as nat); lemma_val_bound(self.limbs@, LIMBS as nat);
        if k == 0 { lemma_p2_succ(0); }
    }
//@-
        while i < Self::BITS()
//@+
    invariant 1 <= LIMBS < 0x400_0000, k as int <= 64 * LIMBS, i as int <= 64 * LIMBS, a == self.v(), w == bp(LIMBS as nat), a >= 0, w > 1, w % 2 == 0,
        0 <= b.v() < w, 0 <= x.v() < p2(min_int(i as int, k as int) as nat),
        (a % 2 == 1 && i <= k) ==> (a * x.v() + b.v() * p2(i as nat)) % w == 1,
        (a % 2 == 1 && i >= k) ==> (a * x.v()) % p2(k as nat) == 1int % p2(k as nat),
        k == 0 ==> (a * x.v()) % p2(k as nat) == 1int % p2(k as nat),
    decreases 64 * LIMBS - i,
//@-
{
//@+
    let ghost b0 = b.v(); let ghost x0 = x.v();
    let ghost bl = b.limbs@[0].0;
    proof {
        lemma_val_low(b.limbs@, LIMBS as nat);
        assert((bl & 1) == 0 || (bl & 1) == 1) by (bit_vector);
        assert((bl & 1) == bl % 2) by (bit_vector);
    }
//@-
            // Only iterations for i = 0..k need to change `x`,
            // the rest are dummy ones performed for the sake of constant-timeness.
            let within_range = ConstChoice::from_u32_lt(i, k);
            // X_i = b_i mod 2
            let x_i = b.limbs[0].0 & 1;
            let x_i_choice = ConstChoice::from_word_lsb(x_i);
//@+
    let ghost c = if x_i == 1 { (b0 - a) % w } else { b0 };
//@-
            // b_{i+1} = (b_i - self * X_i) / 2
            b = Self::select(&b, &b.wrapping_sub(self), x_i_choice).shr1();
            // Store the X_i bit in the result (x = x | (1 << X_i))
            // Don't change the result in dummy iterations.
            let x_i_choice = x_i_choice.and(within_range);
            x = x.set_bit(i, x_i_choice);
//@+
    proof {
        lemma_val_bound(b.limbs@, LIMBS as nat);
        if i < k {
            lemma_set_bit_fresh(x0, i as nat, x_i as int, x.v());
            if a % 2 == 1 {
                lemma_inv2k_step(a, x0, b0, i as nat, w, x_i as int, c, b.v(), x.v());
                if i + 1 == k { lemma_bp_split(LIMBS as nat, k as nat); lemma_inv2k_final(a, x.v(), b.v(), k as nat, w); }
            }
        } else {
            // dummy iteration: bit i of x is already clear and stays clear
            lemma_p2_mono(k as nat, i as nat);
            lemma_set_bit_fresh(x0, i as nat, 0, x.v());
        }
    }
//@-
            i += 1;
        }
        ConstCtOption::new(x, is_some)
    }
}
//@@ end



// ---------------------------------------------------------------- limb-wise AND with the mask 2^k - 1
/// r = a & m limb-wise with val(m) == 2^k - 1   ==>   val(r) == val(a) mod 2^k
proof fn lemma_and_mask(a: Seq<Limb>, m: Seq<Limb>, r: Seq<Limb>, n: nat, k: nat)
    requires k <= 64 * n, val(m, n) == p2(k) - 1,
        forall|j: int| 0 <= j < n ==> r[j].0 == a[j].0 & m[j].0
    ensures val(r, n) == val(a, n) % p2(k)
    decreases n
{
    lemma_p2_pos(k);
    if n == 0 {
        lemma_p2_succ(0);
        lemma_small_mod(0, 1);
    } else {
        let q = (n - 1) as nat;
        let at = a[q as int].0; let mt = m[q as int].0; let rt = r[q as int].0;
        let pq = bp(q);
        lemma_val_bound(a, q); lemma_val_bound(m, q); lemma_val_bound(r, q); lemma_bp_succ(q);
        assert(rt == at & mt);
        if k <= 64 * q {
            lemma_bp_split(q, k);
            assert(mt == 0) by (nonlinear_arith)
                requires val(m, q) + mt as int * pq == p2(k) - 1, p2(k) <= pq, val(m, q) >= 0, mt >= 0;
            assert(at & mt == 0) by (bit_vector) requires mt == 0;
            assert(rt as int * pq == 0 && mt as int * pq == 0) by (nonlinear_arith) requires rt == 0, mt == 0;
            lemma_and_mask(a, m, r, q, k);
            let c = p2((64 * q - k) as nat);
            assert(at as int * pq == p2(k) * (at as int * c)) by (nonlinear_arith) requires pq == p2(k) * c;
            lemma_mod_multiples_vanish(at as int * c, val(a, q), p2(k));
        } else {
            let sh = (k - 64 * q) as nat;
            lemma_bp_pow2(q); lemma_p2_add(sh, 64 * q); lemma_p2_pos(sh);
            let ps = p2(sh);
            assert(p2(k) == ps * pq);
            let dlt = ps - mt as int;
            assert(dlt * pq == val(m, q) + 1) by (nonlinear_arith)
                requires val(m, q) + mt as int * pq == ps * pq - 1, dlt == ps - mt as int;
            assert(dlt == 1) by (nonlinear_arith)
                requires dlt * pq == val(m, q) + 1, 0 <= val(m, q) < pq, pq > 0;
            assert(val(m, q) == pq - 1) by (nonlinear_arith) requires dlt * pq == val(m, q) + 1, dlt == 1;
            // the low limbs of m are all ones
            let mx = Seq::new(q, |j: int| Limb(u64::MAX));
            lemma_val_all_max(mx, q);
            lemma_val_inj(m, mx, q);
            assert forall|j: int| 0 <= j < q implies r[j].0 == a[j].0 by {
                let x = a[j].0; let y = m[j].0;
                assert(y == mx[j].0);
                assert(x & y == x) by (bit_vector) requires y == 0xffff_ffff_ffff_ffffu64;
            }
            lemma_val_eq_iff(r, a, q);
            // top limb: at & (2^sh - 1) == at mod 2^sh
            if sh == 64 {
                lemma_pow2_64();
                assert(at & mt == at) by (bit_vector) requires mt == 0xffff_ffff_ffff_ffffu64;
                lemma_small_mod(at as nat, ps as nat);
            } else {
                let shu = sh as u64;
                lemma_one_shl(shu);
                let one = 1u64 << shu;
                assert(mt == (one - 1) as u64);
                assert(at & mt == at % one) by (bit_vector) requires one == 1u64 << shu, shu < 64, mt == sub(one, 1);
            }
            assert(rt as int == at as int % ps);
            let hi = at as int / ps; let lo = at as int % ps;
            lemma_fundamental_div_mod(at as int, ps); lemma_mod_bound(at as int, ps);
            assert(val(a, n) == (ps * pq) * hi + (val(a, q) + lo * pq)) by (nonlinear_arith)
                requires val(a, n) == val(a, q) + at as int * pq, at as int == ps * hi + lo;
            assert(0 <= val(a, q) + lo * pq < ps * pq) by (nonlinear_arith)
                requires 0 <= val(a, q) < pq, 0 <= lo <= ps - 1;
            lemma_fundamental_div_mod_converse(val(a, n), p2(k), hi, val(a, q) + lo * pq);
        }
    }
}

// ---------------------------------------------------------------- CRT recombination (Garner step) for the modulus s * 2^k
/// s odd and 2^k | s*u   ==>   2^k | u
proof fn lemma_odd_cancel(s: int, u: int, k: nat)
    requires s % 2 == 1, (s * u) % p2(k) == 0
    ensures u % p2(k) == 0
    decreases k
{
    if k == 0 { lemma_p2_succ(0); }
    else {
        let k1 = (k - 1) as nat; lemma_p2_succ(k1); lemma_p2_pos(k1);
        let p = p2(k1);
        lemma_fundamental_div_mod(s * u, 2 * p);
        let z = (s * u) / (2 * p);
        let sh = s / 2;
        assert(s == 2 * sh + 1);
        let u2 = p * z - sh * u;
        assert(u == 2 * u2) by (nonlinear_arith) requires s * u == (2 * p) * z, s == 2 * sh + 1, u2 == p * z - sh * u;
        assert(s * u2 == p * z + 0) by (nonlinear_arith) requires s * u == (2 * p) * z, u == 2 * u2;
        lemma_fundamental_div_mod_converse(s * u2, p, z, 0);
        lemma_odd_cancel(s, u2, k1);
        lemma_fundamental_div_mod(u2, p);
        let y = u2 / p;
        assert(u == (2 * p) * y + 0) by (nonlinear_arith) requires u == 2 * u2, u2 == p * y;
        lemma_fundamental_div_mod_converse(u, 2 * p, y, 0);
    }
}

/// res = av + s*((bv - av)*s^-1 mod 2^k) is the inverse of x modulo m = s*2^k, given the inverses av mod s, bv mod 2^k
proof fn lemma_garner(x: int, m: int, s: int, k: nat, w: int, av: int, bv: int, sinv: int, tv: int, res: int)
    requires x >= 0, s >= 1, s % 2 == 1, m == s * p2(k), m < w, w % p2(k) == 0, w > 0,
        0 <= av <= s, s >= 2 ==> av < s, (x * av) % s == 1int % s,
        0 <= bv < p2(k), (x * bv) % p2(k) == 1int % p2(k),
        0 <= sinv < p2(k), (s * sinv) % p2(k) == 1int % p2(k),
        tv == ((((bv - av) % w) * sinv) % w) % p2(k),
        res == (av + (s * tv) % w) % w,
    ensures 0 <= res, m >= 2 ==> res < m, (x * res) % m == 1int % m
{
    let pk = p2(k);
    lemma_p2_pos(k);
    let d = (bv - av) % w; let q1 = (bv - av) / w;
    let e = (d * sinv) % w; let q2 = (d * sinv) / w;
    let q3 = e / pk;
    lemma_fundamental_div_mod(bv - av, w); lemma_fundamental_div_mod(d * sinv, w); lemma_fundamental_div_mod(e, pk);
    lemma_mod_bound(e, pk);
    assert(0 <= tv < pk);
    // no wrap-around in res
    assert(0 <= s * tv <= m - s) by (nonlinear_arith) requires 0 <= tv <= pk - 1, s >= 1, m == s * pk;
    lemma_small_mod((s * tv) as nat, w as nat);
    lemma_small_mod((av + s * tv) as nat, w as nat);
    assert(res == av + s * tv);
    // modulo s
    assert(x * res == s * (x * tv) + x * av) by (nonlinear_arith) requires res == av + s * tv;
    lemma_mod_multiples_vanish(x * tv, x * av, s);
    assert((x * res) % s == 1int % s);
    // modulo 2^k
    if k == 0 {
        lemma_p2_succ(0);
        assert(pk == 1);
        assert((x * res) % pk == 1int % pk);
    } else {
        lemma_p2_succ((k - 1) as nat); lemma_p2_pos((k - 1) as nat);
        lemma_small_mod(1, pk as nat);
        lemma_fundamental_div_mod(w, pk);
        let c = w / pk;
        lemma_fundamental_div_mod(s * sinv, pk);
        let q4 = (s * sinv) / pk;
        assert(s * sinv == pk * q4 + 1);
        assert(w * q1 == pk * (c * q1) && w * q2 == pk * (c * q2)) by (nonlinear_arith) requires w == pk * c;
        assert(d * sinv == (bv - av) * sinv - pk * (c * q1 * sinv)) by (nonlinear_arith)
            requires bv - av == w * q1 + d, w * q1 == pk * (c * q1);
        let z1 = c * q1 * sinv + c * q2 + q3;
        assert(tv == (bv - av) * sinv - pk * z1) by (nonlinear_arith)
            requires e == pk * q3 + tv, d * sinv == w * q2 + e, w * q2 == pk * (c * q2),
                d * sinv == (bv - av) * sinv - pk * (c * q1 * sinv), z1 == c * q1 * sinv + c * q2 + q3;
        assert(s * tv == (bv - av) * (s * sinv) - pk * (s * z1)) by (nonlinear_arith)
            requires tv == (bv - av) * sinv - pk * z1;
        assert((bv - av) * (s * sinv) == (bv - av) + pk * ((bv - av) * q4)) by (nonlinear_arith)
            requires s * sinv == pk * q4 + 1;
        let zz = (bv - av) * q4 - s * z1;
        assert(res == bv + pk * zz) by (nonlinear_arith)
            requires res == av + s * tv, s * tv == (bv - av) * (s * sinv) - pk * (s * z1),
                (bv - av) * (s * sinv) == (bv - av) + pk * ((bv - av) * q4), zz == (bv - av) * q4 - s * z1;
        assert(x * res == pk * (x * zz) + x * bv) by (nonlinear_arith) requires res == bv + pk * zz;
        lemma_mod_multiples_vanish(x * zz, x * bv, pk);
        assert((x * res) % pk == 1int % pk);
    }
    // combine: s | D, 2^k | D, s odd  ==>  s*2^k | D
    let dd = x * res - 1;
    lemma_mod_equivalence(x * res, 1, s);
    lemma_mod_equivalence(x * res, 1, pk);
    assert(dd % s == 0 && dd % pk == 0);
    lemma_fundamental_div_mod(dd, s);
    let u = dd / s;
    assert(dd == s * u);
    lemma_odd_cancel(s, u, k);
    lemma_fundamental_div_mod(u, pk);
    let y = u / pk;
    assert(m >= 1) by (nonlinear_arith) requires m == s * pk, s >= 1, pk >= 1;
    assert(dd == m * y + 0) by (nonlinear_arith) requires dd == s * u, u == pk * y, m == s * pk;
    lemma_fundamental_div_mod_converse(dd, m, y, 0);
    lemma_mod_equivalence(x * res, 1, m);
    // range
    if m >= 2 {
        if s == 1 {
            assert(m == pk) by (nonlinear_arith) requires m == s * pk, s == 1;
            if res == m {
                lemma_mod_multiples_basic(x, pk);
                assert(x * res == x * pk);
                lemma_small_mod(1, pk as nat);
                assert(false);
            }
        }
    }
}


/// gcd(x, s*2^k) == 1  ==>  both residue inverses exist: gcd(x, s) == 1 and (k == 0 or x odd)
proof fn lemma_inv_mod_decide(x: int, m: int, s: int, k: nat)
    requires x >= 0, s >= 1, m == s * p2(k), gcd(x as nat, m as nat) == 1
    ensures gcd(x as nat, s as nat) == 1, k == 0 || x % 2 == 1
{
    lemma_p2_pos(k);
    let pk = p2(k);
    assert(m >= 1) by (nonlinear_arith) requires m == s * pk, s >= 1, pk >= 1;
    assert(m == s * pk + 0);
    assert(m == pk * s + 0) by (nonlinear_arith) requires m == s * pk;
    lemma_fundamental_div_mod_converse(m, s, pk, 0);
    lemma_coprime_divisor(x as nat, m as nat, s as nat);
    if k != 0 {
        lemma_p2_succ((k - 1) as nat);
        let h = p2((k - 1) as nat);
        assert(m == 2 * (s * h) + 0) by (nonlinear_arith) requires m == s * pk, pk == 2 * h;
        lemma_fundamental_div_mod_converse(m, 2, s * h, 0);
        lemma_coprime_even(x as nat, m as nat);
    }
}

/// common power of two: a = 2^k*s1, b = 2^k*s2, both < w   ==>   (gcd(s1, s2) * 2^k) mod w == gcd(a, b), either argument order
proof fn lemma_gcd_pow2_split(a: int, b: int, k: nat, s1: int, s2: int, w: int)
    requires a >= 0, b >= 0, a > 0 || b > 0, a < w, b < w, a % p2(k) == 0, b % p2(k) == 0, s1 == a / p2(k), s2 == b / p2(k)
    ensures s1 >= 0, s2 >= 0,
        (gcd(s1 as nat, s2 as nat) * p2(k)) % w == gcd(a as nat, b as nat),
        (gcd(s2 as nat, s1 as nat) * p2(k)) % w == gcd(a as nat, b as nat),
{
    let pk = p2(k);
    lemma_p2_pos(k);
    lemma_fundamental_div_mod(a, pk); lemma_fundamental_div_mod(b, pk);
    assert(s1 >= 0) by (nonlinear_arith) requires a == pk * s1, a >= 0, pk >= 1;
    assert(s2 >= 0) by (nonlinear_arith) requires b == pk * s2, b >= 0, pk >= 1;
    lemma_gcd_scale(s1 as nat, s2 as nat, pk as nat);
    lemma_gcd_sym(s1 as nat, s2 as nat);
    assert((pk as nat) * (s1 as nat) == a as nat && (pk as nat) * (s2 as nat) == b as nat);
    let g = gcd(a as nat, b as nat) as int;
    if a > 0 { lemma_gcd_le(a as nat, b as nat); }
    else { lemma_gcd_sym(a as nat, b as nat); lemma_gcd_le(b as nat, a as nat); }
    lemma_small_mod(g as nat, w as nat);
    assert(gcd(s1 as nat, s2 as nat) * pk == g) by (nonlinear_arith)
        requires g == (pk as nat) * gcd(s1 as nat, s2 as nat), pk >= 1;
}

/// x divisible by 2^k1 and k <= k1  ==>  x divisible by 2^k
proof fn lemma_p2_divides_mono(x: int, k: nat, k1: nat)
    requires k <= k1, x % p2(k1) == 0
    ensures x % p2(k) == 0
{
    lemma_p2_add(k, (k1 - k) as nat); lemma_p2_pos(k); lemma_p2_pos(k1);
    lemma_fundamental_div_mod(x, p2(k1));
    let z = x / p2(k1); let c = p2((k1 - k) as nat);
    assert(x == p2(k) * (c * z) + 0) by (nonlinear_arith) requires x == p2(k1) * z, p2(k1) == p2(k) * c;
    lemma_fundamental_div_mod_converse(x, p2(k), c * z, 0);
}

// ---------------------------------------------------------------- safegcd interface (src/modular/safegcd.rs, src/traits.rs)
// `UnsatInt`, `SafeGcdInverter` and their methods (new / inv / gcd / gcd_vartime ...) are proved in unit l4_safegcd.
// ASSUMED, type-level: the macro `impl_precompute_inverter_trait!` (src/uint/macros.rs) binds UNSAT_LIMBS = safegcd_nlimbs!(BITS) in
// the impls of `PrecomputeInverter` that Verus cannot see; the functions below therefore carry `sg_sizes(LIMBS, UNSAT_LIMBS)`.
/// the relation between the two limb counts established by `impl_precompute_inverter_trait!`, and the size limit of l4_safegcd
pub open spec fn sg_sizes(sat: int, unsat: int) -> bool { sat >= 1 && sg_nlimbs_ok(sat, unsat) && unsat <= SG_MAX_UNSAT() }

/// the gcd of l4_safegcd (`sg_gcd`) is this unit's `gcd` (same Euclidean recursion)
pub proof fn lemma_sg_gcd_eq(a: nat, b: nat)
    ensures sg_gcd(a, b) == gcd(a, b)
    decreases b
{ if b != 0 { lemma_sg_gcd_eq(b, a % b); } }

// Trait plumbing for the headers `where Odd<Self>: PrecomputeInverter<Inverter = SafeGcdInverter<..>>`.
// Only the associated types of the two traits of src/traits.rs are declared: their methods return
// subtle::CtOption and are not called by any function of this unit.
pub trait Inverter { type Output; }
pub trait PrecomputeInverter { type Inverter: Inverter<Output = Self::Output> + Sized; type Output; }
impl<const SAT_LIMBS: usize, const UNSAT_LIMBS: usize> Inverter for SafeGcdInverter<SAT_LIMBS, UNSAT_LIMBS> { type Output = Uint<SAT_LIMBS>; }

//@@ fn src/uint/inv_mod.rs | impl<const LIMBS: usize, const UNSAT_LIMBS: usize> Uint<LIMBS> where Odd<Self>: PrecomputeInverter<Inverter = SafeGcdInverter<LIMBS, UNSAT_LIMBS>>, | inv_odd_mod | body | props C10 C11
impl<const LIMBS: usize, const UNSAT_LIMBS: usize> Uint<LIMBS> where Odd<Self>: PrecomputeInverter<Inverter = SafeGcdInverter<LIMBS, UNSAT_LIMBS>>, {
pub const fn inv_odd_mod(&self, modulus: &Odd<Self>) -> (ret__: ConstCtOption<Self>)
//@+
    // PROVED from l4_safegcd (SafeGcdInverter::new + inv).  Domain: an odd modulus, or 0 -- Uint::inv_mod calls it with Odd(0) for a
    // zero modulus and discards the result; the call is total there (no panic, no overflow), nothing is claimed about the value.
    requires sg_sizes(LIMBS as int, UNSAT_LIMBS as int), modulus.0.v() % 2 == 1 || modulus.0.v() == 0
    ensures ret__.is_some.wf(),
        // (N)+(C): invertibility is decided exactly for an odd modulus
        modulus.0.v() % 2 == 1 ==> ret__.is_some.t() == (gcd(self.v() as nat, modulus.0.v() as nat) == 1),
        // (S): the result is the inverse
        (modulus.0.v() % 2 == 1 && ret__.is_some.t()) ==> (self.v() * ret__.value.v()) % modulus.0.v() == 1int % modulus.0.v(),
        (modulus.0.v() % 2 == 1 && modulus.0.v() >= 2 && ret__.is_some.t()) ==> 0 <= ret__.value.v() < modulus.0.v(),
        // modulus 1: the adjuster 1 is not < modulus, the value is 0 or 1 (observed: both occur)
        modulus.0.v() == 1 ==> 0 <= ret__.value.v() <= 1,
        modulus.0.v() % 2 == 1 ==> 0 <= ret__.value.v() <= modulus.0.v()
//@-
{
//@+
    proof {
        let mv = modulus.0.v(); let xv = self.v();
        lemma_val_bound(modulus.0.limbs@, LIMBS as nat); lemma_val_bound(self.limbs@, LIMBS as nat);
        lemma_sg_gcd_eq(mv as nat, xv as nat);
        lemma_gcd_sym(mv as nat, xv as nat);
        assert forall|r: int| #[trigger] (r * xv) == xv * r by { assert(r * xv == xv * r) by (nonlinear_arith); }
    }
//@-
        SafeGcdInverter::<LIMBS, UNSAT_LIMBS>::new(modulus, &Uint::ONE()).inv(self)
    }
}
//@@ end
//@@ fn src/uint/inv_mod.rs | impl<const LIMBS: usize, const UNSAT_LIMBS: usize> Uint<LIMBS> where Odd<Self>: PrecomputeInverter<Inverter = SafeGcdInverter<LIMBS, UNSAT_LIMBS>>, | inv_mod | body | props C10 C11
impl<const LIMBS: usize, const UNSAT_LIMBS: usize> Uint<LIMBS> where Odd<Self>: PrecomputeInverter<Inverter = SafeGcdInverter<LIMBS, UNSAT_LIMBS>>, {
pub const fn inv_mod(&self, modulus: &Self) -> (ret__: ConstCtOption<Self>)
//@+
    requires sg_sizes(LIMBS as int, UNSAT_LIMBS as int)
    ensures ret__.is_some.wf(),
        modulus.v() == 0 ==> !ret__.is_some.t(),
        modulus.v() >= 1 ==> ret__.is_some.t() == (gcd(self.v() as nat, modulus.v() as nat) == 1),
        (modulus.v() >= 1 && ret__.is_some.t()) ==> (self.v() * ret__.value.v()) % modulus.v() == 1int % modulus.v(),
        (modulus.v() >= 2 && ret__.is_some.t()) ==> 0 <= ret__.value.v() < modulus.v()
//@-
{
        // Decompose `modulus = s * 2^k` where `s` is odd
        let k = modulus.trailing_zeros();
//@+
    let ghost xv = self.v(); let ghost mv = modulus.v(); let ghost w = bp(LIMBS as nat); let ghost pk = p2(k as nat);
    proof { lemma_val_bound(self.limbs@, LIMBS as nat); lemma_val_bound(modulus.limbs@, LIMBS as nat); lemma_p2_pos(k as nat); }
//@-
        let s = modulus.overflowing_shr(k).unwrap_or(Self::ZERO());
//@+
    let ghost sv = s.v();
    proof {
        if mv >= 1 {
            lemma_fundamental_div_mod(mv, pk);
            assert(mv == sv * pk) by (nonlinear_arith) requires mv == pk * (mv / pk) + 0, sv == mv / pk;
            lemma_bp_split(LIMBS as nat, k as nat);
            lemma_p2_mono((k + 1) as nat, (64 * LIMBS) as nat); lemma_p2_succ(k as nat); lemma_bp_pow2(LIMBS as nat);
            lemma_small_mod(pk as nat, w as nat); lemma_small_mod((pk - 1) as nat, w as nat);
            assert(1 * pk == pk);
        }
    }
//@-
        // Decompose `self` into RNS with moduli `2^k` and `s` and calculate the inverses.
        // Using the fact that `(z^{-1} mod (m1 * m2)) mod m1 == z^{-1} mod m1`
        let s_is_odd = s.is_odd();
        let maybe_a = self.inv_odd_mod(&Odd(s)).and_choice(s_is_odd);
        let maybe_b = self.inv_mod2k(k);
        let is_some = maybe_a.is_some().and(maybe_b.is_some());
        // Unwrap to avoid mapping through ConstCtOptions.
        // if `a` or `b` don't exist, the returned ConstCtOption will be None anyway.
        let a = maybe_a.unwrap_or(Uint::ZERO());
        let b = maybe_b.unwrap_or(Uint::ZERO());
        // Restore from RNS:
        // self^{-1} = a mod s = b mod 2^k
        // => self^{-1} = a + s * ((b - a) * s^(-1) mod 2^k)
        // (essentially one step of the Garner's algorithm for recovery from RNS).
        // `s` is odd, so this always exists (except for a zero modulus, where the result is none anyway)
        let m_odd_inv = s.inv_mod2k(k).unwrap_or(Self::ZERO());
        // This part is mod 2^k
        let shifted = Uint::ONE().overflowing_shl(k).unwrap_or(Self::ZERO());
        let mask = shifted.wrapping_sub(&Uint::ONE());
//@+
    proof {
        if mv >= 1 {
            assert(mask.v() == pk - 1);
        }
    }
//@-
        let t = (b.wrapping_sub(&a).wrapping_mul(&m_odd_inv)).bitand(&mask);
//@+
    proof {
        if mv >= 1 {
            assert forall|ys: Seq<Limb>| (forall|j: int| 0 <= j < LIMBS ==> t.limbs@[j].0 == ys[j].0 & mask.limbs@[j].0)
                implies t.v() == #[trigger] val(ys, LIMBS as nat) % pk by {
                lemma_and_mask(ys, mask.limbs@, t.limbs@, LIMBS as nat, k as nat);
            }
            assert(t.v() == ((((b.v() - a.v()) % w) * m_odd_inv.v()) % w) % pk);
        }
    }
//@-
        // Will not overflow since `a <= s - 1`, `t <= 2^k - 1`,
        // so `a + s * t <= s * 2^k - 1 == modulus - 1`.
        let result = a.wrapping_add(&s.wrapping_mul(&t));
//@+
    proof {
        if mv >= 1 {
            lemma_val_bound(result.limbs@, LIMBS as nat);
            if is_some.t() {
                lemma_garner(xv, mv, sv, k as nat, w, a.v(), b.v(), m_odd_inv.v(), t.v(), result.v());
                lemma_inverse_coprime(xv as nat, mv as nat, result.v());
            } else if gcd(xv as nat, mv as nat) == 1 {
                lemma_inv_mod_decide(xv, mv, sv, k as nat);
            }
        }
    }
//@-
        ConstCtOption::new(result, is_some)
    }
}
//@@ end
//@@ fn src/odd.rs | impl<T> Odd<T> | as_ref | body | props C08 C10 C11
impl<T> Odd<T> {
pub const fn as_ref(&self) -> (ret__: &T)
//@+
    ensures *ret__ == self.0
//@-
{
        &self.0
    }
}
//@@ end
//@@ fn src/uint/gcd.rs | impl<const SAT_LIMBS: usize, const UNSAT_LIMBS: usize> Uint<SAT_LIMBS> where Odd<Self>: PrecomputeInverter<Inverter = SafeGcdInverter<SAT_LIMBS, UNSAT_LIMBS>>, | gcd | body | props C10 C11
impl<const SAT_LIMBS: usize, const UNSAT_LIMBS: usize> Uint<SAT_LIMBS> where Odd<Self>: PrecomputeInverter<Inverter = SafeGcdInverter<SAT_LIMBS, UNSAT_LIMBS>>, {
pub const fn gcd(&self, rhs: &Self) -> (ret__: Self)
//@+
    requires sg_sizes(SAT_LIMBS as int, UNSAT_LIMBS as int)
    ensures ret__.v() == gcd(self.v() as nat, rhs.v() as nat)
//@-
{
        let k1 = self.trailing_zeros();
        let k2 = rhs.trailing_zeros();
        // Select the smaller of the two `k` values, making 2^k the common even divisor
        let k = ConstChoice::from_u32_lt(k2, k1).select_u32(k1, k2);
        // Decompose `self` and `rhs` into `s{1, 2} * 2^k` where either `s1` or `s2` is odd
        let s1 = self.overflowing_shr(k).unwrap_or(Self::ZERO());
        let s2 = rhs.overflowing_shr(k).unwrap_or(Self::ZERO());
        let f = Self::select(&s1, &s2, s2.is_odd().not());
        let g = Self::select(&s1, &s2, s2.is_odd());
//@+
    let ghost av = self.v(); let ghost bv = rhs.v(); let ghost w = bp(SAT_LIMBS as nat);
    proof {
        lemma_val_bound(self.limbs@, SAT_LIMBS as nat); lemma_val_bound(rhs.limbs@, SAT_LIMBS as nat);
        if av == 0 && bv == 0 {
            lemma_gcd_divides(0, 0);
        } else {
            lemma_p2_divides_mono(av, k as nat, k1 as nat); lemma_p2_divides_mono(bv, k as nat, k2 as nat);
            lemma_gcd_pow2_split(av, bv, k as nat, s1.v(), s2.v(), w);
            assert(g.v() % 2 == 1);
        }
        lemma_sg_gcd_eq(f.v() as nat, g.v() as nat);
    }
//@-
        <Odd<Self> as PrecomputeInverter>::Inverter::gcd(&f, &g)
            .overflowing_shl(k)
            .unwrap_or(Self::ZERO())
    }
}
//@@ end
//@@ fn src/uint/gcd.rs | impl<const SAT_LIMBS: usize, const UNSAT_LIMBS: usize> Odd<Uint<SAT_LIMBS>> where Self: PrecomputeInverter<Inverter = SafeGcdInverter<SAT_LIMBS, UNSAT_LIMBS>>, | gcd_vartime | body | props C10 C11 C15
impl<const SAT_LIMBS: usize, const UNSAT_LIMBS: usize> Odd<Uint<SAT_LIMBS>> where Self: PrecomputeInverter<Inverter = SafeGcdInverter<SAT_LIMBS, UNSAT_LIMBS>>, {
pub const fn gcd_vartime(&self, rhs: &Uint<SAT_LIMBS>) -> (ret__: Uint<SAT_LIMBS>)
//@+
    requires sg_sizes(SAT_LIMBS as int, UNSAT_LIMBS as int), self.0.v() % 2 == 1
    ensures ret__.v() == gcd(self.0.v() as nat, rhs.v() as nat)
//@-
{
//@+
    proof { lemma_sg_gcd_eq(self.0.v() as nat, rhs.v() as nat); }
//@-
        <Self as PrecomputeInverter>::Inverter::gcd_vartime(self.as_ref(), rhs)
    }
}
//@@ end

} // verus!
