// L4: integer square root (src/uint/sqrt.rs) -- C20
use vstd::prelude::*;
use vstd::arithmetic::power::*;
use vstd::arithmetic::power2::*;
use vstd::arithmetic::div_mod::*;
use crate::speclib::*;
use crate::speclib_bits::*;
use crate::l0_prim::*;
use crate::l1_choice::*;
use crate::l1_limb::*;
use crate::l2_core::*;
use crate::l2_shift::*;
use crate::l3_div_ct::*;
use crate::l3_div_vt::*;
verus! {

//@@ subst \b(Self|Uint)::(ZERO|ONE|MAX|BITS|LOG2_BITS)\b(?!\() => \1::\2()

/// s is the integer square root of n
pub open spec fn is_isqrt(n: int, s: int) -> bool { 0 <= s && s * s <= n && n < (s + 1) * (s + 1) }

//@@ const src/uint.rs | impl<const LIMBS: usize> Uint<LIMBS> | LOG2_BITS
impl<const LIMBS: usize> Uint<LIMBS> {
pub const fn LOG2_BITS() -> (ret__: u32)
{
    u32::BITS - Self::BITS().leading_zeros() - 1
}
}
//@@ end
//@@ fn src/uint/sqrt.rs | impl<const LIMBS: usize> Uint<LIMBS> | sqrt_vartime | body | props C20 C11 C15
impl<const LIMBS: usize> Uint<LIMBS> {
pub const fn sqrt_vartime(&self) -> (ret__: Self)
{
        // Uses Brent & Zimmermann, Modern Computer Arithmetic, v0.5.9, Algorithm 1.13
        if self.cmp_vartime(&Self::ZERO()).is_eq() {
            return Self::ZERO();
        }
        // The initial guess: `x_0 = 2^ceil(b/2)`, where `2^(b-1) <= self < b`.
        // Will not overflow since `b <= BITS`.
        let mut x = Self::ONE()
            .overflowing_shl((self.bits() + 1) >> 1)
            .expect("shift within range"); // ≥ √(`self`)
        // Stop right away if `x` is zero to avoid divizion by zero.
        while !x.cmp_vartime(&Self::ZERO()).is_eq()
{
            // Calculate `x_{i+1} = floor((x_i + self / x_i) / 2)`
            let q = self.wrapping_div_vartime(&x.to_nz().expect("ensured non-zero"));
            let t = x.wrapping_add(&q);
            let next_x = t.shr1();
            // If `next_x` is the same as `x` or greater, we reached convergence
            // (`x` is guaranteed to either go down or oscillate between
            // `sqrt(self)` and `sqrt(self) + 1`)
            if !x.cmp_vartime(&next_x).is_gt() {
                break;
            }
            x = next_x;
        }
        x
    }
}
//@@ end
//@@ fn src/uint/sqrt.rs | impl<const LIMBS: usize> Uint<LIMBS> | sqrt | body | props C20 C11
impl<const LIMBS: usize> Uint<LIMBS> {
pub const fn sqrt(&self) -> (ret__: Self)
{
        // Uses Brent & Zimmermann, Modern Computer Arithmetic, v0.5.9, Algorithm 1.13.
        //
        // See Hast, "Note on computation of integer square roots"
        // for the proof of the sufficiency of the bound on iterations.
        // https://github.com/RustCrypto/crypto-bigint/files/12600669/ct_sqrt.pdf
        // The initial guess: `x_0 = 2^ceil(b/2)`, where `2^(b-1) <= self < b`.
        // Will not overflow since `b <= BITS`.
        let mut x = Self::ONE()
            .overflowing_shl((self.bits() + 1) >> 1)
            .expect("shift within range"); // ≥ √(`self`)
        // Repeat enough times to guarantee result has stabilized.
        let mut i = 0;
        let mut x_prev = x; // keep the previous iteration in case we need to roll back.
        // TODO (#378): the tests indicate that just `Self::LOG2_BITS()` may be enough.
        while i < Self::LOG2_BITS() + 2
{
            x_prev = x;
            // Calculate `x_{i+1} = floor((x_i + self / x_i) / 2)`
            let x_nonzero = x.is_nonzero();
            let (q, _) = self.div_rem(&NonZero(Self::select(&Self::ONE(), &x, x_nonzero)));
            x = Self::select(&Self::ZERO(), &x.wrapping_add(&q).shr1(), x_nonzero);
            i += 1;
        }
        // At this point `x_prev == x_{n}` and `x == x_{n+1}`
        // where `n == i - 1 == LOG2_BITS + 1 == floor(log2(BITS)) + 1`.
        // Thus, according to Hast, `sqrt(self) = min(x_n, x_{n+1})`.
        Self::select(&x_prev, &x, Uint::gt(&x_prev, &x))
    }
}
//@@ end
//@@ fn src/uint/sqrt.rs | impl<const LIMBS: usize> Uint<LIMBS> | wrapping_sqrt | body | props C20 C11
impl<const LIMBS: usize> Uint<LIMBS> {
pub const fn wrapping_sqrt(&self) -> (ret__: Self)
{
        self.sqrt()
    }
}
//@@ end
//@@ fn src/uint/sqrt.rs | impl<const LIMBS: usize> Uint<LIMBS> | wrapping_sqrt_vartime | body | props C20 C11 C15
impl<const LIMBS: usize> Uint<LIMBS> {
pub const fn wrapping_sqrt_vartime(&self) -> (ret__: Self)
{
        self.sqrt_vartime()
    }
}
//@@ end

} // verus!
