// L4: integer square root (src/uint/sqrt.rs) -- C20
use vstd::prelude::*;
use vstd::arithmetic::power::*;
use vstd::arithmetic::power2::*;
use vstd::arithmetic::div_mod::*;
use vstd::std_specs::bits::*;
use crate::speclib::*;
use crate::speclib_bits::*;
use crate::l0_prim::*;
use crate::l1_choice::*;
use crate::l1_limb::*;
use crate::l2_core::*;
use crate::l2_shift::*;
use crate::l3_div_ct::*;
use crate::l3_div_vt::*;
use crate::l3_mul::*;
use crate::l2_subtle::*;
verus! {

//@@ subst \b(Self|Uint)::(ZERO|ONE|MAX|BITS|LOG2_BITS)\b(?!\() => \1::\2()

// ---- core methods without a vstd specification (assumed; same status as the assume_specification items in
// speclib.rs / l0_corespec.rs; they belong in l0_corespec.rs once another unit needs them)
pub assume_specification [core::cmp::Ordering::is_eq] (o: core::cmp::Ordering) -> (r: bool)
    ensures r == (o == core::cmp::Ordering::Equal);
pub assume_specification [core::cmp::Ordering::is_gt] (o: core::cmp::Ordering) -> (r: bool)
    ensures r == (o == core::cmp::Ordering::Greater);

/// s is the integer square root of n
pub open spec fn is_isqrt(n: int, s: int) -> bool { 0 <= s && s * s <= n && n < (s + 1) * (s + 1) }

/// value of `Uint::<LIMBS>::LOG2_BITS` = floor(log2(64·LIMBS))
pub open spec fn log2_bits(limbs: int) -> int { 31 - u32_leading_zeros((64 * limbs) as u32) as int }

/// one (zero-masked) Newton step
spec fn nstep(n: int, x: int) -> int { if x == 0 { 0 } else { (x + n / x) / 2 } }

spec fn isqrt(n: int) -> int { choose|s: int| is_isqrt(n, s) }

/// T_i = 2^(2^i)
spec fn tt(i: nat) -> int { p2(pow2(i)) }

/// potential of the constant-time iteration (error e = x_i - isqrt(n) before round i):
/// either the error is already <= 1 (absorbing), or (e - 2)·T_i <= H with the two explicit start-up rounds.
spec fn sqrt_pot(i: nat, e: int, s: int, h: int, lg: nat) -> bool {
    0 <= e && (e <= 1 || (s >= 2 && i <= lg && (i == 0 ==> 2 * e <= h) && (i == 1 ==> 4 * e <= h + 4) && (i >= 2 ==> (e - 2) * tt(i) <= h)))
}

proof fn lemma_isqrt_unique(n: int, s: int, t: int)
    requires is_isqrt(n, s), is_isqrt(n, t)
    ensures s == t
{
    if s < t { assert((s + 1) * (s + 1) <= t * t) by (nonlinear_arith) requires 0 <= s + 1 <= t; }
    if t < s { assert((t + 1) * (t + 1) <= s * s) by (nonlinear_arith) requires 0 <= t + 1 <= s; }
}

proof fn lemma_isqrt_exists(n: int)
    requires n >= 0
    ensures is_isqrt(n, isqrt(n))
    decreases n
{
    if n == 0 { assert(is_isqrt(0, 0)); }
    else {
        lemma_isqrt_exists(n - 1);
        let s = isqrt(n - 1);
        if (s + 1) * (s + 1) <= n {
            assert((s + 1) * (s + 1) < (s + 2) * (s + 2)) by (nonlinear_arith) requires s >= 0;
            assert(is_isqrt(n, s + 1));
        } else {
            assert(is_isqrt(n, s));
        }
    }
}

/// AM-GM: one Newton step from any y >= 1 lands strictly above sqrt(n) - 1
proof fn lemma_newton_above(n: int, y: int)
    requires y >= 1, n >= 0
    ensures ((y + n / y) / 2 + 1) * ((y + n / y) / 2 + 1) > n, n / y >= 0
{
    let q = n / y;
    lemma_fundamental_div_mod(n, y); lemma_mod_bound(n, y);
    assert(y * q == q * y) by (nonlinear_arith);
    assert(n < (q + 1) * y) by (nonlinear_arith) requires n == q * y + n % y, n % y < y;
    let z = (y + q) / 2;
    lemma_fundamental_div_mod(y + q, 2);
    assert(2 * (z + 1) >= y + q + 1);
    assert((y + q + 1) * (y + q + 1) >= 4 * (y * (q + 1))) by (nonlinear_arith);
    assert(q >= 0) by { lemma_div_pos_is_pos(n, y); }
    assert((2 * (z + 1)) * (2 * (z + 1)) >= (y + q + 1) * (y + q + 1)) by (nonlinear_arith) requires 2 * (z + 1) >= y + q + 1, y + q + 1 >= 0;
    assert((2 * (z + 1)) * (2 * (z + 1)) == 4 * ((z + 1) * (z + 1))) by (nonlinear_arith);
    assert((q + 1) * y == y * (q + 1)) by (nonlinear_arith);
    assert((z + 1) * (z + 1) > n);
}

/// Newton step from above stays above: y >= 1  ==>  (y + n/y)/2 >= isqrt(n)
proof fn lemma_newton_ge(n: int, s: int, y: int)
    requires is_isqrt(n, s), y >= 1, n >= 0
    ensures (y + n / y) / 2 >= s
{
    lemma_newton_above(n, y);
    let z = (y + n / y) / 2;
    if z + 1 <= s {
        lemma_div_pos_is_pos(n, y);
        assert((z + 1) * (z + 1) <= s * s) by (nonlinear_arith) requires 0 <= z + 1 <= s;
    }
}

/// fix-point test: y >= 1 and next >= y  ==>  y*y <= n
proof fn lemma_newton_fix(n: int, y: int)
    requires y >= 1, n >= 0, (y + n / y) / 2 >= y
    ensures y * y <= n
{
    let q = n / y;
    lemma_fundamental_div_mod(n, y); lemma_mod_bound(n, y);
    lemma_fundamental_div_mod(y + q, 2);
    assert(q >= y);
    assert(y * q == q * y) by (nonlinear_arith);
    assert(q * y >= y * y) by (nonlinear_arith) requires q >= y, y >= 1;
}

/// combined: y >= s, y >= 1, next >= y  ==>  y == s
proof fn lemma_newton_stop(n: int, s: int, y: int)
    requires is_isqrt(n, s), y >= 1, y >= s, n >= 0, (y + n / y) / 2 >= y
    ensures y == s
{
    lemma_newton_fix(n, y);
    if y > s { assert((s + 1) * (s + 1) <= y * y) by (nonlinear_arith) requires 0 <= s + 1 <= y; }
}

/// strict descent otherwise: y > s  ==>  next < y
proof fn lemma_newton_descends(n: int, s: int, y: int)
    requires is_isqrt(n, s), y > s, n >= 0
    ensures (y + n / y) / 2 < y
{
    if (y + n / y) / 2 >= y { lemma_newton_stop(n, s, y); }
}

/// from s itself the next value is s or s+1 (oscillation)
proof fn lemma_newton_from_s(n: int, s: int)
    requires is_isqrt(n, s), s >= 1
    ensures s <= (s + n / s) / 2 <= s + 1
{
    lemma_newton_ge(n, s, s);
    let q = n / s;
    lemma_fundamental_div_mod(n, s); lemma_mod_bound(n, s);
    assert(s * q == q * s) by (nonlinear_arith);
    assert((s + 1) * (s + 1) == s * s + 2 * s + 1) by (nonlinear_arith);
    assert(q <= s + 2) by (nonlinear_arith) requires q * s <= n, n < s * s + 2 * s + 1, s >= 1;
    lemma_fundamental_div_mod(s + q, 2);
}

/// (*) error recurrence: x = s + e, x' = (x + n/x)/2 = s + e'  ==>  2(s+e)e' <= e^2 + 2s
proof fn lemma_newton_error(n: int, s: int, x: int)
    requires is_isqrt(n, s), x >= 1, x >= s, n >= 0
    ensures 2 * x * ((x + n / x) / 2 - s) <= (x - s) * (x - s) + 2 * s
{
    let q = n / x; let xn = (x + q) / 2;
    lemma_fundamental_div_mod(n, x); lemma_mod_bound(n, x);
    lemma_fundamental_div_mod(x + q, 2);
    assert(x * q == q * x) by (nonlinear_arith);
    assert(q * x <= n);
    assert(2 * xn <= x + q);
    assert(2 * x * xn <= x * x + q * x) by (nonlinear_arith) requires 2 * xn <= x + q, x >= 1;
    assert((s + 1) * (s + 1) == s * s + 2 * s + 1) by (nonlinear_arith);
    assert(2 * x * (xn - s) == 2 * x * xn - 2 * x * s) by (nonlinear_arith);
    assert((x - s) * (x - s) == x * x - 2 * x * s + s * s) by (nonlinear_arith);
}

/// endgame: e <= 3 and s >= 2 ==> e' <= 1
proof fn lemma_newton_endgame(n: int, s: int, x: int)
    requires is_isqrt(n, s), x >= s, s >= 2, n >= 0, x - s <= 3
    ensures 0 <= (x + n / x) / 2 - s <= 1
{
    lemma_newton_error(n, s, x);
    lemma_newton_ge(n, s, x);
    let e = x - s; let ep = (x + n / x) / 2 - s;
    assert(e * e <= 9) by (nonlinear_arith) requires 0 <= e <= 3;
    assert(ep <= 1) by (nonlinear_arith) requires 2 * x * ep <= e * e + 2 * s, e * e <= 9, x == s + e, s >= 2, e >= 0, ep >= 0;
}

/// the pair {s, s+1} is absorbing, and from s+1 the step goes to s  (zero-masked step; covers n == 0)
proof fn lemma_nstep_stay(n: int, s: int, x: int)
    requires is_isqrt(n, s), n >= 0, s <= x <= s + 1
    ensures s <= nstep(n, x) <= s + 1, x == s + 1 ==> nstep(n, x) == s
{
    if s == 0 {
        assert((s + 1) * (s + 1) == 1) by (nonlinear_arith) requires s == 0;
        assert(n == 0);
        if x == 1 { assert(0int / 1 == 0); }
    } else if x == s {
        lemma_newton_from_s(n, s);
    } else {
        lemma_newton_descends(n, s, x);
        lemma_newton_ge(n, s, x);
    }
}

/// quotient bound that keeps `x + n/x` inside the width: (x+1)^2 > n  ==>  n/x <= x + 2
proof fn lemma_q_bound(n: int, x: int)
    requires x >= 1, n >= 0, (x + 1) * (x + 1) > n
    ensures 0 <= n / x <= x + 2
{
    let q = n / x;
    lemma_fundamental_div_mod(n, x); lemma_mod_bound(n, x);
    lemma_div_pos_is_pos(n, x);
    assert(x * q == q * x) by (nonlinear_arith);
    assert((x + 1) * (x + 1) == x * x + 2 * x + 1) by (nonlinear_arith);
    assert(q <= x + 2) by (nonlinear_arith) requires q * x <= n, n < x * x + 2 * x + 1, x >= 1;
}

/// H·(e' - 1) <= e^2 for any H <= 2s   (from (*))
proof fn lemma_err_h(n: int, s: int, h: int, x: int)
    requires is_isqrt(n, s), x >= 1, x >= s, n >= 0, 0 < h <= 2 * s
    ensures ((x + n / x) / 2 - s - 1) * h <= (x - s) * (x - s), (x + n / x) / 2 >= s
{
    lemma_newton_error(n, s, x);
    lemma_newton_ge(n, s, x);
    let e = x - s; let ep = (x + n / x) / 2 - s;
    assert(2 * s * (ep - 1) <= e * e) by (nonlinear_arith) requires 2 * x * ep <= e * e + 2 * s, x == s + e, e >= 0, ep >= 0;
    assert(e * e >= 0) by (nonlinear_arith);
    if ep >= 1 {
        assert((ep - 1) * h <= 2 * s * (ep - 1)) by (nonlinear_arith) requires ep - 1 >= 0, h <= 2 * s;
    } else {
        assert((ep - 1) * h <= 0) by (nonlinear_arith) requires ep - 1 <= 0, h > 0;
    }
}

/// start-up round 0: 2e <= H  ==>  4e' <= H + 4
proof fn lemma_pot0(e: int, ep: int, h: int)
    requires 0 <= e, 2 * e <= h, (ep - 1) * h <= e * e, h > 0
    ensures 4 * ep <= h + 4
{
    assert(4 * (e * e) <= h * h) by (nonlinear_arith) requires 0 <= 2 * e <= h;
    assert((4 * (ep - 1)) * h <= h * h) by (nonlinear_arith) requires (ep - 1) * h <= e * e, 4 * (e * e) <= h * h;
    if 4 * (ep - 1) > h { assert((4 * (ep - 1)) * h > h * h) by (nonlinear_arith) requires 4 * (ep - 1) > h, h > 0; }
}

/// start-up round 1: 4e <= H + 4  ==>  (e' - 2)·16 <= H
proof fn lemma_pot1(e: int, ep: int, h: int)
    requires 0 <= e, 4 * e <= h + 4, (ep - 1) * h <= e * e, h >= 2
    ensures (ep - 2) * 16 <= h
{
    assert(16 * (e * e) <= (h + 4) * (h + 4)) by (nonlinear_arith) requires 0 <= 4 * e <= h + 4;
    assert((h + 4) * (h + 4) == h * h + 8 * h + 16) by (nonlinear_arith);
    assert(16 * ((ep - 1) * h) <= h * h + 8 * h + 16);
    assert(16 * ((ep - 1) * h) == (16 * (ep - 2)) * h + 16 * h) by (nonlinear_arith);
    assert((16 * (ep - 2)) * h <= h * h);
    if 16 * (ep - 2) > h { assert((16 * (ep - 2)) * h > h * h) by (nonlinear_arith) requires 16 * (ep - 2) > h, h > 0; }
}

/// quadratic round: (e - 2)·T <= H  ==>  (e' - 2)·T^2 <= H      (T >= 8, H >= 8: 4/T + 4/H <= 1)
proof fn lemma_pot_sq(e: int, ep: int, h: int, t: int)
    requires 0 <= e, (e - 2) * t <= h, (ep - 1) * h <= e * e, h >= 8, t >= 8
    ensures (ep - 2) * (t * t) <= h
{
    let et = e * t;
    assert((e - 2) * t == et - 2 * t) by (nonlinear_arith) requires et == e * t;
    assert(0 <= et) by (nonlinear_arith) requires et == e * t, e >= 0, t >= 8;
    let m = 2 * t + h;
    assert(et * et <= m * m) by (nonlinear_arith) requires 0 <= et <= m;
    assert(m * m == 4 * (t * t) + 4 * (t * h) + h * h) by (nonlinear_arith) requires m == 2 * t + h;
    let tt_ = t * t;
    assert(tt_ >= 0) by (nonlinear_arith) requires tt_ == t * t;
    assert(et * et == (e * e) * tt_) by (nonlinear_arith) requires et == e * t, tt_ == t * t;
    assert(((ep - 1) * h) * tt_ <= (e * e) * tt_) by (nonlinear_arith) requires (ep - 1) * h <= e * e, tt_ >= 0;
    // 4T^2 + 4TH <= H T^2
    assert(8 * tt_ <= h * tt_) by (nonlinear_arith) requires h >= 8, tt_ >= 0;
    let th = t * h;
    assert(8 * th <= h * tt_) by (nonlinear_arith) requires th == t * h, tt_ == t * t, t >= 8, h >= 8;
    assert(4 * tt_ + 4 * th <= h * tt_);
    let g = (ep - 2) * tt_;
    assert(((ep - 1) * h) * tt_ == g * h + h * tt_) by (nonlinear_arith) requires g == (ep - 2) * tt_;
    assert(g * h <= h * h);
    if g > h { assert(g * h > h * h) by (nonlinear_arith) requires g > h, h > 0; }
}

proof fn lemma_tt(i: nat)
    ensures tt(i + 1) == tt(i) * tt(i), tt(0) == 2, tt(1) == 4, tt(2) == 16, tt(i) >= 2, i >= 2 ==> tt(i) >= 16
    decreases i
{
    lemma2_to64();
    lemma_pow2_unfold(i + 1);
    lemma_pow2_adds(pow2(i), pow2(i));
    assert(pow2(1) == 2 && pow2(2) == 4 && pow2(0) == 1 && pow2(4) == 16);
    if i > 0 {
        lemma_tt((i - 1) as nat);
        assert(tt(i) == tt((i - 1) as nat) * tt((i - 1) as nat));
        let a = tt((i - 1) as nat);
        assert(a * a >= 2) by (nonlinear_arith) requires a >= 2;
        if i >= 3 { assert(a * a >= 16) by (nonlinear_arith) requires a >= 16; }
        if i == 2 { assert(tt(1) == 4); assert(a * a == 16) by (nonlinear_arith) requires a == 4; }
    }
}

/// T_i > 2^k as soon as 2^i > k
proof fn lemma_tt_big(i: nat, lg: nat, k: nat)
    requires i >= lg, k < pow2(lg)
    ensures tt(i) >= 2 * p2(k)
{
    if i > lg { lemma_pow2_strictly_increases(lg, i); }
    assert(pow2(i) >= k + 1);
    if pow2(i) > k + 1 { lemma_pow2_strictly_increases(k + 1, pow2(i)); }
    lemma_pow2_unfold(k + 1);
}

/// the iterates stay in [s, H]
proof fn lemma_nstep_range(n: int, s: int, h: int, x: int)
    requires is_isqrt(n, s), n >= 0, s < h, s <= x <= h
    ensures s <= nstep(n, x) <= h
{
    if x <= s + 1 { lemma_nstep_stay(n, s, x); }
    else { lemma_newton_descends(n, s, x); lemma_newton_ge(n, s, x); }
}

/// one round of the constant-time iteration preserves the potential
proof fn lemma_pot_step(n: int, s: int, h: int, lg: nat, i: nat, x: int)
    requires is_isqrt(n, s), n >= 0, h >= 1, n >= 1 ==> h <= 2 * s, s < h, s <= x <= h, tt(lg) >= 2 * h, lg >= 2,
        sqrt_pot(i, x - s, s, h, lg)
    ensures sqrt_pot(i + 1, nstep(n, x) - s, s, h, lg), s <= nstep(n, x) <= h
{
    let e = x - s; let xn = nstep(n, x); let en = xn - s;
    lemma_nstep_range(n, s, h, x);
    if e <= 1 {
        lemma_nstep_stay(n, s, x);
    } else {
        assert(s >= 2 && x >= 1);
        assert(n >= 1) by { assert(s * s >= 1) by (nonlinear_arith) requires s >= 2; }
        lemma_newton_ge(n, s, x);
        if e <= 3 {
            lemma_newton_endgame(n, s, x);
        } else {
            lemma_err_h(n, s, h, x);
            lemma_tt(i);
            if i == 0 {
                lemma_pot0(e, en, h);
            } else if i == 1 {
                lemma_pot1(e, en, h);
            } else {
                let t = tt(i);
                assert(2 * t <= (e - 2) * t) by (nonlinear_arith) requires e >= 4, t >= 16;
                if i == lg { assert(false); }
                lemma_pot_sq(e, en, h, t);
            }
        }
    }
}

/// initial guess H = 2^ceil(bits/2): fits the width with 3 bits to spare, H^2 > n, (H/2)^2 <= n
proof fn lemma_sqrt_init(n: int, b: nat, k: nat, limbs: nat)
    requires n >= 0, n < p2(b), b > 0 ==> n >= p2((b - 1) as nat), b == 0 ==> n == 0, k == (b + 1) / 2, b <= 64 * limbs, limbs >= 1
    ensures k + 3 <= 64 * limbs, k <= 32 * limbs, 8 * p2(k) <= bp(limbs), p2(k) >= 1, p2(k) * p2(k) > n,
        n >= 1 ==> k >= 1 && p2(k) == 2 * p2((k - 1) as nat) && p2((k - 1) as nat) * p2((k - 1) as nat) <= n
{
    lemma_bp_pow2(limbs);
    lemma_pow2_pos(k);
    lemma2_to64();
    lemma_pow2_adds(k, 3);
    if k + 3 < 64 * limbs { lemma_pow2_strictly_increases(k + 3, 64 * limbs); }
    lemma_pow2_adds(k, k);
    if b < 2 * k { lemma_pow2_strictly_increases(b, 2 * k); }
    if n >= 1 {
        assert(b >= 1);
        let k1 = (k - 1) as nat;
        lemma_pow2_unfold(k);
        lemma_pow2_adds(k1, k1);
        if 2 * k1 < b - 1 { lemma_pow2_strictly_increases(2 * k1, (b - 1) as nat); }
    }
}

/// what the callers need to know about the initial guess x_0 = 1 << ((bits + 1) >> 1)
spec fn sqrt_init_a(n: int, b: nat, limbs: nat) -> bool {
    let k = (b + 1) / 2; let h = p2(k);
    k < 64 * limbs && 8 * h <= bp(limbs) && h >= 1 && (1 * h) % bp(limbs) == h && h * h > n && (h + 1) * (h + 1) > n
        && (n == 0 ==> h == 1)
}
spec fn sqrt_init_b(n: int, b: nat, lg: nat) -> bool {
    let k = (b + 1) / 2; let h = p2(k);
    isqrt(n) < h && (n >= 1 ==> h <= 2 * isqrt(n)) && tt(lg) >= 2 * h
}
spec fn bits_post(n: int, b: nat, limbs: nat) -> bool {
    b <= 64 * limbs && (b == 0) == (n == 0) && n < p2(b) && (b > 0 ==> n >= p2((b - 1) as nat))
}

proof fn lemma_sqrt_init_a(n: int, b: nat, limbs: nat)
    requires n >= 0, limbs >= 1, bits_post(n, b, limbs)
    ensures sqrt_init_a(n, b, limbs)
{
    let k = (b + 1) / 2; let h = p2(k);
    lemma_sqrt_init(n, b, k, limbs);
    assert(1 * h == h);
    lemma_small_mod(h as nat, bp(limbs) as nat);
    assert((h + 1) * (h + 1) > h * h) by (nonlinear_arith) requires h >= 1;
    if n == 0 { assert(k == 0); lemma2_to64(); }
}

proof fn lemma_log2_bits(limbs: int)
    requires 1 <= limbs < 0x400_0000
    ensures 6 <= log2_bits(limbs) <= 31, pow2(log2_bits(limbs) as nat) <= 64 * limbs < pow2((log2_bits(limbs) + 1) as nat)
{
    lemma_lz32((64 * limbs) as u32);
    let lz = u32_leading_zeros((64 * limbs) as u32);
    lemma2_to64();
    if lz > 25 { lemma_pow2_strictly_increases((32 - lz) as nat, 7); }
}

proof fn lemma_sqrt_init_b(n: int, b: nat, limbs: nat, lg: nat)
    requires n >= 0, limbs >= 1, bits_post(n, b, limbs), 64 * limbs < pow2(lg + 1)
    ensures sqrt_init_b(n, b, lg)
{
    let k = (b + 1) / 2; let h = p2(k); let s = isqrt(n);
    lemma_sqrt_init(n, b, k, limbs);
    lemma_isqrt_exists(n);
    if s >= h { assert(s * s >= h * h) by (nonlinear_arith) requires s >= h, h >= 1; }
    if n >= 1 {
        let h1 = p2((k - 1) as nat);
        if h1 > s { assert(h1 * h1 >= (s + 1) * (s + 1)) by (nonlinear_arith) requires h1 >= s + 1, s >= 0; }
    }
    lemma_pow2_unfold(lg + 1);
    assert(k < pow2(lg));
    lemma_tt_big(lg, lg, k);
}

/// bridge from the potential at round LOG2_BITS + 1 to the result: min(x_prev, x) is the root
proof fn lemma_sqrt_final(n: int, s: int, h: int, lg: nat, xp: int, x: int)
    requires is_isqrt(n, s), n >= 0, s <= xp, sqrt_pot(lg + 1, xp - s, s, h, lg), x == nstep(n, xp)
    ensures (if xp > x { x } else { xp }) == s
{
    lemma_nstep_stay(n, s, xp);
}

//@@ const src/uint.rs | impl<const LIMBS: usize> Uint<LIMBS> | LOG2_BITS
impl<const LIMBS: usize> Uint<LIMBS> {
pub const fn LOG2_BITS() -> (ret__: u32)
//@+
    requires 1 <= LIMBS < 0x400_0000
    ensures ret__ as int == log2_bits(LIMBS as int), 6 <= ret__ <= 31,
        pow2(ret__ as nat) <= 64 * LIMBS < pow2((ret__ + 1) as nat)
//@-
{
//@+
    proof { lemma_log2_bits(LIMBS as int); lemma_lz32((64 * LIMBS) as u32); }
//@-
    u32::BITS - Self::BITS().leading_zeros() - 1
}
}
//@@ end
//@@ fn src/uint/sqrt.rs | impl<const LIMBS: usize> Uint<LIMBS> | sqrt_vartime | body | props C20 C11 C15
impl<const LIMBS: usize> Uint<LIMBS> {
pub const fn sqrt_vartime(&self) -> (ret__: Self)
//@+
    requires 1 <= LIMBS < 0x400_0000
    ensures is_isqrt(self.v(), ret__.v())
//@-
{
//@+
    let ghost n = self.v();
    proof { lemma_val_bound(self.limbs@, LIMBS as nat); }
    assert forall|y: u32| #[trigger] (y >> 1) == y / 2 by { assert(y >> 1 == y / 2) by (bit_vector); }
    assert forall|b: u32| #![trigger p2(b as nat)] bits_post(n, b as nat, LIMBS as nat) implies sqrt_init_a(n, b as nat, LIMBS as nat) by { lemma_sqrt_init_a(n, b as nat, LIMBS as nat); }
//@-
        // Uses Brent & Zimmermann, Modern Computer Arithmetic, v0.5.9, Algorithm 1.13
        if self.cmp_vartime(&Self::ZERO()).is_eq() {
            return Self::ZERO();
        }
        // The initial guess: `x_0 = 2^ceil(b/2)`, where `2^(b-1) <= self < b`.
        // Will not overflow since `b <= BITS`.
        let mut x = Self::ONE()
            .overflowing_shl((self.bits() + 1) >> 1)
            .expect("shift within range"); // ≥ √(`self`)
//@+
    assert(x.v() >= 1 && (x.v() + 1) * (x.v() + 1) > n && 2 * x.v() + 2 < bp(LIMBS as nat));
//@-
        // Stop right away if `x` is zero to avoid divizion by zero.
        while !x.cmp_vartime(&Self::ZERO()).is_eq()
//@+
    invariant 1 <= LIMBS < 0x400_0000, n == self.v(), n >= 1, (x.v() + 1) * (x.v() + 1) > n, 2 * x.v() + 2 < bp(LIMBS as nat),
    ensures is_isqrt(n, x.v()),
    decreases x.v(),
//@-
{
            // Calculate `x_{i+1} = floor((x_i + self / x_i) / 2)`
            let q = self.wrapping_div_vartime(&x.to_nz().expect("ensured non-zero"));
            let t = x.wrapping_add(&q);
            let next_x = t.shr1();
//@+
    proof {
        let xv = x.v();
        lemma_val_bound(x.limbs@, LIMBS as nat);
        lemma_q_bound(n, xv);
        lemma_small_mod((xv + n / xv) as nat, bp(LIMBS as nat) as nat);
        assert(next_x.v() == (xv + n / xv) / 2);
        if next_x.v() >= xv { lemma_newton_fix(n, xv); } else { lemma_newton_above(n, xv); }
    }
//@-
            // If `next_x` is the same as `x` or greater, we reached convergence
            // (`x` is guaranteed to either go down or oscillate between
            // `sqrt(self)` and `sqrt(self) + 1`)
            if !x.cmp_vartime(&next_x).is_gt() {
                break;
            }
            x = next_x;
        }
        x
    }
}
//@@ end
//@@ fn src/uint/sqrt.rs | impl<const LIMBS: usize> Uint<LIMBS> | sqrt | body | props C20 C11
impl<const LIMBS: usize> Uint<LIMBS> {
pub const fn sqrt(&self) -> (ret__: Self)
//@+
    requires 1 <= LIMBS < 0x400_0000
    ensures is_isqrt(self.v(), ret__.v())
//@-
{
//@+
    let ghost n = self.v();
    let ghost s = isqrt(n);
    let ghost lg = log2_bits(LIMBS as int) as nat;
    proof { lemma_val_bound(self.limbs@, LIMBS as nat); lemma_isqrt_exists(n); lemma_log2_bits(LIMBS as int); }
    assert forall|y: u32| #[trigger] (y >> 1) == y / 2 by { assert(y >> 1 == y / 2) by (bit_vector); }
    assert forall|b: u32| #![trigger p2(b as nat)] bits_post(n, b as nat, LIMBS as nat) implies sqrt_init_a(n, b as nat, LIMBS as nat) && sqrt_init_b(n, b as nat, lg) by {
        lemma_sqrt_init_a(n, b as nat, LIMBS as nat); lemma_sqrt_init_b(n, b as nat, LIMBS as nat, lg);
    }
//@-
        // Uses Brent & Zimmermann, Modern Computer Arithmetic, v0.5.9, Algorithm 1.13.
        //
        // See Hast, "Note on computation of integer square roots"
        // for the proof of the sufficiency of the bound on iterations.
        // https://github.com/RustCrypto/crypto-bigint/files/12600669/ct_sqrt.pdf
        // The initial guess: `x_0 = 2^ceil(b/2)`, where `2^(b-1) <= self < b`.
        // Will not overflow since `b <= BITS`.
        let mut x = Self::ONE()
            .overflowing_shl((self.bits() + 1) >> 1)
            .expect("shift within range"); // ≥ √(`self`)
//@+
    let ghost h = x.v();
    assert(h >= 1 && 8 * h <= bp(LIMBS as nat) && s < h && (n >= 1 ==> h <= 2 * s) && tt(lg) >= 2 * h && (n == 0 ==> h == 1));
    assert(sqrt_pot(0, h - s, s, h, lg));
//@-
        // Repeat enough times to guarantee result has stabilized.
        let mut i = 0;
        let mut x_prev = x; // keep the previous iteration in case we need to roll back.
        // TODO (#378): the tests indicate that just `Self::LOG2_BITS()` may be enough.
        while i < Self::LOG2_BITS() + 2
//@+
    invariant 1 <= LIMBS < 0x400_0000, n == self.v(), n >= 0, is_isqrt(n, s), lg == log2_bits(LIMBS as int), 6 <= lg <= 31,
        h >= 1, 8 * h <= bp(LIMBS as nat), s < h, n >= 1 ==> h <= 2 * s, tt(lg) >= 2 * h,
        i <= lg + 2, s <= x.v() <= h, sqrt_pot(i as nat, x.v() - s, s, h, lg),
        i >= 1 ==> s <= x_prev.v() <= h && sqrt_pot((i - 1) as nat, x_prev.v() - s, s, h, lg) && x.v() == nstep(n, x_prev.v()),
    decreases lg + 2 - i,
//@-
{
//@+
    let ghost xv = x.v();
//@-
            x_prev = x;
            // Calculate `x_{i+1} = floor((x_i + self / x_i) / 2)`
            let x_nonzero = x.is_nonzero();
            let (q, _) = self.div_rem(&NonZero(Self::select(&Self::ONE(), &x, x_nonzero)));
            x = Self::select(&Self::ZERO(), &x.wrapping_add(&q).shr1(), x_nonzero);
//@+
    proof {
        if xv != 0 {
            assert((xv + 1) * (xv + 1) > n) by (nonlinear_arith) requires xv >= s, s >= 0, (s + 1) * (s + 1) > n;
            lemma_q_bound(n, xv);
            lemma_small_mod((xv + n / xv) as nat, bp(LIMBS as nat) as nat);
        }
        assert(x.v() == nstep(n, xv));
        lemma_pot_step(n, s, h, lg, i as nat, xv);
    }
//@-
            i += 1;
        }
        // At this point `x_prev == x_{n}` and `x == x_{n+1}`
        // where `n == i - 1 == LOG2_BITS + 1 == floor(log2(BITS)) + 1`.
        // Thus, according to Hast, `sqrt(self) = min(x_n, x_{n+1})`.
//@+
    proof { lemma_sqrt_final(n, s, h, lg, x_prev.v(), x.v()); }
//@-
        Self::select(&x_prev, &x, Uint::gt(&x_prev, &x))
    }
}
//@@ end
//@@ fn src/uint/sqrt.rs | impl<const LIMBS: usize> Uint<LIMBS> | wrapping_sqrt | body | props C20 C11
impl<const LIMBS: usize> Uint<LIMBS> {
pub const fn wrapping_sqrt(&self) -> (ret__: Self)
//@+
    requires 1 <= LIMBS < 0x400_0000
    ensures is_isqrt(self.v(), ret__.v())
//@-
{
        self.sqrt()
    }
}
//@@ end
//@@ fn src/uint/sqrt.rs | impl<const LIMBS: usize> Uint<LIMBS> | wrapping_sqrt_vartime | body | props C20 C11 C15
impl<const LIMBS: usize> Uint<LIMBS> {
pub const fn wrapping_sqrt_vartime(&self) -> (ret__: Self)
//@+
    requires 1 <= LIMBS < 0x400_0000
    ensures is_isqrt(self.v(), ret__.v())
//@-
{
        self.sqrt_vartime()
    }
}
//@@ end
//@@ fn src/uint/sqrt.rs | impl<const LIMBS: usize> Uint<LIMBS> | checked_sqrt | body | props C20 C11
impl<const LIMBS: usize> Uint<LIMBS> {
pub fn checked_sqrt(&self) -> (ret__: CtOption<Self>)
//@+
    requires 1 <= LIMBS < 0x400_0000
    ensures is_isqrt(self.v(), ret__.value.v()), ret__.is_some.wf(),
        ret__.is_some.t() == (ret__.value.v() * ret__.value.v() == self.v())
//@-
{
        let r = self.sqrt();
        let s = r.wrapping_mul(&r);
//@+
    proof {
        lemma_val_bound(self.limbs@, LIMBS as nat);
        lemma_small_mod((r.v() * r.v()) as nat, bp(LIMBS as nat) as nat);
    }
//@-
        CtOption::new(r, ConstantTimeEq::ct_eq(self, &s))
    }
}
//@@ end
//@@ fn src/uint/sqrt.rs | impl<const LIMBS: usize> Uint<LIMBS> | checked_sqrt_vartime | body | props C20 C11 C15
impl<const LIMBS: usize> Uint<LIMBS> {
pub fn checked_sqrt_vartime(&self) -> (ret__: CtOption<Self>)
//@+
    requires 1 <= LIMBS < 0x400_0000
    ensures is_isqrt(self.v(), ret__.value.v()), ret__.is_some.wf(),
        ret__.is_some.t() == (ret__.value.v() * ret__.value.v() == self.v())
//@-
{
        let r = self.sqrt_vartime();
        let s = r.wrapping_mul(&r);
//@+
    proof {
        lemma_val_bound(self.limbs@, LIMBS as nat);
        lemma_small_mod((r.v() * r.v()) as nat, bp(LIMBS as nat) as nat);
    }
//@-
        CtOption::new(r, ConstantTimeEq::ct_eq(self, &s))
    }
}
//@@ end

} // verus!
