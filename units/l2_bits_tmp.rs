// L2 (tmp, to be merged into l2_shift): Uint bit queries (src/uint/bits.rs) -- C05
use vstd::prelude::*;
use vstd::arithmetic::power::*;
use vstd::arithmetic::power2::*;
use vstd::arithmetic::div_mod::*;
use crate::speclib::*;
use crate::speclib_bits::*;
use crate::l0_prim::*;
use crate::l1_choice::*;
use crate::l1_limb::*;
use crate::l2_core::*;
verus! {

//@@ subst \b(Self|Uint)::(ZERO|ONE|MAX|BITS|LOG2_BITS)\b(?!\() => \1::\2()
//@@ subst \bUint::<(\w+)>::(ZERO|ONE|MAX|BITS)\b(?!\() => Uint::<\1>::\2()

// ---- private lemmas for the bit queries -------------------------------------------------------
/// value of the limbs m..n, divided by B^m
spec fn vhi(s: Seq<Limb>, m: nat, n: nat) -> int
    decreases n
{ if n <= m { 0 } else { vhi(s, m, (n - 1) as nat) + s[n - 1].0 as int * bp((n - 1 - m) as nat) } }

proof fn lemma_val_split_hi(s: Seq<Limb>, m: nat, n: nat)
    requires m <= n
    ensures val(s, n) == val(s, m) + vhi(s, m, n) * bp(m), vhi(s, m, n) >= 0
    decreases n
{
    if n > m {
        let n1 = (n - 1) as nat;
        lemma_val_split_hi(s, m, n1);
        lemma_bp_add(m, (n1 - m) as nat);
        lemma_bp_succ((n1 - m) as nat);
        let a = s[n1 as int].0 as int; let q = bp((n1 - m) as nat); let h = vhi(s, m, n1); let pm = bp(m);
        assert((m + (n1 - m)) as nat == n1);
        assert((h + a * q) * pm == h * pm + a * (pm * q)) by (nonlinear_arith);
        assert(a * q >= 0) by (nonlinear_arith) requires a >= 0, q > 0;
    } else {
        assert(vhi(s, m, n) * bp(m) == 0) by (nonlinear_arith) requires vhi(s, m, n) == 0;
    }
}

/// val(s, n) = val(s, j) + (s[j] + h*B) * B^j  with h >= 0
proof fn lemma_val_at(s: Seq<Limb>, j: nat, n: nat) -> (h: int)
    requires j < n
    ensures h >= 0, val(s, n) == val(s, j) + (s[j as int].0 as int + h * B()) * bp(j)
{
    let h = vhi(s, j + 1, n);
    lemma_val_split_hi(s, j + 1, n);
    lemma_bp_succ(j);
    let a = s[j as int].0 as int; let p = bp(j);
    assert(val(s, j + 1) == val(s, j) + a * p);
    assert((a + h * B()) * p == a * p + h * (B() * p)) by (nonlinear_arith);
    h
}

/// bit e+r of  l + (a + h*2^64) * 2^e  is bit r of a   (0 <= l < 2^e, r < 64)
proof fn lemma_bit_of_sum(l: int, a: int, h: int, e: nat, r: nat)
    requires 0 <= l < p2(e), a >= 0, h >= 0, r < 64
    ensures ((l + (a + h * B()) * p2(e)) / p2(e + r)) % 2 == (a / p2(r)) % 2
{
    let pe = p2(e); let pr = p2(r);
    let w = a + h * B();
    let v = l + w * pe;
    lemma_pow2_pos(e); lemma_pow2_pos(r); lemma_pow2_adds(e, r);
    assert(w >= 0) by (nonlinear_arith) requires a >= 0, h >= 0, w == a + h * B(), B() > 0;
    assert(w * pe >= 0) by (nonlinear_arith) requires w >= 0, pe > 0;
    lemma_div_denominator(v, pe, pr);
    lemma_fundamental_div_mod_converse(v, pe, w, l);
    assert(v / pe == w);
    // w / 2^r == a / 2^r + h * 2^(64-r)
    let k = p2((64 - r) as nat);
    lemma_pow2_adds(r, (64 - r) as nat); lemma_pow2_64();
    assert(pr * k == B());
    let q = a / pr; let m = a % pr;
    lemma_fundamental_div_mod(a, pr); lemma_mod_bound(a, pr);
    assert(w == (q + h * k) * pr + m) by (nonlinear_arith) requires w == a + h * B(), a == pr * q + m, pr * k == B();
    lemma_fundamental_div_mod_converse(w, pr, q + h * k, m);
    assert(w / pr == q + h * k);
    // 2^(64-r) is even
    let k2 = p2((63 - r) as nat);
    lemma_pow2_adds(1, (63 - r) as nat);
    assert(k == 2 * k2);
    assert(q + h * k == 2 * (h * k2) + q) by (nonlinear_arith) requires k == 2 * k2;
    lemma_mod_multiples_vanish(h * k2, q, 2);
    assert(v / p2(e + r) == (v / pe) / pr);
}

/// bit 64j+r of val(s, n) is bit r of limb j
proof fn lemma_val_bit(s: Seq<Limb>, n: nat, j: nat, r: nat)
    requires j < n, r < 64
    ensures (val(s, n) / p2(64 * j + r)) % 2 == (s[j as int].0 as int / p2(r)) % 2
{
    let h = lemma_val_at(s, j, n);
    lemma_val_bound(s, j); lemma_bp_pow2(j);
    lemma_bit_of_sum(val(s, j), s[j as int].0 as int, h, 64 * j, r);
}

/// (a + h*2^64) * 2^e is a multiple of 2^(e+z) when 2^z | a  (z <= 64)
proof fn lemma_mult_of_sum(a: int, h: int, e: nat, z: nat)
    requires z <= 64, a % p2(z) == 0
    ensures ((a + h * B()) * p2(e)) % p2(e + z) == 0
{
    let pz = p2(z); let pe = p2(e); let k = p2((64 - z) as nat); let pez = p2(e + z);
    lemma_pow2_pos(z); lemma_pow2_pos(e); lemma_pow2_pos(e + z);
    lemma_pow2_adds(e, z); lemma_pow2_adds(z, (64 - z) as nat); lemma_pow2_64();
    lemma_fundamental_div_mod(a, pz);
    let q = a / pz;
    assert((a + h * B()) * pe == (q + h * k) * pez) by (nonlinear_arith) requires a == pz * q, pz * k == B(), pez == pe * pz;
    lemma_mod_multiples_basic(q + h * k, pez);
}

/// 2^(b-1) <= a < 2^b, 0 <= l < 2^e  ==>  2^(e+b-1) <= l + a*2^e < 2^(e+b)
proof fn lemma_top_bounds(l: int, a: int, e: nat, b: nat)
    requires 0 <= l < p2(e), b >= 1, p2((b - 1) as nat) <= a < p2(b)
    ensures p2((e + b - 1) as nat) <= l + a * p2(e) < p2(e + b)
{
    let pe = p2(e); let lo = p2((b - 1) as nat); let hi = p2(b);
    lemma_pow2_adds(e, b); lemma_pow2_adds(e, (b - 1) as nat); lemma_pow2_pos(e);
    assert(e + (b - 1) as nat == (e + b - 1) as nat);
    assert(pe * lo == p2((e + b - 1) as nat));
    assert(pe * hi == p2(e + b));
    assert(a * pe >= pe * lo) by (nonlinear_arith) requires a >= lo, pe > 0;
    assert((a + 1) * pe <= pe * hi) by (nonlinear_arith) requires a + 1 <= hi, pe > 0;
    assert((a + 1) * pe == a * pe + pe) by (nonlinear_arith);
}

/// the limbs above j are zero and limb j has exactly b >= 1 significant bits: the value has 64j+b bits
proof fn lemma_val_top(s: Seq<Limb>, n: nat, j: nat, b: nat)
    requires j < n, forall|k: int| j < k < n ==> s[k].0 == 0, 1 <= b <= 64,
        p2((b - 1) as nat) <= s[j as int].0 as int, (s[j as int].0 as int) < p2(b)
    ensures p2((64 * j + b - 1) as nat) <= val(s, n) < p2(64 * j + b)
{
    lemma_val_hi_zero(s, j + 1, n);
    lemma_val_bound(s, j); lemma_bp_pow2(j);
    assert(val(s, j + 1) == val(s, j) + s[j as int].0 as int * bp(j));
    lemma_top_bounds(val(s, j), s[j as int].0 as int, 64 * j, b);
}

/// the limbs below j are zero and limb j has z < 64 trailing zeros: the value has 64j+z trailing zeros
proof fn lemma_val_tz(s: Seq<Limb>, n: nat, j: nat, z: nat)
    requires j < n, forall|k: int| 0 <= k < j ==> s[k].0 == 0, z < 64,
        (s[j as int].0 as int) % p2(z) == 0, (s[j as int].0 as int / p2(z)) % 2 == 1
    ensures val(s, n) % p2(64 * j + z) == 0, (val(s, n) / p2(64 * j + z)) % 2 == 1, val(s, n) != 0
{
    lemma_val_zero(s, j);
    let h = lemma_val_at(s, j, n);
    lemma_bp_pow2(j);
    lemma_mult_of_sum(s[j as int].0 as int, h, 64 * j, z);
    lemma_val_bit(s, n, j, z);
    lemma_pow2_pos(64 * j + z);
    if val(s, n) == 0 { lemma_basic_div(0, p2(64 * j + z)); }
}

/// the limbs below j are MAX and limb j has z < 64 trailing ones: the value has 64j+z trailing ones
proof fn lemma_val_to(s: Seq<Limb>, n: nat, j: nat, z: nat)
    requires j < n, forall|k: int| 0 <= k < j ==> s[k].0 == u64::MAX, z < 64,
        (s[j as int].0 as int + 1) % p2(z) == 0, (s[j as int].0 as int / p2(z)) % 2 == 0
    ensures (val(s, n) + 1) % p2(64 * j + z) == 0, (val(s, n) / p2(64 * j + z)) % 2 == 0, val(s, n) != bp(n) - 1
{
    lemma_val_all_max(s, j);
    let h = lemma_val_at(s, j, n);
    lemma_bp_pow2(j);
    let a = s[j as int].0 as int; let p = bp(j);
    assert(val(s, n) + 1 == ((a + 1) + h * B()) * p) by (nonlinear_arith)
        requires val(s, n) == (p - 1) + (a + h * B()) * p;
    lemma_mult_of_sum(a + 1, h, 64 * j, z);
    lemma_val_bit(s, n, j, z);
    // not all ones: limb j is not MAX (its bit z is clear)
    if val(s, n) == bp(n) - 1 {
        let t = Seq::new(n, |k: int| Limb(u64::MAX));
        lemma_val_all_max(t, n);
        lemma_val_inj(s, t, n);
        assert(s[j as int].0 == t[j as int].0);
        let zz = z as u32;
        lemma_u64_shr_div(u64::MAX, zz);
        assert((0xffff_ffff_ffff_ffffu64 >> zz) % 2 == 1) by (bit_vector) requires zz < 64;
        assert(false);
    }
}

/// t differs from s only at limb j
proof fn lemma_val_update(s: Seq<Limb>, t: Seq<Limb>, j: nat, n: nat)
    requires j < n, forall|k: int| 0 <= k < n && k != j ==> s[k] == t[k]
    ensures val(t, n) - val(s, n) == (t[j as int].0 as int - s[j as int].0 as int) * bp(j)
    decreases n
{
    if n == j + 1 {
        lemma_val_ext(s, t, j);
        let a = s[j as int].0 as int; let b = t[j as int].0 as int; let p = bp(j);
        assert((b - a) * p == b * p - a * p) by (nonlinear_arith);
    } else {
        lemma_val_update(s, t, j, (n - 1) as nat);
        assert(s[n - 1] == t[n - 1]);
    }
}

/// clearing / setting bit r of a word, at the integer level
proof fn lemma_word_set_bit(x: u64, r: u32)
    requires r < 64
    ensures (1u64 << r) as int == p2(r as nat),
        (x & !(1u64 << r)) as int == x as int - (if (x as int / p2(r as nat)) % 2 == 1 { p2(r as nat) } else { 0 }),
        (x | (1u64 << r)) as int == x as int + (if (x as int / p2(r as nat)) % 2 == 1 { 0 } else { p2(r as nat) }),
        (x & (1u64 << r)) >> r == (if (x as int / p2(r as nat)) % 2 == 1 { 1u64 } else { 0u64 }),
{
    let m = 1u64 << r; let y = x >> r;
    lemma_one_shl(r as u64);
    assert(1u64 << r == 1u64 << (r as u64)) by (bit_vector) requires r < 64;
    lemma_u64_shr_div(x, r);
    assert(y % 2 == 1 ==> (x & !m) == x - m && (x | m) == x && (x & m) >> r == 1) by (bit_vector) requires y == x >> r, m == 1u64 << r, r < 64;
    assert(y % 2 != 1 ==> (x & !m) == x && (x | m) == x + m && (x & m) >> r == 0) by (bit_vector) requires y == x >> r, m == 1u64 << r, r < 64;
}

/// value-level effect of replacing limb j (bit r cleared, then set to c)
proof fn lemma_set_bit_value(s: Seq<Limb>, t: Seq<Limb>, n: nat, j: nat, r: nat, c: int)
    requires j < n, r < 64, c == 0 || c == 1, forall|k: int| 0 <= k < n && k != j ==> s[k] == t[k],
        t[j as int].0 as int == s[j as int].0 as int
            - (if (s[j as int].0 as int / p2(r)) % 2 == 1 { p2(r) } else { 0 }) + (if c == 1 { p2(r) } else { 0 })
    ensures val(t, n) == val(s, n) - ((val(s, n) / p2(64 * j + r)) % 2) * p2(64 * j + r) + c * p2(64 * j + r)
{
    let a = s[j as int].0 as int; let b = t[j as int].0 as int; let pr = p2(r); let p = bp(j); let pi = p2(64 * j + r);
    let bit = (a / pr) % 2;
    lemma_val_update(s, t, j, n);
    lemma_val_bit(s, n, j, r);
    lemma_bp_pow2(j); lemma_pow2_adds(64 * j, r);
    assert(pi == p * pr);
    assert(bit == 0 || bit == 1);
    assert(b - a == (c - bit) * pr) by (nonlinear_arith)
        requires bit == 0 || bit == 1, c == 0 || c == 1, b - a == (if c == 1 { pr } else { 0 }) - (if bit == 1 { pr } else { 0 });
    assert((b - a) * p == c * pi - bit * pi) by (nonlinear_arith) requires b - a == (c - bit) * pr, pi == p * pr;
}

//@@ fn src/uint/bits.rs | - | bit | body | props C05 C11
pub const fn bit(limbs: &[Limb], index: u32) -> (ret__: ConstChoice)
//@+
    requires limbs@.len() < 0x400_0000
    ensures ret__.wf(), ret__.t() == ((index as int) < 64 * limbs@.len() && (val(limbs@, limbs@.len()) / p2(index as nat)) % 2 == 1)
//@-
{
    let limb_num = index / Limb::BITS;
    let index_in_limb = index % Limb::BITS;
    let index_mask = 1 << index_in_limb;
    let mut result = 0;
    let mut i = 0;
    while i < limbs.len()
//@+
    invariant i <= limbs@.len(), limbs@.len() < 0x400_0000,
        result == (if (limb_num as int) < i { limbs@[limb_num as int].0 & index_mask } else { 0u64 }),
    decreases limbs@.len() - i,
//@-
{
//@+
    let ghost r0 = result; let ghost y = limbs@[i as int].0 & index_mask;
    assert((r0 | 0u64) == r0 && (0u64 | y) == y) by (bit_vector);
//@-
        let bit = limbs[i].0 & index_mask;
        let is_right_limb = ConstChoice::from_u32_eq(i as u32, limb_num);
        result |= is_right_limb.if_true_word(bit);
        i += 1;
    }
//@+
    proof {
        if (limb_num as int) < limbs@.len() {
            lemma_word_set_bit(limbs@[limb_num as int].0, index_in_limb);
            lemma_val_bit(limbs@, limbs@.len(), limb_num as nat, index_in_limb as nat);
            assert(index as nat == 64 * (limb_num as nat) + index_in_limb as nat);
        } else {
            assert(0u64 >> index_in_limb == 0u64) by (bit_vector);
        }
    }
//@-
    ConstChoice::from_word_lsb(result >> index_in_limb)
}
//@@ end
//@@ fn src/uint/bits.rs | - | bit_vartime | body | props C05 C11 C15
pub const fn bit_vartime(limbs: &[Limb], index: u32) -> (ret__: bool)
//@+
    ensures ret__ == ((index as int) < 64 * limbs@.len() && (val(limbs@, limbs@.len()) / p2(index as nat)) % 2 == 1)
//@-
{
    let limb_num = (index / Limb::BITS) as usize;
    let index_in_limb = (index % Limb::BITS) as usize;
//@+
    proof {
        if limb_num < limbs@.len() {
            let x = limbs@[limb_num as int].0; let r = (index % 64) as u32;
            lemma_u64_shr_div(x, r);
            assert(x >> index_in_limb == x >> r) by (bit_vector) requires index_in_limb == r, r < 64;
            let y = x >> r;
            assert((y & 1 == 1) == (y % 2 == 1)) by (bit_vector);
            lemma_val_bit(limbs@, limbs@.len(), limb_num as nat, r as nat);
            assert(index as nat == 64 * (limb_num as nat) + r as nat);
        }
    }
//@-
    if limb_num >= limbs.len() {
        false
    } else {
        (limbs[limb_num].0 >> index_in_limb) & 1 == 1
    }
}
//@@ end
//@@ fn src/uint/bits.rs | - | leading_zeros | body | props C05 C11
pub const fn leading_zeros(limbs: &[Limb]) -> (ret__: u32)
//@+
    requires limbs@.len() < 0x400_0000
    ensures ret__ as int <= 64 * limbs@.len(), (ret__ as int == 64 * limbs@.len()) == (val(limbs@, limbs@.len()) == 0),
        val(limbs@, limbs@.len()) < p2((64 * limbs@.len() - ret__) as nat),
        (ret__ as int) < 64 * limbs@.len() ==> val(limbs@, limbs@.len()) >= p2((64 * limbs@.len() - ret__ - 1) as nat)
//@-
{
//@+
    let ghost n = limbs@.len(); let ghost v = val(limbs@, limbs@.len());
//@-
    let mut count = 0;
    let mut i = limbs.len();
    let mut nonzero_limb_not_encountered = ConstChoice::TRUE;
    while i > 0
//@+
    invariant i <= n, n == limbs@.len(), n < 0x400_0000, v == val(limbs@, n), nonzero_limb_not_encountered.wf(),
        nonzero_limb_not_encountered.t() == (forall|k: int| i <= k < n ==> limbs@[k].0 == 0),
        nonzero_limb_not_encountered.t() ==> count as int == 64 * (n - i),
        !nonzero_limb_not_encountered.t() ==> (count as int) < 64 * (n - i) && v < p2((64 * n - count) as nat) && v >= p2((64 * n - count - 1) as nat),
    decreases i,
//@-
{
        i -= 1;
        let l = limbs[i];
        let z = l.leading_zeros();
//@+
    proof {
        if nonzero_limb_not_encountered.t() && l.0 != 0 {
            lemma_val_top(limbs@, n, i as nat, (64 - z) as nat);
            assert((64 * n - (count + z)) as nat == 64 * (i as nat) + (64 - z) as nat);
            assert((64 * n - (count + z) - 1) as nat == (64 * (i as nat) + (64 - z) as nat - 1) as nat);
        }
    }
//@-
        count += nonzero_limb_not_encountered.if_true_u32(z);
        nonzero_limb_not_encountered =
            nonzero_limb_not_encountered.and(ConstChoice::from_word_nonzero(l.0).not());
    }
//@+
    proof {
        if nonzero_limb_not_encountered.t() { lemma_val_zero(limbs@, n); lemma2_to64(); }
        else { lemma_pow2_pos((64 * n - count - 1) as nat); }
    }
//@-
    count
}
//@@ end
//@@ fn src/uint/bits.rs | - | bits_vartime | body | props C05 C11 C15
pub const fn bits_vartime(limbs: &[Limb]) -> (ret__: u32)
//@+
    requires 1 <= limbs@.len() < 0x400_0000
    ensures ret__ as int <= 64 * limbs@.len(), (ret__ == 0) == (val(limbs@, limbs@.len()) == 0),
        val(limbs@, limbs@.len()) < p2(ret__ as nat), ret__ > 0 ==> val(limbs@, limbs@.len()) >= p2((ret__ - 1) as nat)
//@-
{
    let mut i = limbs.len() - 1;
    while i > 0 && limbs[i].0 == 0
//@+
    invariant i < limbs@.len(), forall|k: int| i < k < limbs@.len() ==> limbs@[k].0 == 0,
    decreases i,
//@-
{
        i -= 1;
    }
    let limb = limbs[i];
//@+
    let ghost n = limbs@.len(); let ghost v = val(limbs@, limbs@.len()); let ghost x = limb.0 as int;
    assert forall|z: u32| z <= 64 && ((z == 64) == (x == 0)) && x < #[trigger] p2((64 - z) as nat) && (z < 64 ==> x >= p2((63 - z) as nat))
        implies ({ let r = 64 * (i + 1) - z; 0 <= r <= 64 * n && (r == 0) == (v == 0) && v < p2(r as nat) && (r > 0 ==> v >= p2((r - 1) as nat)) })
    by {
        if x == 0 { lemma_val_zero(limbs@, n); lemma2_to64(); }
        else {
            let b = (64 - z) as nat;
            lemma_val_top(limbs@, n, i as nat, b);
            lemma_pow2_pos((64 * i + b - 1) as nat);
            assert((64 * (i + 1) - z) as nat == 64 * (i as nat) + b);
        }
    }
//@-
    Limb::BITS * (i as u32 + 1) - limb.leading_zeros()
}
//@@ end
//@@ fn src/uint/bits.rs | - | trailing_zeros | body | props C05 C11
pub const fn trailing_zeros(limbs: &[Limb]) -> (ret__: u32)
//@+
    requires limbs@.len() < 0x400_0000
    ensures ret__ as int <= 64 * limbs@.len(), (ret__ as int == 64 * limbs@.len()) == (val(limbs@, limbs@.len()) == 0),
        val(limbs@, limbs@.len()) % p2(ret__ as nat) == 0, (ret__ as int) < 64 * limbs@.len() ==> (val(limbs@, limbs@.len()) / p2(ret__ as nat)) % 2 == 1
//@-
{
//@+
    let ghost n = limbs@.len(); let ghost v = val(limbs@, limbs@.len());
//@-
    let mut count = 0;
    let mut i = 0;
    let mut nonzero_limb_not_encountered = ConstChoice::TRUE;
    while i < limbs.len()
//@+
    invariant i <= n, n == limbs@.len(), n < 0x400_0000, v == val(limbs@, n), nonzero_limb_not_encountered.wf(),
        nonzero_limb_not_encountered.t() == (forall|k: int| 0 <= k < i ==> limbs@[k].0 == 0),
        nonzero_limb_not_encountered.t() ==> count as int == 64 * i,
        !nonzero_limb_not_encountered.t() ==> (count as int) < 64 * i && v != 0 && v % p2(count as nat) == 0 && (v / p2(count as nat)) % 2 == 1,
    decreases n - i,
//@-
{
        let l = limbs[i];
        let z = l.trailing_zeros();
//@+
    proof {
        if nonzero_limb_not_encountered.t() && l.0 != 0 {
            lemma_val_tz(limbs@, n, i as nat, z as nat);
            assert((count + z) as nat == 64 * (i as nat) + z as nat);
        }
    }
//@-
        count += nonzero_limb_not_encountered.if_true_u32(z);
        nonzero_limb_not_encountered =
            nonzero_limb_not_encountered.and(ConstChoice::from_word_nonzero(l.0).not());
        i += 1;
    }
//@+
    proof {
        if nonzero_limb_not_encountered.t() { lemma_val_zero(limbs@, n); lemma_pow2_pos(64 * n); lemma_small_mod(0, pow2(64 * n)); }
    }
//@-
    count
}
//@@ end
//@@ fn src/uint/bits.rs | - | trailing_zeros_vartime | body | props C05 C11 C15
pub const fn trailing_zeros_vartime(limbs: &[Limb]) -> (ret__: u32)
//@+
    requires limbs@.len() < 0x400_0000
    ensures ret__ as int <= 64 * limbs@.len(), (ret__ as int == 64 * limbs@.len()) == (val(limbs@, limbs@.len()) == 0),
        val(limbs@, limbs@.len()) % p2(ret__ as nat) == 0, (ret__ as int) < 64 * limbs@.len() ==> (val(limbs@, limbs@.len()) / p2(ret__ as nat)) % 2 == 1
//@-
{
//@+
    let ghost n = limbs@.len(); let ghost v = val(limbs@, limbs@.len());
    proof { if n == 0 { lemma_val_zero(limbs@, n); lemma_pow2_pos(64 * n); lemma_small_mod(0, pow2(64 * n)); } }
//@-
    let mut count = 0;
    let mut i = 0;
    while i < limbs.len()
//@+
    invariant_except_break i <= n, count as int == 64 * i, forall|k: int| 0 <= k < i ==> limbs@[k].0 == 0,
        i == n ==> v == 0 && v % p2(64 * n) == 0,
    invariant n == limbs@.len(), n < 0x400_0000, v == val(limbs@, n),
    ensures count as int <= 64 * n, (count as int == 64 * n) == (v == 0), v % p2(count as nat) == 0,
        (count as int) < 64 * n ==> (v / p2(count as nat)) % 2 == 1,
    decreases n - i,
//@-
{
        let l = limbs[i];
        let z = l.trailing_zeros();
        count += z;
//@+
    proof {
        if z != 64 {
            lemma_val_tz(limbs@, n, i as nat, z as nat);
            assert(count as nat == 64 * (i as nat) + z as nat);
        } else if i + 1 == n { lemma_val_zero(limbs@, n); lemma_pow2_pos(64 * n); lemma_small_mod(0, pow2(64 * n)); }
    }
//@-
        if z != Limb::BITS {
            break;
        }
        i += 1;
    }
    count
}
//@@ end
//@@ fn src/uint/bits.rs | - | trailing_ones | body | props C05 C11
pub const fn trailing_ones(limbs: &[Limb]) -> (ret__: u32)
//@+
    requires limbs@.len() < 0x400_0000
    ensures ret__ as int <= 64 * limbs@.len(), (ret__ as int == 64 * limbs@.len()) == (val(limbs@, limbs@.len()) == bp(limbs@.len()) - 1),
        (val(limbs@, limbs@.len()) + 1) % p2(ret__ as nat) == 0, (ret__ as int) < 64 * limbs@.len() ==> (val(limbs@, limbs@.len()) / p2(ret__ as nat)) % 2 == 0
//@-
{
//@+
    let ghost n = limbs@.len(); let ghost v = val(limbs@, limbs@.len());
//@-
    let mut count = 0;
    let mut i = 0;
    let mut nonmax_limb_not_encountered = ConstChoice::TRUE;
    while i < limbs.len()
//@+
    invariant i <= n, n == limbs@.len(), n < 0x400_0000, v == val(limbs@, n), nonmax_limb_not_encountered.wf(),
        nonmax_limb_not_encountered.t() == (forall|k: int| 0 <= k < i ==> limbs@[k].0 == u64::MAX),
        nonmax_limb_not_encountered.t() ==> count as int == 64 * i,
        !nonmax_limb_not_encountered.t() ==> (count as int) < 64 * i && v != bp(n) - 1 && (v + 1) % p2(count as nat) == 0 && (v / p2(count as nat)) % 2 == 0,
    decreases n - i,
//@-
{
        let l = limbs[i];
        let z = l.trailing_ones();
//@+
    proof {
        if nonmax_limb_not_encountered.t() && l.0 != u64::MAX {
            lemma_val_to(limbs@, n, i as nat, z as nat);
            assert((count + z) as nat == 64 * (i as nat) + z as nat);
        }
    }
//@-
        count += nonmax_limb_not_encountered.if_true_u32(z);
        nonmax_limb_not_encountered =
            nonmax_limb_not_encountered.and(ConstChoice::from_word_eq(l.0, Limb::MAX.0));
        i += 1;
    }
//@+
    proof {
        if nonmax_limb_not_encountered.t() { lemma_val_all_max(limbs@, n); lemma_bp_pow2(n); lemma_pow2_pos(64 * n); lemma_mod_self_0(p2(64 * n)); }
    }
//@-
    count
}
//@@ end
//@@ fn src/uint/bits.rs | - | trailing_ones_vartime | body | props C05 C11 C15
pub const fn trailing_ones_vartime(limbs: &[Limb]) -> (ret__: u32)
//@+
    requires limbs@.len() < 0x400_0000
    ensures ret__ as int <= 64 * limbs@.len(), (ret__ as int == 64 * limbs@.len()) == (val(limbs@, limbs@.len()) == bp(limbs@.len()) - 1),
        (val(limbs@, limbs@.len()) + 1) % p2(ret__ as nat) == 0, (ret__ as int) < 64 * limbs@.len() ==> (val(limbs@, limbs@.len()) / p2(ret__ as nat)) % 2 == 0
//@-
{
//@+
    let ghost n = limbs@.len(); let ghost v = val(limbs@, limbs@.len());
    proof { if n == 0 { lemma_val_all_max(limbs@, n); lemma_bp_pow2(n); lemma_pow2_pos(64 * n); lemma_mod_self_0(p2(64 * n)); } }
//@-
    let mut count = 0;
    let mut i = 0;
    while i < limbs.len()
//@+
    invariant_except_break i <= n, count as int == 64 * i, forall|k: int| 0 <= k < i ==> limbs@[k].0 == u64::MAX,
        i == n ==> v == bp(n) - 1 && (v + 1) % p2(64 * n) == 0,
    invariant n == limbs@.len(), n < 0x400_0000, v == val(limbs@, n),
    ensures count as int <= 64 * n, (count as int == 64 * n) == (v == bp(n) - 1), (v + 1) % p2(count as nat) == 0,
        (count as int) < 64 * n ==> (v / p2(count as nat)) % 2 == 0,
    decreases n - i,
//@-
{
        let l = limbs[i];
        let z = l.trailing_ones();
        count += z;
//@+
    proof {
        if z != 64 {
            lemma_val_to(limbs@, n, i as nat, z as nat);
            assert(count as nat == 64 * (i as nat) + z as nat);
        } else if i + 1 == n { lemma_val_all_max(limbs@, n); lemma_bp_pow2(n); lemma_pow2_pos(64 * n); lemma_mod_self_0(p2(64 * n)); }
    }
//@-
        if z != Limb::BITS {
            break;
        }
        i += 1;
    }
    count
}
//@@ end
//@@ fn src/uint/bits.rs | impl<const LIMBS: usize> Uint<LIMBS> | bit | body | props C05 C11
impl<const LIMBS: usize> Uint<LIMBS> {
pub const fn bit(&self, index: u32) -> (ret__: ConstChoice)
//@+
    requires 1 <= LIMBS < 0x400_0000
    ensures ret__.wf(), ret__.t() == ((index as int) < 64 * LIMBS && (self.v() / p2(index as nat)) % 2 == 1)
//@-
{
        bit(&self.limbs, index)
    }
}
//@@ end
//@@ fn src/uint/bits.rs | impl<const LIMBS: usize> Uint<LIMBS> | bit_vartime | body | props C05 C11 C15
impl<const LIMBS: usize> Uint<LIMBS> {
pub const fn bit_vartime(&self, index: u32) -> (ret__: bool)
//@+
    requires 1 <= LIMBS < 0x400_0000
    ensures ret__ == ((index as int) < 64 * LIMBS && (self.v() / p2(index as nat)) % 2 == 1)
//@-
{
        bit_vartime(&self.limbs, index)
    }
}
//@@ end
//@@ fn src/uint/bits.rs | impl<const LIMBS: usize> Uint<LIMBS> | leading_zeros | body | props C05 C11
impl<const LIMBS: usize> Uint<LIMBS> {
pub const fn leading_zeros(&self) -> (ret__: u32)
//@+
    requires 1 <= LIMBS < 0x400_0000
    ensures ret__ as int <= 64 * LIMBS, (ret__ as int == 64 * LIMBS) == (self.v() == 0), self.v() < p2((64 * LIMBS - ret__) as nat), (ret__ as int) < 64 * LIMBS ==> self.v() >= p2((64 * LIMBS - ret__ - 1) as nat)
//@-
{
        leading_zeros(&self.limbs)
    }
}
//@@ end
//@@ fn src/uint/bits.rs | impl<const LIMBS: usize> Uint<LIMBS> | bits_vartime | body | props C05 C11 C15
impl<const LIMBS: usize> Uint<LIMBS> {
pub const fn bits_vartime(&self) -> (ret__: u32)
//@+
    requires 1 <= LIMBS < 0x400_0000
    ensures ret__ as int <= 64 * LIMBS, (ret__ == 0) == (self.v() == 0), self.v() < p2(ret__ as nat), ret__ > 0 ==> self.v() >= p2((ret__ - 1) as nat)
//@-
{
        bits_vartime(&self.limbs)
    }
}
//@@ end
//@@ fn src/uint/bits.rs | impl<const LIMBS: usize> Uint<LIMBS> | bits | body | props C05 C11
impl<const LIMBS: usize> Uint<LIMBS> {
pub const fn bits(&self) -> (ret__: u32)
//@+
    requires 1 <= LIMBS < 0x400_0000
    ensures ret__ as int <= 64 * LIMBS, (ret__ == 0) == (self.v() == 0), self.v() < p2(ret__ as nat), ret__ > 0 ==> self.v() >= p2((ret__ - 1) as nat)
//@-
{
        Self::BITS() - self.leading_zeros()
    }
}
//@@ end
//@@ fn src/uint/bits.rs | impl<const LIMBS: usize> Uint<LIMBS> | leading_zeros_vartime | body | props C05 C11 C15
impl<const LIMBS: usize> Uint<LIMBS> {
pub const fn leading_zeros_vartime(&self) -> (ret__: u32)
//@+
    requires 1 <= LIMBS < 0x400_0000
    ensures ret__ as int <= 64 * LIMBS, (ret__ as int == 64 * LIMBS) == (self.v() == 0), self.v() < p2((64 * LIMBS - ret__) as nat), (ret__ as int) < 64 * LIMBS ==> self.v() >= p2((64 * LIMBS - ret__ - 1) as nat)
//@-
{
        Self::BITS() - self.bits_vartime()
    }
}
//@@ end
//@@ fn src/uint/bits.rs | impl<const LIMBS: usize> Uint<LIMBS> | trailing_zeros | body | props C05 C11
impl<const LIMBS: usize> Uint<LIMBS> {
pub const fn trailing_zeros(&self) -> (ret__: u32)
//@+
    requires 1 <= LIMBS < 0x400_0000
    ensures ret__ as int <= 64 * LIMBS, (ret__ as int == 64 * LIMBS) == (self.v() == 0), self.v() % p2(ret__ as nat) == 0, (ret__ as int) < 64 * LIMBS ==> (self.v() / p2(ret__ as nat)) % 2 == 1
//@-
{
        trailing_zeros(&self.limbs)
    }
}
//@@ end
//@@ fn src/uint/bits.rs | impl<const LIMBS: usize> Uint<LIMBS> | trailing_zeros_vartime | body | props C05 C11 C15
impl<const LIMBS: usize> Uint<LIMBS> {
pub const fn trailing_zeros_vartime(&self) -> (ret__: u32)
//@+
    requires 1 <= LIMBS < 0x400_0000
    ensures ret__ as int <= 64 * LIMBS, (ret__ as int == 64 * LIMBS) == (self.v() == 0), self.v() % p2(ret__ as nat) == 0, (ret__ as int) < 64 * LIMBS ==> (self.v() / p2(ret__ as nat)) % 2 == 1
//@-
{
        trailing_zeros_vartime(&self.limbs)
    }
}
//@@ end
//@@ fn src/uint/bits.rs | impl<const LIMBS: usize> Uint<LIMBS> | trailing_ones | body | props C05 C11
impl<const LIMBS: usize> Uint<LIMBS> {
pub const fn trailing_ones(&self) -> (ret__: u32)
//@+
    requires 1 <= LIMBS < 0x400_0000
    ensures ret__ as int <= 64 * LIMBS, (ret__ as int == 64 * LIMBS) == (self.v() == bp(LIMBS as nat) - 1), (self.v() + 1) % p2(ret__ as nat) == 0, (ret__ as int) < 64 * LIMBS ==> (self.v() / p2(ret__ as nat)) % 2 == 0
//@-
{
        trailing_ones(&self.limbs)
    }
}
//@@ end
//@@ fn src/uint/bits.rs | impl<const LIMBS: usize> Uint<LIMBS> | trailing_ones_vartime | body | props C05 C11 C15
impl<const LIMBS: usize> Uint<LIMBS> {
pub const fn trailing_ones_vartime(&self) -> (ret__: u32)
//@+
    requires 1 <= LIMBS < 0x400_0000
    ensures ret__ as int <= 64 * LIMBS, (ret__ as int == 64 * LIMBS) == (self.v() == bp(LIMBS as nat) - 1), (self.v() + 1) % p2(ret__ as nat) == 0, (ret__ as int) < 64 * LIMBS ==> (self.v() / p2(ret__ as nat)) % 2 == 0
//@-
{
        trailing_ones_vartime(&self.limbs)
    }
}
//@@ end
//@@ fn src/uint/bits.rs | impl<const LIMBS: usize> Uint<LIMBS> | set_bit | body | props C05 C11
impl<const LIMBS: usize> Uint<LIMBS> {
pub const fn set_bit(self, index: u32, bit_value: ConstChoice) -> (ret__: Self)
//@+
    requires 1 <= LIMBS < 0x400_0000, bit_value.wf()
    ensures (index as int) < 64 * LIMBS ==> ret__.v() == self.v() - ((self.v() / p2(index as nat)) % 2) * p2(index as nat) + (if bit_value.t() { 1int } else { 0int }) * p2(index as nat),
        (index as int) >= 64 * LIMBS ==> ret__.v() == self.v()
//@-
{
        let mut result = self;
        let limb_num = index / Limb::BITS;
        let index_in_limb = index % Limb::BITS;
        let index_mask = 1 << index_in_limb;
//@+
    let ghost c: int = if bit_value.t() { 1 } else { 0 };
    let ghost pr = p2(index_in_limb as nat);
//@-
        let mut i = 0;
        while i < LIMBS
//@+
    invariant i <= LIMBS, LIMBS < 0x400_0000, bit_value.wf(), index_in_limb < 64, index_mask == 1u64 << index_in_limb,
        c == (if bit_value.t() { 1int } else { 0int }), pr == p2(index_in_limb as nat),
        forall|k: int| 0 <= k < LIMBS && (k != limb_num || k >= i) ==> result.limbs@[k] == self.limbs@[k],
        (limb_num as int) < i ==> result.limbs@[limb_num as int].0 as int == self.limbs@[limb_num as int].0 as int
            - (if (self.limbs@[limb_num as int].0 as int / pr) % 2 == 1 { pr } else { 0 }) + (if c == 1 { pr } else { 0 }),
    decreases LIMBS - i,
//@-
{
//@+
    proof { lemma_word_set_bit(result.limbs@[i as int].0, index_in_limb); }
//@-
            let is_right_limb = ConstChoice::from_u32_eq(i as u32, limb_num);
            let old_limb = result.limbs[i].0;
            let new_limb = bit_value.select_word(old_limb & !index_mask, old_limb | index_mask);
            result.limbs[i] = Limb(is_right_limb.select_word(old_limb, new_limb));
            i += 1;
        }
//@+
    proof {
        if (index as int) < 64 * LIMBS {
            lemma_set_bit_value(self.limbs@, result.limbs@, LIMBS as nat, limb_num as nat, index_in_limb as nat, c);
            assert(index as nat == 64 * (limb_num as nat) + index_in_limb as nat);
        } else {
            lemma_val_ext(self.limbs@, result.limbs@, LIMBS as nat);
        }
    }
//@-
        result
    }
}
//@@ end
//@@ fn src/uint/bits.rs | impl<const LIMBS: usize> Uint<LIMBS> | set_bit_vartime | body | props C05 C11 C15
impl<const LIMBS: usize> Uint<LIMBS> {
pub const fn set_bit_vartime(self, index: u32, bit_value: bool) -> (ret__: Self)
//@+
    requires 1 <= LIMBS < 0x400_0000, (index as int) < 64 * LIMBS
    ensures ret__.v() == self.v() - ((self.v() / p2(index as nat)) % 2) * p2(index as nat) + (if bit_value { 1int } else { 0int }) * p2(index as nat)
//@-
{
        let mut result = self;
        let limb_num = (index / Limb::BITS) as usize;
        let index_in_limb = index % Limb::BITS;
//@+
    proof { lemma_word_set_bit(self.limbs@[limb_num as int].0, index_in_limb); }
//@-
        if bit_value {
            result.limbs[limb_num].0 |= 1 << index_in_limb;
        } else {
            {
                result.limbs[limb_num].0 &= !((1 as Word) << index_in_limb);
            }
        }
//@+
    proof {
        lemma_set_bit_value(self.limbs@, result.limbs@, LIMBS as nat, limb_num as nat, index_in_limb as nat, if bit_value { 1 } else { 0 });
        assert(index as nat == 64 * (limb_num as nat) + index_in_limb as nat);
    }
//@-
        result
    }
}
//@@ end

} // verus!
