// L8: BoxedMontyParams / BoxedMontyForm (src/modular/boxed_monty_form.rs, boxed_monty_form/{add,sub,neg,mul,inv,pow,lincomb}.rs) -- C08 C09 C10 C15
// (companions: l8_boxed_monty2.rs = the `*_vartime` inverters + `MontyMultiplier::square_assign`; l8_boxed_monty_const.rs = from_const_params;
//  l8_boxed_pow.rs = BoxedMontyMultiplier::{new, mul_amm*, square_amm_assign} + pow_montgomery_form; l7_boxed_slices.rs = the slice-level AMM)
//
// Data-structure invariant + abstract view, as for the fixed-width form (l6_montyform.rs): every operation `requires wf` on its inputs and
// `ensures wf && params unchanged && view == op(views)`; induction over the operation history gives C08 for histories of any length.
//   BoxedMontyParams::wf()  every field equals its definition for R = B^n, n = limbs of the modulus (1 <= n < 2^26): modulus odd; one, r2, r3 have
//                           precision n; one == R mod m, r2 == R^2 mod m, r3 == R^3 mod m, mod_neg_inv * m[0] == -1 mod 2^64,
//                           mod_leading_zeros == min(leading_zeros(m), 63).   (wf_rest = all of it except the VALUE of `one`.)
//   BoxedMontyForm::wf()    params.wf(), montgomery_form has precision n and is canonical (< m);  view() = the x in [0, m) with
//                           montgomery_form == x * R mod m.   `params` is an `Arc<BoxedMontyParams>`: Verus treats Arc like Box (`*arc` is the
//                           value, `==` on Arcs in spec is equality of the pointees), nothing is dropped from the model.
// lemma_bparams_unique / lemma_bconstructors_agree: wf_rest + the value of `one` determine every field, so `new` and `new_vartime` return
// parameter sets with identical limbs, and two wf parameter sets for the same modulus compare equal (needed for `debug_assert_eq!(params, ..)`).
//
// FINDING F13 carries over unchanged (same expression `max.rem(m).wrapping_add(1)`): for the modulus 1 the constructors yield one == 1, not
// R mod 1 == 0, so they give `wf` only for m != 1 (`bparams_for`); every other field is right for every odd m. Checked natively (128 bit,
// m = 1): `BoxedMontyForm::one(params).retrieve()` == 1 (>= m; the fixed-width form returns 0 here), `one != zero`, and `as_montgomery()` /
// `to_montgomery()` panic in debug builds on `debug_assert!(self.montgomery_form < self.params.modulus)`; `new` and `new_vartime` agree.
//
// body (proved): BoxedMontyMultiplier::{mul_assign, mul, square_assign, square (AMM + ONE conditional subtraction => canonical, needs one operand
//   < m), mul_by_one, square_amm}; convert_to_montgomery; BoxedMontyParams::{new, new_vartime (see LIMITATION), modulus, bits_precision};
//   BoxedMontyForm::{new, new_with_arc, retrieve, zero, one, is_zero, is_nonzero, params, bits_precision, as_montgomery, from_montgomery, to_montgomery,
//   div_by_2, div_by_2_assign, add, double, sub, neg, mul, square, pow, pow_bounded_exp, invert, lincomb_vartime}; div_by_2_boxed(_assign);
//   operators Add/Sub/Mul (4 forms each) + AddAssign/SubAssign/MulAssign (2 each) + Neg (2); Square, SquareAssign, PowBoundedExp, Retrieve, Invert,
//   `Inverter for BoxedMontyFormInverter`, `PrecomputeInverter for BoxedMontyParams / Odd<BoxedUint>`, `PrecomputeInverterWithAdjuster`,
//   `MontyMultiplier::mul_assign`; BoxedSafeGcdInverter::new; `Deref for Odd<T>`, `PartialEq/PartialOrd<Odd<BoxedUint>> for BoxedUint`, `NonZero<BoxedUint>::widen`.
// stub (ASSUMED): `From<&BoxedMontyParams> for BoxedMontyMultiplier` (one-line call of `new`; a trait-impl method cannot carry the `requires`),
//   (BoxedUint::widen is a body now: rewrite S2, re-borrow through a named temporary; BoxedUint::{one, max, square} are bodies),
//   (lincomb_boxed_monty_form is no longer assumed: PROVED in l8_boxed_lincomb.rs).
// Bernstein-Yang inverter: BoxedSafeGcdInverter::new is a body here; `Inverter for BoxedSafeGcdInverter::invert` is PROVED in l8_boxed_safegcd_top.rs
//   (trait `Inverter` re-exported from there); the model m()/adj()/nl() is defined over the concrete one of l8_boxed_safegcd.rs (`sm`/`sadj`/`swf`).
//   Size: inverter construction / `invert` need modulus limbs <= SG_BOXED_MAX_SAT() = 1_369_567 (u32 iteration count of the inverter).
//   Library: `Arc::from`, `Arc::as_ref`, `Arc::borrow`, `Arc::eq`, derived `Clone` / `PartialEq` of BoxedMontyParams (hand-written models),
//   and ONE axiom `axiom_arc_partial_eq_model` (`==` on `&Arc<BoxedMontyParams>`; see there).
// NOT covered: `impl Monty for BoxedMontyForm` (13 delegating methods in one impl block + GAT), Zeroize, Debug, the functional value of pow
//   (pow_montgomery_form is proved for canonical range only: pow / pow_bounded_exp ensure `wf` and unchanged params, not the power).
// LIMITATION: new_vartime is proved for moduli < 2^64 only (`BoxedUint::rem_vartime` is proved for single-limb divisor values, LIMITATION 1 of
//   l8_boxed_methods.rs); `new` (constant time) covers every odd modulus of 1 <= n < 2^25 limbs (`bits_precision * 2` is computed in u32).
// `&a OP b` (by-reference lhs, by-value rhs) cannot carry an `ensures` (Verus types it with the inherent method); its result is pinned through
//   vstd's `XSpecImpl::x_spec` (`bmf_val`), like the other three forms.
// dev: /verif/tools/vunit.py l8_boxed_monty --num-threads 4
use vstd::prelude::*;
use vstd::arithmetic::power::*;
use vstd::arithmetic::power2::*;
use vstd::arithmetic::div_mod::*;
extern crate alloc;
use alloc::sync::Arc;
use core::borrow::Borrow;
use core::ops::{Deref, Add, AddAssign, Sub, SubAssign, Neg, Mul, MulAssign};
use crate::speclib::*;
use crate::speclib_bits::*;
use crate::l0_prim::*;
use crate::l0_corespec::*;
use crate::l1_choice::*;
use crate::l1_limb::*;
use crate::l2_core::*;
use crate::l2_subtle::*;
use crate::l5_monty::*;
use crate::l6_montyform::{clamped_lz, lemma_to_mont, lemma_repr_zero, lemma_repr_neg, lemma_repr_half, lemma_one_cong, lemma_r2_def, lemma_r3_def, lemma_neg_inv_def};
use crate::l7_traits::*;
use crate::l7_boxed_slices::{almost_montgomery_mul, almost_montgomery_mul_by_one, square_limbs, karatsuba_square_limbs};
use crate::l7_boxed_div::*;
use crate::l8_boxed_methods::*;
use crate::l8_boxed_methods::Integer;
use crate::l4_invmod::{gcd, lemma_inverse_coprime, lemma_gcd_divides, lemma_gcd_greatest, lemma_sg_gcd_eq, lemma_gcd_sym};
use crate::l4_safegcd::{sg_nlimbs_ok, sg_gcd, P62, q62, lemma_nlimbs_room, lemma_low_inverse, inv_mod2_62};
use crate::l8_boxed_safegcd::{sg_invert_post, SG_BOXED_MAX_SAT};
use crate::l8_boxed_invmod::{inv_mod_post, words_of};   // (also brings BoxedUint::set_bit / inv_mod2k_vartime / inv_odd_mod into the crate)
use core::cmp::Ordering;
use vstd::std_specs::cmp::PartialEqSpec;
use crate::l8_boxed_pow::*;
pub use crate::l8_boxed_safegcd::{BoxedUnsatInt, BoxedSafeGcdInverter};   // (re-exported: the structs were declared here before)
use crate::l8_boxed_lemmas::{lemma_p2_succ, lemma_p2_pos};
use crate::l8_boxed_lincomb::lincomb_boxed_monty_form;

// `#[derive(Debug)]` of /repo (not extracted); external to the verifier, needed only to type `debug_assert_eq!`
impl core::fmt::Debug for BoxedMontyParams {
    fn fmt(&self, _f: &mut core::fmt::Formatter<'_>) -> core::fmt::Result { Ok(()) }
}

verus! {

// /repo calls the free functions of src/modular/div_by_2.rs through the path `div_by_2::..`
mod div_by_2 { pub use crate::l8_boxed_monty::{div_by_2_boxed, div_by_2_boxed_assign}; }

// ---- library assumptions: `Arc<T>` (vstd treats Arc like Box: `*arc` is the value; Deref / Clone are specified there)
pub assume_specification<T> [<Arc<T> as core::convert::From<T>>::from] (t: T) -> (r: Arc<T>)
    ensures *r == t;
pub assume_specification<T: core::marker::MetaSized + ?Sized, A: core::alloc::Allocator> [<Arc<T, A> as core::convert::AsRef<T>>::as_ref] (a: &Arc<T, A>) -> (r: &T)
    ensures r == &**a;
pub assume_specification<T: core::marker::MetaSized + ?Sized, A: core::alloc::Allocator> [<Arc<T, A> as core::borrow::Borrow<T>>::borrow] (a: &Arc<T, A>) -> (r: &T)
    ensures r == &**a;
pub assume_specification<T: core::marker::MetaSized + ?Sized + PartialEq, A: core::alloc::Allocator> [<Arc<T, A> as PartialEq>::eq] (a: &Arc<T, A>, b: &Arc<T, A>) -> (r: bool)
    ensures T::obeys_eq_spec() ==> r == (**a).eq_spec(&**b);
/// LIBRARY MODEL (the one axiom of this unit; same trust class as the assume_specification of `Arc::eq` above): `==` on
/// `Arc<BoxedMontyParams>` compares the pointees. Needed because `debug_assert_eq!(&self.params, &rhs.params)` (mul.rs) compares
/// REFERENCES to Arcs: vstd specifies `<&A as PartialEq<&B>>::eq` through `A::obeys_eq_spec()` / `A::eq_spec`, which nothing defines for
/// `A = Arc<_>`; a `PartialEqSpecImpl for Arc<_>` is blocked by the orphan rule, and the assume_specification of `Arc::eq` is only
/// consulted for direct calls (the by-value `debug_assert_eq!(self.params, rhs.params)` of add.rs / sub.rs).
#[verifier::external_body]
pub proof fn axiom_arc_partial_eq_model()
    ensures <Arc<BoxedMontyParams> as PartialEqSpec>::obeys_eq_spec(),
        forall|a: Arc<BoxedMontyParams>, b: Arc<BoxedMontyParams>| #[trigger] a.eq_spec(&b) == params_veq(&*a, &*b)
{ }

//@@ item src/modular/boxed_monty_form.rs | struct BoxedMontyParams
//@+
#[verifier::external_derive(Clone)]
//@-
#[derive(Clone)]
pub struct BoxedMontyParams {
    pub modulus: Odd<BoxedUint>,
    pub one: BoxedUint,
    pub r2: BoxedUint,
    pub r3: BoxedUint,
    pub mod_neg_inv: Limb,
    pub mod_leading_zeros: u32,
}
//@@ end
//@@ item src/modular/boxed_monty_form.rs | struct BoxedMontyForm
#[derive(Clone)]
pub struct BoxedMontyForm {
    pub montgomery_form: BoxedUint,
    pub params: Arc<BoxedMontyParams>,
}
//@@ end

// ---- `#[derive(PartialEq, Eq)] struct BoxedMontyParams` (hand-written, ASSUMED): field-wise `==`. The fields are compared with
// `BoxedUint::eq`, which is VALUE equality (ct_eq over zero-extended limbs), so `==` alone does not pin the precision (in practice r2, r3 and
// the clamped leading-zero count differ between precisions except for the modulus 1; checked natively: params(3 @ 64 bit) != params(3 @ 128 bit)).
pub open spec fn params_veq(a: &BoxedMontyParams, b: &BoxedMontyParams) -> bool {
    a.modulus.0.v() == b.modulus.0.v() && a.one.v() == b.one.v() && a.r2.v() == b.r2.v() && a.r3.v() == b.r3.v()
        && a.mod_neg_inv.0 == b.mod_neg_inv.0 && a.mod_leading_zeros == b.mod_leading_zeros
}
// `#[derive(Clone)] struct BoxedMontyParams` (ASSUMED, like `<BoxedUint as Clone>::clone` in l8_boxed_methods.rs): field-wise clone
pub assume_specification [<BoxedMontyParams as Clone>::clone] (x: &BoxedMontyParams) -> (r: BoxedMontyParams)
    ensures params_same(&r, x);
impl PartialEq for BoxedMontyParams {
    #[verifier::external_body]
    fn eq(&self, other: &Self) -> (r: bool)
        ensures r == params_veq(self, other)
    { unimplemented!() }
}
impl vstd::std_specs::cmp::PartialEqSpecImpl for BoxedMontyParams {
    open spec fn obeys_eq_spec() -> bool { true }
    open spec fn eq_spec(&self, other: &BoxedMontyParams) -> bool { params_veq(self, other) }
}
// `Odd<BoxedUint>`-`BoxedUint` comparisons of src/odd.rs (regions below): value comparison
impl vstd::std_specs::cmp::PartialEqSpecImpl<Odd<BoxedUint>> for BoxedUint {
    open spec fn obeys_eq_spec() -> bool { true }
    open spec fn eq_spec(&self, other: &Odd<BoxedUint>) -> bool { self.v() == other.0.v() }
}
impl vstd::std_specs::cmp::PartialOrdSpecImpl<Odd<BoxedUint>> for BoxedUint {
    open spec fn obeys_partial_cmp_spec() -> bool { true }
    open spec fn partial_cmp_spec(&self, other: &Odd<BoxedUint>) -> Option<Ordering> { Some(bord_of(self.v(), other.0.v())) }
}

// ---- data-structure invariants and abstract view

impl BoxedMontyParams {
    /// the modulus as an integer
    pub open spec fn m(&self) -> int { self.modulus.0.v() }
    /// number of limbs (precision / 64) of the modulus; R = B^n
    pub open spec fn n(&self) -> nat { self.modulus.0.nl() }
    /// every field except the VALUE of `one` equals its definition (R = B^n, n = limbs of the modulus):
    /// 1 <= n < 2^26, all four integers have the precision of the modulus, modulus odd, r2 == R^2 mod m, r3 == R^3 mod m,
    /// mod_neg_inv * m[0] == -1 (mod 2^64), mod_leading_zeros == min(leading_zeros(m), 63)
    pub open spec fn wf_rest(&self) -> bool {
        let m = self.modulus.0.v(); let n = self.modulus.0.nl(); let r = bp(n);
        &&& self.modulus.0.wf()
        &&& self.one.nl() == n && self.r2.nl() == n && self.r3.nl() == n
        &&& m % 2 == 1
        &&& self.r2.v() == (r * r) % m
        &&& self.r3.v() == (r * r * r) % m
        &&& neg_inv_ok(self.mod_neg_inv, self.modulus.0.limbs@[0])
        &&& clamped_lz(m, 64 * n, self.mod_leading_zeros as int)
    }
    /// all fields equal their definitions: wf_rest and one == R mod m
    pub open spec fn wf(&self) -> bool {
        self.wf_rest() && self.one.v() == bp(self.modulus.0.nl()) % self.modulus.0.v()
    }
}

impl BoxedMontyForm {
    /// parameters well formed, the representative has the precision of the modulus and is canonical (< m)
    pub open spec fn wf(&self) -> bool {
        self.params.wf() && self.montgomery_form.nl() == self.params.modulus.0.nl() && self.montgomery_form.v() < self.params.modulus.0.v()
    }
    /// the element of Z/mZ (as an integer in [0, m)) represented by this value: the x with montgomery_form == x * R mod m
    pub open spec fn view(&self) -> int {
        mont_repr(self.montgomery_form.v(), self.params.modulus.0.v(), self.params.modulus.0.nl())
    }
}

/// what the multiplier built from a parameter set looks like
pub open spec fn mm_for(mm: &BoxedMontyMultiplier, params: &BoxedMontyParams) -> bool {
    mm.wf() && *mm.modulus == params.modulus.0 && mm.mod_neg_inv == params.mod_neg_inv
}

/// what the constructors return for `modulus`: every field but `one` equals its definition (wf_rest);
/// `one` is R mod m, except that the code yields 1 for m == 1 (known finding F13: same expression as the fixed-width `MontyParams::new`)
pub open spec fn bparams_for(p: &BoxedMontyParams, modulus: &Odd<BoxedUint>) -> bool {
    p.modulus == *modulus && p.wf_rest()
        && p.one.v() == (if modulus.0.v() == 1 { 1 } else { bp(modulus.0.nl()) % modulus.0.v() })
}

/// the constant-time and the vartime constructor (both `ensures bparams_for(ret, modulus)`) return parameter sets that compare equal
/// (`==` of /repo) and have identical limbs, for every odd modulus including 1
pub proof fn lemma_bconstructors_agree(a: &BoxedMontyParams, b: &BoxedMontyParams, modulus: &Odd<BoxedUint>)
    requires bparams_for(a, modulus), bparams_for(b, modulus)
    ensures params_veq(a, b), a.one.limbs@ =~= b.one.limbs@, a.r2.limbs@ =~= b.r2.limbs@, a.r3.limbs@ =~= b.r3.limbs@,
        a.mod_neg_inv == b.mod_neg_inv, a.mod_leading_zeros == b.mod_leading_zeros
{ lemma_bparams_unique(a, b); }

/// field-wise identical parameter sets (identical limbs)
pub open spec fn params_same(a: &BoxedMontyParams, b: &BoxedMontyParams) -> bool {
    a.modulus.0.limbs@ == b.modulus.0.limbs@ && a.one.limbs@ == b.one.limbs@ && a.r2.limbs@ == b.r2.limbs@ && a.r3.limbs@ == b.r3.limbs@
        && a.mod_neg_inv == b.mod_neg_inv && a.mod_leading_zeros == b.mod_leading_zeros
}

/// same modulus (value AND precision): the precondition of the binary operations
pub open spec fn same_modulus(a: &BoxedMontyParams, b: &BoxedMontyParams) -> bool {
    a.modulus.0.v() == b.modulus.0.v() && a.modulus.0.nl() == b.modulus.0.nl()
}

/// k * m0 == -1 (mod B) has at most one solution k in [0, B)    (copy of the private l6_montyform::lemma_neg_inv_unique)
proof fn lemma_neg_inv_unique(k1: int, k2: int, m0: int)
    requires 0 <= k1 < B(), 0 <= k2 < B(), 0 <= m0 < B(), (k1 * m0) % B() == B() - 1, (k2 * m0) % B() == B() - 1
    ensures k1 == k2
{
    let b = B();
    assert(k1 * (k2 * m0) == k2 * (k1 * m0)) by (nonlinear_arith);
    lemma_mul_mod_noop_right(k1, k2 * m0, b);
    lemma_mul_mod_noop_right(k2, k1 * m0, b);
    assert((k1 * (b - 1)) % b == (k2 * (b - 1)) % b);
    assert(k1 * (b - 1) == k1 * b - k1) by (nonlinear_arith);
    assert(k2 * (b - 1) == k2 * b - k2) by (nonlinear_arith);
    lemma_mod_multiples_vanish(k1, -k1, b);
    lemma_mod_multiples_vanish(k2, -k2, b);
    assert(b * k1 + (-k1) == k1 * b - k1) by (nonlinear_arith);
    assert(b * k2 + (-k2) == k2 * b - k2) by (nonlinear_arith);
    assert((-k1) % b == (-k2) % b);
    if k1 != 0 { lemma_mod_add_multiples_vanish(-k1, b); lemma_small_mod((b - k1) as nat, b as nat); } else { lemma_small_mod(0, b as nat); }
    if k2 != 0 { lemma_mod_add_multiples_vanish(-k2, b); lemma_small_mod((b - k2) as nat, b as nat); } else { lemma_small_mod(0, b as nat); }
}

/// (copy of the private l6_montyform::lemma_clamped_lz_unique)
proof fn lemma_clamped_lz_unique(v: int, bits: nat, c1: int, c2: int)
    requires bits >= 64, clamped_lz(v, bits, c1), clamped_lz(v, bits, c2)
    ensures c1 == c2
{
    if c1 < c2 {
        crate::l6_montyform::lemma_p2_mono((bits - c2) as nat, (bits - c1 - 1) as nat);
    } else if c2 < c1 {
        crate::l6_montyform::lemma_p2_mono((bits - c1) as nat, (bits - c2 - 1) as nat);
    }
}

/// wf_rest (plus the value of `one`) determines the value of every field from the modulus (value and precision):
/// the parameter sets compare equal (`==` of /repo, i.e. params_veq) and have identical limbs
pub proof fn lemma_bparams_unique(a: &BoxedMontyParams, b: &BoxedMontyParams)
    requires a.wf_rest(), b.wf_rest(), same_modulus(a, b), a.one.v() == b.one.v()
    ensures params_veq(a, b),
        a.modulus.0.limbs@ =~= b.modulus.0.limbs@, a.one.limbs@ =~= b.one.limbs@, a.r2.limbs@ =~= b.r2.limbs@, a.r3.limbs@ =~= b.r3.limbs@
{
    let n = a.modulus.0.nl();
    lemma_val_inj(a.modulus.0.limbs@, b.modulus.0.limbs@, n);
    lemma_val_inj(a.one.limbs@, b.one.limbs@, n);
    lemma_val_inj(a.r2.limbs@, b.r2.limbs@, n);
    lemma_val_inj(a.r3.limbs@, b.r3.limbs@, n);
    lemma_neg_inv_unique(a.mod_neg_inv.0 as int, b.mod_neg_inv.0 as int, a.modulus.0.limbs@[0].0 as int);
    lemma_clamped_lz_unique(a.modulus.0.v(), 64 * n, a.mod_leading_zeros as int, b.mod_leading_zeros as int);
}

/// two well-formed parameter sets for the same modulus (value and precision) are equal
pub proof fn lemma_bparams_wf_unique(a: &BoxedMontyParams, b: &BoxedMontyParams)
    requires a.wf(), b.wf(), same_modulus(a, b)
    ensures params_veq(a, b)
{ lemma_bparams_unique(a, b); }

/// m > 0 and m < R for well-formed parameters
pub proof fn lemma_params_rng(p: &BoxedMontyParams)
    requires p.wf_rest()
    ensures 0 < p.modulus.0.v() < bp(p.modulus.0.nl()), p.modulus.0.v() % 2 == 1
{ lemma_rng(&p.modulus.0); }

/// conversion into Montgomery form: f == REDC(x * r2) is (x * R) mod m and represents x mod m
proof fn lemma_convert(f: int, x: int, r2: int, m: int, n: nat)
    requires m >= 1, m % 2 == 1, r2 == (bp(n) * bp(n)) % m, mont_red(f, x * r2, m, bp(n))
    ensures f == (x * bp(n)) % m, mont_repr(f, m, n) == x % m
{
    lemma_to_mont(x, r2, m, n);
    lemma_mont_repr_unique(f, x * r2, m, n);
}

/// a canonical Montgomery representative is 0 iff the represented residue is 0
proof fn lemma_repr_zero_iff(t: int, m: int, n: nat)
    requires m >= 1, m % 2 == 1, 0 <= t < m
    ensures (mont_repr(t, m, n) == 0) == (t == 0)
{
    if t == 0 { lemma_repr_zero(m, n); }
    else {
        lemma_mont_repr(t, m, n);
        if mont_repr(t, m, n) == 0 {
            assert(0 * bp(n) == 0);
            lemma_small_mod(0, m as nat); lemma_small_mod(t as nat, m as nat);
        }
    }
}

/// halving modulo an odd m: h == (a + (a odd ? m : 0)) / 2
proof fn lemma_half(h: int, a: int, m: int)
    requires 0 <= a < m, m % 2 == 1, 2 * h == a + (if a % 2 == 1 { m } else { 0 })
    ensures 0 <= h < m, (2 * h) % m == a
{
    if a % 2 == 1 { lemma_mod_add_multiples_vanish(a, m); }
    lemma_small_mod(a as nat, m as nat);
}

proof fn lemma_nlimbs_for(n: nat)
    requires 1 <= n < 0x400_0000
    ensures nlimbs_for((64 * n) as u32) == n
{ }

proof fn lemma_rng(x: &BoxedUint)
    ensures 0 <= x.v() < bp(x.nl()), bp(x.nl()) > 0
{ lemma_val_bound(x.limbs@, x.nl()); }

/// AMM(a, b) with one operand canonical is below 2m, so one conditional subtraction of m reduces it
proof fn lemma_amm_lt_2m(rv: int, a: int, b: int, m: int, n: nat)
    requires amm_post(rv, a, b, m, n), 0 <= a < bp(n), 0 <= b < bp(n), a < m || b < m
    ensures 0 <= rv < 2 * m
{
    let r = bp(n);
    if b < m {
        assert(a * b <= r * m) by (nonlinear_arith) requires 0 <= a < r, 0 <= b < m;
    } else {
        assert(a * b <= r * m) by (nonlinear_arith) requires 0 <= a < m, 0 <= b < r;
    }
    assert(rv < 2 * m) by (nonlinear_arith) requires rv * r < r * m + m * r, r > 0;
}

/// the single conditional subtraction: x in [0, 2m), y == (x - m) mod m  ==>  y == x mod m as a residue, and y*R == x*R (mod m)
proof fn lemma_final_sub(y: int, x: int, m: int, r: int, t: int)
    requires 0 <= x < 2 * m, y == (x - m) % m, (x * r) % m == t % m, m > 0
    ensures 0 <= y < m, (y * r) % m == t % m
{
    lemma_mod_bound(x - m, m);
    if x >= m { lemma_small_mod((x - m) as nat, m as nat); assert(y == x - m); }
    else { lemma_mod_add_multiples_vanish(x - m, m); lemma_small_mod(x as nat, m as nat); assert(y == x); }
    // y == x - k*m with k in {0, 1}
    let k: int = if x >= m { 1 } else { 0 };
    assert(y * r == x * r - (k * r) * m) by (nonlinear_arith) requires y == x - k * m;
    lemma_mod_multiples_vanish(-(k * r), x * r, m);
    assert(m * (-(k * r)) + x * r == x * r - (k * r) * m) by (nonlinear_arith);
}

//@@ fn src/odd.rs | impl PartialEq<Odd<BoxedUint>> for BoxedUint | eq | body | props C06 C11
impl PartialEq<Odd<BoxedUint>> for BoxedUint {
fn eq(&self, other: &Odd<BoxedUint>) -> (ret__: bool)
//@+
    ensures ret__ == (self.v() == other.0.v())
//@-
{
        self.eq(&other.0)
    }
}
//@@ end
//@@ fn src/odd.rs | impl PartialOrd<Odd<BoxedUint>> for BoxedUint | partial_cmp | body | props C06 C11
impl PartialOrd<Odd<BoxedUint>> for BoxedUint {
fn partial_cmp(&self, other: &Odd<BoxedUint>) -> (ret__: Option<Ordering>)
//@+
    ensures ret__ == Some(bord_of(self.v(), other.0.v()))
//@-
{
        Some(self.cmp(&other.0))
    }
}
//@@ end
//@@ fn src/odd.rs | impl<T> Deref for Odd<T> | deref | body | props C12 C11
impl<T> Deref for Odd<T> {
//@+
    type Target = T;
//@-
fn deref(&self) -> (ret__: &T)
//@+
    ensures *ret__ == self.0
//@-
{
        &self.0
    }
}
//@@ end
//@@ fn src/modular/boxed_monty_form/mul.rs | impl<'a> From<&'a BoxedMontyParams> for BoxedMontyMultiplier<'a> | from | stub | props C08 C11
impl<'a> From<&'a BoxedMontyParams> for BoxedMontyMultiplier<'a> {
#[verifier::external_body]
fn from(params: &'a BoxedMontyParams) -> (ret__: BoxedMontyMultiplier<'a>)
//@+
    // ASSUMED. `BoxedMontyMultiplier::new(&params.modulus, params.mod_neg_inv)` has a precondition (precision < 2^32 bits, mod_neg_inv is
    // -1/m mod 2^64); a trait-impl method cannot carry `requires` and vstd's `From` has no `from_req`, so the body cannot be verified in place.
    ensures (params.modulus.0.wf() && neg_inv_ok(params.mod_neg_inv, params.modulus.0.limbs@[0])) ==> mm_for(&ret__, params)
//@-
{
    unimplemented!()
}
}
//@@ end
//@@ fn src/modular/boxed_monty_form/mul.rs | impl<'a> BoxedMontyMultiplier<'a> | mul_assign | body | props C08 C11
impl<'a> BoxedMontyMultiplier<'a> {
pub fn mul_assign(&mut self, a: &mut BoxedUint, b: &BoxedUint)
//@+
    // one operand canonical (< m): the AMM result is then < 2m and ONE conditional subtraction makes it canonical
    requires old(self).wf(), old(a).nl() == old(self).modulus.nl(), b.nl() == old(self).modulus.nl(),
        old(a).v() < old(self).modulus.v() || b.v() < old(self).modulus.v()
    ensures final(self).wf(), final(self).same(old(self)), final(a).nl() == old(a).nl(),
        mont_red(final(a).v(), old(a).v() * b.v(), old(self).modulus.v(), bp(old(a).nl()))
//@-
{
//@+
    let ghost a0 = a.v(); let ghost m = self.modulus.v(); let ghost n = a.nl();
    proof { lemma_rng(a); lemma_rng(b); }
//@-
        self.mul_amm_assign(a, b);
//@+
    let ghost a1 = a.v();
    proof { lemma_amm_lt_2m(a1, a0, b.v(), m, n); lemma_rng(self.modulus); }
//@-
        a.sub_assign_mod_with_carry(Limb::ZERO, self.modulus, self.modulus);
//@+
    proof { lemma_final_sub(a.v(), a1, m, bp(n), a0 * b.v()); }
//@-
        debug_assert!(&*a < self.modulus);
    }
}
//@@ end
//@@ fn src/modular/boxed_monty_form/mul.rs | impl<'a> BoxedMontyMultiplier<'a> | mul | body | props C08 C11
impl<'a> BoxedMontyMultiplier<'a> {
pub fn mul(&mut self, a: &BoxedUint, b: &BoxedUint) -> (ret__: BoxedUint)
//@+
    requires old(self).wf(), a.nl() == old(self).modulus.nl(), b.nl() == old(self).modulus.nl(),
        a.v() < old(self).modulus.v() || b.v() < old(self).modulus.v()
    ensures final(self).wf(), final(self).same(old(self)), ret__.nl() == a.nl(),
        mont_red(ret__.v(), a.v() * b.v(), old(self).modulus.v(), bp(a.nl()))
//@-
{
        let mut ret = a.clone();
        self.mul_assign(&mut ret, b);
        ret
    }
}
//@@ end
//@@ fn src/modular/boxed_monty_form/mul.rs | impl<'a> BoxedMontyMultiplier<'a> | square_assign | body | props C08 C11
impl<'a> BoxedMontyMultiplier<'a> {
pub fn square_assign(&mut self, a: &mut BoxedUint)
//@+
    requires old(self).wf(), old(a).nl() == old(self).modulus.nl(), old(a).v() < old(self).modulus.v()
    ensures final(self).wf(), final(self).same(old(self)), final(a).nl() == old(a).nl(),
        mont_red(final(a).v(), old(a).v() * old(a).v(), old(self).modulus.v(), bp(old(a).nl()))
//@-
{
//@+
    let ghost a0 = a.v(); let ghost m = self.modulus.v(); let ghost n = a.nl();
    proof { lemma_rng(a); }
//@-
        self.square_amm_assign(a);
//@+
    let ghost a1 = a.v();
    proof { lemma_amm_lt_2m(a1, a0, a0, m, n); lemma_rng(self.modulus); }
//@-
        a.sub_assign_mod_with_carry(Limb::ZERO, self.modulus, self.modulus);
//@+
    proof { lemma_final_sub(a.v(), a1, m, bp(n), a0 * a0); }
//@-
        debug_assert!(&*a < self.modulus);
    }
}
//@@ end
//@@ fn src/modular/boxed_monty_form/mul.rs | impl<'a> BoxedMontyMultiplier<'a> | square | body | props C08 C11
impl<'a> BoxedMontyMultiplier<'a> {
pub fn square(&mut self, a: &BoxedUint) -> (ret__: BoxedUint)
//@+
    requires old(self).wf(), a.nl() == old(self).modulus.nl(), a.v() < old(self).modulus.v()
    ensures final(self).wf(), final(self).same(old(self)), ret__.nl() == a.nl(),
        mont_red(ret__.v(), a.v() * a.v(), old(self).modulus.v(), bp(a.nl()))
//@-
{
        let mut ret = a.clone();
        self.square_assign(&mut ret);
        ret
    }
}
//@@ end
//@@ fn src/modular/boxed_monty_form/mul.rs | impl<'a> BoxedMontyMultiplier<'a> | mul_by_one | body | props C08 C11
impl<'a> BoxedMontyMultiplier<'a> {
pub fn mul_by_one(&mut self, a: &BoxedUint) -> (ret__: BoxedUint)
//@+
    // AMM(a, 1) needs no final subtraction when a is canonical; in general the result is only <= m
    requires old(self).wf(), a.nl() == old(self).modulus.nl()
    ensures final(self).wf(), final(self).same(old(self)), ret__.nl() == a.nl(),
        0 <= ret__.v() <= old(self).modulus.v(), (ret__.v() * bp(a.nl())) % old(self).modulus.v() == a.v() % old(self).modulus.v(),
        a.v() < old(self).modulus.v() ==> mont_red(ret__.v(), a.v(), old(self).modulus.v(), bp(a.nl()))
//@-
{
        debug_assert_eq!(a.bits_precision(), self.modulus.bits_precision());
        let mut ret = a.clone();
        self.clear_product();
        almost_montgomery_mul_by_one(
            self.product.as_limbs_mut(),
            a.as_limbs(),
            self.modulus.as_limbs(),
            self.mod_neg_inv,
        );
        ret.limbs.copy_from_slice(&self.product.limbs);
        // Note: no reduction is required, see the doc comment of `almost_montgomery_mul()`.
        ret
    }
}
//@@ end
//@@ fn src/modular/boxed_monty_form/mul.rs | impl<'a> BoxedMontyMultiplier<'a> | square_amm | body | props C08 C11
impl<'a> BoxedMontyMultiplier<'a> {
pub fn square_amm(&mut self, a: &BoxedUint) -> (ret__: BoxedUint)
//@+
    requires old(self).wf(), a.nl() == old(self).modulus.nl()
    ensures final(self).wf(), final(self).same(old(self)), ret__.nl() == a.nl(),
        amm_post(ret__.v(), a.v(), a.v(), old(self).modulus.v(), a.nl())
//@-
{
        let mut ret = a.clone();
        self.square_amm_assign(&mut ret);
        ret
    }
}
//@@ end

//@@ fn src/uint/boxed.rs | impl BoxedUint | one | body | props C15 C11
impl BoxedUint {
pub fn one() -> (ret__: Self)
//@+
    ensures ret__.nl() == 1, ret__.v() == 1
//@-
{
//@+
    proof {
        assert forall|s: Seq<Limb>| s.len() == 1 implies #[trigger] val(s, s.len()) == s[0].0 as int by { lemma_val_single(s, 1); }
    }
//@-
        Self {
            limbs: vec![Limb::ONE; 1].into(),
        }
    }
}
//@@ end
//@@ fn src/uint/boxed.rs | impl BoxedUint | max | body | props C15 C11
impl BoxedUint {
pub fn max(at_least_bits_precision: u32) -> (ret__: Self)
//@+
    ensures ret__.nl() == nlimbs_for(at_least_bits_precision),
        at_least_bits_precision > 0 ==> ret__.v() == bp(ret__.nl()) - 1,
        at_least_bits_precision == 0 ==> ret__.v() == 0
//@-
{
//@+
    proof {
        assert forall|s: Seq<Limb>| (forall|k: int| 0 <= k < s.len() ==> s[k].0 == u64::MAX) implies #[trigger] val(s, s.len()) == bp(s.len()) - 1 by { lemma_val_all_max(s, s.len()); }
        assert forall|s: Seq<Limb>| s.len() == 1 && s[0].0 == 0 implies #[trigger] val(s, s.len()) == 0 by { lemma_val_single(s, 1); }
    }
//@-
        vec![Limb::MAX; Self::limbs_for_precision(at_least_bits_precision)].into()
    }
}
//@@ end
//@@ fn src/uint/boxed/mul.rs | impl BoxedUint | square | body | props C03 C15 C11
impl BoxedUint {
pub fn square(&self) -> (ret__: Self)
//@+
    requires 1 <= self.nl() < 0x200_0000
    ensures ret__.nl() == 2 * self.nl(), ret__.v() == self.v() * self.v()
//@-
{
        let size = self.nlimbs() * 2;
        if self.nlimbs() >= KARATSUBA_MIN_STARTING_LIMBS * 2 {
            let mut limbs = vec![Limb::ZERO; size * 2];
            let (out, scratch) = limbs.as_mut_slice().split_at_mut(size);
            karatsuba_square_limbs(&self.limbs, out, scratch);
//@+
    let ghost ov = out@;
//@-
            limbs.truncate(size);
//@+
    proof { assert(limbs@ =~= ov); }
//@-
            return limbs.into();
        }
        let mut limbs = vec![Limb::ZERO; size];
        square_limbs(&self.limbs, &mut limbs);
        limbs.into()
    }
}
//@@ end
// S2 (re-borrow through a named temporary): Verus leaves a range IndexMut taken directly on a `Box<[Limb]>` place unconstrained
//@@ subst ^(\s*)ret\.limbs\[\.\.self\.nlimbs\(\)\]\.copy_from_slice\(&self\.limbs\);\s*$ => \1{ let ret_limbs__: &mut [Limb] = &mut ret.limbs; ret_limbs__[..self.nlimbs()].copy_from_slice(&self.limbs); }
//@@ fn src/uint/boxed.rs | impl BoxedUint | widen | body | props C15 C11
impl BoxedUint {
pub fn widen(&self, at_least_bits_precision: u32) -> (ret__: BoxedUint)
//@+
    // zero extension; `assert!(at_least_bits_precision >= self.bits_precision())` is the precondition
    requires self.limbs@.len() < 0x400_0000, at_least_bits_precision as int >= 64 * self.nl()
    ensures ret__.nl() == nlimbs_for(at_least_bits_precision), ret__.v() == self.v()
//@-
{
        assert!(at_least_bits_precision >= self.bits_precision());
        let mut ret = BoxedUint::zero_with_precision(at_least_bits_precision);
//@+
    let ghost r0 = ret.limbs@; let ghost n = self.limbs@.len(); let ghost m = ret.limbs@.len();
    proof { assert(n <= m); }
//@-
        { let ret_limbs__: &mut [Limb] = &mut ret.limbs; ret_limbs__[..self.nlimbs()].copy_from_slice(&self.limbs); }
//@+
    proof {
        assert(ret.limbs@.len() == m);
        assert(ret.limbs@.subrange(0, n as int) =~= self.limbs@);
        assert forall|k: int| n <= k < m implies ret.limbs@[k].0 == 0 by { assert(ret.limbs@[k] == r0[k]); }
        lemma_val_ext(ret.limbs@, self.limbs@, n);
        lemma_val_hi_zero(ret.limbs@, n, m);
    }
//@-
        ret
    }
}
//@@ end
//@@ subst-clear
//@@ fn src/uint/boxed.rs | impl NonZero<BoxedUint> | widen | body | props C15 C11
impl NonZero<BoxedUint> {
pub fn widen(&self, bits_precision: u32) -> (ret__: Self)
//@+
    requires self.0.limbs@.len() < 0x400_0000, bits_precision as int >= 64 * self.0.nl()
    ensures ret__.0.nl() == nlimbs_for(bits_precision), ret__.0.v() == self.0.v()
//@-
{
        NonZero(self.0.widen(bits_precision))
    }
}
//@@ end
//@@ fn src/modular/boxed_monty_form.rs | impl BoxedMontyParams | new | body | props C08 C11
impl BoxedMontyParams {
pub fn new(modulus: Odd<BoxedUint>) -> (ret__: Self)
//@+
    // n < 2^25: `bits_precision * 2` is computed in u32
    requires 1 <= modulus.0.nl() < 0x200_0000, modulus.0.v() % 2 == 1
    ensures bparams_for(&ret__, &modulus), ret__.modulus == modulus, ret__.wf_rest(),
        modulus.0.v() != 1 ==> ret__.wf(),
        // the code yields one == 1 (not R mod m == 0) for the modulus 1: known finding F13, same as the fixed-width constructors
        modulus.0.v() == 1 ==> ret__.one.v() == 1
//@-
{
//@+
    let ghost n = modulus.0.nl(); let ghost m = modulus.0.v(); let ghost r = bp(n);
    proof { lemma_rng(&modulus.0); lemma_nlimbs_for(n); lemma_nlimbs_for(2 * n); }
//@-
        let bits_precision = modulus.bits_precision();
        // `R mod modulus` where `R = 2^BITS`.
        // Represents 1 in Montgomery form.
        let one = BoxedUint::max(bits_precision)
            .rem(modulus.as_nz_ref())
            .wrapping_add(&BoxedUint::one());
//@+
    proof {
        lemma_mod_bound(r - 1, m);
        lemma_small_mod(((r - 1) % m + 1) as nat, r as nat);
        lemma_one_cong(one.v(), m, n);
        lemma_r2_def(one.v(), m, r);
        lemma_mod_bound(r * r, m);
        lemma_small_mod(((r * r) % m) as nat, r as nat);
    }
//@-
        // `R^2 mod modulus`, used to convert integers to Montgomery form.
        let r2 = one
            .square()
            .rem(&modulus.as_nz_ref().widen(bits_precision * 2))
            .shorten(bits_precision);
        // The modular inverse should always exist, because it was ensured odd above, which also ensures it's non-zero
        let (inv_mod_limb, inv_mod_limb_exists) = modulus.inv_mod2k_vartime(Word::BITS);
//@+
    proof { lemma_pow2_64(); lemma_small_mod(1, B() as nat); }
//@-
        debug_assert!(bool::from(inv_mod_limb_exists));
        let mod_neg_inv = Limb(Word::MIN.wrapping_sub(inv_mod_limb.limbs[0].0));
//@+
    proof {
        lemma_val_low(modulus.0.limbs@, n); lemma_val_low(inv_mod_limb.limbs@, n);
        lemma_small_mod(inv_mod_limb.v() as nat, B() as nat);
        lemma_neg_inv_def(mod_neg_inv.0 as int, inv_mod_limb.limbs@[0].0 as int, inv_mod_limb.v(), modulus.0.limbs@[0].0 as int, m);
    }
//@-
        let mod_leading_zeros = modulus.as_ref().leading_zeros().min(Word::BITS - 1);
//@+
    proof {
        // the (unnamed) result z of `leading_zeros()`: for z >= 63, m < 2^(64n - z) <= 2^(64n - 63)
        assert forall|z: int| 63 <= z <= 64 * n implies #[trigger] p2((64 * n - z) as nat) <= p2((64 * n - 63) as nat) by {
            crate::l6_montyform::lemma_p2_mono((64 * n - z) as nat, (64 * n - 63) as nat);
        }
    }
//@-
        let r3 = {
            let mut mm = BoxedMontyMultiplier::new(&modulus, mod_neg_inv);
            mm.square(&r2)
        };
//@+
    proof { lemma_r3_def(r3.v(), r2.v(), m, n); }
//@-
        Self {
            modulus,
            one,
            r2,
            r3,
            mod_neg_inv,
            mod_leading_zeros,
        }
    }
}
//@@ end
//@@ fn src/modular/boxed_monty_form.rs | impl BoxedMontyParams | new_vartime | body | props C08 C11
impl BoxedMontyParams {
pub fn new_vartime(modulus: Odd<BoxedUint>) -> (ret__: Self)
//@+
    // n < 2^25: `bits_precision * 2` is computed in u32; modulus < 2^64: `BoxedUint::rem_vartime` is proved for single-limb divisor VALUES only (LIMITATION 1 of l8_boxed_methods.rs)
    requires 1 <= modulus.0.nl() < 0x200_0000, modulus.0.v() % 2 == 1,
        modulus.0.v() < B()
    ensures bparams_for(&ret__, &modulus), ret__.modulus == modulus, ret__.wf_rest(),
        modulus.0.v() != 1 ==> ret__.wf(),
        // the code yields one == 1 (not R mod m == 0) for the modulus 1: known finding F13, same as the fixed-width constructors
        modulus.0.v() == 1 ==> ret__.one.v() == 1
//@-
{
//@+
    let ghost n = modulus.0.nl(); let ghost m = modulus.0.v(); let ghost r = bp(n);
    proof { lemma_rng(&modulus.0); lemma_nlimbs_for(n); lemma_nlimbs_for(2 * n); }
//@-
        let bits_precision = modulus.bits_precision();
        // `R mod modulus` where `R = 2^BITS`.
        // Represents 1 in Montgomery form.
        let one = BoxedUint::max(bits_precision)
            .rem_vartime(modulus.as_nz_ref())
            .wrapping_add(&BoxedUint::one());
//@+
    proof {
        lemma_mod_bound(r - 1, m);
        lemma_small_mod(((r - 1) % m + 1) as nat, r as nat);
        lemma_one_cong(one.v(), m, n);
        lemma_r2_def(one.v(), m, r);
        lemma_mod_bound(r * r, m);
        lemma_small_mod(((r * r) % m) as nat, r as nat);
    }
//@-
        // `R^2 mod modulus`, used to convert integers to Montgomery form.
        let r2 = one
            .square()
            .rem_vartime(&modulus.as_nz_ref().widen(bits_precision * 2))
            .shorten(bits_precision);
        // The modular inverse should always exist, because it was ensured odd above, which also ensures it's non-zero
        let (inv_mod_limb, inv_mod_limb_exists) = modulus.inv_mod2k_full_vartime(Word::BITS);
//@+
    proof { lemma_pow2_64(); lemma_small_mod(1, B() as nat); }
//@-
        debug_assert!(bool::from(inv_mod_limb_exists));
        let mod_neg_inv = Limb(Word::MIN.wrapping_sub(inv_mod_limb.limbs[0].0));
//@+
    proof {
        lemma_val_low(modulus.0.limbs@, n); lemma_val_low(inv_mod_limb.limbs@, n);
        lemma_small_mod(inv_mod_limb.v() as nat, B() as nat);
        lemma_neg_inv_def(mod_neg_inv.0 as int, inv_mod_limb.limbs@[0].0 as int, inv_mod_limb.v(), modulus.0.limbs@[0].0 as int, m);
    }
//@-
        let mod_leading_zeros = modulus.as_ref().leading_zeros().min(Word::BITS - 1);
//@+
    proof {
        // the (unnamed) result z of `leading_zeros()`: for z >= 63, m < 2^(64n - z) <= 2^(64n - 63)
        assert forall|z: int| 63 <= z <= 64 * n implies #[trigger] p2((64 * n - z) as nat) <= p2((64 * n - 63) as nat) by {
            crate::l6_montyform::lemma_p2_mono((64 * n - z) as nat, (64 * n - 63) as nat);
        }
    }
//@-
        let r3 = {
            let mut mm = BoxedMontyMultiplier::new(&modulus, mod_neg_inv);
            mm.square(&r2)
        };
//@+
    proof { lemma_r3_def(r3.v(), r2.v(), m, n); }
//@-
        Self {
            modulus,
            one,
            r2,
            r3,
            mod_neg_inv,
            mod_leading_zeros,
        }
    }
}
//@@ end

//@@ fn src/modular/boxed_monty_form.rs | - | convert_to_montgomery | body | props C08 C11
pub fn convert_to_montgomery(integer: &mut BoxedUint, params: &BoxedMontyParams)
//@+
    requires params.wf(), old(integer).nl() == params.modulus.0.nl()
    ensures final(integer).nl() == old(integer).nl(), final(integer).v() < params.modulus.0.v(),
        final(integer).v() == (old(integer).v() * bp(params.modulus.0.nl())) % params.modulus.0.v(),
        mont_repr(final(integer).v(), params.modulus.0.v(), params.modulus.0.nl()) == old(integer).v() % params.modulus.0.v()
//@-
{
//@+
    let ghost x = integer.v();
    proof { lemma_params_rng(params); lemma_mod_bound(bp(params.modulus.0.nl()) * bp(params.modulus.0.nl()), params.modulus.0.v()); }
//@-
    let mut mm = BoxedMontyMultiplier::from(params);
    mm.mul_assign(integer, &params.r2);
//@+
    proof { lemma_convert(integer.v(), x, params.r2.v(), params.modulus.0.v(), params.modulus.0.nl()); }
//@-
}
//@@ end
//@@ fn src/modular/boxed_monty_form.rs | impl BoxedMontyParams | modulus | body | props C08 C11
impl BoxedMontyParams {
pub fn modulus(&self) -> (ret__: &Odd<BoxedUint>)
//@+
    ensures *ret__ == self.modulus
//@-
{
        &self.modulus
    }
}
//@@ end
//@@ fn src/modular/boxed_monty_form.rs | impl BoxedMontyParams | bits_precision | body | props C08 C15 C11
impl BoxedMontyParams {
pub fn bits_precision(&self) -> (ret__: u32)
//@+
    requires self.modulus.0.limbs@.len() < 0x400_0000
    ensures ret__ as int == 64 * self.modulus.0.nl()
//@-
{
        self.modulus.bits_precision()
    }
}
//@@ end
//@@ fn src/modular/boxed_monty_form.rs | impl BoxedMontyForm | new | body | props C08 C11
impl BoxedMontyForm {
pub fn new(mut integer: BoxedUint, params: BoxedMontyParams) -> (ret__: Self)
//@+
    requires params.wf(), integer.nl() == params.modulus.0.nl()
    ensures ret__.wf(), *ret__.params == params,
        ret__.view() == integer.v() % params.modulus.0.v(),
        ret__.montgomery_form.v() == (integer.v() * bp(params.modulus.0.nl())) % params.modulus.0.v()
//@-
{
        debug_assert_eq!(integer.bits_precision(), params.bits_precision());
        convert_to_montgomery(&mut integer, &params);
        Self {
            montgomery_form: integer,
            params: params.into(),
        }
    }
}
//@@ end
//@@ fn src/modular/boxed_monty_form.rs | impl BoxedMontyForm | new_with_arc | body | props C08 C11
impl BoxedMontyForm {
pub fn new_with_arc(mut integer: BoxedUint, params: Arc<BoxedMontyParams>) -> (ret__: Self)
//@+
    requires params.wf(), integer.nl() == params.modulus.0.nl()
    ensures ret__.wf(), ret__.params == params,
        ret__.view() == integer.v() % params.modulus.0.v(),
        ret__.montgomery_form.v() == (integer.v() * bp(params.modulus.0.nl())) % params.modulus.0.v()
//@-
{
        debug_assert_eq!(integer.bits_precision(), params.bits_precision());
        convert_to_montgomery(&mut integer, &params);
        Self {
            montgomery_form: integer,
            params,
        }
    }
}
//@@ end
//@@ fn src/modular/boxed_monty_form.rs | impl BoxedMontyForm | bits_precision | body | props C08 C15 C11
impl BoxedMontyForm {
pub fn bits_precision(&self) -> (ret__: u32)
//@+
    requires self.params.modulus.0.limbs@.len() < 0x400_0000
    ensures ret__ as int == 64 * self.params.modulus.0.nl()
//@-
{
        self.params.bits_precision()
    }
}
//@@ end
//@@ fn src/modular/boxed_monty_form.rs | impl BoxedMontyForm | retrieve | body | props C08 C11
impl BoxedMontyForm {
pub fn retrieve(&self) -> (ret__: BoxedUint)
//@+
    requires self.wf()
    ensures ret__.nl() == self.params.modulus.0.nl(), ret__.v() == self.view(), ret__.v() < self.params.modulus.0.v()
//@-
{
//@+
    proof { lemma_params_rng(&self.params); }
//@-
        let mut mm = BoxedMontyMultiplier::from(self.params.as_ref());
//@+
    proof {
        assert forall|r: int| mont_red(r, self.montgomery_form.v(), self.params.modulus.0.v(), bp(self.params.modulus.0.nl())) implies r == self.view() by {
            lemma_mont_repr_unique(r, self.montgomery_form.v(), self.params.modulus.0.v(), self.params.modulus.0.nl());
        }
    }
//@-
        mm.mul_by_one(&self.montgomery_form)
    }
}
//@@ end
//@@ fn src/modular/boxed_monty_form.rs | impl BoxedMontyForm | zero | body | props C08 C11
impl BoxedMontyForm {
pub fn zero(params: BoxedMontyParams) -> (ret__: Self)
//@+
    requires params.wf()
    ensures ret__.wf(), *ret__.params == params, ret__.view() == 0, ret__.montgomery_form.v() == 0
//@-
{
//@+
    proof { lemma_params_rng(&params); lemma_repr_zero(params.modulus.0.v(), params.modulus.0.nl()); }
//@-
        Self {
            montgomery_form: BoxedUint::zero_with_precision(params.bits_precision()),
            params: params.into(),
        }
    }
}
//@@ end
//@@ fn src/modular/boxed_monty_form.rs | impl BoxedMontyForm | one | body | props C08 C11
impl BoxedMontyForm {
pub fn one(params: BoxedMontyParams) -> (ret__: Self)
//@+
    requires params.wf()
    ensures ret__.wf(), *ret__.params == params, ret__.view() == 1int % params.modulus.0.v(), ret__.montgomery_form.limbs@ == params.one.limbs@
//@-
{
//@+
    proof {
        let n = params.modulus.0.nl(); let m = params.modulus.0.v();
        lemma_params_rng(&params);
        lemma_mod_bound(bp(n), m);
        assert(1 * bp(n) == bp(n));
        lemma_mont_repr_of(1, m, n);
    }
//@-
        Self {
            montgomery_form: params.one.clone(),
            params: params.into(),
        }
    }
}
//@@ end
//@@ fn src/modular/boxed_monty_form.rs | impl BoxedMontyForm | is_zero | body | props C08 C06 C11
impl BoxedMontyForm {
pub fn is_zero(&self) -> (ret__: Choice)
//@+
    ensures ret__.wf(), ret__.t() == (self.montgomery_form.v() == 0), self.wf() ==> ret__.t() == (self.view() == 0)
//@-
{
//@+
    proof { if self.wf() { lemma_params_rng(&self.params); lemma_rng(&self.montgomery_form); lemma_repr_zero_iff(self.montgomery_form.v(), self.params.modulus.0.v(), self.params.modulus.0.nl()); } }
//@-
        self.montgomery_form.is_zero()
    }
}
//@@ end
//@@ fn src/modular/boxed_monty_form.rs | impl BoxedMontyForm | is_nonzero | body | props C08 C06 C11
impl BoxedMontyForm {
pub fn is_nonzero(&self) -> (ret__: Choice)
//@+
    ensures ret__.wf(), ret__.t() == (self.montgomery_form.v() != 0), self.wf() ==> ret__.t() == (self.view() != 0)
//@-
{
//@+
    proof { lemma_not_all(); }
//@-
        !self.is_zero()
    }
}
//@@ end
//@@ fn src/modular/boxed_monty_form.rs | impl BoxedMontyForm | params | body | props C08 C11
impl BoxedMontyForm {
pub fn params(&self) -> (ret__: &BoxedMontyParams)
//@+
    ensures *ret__ == *self.params
//@-
{
        &self.params
    }
}
//@@ end
//@@ fn src/modular/boxed_monty_form.rs | impl BoxedMontyForm | as_montgomery | body | props C08 C11
impl BoxedMontyForm {
pub fn as_montgomery(&self) -> (ret__: &BoxedUint)
//@+
    // `debug_assert!(self.montgomery_form < self.params.modulus)`: the canonicity half of wf() is checked at run time (debug builds)
    requires self.montgomery_form.v() < self.params.modulus.0.v()
    ensures *ret__ == self.montgomery_form
//@-
{
        debug_assert!(self.montgomery_form < self.params.modulus);
        &self.montgomery_form
    }
}
//@@ end
//@@ fn src/modular/boxed_monty_form.rs | impl BoxedMontyForm | from_montgomery | body | props C08 C11
impl BoxedMontyForm {
pub fn from_montgomery(integer: BoxedUint, params: BoxedMontyParams) -> (ret__: Self)
//@+
    // unchecked constructor (only the precision is asserted): the result is wf only if the argument is canonical
    requires params.modulus.0.wf(), integer.nl() == params.modulus.0.nl()
    ensures ret__.montgomery_form == integer, *ret__.params == params,
        (params.wf() && integer.v() < params.modulus.0.v()) ==> ret__.wf()
//@-
{
        debug_assert_eq!(integer.bits_precision(), params.bits_precision());
        Self {
            montgomery_form: integer,
            params: params.into(),
        }
    }
}
//@@ end
//@@ fn src/modular/boxed_monty_form.rs | impl BoxedMontyForm | to_montgomery | body | props C08 C11
impl BoxedMontyForm {
pub fn to_montgomery(&self) -> (ret__: BoxedUint)
//@+
    requires self.montgomery_form.v() < self.params.modulus.0.v()
    ensures ret__.limbs@ == self.montgomery_form.limbs@
//@-
{
        debug_assert!(self.montgomery_form < self.params.modulus);
        self.montgomery_form.clone()
    }
}
//@@ end
//@@ fn src/modular/div_by_2.rs | - | div_by_2_boxed_assign | body | props C08 C11
pub fn div_by_2_boxed_assign(a: &mut BoxedUint, modulus: &Odd<BoxedUint>)
//@+
    requires old(a).wf(), modulus.0.nl() == old(a).nl(), modulus.0.v() % 2 == 1, old(a).v() < modulus.0.v()
    ensures final(a).nl() == old(a).nl(), final(a).v() < modulus.0.v(), (2 * final(a).v()) % modulus.0.v() == old(a).v()
//@-
{
//@+
    let ghost a0 = a.v(); let ghost n = a.nl(); let ghost m = modulus.0.v();
    proof { lemma_rng(a); lemma_rng(&modulus.0); }
//@-
    debug_assert_eq!(a.bits_precision(), modulus.bits_precision());
    let is_odd = a.is_odd();
    let carry = a.conditional_adc_assign(modulus, is_odd);
//@+
    let ghost a1 = a.v();
    proof { lemma_rng(a); }
//@-
    a.shr1_assign();
//@+
    let ghost a2 = a.v();
    let ghost hb = p2((64 * n - 1) as nat);
    proof {
        lemma_bp_pow2(n); lemma_p2_succ((64 * n - 1) as nat); lemma_p2_pos((64 * n - 1) as nat);
        assert(bp(n) == 2 * hb);
        assert(0 <= a2 < hb);
        lemma_small_mod(0, 2);
        assert(a2 / hb == 0) by { lemma_basic_div(a2, hb); }
        assert((0int % 2) * hb == 0);
    }
//@-
    a.set_bit(a.bits_precision() - 1, carry);
//@+
    proof {
        let c: int = if carry.t() { 1 } else { 0 };
        assert(a.v() == a2 + c * hb);
        assert(2 * a.v() == a0 + (if a0 % 2 == 1 { m } else { 0 })) by {
            assert(a1 + c * (2 * hb) == a0 + (if a0 % 2 == 1 { m } else { 0 }));
            assert(c * (2 * hb) == 2 * (c * hb)) by (nonlinear_arith);
            assert((a0 + (if a0 % 2 == 1 { m } else { 0 })) % 2 == 0);
            assert(a1 % 2 == 0) by {
                lemma_mod_multiples_vanish(-(c * hb), a1 + 2 * (c * hb), 2);
            }
        }
        lemma_half(a.v(), a0, m);
    }
//@-
}
//@@ end
//@@ fn src/modular/div_by_2.rs | - | div_by_2_boxed | body | props C08 C11
pub fn div_by_2_boxed(a: &BoxedUint, modulus: &Odd<BoxedUint>) -> (ret__: BoxedUint)
//@+
    requires a.wf(), modulus.0.nl() == a.nl(), modulus.0.v() % 2 == 1, a.v() < modulus.0.v()
    ensures ret__.nl() == a.nl(), ret__.v() < modulus.0.v(), (2 * ret__.v()) % modulus.0.v() == a.v()
//@-
{
    let mut result = a.clone();
    div_by_2_boxed_assign(&mut result, modulus);
    result
}
//@@ end
//@@ fn src/modular/boxed_monty_form.rs | impl BoxedMontyForm | div_by_2 | body | props C08 C11
impl BoxedMontyForm {
pub fn div_by_2(&self) -> (ret__: Self)
//@+
    requires self.wf()
    ensures ret__.wf(), ret__.params == self.params, (2 * ret__.view()) % self.params.modulus.0.v() == self.view()
//@-
{
//@+
    proof {
        let n = self.params.modulus.0.nl(); let m = self.params.modulus.0.v(); let a = self.montgomery_form.v();
        lemma_params_rng(&self.params);
        assert forall|r: int| (2 * r) % m == a implies (2 * #[trigger] mont_repr(r, m, n)) % m == mont_repr(a, m, n) by {
            lemma_repr_half(r, a, m, n);
        }
    }
//@-
        Self {
            montgomery_form: div_by_2::div_by_2_boxed(&self.montgomery_form, &self.params.modulus),
            params: self.params.clone(),
        }
    }
}
//@@ end
//@@ fn src/modular/boxed_monty_form.rs | impl BoxedMontyForm | div_by_2_assign | body | props C08 C11
impl BoxedMontyForm {
pub fn div_by_2_assign(&mut self)
//@+
    requires old(self).wf()
    ensures final(self).wf(), final(self).params == old(self).params, (2 * final(self).view()) % old(self).params.modulus.0.v() == old(self).view()
//@-
{
//@+
    proof {
        let n = self.params.modulus.0.nl(); let m = self.params.modulus.0.v(); let a = self.montgomery_form.v();
        lemma_params_rng(&self.params);
        assert forall|r: int| (2 * r) % m == a implies (2 * #[trigger] mont_repr(r, m, n)) % m == mont_repr(a, m, n) by {
            lemma_repr_half(r, a, m, n);
        }
    }
//@-
        div_by_2::div_by_2_boxed_assign(&mut self.montgomery_form, &self.params.modulus)
    }
}
//@@ end
//@@ fn src/modular/boxed_monty_form/add.rs | impl BoxedMontyForm | add | body | props C08 C11
impl BoxedMontyForm {
pub fn add(&self, rhs: &Self) -> (ret__: Self)
//@+
    requires self.wf(), rhs.wf(), same_modulus(&self.params, &rhs.params)
    ensures ret__.wf(), ret__.params == self.params, ret__.view() == (self.view() + rhs.view()) % self.params.modulus.0.v()
//@-
{
//@+
    proof {
        lemma_params_rng(&self.params); lemma_bparams_wf_unique(&self.params, &rhs.params);
        lemma_mont_repr_add(self.montgomery_form.v(), rhs.montgomery_form.v(), self.params.modulus.0.v(), self.params.modulus.0.nl());
    }
//@-
        debug_assert_eq!(self.params, rhs.params);
        Self {
            montgomery_form: self
                .montgomery_form
                .add_mod(&rhs.montgomery_form, &self.params.modulus),
            params: self.params.clone(),
        }
    }
}
//@@ end
//@@ fn src/modular/boxed_monty_form/add.rs | impl BoxedMontyForm | double | body | props C08 C11
impl BoxedMontyForm {
pub fn double(&self) -> (ret__: Self)
//@+
    requires self.wf()
    ensures ret__.wf(), ret__.params == self.params, ret__.view() == (2 * self.view()) % self.params.modulus.0.v()
//@-
{
//@+
    proof {
        lemma_params_rng(&self.params);
        lemma_mont_repr_add(self.montgomery_form.v(), self.montgomery_form.v(), self.params.modulus.0.v(), self.params.modulus.0.nl());
    }
//@-
        Self {
            montgomery_form: self.montgomery_form.double_mod(&self.params.modulus),
            params: self.params.clone(),
        }
    }
}
//@@ end
//@@ fn src/modular/boxed_monty_form/sub.rs | impl BoxedMontyForm | sub | body | props C08 C11
impl BoxedMontyForm {
pub fn sub(&self, rhs: &Self) -> (ret__: Self)
//@+
    requires self.wf(), rhs.wf(), same_modulus(&self.params, &rhs.params)
    ensures ret__.wf(), ret__.params == self.params, ret__.view() == (self.view() - rhs.view()) % self.params.modulus.0.v()
//@-
{
//@+
    proof {
        lemma_params_rng(&self.params); lemma_bparams_wf_unique(&self.params, &rhs.params);
        lemma_mont_repr_sub(self.montgomery_form.v(), rhs.montgomery_form.v(), self.params.modulus.0.v(), self.params.modulus.0.nl());
    }
//@-
        debug_assert_eq!(self.params, rhs.params);
        Self {
            montgomery_form: self
                .montgomery_form
                .sub_mod(&rhs.montgomery_form, &self.params.modulus),
            params: self.params.clone(),
        }
    }
}
//@@ end
//@@ fn src/modular/boxed_monty_form/neg.rs | impl BoxedMontyForm | neg | body | props C08 C11
impl BoxedMontyForm {
pub fn neg(&self) -> (ret__: Self)
//@+
    requires self.wf()
    ensures ret__.wf(), ret__.params == self.params, ret__.view() == (-self.view()) % self.params.modulus.0.v()
//@-
{
//@+
    proof {
        lemma_params_rng(&self.params);
        lemma_repr_neg(self.montgomery_form.v(), self.params.modulus.0.v(), self.params.modulus.0.nl());
    }
//@-
        Self {
            montgomery_form: self.montgomery_form.neg_mod(&self.params.modulus),
            params: self.params.clone(),
        }
    }
}
//@@ end
//@@ fn src/modular/boxed_monty_form/mul.rs | impl BoxedMontyForm | mul | body | props C08 C11
impl BoxedMontyForm {
pub fn mul(&self, rhs: &Self) -> (ret__: Self)
//@+
    requires self.wf(), rhs.wf(), same_modulus(&self.params, &rhs.params)
    ensures ret__.wf(), ret__.params == self.params, ret__.view() == (self.view() * rhs.view()) % self.params.modulus.0.v()
//@-
{
//@+
    proof {
        lemma_params_rng(&self.params); lemma_bparams_wf_unique(&self.params, &rhs.params); axiom_arc_partial_eq_model();
        assert forall|r: int| mont_red(r, self.montgomery_form.v() * rhs.montgomery_form.v(), self.params.modulus.0.v(), bp(self.params.modulus.0.nl()))
            implies #[trigger] mont_repr(r, self.params.modulus.0.v(), self.params.modulus.0.nl()) == (self.view() * rhs.view()) % self.params.modulus.0.v() by {
            lemma_mont_repr_mul(r, self.montgomery_form.v(), rhs.montgomery_form.v(), self.params.modulus.0.v(), self.params.modulus.0.nl());
        }
    }
//@-
        debug_assert_eq!(&self.params, &rhs.params);
        let montgomery_form = BoxedMontyMultiplier::from(self.params.borrow())
            .mul(&self.montgomery_form, &rhs.montgomery_form);
        Self {
            montgomery_form,
            params: self.params.clone(),
        }
    }
}
//@@ end
//@@ fn src/modular/boxed_monty_form/mul.rs | impl BoxedMontyForm | square | body | props C08 C11
impl BoxedMontyForm {
pub fn square(&self) -> (ret__: Self)
//@+
    requires self.wf()
    ensures ret__.wf(), ret__.params == self.params, ret__.view() == (self.view() * self.view()) % self.params.modulus.0.v()
//@-
{
//@+
    proof {
        lemma_params_rng(&self.params);
        assert forall|r: int| mont_red(r, self.montgomery_form.v() * self.montgomery_form.v(), self.params.modulus.0.v(), bp(self.params.modulus.0.nl()))
            implies #[trigger] mont_repr(r, self.params.modulus.0.v(), self.params.modulus.0.nl()) == (self.view() * self.view()) % self.params.modulus.0.v() by {
            lemma_mont_repr_mul(r, self.montgomery_form.v(), self.montgomery_form.v(), self.params.modulus.0.v(), self.params.modulus.0.nl());
        }
    }
//@-
        let montgomery_form =
            BoxedMontyMultiplier::from(self.params.borrow()).square(&self.montgomery_form);
        Self {
            montgomery_form,
            params: self.params.clone(),
        }
    }
}
//@@ end

//@@ fn src/modular/boxed_monty_form/pow.rs | impl BoxedMontyForm | pow_bounded_exp | body | props C09 C08 C11
impl BoxedMontyForm {
pub fn pow_bounded_exp(&self, exponent: &BoxedUint, exponent_bits: u32) -> (ret__: Self)
//@+
    // the VALUE (self^(exponent mod 2^exponent_bits)) is not available: `pow_montgomery_form` (l8_boxed_pow.rs) is proved for totality,
    // precision and canonical range only; canonicity (`ret__.wf()`: what `debug_assert!(ret.retrieve() < modulus)` checks) is carried
    requires self.wf(), exponent.nl() < 0x400_0000, exponent_bits as int <= 64 * exponent.nl()
    ensures ret__.wf(), ret__.params == self.params
//@-
{
//@+
    proof { lemma_params_rng(&self.params); lemma_mod_bound(bp(self.params.modulus.0.nl()), self.params.modulus.0.v()); }
//@-
        let ret = Self {
            montgomery_form: pow_montgomery_form(
                &self.montgomery_form,
                exponent,
                exponent_bits,
                &self.params.modulus,
                &self.params.one,
                self.params.mod_neg_inv,
            ),
            params: self.params.clone(),
        };
        debug_assert!(ret.retrieve() < self.params.modulus);
        ret
    }
}
//@@ end
//@@ fn src/modular/boxed_monty_form/pow.rs | impl BoxedMontyForm | pow | body | props C09 C08 C11
impl BoxedMontyForm {
pub fn pow(&self, exponent: &BoxedUint) -> (ret__: Self)
//@+
    requires self.wf(), exponent.nl() < 0x400_0000
    ensures ret__.wf(), ret__.params == self.params
//@-
{
        self.pow_bounded_exp(exponent, exponent.bits_precision())
    }
}
//@@ end

// ---- operators (`core::ops`): contracts through vstd's `XSpecImpl` (`x_req` = precondition; `obeys_x_spec() == true`, `x_spec` = THE value
// characterised by the postcondition -- unique by lemma_bmf_unique, so `choose` is a definition, not a guess) and, where Verus can type it,
// an explicit `ensures` (it cannot for `&a OP b` with a by-value `b`: the result binder of an `ensures` on a trait-impl method is typed with
// `self.OP(rhs)`, which resolves to the inherent `BoxedMontyForm::OP(&self, &Self)`).

/// a well-formed value is determined by its parameters and the residue it represents
pub proof fn lemma_bmf_unique(a: BoxedMontyForm, b: BoxedMontyForm)
    requires a.wf(), b.wf(), a.params == b.params, a.view() == b.view()
    ensures a == b
{
    let m = a.params.modulus.0.v(); let n = a.params.modulus.0.nl();
    lemma_params_rng(&a.params);
    lemma_rng(&a.montgomery_form); lemma_rng(&b.montgomery_form);
    lemma_mont_repr(a.montgomery_form.v(), m, n); lemma_mont_repr(b.montgomery_form.v(), m, n);
    lemma_small_mod(a.montgomery_form.v() as nat, m as nat); lemma_small_mod(b.montgomery_form.v() as nat, m as nat);
    lemma_val_inj(a.montgomery_form.limbs@, b.montgomery_form.limbs@, n);
    assert(a.montgomery_form.limbs@ =~= b.montgomery_form.limbs@);
    assert(a.montgomery_form.limbs =~= b.montgomery_form.limbs);
}

/// precondition of the binary operators: both well formed, same modulus (value and precision)
pub open spec fn bmf_bin_req(a: BoxedMontyForm, b: BoxedMontyForm) -> bool { a.wf() && b.wf() && same_modulus(&a.params, &b.params) }
/// r is THE well-formed value with the parameters of a that represents x mod m
pub open spec fn bmf_is(r: BoxedMontyForm, a: BoxedMontyForm, x: int) -> bool {
    r.wf() && r.params == a.params && r.view() == x % a.params.modulus.0.v()
}
pub open spec fn bmf_val(a: BoxedMontyForm, x: int) -> BoxedMontyForm { choose|r: BoxedMontyForm| bmf_is(r, a, x) }
/// an exec result r that satisfies bmf_is IS bmf_val
pub proof fn lemma_bmf_val(r: BoxedMontyForm, a: BoxedMontyForm, x: int)
    requires bmf_is(r, a, x)
    ensures r == bmf_val(a, x), bmf_is(bmf_val(a, x), a, x)
{
    lemma_bmf_unique(r, bmf_val(a, x));
}
impl<'a, 'b> vstd::std_specs::ops::AddSpecImpl<&'a BoxedMontyForm> for &'b BoxedMontyForm {
    open spec fn obeys_add_spec() -> bool { true }
    open spec fn add_req(self, rhs: &'a BoxedMontyForm) -> bool { bmf_bin_req(*self, *rhs) }
    open spec fn add_spec(self, rhs: &'a BoxedMontyForm) -> BoxedMontyForm { bmf_val(*self, (*self).view() + (*rhs).view()) }
}
impl<'b> vstd::std_specs::ops::AddSpecImpl<BoxedMontyForm> for &'b BoxedMontyForm {
    open spec fn obeys_add_spec() -> bool { true }
    open spec fn add_req(self, rhs: BoxedMontyForm) -> bool { bmf_bin_req(*self, rhs) }
    open spec fn add_spec(self, rhs: BoxedMontyForm) -> BoxedMontyForm { bmf_val(*self, (*self).view() + (rhs).view()) }
}
impl<'a> vstd::std_specs::ops::AddSpecImpl<&'a BoxedMontyForm> for BoxedMontyForm {
    open spec fn obeys_add_spec() -> bool { true }
    open spec fn add_req(self, rhs: &'a BoxedMontyForm) -> bool { bmf_bin_req(self, *rhs) }
    open spec fn add_spec(self, rhs: &'a BoxedMontyForm) -> BoxedMontyForm { bmf_val(self, (self).view() + (*rhs).view()) }
}
impl vstd::std_specs::ops::AddSpecImpl<BoxedMontyForm> for BoxedMontyForm {
    open spec fn obeys_add_spec() -> bool { true }
    open spec fn add_req(self, rhs: BoxedMontyForm) -> bool { bmf_bin_req(self, rhs) }
    open spec fn add_spec(self, rhs: BoxedMontyForm) -> BoxedMontyForm { bmf_val(self, (self).view() + (rhs).view()) }
}
impl<'a> vstd::std_specs::ops::AddAssignSpecImpl<&'a BoxedMontyForm> for BoxedMontyForm {
    open spec fn obeys_add_assign_spec() -> bool { false }
    open spec fn add_assign_req(&self, rhs: &'a BoxedMontyForm) -> bool { bmf_bin_req(*self, *rhs) }
    open spec fn add_assign_spec(&self, rhs: &'a BoxedMontyForm) -> &Self { self }
}
impl vstd::std_specs::ops::AddAssignSpecImpl<BoxedMontyForm> for BoxedMontyForm {
    open spec fn obeys_add_assign_spec() -> bool { false }
    open spec fn add_assign_req(&self, rhs: BoxedMontyForm) -> bool { bmf_bin_req(*self, rhs) }
    open spec fn add_assign_spec(&self, rhs: BoxedMontyForm) -> &Self { self }
}
impl<'a, 'b> vstd::std_specs::ops::SubSpecImpl<&'a BoxedMontyForm> for &'b BoxedMontyForm {
    open spec fn obeys_sub_spec() -> bool { true }
    open spec fn sub_req(self, rhs: &'a BoxedMontyForm) -> bool { bmf_bin_req(*self, *rhs) }
    open spec fn sub_spec(self, rhs: &'a BoxedMontyForm) -> BoxedMontyForm { bmf_val(*self, (*self).view() - (*rhs).view()) }
}
impl<'b> vstd::std_specs::ops::SubSpecImpl<BoxedMontyForm> for &'b BoxedMontyForm {
    open spec fn obeys_sub_spec() -> bool { true }
    open spec fn sub_req(self, rhs: BoxedMontyForm) -> bool { bmf_bin_req(*self, rhs) }
    open spec fn sub_spec(self, rhs: BoxedMontyForm) -> BoxedMontyForm { bmf_val(*self, (*self).view() - (rhs).view()) }
}
impl<'a> vstd::std_specs::ops::SubSpecImpl<&'a BoxedMontyForm> for BoxedMontyForm {
    open spec fn obeys_sub_spec() -> bool { true }
    open spec fn sub_req(self, rhs: &'a BoxedMontyForm) -> bool { bmf_bin_req(self, *rhs) }
    open spec fn sub_spec(self, rhs: &'a BoxedMontyForm) -> BoxedMontyForm { bmf_val(self, (self).view() - (*rhs).view()) }
}
impl vstd::std_specs::ops::SubSpecImpl<BoxedMontyForm> for BoxedMontyForm {
    open spec fn obeys_sub_spec() -> bool { true }
    open spec fn sub_req(self, rhs: BoxedMontyForm) -> bool { bmf_bin_req(self, rhs) }
    open spec fn sub_spec(self, rhs: BoxedMontyForm) -> BoxedMontyForm { bmf_val(self, (self).view() - (rhs).view()) }
}
impl<'a> vstd::std_specs::ops::SubAssignSpecImpl<&'a BoxedMontyForm> for BoxedMontyForm {
    open spec fn obeys_sub_assign_spec() -> bool { false }
    open spec fn sub_assign_req(&self, rhs: &'a BoxedMontyForm) -> bool { bmf_bin_req(*self, *rhs) }
    open spec fn sub_assign_spec(&self, rhs: &'a BoxedMontyForm) -> &Self { self }
}
impl vstd::std_specs::ops::SubAssignSpecImpl<BoxedMontyForm> for BoxedMontyForm {
    open spec fn obeys_sub_assign_spec() -> bool { false }
    open spec fn sub_assign_req(&self, rhs: BoxedMontyForm) -> bool { bmf_bin_req(*self, rhs) }
    open spec fn sub_assign_spec(&self, rhs: BoxedMontyForm) -> &Self { self }
}
impl<'a, 'b> vstd::std_specs::ops::MulSpecImpl<&'a BoxedMontyForm> for &'b BoxedMontyForm {
    open spec fn obeys_mul_spec() -> bool { true }
    open spec fn mul_req(self, rhs: &'a BoxedMontyForm) -> bool { bmf_bin_req(*self, *rhs) }
    open spec fn mul_spec(self, rhs: &'a BoxedMontyForm) -> BoxedMontyForm { bmf_val(*self, (*self).view() * (*rhs).view()) }
}
impl<'b> vstd::std_specs::ops::MulSpecImpl<BoxedMontyForm> for &'b BoxedMontyForm {
    open spec fn obeys_mul_spec() -> bool { true }
    open spec fn mul_req(self, rhs: BoxedMontyForm) -> bool { bmf_bin_req(*self, rhs) }
    open spec fn mul_spec(self, rhs: BoxedMontyForm) -> BoxedMontyForm { bmf_val(*self, (*self).view() * (rhs).view()) }
}
impl<'a> vstd::std_specs::ops::MulSpecImpl<&'a BoxedMontyForm> for BoxedMontyForm {
    open spec fn obeys_mul_spec() -> bool { true }
    open spec fn mul_req(self, rhs: &'a BoxedMontyForm) -> bool { bmf_bin_req(self, *rhs) }
    open spec fn mul_spec(self, rhs: &'a BoxedMontyForm) -> BoxedMontyForm { bmf_val(self, (self).view() * (*rhs).view()) }
}
impl vstd::std_specs::ops::MulSpecImpl<BoxedMontyForm> for BoxedMontyForm {
    open spec fn obeys_mul_spec() -> bool { true }
    open spec fn mul_req(self, rhs: BoxedMontyForm) -> bool { bmf_bin_req(self, rhs) }
    open spec fn mul_spec(self, rhs: BoxedMontyForm) -> BoxedMontyForm { bmf_val(self, (self).view() * (rhs).view()) }
}
impl<'a> vstd::std_specs::ops::MulAssignSpecImpl<&'a BoxedMontyForm> for BoxedMontyForm {
    open spec fn obeys_mul_assign_spec() -> bool { false }
    open spec fn mul_assign_req(&self, rhs: &'a BoxedMontyForm) -> bool { bmf_bin_req(*self, *rhs) }
    open spec fn mul_assign_spec(&self, rhs: &'a BoxedMontyForm) -> &Self { self }
}
impl vstd::std_specs::ops::MulAssignSpecImpl<BoxedMontyForm> for BoxedMontyForm {
    open spec fn obeys_mul_assign_spec() -> bool { false }
    open spec fn mul_assign_req(&self, rhs: BoxedMontyForm) -> bool { bmf_bin_req(*self, rhs) }
    open spec fn mul_assign_spec(&self, rhs: BoxedMontyForm) -> &Self { self }
}
impl vstd::std_specs::ops::NegSpecImpl for BoxedMontyForm {
    open spec fn obeys_neg_spec() -> bool { true }
    open spec fn neg_req(self) -> bool { (self).wf() }
    open spec fn neg_spec(self) -> BoxedMontyForm { bmf_val(self, -(self).view()) }
}
impl<'b> vstd::std_specs::ops::NegSpecImpl for &'b BoxedMontyForm {
    open spec fn obeys_neg_spec() -> bool { true }
    open spec fn neg_req(self) -> bool { (*self).wf() }
    open spec fn neg_spec(self) -> BoxedMontyForm { bmf_val(*self, -(*self).view()) }
}

//@@ fn src/modular/boxed_monty_form/add.rs | impl Add<&BoxedMontyForm> for &BoxedMontyForm | add | body | props C08 C15 C11
impl Add<&BoxedMontyForm> for &BoxedMontyForm {
//@+
    type Output = BoxedMontyForm;
//@-
fn add(self, rhs: &BoxedMontyForm) -> (ret__: BoxedMontyForm)
//@+
    ensures bmf_is(ret__, *self, (*self).view() + (*rhs).view()), ret__ == bmf_val(*self, (*self).view() + (*rhs).view())
//@-
{
//@+
    proof {
        lemma_bparams_wf_unique(&self.params, &rhs.params);
        assert forall|r: BoxedMontyForm| (#[trigger] r.wf()) && bmf_is(r, *self, (*self).view() + (*rhs).view()) implies r == bmf_val(*self, (*self).view() + (*rhs).view()) by { lemma_bmf_val(r, *self, (*self).view() + (*rhs).view()); }
    }
//@-
        self.add(rhs)
    }
}
//@@ end
//@@ fn src/modular/boxed_monty_form/add.rs | impl Add<BoxedMontyForm> for &BoxedMontyForm | add | body | props C08 C15 C11
impl Add<BoxedMontyForm> for &BoxedMontyForm {
//@+
    type Output = BoxedMontyForm;
    // contract (vstd `AddSpecImpl`, see above): requires bmf_bin_req(*self, rhs); result == bmf_val(*self, self.view() + rhs.view())
//@-
fn add(self, rhs: BoxedMontyForm) -> (ret__: BoxedMontyForm)
{
        self + &rhs
    }
}
//@@ end
//@@ fn src/modular/boxed_monty_form/add.rs | impl Add<&BoxedMontyForm> for BoxedMontyForm | add | body | props C08 C15 C11
impl Add<&BoxedMontyForm> for BoxedMontyForm {
//@+
    type Output = BoxedMontyForm;
//@-
fn add(self, rhs: &BoxedMontyForm) -> (ret__: BoxedMontyForm)
//@+
    ensures bmf_is(ret__, self, (self).view() + (*rhs).view()), ret__ == bmf_val(self, (self).view() + (*rhs).view())
//@-
{
        &self + rhs
    }
}
//@@ end
//@@ fn src/modular/boxed_monty_form/add.rs | impl Add<BoxedMontyForm> for BoxedMontyForm | add | body | props C08 C15 C11
impl Add<BoxedMontyForm> for BoxedMontyForm {
//@+
    type Output = BoxedMontyForm;
    // Verus erases `&`: this impl and the `&a OP &b` impl it calls have the same (trait, type) key, so the call is reported as
    // recursion; the /repo code is not recursive (it ends in the inherent method)
    #[verifier::exec_allows_no_decreases_clause]
//@-
fn add(self, rhs: BoxedMontyForm) -> (ret__: BoxedMontyForm)
//@+
    ensures bmf_is(ret__, self, (self).view() + (rhs).view()), ret__ == bmf_val(self, (self).view() + (rhs).view())
//@-
{
        &self + &rhs
    }
}
//@@ end
//@@ fn src/modular/boxed_monty_form/add.rs | impl AddAssign<&BoxedMontyForm> for BoxedMontyForm | add_assign | body | props C08 C15 C11
impl AddAssign<&BoxedMontyForm> for BoxedMontyForm {
fn add_assign(&mut self, rhs: &BoxedMontyForm)
//@+
    ensures final(self).wf(), final(self).params == old(self).params,
        final(self).view() == (old(self).view() + rhs.view()) % old(self).params.modulus.0.v()
//@-
{
//@+
    proof {
        lemma_params_rng(&self.params); lemma_bparams_wf_unique(&self.params, &rhs.params);
        lemma_mont_repr_add(self.montgomery_form.v(), rhs.montgomery_form.v(), self.params.modulus.0.v(), self.params.modulus.0.nl());
    }
//@-
        debug_assert_eq!(self.params, rhs.params);
        self.montgomery_form
            .add_mod_assign(&rhs.montgomery_form, &self.params.modulus);
    }
}
//@@ end
//@@ fn src/modular/boxed_monty_form/add.rs | impl AddAssign<BoxedMontyForm> for BoxedMontyForm | add_assign | body | props C08 C15 C11
impl AddAssign<BoxedMontyForm> for BoxedMontyForm {
//@+
    // Verus erases `&`: this impl and the `&a OP &b` impl it calls have the same (trait, type) key, so the call is reported as
    // recursion; the /repo code is not recursive (it ends in the inherent method)
    #[verifier::exec_allows_no_decreases_clause]
//@-
fn add_assign(&mut self, rhs: BoxedMontyForm)
//@+
    ensures final(self).wf(), final(self).params == old(self).params,
        final(self).view() == (old(self).view() + rhs.view()) % old(self).params.modulus.0.v()
//@-
{
        *self += &rhs;
    }
}
//@@ end
//@@ fn src/modular/boxed_monty_form/sub.rs | impl Sub<&BoxedMontyForm> for &BoxedMontyForm | sub | body | props C08 C15 C11
impl Sub<&BoxedMontyForm> for &BoxedMontyForm {
//@+
    type Output = BoxedMontyForm;
//@-
fn sub(self, rhs: &BoxedMontyForm) -> (ret__: BoxedMontyForm)
//@+
    ensures bmf_is(ret__, *self, (*self).view() - (*rhs).view()), ret__ == bmf_val(*self, (*self).view() - (*rhs).view())
//@-
{
//@+
    proof {
        lemma_bparams_wf_unique(&self.params, &rhs.params);
        assert forall|r: BoxedMontyForm| (#[trigger] r.wf()) && bmf_is(r, *self, (*self).view() - (*rhs).view()) implies r == bmf_val(*self, (*self).view() - (*rhs).view()) by { lemma_bmf_val(r, *self, (*self).view() - (*rhs).view()); }
    }
//@-
        debug_assert_eq!(self.params, rhs.params);
        self.sub(rhs)
    }
}
//@@ end
//@@ fn src/modular/boxed_monty_form/sub.rs | impl Sub<BoxedMontyForm> for &BoxedMontyForm | sub | body | props C08 C15 C11
impl Sub<BoxedMontyForm> for &BoxedMontyForm {
//@+
    type Output = BoxedMontyForm;
    // contract (vstd `SubSpecImpl`, see above): requires bmf_bin_req(*self, rhs); result == bmf_val(*self, self.view() - rhs.view())
//@-
fn sub(self, rhs: BoxedMontyForm) -> (ret__: BoxedMontyForm)
{
        self - &rhs
    }
}
//@@ end
//@@ fn src/modular/boxed_monty_form/sub.rs | impl Sub<&BoxedMontyForm> for BoxedMontyForm | sub | body | props C08 C15 C11
impl Sub<&BoxedMontyForm> for BoxedMontyForm {
//@+
    type Output = BoxedMontyForm;
//@-
fn sub(self, rhs: &BoxedMontyForm) -> (ret__: BoxedMontyForm)
//@+
    ensures bmf_is(ret__, self, (self).view() - (*rhs).view()), ret__ == bmf_val(self, (self).view() - (*rhs).view())
//@-
{
        &self - rhs
    }
}
//@@ end
//@@ fn src/modular/boxed_monty_form/sub.rs | impl Sub<BoxedMontyForm> for BoxedMontyForm | sub | body | props C08 C15 C11
impl Sub<BoxedMontyForm> for BoxedMontyForm {
//@+
    type Output = BoxedMontyForm;
    // Verus erases `&`: this impl and the `&a OP &b` impl it calls have the same (trait, type) key, so the call is reported as
    // recursion; the /repo code is not recursive (it ends in the inherent method)
    #[verifier::exec_allows_no_decreases_clause]
//@-
fn sub(self, rhs: BoxedMontyForm) -> (ret__: BoxedMontyForm)
//@+
    ensures bmf_is(ret__, self, (self).view() - (rhs).view()), ret__ == bmf_val(self, (self).view() - (rhs).view())
//@-
{
        &self - &rhs
    }
}
//@@ end
//@@ fn src/modular/boxed_monty_form/sub.rs | impl SubAssign<&BoxedMontyForm> for BoxedMontyForm | sub_assign | body | props C08 C15 C11
impl SubAssign<&BoxedMontyForm> for BoxedMontyForm {
fn sub_assign(&mut self, rhs: &BoxedMontyForm)
//@+
    ensures final(self).wf(), final(self).params == old(self).params,
        final(self).view() == (old(self).view() - rhs.view()) % old(self).params.modulus.0.v()
//@-
{
//@+
    proof {
        lemma_params_rng(&self.params); lemma_bparams_wf_unique(&self.params, &rhs.params);
        lemma_mont_repr_sub(self.montgomery_form.v(), rhs.montgomery_form.v(), self.params.modulus.0.v(), self.params.modulus.0.nl());
        lemma_rng(&self.montgomery_form); lemma_rng(&rhs.montgomery_form); assert(0 * bp(self.params.modulus.0.nl()) == 0);
    }
//@-
        debug_assert_eq!(self.params, rhs.params);
        self.montgomery_form.sub_assign_mod_with_carry(
            Limb::ZERO,
            &rhs.montgomery_form,
            &self.params.modulus,
        );
    }
}
//@@ end
//@@ fn src/modular/boxed_monty_form/sub.rs | impl SubAssign<BoxedMontyForm> for BoxedMontyForm | sub_assign | body | props C08 C15 C11
impl SubAssign<BoxedMontyForm> for BoxedMontyForm {
//@+
    // Verus erases `&`: this impl and the `&a OP &b` impl it calls have the same (trait, type) key, so the call is reported as
    // recursion; the /repo code is not recursive (it ends in the inherent method)
    #[verifier::exec_allows_no_decreases_clause]
//@-
fn sub_assign(&mut self, rhs: BoxedMontyForm)
//@+
    ensures final(self).wf(), final(self).params == old(self).params,
        final(self).view() == (old(self).view() - rhs.view()) % old(self).params.modulus.0.v()
//@-
{
        *self -= &rhs;
    }
}
//@@ end
//@@ fn src/modular/boxed_monty_form/mul.rs | impl Mul<&BoxedMontyForm> for &BoxedMontyForm | mul | body | props C08 C15 C11
impl Mul<&BoxedMontyForm> for &BoxedMontyForm {
//@+
    type Output = BoxedMontyForm;
//@-
fn mul(self, rhs: &BoxedMontyForm) -> (ret__: BoxedMontyForm)
//@+
    ensures bmf_is(ret__, *self, (*self).view() * (*rhs).view()), ret__ == bmf_val(*self, (*self).view() * (*rhs).view())
//@-
{
//@+
    proof {
        lemma_bparams_wf_unique(&self.params, &rhs.params);
        assert forall|r: BoxedMontyForm| (#[trigger] r.wf()) && bmf_is(r, *self, (*self).view() * (*rhs).view()) implies r == bmf_val(*self, (*self).view() * (*rhs).view()) by { lemma_bmf_val(r, *self, (*self).view() * (*rhs).view()); }
    }
//@-
        self.mul(rhs)
    }
}
//@@ end
//@@ fn src/modular/boxed_monty_form/mul.rs | impl Mul<BoxedMontyForm> for &BoxedMontyForm | mul | body | props C08 C15 C11
impl Mul<BoxedMontyForm> for &BoxedMontyForm {
//@+
    type Output = BoxedMontyForm;
    // contract (vstd `MulSpecImpl`, see above): requires bmf_bin_req(*self, rhs); result == bmf_val(*self, self.view() * rhs.view())
//@-
fn mul(self, rhs: BoxedMontyForm) -> (ret__: BoxedMontyForm)
{
        self * &rhs
    }
}
//@@ end
//@@ fn src/modular/boxed_monty_form/mul.rs | impl Mul<&BoxedMontyForm> for BoxedMontyForm | mul | body | props C08 C15 C11
impl Mul<&BoxedMontyForm> for BoxedMontyForm {
//@+
    type Output = BoxedMontyForm;
//@-
fn mul(self, rhs: &BoxedMontyForm) -> (ret__: BoxedMontyForm)
//@+
    ensures bmf_is(ret__, self, (self).view() * (*rhs).view()), ret__ == bmf_val(self, (self).view() * (*rhs).view())
//@-
{
        &self * rhs
    }
}
//@@ end
//@@ fn src/modular/boxed_monty_form/mul.rs | impl Mul<BoxedMontyForm> for BoxedMontyForm | mul | body | props C08 C15 C11
impl Mul<BoxedMontyForm> for BoxedMontyForm {
//@+
    type Output = BoxedMontyForm;
    // Verus erases `&`: this impl and the `&a OP &b` impl it calls have the same (trait, type) key, so the call is reported as
    // recursion; the /repo code is not recursive (it ends in the inherent method)
    #[verifier::exec_allows_no_decreases_clause]
//@-
fn mul(self, rhs: BoxedMontyForm) -> (ret__: BoxedMontyForm)
//@+
    ensures bmf_is(ret__, self, (self).view() * (rhs).view()), ret__ == bmf_val(self, (self).view() * (rhs).view())
//@-
{
        &self * &rhs
    }
}
//@@ end
//@@ fn src/modular/boxed_monty_form/mul.rs | impl MulAssign<&BoxedMontyForm> for BoxedMontyForm | mul_assign | body | props C08 C15 C11
impl MulAssign<&BoxedMontyForm> for BoxedMontyForm {
fn mul_assign(&mut self, rhs: &BoxedMontyForm)
//@+
    ensures final(self).wf(), final(self).params == old(self).params,
        final(self).view() == (old(self).view() * rhs.view()) % old(self).params.modulus.0.v()
//@-
{
//@+
    let ghost a0 = *self;
    proof {
        lemma_params_rng(&self.params); lemma_bparams_wf_unique(&self.params, &rhs.params); axiom_arc_partial_eq_model();
        assert forall|r: int| mont_red(r, a0.montgomery_form.v() * rhs.montgomery_form.v(), a0.params.modulus.0.v(), bp(a0.params.modulus.0.nl()))
            implies #[trigger] mont_repr(r, a0.params.modulus.0.v(), a0.params.modulus.0.nl()) == (a0.view() * rhs.view()) % a0.params.modulus.0.v() by {
            lemma_mont_repr_mul(r, a0.montgomery_form.v(), rhs.montgomery_form.v(), a0.params.modulus.0.v(), a0.params.modulus.0.nl());
        }
    }
//@-
        debug_assert_eq!(&self.params, &rhs.params);
        BoxedMontyMultiplier::from(self.params.borrow())
            .mul_assign(&mut self.montgomery_form, &rhs.montgomery_form);
    }
}
//@@ end
//@@ fn src/modular/boxed_monty_form/mul.rs | impl MulAssign<BoxedMontyForm> for BoxedMontyForm | mul_assign | body | props C08 C15 C11
impl MulAssign<BoxedMontyForm> for BoxedMontyForm {
//@+
    // Verus erases `&`: this impl and the `&a OP &b` impl it calls have the same (trait, type) key, so the call is reported as
    // recursion; the /repo code is not recursive (it ends in the inherent method)
    #[verifier::exec_allows_no_decreases_clause]
//@-
fn mul_assign(&mut self, rhs: BoxedMontyForm)
//@+
    ensures final(self).wf(), final(self).params == old(self).params,
        final(self).view() == (old(self).view() * rhs.view()) % old(self).params.modulus.0.v()
//@-
{
        Self::mul_assign(self, &rhs)
    }
}
//@@ end
//@@ fn src/modular/boxed_monty_form/neg.rs | impl Neg for BoxedMontyForm | neg | body | props C08 C15 C11
impl Neg for BoxedMontyForm {
//@+
    type Output = BoxedMontyForm;
//@-
fn neg(self) -> (ret__: Self)
//@+
    ensures bmf_is(ret__, self, -self.view()), ret__ == bmf_val(self, -self.view())
//@-
{
//@+
    proof { assert forall|r: BoxedMontyForm| (#[trigger] r.wf()) && bmf_is(r, self, -self.view()) implies r == bmf_val(self, -self.view()) by { lemma_bmf_val(r, self, -self.view()); } }
//@-
        BoxedMontyForm::neg(&self)
    }
}
//@@ end
//@@ fn src/modular/boxed_monty_form/neg.rs | impl Neg for &BoxedMontyForm | neg | body | props C08 C15 C11
impl Neg for &BoxedMontyForm {
//@+
    type Output = BoxedMontyForm;
//@-
fn neg(self) -> (ret__: BoxedMontyForm)
//@+
    ensures bmf_is(ret__, *self, -(*self).view()), ret__ == bmf_val(*self, -(*self).view())
//@-
{
//@+
    proof { assert forall|r: BoxedMontyForm| (#[trigger] r.wf()) && bmf_is(r, *self, -(*self).view()) implies r == bmf_val(*self, -(*self).view()) by { lemma_bmf_val(r, *self, -(*self).view()); } }
//@-
        BoxedMontyForm::neg(self)
    }
}
//@@ end

// ---------------------------------------------------------------------------------------------------------------------------
// inversion (src/modular/boxed_monty_form/inv.rs) over the ASSUMED Bernstein-Yang inverter object of src/modular/safegcd/boxed.rs
// ---------------------------------------------------------------------------------------------------------------------------
// crate traits (/repo/src/traits.rs, src/traits/sealed.rs), hand-declared with `*_req` / `*_ens` (see l7_traits.rs); one method each:
// the `*_vartime` twins are in l8_boxed_monty2.rs
// `trait Inverter` (method `invert`) and its PROVED impl for BoxedSafeGcdInverter: l8_boxed_safegcd_top.rs
pub use crate::l8_boxed_safegcd_top::Inverter;
pub trait PrecomputeInverter {
    type Inverter: Inverter<Output = Self::Output> + Sized;
    type Output;
    spec fn precompute_inverter_req(&self) -> bool;
    spec fn precompute_inverter_ens(&self, r: Self::Inverter) -> bool;
    fn precompute_inverter(&self) -> (r: Self::Inverter)
        requires self.precompute_inverter_req()
        ensures self.precompute_inverter_ens(r);
}
pub trait PrecomputeInverterWithAdjuster<Adjuster>: PrecomputeInverter {
    spec fn with_adjuster_req(&self, adjuster: &Adjuster) -> bool;
    spec fn with_adjuster_ens(&self, adjuster: &Adjuster, r: Self::Inverter) -> bool;
    fn precompute_inverter_with_adjuster(&self, adjuster: &Adjuster) -> (r: Self::Inverter)
        requires self.with_adjuster_req(adjuster)
        ensures self.with_adjuster_ens(adjuster, r);
}
pub trait Invert: Sized {
    type Output;
    spec fn invert_req(&self) -> bool;
    spec fn invert_ens(&self, r: Self::Output) -> bool;
    fn invert(&self) -> (r: Self::Output)
        requires self.invert_req()
        ensures self.invert_ens(r);
}

// Model of the Bernstein-Yang inverter object, defined over the CONCRETE model of l8_boxed_safegcd.rs (`sm` / `sadj` / `swf`): the modulus and
// the adjuster it was built for (values of the 62-bit unsaturated fields) and the precision (64-bit limbs) of the values it accepts, which is
// determined by the unsaturated limb count (`sg_nlimbs_ok(sat, unsat)` has exactly one solution `sat`, lemma_sgi_nl).
impl BoxedSafeGcdInverter {
    pub open spec fn m(&self) -> int { self.sm() }
    pub open spec fn adj(&self) -> int { self.sadj() }
    pub open spec fn nl(&self) -> nat { if 62 * self.modulus.n() >= 64 { ((62 * self.modulus.n() - 64) / 64) as nat } else { 0 } }
}
/// the precision an inverter is well formed for is `nl()`
pub proof fn lemma_sgi_nl(r: &BoxedSafeGcdInverter, sat: nat)
    requires sg_nlimbs_ok(sat as int, r.modulus.n() as int)
    ensures r.nl() == sat
{
}
/// the values `BoxedSafeGcdInverter::new` accepts with a well formed result: odd modulus (or 0, as `BoxedUint::inv_mod` passes) and an
/// adjuster not above it
pub open spec fn sgi_dom(m: int, a: int) -> bool { (m % 2 == 1 && a <= m) || (m == 0 && a <= 1) }
/// what `BoxedSafeGcdInverter::new(modulus, adjuster)` returns
pub open spec fn sgi_for(r: &BoxedSafeGcdInverter, modulus: &Odd<BoxedUint>, adjuster: &BoxedUint) -> bool {
    r.m() == modulus.0.v() && r.adj() == adjuster.v() && r.nl() == modulus.0.nl()
        && (sgi_dom(modulus.0.v(), adjuster.v()) ==> r.swf(modulus.0.nl()))
}
/// contract of `BoxedSafeGcdInverter::invert` (the one PROVED for the fixed-width `SafeGcdInverter::inv` in l4_safegcd.rs), odd modulus:
/// some exactly when value is coprime to the modulus; 0 <= ret <= M, ret < M when the adjuster is < M; ret * value == adjuster (mod M)
pub open spec fn sgi_invert_post(inv: &BoxedSafeGcdInverter, value: &BoxedUint, r: CtOption<BoxedUint>) -> bool {
    &&& r.is_some.wf() &&& r.value.nl() == value.nl()
    &&& inv.m() % 2 == 1 ==> {
        &&& r.is_some.t() == (gcd(value.v() as nat, inv.m() as nat) == 1)
        &&& 0 <= r.value.v() <= inv.m()
        &&& (inv.adj() < inv.m() ==> r.value.v() < inv.m())
        &&& (r.is_some.t() ==> (r.value.v() * value.v()) % inv.m() == inv.adj() % inv.m())
    }
}

/// the contract PROVED for `invert` / `invert_vartime` (l8_boxed_safegcd_top*.rs, over `sg_gcd`) gives the one stated here (over `gcd`)
pub proof fn lemma_sgi_invert_post(inv: &BoxedSafeGcdInverter, value: &BoxedUint, r: CtOption<BoxedUint>)
    requires sg_invert_post(inv, value, r), inv.sm() >= 0
    ensures sgi_invert_post(inv, value, r)
{
    lemma_val_bound(value.limbs@, value.nl());
    lemma_sg_gcd_eq(inv.sm() as nat, value.v() as nat);
    lemma_gcd_sym(inv.sm() as nat, value.v() as nat);
}

impl BoxedMontyFormInverter {
    /// precomputed for well-formed parameters: modulus m, adjuster R^2 mod m
    pub open spec fn wf(&self) -> bool {
        self.params.wf() && self.inverter.m() == self.params.modulus.0.v() && self.inverter.adj() == self.params.r2.v()
            && self.inverter.nl() == self.params.modulus.0.nl() && self.inverter.swf(self.params.modulus.0.nl())
    }
}

/// C10 for Montgomery forms: `invert` returns some exactly when the represented residue is a unit; the result is well formed with the
/// same parameters and the represented residues multiply to 1; when none, the value is a copy of the argument
pub open spec fn bmf_invert_post(x: &BoxedMontyForm, r: CtOption<BoxedMontyForm>) -> bool {
    let m = x.params.modulus.0.v();
    &&& r.is_some.wf() &&& r.value.wf() &&& r.value.params == x.params
    &&& r.is_some.t() == (gcd(x.view() as nat, m as nat) == 1)
    &&& r.is_some.t() == (gcd(x.montgomery_form.v() as nat, m as nat) == 1)
    &&& (r.is_some.t() ==> (r.value.view() * x.view()) % m == 1int % m)
    &&& (!r.is_some.t() ==> r.value.montgomery_form.limbs@ == x.montgomery_form.limbs@)
}

/// d | t, d | m, t == x*R (mod m)  ==>  d | x   (R is a unit modulo m)
pub proof fn lemma_div_through_r(d: int, t: int, x: int, m: int, n: nat)
    requires m > 0, m % 2 == 1, d > 0, t % d == 0, m % d == 0, t % m == (x * bp(n)) % m
    ensures x % d == 0
{
    let r = bp(n);
    let ir = lemma_r_inv(m, n);
    // x*R == t + k*m, so d | x*R; x*R*ir == x + j*m, so d | x
    lemma_fundamental_div_mod(t, m); lemma_fundamental_div_mod(x * r, m);
    let k = (x * r) / m - t / m;
    assert(x * r == t + k * m) by (nonlinear_arith) requires t == m * (t / m) + t % m, x * r == m * ((x * r) / m) + (x * r) % m, t % m == (x * r) % m, k == (x * r) / m - t / m;
    lemma_fundamental_div_mod(t, d); lemma_fundamental_div_mod(m, d);
    let xr_q = t / d + k * (m / d);
    assert(x * r == d * xr_q) by (nonlinear_arith) requires x * r == t + k * m, t == d * (t / d), m == d * (m / d), xr_q == t / d + k * (m / d);
    // (r * ir) % m == 1 % m
    lemma_fundamental_div_mod(r * ir, m);
    let j = (r * ir) / m;
    if m == 1 {
        assert(d == 1) by { lemma_fundamental_div_mod(1, d); assert(1 == d * (1int / d)); assert(d == 1) by (nonlinear_arith) requires 1 == d * (1int / d), d > 0; }
        assert(x % 1 == 0);
    } else {
        lemma_small_mod(1, m as nat);
        assert(r * ir == m * j + 1);
        let md = m / d;
        let a1 = xr_q * ir; let a2 = (x * j) * md;
        assert((x * r) * ir == x * (r * ir)) by (nonlinear_arith);
        assert((d * xr_q) * ir == d * a1) by (nonlinear_arith) requires a1 == xr_q * ir;
        assert(x * (m * j + 1) == (x * j) * m + x) by (nonlinear_arith);
        assert((x * j) * (d * md) == d * a2) by (nonlinear_arith) requires a2 == (x * j) * md;
        assert(x == d * a1 - d * a2);
        assert(d * a1 - d * a2 == d * (a1 - a2)) by (nonlinear_arith);
        assert(xr_q * ir - x * j * (m / d) == a1 - a2);
        lemma_mod_multiples_basic(xr_q * ir - x * j * (m / d), d);
        assert(d * (xr_q * ir - x * j * (m / d)) == (xr_q * ir - x * j * (m / d)) * d) by (nonlinear_arith);
    }
}

/// the Montgomery representative t = x*R mod m is coprime to m iff x is
pub proof fn lemma_gcd_repr(t: int, x: int, m: int, n: nat)
    requires m > 0, m % 2 == 1, 0 <= t < m, 0 <= x < m, t == (x * bp(n)) % m
    ensures (gcd(t as nat, m as nat) == 1) == (gcd(x as nat, m as nat) == 1)
{
    let r = bp(n);
    lemma_mod_twice(x * r, m);
    lemma_gcd_divides(t as nat, m as nat); lemma_gcd_divides(x as nat, m as nat);
    let g1 = gcd(t as nat, m as nat) as int; let g2 = gcd(x as nat, m as nat) as int;
    // g1 | t, g1 | m ==> g1 | x ==> g1 | g2
    lemma_div_through_r(g1, t, x, m, n);
    lemma_gcd_greatest(x as nat, m as nat, g1);
    // g2 | x, g2 | m ==> g2 | x*R mod m = t ==> g2 | g1
    lemma_fundamental_div_mod(x, g2); lemma_fundamental_div_mod(m, g2); lemma_fundamental_div_mod(x * r, m);
    assert(t == g2 * ((x / g2) * r - (m / g2) * ((x * r) / m))) by (nonlinear_arith)
        requires x == g2 * (x / g2), m == g2 * (m / g2), x * r == m * ((x * r) / m) + t;
    lemma_mod_multiples_basic((x / g2) * r - (m / g2) * ((x * r) / m), g2);
    assert(g2 * ((x / g2) * r - (m / g2) * ((x * r) / m)) == ((x / g2) * r - (m / g2) * ((x * r) / m)) * g2) by (nonlinear_arith);
    lemma_gcd_greatest(t as nat, m as nat, g2);
    // mutual divisibility of positive numbers
    if g1 == 1 { lemma_fundamental_div_mod(1, g2); assert(g2 == 1) by (nonlinear_arith) requires 1 == g2 * (1int / g2), g2 > 0; }
    if g2 == 1 { lemma_fundamental_div_mod(1, g1); assert(g1 == 1) by (nonlinear_arith) requires 1 == g1 * (1int / g1), g1 > 0; }
}

/// Montgomery inversion: r * t == R^2 (mod m) with t the representative of x  ==>  repr(r) * x == 1 (mod m)
pub proof fn lemma_inv_repr(rv: int, t: int, r2: int, m: int, n: nat)
    requires m > 0, m % 2 == 1, 0 <= rv < m, 0 <= t < m, r2 == (bp(n) * bp(n)) % m, (rv * t) % m == r2 % m
    ensures (mont_repr(rv, m, n) * mont_repr(t, m, n)) % m == 1int % m
{
    let r = bp(n);
    let y = mont_repr(rv, m, n); let x = mont_repr(t, m, n);
    lemma_mont_repr(rv, m, n); lemma_mont_repr(t, m, n);
    // (y*R)*(x*R) == rv*t == R^2
    lemma_mul_mod_noop_general(y * r, x * r, m);
    lemma_mul_mod_noop_general(rv, t, m);
    lemma_mod_twice(r * r, m);
    assert((y * r) * (x * r) == ((y * x) * r) * r) by (nonlinear_arith);
    assert(r * r == (1 * r) * r) by (nonlinear_arith);
    lemma_mont_cancel((y * x) * r, 1 * r, m, n);
    lemma_mont_cancel(y * x, 1, m, n);
}

// `struct BoxedUnsatInt` / `struct BoxedSafeGcdInverter` (src/modular/safegcd/boxed.rs): declared in l8_boxed_safegcd.rs
//@@ item src/modular/boxed_monty_form/inv.rs | struct BoxedMontyFormInverter
pub struct BoxedMontyFormInverter {
    pub inverter: BoxedSafeGcdInverter,
    pub params: Arc<BoxedMontyParams>,
}
//@@ end
//@@ fn src/modular/safegcd/boxed.rs | impl BoxedSafeGcdInverter | new | body | props C10 C11
impl BoxedSafeGcdInverter {
pub fn new(modulus: &Odd<BoxedUint>, adjuster: &BoxedUint) -> (ret__: Self)
//@+
    // PROVED. `adjuster.widen(modulus.bits_precision())` asserts that the adjuster is not wider than the modulus; size: the conversion to
    // the 62-bit unsaturated form (`From<&BoxedUint>`) computes its limb count in usize / u32, and the inverter is usable (`swf`: the
    // `iterations` count 49 * bits + 80 fits u32) up to SG_BOXED_MAX_SAT() = 1_369_567 limbs
    requires modulus.0.wf(), adjuster.nl() <= modulus.0.nl(), modulus.0.nl() <= SG_BOXED_MAX_SAT()
    ensures sgi_for(&ret__, modulus, adjuster)
//@-
{
//@+
    proof {
        let n = modulus.0.nl();
        let l0 = modulus.0.limbs@[0].0 as int; let mv = modulus.0.v();
        lemma_val_low(modulus.0.limbs@, n);
        lemma_val_bound(modulus.0.limbs@, n); lemma_val_bound(adjuster.limbs@, adjuster.nl());
        assert forall|iv: int| (l0 * iv) % P62() == 1 implies (#[trigger] (mv * iv)) % P62() == 1 by { lemma_low_inverse(mv, l0, iv); }
        assert(words_of(modulus.0.limbs@)[0] == modulus.0.limbs@[0].0);
        assert(nlimbs_for((64 * n) as u32) == n);
    }
//@-
        Self {
            modulus: BoxedUnsatInt::from(&modulus.0),
            adjuster: BoxedUnsatInt::from(&adjuster.widen(modulus.bits_precision())),
            inverse: inv_mod2_62(modulus.0.as_words()),
        }
    }
}
//@@ end
//@@ fn src/uint/boxed/inv_mod.rs | impl PrecomputeInverterWithAdjuster<BoxedUint> for Odd<BoxedUint> | precompute_inverter_with_adjuster | body | props C10 C11
impl PrecomputeInverterWithAdjuster<BoxedUint> for Odd<BoxedUint> {
//@+
    open spec fn with_adjuster_req(&self, adjuster: &BoxedUint) -> bool { self.0.wf() && adjuster.nl() <= self.0.nl() && self.0.nl() <= SG_BOXED_MAX_SAT() }
    open spec fn with_adjuster_ens(&self, adjuster: &BoxedUint, r: BoxedSafeGcdInverter) -> bool { sgi_for(&r, self, adjuster) }
//@-
fn precompute_inverter_with_adjuster(&self, adjuster: &BoxedUint) -> (ret__: BoxedSafeGcdInverter)
{
        BoxedSafeGcdInverter::new(self, adjuster)
    }
}
//@@ end
//@@ fn src/uint/boxed/inv_mod.rs | impl PrecomputeInverter for Odd<BoxedUint> | precompute_inverter | body | props C10 C11
impl PrecomputeInverter for Odd<BoxedUint> {
//@+
    type Inverter = BoxedSafeGcdInverter;
    type Output = BoxedUint;
    open spec fn precompute_inverter_req(&self) -> bool { self.0.wf() && self.0.nl() <= SG_BOXED_MAX_SAT() }
    open spec fn precompute_inverter_ens(&self, r: BoxedSafeGcdInverter) -> bool {
        r.m() == self.0.v() && r.adj() == 1 && r.nl() == self.0.nl() && (sgi_dom(self.0.v(), 1) ==> r.swf(self.0.nl()))
    }
//@-
fn precompute_inverter(&self) -> (ret__: BoxedSafeGcdInverter)
{
        Self::precompute_inverter_with_adjuster(self, &BoxedUint::one())
    }
}
//@@ end
//@@ fn src/modular/boxed_monty_form/inv.rs | impl PrecomputeInverter for BoxedMontyParams | precompute_inverter | body | props C10 C08 C11
impl PrecomputeInverter for BoxedMontyParams {
//@+
    type Inverter = BoxedMontyFormInverter;
    type Output = BoxedMontyForm;
    open spec fn precompute_inverter_req(&self) -> bool { self.wf() && self.modulus.0.nl() <= SG_BOXED_MAX_SAT() }
    open spec fn precompute_inverter_ens(&self, r: BoxedMontyFormInverter) -> bool { r.wf() && params_same(&r.params, self) }
//@-
fn precompute_inverter(&self) -> (ret__: BoxedMontyFormInverter)
{
//@+
    proof {
        let n = self.modulus.0.nl();
        lemma_params_rng(self);
        lemma_mod_bound(bp(n) * bp(n), self.modulus.0.v());
    }
//@-
        BoxedMontyFormInverter {
            inverter: self.modulus.precompute_inverter_with_adjuster(&self.r2),
            params: self.clone().into(),
        }
    }
}
//@@ end
//@@ fn src/modular/boxed_monty_form/inv.rs | impl Inverter for BoxedMontyFormInverter | invert | body | props C10 C08 C11
impl Inverter for BoxedMontyFormInverter {
//@+
    type Output = BoxedMontyForm;
    open spec fn invert_req(&self, value: &BoxedMontyForm) -> bool { self.wf() && value.wf() && same_modulus(&self.params, &value.params) }
    open spec fn invert_ens(&self, value: &BoxedMontyForm, r: CtOption<BoxedMontyForm>) -> bool { bmf_invert_post(value, r) }
//@-
fn invert(&self, value: &BoxedMontyForm) -> (ret__: CtOption<Self::Output>)
{
//@+
    let ghost m = value.params.modulus.0.v(); let ghost n = value.params.modulus.0.nl(); let ghost t = value.montgomery_form.v();
    proof {
        lemma_params_rng(&value.params); lemma_bparams_wf_unique(&self.params, &value.params);
        lemma_rng(&value.montgomery_form);
        lemma_mod_bound(bp(n) * bp(n), m);
        lemma_mont_repr(t, m, n);
        lemma_small_mod(t as nat, m as nat);
        lemma_gcd_repr(t, value.view(), m, n);
    }
//@-
        debug_assert_eq!(self.params, value.params);
        let montgomery_form = self.inverter.invert(&value.montgomery_form);
        let is_some = montgomery_form.is_some();
        let montgomery_form2 = value.montgomery_form.clone();
//@+
    proof {
        lemma_sgi_invert_post(&self.inverter, &value.montgomery_form, montgomery_form);
        if is_some.t() {
            lemma_inv_repr(montgomery_form.value.v(), t, value.params.r2.v(), m, n);
        }
    }
//@-
        let ret = BoxedMontyForm {
            montgomery_form: Option::from(montgomery_form).unwrap_or(montgomery_form2),
            params: value.params.clone(),
        };
        CtOption::new(ret, is_some)
    }
}
//@@ end
//@@ fn src/modular/boxed_monty_form/inv.rs | impl BoxedMontyForm | invert | body | props C10 C08 C11
impl BoxedMontyForm {
pub fn invert(&self) -> (ret__: CtOption<Self>)
//@+
    // size: the Bernstein-Yang inverter computes its iteration count in u32 (overflow beyond SG_BOXED_MAX_SAT() = 1_369_567 limbs)
    requires self.wf(), self.params.modulus.0.nl() <= SG_BOXED_MAX_SAT()
    ensures bmf_invert_post(self, ret__)
//@-
{
        self.params.precompute_inverter().invert(self)
    }
}
//@@ end
//@@ fn src/modular/boxed_monty_form/inv.rs | impl Invert for BoxedMontyForm | invert | body | props C10 C08 C15 C11
impl Invert for BoxedMontyForm {
//@+
    type Output = CtOption<Self>;
    open spec fn invert_req(&self) -> bool { self.wf() && self.params.modulus.0.nl() <= SG_BOXED_MAX_SAT() }
    open spec fn invert_ens(&self, r: CtOption<Self>) -> bool { bmf_invert_post(self, r) }
//@-
fn invert(&self) -> (ret__: Self::Output)
{
        self.invert()
    }
}
//@@ end

// ---------------------------------------------------------------------------------------------------------------------------
// linear combination, and the remaining crate-trait impls
// ---------------------------------------------------------------------------------------------------------------------------
pub trait Square {
    spec fn square_req(&self) -> bool;
    spec fn square_ens(&self, r: Self) -> bool where Self: Sized;
    fn square(&self) -> (r: Self) where Self: Sized
        requires self.square_req()
        ensures self.square_ens(r);
}
pub trait SquareAssign {
    spec fn square_assign_req(&self) -> bool;
    spec fn square_assign_ens(&self, r: &Self) -> bool;
    fn square_assign(&mut self)
        requires old(self).square_assign_req()
        ensures old(self).square_assign_ens(final(self));
}
pub trait PowBoundedExp<Exponent> {
    spec fn pow_bounded_exp_req(&self, exponent: &Exponent, exponent_bits: u32) -> bool;
    spec fn pow_bounded_exp_ens(&self, exponent: &Exponent, exponent_bits: u32, r: Self) -> bool where Self: Sized;
    fn pow_bounded_exp(&self, exponent: &Exponent, exponent_bits: u32) -> (r: Self) where Self: Sized
        requires self.pow_bounded_exp_req(exponent, exponent_bits)
        ensures self.pow_bounded_exp_ens(exponent, exponent_bits, r);
}
pub trait Retrieve {
    type Output;
    spec fn retrieve_req(&self) -> bool;
    spec fn retrieve_ens(&self, r: Self::Output) -> bool;
    fn retrieve(&self) -> (r: Self::Output)
        requires self.retrieve_req()
        ensures self.retrieve_ens(r);
}
/// `MontyMultiplier` of /repo/src/traits.rs (`mul_assign` part; the supertrait `From<&Params>` and the bound `Monty: Monty` are dropped:
/// the trait `Monty` itself -- 13 delegating methods in ONE impl block, a GAT -- is not brought in)
pub trait MontyMultiplier<'a> {
    type Monty;
    spec fn mul_assign_req(&self, lhs: &Self::Monty, rhs: &Self::Monty) -> bool;
    spec fn mul_assign_ens(&self, lhs: &Self::Monty, rhs: &Self::Monty, s2: &Self, lhs2: &Self::Monty) -> bool;
    fn mul_assign(&mut self, lhs: &mut Self::Monty, rhs: &Self::Monty)
        requires old(self).mul_assign_req(old(lhs), rhs)
        ensures old(self).mul_assign_ens(old(lhs), rhs, final(self), final(lhs));
}

/// Σ_{i<cnt} view(a_i) * view(b_i): the linear combination of the represented residues
pub open spec fn blincomb_views(p: Seq<(&BoxedMontyForm, &BoxedMontyForm)>, cnt: nat) -> int
    decreases cnt
{ if cnt == 0 { 0 } else { blincomb_views(p, (cnt - 1) as nat) + p[cnt - 1].0.view() * p[cnt - 1].1.view() } }
/// Σ_{i<cnt} repr(a_i) * repr(b_i) with respect to ONE modulus m / precision n (what the slice-level code computes)
pub open spec fn bsor(p: Seq<(&BoxedMontyForm, &BoxedMontyForm)>, m: int, n: nat, cnt: nat) -> int
    decreases cnt
{ if cnt == 0 { 0 } else { bsor(p, m, n, (cnt - 1) as nat) + mont_repr(p[cnt - 1].0.montgomery_form.v(), m, n) * mont_repr(p[cnt - 1].1.montgomery_form.v(), m, n) } }

proof fn lemma_blincomb_views(p: Seq<(&BoxedMontyForm, &BoxedMontyForm)>, m: int, n: nat, cnt: nat)
    requires cnt <= p.len(),
        forall|i: int| 0 <= i < cnt ==> (#[trigger] p[i]).0.params.modulus.0.v() == m && p[i].1.params.modulus.0.v() == m
            && p[i].0.params.modulus.0.nl() == n && p[i].1.params.modulus.0.nl() == n,
    ensures blincomb_views(p, cnt) == bsor(p, m, n, cnt)
    decreases cnt
{
    if cnt > 0 {
        lemma_blincomb_views(p, m, n, (cnt - 1) as nat);
        assert(p[cnt - 1].0.params.modulus.0.v() == m);
    }
}

// `lincomb_boxed_monty_form` (src/modular/lincomb.rs): PROVED in l8_boxed_lincomb.rs (was an assumed stub here)
//@@ fn src/modular/boxed_monty_form/lincomb.rs | impl BoxedMontyForm | lincomb_vartime | body | props C09 C08 C11
impl BoxedMontyForm {
pub fn lincomb_vartime(products: &[(&Self, &Self)]) -> (ret__: Self)
//@+
    requires
        products@.len() >= 1,
        forall|i: int| 0 <= i < products@.len() ==> (#[trigger] products@[i]).0.wf() && products@[i].1.wf()
            && same_modulus(&products@[i].0.params, &products@[0].0.params) && same_modulus(&products@[i].1.params, &products@[0].0.params),
    ensures
        ret__.wf(), ret__.params == products@[0].0.params,
        ret__.view() == blincomb_views(products@, products@.len()) % products@[0].0.params.modulus.0.v(),
//@-
{
//@+
    proof {
        let p0 = products@[0].0;
        lemma_params_rng(&p0.params);
        lemma_blincomb_views(products@, p0.params.modulus.0.v(), p0.params.modulus.0.nl(), products@.len());
    }
//@-
        assert!(!products.is_empty(), "empty products");
        let params = &products[0].0.params;
        Self {
            montgomery_form: lincomb_boxed_monty_form(
                products,
                &params.modulus,
                params.mod_neg_inv,
                params.mod_leading_zeros,
            ),
            params: products[0].0.params.clone(),
        }
    }
}
//@@ end
//@@ fn src/modular/boxed_monty_form/mul.rs | impl Square for BoxedMontyForm | square | body | props C08 C15 C11
impl Square for BoxedMontyForm {
//@+
    open spec fn square_req(&self) -> bool { self.wf() }
    open spec fn square_ens(&self, r: Self) -> bool { bmf_is(r, *self, self.view() * self.view()) }
//@-
fn square(&self) -> (ret__: Self)
{
        BoxedMontyForm::square(self)
    }
}
//@@ end
//@@ fn src/modular/boxed_monty_form/mul.rs | impl SquareAssign for BoxedMontyForm | square_assign | body | props C08 C15 C11
impl SquareAssign for BoxedMontyForm {
//@+
    open spec fn square_assign_req(&self) -> bool { self.wf() }
    open spec fn square_assign_ens(&self, r: &Self) -> bool { bmf_is(*r, *self, self.view() * self.view()) }
//@-
fn square_assign(&mut self)
{
//@+
    let ghost a0 = *self;
    proof {
        lemma_params_rng(&self.params);
        assert forall|r: int| mont_red(r, a0.montgomery_form.v() * a0.montgomery_form.v(), a0.params.modulus.0.v(), bp(a0.params.modulus.0.nl()))
            implies #[trigger] mont_repr(r, a0.params.modulus.0.v(), a0.params.modulus.0.nl()) == (a0.view() * a0.view()) % a0.params.modulus.0.v() by {
            lemma_mont_repr_mul(r, a0.montgomery_form.v(), a0.montgomery_form.v(), a0.params.modulus.0.v(), a0.params.modulus.0.nl());
        }
    }
//@-
        BoxedMontyMultiplier::from(self.params.borrow()).square_assign(&mut self.montgomery_form);
    }
}
//@@ end
//@@ fn src/modular/boxed_monty_form/pow.rs | impl PowBoundedExp<BoxedUint> for BoxedMontyForm | pow_bounded_exp | body | props C09 C15 C11
impl PowBoundedExp<BoxedUint> for BoxedMontyForm {
//@+
    open spec fn pow_bounded_exp_req(&self, exponent: &BoxedUint, exponent_bits: u32) -> bool { self.wf() && exponent.nl() < 0x400_0000 && exponent_bits as int <= 64 * exponent.nl() }
    open spec fn pow_bounded_exp_ens(&self, exponent: &BoxedUint, exponent_bits: u32, r: Self) -> bool { r.wf() && r.params == self.params }
//@-
fn pow_bounded_exp(&self, exponent: &BoxedUint, exponent_bits: u32) -> (ret__: Self)
{
        self.pow_bounded_exp(exponent, exponent_bits)
    }
}
//@@ end
//@@ fn src/modular/boxed_monty_form.rs | impl Retrieve for BoxedMontyForm | retrieve | body | props C08 C15 C11
impl Retrieve for BoxedMontyForm {
//@+
    type Output = BoxedUint;
    open spec fn retrieve_req(&self) -> bool { self.wf() }
    open spec fn retrieve_ens(&self, r: BoxedUint) -> bool { r.nl() == self.params.modulus.0.nl() && r.v() == self.view() && r.v() < self.params.modulus.0.v() }
//@-
fn retrieve(&self) -> (ret__: BoxedUint)
{
        self.retrieve()
    }
}
//@@ end
//@@ fn src/modular/boxed_monty_form/mul.rs | impl<'a> MontyMultiplier<'a> for BoxedMontyMultiplier<'a> | mul_assign | body | props C08 C11
impl<'a> MontyMultiplier<'a> for BoxedMontyMultiplier<'a> {
//@+
    type Monty = BoxedMontyForm;
    /// the multiplier was built for the (shared) parameters of the operands
    open spec fn mul_assign_req(&self, lhs: &BoxedMontyForm, rhs: &BoxedMontyForm) -> bool {
        bmf_bin_req(*lhs, *rhs) && mm_for(self, &lhs.params)
    }
    open spec fn mul_assign_ens(&self, lhs: &BoxedMontyForm, rhs: &BoxedMontyForm, s2: &Self, lhs2: &BoxedMontyForm) -> bool {
        s2.wf() && s2.same(self) && bmf_is(*lhs2, *lhs, lhs.view() * rhs.view())
    }
//@-
fn mul_assign(&mut self, lhs: &mut Self::Monty, rhs: &Self::Monty)
{
//@+
    let ghost a0 = *lhs;
    proof {
        lemma_params_rng(&lhs.params);
        assert forall|r: int| mont_red(r, a0.montgomery_form.v() * rhs.montgomery_form.v(), a0.params.modulus.0.v(), bp(a0.params.modulus.0.nl()))
            implies #[trigger] mont_repr(r, a0.params.modulus.0.v(), a0.params.modulus.0.nl()) == (a0.view() * rhs.view()) % a0.params.modulus.0.v() by {
            lemma_mont_repr_mul(r, a0.montgomery_form.v(), rhs.montgomery_form.v(), a0.params.modulus.0.v(), a0.params.modulus.0.nl());
        }
    }
//@-
        self.mul_assign(&mut lhs.montgomery_form, &rhs.montgomery_form);
    }
}
//@@ end

} // verus!
