// L8: `BoxedMontyParams::from_const_params` (src/modular/boxed_monty_form.rs): compile-time parameters -> boxed parameters -- C08 C15
// "conversion const -> boxed reuses the stored parameters": the constants of a `ConstMontyParams` type that equal their definitions
// (`ConstMontyForm::pwf()`, l6_constmonty.rs) give well-formed boxed parameters with the same modulus, precision = LIMBS limbs, and
// field-wise the same VALUES. Separate unit: it needs the `ConstMontyParams` trait of l6_constmonty.rs.
// `From<&Uint<LIMBS>> for BoxedUint` (`Vec::from(uint.to_limbs()).into()`) is a body; library assumption: `Vec<T>: From<[T; N]>`.
use vstd::prelude::*;
extern crate alloc;
use alloc::sync::Arc;
use crate::speclib::*;
use crate::l1_limb::*;
use crate::l2_core::*;
use crate::l5_monty::*;
use crate::l6_montyform::*;
use crate::l6_constmonty::*;
use crate::l7_boxed_div::*;
use crate::l8_boxed_methods::*;
use crate::l8_boxed_monty::*;
verus! {

// `impl<T, const N: usize> From<[T; N]> for Vec<T>` (= `<[T]>::into_vec(Box::new(s))`): same elements
pub assume_specification<T, const N: usize> [<Vec<T> as From<[T; N]>>::from] (a: [T; N]) -> (r: Vec<T>)
    ensures r@ == a@;
impl<'a, const LIMBS: usize> vstd::std_specs::convert::FromSpecImpl<&'a Uint<LIMBS>> for BoxedUint {
    open spec fn obeys_from_spec() -> bool { false }
    open spec fn from_spec(u: &'a Uint<LIMBS>) -> BoxedUint { arbitrary() }
}
impl<const LIMBS: usize> vstd::std_specs::convert::FromSpecImpl<Uint<LIMBS>> for BoxedUint {
    open spec fn obeys_from_spec() -> bool { false }
    open spec fn from_spec(u: Uint<LIMBS>) -> BoxedUint { arbitrary() }
}
impl<const LIMBS: usize> vstd::std_specs::convert::FromSpecImpl<Odd<Uint<LIMBS>>> for Odd<BoxedUint> {
    open spec fn obeys_from_spec() -> bool { false }
    open spec fn from_spec(u: Odd<Uint<LIMBS>>) -> Odd<BoxedUint> { arbitrary() }
}

//@@ fn src/uint/boxed/from.rs | impl<const LIMBS: usize> From<&Uint<LIMBS>> for BoxedUint | from | body | props C16 C15 C11
impl<const LIMBS: usize> From<&Uint<LIMBS>> for BoxedUint {
fn from(uint: &Uint<LIMBS>) -> (ret__: BoxedUint)
//@+
    ensures LIMBS >= 1 ==> ret__.limbs@ == uint.limbs@, LIMBS == 0 ==> ret__.limbs@ == seq![Limb(0)]
//@-
{
        Vec::from(uint.to_limbs()).into()
    }
}
//@@ end
//@@ fn src/uint/boxed/from.rs | impl<const LIMBS: usize> From<Uint<LIMBS>> for BoxedUint | from | body | props C16 C15 C11
impl<const LIMBS: usize> From<Uint<LIMBS>> for BoxedUint {
fn from(uint: Uint<LIMBS>) -> (ret__: BoxedUint)
//@+
    ensures LIMBS >= 1 ==> ret__.limbs@ == uint.limbs@
//@-
{
        Self::from(&uint)
    }
}
//@@ end
//@@ fn src/uint/boxed/from.rs | impl<const LIMBS: usize> From<Odd<Uint<LIMBS>>> for Odd<BoxedUint> | from | body | props C16 C15 C11
impl<const LIMBS: usize> From<Odd<Uint<LIMBS>>> for Odd<BoxedUint> {
fn from(uint: Odd<Uint<LIMBS>>) -> (ret__: Odd<BoxedUint>)
//@+
    ensures LIMBS >= 1 ==> ret__.0.limbs@ == uint.0.limbs@
//@-
{
        Odd(BoxedUint::from(&uint.0))
    }
}
//@@ end
//@@ fn src/modular/boxed_monty_form.rs | impl BoxedMontyParams | from_const_params | body | props C08 C15 C11
impl BoxedMontyParams {
pub fn from_const_params<const LIMBS: usize, P: ConstMontyParams<LIMBS>>() -> (ret__: Self)
//@+
    ensures
        // the stored constants are reused limb for limb
        LIMBS >= 1 ==> (ret__.modulus.0.limbs@ == P::MODULUS.0.limbs@ && ret__.one.limbs@ == P::ONE.limbs@ && ret__.r2.limbs@ == P::R2.limbs@
            && ret__.r3.limbs@ == P::R3.limbs@ && ret__.mod_neg_inv == P::MOD_NEG_INV && ret__.mod_leading_zeros == P::MOD_LEADING_ZEROS),
        // hence: constants that equal their definitions give well-formed boxed parameters of precision LIMBS for the same modulus
        cparams::<P, LIMBS>().wf() ==> (ret__.wf() && ret__.modulus.0.v() == P::MODULUS.0.v() && ret__.modulus.0.nl() == LIMBS)
//@-
{
        Self {
            modulus: P::MODULUS.into(),
            one: P::ONE.into(),
            r2: P::R2.into(),
            r3: P::R3.into(),
            mod_neg_inv: P::MOD_NEG_INV,
            mod_leading_zeros: P::MOD_LEADING_ZEROS,
        }
    }
}
//@@ end

} // verus!
