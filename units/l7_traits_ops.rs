// L7: by-value / by-reference / assigning operator impls (`+ - *`, `+= -= *=`) of `Uint` and `Int`
// (src/uint/{add,sub,mul}.rs, src/int/{add,sub,mul,mul_uint}.rs) over the checked trait forms -- C03 C04 C13 C11 C15
// Vocabulary (model of `subtle`, hand-declared traits): see l7_traits.rs.
//
// The operators panic exactly on overflow (C11): the operator precondition (vstd `*SpecImpl::*_req`) is "the true result
// fits", and every form returns the true result. No vstd-level `*_spec` is claimed (`obeys_* == false`); the result is
// stated by the `ensures` of the extracted method.
use vstd::prelude::*;
use vstd::arithmetic::div_mod::*;
use core::ops::{Add, AddAssign, Sub, SubAssign, Mul, MulAssign};
use crate::speclib::*;
use crate::l0_prim::*;
use crate::l1_choice::*;
use crate::l1_limb::*;
use crate::l2_core::*;
use crate::l2_subtle::*;
use crate::l3_mul::*;
use crate::l4_int::*;
use crate::l7_traits::*;
use crate::l7_traits_uint::*;
use crate::l7_traits_int::*;
verus! {

// ---- Uint

impl<const LIMBS: usize> vstd::std_specs::ops::AddSpecImpl<Uint<LIMBS>> for Uint<LIMBS> {
    open spec fn obeys_add_spec() -> bool { false }
    open spec fn add_req(self, rhs: Uint<LIMBS>) -> bool { self.v() + rhs.v() < bp(LIMBS as nat) }
    open spec fn add_spec(self, rhs: Uint<LIMBS>) -> Uint<LIMBS> { arbitrary() }
}

impl<'a, const LIMBS: usize> vstd::std_specs::ops::AddSpecImpl<&'a Uint<LIMBS>> for Uint<LIMBS> {
    open spec fn obeys_add_spec() -> bool { false }
    open spec fn add_req(self, rhs: &'a Uint<LIMBS>) -> bool { self.v() + rhs.v() < bp(LIMBS as nat) }
    open spec fn add_spec(self, rhs: &'a Uint<LIMBS>) -> Uint<LIMBS> { arbitrary() }
}

impl<const LIMBS: usize> vstd::std_specs::ops::AddAssignSpecImpl<Uint<LIMBS>> for Uint<LIMBS> {
    open spec fn obeys_add_assign_spec() -> bool { false }
    open spec fn add_assign_req(&self, rhs: Uint<LIMBS>) -> bool { self.v() + rhs.v() < bp(LIMBS as nat) }
    open spec fn add_assign_spec(&self, rhs: Uint<LIMBS>) -> &Self { self }
}

impl<'a, const LIMBS: usize> vstd::std_specs::ops::AddAssignSpecImpl<&'a Uint<LIMBS>> for Uint<LIMBS> {
    open spec fn obeys_add_assign_spec() -> bool { false }
    open spec fn add_assign_req(&self, rhs: &'a Uint<LIMBS>) -> bool { self.v() + rhs.v() < bp(LIMBS as nat) }
    open spec fn add_assign_spec(&self, rhs: &'a Uint<LIMBS>) -> &Self { self }
}

impl<const LIMBS: usize> vstd::std_specs::ops::SubSpecImpl<Uint<LIMBS>> for Uint<LIMBS> {
    open spec fn obeys_sub_spec() -> bool { false }
    open spec fn sub_req(self, rhs: Uint<LIMBS>) -> bool { self.v() >= rhs.v() }
    open spec fn sub_spec(self, rhs: Uint<LIMBS>) -> Uint<LIMBS> { arbitrary() }
}

impl<'a, const LIMBS: usize> vstd::std_specs::ops::SubSpecImpl<&'a Uint<LIMBS>> for Uint<LIMBS> {
    open spec fn obeys_sub_spec() -> bool { false }
    open spec fn sub_req(self, rhs: &'a Uint<LIMBS>) -> bool { self.v() >= rhs.v() }
    open spec fn sub_spec(self, rhs: &'a Uint<LIMBS>) -> Uint<LIMBS> { arbitrary() }
}

impl<const LIMBS: usize> vstd::std_specs::ops::SubAssignSpecImpl<Uint<LIMBS>> for Uint<LIMBS> {
    open spec fn obeys_sub_assign_spec() -> bool { false }
    open spec fn sub_assign_req(&self, rhs: Uint<LIMBS>) -> bool { self.v() >= rhs.v() }
    open spec fn sub_assign_spec(&self, rhs: Uint<LIMBS>) -> &Self { self }
}

impl<'a, const LIMBS: usize> vstd::std_specs::ops::SubAssignSpecImpl<&'a Uint<LIMBS>> for Uint<LIMBS> {
    open spec fn obeys_sub_assign_spec() -> bool { false }
    open spec fn sub_assign_req(&self, rhs: &'a Uint<LIMBS>) -> bool { self.v() >= rhs.v() }
    open spec fn sub_assign_spec(&self, rhs: &'a Uint<LIMBS>) -> &Self { self }
}

impl<const LIMBS: usize, const RHS_LIMBS: usize> vstd::std_specs::ops::MulSpecImpl<Uint<RHS_LIMBS>> for Uint<LIMBS> {
    open spec fn obeys_mul_spec() -> bool { false }
    open spec fn mul_req(self, rhs: Uint<RHS_LIMBS>) -> bool { LIMBS >= 1 && RHS_LIMBS >= 1 && LIMBS + RHS_LIMBS <= usize::MAX && self.v() * rhs.v() < bp(LIMBS as nat) }
    open spec fn mul_spec(self, rhs: Uint<RHS_LIMBS>) -> Uint<LIMBS> { arbitrary() }
}

impl<'a, const LIMBS: usize, const RHS_LIMBS: usize> vstd::std_specs::ops::MulSpecImpl<&'a Uint<RHS_LIMBS>> for Uint<LIMBS> {
    open spec fn obeys_mul_spec() -> bool { false }
    open spec fn mul_req(self, rhs: &'a Uint<RHS_LIMBS>) -> bool { LIMBS >= 1 && RHS_LIMBS >= 1 && LIMBS + RHS_LIMBS <= usize::MAX && self.v() * rhs.v() < bp(LIMBS as nat) }
    open spec fn mul_spec(self, rhs: &'a Uint<RHS_LIMBS>) -> Uint<LIMBS> { arbitrary() }
}

impl<'b, const LIMBS: usize, const RHS_LIMBS: usize> vstd::std_specs::ops::MulSpecImpl<Uint<RHS_LIMBS>> for &'b Uint<LIMBS> {
    open spec fn obeys_mul_spec() -> bool { false }
    open spec fn mul_req(self, rhs: Uint<RHS_LIMBS>) -> bool { LIMBS >= 1 && RHS_LIMBS >= 1 && LIMBS + RHS_LIMBS <= usize::MAX && self.v() * rhs.v() < bp(LIMBS as nat) }
    open spec fn mul_spec(self, rhs: Uint<RHS_LIMBS>) -> Uint<LIMBS> { arbitrary() }
}

impl<'a, 'b, const LIMBS: usize, const RHS_LIMBS: usize> vstd::std_specs::ops::MulSpecImpl<&'a Uint<RHS_LIMBS>> for &'b Uint<LIMBS> {
    open spec fn obeys_mul_spec() -> bool { false }
    open spec fn mul_req(self, rhs: &'a Uint<RHS_LIMBS>) -> bool { LIMBS >= 1 && RHS_LIMBS >= 1 && LIMBS + RHS_LIMBS <= usize::MAX && self.v() * rhs.v() < bp(LIMBS as nat) }
    open spec fn mul_spec(self, rhs: &'a Uint<RHS_LIMBS>) -> Uint<LIMBS> { arbitrary() }
}

impl<const LIMBS: usize, const RHS_LIMBS: usize> vstd::std_specs::ops::MulAssignSpecImpl<Uint<RHS_LIMBS>> for Uint<LIMBS> {
    open spec fn obeys_mul_assign_spec() -> bool { false }
    open spec fn mul_assign_req(&self, rhs: Uint<RHS_LIMBS>) -> bool { LIMBS >= 1 && RHS_LIMBS >= 1 && LIMBS + RHS_LIMBS <= usize::MAX && self.v() * rhs.v() < bp(LIMBS as nat) }
    open spec fn mul_assign_spec(&self, rhs: Uint<RHS_LIMBS>) -> &Self { self }
}

impl<'a, const LIMBS: usize, const RHS_LIMBS: usize> vstd::std_specs::ops::MulAssignSpecImpl<&'a Uint<RHS_LIMBS>> for Uint<LIMBS> {
    open spec fn obeys_mul_assign_spec() -> bool { false }
    open spec fn mul_assign_req(&self, rhs: &'a Uint<RHS_LIMBS>) -> bool { LIMBS >= 1 && RHS_LIMBS >= 1 && LIMBS + RHS_LIMBS <= usize::MAX && self.v() * rhs.v() < bp(LIMBS as nat) }
    open spec fn mul_assign_spec(&self, rhs: &'a Uint<RHS_LIMBS>) -> &Self { self }
}

// ---- Int

impl<const LIMBS: usize> vstd::std_specs::ops::AddSpecImpl<Int<LIMBS>> for Int<LIMBS> {
    open spec fn obeys_add_spec() -> bool { false }
    open spec fn add_req(self, rhs: Int<LIMBS>) -> bool { LIMBS >= 1 && in_range(self.iv() + rhs.iv(), LIMBS as nat) }
    open spec fn add_spec(self, rhs: Int<LIMBS>) -> Int<LIMBS> { arbitrary() }
}

impl<'a, const LIMBS: usize> vstd::std_specs::ops::AddSpecImpl<&'a Int<LIMBS>> for Int<LIMBS> {
    open spec fn obeys_add_spec() -> bool { false }
    open spec fn add_req(self, rhs: &'a Int<LIMBS>) -> bool { LIMBS >= 1 && in_range(self.iv() + rhs.iv(), LIMBS as nat) }
    open spec fn add_spec(self, rhs: &'a Int<LIMBS>) -> Int<LIMBS> { arbitrary() }
}

impl<const LIMBS: usize> vstd::std_specs::ops::AddAssignSpecImpl<Int<LIMBS>> for Int<LIMBS> {
    open spec fn obeys_add_assign_spec() -> bool { false }
    open spec fn add_assign_req(&self, rhs: Int<LIMBS>) -> bool { LIMBS >= 1 && in_range(self.iv() + rhs.iv(), LIMBS as nat) }
    open spec fn add_assign_spec(&self, rhs: Int<LIMBS>) -> &Self { self }
}

impl<'a, const LIMBS: usize> vstd::std_specs::ops::AddAssignSpecImpl<&'a Int<LIMBS>> for Int<LIMBS> {
    open spec fn obeys_add_assign_spec() -> bool { false }
    open spec fn add_assign_req(&self, rhs: &'a Int<LIMBS>) -> bool { LIMBS >= 1 && in_range(self.iv() + rhs.iv(), LIMBS as nat) }
    open spec fn add_assign_spec(&self, rhs: &'a Int<LIMBS>) -> &Self { self }
}

impl<const LIMBS: usize> vstd::std_specs::ops::SubSpecImpl<Int<LIMBS>> for Int<LIMBS> {
    open spec fn obeys_sub_spec() -> bool { false }
    open spec fn sub_req(self, rhs: Int<LIMBS>) -> bool { LIMBS >= 1 && in_range(self.iv() - rhs.iv(), LIMBS as nat) }
    open spec fn sub_spec(self, rhs: Int<LIMBS>) -> Int<LIMBS> { arbitrary() }
}

impl<'a, const LIMBS: usize> vstd::std_specs::ops::SubSpecImpl<&'a Int<LIMBS>> for Int<LIMBS> {
    open spec fn obeys_sub_spec() -> bool { false }
    open spec fn sub_req(self, rhs: &'a Int<LIMBS>) -> bool { LIMBS >= 1 && in_range(self.iv() - rhs.iv(), LIMBS as nat) }
    open spec fn sub_spec(self, rhs: &'a Int<LIMBS>) -> Int<LIMBS> { arbitrary() }
}

impl<const LIMBS: usize, const RHS_LIMBS: usize> vstd::std_specs::ops::MulSpecImpl<Int<RHS_LIMBS>> for Int<LIMBS> {
    open spec fn obeys_mul_spec() -> bool { false }
    open spec fn mul_req(self, rhs: Int<RHS_LIMBS>) -> bool { 1 <= LIMBS < 0x400_0000 && RHS_LIMBS >= 1 && LIMBS + RHS_LIMBS <= usize::MAX && in_range(self.iv() * rhs.iv(), LIMBS as nat) }
    open spec fn mul_spec(self, rhs: Int<RHS_LIMBS>) -> Int<LIMBS> { arbitrary() }
}

impl<'a, const LIMBS: usize, const RHS_LIMBS: usize> vstd::std_specs::ops::MulSpecImpl<&'a Int<RHS_LIMBS>> for Int<LIMBS> {
    open spec fn obeys_mul_spec() -> bool { false }
    open spec fn mul_req(self, rhs: &'a Int<RHS_LIMBS>) -> bool { 1 <= LIMBS < 0x400_0000 && RHS_LIMBS >= 1 && LIMBS + RHS_LIMBS <= usize::MAX && in_range(self.iv() * rhs.iv(), LIMBS as nat) }
    open spec fn mul_spec(self, rhs: &'a Int<RHS_LIMBS>) -> Int<LIMBS> { arbitrary() }
}

impl<'b, const LIMBS: usize, const RHS_LIMBS: usize> vstd::std_specs::ops::MulSpecImpl<Int<RHS_LIMBS>> for &'b Int<LIMBS> {
    open spec fn obeys_mul_spec() -> bool { false }
    open spec fn mul_req(self, rhs: Int<RHS_LIMBS>) -> bool { 1 <= LIMBS < 0x400_0000 && RHS_LIMBS >= 1 && LIMBS + RHS_LIMBS <= usize::MAX && in_range(self.iv() * rhs.iv(), LIMBS as nat) }
    open spec fn mul_spec(self, rhs: Int<RHS_LIMBS>) -> Int<LIMBS> { arbitrary() }
}

impl<'a, 'b, const LIMBS: usize, const RHS_LIMBS: usize> vstd::std_specs::ops::MulSpecImpl<&'a Int<RHS_LIMBS>> for &'b Int<LIMBS> {
    open spec fn obeys_mul_spec() -> bool { false }
    open spec fn mul_req(self, rhs: &'a Int<RHS_LIMBS>) -> bool { 1 <= LIMBS < 0x400_0000 && RHS_LIMBS >= 1 && LIMBS + RHS_LIMBS <= usize::MAX && in_range(self.iv() * rhs.iv(), LIMBS as nat) }
    open spec fn mul_spec(self, rhs: &'a Int<RHS_LIMBS>) -> Int<LIMBS> { arbitrary() }
}

impl<const LIMBS: usize, const RHS_LIMBS: usize> vstd::std_specs::ops::MulSpecImpl<Uint<RHS_LIMBS>> for Int<LIMBS> {
    open spec fn obeys_mul_spec() -> bool { false }
    open spec fn mul_req(self, rhs: Uint<RHS_LIMBS>) -> bool { 1 <= LIMBS < 0x400_0000 && RHS_LIMBS >= 1 && LIMBS + RHS_LIMBS <= usize::MAX && in_range(self.iv() * rhs.v(), LIMBS as nat) }
    open spec fn mul_spec(self, rhs: Uint<RHS_LIMBS>) -> Int<LIMBS> { arbitrary() }
}

impl<'a, const LIMBS: usize, const RHS_LIMBS: usize> vstd::std_specs::ops::MulSpecImpl<&'a Uint<RHS_LIMBS>> for Int<LIMBS> {
    open spec fn obeys_mul_spec() -> bool { false }
    open spec fn mul_req(self, rhs: &'a Uint<RHS_LIMBS>) -> bool { 1 <= LIMBS < 0x400_0000 && RHS_LIMBS >= 1 && LIMBS + RHS_LIMBS <= usize::MAX && in_range(self.iv() * rhs.v(), LIMBS as nat) }
    open spec fn mul_spec(self, rhs: &'a Uint<RHS_LIMBS>) -> Int<LIMBS> { arbitrary() }
}

impl<'b, const LIMBS: usize, const RHS_LIMBS: usize> vstd::std_specs::ops::MulSpecImpl<Uint<RHS_LIMBS>> for &'b Int<LIMBS> {
    open spec fn obeys_mul_spec() -> bool { false }
    open spec fn mul_req(self, rhs: Uint<RHS_LIMBS>) -> bool { 1 <= LIMBS < 0x400_0000 && RHS_LIMBS >= 1 && LIMBS + RHS_LIMBS <= usize::MAX && in_range(self.iv() * rhs.v(), LIMBS as nat) }
    open spec fn mul_spec(self, rhs: Uint<RHS_LIMBS>) -> Int<LIMBS> { arbitrary() }
}

impl<'a, 'b, const LIMBS: usize, const RHS_LIMBS: usize> vstd::std_specs::ops::MulSpecImpl<&'a Uint<RHS_LIMBS>> for &'b Int<LIMBS> {
    open spec fn obeys_mul_spec() -> bool { false }
    open spec fn mul_req(self, rhs: &'a Uint<RHS_LIMBS>) -> bool { 1 <= LIMBS < 0x400_0000 && RHS_LIMBS >= 1 && LIMBS + RHS_LIMBS <= usize::MAX && in_range(self.iv() * rhs.v(), LIMBS as nat) }
    open spec fn mul_spec(self, rhs: &'a Uint<RHS_LIMBS>) -> Int<LIMBS> { arbitrary() }
}

//@@ fn src/uint/add.rs | impl<const LIMBS: usize> Add for Uint<LIMBS> | add | body | props C04 C11 C15
impl<const LIMBS: usize> Add for Uint<LIMBS> {
//@+
    type Output = Uint<LIMBS>;
//@-
fn add(self, rhs: Self) -> (ret__: Self)
//@+
    ensures ret__.v() == self.v() + rhs.v()
//@-
{
        self.add(&rhs)
    }
}
//@@ end
//@@ fn src/uint/add.rs | impl<const LIMBS: usize> Add<&Uint<LIMBS>> for Uint<LIMBS> | add | body | props C04 C11 C15
impl<const LIMBS: usize> Add<&Uint<LIMBS>> for Uint<LIMBS> {
//@+
    type Output = Uint<LIMBS>;
//@-
fn add(self, rhs: &Self) -> (ret__: Self)
//@+
    ensures ret__.v() == self.v() + rhs.v()
//@-
{
        self.checked_add(rhs)
            .expect("attempted to add with overflow")
    }
}
//@@ end
//@@ fn src/uint/add.rs | impl<const LIMBS: usize> AddAssign for Uint<LIMBS> | add_assign | body | props C04 C11 C15
impl<const LIMBS: usize> AddAssign for Uint<LIMBS> {
fn add_assign(&mut self, other: Self)
//@+
    ensures final(self).v() == old(self).v() + other.v()
//@-
{
        *self += &other;
    }
}
//@@ end
//@@ fn src/uint/add.rs | impl<const LIMBS: usize> AddAssign<&Uint<LIMBS>> for Uint<LIMBS> | add_assign | body | props C04 C11 C15
impl<const LIMBS: usize> AddAssign<&Uint<LIMBS>> for Uint<LIMBS> {
fn add_assign(&mut self, other: &Self)
//@+
    ensures final(self).v() == old(self).v() + other.v()
//@-
{
        *self = *self + other;
    }
}
//@@ end
//@@ fn src/uint/sub.rs | impl<const LIMBS: usize> Sub for Uint<LIMBS> | sub | body | props C04 C11 C15
impl<const LIMBS: usize> Sub for Uint<LIMBS> {
//@+
    type Output = Uint<LIMBS>;
//@-
fn sub(self, rhs: Self) -> (ret__: Self)
//@+
    ensures ret__.v() == self.v() - rhs.v()
//@-
{
        self.sub(&rhs)
    }
}
//@@ end
//@@ fn src/uint/sub.rs | impl<const LIMBS: usize> Sub<&Uint<LIMBS>> for Uint<LIMBS> | sub | body | props C04 C11 C15
impl<const LIMBS: usize> Sub<&Uint<LIMBS>> for Uint<LIMBS> {
//@+
    type Output = Uint<LIMBS>;
//@-
fn sub(self, rhs: &Self) -> (ret__: Self)
//@+
    ensures ret__.v() == self.v() - rhs.v()
//@-
{
        self.checked_sub(rhs)
            .expect("attempted to subtract with underflow")
    }
}
//@@ end
//@@ fn src/uint/sub.rs | impl<const LIMBS: usize> SubAssign<Uint<LIMBS>> for Uint<LIMBS> | sub_assign | body | props C04 C11 C15
impl<const LIMBS: usize> SubAssign<Uint<LIMBS>> for Uint<LIMBS> {
fn sub_assign(&mut self, rhs: Uint<LIMBS>)
//@+
    ensures final(self).v() == old(self).v() - rhs.v()
//@-
{
        *self = self.sub(&rhs)
    }
}
//@@ end
//@@ fn src/uint/sub.rs | impl<const LIMBS: usize> SubAssign<&Uint<LIMBS>> for Uint<LIMBS> | sub_assign | body | props C04 C11 C15
impl<const LIMBS: usize> SubAssign<&Uint<LIMBS>> for Uint<LIMBS> {
fn sub_assign(&mut self, rhs: &Uint<LIMBS>)
//@+
    ensures final(self).v() == old(self).v() - rhs.v()
//@-
{
        *self = self.sub(rhs)
    }
}
//@@ end
//@@ fn src/uint/mul.rs | impl<const LIMBS: usize, const RHS_LIMBS: usize> Mul<Uint<RHS_LIMBS>> for Uint<LIMBS> | mul | body | props C03 C11 C15
impl<const LIMBS: usize, const RHS_LIMBS: usize> Mul<Uint<RHS_LIMBS>> for Uint<LIMBS> {
//@+
    type Output = Uint<LIMBS>;
//@-
fn mul(self, rhs: Uint<RHS_LIMBS>) -> (ret__: Self)
//@+
    ensures ret__.v() == self.v() * rhs.v()
//@-
{
        self.mul(&rhs)
    }
}
//@@ end
//@@ fn src/uint/mul.rs | impl<const LIMBS: usize, const RHS_LIMBS: usize> Mul<&Uint<RHS_LIMBS>> for Uint<LIMBS> | mul | body | props C03 C11 C15
impl<const LIMBS: usize, const RHS_LIMBS: usize> Mul<&Uint<RHS_LIMBS>> for Uint<LIMBS> {
//@+
    type Output = Uint<LIMBS>;
//@-
fn mul(self, rhs: &Uint<RHS_LIMBS>) -> (ret__: Self)
//@+
    ensures ret__.v() == self.v() * rhs.v()
//@-
{
        (&self).mul(rhs)
    }
}
//@@ end
//@@ fn src/uint/mul.rs | impl<const LIMBS: usize, const RHS_LIMBS: usize> Mul<Uint<RHS_LIMBS>> for &Uint<LIMBS> | mul | body | props C03 C11 C15
impl<const LIMBS: usize, const RHS_LIMBS: usize> Mul<Uint<RHS_LIMBS>> for &Uint<LIMBS> {
//@+
    type Output = Uint<LIMBS>;
//@-
fn mul(self, rhs: Uint<RHS_LIMBS>) -> (ret__: Self::Output)
//@+
    ensures ret__.v() == self.v() * rhs.v()
//@-
{
        self.mul(&rhs)
    }
}
//@@ end
//@@ fn src/uint/mul.rs | impl<const LIMBS: usize, const RHS_LIMBS: usize> Mul<&Uint<RHS_LIMBS>> for &Uint<LIMBS> | mul | body | props C03 C11 C15
impl<const LIMBS: usize, const RHS_LIMBS: usize> Mul<&Uint<RHS_LIMBS>> for &Uint<LIMBS> {
//@+
    type Output = Uint<LIMBS>;
//@-
fn mul(self, rhs: &Uint<RHS_LIMBS>) -> (ret__: Self::Output)
//@+
    ensures ret__.v() == self.v() * rhs.v()
//@-
{
        self.checked_mul(rhs)
            .expect("attempted to multiply with overflow")
    }
}
//@@ end
//@@ fn src/uint/mul.rs | impl<const LIMBS: usize, const RHS_LIMBS: usize> MulAssign<Uint<RHS_LIMBS>> for Uint<LIMBS> | mul_assign | body | props C03 C11 C15
impl<const LIMBS: usize, const RHS_LIMBS: usize> MulAssign<Uint<RHS_LIMBS>> for Uint<LIMBS> {
fn mul_assign(&mut self, rhs: Uint<RHS_LIMBS>)
//@+
    ensures final(self).v() == old(self).v() * rhs.v()
//@-
{
        *self = self.mul(&rhs)
    }
}
//@@ end
//@@ fn src/uint/mul.rs | impl<const LIMBS: usize, const RHS_LIMBS: usize> MulAssign<&Uint<RHS_LIMBS>> for Uint<LIMBS> | mul_assign | body | props C03 C11 C15
impl<const LIMBS: usize, const RHS_LIMBS: usize> MulAssign<&Uint<RHS_LIMBS>> for Uint<LIMBS> {
fn mul_assign(&mut self, rhs: &Uint<RHS_LIMBS>)
//@+
    ensures final(self).v() == old(self).v() * rhs.v()
//@-
{
        *self = self.mul(rhs)
    }
}
//@@ end
//@@ fn src/int/add.rs | impl<const LIMBS: usize> Add for Int<LIMBS> | add | body | props C13 C11 C15
impl<const LIMBS: usize> Add for Int<LIMBS> {
//@+
    type Output = Int<LIMBS>;
//@-
fn add(self, rhs: Self) -> (ret__: Self)
//@+
    ensures ret__.iv() == self.iv() + rhs.iv()
//@-
{
        self.add(&rhs)
    }
}
//@@ end
//@@ fn src/int/add.rs | impl<const LIMBS: usize> Add<&Int<LIMBS>> for Int<LIMBS> | add | body | props C13 C11 C15
impl<const LIMBS: usize> Add<&Int<LIMBS>> for Int<LIMBS> {
//@+
    type Output = Int<LIMBS>;
//@-
fn add(self, rhs: &Self) -> (ret__: Self)
//@+
    ensures ret__.iv() == self.iv() + rhs.iv()
//@-
{
        CtOption::from(self.checked_add(rhs)).expect("attempted to add with overflow")
    }
}
//@@ end
//@@ fn src/int/add.rs | impl<const LIMBS: usize> AddAssign for Int<LIMBS> | add_assign | body | props C13 C11 C15
impl<const LIMBS: usize> AddAssign for Int<LIMBS> {
fn add_assign(&mut self, other: Self)
//@+
    ensures final(self).iv() == old(self).iv() + other.iv()
//@-
{
        *self += &other;
    }
}
//@@ end
//@@ fn src/int/add.rs | impl<const LIMBS: usize> AddAssign<&Int<LIMBS>> for Int<LIMBS> | add_assign | body | props C13 C11 C15
impl<const LIMBS: usize> AddAssign<&Int<LIMBS>> for Int<LIMBS> {
fn add_assign(&mut self, other: &Self)
//@+
    ensures final(self).iv() == old(self).iv() + other.iv()
//@-
{
        *self = *self + other;
    }
}
//@@ end
//@@ fn src/int/sub.rs | impl<const LIMBS: usize> Sub for Int<LIMBS> | sub | body | props C13 C11 C15
impl<const LIMBS: usize> Sub for Int<LIMBS> {
//@+
    type Output = Int<LIMBS>;
//@-
fn sub(self, rhs: Self) -> (ret__: Self)
//@+
    ensures ret__.iv() == self.iv() - rhs.iv()
//@-
{
        self.sub(&rhs)
    }
}
//@@ end
//@@ fn src/int/sub.rs | impl<const LIMBS: usize> Sub<&Int<LIMBS>> for Int<LIMBS> | sub | body | props C13 C11 C15
impl<const LIMBS: usize> Sub<&Int<LIMBS>> for Int<LIMBS> {
//@+
    type Output = Int<LIMBS>;
//@-
fn sub(self, rhs: &Self) -> (ret__: Self)
//@+
    ensures ret__.iv() == self.iv() - rhs.iv()
//@-
{
        self.checked_sub(rhs)
            .expect("attempted to subtract with underflow")
    }
}
//@@ end
//@@ fn src/int/mul.rs | impl<const LIMBS: usize, const RHS_LIMBS: usize> Mul<Int<RHS_LIMBS>> for Int<LIMBS> | mul | body | props C13 C11 C15
impl<const LIMBS: usize, const RHS_LIMBS: usize> Mul<Int<RHS_LIMBS>> for Int<LIMBS> {
//@+
    type Output = Int<LIMBS>;
//@-
fn mul(self, rhs: Int<RHS_LIMBS>) -> (ret__: Self)
//@+
    ensures ret__.iv() == self.iv() * rhs.iv()
//@-
{
        self.mul(&rhs)
    }
}
//@@ end
//@@ fn src/int/mul.rs | impl<const LIMBS: usize, const RHS_LIMBS: usize> Mul<&Int<RHS_LIMBS>> for Int<LIMBS> | mul | body | props C13 C11 C15
impl<const LIMBS: usize, const RHS_LIMBS: usize> Mul<&Int<RHS_LIMBS>> for Int<LIMBS> {
//@+
    type Output = Int<LIMBS>;
//@-
fn mul(self, rhs: &Int<RHS_LIMBS>) -> (ret__: Self)
//@+
    ensures ret__.iv() == self.iv() * rhs.iv()
//@-
{
        (&self).mul(rhs)
    }
}
//@@ end
//@@ fn src/int/mul.rs | impl<const LIMBS: usize, const RHS_LIMBS: usize> Mul<Int<RHS_LIMBS>> for &Int<LIMBS> | mul | body | props C13 C11 C15
impl<const LIMBS: usize, const RHS_LIMBS: usize> Mul<Int<RHS_LIMBS>> for &Int<LIMBS> {
//@+
    type Output = Int<LIMBS>;
//@-
fn mul(self, rhs: Int<RHS_LIMBS>) -> (ret__: Self::Output)
//@+
    ensures ret__.iv() == self.iv() * rhs.iv()
//@-
{
        self.mul(&rhs)
    }
}
//@@ end
//@@ fn src/int/mul.rs | impl<const LIMBS: usize, const RHS_LIMBS: usize> Mul<&Int<RHS_LIMBS>> for &Int<LIMBS> | mul | body | props C13 C11 C15
impl<const LIMBS: usize, const RHS_LIMBS: usize> Mul<&Int<RHS_LIMBS>> for &Int<LIMBS> {
//@+
    type Output = Int<LIMBS>;
//@-
fn mul(self, rhs: &Int<RHS_LIMBS>) -> (ret__: Self::Output)
//@+
    ensures ret__.iv() == self.iv() * rhs.iv()
//@-
{
        self.checked_mul(rhs)
            .expect("attempted to multiply with overflow")
    }
}
//@@ end
//@@ fn src/int/mul_uint.rs | impl<const LIMBS: usize, const RHS_LIMBS: usize> Mul<Uint<RHS_LIMBS>> for Int<LIMBS> | mul | body | props C13 C11 C15
impl<const LIMBS: usize, const RHS_LIMBS: usize> Mul<Uint<RHS_LIMBS>> for Int<LIMBS> {
//@+
    type Output = Int<LIMBS>;
//@-
fn mul(self, rhs: Uint<RHS_LIMBS>) -> (ret__: Self)
//@+
    ensures ret__.iv() == self.iv() * rhs.v()
//@-
{
        self.mul(&rhs)
    }
}
//@@ end
//@@ fn src/int/mul_uint.rs | impl<const LIMBS: usize, const RHS_LIMBS: usize> Mul<&Uint<RHS_LIMBS>> for Int<LIMBS> | mul | body | props C13 C11 C15
impl<const LIMBS: usize, const RHS_LIMBS: usize> Mul<&Uint<RHS_LIMBS>> for Int<LIMBS> {
//@+
    type Output = Int<LIMBS>;
//@-
fn mul(self, rhs: &Uint<RHS_LIMBS>) -> (ret__: Self)
//@+
    ensures ret__.iv() == self.iv() * rhs.v()
//@-
{
        (&self).mul(rhs)
    }
}
//@@ end
//@@ fn src/int/mul_uint.rs | impl<const LIMBS: usize, const RHS_LIMBS: usize> Mul<Uint<RHS_LIMBS>> for &Int<LIMBS> | mul | body | props C13 C11 C15
impl<const LIMBS: usize, const RHS_LIMBS: usize> Mul<Uint<RHS_LIMBS>> for &Int<LIMBS> {
//@+
    type Output = Int<LIMBS>;
//@-
fn mul(self, rhs: Uint<RHS_LIMBS>) -> (ret__: Self::Output)
//@+
    ensures ret__.iv() == self.iv() * rhs.v()
//@-
{
        self.mul(&rhs)
    }
}
//@@ end
//@@ fn src/int/mul_uint.rs | impl<const LIMBS: usize, const RHS_LIMBS: usize> Mul<&Uint<RHS_LIMBS>> for &Int<LIMBS> | mul | body | props C13 C11 C15
impl<const LIMBS: usize, const RHS_LIMBS: usize> Mul<&Uint<RHS_LIMBS>> for &Int<LIMBS> {
//@+
    type Output = Int<LIMBS>;
//@-
fn mul(self, rhs: &Uint<RHS_LIMBS>) -> (ret__: Self::Output)
//@+
    ensures ret__.iv() == self.iv() * rhs.v()
//@-
{
        self.checked_mul(rhs)
            .expect("attempted to multiply with overflow")
    }
}
//@@ end

} // verus!
