// L7: `Wrapping<T>` arithmetic (src/wrapping.rs): `+ - *` and unary `-` in all by-value / by-reference forms, generic over
// the (local stand-ins of the) `num_traits` traits `WrappingAdd/Sub/Mul/Neg` -- C03 C04 C13 C11 C15
// Vocabulary: see l7_traits.rs. Every operator form is verified, for ANY `T`, to require exactly `T`'s `wrapping_*_req` and to
// return `Wrapping(r)` with `T`'s `wrapping_*_ens(.., r)`; with the instances for Limb / Uint / Int (l7_traits_limb/uint/int)
// this is "operand-wise result modulo 2^BITS". (`Wrapping<T>`'s shifts, `Zero`/`One`, formatting: not covered.)
use vstd::prelude::*;
use core::ops::{Add, Sub, Mul, Neg};
use crate::speclib::*;
use crate::l2_subtle::*;
use crate::l7_traits::*;
verus! {

//@@ item src/wrapping.rs | struct Wrapping
#[derive(Copy, Clone)]
pub struct Wrapping<T>(pub T);
//@@ end

impl<T: WrappingAdd> vstd::std_specs::ops::AddSpecImpl<Wrapping<T>> for Wrapping<T> {
    open spec fn obeys_add_spec() -> bool { false }
    open spec fn add_req(self, rhs: Wrapping<T>) -> bool { self.0.wrapping_add_req(&rhs.0) }
    open spec fn add_spec(self, rhs: Wrapping<T>) -> Wrapping<T> { arbitrary() }
}

impl<'a, T: WrappingAdd> vstd::std_specs::ops::AddSpecImpl<&'a Wrapping<T>> for Wrapping<T> {
    open spec fn obeys_add_spec() -> bool { false }
    open spec fn add_req(self, rhs: &'a Wrapping<T>) -> bool { self.0.wrapping_add_req(&rhs.0) }
    open spec fn add_spec(self, rhs: &'a Wrapping<T>) -> Wrapping<T> { arbitrary() }
}

impl<'b, T: WrappingAdd> vstd::std_specs::ops::AddSpecImpl<Wrapping<T>> for &'b Wrapping<T> {
    open spec fn obeys_add_spec() -> bool { false }
    open spec fn add_req(self, rhs: Wrapping<T>) -> bool { self.0.wrapping_add_req(&rhs.0) }
    open spec fn add_spec(self, rhs: Wrapping<T>) -> Wrapping<T> { arbitrary() }
}

impl<'a, 'b, T: WrappingAdd> vstd::std_specs::ops::AddSpecImpl<&'a Wrapping<T>> for &'b Wrapping<T> {
    open spec fn obeys_add_spec() -> bool { false }
    open spec fn add_req(self, rhs: &'a Wrapping<T>) -> bool { self.0.wrapping_add_req(&rhs.0) }
    open spec fn add_spec(self, rhs: &'a Wrapping<T>) -> Wrapping<T> { arbitrary() }
}

impl<T: WrappingSub> vstd::std_specs::ops::SubSpecImpl<Wrapping<T>> for Wrapping<T> {
    open spec fn obeys_sub_spec() -> bool { false }
    open spec fn sub_req(self, rhs: Wrapping<T>) -> bool { self.0.wrapping_sub_req(&rhs.0) }
    open spec fn sub_spec(self, rhs: Wrapping<T>) -> Wrapping<T> { arbitrary() }
}

impl<'a, T: WrappingSub> vstd::std_specs::ops::SubSpecImpl<&'a Wrapping<T>> for Wrapping<T> {
    open spec fn obeys_sub_spec() -> bool { false }
    open spec fn sub_req(self, rhs: &'a Wrapping<T>) -> bool { self.0.wrapping_sub_req(&rhs.0) }
    open spec fn sub_spec(self, rhs: &'a Wrapping<T>) -> Wrapping<T> { arbitrary() }
}

impl<'b, T: WrappingSub> vstd::std_specs::ops::SubSpecImpl<Wrapping<T>> for &'b Wrapping<T> {
    open spec fn obeys_sub_spec() -> bool { false }
    open spec fn sub_req(self, rhs: Wrapping<T>) -> bool { self.0.wrapping_sub_req(&rhs.0) }
    open spec fn sub_spec(self, rhs: Wrapping<T>) -> Wrapping<T> { arbitrary() }
}

impl<'a, 'b, T: WrappingSub> vstd::std_specs::ops::SubSpecImpl<&'a Wrapping<T>> for &'b Wrapping<T> {
    open spec fn obeys_sub_spec() -> bool { false }
    open spec fn sub_req(self, rhs: &'a Wrapping<T>) -> bool { self.0.wrapping_sub_req(&rhs.0) }
    open spec fn sub_spec(self, rhs: &'a Wrapping<T>) -> Wrapping<T> { arbitrary() }
}

impl<T: WrappingMul> vstd::std_specs::ops::MulSpecImpl<Wrapping<T>> for Wrapping<T> {
    open spec fn obeys_mul_spec() -> bool { false }
    open spec fn mul_req(self, rhs: Wrapping<T>) -> bool { self.0.wrapping_mul_req(&rhs.0) }
    open spec fn mul_spec(self, rhs: Wrapping<T>) -> Wrapping<T> { arbitrary() }
}

impl<'a, T: WrappingMul> vstd::std_specs::ops::MulSpecImpl<&'a Wrapping<T>> for Wrapping<T> {
    open spec fn obeys_mul_spec() -> bool { false }
    open spec fn mul_req(self, rhs: &'a Wrapping<T>) -> bool { self.0.wrapping_mul_req(&rhs.0) }
    open spec fn mul_spec(self, rhs: &'a Wrapping<T>) -> Wrapping<T> { arbitrary() }
}

impl<'b, T: WrappingMul> vstd::std_specs::ops::MulSpecImpl<Wrapping<T>> for &'b Wrapping<T> {
    open spec fn obeys_mul_spec() -> bool { false }
    open spec fn mul_req(self, rhs: Wrapping<T>) -> bool { self.0.wrapping_mul_req(&rhs.0) }
    open spec fn mul_spec(self, rhs: Wrapping<T>) -> Wrapping<T> { arbitrary() }
}

impl<'a, 'b, T: WrappingMul> vstd::std_specs::ops::MulSpecImpl<&'a Wrapping<T>> for &'b Wrapping<T> {
    open spec fn obeys_mul_spec() -> bool { false }
    open spec fn mul_req(self, rhs: &'a Wrapping<T>) -> bool { self.0.wrapping_mul_req(&rhs.0) }
    open spec fn mul_spec(self, rhs: &'a Wrapping<T>) -> Wrapping<T> { arbitrary() }
}

impl<T: WrappingNeg> vstd::std_specs::ops::NegSpecImpl for Wrapping<T> {
    open spec fn obeys_neg_spec() -> bool { false }
    open spec fn neg_req(self) -> bool { self.0.wrapping_neg_req() }
    open spec fn neg_spec(self) -> Wrapping<T> { arbitrary() }
}

impl<'b, T: WrappingNeg> vstd::std_specs::ops::NegSpecImpl for &'b Wrapping<T> {
    open spec fn obeys_neg_spec() -> bool { false }
    open spec fn neg_req(self) -> bool { self.0.wrapping_neg_req() }
    open spec fn neg_spec(self) -> Wrapping<T> { arbitrary() }
}

//@@ fn src/wrapping.rs | impl<T: WrappingAdd> Add<Self> for Wrapping<T> | add | body | props C04 C13 C11 C15
impl<T: WrappingAdd> Add<Self> for Wrapping<T> {
//@+
    type Output = Wrapping<T>;
//@-
fn add(self, rhs: Self) -> (ret__: Self::Output)
//@+
    ensures self.0.wrapping_add_ens(&rhs.0, ret__.0)
//@-
{
        Wrapping(self.0.wrapping_add(&rhs.0))
    }
}
//@@ end
//@@ fn src/wrapping.rs | impl<T: WrappingAdd> Add<&Self> for Wrapping<T> | add | body | props C04 C13 C11 C15
impl<T: WrappingAdd> Add<&Self> for Wrapping<T> {
//@+
    type Output = Wrapping<T>;
//@-
fn add(self, rhs: &Self) -> (ret__: Self::Output)
//@+
    ensures self.0.wrapping_add_ens(&rhs.0, ret__.0)
//@-
{
        Wrapping(self.0.wrapping_add(&rhs.0))
    }
}
//@@ end
//@@ fn src/wrapping.rs | impl<T: WrappingAdd> Add<Wrapping<T>> for &Wrapping<T> | add | body | props C04 C13 C11 C15
impl<T: WrappingAdd> Add<Wrapping<T>> for &Wrapping<T> {
//@+
    type Output = Wrapping<T>;
//@-
fn add(self, rhs: Wrapping<T>) -> (ret__: Self::Output)
//@+
    ensures self.0.wrapping_add_ens(&rhs.0, ret__.0)
//@-
{
        Wrapping(self.0.wrapping_add(&rhs.0))
    }
}
//@@ end
//@@ fn src/wrapping.rs | impl<T: WrappingAdd> Add<&Wrapping<T>> for &Wrapping<T> | add | body | props C04 C13 C11 C15
impl<T: WrappingAdd> Add<&Wrapping<T>> for &Wrapping<T> {
//@+
    type Output = Wrapping<T>;
//@-
fn add(self, rhs: &Wrapping<T>) -> (ret__: Self::Output)
//@+
    ensures self.0.wrapping_add_ens(&rhs.0, ret__.0)
//@-
{
        Wrapping(self.0.wrapping_add(&rhs.0))
    }
}
//@@ end
//@@ fn src/wrapping.rs | impl<T: WrappingSub> Sub<Self> for Wrapping<T> | sub | body | props C04 C13 C11 C15
impl<T: WrappingSub> Sub<Self> for Wrapping<T> {
//@+
    type Output = Wrapping<T>;
//@-
fn sub(self, rhs: Self) -> (ret__: Self::Output)
//@+
    ensures self.0.wrapping_sub_ens(&rhs.0, ret__.0)
//@-
{
        Wrapping(self.0.wrapping_sub(&rhs.0))
    }
}
//@@ end
//@@ fn src/wrapping.rs | impl<T: WrappingSub> Sub<&Self> for Wrapping<T> | sub | body | props C04 C13 C11 C15
impl<T: WrappingSub> Sub<&Self> for Wrapping<T> {
//@+
    type Output = Wrapping<T>;
//@-
fn sub(self, rhs: &Self) -> (ret__: Self::Output)
//@+
    ensures self.0.wrapping_sub_ens(&rhs.0, ret__.0)
//@-
{
        Wrapping(self.0.wrapping_sub(&rhs.0))
    }
}
//@@ end
//@@ fn src/wrapping.rs | impl<T: WrappingSub> Sub<Wrapping<T>> for &Wrapping<T> | sub | body | props C04 C13 C11 C15
impl<T: WrappingSub> Sub<Wrapping<T>> for &Wrapping<T> {
//@+
    type Output = Wrapping<T>;
//@-
fn sub(self, rhs: Wrapping<T>) -> (ret__: Self::Output)
//@+
    ensures self.0.wrapping_sub_ens(&rhs.0, ret__.0)
//@-
{
        Wrapping(self.0.wrapping_sub(&rhs.0))
    }
}
//@@ end
//@@ fn src/wrapping.rs | impl<T: WrappingSub> Sub<&Wrapping<T>> for &Wrapping<T> | sub | body | props C04 C13 C11 C15
impl<T: WrappingSub> Sub<&Wrapping<T>> for &Wrapping<T> {
//@+
    type Output = Wrapping<T>;
//@-
fn sub(self, rhs: &Wrapping<T>) -> (ret__: Self::Output)
//@+
    ensures self.0.wrapping_sub_ens(&rhs.0, ret__.0)
//@-
{
        Wrapping(self.0.wrapping_sub(&rhs.0))
    }
}
//@@ end
//@@ fn src/wrapping.rs | impl<T: WrappingMul> Mul<Self> for Wrapping<T> | mul | body | props C03 C13 C11 C15
impl<T: WrappingMul> Mul<Self> for Wrapping<T> {
//@+
    type Output = Wrapping<T>;
//@-
fn mul(self, rhs: Self) -> (ret__: Self::Output)
//@+
    ensures self.0.wrapping_mul_ens(&rhs.0, ret__.0)
//@-
{
        Wrapping(self.0.wrapping_mul(&rhs.0))
    }
}
//@@ end
//@@ fn src/wrapping.rs | impl<T: WrappingMul> Mul<&Self> for Wrapping<T> | mul | body | props C03 C13 C11 C15
impl<T: WrappingMul> Mul<&Self> for Wrapping<T> {
//@+
    type Output = Wrapping<T>;
//@-
fn mul(self, rhs: &Self) -> (ret__: Self::Output)
//@+
    ensures self.0.wrapping_mul_ens(&rhs.0, ret__.0)
//@-
{
        Wrapping(self.0.wrapping_mul(&rhs.0))
    }
}
//@@ end
//@@ fn src/wrapping.rs | impl<T: WrappingMul> Mul<Wrapping<T>> for &Wrapping<T> | mul | body | props C03 C13 C11 C15
impl<T: WrappingMul> Mul<Wrapping<T>> for &Wrapping<T> {
//@+
    type Output = Wrapping<T>;
//@-
fn mul(self, rhs: Wrapping<T>) -> (ret__: Self::Output)
//@+
    ensures self.0.wrapping_mul_ens(&rhs.0, ret__.0)
//@-
{
        Wrapping(self.0.wrapping_mul(&rhs.0))
    }
}
//@@ end
//@@ fn src/wrapping.rs | impl<T: WrappingMul> Mul<&Wrapping<T>> for &Wrapping<T> | mul | body | props C03 C13 C11 C15
impl<T: WrappingMul> Mul<&Wrapping<T>> for &Wrapping<T> {
//@+
    type Output = Wrapping<T>;
//@-
fn mul(self, rhs: &Wrapping<T>) -> (ret__: Self::Output)
//@+
    ensures self.0.wrapping_mul_ens(&rhs.0, ret__.0)
//@-
{
        Wrapping(self.0.wrapping_mul(&rhs.0))
    }
}
//@@ end
//@@ fn src/wrapping.rs | impl<T: WrappingNeg> Neg for Wrapping<T> | neg | body | props C04 C13 C11 C15
impl<T: WrappingNeg> Neg for Wrapping<T> {
//@+
    type Output = Wrapping<T>;
//@-
fn neg(self) -> (ret__: Self::Output)
//@+
    ensures self.0.wrapping_neg_ens(ret__.0)
//@-
{
        Wrapping(self.0.wrapping_neg())
    }
}
//@@ end
//@@ fn src/wrapping.rs | impl<T: WrappingNeg> Neg for &Wrapping<T> | neg | body | props C04 C13 C11 C15
impl<T: WrappingNeg> Neg for &Wrapping<T> {
//@+
    type Output = Wrapping<T>;
//@-
fn neg(self) -> (ret__: Self::Output)
//@+
    ensures self.0.wrapping_neg_ens(ret__.0)
//@-
{
        Wrapping(self.0.wrapping_neg())
    }
}
//@@ end

} // verus!
