// L5: Montgomery reduction and multiplication (src/modular/reduction.rs, mul.rs, add.rs, sub.rs) -- C08
use vstd::prelude::*;
use vstd::arithmetic::power::*;
use vstd::arithmetic::power2::*;
use vstd::arithmetic::div_mod::*;
use crate::speclib::*;
use crate::speclib_bits::*;
use crate::l0_prim::*;
use crate::l1_choice::*;
use crate::l1_limb::*;
use crate::l2_core::*;
use crate::l3_mul::*;
use crate::l4_modular::*;
verus! {

/// Montgomery reduction relation with R = B^LIMBS: r is the canonical representative of t * R^-1 (mod m)
pub open spec fn mont_red(r: int, t: int, m: int, big_r: int) -> bool { 0 <= r < m && (r * big_r) % m == t % m }
/// k * m[0] == -1 (mod B)
pub open spec fn neg_inv_ok(k: Limb, m0: Limb) -> bool { (k.0 as int * m0.0 as int) % B() == B() - 1 }

/// The residue represented by the Montgomery-form value t (R = B^n): the a in [0, m) with a * R == t (mod m).
/// For odd m it exists and is unique (lemma_mont_repr, lemma_mont_repr_unique).
pub closed spec fn mont_repr(t: int, m: int, n: nat) -> int { choose|a: int| mont_red(a, t, m, bp(n)) }

/// outcome of the word-by-word reduction loop: (upper + meta * R) * R == T + u * m for some u < R
pub open spec fn mont_rel(u: int, uv: int, meta: int, t: int, mv: int, r: int) -> bool { 0 <= u < r && (uv + meta * r) * r == t + u * mv }
pub open spec fn mont_post(u: int, up: Seq<Limb>, meta: Limb, lo0: Seq<Limb>, up0: Seq<Limb>, m: Seq<Limb>) -> bool {
    mont_rel(u, val(up, m.len()), meta.0 as int, val(lo0 + up0, 2 * m.len()), val(m, m.len()), bp(m.len()))
}

// ---- R is invertible modulo an odd m

/// 2^j * ((m+1)/2)^j == 1 (mod m)
proof fn lemma_half_inv(m: int, j: nat)
    requires m > 0, m % 2 == 1
    ensures (p2(j) * pow((m + 1) / 2, j)) % m == 1int % m
    decreases j
{
    let h = (m + 1) / 2;
    if j == 0 {
        lemma_pow2_64(); lemma_pow0(h);
    } else {
        let j1 = (j - 1) as nat;
        lemma_half_inv(m, j1);
        lemma_pow2_unfold(j);
        assert(pow(h, j) == h * pow(h, j1)) by { reveal(pow); }
        let a = p2(j1); let c = pow(h, j1);
        assert(p2(j) == 2 * a);
        assert((2 * a) * (h * c) == (a * c) * (2 * h)) by (nonlinear_arith);
        assert(2 * h == m + 1);
        lemma_mod_add_multiples_vanish(1, m);
        assert((2 * h) % m == 1int % m);
        lemma_mul_mod_noop_general(a * c, 2 * h, m);
        lemma_mul_mod_noop_general(1, 1, m);
    }
}

/// an inverse of R = B^n modulo an odd m
pub proof fn lemma_r_inv(m: int, n: nat) -> (ir: int)
    requires m > 0, m % 2 == 1
    ensures (bp(n) * ir) % m == 1int % m
{
    lemma_half_inv(m, 64 * n);
    lemma_bp_pow2(n);
    pow((m + 1) / 2, 64 * n)
}

/// x * 1 == x (mod m), with 1 given as something congruent to 1
proof fn lemma_mul_one_mod(x: int, e: int, m: int)
    requires m > 0, e % m == 1int % m
    ensures (x * e) % m == x % m
{
    lemma_mul_mod_noop_right(x, e, m);
    lemma_mul_mod_noop_right(x, 1, m);
    assert(x * 1 == x);
}

/// R can be cancelled modulo an odd m
pub proof fn lemma_mont_cancel(x: int, y: int, m: int, n: nat)
    requires m > 0, m % 2 == 1, (x * bp(n)) % m == (y * bp(n)) % m
    ensures x % m == y % m
{
    let r = bp(n);
    let ir = lemma_r_inv(m, n);
    lemma_mul_one_mod(x, r * ir, m);
    lemma_mul_one_mod(y, r * ir, m);
    assert(x * (r * ir) == (x * r) * ir) by (nonlinear_arith);
    assert(y * (r * ir) == (y * r) * ir) by (nonlinear_arith);
    lemma_mul_mod_noop_left(x * r, ir, m);
    lemma_mul_mod_noop_left(y * r, ir, m);
}

/// mont_repr is well defined: it is a canonical residue and represents t
pub proof fn lemma_mont_repr(t: int, m: int, n: nat)
    requires m > 0, m % 2 == 1
    ensures mont_red(mont_repr(t, m, n), t, m, bp(n))
{
    let r = bp(n);
    let ir = lemma_r_inv(m, n);
    let a = (t * ir) % m;
    lemma_mod_bound(t * ir, m);
    lemma_mul_mod_noop_left(t * ir, r, m);
    assert((t * ir) * r == t * (r * ir)) by (nonlinear_arith);
    lemma_mul_one_mod(t, r * ir, m);
    assert(mont_red(a, t, m, r));
}

/// ... and the only one
pub proof fn lemma_mont_repr_unique(a: int, t: int, m: int, n: nat)
    requires m > 0, m % 2 == 1, mont_red(a, t, m, bp(n))
    ensures a == mont_repr(t, m, n)
{
    lemma_mont_repr(t, m, n);
    let b = mont_repr(t, m, n);
    lemma_mont_cancel(a, b, m, n);
    lemma_small_mod(a as nat, m as nat);
    lemma_small_mod(b as nat, m as nat);
}

/// congruent Montgomery values represent the same residue
pub proof fn lemma_mont_repr_cong(s: int, t: int, m: int, n: nat)
    requires m > 0, m % 2 == 1, s % m == t % m
    ensures mont_repr(s, m, n) == mont_repr(t, m, n)
{
    lemma_mont_repr(s, m, n);
    lemma_mont_repr_unique(mont_repr(s, m, n), t, m, n);
}

/// the Montgomery form of a is a * R mod m
pub proof fn lemma_mont_repr_of(a: int, m: int, n: nat)
    requires m > 0, m % 2 == 1
    ensures mont_repr((a * bp(n)) % m, m, n) == a % m, mont_repr(a * bp(n), m, n) == a % m
{
    lemma_mod_bound(a, m);
    lemma_mul_mod_noop_left(a, bp(n), m);
    lemma_mod_twice(a * bp(n), m);
    lemma_mont_repr_unique(a % m, (a * bp(n)) % m, m, n);
    lemma_mont_repr_unique(a % m, a * bp(n), m, n);
}

/// Montgomery multiplication multiplies the represented residues
pub proof fn lemma_mont_repr_mul(r: int, x: int, y: int, m: int, n: nat)
    requires m > 0, m % 2 == 1, mont_red(r, x * y, m, bp(n))
    ensures mont_repr(r, m, n) == (mont_repr(x, m, n) * mont_repr(y, m, n)) % m
{
    let rr = bp(n);
    let ra = mont_repr(x, m, n); let rb = mont_repr(y, m, n);
    lemma_mont_repr(x, m, n); lemma_mont_repr(y, m, n);
    let c = (ra * rb) % m;
    lemma_mod_bound(ra * rb, m);
    // r*R == x*y == (ra*R)*(rb*R)
    lemma_mul_mod_noop_general(x, y, m);
    lemma_mul_mod_noop_general(ra * rr, rb * rr, m);
    assert((ra * rr) * (rb * rr) == ((ra * rb) * rr) * rr) by (nonlinear_arith);
    // (c*R)*R == ((ra*rb)*R)*R
    lemma_mul_mod_noop_left(ra * rb, rr, m);
    lemma_mul_mod_noop_left(c * rr, rr, m);
    lemma_mul_mod_noop_left((ra * rb) * rr, rr, m);
    assert(((c * rr) * rr) % m == (r * rr) % m);
    lemma_mont_cancel(c * rr, r, m, n);
    lemma_mont_repr_unique(c, r, m, n);
}

/// modular addition / subtraction of Montgomery values adds / subtracts the represented residues
pub proof fn lemma_mont_repr_add(x: int, y: int, m: int, n: nat)
    requires m > 0, m % 2 == 1
    ensures mont_repr((x + y) % m, m, n) == (mont_repr(x, m, n) + mont_repr(y, m, n)) % m
{
    let rr = bp(n);
    let ra = mont_repr(x, m, n); let rb = mont_repr(y, m, n);
    lemma_mont_repr(x, m, n); lemma_mont_repr(y, m, n);
    let c = (ra + rb) % m;
    lemma_mod_bound(ra + rb, m);
    lemma_mul_mod_noop_left(ra + rb, rr, m);
    assert((ra + rb) * rr == ra * rr + rb * rr) by (nonlinear_arith);
    lemma_add_mod_noop(ra * rr, rb * rr, m);
    lemma_add_mod_noop(x, y, m);
    lemma_mod_twice(x + y, m);
    lemma_mont_repr_unique(c, (x + y) % m, m, n);
}

pub proof fn lemma_mont_repr_sub(x: int, y: int, m: int, n: nat)
    requires m > 0, m % 2 == 1
    ensures mont_repr((x - y) % m, m, n) == (mont_repr(x, m, n) - mont_repr(y, m, n)) % m
{
    let rr = bp(n);
    let ra = mont_repr(x, m, n); let rb = mont_repr(y, m, n);
    lemma_mont_repr(x, m, n); lemma_mont_repr(y, m, n);
    let c = (ra - rb) % m;
    lemma_mod_bound(ra - rb, m);
    lemma_mul_mod_noop_left(ra - rb, rr, m);
    assert((ra - rb) * rr == ra * rr - rb * rr) by (nonlinear_arith);
    lemma_sub_mod_noop(ra * rr, rb * rr, m);
    lemma_sub_mod_noop(x, y, m);
    lemma_mod_twice(x - y, m);
    lemma_mont_repr_unique(c, (x - y) % m, m, n);
}

// ---- lemmas for the reduction loop

/// (a + ((a*k) % B) * m0) % B == 0 when (k*m0) % B == B-1
proof fn lemma_low_word_zero(a: int, k: int, m0: int)
    requires 0 <= a < B(), 0 <= k < B(), 0 <= m0 < B(), (k * m0) % B() == B() - 1
    ensures (a + ((a * k) % B()) * m0) % B() == 0
{
    let b = B();
    let u = (a * k) % b;
    lemma_mul_mod_noop_left(a * k, m0, b);
    assert((u * m0) % b == ((a * k) * m0) % b);
    assert((a * k) * m0 == a * (k * m0)) by (nonlinear_arith);
    lemma_mul_mod_noop_right(a, k * m0, b);
    assert((a * (k * m0)) % b == (a * (b - 1)) % b);
    assert(a * (b - 1) == a * b - a) by (nonlinear_arith);
    lemma_add_mod_noop_right(a, u * m0, b);
    lemma_add_mod_noop_right(a, a * (b - 1), b);
    assert((a + u * m0) % b == (a + a * (b - 1)) % b);
    assert(a + a * (b - 1) == a * b);
    lemma_mod_multiples_basic(a, b);
}

/// the low word cancels: carry * B == a + u * m0 for the mac result (lw, carry)
proof fn lemma_mr_first(lw: int, carry: int, a: int, k: int, u: int, m0: int)
    requires 0 <= a < B(), 0 <= k < B(), 0 <= m0 < B(), (k * m0) % B() == B() - 1, u == (a * k) % B(),
        0 <= lw < B(), lw + carry * B() == a + u * m0
    ensures carry * B() == a + u * m0
{
    lemma_low_word_zero(a, k, m0);
    lemma_mod_multiples_vanish(carry, lw, B());
    assert(B() * carry + lw == lw + carry * B()) by (nonlinear_arith);
    lemma_small_mod(lw as nat, B() as nat);
}

/// val(lo ++ up, n + k) == val(lo, n) + val(up, k) * B^n
proof fn lemma_mr_concat(lo: Seq<Limb>, up: Seq<Limb>, n: nat, k: nat)
    requires lo.len() == n, up.len() >= k,
    ensures val(lo + up, n + k) == val(lo, n) + val(up, k) * bp(n),
    decreases k
{
    if k > 0 {
        lemma_mr_concat(lo, up, n, (k - 1) as nat);
        lemma_bp_add(n, (k - 1) as nat);
        assert((lo + up)[n + k - 1] == up[k - 1]);
        let a = up[k - 1].0 as int;
        assert(a * bp((n + k - 1) as nat) == a * bp((k - 1) as nat) * bp(n)) by (nonlinear_arith)
            requires bp((n + k - 1) as nat) == bp(n) * bp((k - 1) as nat);
        assert((val(up, (k - 1) as nat) + a * bp((k - 1) as nat)) * bp(n) == val(up, (k - 1) as nat) * bp(n) + a * bp((k - 1) as nat) * bp(n)) by (nonlinear_arith);
    } else {
        lemma_val_ext(lo + up, lo, n);
        assert(0 * bp(n) == 0);
    }
}

/// one multiply-accumulate step of a reduction row (position k = i + j receives u * m[j])
proof fn lemma_mr_mac_step(c_after: Seq<Limb>, c_before: Seq<Limb>, cb: Seq<Limb>, ms: Seq<Limb>, i: nat, j: nat, x: int, carry: int, carry_b: int)
    requires
        j >= 1,
        c_after =~= c_before.update((i + j) as int, c_after[(i + j) as int]),
        0 <= i + j < c_before.len(),
        c_before[(i + j) as int] == cb[(i + j) as int],
        c_after[(i + j) as int].0 as int + carry * B() == cb[(i + j) as int].0 as int + x * ms[j as int].0 as int + carry_b,
        val(c_before, i + j) - val(c_before, i + 1) + carry_b * bp(i + j)
            == val(cb, i + j) - val(cb, i) + x * val(ms, j) * bp(i),
    ensures
        val(c_after, i + j + 1) - val(c_after, i + 1) + carry * bp(i + j + 1)
            == val(cb, i + j + 1) - val(cb, i) + x * val(ms, j + 1) * bp(i),
{
    let k = i + j;
    lemma_val_ext(c_before, c_after, k);
    lemma_val_ext(c_before, c_after, i + 1);
    lemma_bp_succ(k);
    lemma_bp_add(i, j);
    let pk = bp(k);
    let w = c_after[k as int].0 as int; let cc = cb[k as int].0 as int;
    let y = ms[j as int].0 as int;
    assert(w * pk + carry * (B() * pk) == cc * pk + x * y * pk + carry_b * pk) by (nonlinear_arith)
        requires w + carry * B() == cc + x * y + carry_b;
    assert(x * y * pk == x * (y * bp(j)) * bp(i)) by (nonlinear_arith)
        requires pk == bp(i) * bp(j);
    assert(x * (val(ms, j) + y * bp(j)) * bp(i) == x * val(ms, j) * bp(i) + x * (y * bp(j)) * bp(i)) by (nonlinear_arith);
    assert(val(ms, j + 1) == val(ms, j) + y * bp(j));
    assert(val(c_after, k + 1) == val(c_after, k) + w * pk);
    assert(val(cb, k + 1) == val(cb, k) + cc * pk);
}

/// final step: the reduced value is < 2m, the meta carry is a bit, and one conditional subtraction gives t * R^-1 mod m
proof fn lemma_mr_final(upv: int, meta: int, t: int, u: int, m: int, r: int)
    requires 0 <= u < r, (upv + meta * r) * r == t + u * m, 0 <= t < m * r, 0 <= upv < r, 0 <= meta, 0 < m < r
    ensures meta <= 1, 0 <= upv + meta * r < 2 * m,
        ((((upv + meta * r) - m) % m) * r) % m == t % m
{
    let x = upv + meta * r;
    assert(u * m < r * m) by (nonlinear_arith) requires 0 <= u < r, 0 < m;
    assert(m * r == r * m) by (nonlinear_arith);
    assert(x < 2 * m) by (nonlinear_arith) requires x * r < 2 * (m * r), r > 0;
    assert(meta * r >= 0) by (nonlinear_arith) requires meta >= 0, r > 0;
    assert(meta <= 1) by (nonlinear_arith) requires meta * r < 2 * r, r > 0;
    let q = (x - m) / m; let rem = (x - m) % m;
    lemma_fundamental_div_mod(x - m, m);
    assert(rem * r == m * (u - r - q * r) + t) by (nonlinear_arith)
        requires x - m == m * q + rem, x * r == t + u * m;
    lemma_mod_multiples_vanish(u - r - q * r, t, m);
}

//@@ subst \b(Self|Uint)::(ZERO|ONE|MAX|BITS|LOG2_BITS)\b(?!\() => \1::\2()
//@@ subst \bUint::<(\w+)>::(ZERO|ONE|MAX|BITS)\b(?!\() => Uint::<\1>::\2()
//@@ fn src/modular/reduction.rs | - | montgomery_reduction_inner | body | props C08 C11
pub const fn montgomery_reduction_inner(
    upper: &mut [Limb],
    lower: &mut [Limb],
    modulus: &[Limb],
    mod_neg_inv: Limb,
) -> (ret__: Limb)
//@+
    requires
        modulus.len() == old(upper).len(), modulus.len() == old(lower).len(),
        modulus.len() >= 1, modulus.len() < 0x1000_0000,
        neg_inv_ok(mod_neg_inv, modulus[0]),
    ensures
        final(upper).len() == modulus.len(), final(lower).len() == modulus.len(),
        exists|u: int| mont_post(u, final(upper)@, ret__, old(lower)@, old(upper)@, modulus@),
//@-
{
    let nlimbs = modulus.len();
    debug_assert!(nlimbs == upper.len());
    debug_assert!(nlimbs == lower.len());
//@+
    let ghost n = nlimbs as nat;
    let ghost lo0 = lower@; let ghost up0 = upper@;
    let ghost t = val(lower@ + upper@, 2 * n);
    let ghost mv = val(modulus@, n);
    let ghost mut uacc: int = 0;
//@-
    let mut meta_carry = Limb::ZERO;
    let mut new_sum;
    let mut i = 0;
//@+
    proof { lemma_bp_succ(0); }
//@-
    while i < nlimbs
//@+
        invariant
            n == nlimbs, nlimbs == modulus.len(), upper.len() == n, lower.len() == n, 1 <= n < 0x1000_0000,
            i <= n, mv == val(modulus@, n),
            neg_inv_ok(mod_neg_inv, modulus[0]),
            0 <= uacc < bp(i as nat),
            val(lower@ + upper@, 2 * n) - val(lower@ + upper@, i as nat) + meta_carry.0 as int * bp((n + i) as nat) == t + uacc * mv,
        decreases n - i
//@-
{
//@+
        let ghost cb = lower@ + upper@;
        let ghost meta_b = meta_carry;
//@-
        let u = lower[i].wrapping_mul(mod_neg_inv);
        let (_, mut carry) = lower[i].mac(u, modulus[0], Limb::ZERO);
        let mut new_limb;
//@+
        proof {
            let a = lower@[i as int].0 as int; let m0 = modulus@[0].0 as int;
            let lw = a + u.0 as int * m0 - carry.0 as int * B();
            lemma_mr_first(lw, carry.0 as int, a, mod_neg_inv.0 as int, u.0 as int, m0);
            lemma_bp_succ(i as nat);
            assert(val(modulus@, 1) == modulus@[0].0 as int) by { reveal_with_fuel(val, 2); }
            let pi_ = bp(i as nat);
            assert(carry.0 as int * (B() * pi_) == a * pi_ + u.0 as int * m0 * pi_) by (nonlinear_arith)
                requires carry.0 as int * B() == a + u.0 as int * m0;
            assert(val(cb, (i + 1) as nat) == val(cb, i as nat) + a * pi_);
        }
//@-
        let mut j = 1;
        while j < (nlimbs - i)
//@+
            invariant
                n == nlimbs, nlimbs == modulus.len(), upper.len() == n, lower.len() == n, 1 <= n < 0x1000_0000,
                i < n, 1 <= j <= n - i, cb.len() == 2 * n,
                forall|k: int| 0 <= k <= i ==> (lower@ + upper@)[k] == cb[k],
                forall|k: int| i + j <= k < 2 * n ==> (lower@ + upper@)[k] == cb[k],
                val(lower@ + upper@, (i + j) as nat) - val(lower@ + upper@, (i + 1) as nat) + carry.0 as int * bp((i + j) as nat)
                    == val(cb, (i + j) as nat) - val(cb, i as nat) + u.0 as int * val(modulus@, j as nat) * bp(i as nat),
            decreases n - i - j
//@-
{
//@+
            let ghost c_before = lower@ + upper@;
            let ghost carry_b = carry;
//@-
            let (__t0, __t1) = lower[i + j].mac(u, modulus[j], carry); new_limb = __t0; carry = __t1;
            lower[i + j] = new_limb;
//@+
            proof {
                let c_after = lower@ + upper@;
                assert(c_after =~= c_before.update((i + j) as int, new_limb));
                lemma_mr_mac_step(c_after, c_before, cb, modulus@, i as nat, j as nat, u.0 as int, carry.0 as int, carry_b.0 as int);
            }
//@-
            j += 1;
        }
        while j < nlimbs
//@+
            invariant
                n == nlimbs, nlimbs == modulus.len(), upper.len() == n, lower.len() == n, 1 <= n < 0x1000_0000,
                i < n, n - i <= j <= n, j >= 1, cb.len() == 2 * n,
                forall|k: int| 0 <= k <= i ==> (lower@ + upper@)[k] == cb[k],
                forall|k: int| i + j <= k < 2 * n ==> (lower@ + upper@)[k] == cb[k],
                val(lower@ + upper@, (i + j) as nat) - val(lower@ + upper@, (i + 1) as nat) + carry.0 as int * bp((i + j) as nat)
                    == val(cb, (i + j) as nat) - val(cb, i as nat) + u.0 as int * val(modulus@, j as nat) * bp(i as nat),
            decreases n - j
//@-
{
//@+
            let ghost c_before = lower@ + upper@;
            let ghost carry_b = carry;
//@-
            let (__t2, __t3) = upper[i + j - nlimbs].mac(u, modulus[j], carry); new_limb = __t2; carry = __t3;
            upper[i + j - nlimbs] = new_limb;
//@+
            proof {
                let c_after = lower@ + upper@;
                assert(c_after =~= c_before.update((i + j) as int, new_limb));
                lemma_mr_mac_step(c_after, c_before, cb, modulus@, i as nat, j as nat, u.0 as int, carry.0 as int, carry_b.0 as int);
            }
//@-
            j += 1;
        }
//@+
        let ghost c_before = lower@ + upper@;
//@-
        let (__t4, __t5) = upper[i].adc(carry, meta_carry); new_sum = __t4; meta_carry = __t5;
        upper[i] = new_sum;
//@+
        proof {
            let c_after = lower@ + upper@;
            let k = (n + i) as nat;
            assert(c_after =~= c_before.update(k as int, new_sum));
            lemma_val_ext(c_before, c_after, k);
            lemma_val_ext(c_before, c_after, (i + 1) as nat);
            lemma_val_ext(c_before, cb, (i + 1) as nat);
            lemma_tv_ext(c_after, cb, (k + 1) as nat, 2 * n);
            lemma_bp_succ(k);
            lemma_bp_succ(i as nat);
            let pk = bp(k);
            let w = new_sum.0 as int; let cc = cb[k as int].0 as int;
            let ca = carry.0 as int; let mb = meta_b.0 as int; let ma = meta_carry.0 as int;
            assert(c_before[k as int] == cb[k as int]);
            assert(w + ma * B() == cc + ca + mb);
            assert(w * pk + ma * (B() * pk) == cc * pk + ca * pk + mb * pk) by (nonlinear_arith)
                requires w + ma * B() == cc + ca + mb;
            assert(val(c_after, k + 1) == val(c_after, k) + w * pk);
            assert(val(cb, k + 1) == val(cb, k) + cc * pk);
            assert(val(cb, (i + 1) as nat) == val(cb, i as nat) + cb[i as int].0 as int * bp(i as nat));
            uacc = uacc + u.0 as int * bp(i as nat);
            assert((uacc - u.0 as int * bp(i as nat) + u.0 as int * bp(i as nat)) * mv == (uacc - u.0 as int * bp(i as nat)) * mv + u.0 as int * mv * bp(i as nat)) by (nonlinear_arith);
            assert(u.0 as int * bp(i as nat) <= (B() - 1) * bp(i as nat)) by (nonlinear_arith) requires 0 <= u.0 as int <= B() - 1, bp(i as nat) > 0;
            assert((B() - 1) * bp(i as nat) + bp(i as nat) == B() * bp(i as nat)) by (nonlinear_arith);
            assert(u.0 as int * bp(i as nat) >= 0) by (nonlinear_arith) requires 0 <= u.0 as int, bp(i as nat) > 0;
        }
//@-
        i += 1;
    }
//@+
    proof {
        lemma_bp_add(n, n);
        lemma_mr_concat(lower@, upper@, n, n);
        lemma_mr_concat(lower@, upper@, n, 0);
        assert((val(upper@, n) + meta_carry.0 as int * bp(n)) * bp(n) == val(upper@, n) * bp(n) + meta_carry.0 as int * (bp(n) * bp(n))) by (nonlinear_arith);
        assert(mont_post(uacc, upper@, meta_carry, lo0, up0, modulus@));
    }
//@-
    meta_carry
}
//@@ end
//@@ fn src/modular/reduction.rs | - | montgomery_reduction | body | props C08 C11
pub const fn montgomery_reduction<const LIMBS: usize>(
    lower_upper: &(Uint<LIMBS>, Uint<LIMBS>),
    modulus: &Odd<Uint<LIMBS>>,
    mod_neg_inv: Limb,
) -> (ret__: Uint<LIMBS>)
//@+
    requires 1 <= LIMBS < 0x1000_0000, modulus.0.v() % 2 == 1, neg_inv_ok(mod_neg_inv, modulus.0.limbs@[0]),
        lower_upper.0.v() + lower_upper.1.v() * bp(LIMBS as nat) < modulus.0.v() * bp(LIMBS as nat)
    ensures mont_red(ret__.v(), lower_upper.0.v() + lower_upper.1.v() * bp(LIMBS as nat), modulus.0.v(), bp(LIMBS as nat)),
        ret__.v() == mont_repr(lower_upper.0.v() + lower_upper.1.v() * bp(LIMBS as nat), modulus.0.v(), LIMBS as nat)
//@-
{
    let (mut lower, mut upper) = *lower_upper;
//@+
    let ghost lo0 = lower.limbs@; let ghost up0 = upper.limbs@;
    let ghost n = LIMBS as nat;
    let ghost t = lower_upper.0.v() + lower_upper.1.v() * bp(n);
    let ghost m = modulus.0.v();
//@-
    let meta_carry = montgomery_reduction_inner(
        &mut upper.limbs,
        &mut lower.limbs,
        &modulus.0.limbs,
        mod_neg_inv,
    );
    // Division is simply taking the upper half of the limbs
    // Final reduction (at this point, the value is at most 2 * modulus,
    // so `meta_carry` is either 0 or 1)
//@+
    proof {
        let u = choose|u: int| mont_post(u, upper.limbs@, meta_carry, lo0, up0, modulus.0.limbs@);
        lemma_mr_concat(lo0, up0, n, n);
        assert(2 * n == n + n);
        lemma_val_bound(upper.limbs@, n);
        lemma_val_bound(lo0, n); lemma_val_bound(up0, n);
        lemma_val_bound(modulus.0.limbs@, n);
        lemma_mr_final(upper.v(), meta_carry.0 as int, t, u, m, bp(n));
        let r = ((upper.v() + meta_carry.0 as int * bp(n)) - m) % m;
        lemma_mod_bound((upper.v() + meta_carry.0 as int * bp(n)) - m, m);
        lemma_mont_repr_unique(r, t, m, n);
    }
//@-
    upper.sub_mod_with_carry(meta_carry, &modulus.0, &modulus.0)
}
//@@ end
//@@ fn src/modular/mul.rs | - | mul_montgomery_form | body | props C08 C09 C11
pub const fn mul_montgomery_form<const LIMBS: usize>(
    a: &Uint<LIMBS>,
    b: &Uint<LIMBS>,
    modulus: &Odd<Uint<LIMBS>>,
    mod_neg_inv: Limb,
) -> (ret__: Uint<LIMBS>)
//@+
    requires 1 <= LIMBS < 0x1000_0000, modulus.0.v() % 2 == 1, neg_inv_ok(mod_neg_inv, modulus.0.limbs@[0]), a.v() < modulus.0.v(), b.v() < modulus.0.v()
    ensures mont_red(ret__.v(), a.v() * b.v(), modulus.0.v(), bp(LIMBS as nat)),
        ret__.v() < modulus.0.v(),
        mont_repr(ret__.v(), modulus.0.v(), LIMBS as nat)
            == (mont_repr(a.v(), modulus.0.v(), LIMBS as nat) * mont_repr(b.v(), modulus.0.v(), LIMBS as nat)) % modulus.0.v()
//@-
{
    let product = a.split_mul(b);
//@+
    proof {
        let m = modulus.0.v(); let n = LIMBS as nat;
        lemma_val_bound(a.limbs@, n); lemma_val_bound(b.limbs@, n); lemma_val_bound(modulus.0.limbs@, n);
        assert(a.v() * b.v() < m * bp(n)) by (nonlinear_arith)
            requires 0 <= a.v() < m, 0 <= b.v() < m, m < bp(n);
        assert forall|r: int| mont_red(r, a.v() * b.v(), m, bp(n)) implies
            #[trigger] mont_repr(r, m, n) == (mont_repr(a.v(), m, n) * mont_repr(b.v(), m, n)) % m by {
            lemma_mont_repr_mul(r, a.v(), b.v(), m, n);
        }
    }
//@-
    montgomery_reduction::<LIMBS>(&product, modulus, mod_neg_inv)
}
//@@ end
//@@ fn src/modular/mul.rs | - | square_montgomery_form | body | props C08 C09 C11
pub const fn square_montgomery_form<const LIMBS: usize>(
    a: &Uint<LIMBS>,
    modulus: &Odd<Uint<LIMBS>>,
    mod_neg_inv: Limb,
) -> (ret__: Uint<LIMBS>)
//@+
    requires 1 <= LIMBS < 0x1000_0000, modulus.0.v() % 2 == 1, neg_inv_ok(mod_neg_inv, modulus.0.limbs@[0]), a.v() < modulus.0.v()
    ensures mont_red(ret__.v(), a.v() * a.v(), modulus.0.v(), bp(LIMBS as nat)),
        ret__.v() < modulus.0.v(),
        mont_repr(ret__.v(), modulus.0.v(), LIMBS as nat)
            == (mont_repr(a.v(), modulus.0.v(), LIMBS as nat) * mont_repr(a.v(), modulus.0.v(), LIMBS as nat)) % modulus.0.v()
//@-
{
    let product = a.square_wide();
//@+
    proof {
        let m = modulus.0.v(); let n = LIMBS as nat;
        lemma_val_bound(a.limbs@, n); lemma_val_bound(modulus.0.limbs@, n);
        assert(a.v() * a.v() < m * bp(n)) by (nonlinear_arith)
            requires 0 <= a.v() < m, m < bp(n);
        assert forall|r: int| mont_red(r, a.v() * a.v(), m, bp(n)) implies
            #[trigger] mont_repr(r, m, n) == (mont_repr(a.v(), m, n) * mont_repr(a.v(), m, n)) % m by {
            lemma_mont_repr_mul(r, a.v(), a.v(), m, n);
        }
    }
//@-
    montgomery_reduction::<LIMBS>(&product, modulus, mod_neg_inv)
}
//@@ end
//@@ fn src/modular/add.rs | - | add_montgomery_form | body | props C08 C11
pub const fn add_montgomery_form<const LIMBS: usize>(
    a: &Uint<LIMBS>,
    b: &Uint<LIMBS>,
    modulus: &Odd<Uint<LIMBS>>,
) -> (ret__: Uint<LIMBS>)
//@+
    requires modulus.0.v() % 2 == 1, a.v() < modulus.0.v(), b.v() < modulus.0.v()
    ensures ret__.v() < modulus.0.v(), ret__.v() == (a.v() + b.v()) % modulus.0.v(),
        mont_repr(ret__.v(), modulus.0.v(), LIMBS as nat)
            == (mont_repr(a.v(), modulus.0.v(), LIMBS as nat) + mont_repr(b.v(), modulus.0.v(), LIMBS as nat)) % modulus.0.v()
//@-
{
//@+
    proof { lemma_val_bound(a.limbs@, LIMBS as nat); lemma_mont_repr_add(a.v(), b.v(), modulus.0.v(), LIMBS as nat); }
//@-
    a.add_mod(b, &modulus.0)
}
//@@ end
//@@ fn src/modular/add.rs | - | double_montgomery_form | body | props C08 C11
pub const fn double_montgomery_form<const LIMBS: usize>(
    a: &Uint<LIMBS>,
    modulus: &Odd<Uint<LIMBS>>,
) -> (ret__: Uint<LIMBS>)
//@+
    requires modulus.0.v() % 2 == 1, a.v() < modulus.0.v()
    ensures ret__.v() < modulus.0.v(), ret__.v() == (2 * a.v()) % modulus.0.v(),
        mont_repr(ret__.v(), modulus.0.v(), LIMBS as nat) == (2 * mont_repr(a.v(), modulus.0.v(), LIMBS as nat)) % modulus.0.v()
//@-
{
//@+
    proof { lemma_val_bound(a.limbs@, LIMBS as nat); lemma_mont_repr_add(a.v(), a.v(), modulus.0.v(), LIMBS as nat); }
//@-
    a.double_mod(&modulus.0)
}
//@@ end
//@@ fn src/modular/sub.rs | - | sub_montgomery_form | body | props C08 C11
pub const fn sub_montgomery_form<const LIMBS: usize>(
    a: &Uint<LIMBS>,
    b: &Uint<LIMBS>,
    modulus: &Odd<Uint<LIMBS>>,
) -> (ret__: Uint<LIMBS>)
//@+
    requires modulus.0.v() % 2 == 1, a.v() < modulus.0.v(), b.v() < modulus.0.v()
    ensures ret__.v() < modulus.0.v(), ret__.v() == (a.v() - b.v()) % modulus.0.v(),
        mont_repr(ret__.v(), modulus.0.v(), LIMBS as nat)
            == (mont_repr(a.v(), modulus.0.v(), LIMBS as nat) - mont_repr(b.v(), modulus.0.v(), LIMBS as nat)) % modulus.0.v()
//@-
{
//@+
    proof {
        lemma_val_bound(a.limbs@, LIMBS as nat); lemma_val_bound(b.limbs@, LIMBS as nat);
        lemma_mont_repr_sub(a.v(), b.v(), modulus.0.v(), LIMBS as nat);
    }
//@-
    a.sub_mod(b, &modulus.0)
}
//@@ end

} // verus!
