// L5: Montgomery reduction and multiplication (src/modular/reduction.rs, mul.rs, add.rs, sub.rs) -- C08
use vstd::prelude::*;
use vstd::arithmetic::power::*;
use vstd::arithmetic::power2::*;
use vstd::arithmetic::div_mod::*;
use crate::speclib::*;
use crate::speclib_bits::*;
use crate::l0_prim::*;
use crate::l1_choice::*;
use crate::l1_limb::*;
use crate::l2_core::*;
use crate::l3_mul::*;
use crate::l4_modular::*;
verus! {

/// Montgomery reduction relation with R = B^LIMBS: r is the canonical representative of t * R^-1 (mod m)
pub open spec fn mont_red(r: int, t: int, m: int, big_r: int) -> bool { 0 <= r < m && (r * big_r) % m == t % m }
/// k * m[0] == -1 (mod B)
pub open spec fn neg_inv_ok(k: Limb, m0: Limb) -> bool { (k.0 as int * m0.0 as int) % B() == B() - 1 }

//@@ subst \b(Self|Uint)::(ZERO|ONE|MAX|BITS|LOG2_BITS)\b(?!\() => \1::\2()
//@@ subst \bUint::<(\w+)>::(ZERO|ONE|MAX|BITS)\b(?!\() => Uint::<\1>::\2()
//@@ fn src/modular/reduction.rs | - | montgomery_reduction | stub | props C08 C11
#[verifier::external_body]
pub const fn montgomery_reduction<const LIMBS: usize>(
    lower_upper: &(Uint<LIMBS>, Uint<LIMBS>),
    modulus: &Odd<Uint<LIMBS>>,
    mod_neg_inv: Limb,
) -> (ret__: Uint<LIMBS>)
//@+
    requires 1 <= LIMBS < 0x1000_0000, modulus.0.v() % 2 == 1, neg_inv_ok(mod_neg_inv, modulus.0.limbs@[0]),
        lower_upper.0.v() + lower_upper.1.v() * bp(LIMBS as nat) < modulus.0.v() * bp(LIMBS as nat)
    ensures mont_red(ret__.v(), lower_upper.0.v() + lower_upper.1.v() * bp(LIMBS as nat), modulus.0.v(), bp(LIMBS as nat))
//@-
{
    unimplemented!()
}
//@@ end
//@@ fn src/modular/mul.rs | - | mul_montgomery_form | stub | props C08 C09 C11
#[verifier::external_body]
pub const fn mul_montgomery_form<const LIMBS: usize>(
    a: &Uint<LIMBS>,
    b: &Uint<LIMBS>,
    modulus: &Odd<Uint<LIMBS>>,
    mod_neg_inv: Limb,
) -> (ret__: Uint<LIMBS>)
//@+
    requires 1 <= LIMBS < 0x1000_0000, modulus.0.v() % 2 == 1, neg_inv_ok(mod_neg_inv, modulus.0.limbs@[0]), a.v() < modulus.0.v(), b.v() < modulus.0.v()
    ensures mont_red(ret__.v(), a.v() * b.v(), modulus.0.v(), bp(LIMBS as nat))
//@-
{
    unimplemented!()
}
//@@ end
//@@ fn src/modular/mul.rs | - | square_montgomery_form | stub | props C08 C09 C11
#[verifier::external_body]
pub const fn square_montgomery_form<const LIMBS: usize>(
    a: &Uint<LIMBS>,
    modulus: &Odd<Uint<LIMBS>>,
    mod_neg_inv: Limb,
) -> (ret__: Uint<LIMBS>)
//@+
    requires 1 <= LIMBS < 0x1000_0000, modulus.0.v() % 2 == 1, neg_inv_ok(mod_neg_inv, modulus.0.limbs@[0]), a.v() < modulus.0.v()
    ensures mont_red(ret__.v(), a.v() * a.v(), modulus.0.v(), bp(LIMBS as nat))
//@-
{
    unimplemented!()
}
//@@ end

} // verus!
