// L3: variable-time full division (src/uint/div.rs: div_rem_vartime, rem_vartime, rem_wide_vartime, rem2k_vartime, ...) -- C02
use vstd::prelude::*;
use vstd::arithmetic::power::*;
use vstd::arithmetic::power2::*;
use vstd::arithmetic::div_mod::*;
use crate::speclib::*;
use crate::speclib_bits::*;
use crate::l0_prim::*;
use crate::l1_choice::*;
use crate::l1_limb::*;
use crate::l2_core::*;
use crate::l2_shift::*;
use crate::l3_divlimb::*;
verus! {

//@@ subst \b(Self|Uint)::(ZERO|ONE|MAX|BITS|LOG2_BITS)\b(?!\() => \1::\2()
//@@ subst \bUint::<(\w+)>::(ZERO|ONE|MAX|BITS)\b(?!\() => Uint::<\1>::\2()
//@@ fn src/uint/div.rs | impl<const LIMBS: usize> Uint<LIMBS> | shl_limb_vartime | stub | props C02 C11
impl<const LIMBS: usize> Uint<LIMBS> {
#[verifier::external_body]
pub const fn shl_limb_vartime(&self, shift: u32, limbs_num: usize) -> (ret__: (Self, Limb))
//@+
    requires shift < 64, 1 <= limbs_num <= LIMBS
    ensures val(ret__.0.limbs@, limbs_num as nat) + ret__.1.0 as int * bp(limbs_num as nat) == val(self.limbs@, limbs_num as nat) * p2(shift as nat),
        forall|k: int| limbs_num <= k < LIMBS ==> ret__.0.limbs@[k] == (if shift == 0 { self.limbs@[k] } else { Limb(0) })
//@-
{
    unimplemented!()
}
}
//@@ end
//@@ fn src/uint/div.rs | impl<const LIMBS: usize> Uint<LIMBS> | shr_limb_vartime | stub | props C02 C11
impl<const LIMBS: usize> Uint<LIMBS> {
#[verifier::external_body]
pub const fn shr_limb_vartime(&self, shift: u32, limbs_num: usize) -> (ret__: Self)
//@+
    requires shift < 64, 1 <= limbs_num <= LIMBS
    ensures val(ret__.limbs@, limbs_num as nat) == val(self.limbs@, limbs_num as nat) / p2(shift as nat),
        forall|k: int| limbs_num <= k < LIMBS ==> ret__.limbs@[k] == (if shift == 0 { self.limbs@[k] } else { Limb(0) })
//@-
{
    unimplemented!()
}
}
//@@ end
//@@ fn src/uint/div.rs | impl<const LIMBS: usize> Uint<LIMBS> | div_rem_vartime | stub | props C02 C11 C15
impl<const LIMBS: usize> Uint<LIMBS> {
#[verifier::external_body]
pub const fn div_rem_vartime<const RHS_LIMBS: usize>(
        &self,
        rhs: &NonZero<Uint<RHS_LIMBS>>,
    ) -> (ret__: (Self, Uint<RHS_LIMBS>))
//@+
    requires 1 <= LIMBS < 0x400_0000, 1 <= RHS_LIMBS < 0x400_0000, rhs.0.v() != 0
    ensures ret__.0.v() * rhs.0.v() + ret__.1.v() == self.v(), 0 <= ret__.1.v() < rhs.0.v()
//@-
{
    unimplemented!()
}
}
//@@ end
//@@ fn src/uint/div.rs | impl<const LIMBS: usize> Uint<LIMBS> | rem_vartime | stub | props C02 C11 C15
impl<const LIMBS: usize> Uint<LIMBS> {
#[verifier::external_body]
pub const fn rem_vartime(&self, rhs: &NonZero<Self>) -> (ret__: Self)
//@+
    requires 1 <= LIMBS < 0x400_0000, rhs.0.v() != 0
    ensures ret__.v() == self.v() % rhs.0.v()
//@-
{
    unimplemented!()
}
}
//@@ end
//@@ fn src/uint/div.rs | impl<const LIMBS: usize> Uint<LIMBS> | rem_wide_vartime | stub | props C02 C11
impl<const LIMBS: usize> Uint<LIMBS> {
#[verifier::external_body]
pub const fn rem_wide_vartime(lower_upper: (Self, Self), rhs: &NonZero<Self>) -> (ret__: Self)
//@+
    requires 1 <= LIMBS < 0x400_0000, rhs.0.v() != 0
    ensures ret__.v() == (lower_upper.0.v() + lower_upper.1.v() * bp(LIMBS as nat)) % rhs.0.v()
//@-
{
    unimplemented!()
}
}
//@@ end
//@@ fn src/uint/div.rs | impl<const LIMBS: usize> Uint<LIMBS> | rem2k_vartime | stub | props C02 C11
impl<const LIMBS: usize> Uint<LIMBS> {
#[verifier::external_body]
pub const fn rem2k_vartime(&self, k: u32) -> (ret__: Self)
//@+
    requires 1 <= LIMBS < 0x400_0000
    ensures ret__.v() == self.v() % p2(k as nat)
//@-
{
    unimplemented!()
}
}
//@@ end

} // verus!
