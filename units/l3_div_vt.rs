// L3: variable-time full division (src/uint/div.rs: div_rem_vartime, rem_vartime, rem_wide_vartime, rem2k_vartime, ...) -- C02
use vstd::prelude::*;
use vstd::arithmetic::power::*;
use vstd::arithmetic::power2::*;
use vstd::arithmetic::div_mod::*;
use crate::speclib::*;
use crate::speclib_bits::*;
use crate::l0_prim::*;
use crate::l0_corespec::*;
use crate::l1_choice::*;
use crate::l1_limb::*;
use crate::l2_core::*;
use crate::l2_shift::*;
use crate::l3_divlimb::*;
verus! {


// ---------------------------------------------------------------- limb-shift lemmas (shl_limb_vartime / shr_limb_vartime)

/// `(a << l) | (b >> (64-l))` has disjoint bit ranges, so the OR is a sum
proof fn lemma_or_is_add(a: u64, b: u64, l: u32)
    requires 0 < l < 64
    ensures ((a << l) | (b >> ((64 - l) as u32))) as int == (a << l) as int + (b >> ((64 - l) as u32)) as int
{
    let r = (64 - l) as u32;
    let x = a << l; let y = b >> r;
    assert(x & y == 0) by (bit_vector) requires 0 < l < 64, r == (64 - l) as u32, x == a << l, y == b >> r;
    assert((x | y) as int == x as int + y as int) by (bit_vector) requires x & y == 0;
}

/// t = s shifted left by l bits inside n limbs; the bits shifted out of the top limb are the carry
proof fn lemma_shl_limbs(s: Seq<Limb>, t: Seq<Limb>, n: nat, l: u32)
    requires 0 < l < 64, n >= 1, t[0].0 == s[0].0 << l,
        forall|j: int| 1 <= j < n ==> t[j].0 == (s[j].0 << l) | (s[j - 1].0 >> ((64 - l) as u32)),
    ensures val(t, n) + (s[n - 1].0 >> ((64 - l) as u32)) as int * bp(n) == val(s, n) * p2(l as nat),
    decreases n
{
    let r = (64 - l) as u32;
    let ps = p2(l as nat);
    lemma_bp1();
    if n == 1 {
        lemma_limb_shl_split(s[0].0, l);
        assert(val(t, 1) == val(t, 0) + t[0].0 as int * bp(0));
        assert(val(s, 1) == val(s, 0) + s[0].0 as int * bp(0));
        assert(val(t, 0) == 0 && val(s, 0) == 0);
    } else {
        let m = (n - 1) as nat;
        lemma_shl_limbs(s, t, m, l);
        lemma_limb_shl_split(s[m as int].0, l);
        lemma_or_is_add(s[m as int].0, s[m - 1].0, l);
        lemma_bp_succ(m);
        let lo = (s[m as int].0 << l) as int; let hi = (s[m as int].0 >> r) as int; let hp = (s[m - 1].0 >> r) as int;
        let pm = bp(m); let sm = s[m as int].0 as int; let tm = t[m as int].0 as int;
        assert(tm == lo + hp);
        assert(val(t, n) == val(t, m) + tm * pm);
        assert(val(s, n) == val(s, m) + sm * pm);
        assert(tm * pm + hi * (B() * pm) == hp * pm + (sm * ps) * pm) by (nonlinear_arith)
            requires tm == lo + hp, lo + hi * B() == sm * ps;
        assert((val(s, m) + sm * pm) * ps == val(s, m) * ps + (sm * ps) * pm) by (nonlinear_arith);
    }
}

/// t[j] = (s[j] >> r) | (s[j+1] << (64-r)) for j < m: prefix relation
proof fn lemma_shr_limbs(s: Seq<Limb>, t: Seq<Limb>, m: nat, r: u32)
    requires 0 < r < 64,
        forall|j: int| 0 <= j < m ==> t[j].0 == (s[j].0 >> r) | (s[j + 1].0 << ((64 - r) as u32)),
    ensures p2(r as nat) * val(t, m) + p2(r as nat) * (s[m as int].0 >> r) as int * bp(m)
            + (s[0].0 as int - p2(r as nat) * (s[0].0 >> r) as int) == val(s, m + 1),
    decreases m
{
    let l = (64 - r) as u32;
    let pr = p2(r as nat);
    lemma_bp1();
    if m == 0 {
        assert(val(s, 1) == val(s, 0) + s[0].0 as int * bp(0));
        assert(val(s, 0) == 0 && val(t, 0) == 0);
        let h0 = (s[0].0 >> r) as int;
        assert(pr * 0 + pr * h0 * 1 + (s[0].0 as int - pr * h0) == s[0].0 as int) by (nonlinear_arith);
    } else {
        let k = (m - 1) as nat;
        lemma_shr_limbs(s, t, k, r);
        let a = s[k as int].0; let b = s[m as int].0;
        lemma_or_is_add(b, a, l);
        assert((b << l) | (a >> r) == (a >> r) | (b << l)) by (bit_vector);
        lemma_limb_shl_split(b, l);
        lemma_pow2_adds(r as nat, l as nat);
        lemma_pow2_64();
        lemma_bp_succ(k);
        let pl = p2(l as nat);
        let ha = (a >> r) as int; let hb = (b >> r) as int; let lb = (b << l) as int;
        let tk = t[k as int].0 as int; let pk = bp(k); let bi = b as int;
        assert(tk == ha + lb);
        assert(pr * pl == B());
        assert(lb + hb * B() == bi * pl);
        // pr * tk == pr*ha + B*(b - pr*hb)
        assert(pr * tk == pr * ha + B() * (bi - pr * hb)) by (nonlinear_arith)
            requires tk == ha + lb, lb + hb * B() == bi * pl, pr * pl == B();
        assert(val(t, m) == val(t, k) + tk * pk);
        assert(val(s, m + 1) == val(s, m) + bi * bp(m));
        assert(pr * (val(t, k) + tk * pk) + pr * hb * (B() * pk) == pr * val(t, k) + pr * ha * pk + bi * (B() * pk)) by (nonlinear_arith)
            requires pr * tk == pr * ha + B() * (bi - pr * hb);
    }
}

// ---------------------------------------------------------------- Knuth algorithm D lemmas

/// quotient digit estimate from the top 3 by 2 limbs is the true digit or one more
proof fn lemma_knuth_digit(wv: int, y: int, u3: int, v2: int, wl: int, yl: int, e: int, q: int)
    requires
        e >= 1, wv == u3 * e + wl, 0 <= wl < e, y == v2 * e + yl, 0 <= yl < e,
        0 <= wv < y * B(), 2 * y >= B() * B() * e, u3 >= 0, v2 > 0,
        q == min_int(B() - 1, u3 / v2),
    ensures
        wv / y <= q <= wv / y + 1, 0 <= wv / y <= B() - 1,
{
    let b = B();
    let qt = wv / y;
    assert(y > 0) by (nonlinear_arith) requires 2 * y >= b * b * e, e >= 1, b == B();
    lemma_fundamental_div_mod(wv, y);
    lemma_mod_bound(wv, y);
    lemma_div_pos_is_pos(wv, y);
    assert(y * qt == qt * y) by (nonlinear_arith);
    assert(qt * y <= wv < (qt + 1) * y) by (nonlinear_arith) requires wv == y * qt + wv % y, 0 <= wv % y < y;
    // qt <= b-1
    assert(qt < b) by (nonlinear_arith) requires qt * y <= wv, wv < y * b, y > 0;
    let q3 = u3 / v2;
    lemma_fundamental_div_mod(u3, v2);
    lemma_mod_bound(u3, v2);
    lemma_div_pos_is_pos(u3, v2);
    assert(v2 * q3 == q3 * v2) by (nonlinear_arith);
    assert(q3 * v2 <= u3 < (q3 + 1) * v2) by (nonlinear_arith) requires u3 == v2 * q3 + u3 % v2, 0 <= u3 % v2 < v2;
    // qt <= q3
    assert(qt * (v2 * e) <= qt * y) by (nonlinear_arith) requires qt >= 0, y == v2 * e + yl, yl >= 0;
    assert(qt * (v2 * e) == qt * v2 * e) by (nonlinear_arith);
    assert(qt * v2 < u3 + 1) by (nonlinear_arith) requires qt * v2 * e <= wv, wv == u3 * e + wl, wl < e, e >= 1;
    assert(qt < q3 + 1) by (nonlinear_arith) requires qt * v2 <= u3, u3 < (q3 + 1) * v2, v2 > 0;
    assert(qt <= q);
    // q <= qt + 1
    if q >= qt + 2 {
        assert(q <= q3);
        assert(q * v2 <= u3) by (nonlinear_arith) requires q <= q3, q3 * v2 <= u3, v2 > 0;
        assert((qt + 2) * v2 <= q * v2) by (nonlinear_arith) requires qt + 2 <= q, v2 > 0;
        assert((qt + 2) * v2 * e <= u3 * e) by (nonlinear_arith) requires (qt + 2) * v2 <= u3, e >= 1;
        // (qt+2)*v2*e = (qt+2)*(y - yl)
        assert((qt + 2) * v2 * e == (qt + 2) * y - (qt + 2) * yl) by (nonlinear_arith) requires y == v2 * e + yl;
        assert((qt + 2) * yl <= (qt + 2) * e) by (nonlinear_arith) requires qt + 2 >= 0, yl <= e;
        // wv >= u3*e >= (qt+2)*y - (qt+2)*e ; wv < (qt+1)*y  => y < (qt+2)*e
        assert((qt + 2) * y == (qt + 1) * y + y) by (nonlinear_arith);
        assert(y < (qt + 2) * e);
        assert((qt + 2) * e <= (b + 1) * e) by (nonlinear_arith) requires qt + 2 <= b + 1, e >= 1;
        assert(b * b * e > 2 * ((b + 1) * e)) by (nonlinear_arith) requires e >= 1, b == 0x1_0000_0000_0000_0000;
        assert(false);
    }
}

/// if val(s, n) < B^k (k <= n) then the upper limbs do not contribute
proof fn lemma_val_small(s: Seq<Limb>, k: nat, n: nat)
    requires k <= n, val(s, n) < bp(k),
    ensures val(s, k) == val(s, n), forall|j: int| k <= j < n ==> s[j].0 == 0,
    decreases n - k
{
    if n > k {
        lemma_tv_bound(s, 0, (n - 1) as nat);
        lemma_bp_succ((n - 1) as nat);
        let top = s[n - 1].0 as int; let pn = bp((n - 1) as nat);
        assert(val(s, 0) == 0);
        lemma_pow_increases(B() as nat, k, (n - 1) as nat);
        assert(bp(k) <= pn);
        assert(top >= 1 ==> top * pn >= pn) by (nonlinear_arith) requires pn > 0;
        assert(top == 0);
        assert(0 * pn == 0);
        assert(top * pn == 0);
        lemma_val_small(s, k, (n - 1) as nat);
    }
}

/// shifting a limb sequence down by d positions
proof fn lemma_shift_down(s: Seq<Limb>, t: Seq<Limb>, d: nat, n: nat, m: nat)
    requires m + d <= n, forall|j: int| 0 <= j < m ==> t[j] == s[j + d],
    ensures val(t, m) * bp(d) == tv(s, d, m + d),
    decreases m
{
    if m > 0 {
        lemma_shift_down(s, t, d, n, (m - 1) as nat);
        lemma_bp_add((m - 1) as nat, d);
        let a = t[m - 1].0 as int;
        assert(t[m - 1] == s[m - 1 + d]);
        assert((val(t, (m - 1) as nat) + a * bp((m - 1) as nat)) * bp(d) == val(t, (m - 1) as nat) * bp(d) + a * (bp((m - 1) as nat) * bp(d))) by (nonlinear_arith);
        assert((m - 1 + d) as nat == (m + d - 1) as nat);
    } else {
        assert(0 * bp(d) == 0);
    }
}

/// tv(s, p, n) / B^p
spec fn tvq(s: Seq<Limb>, p: nat, n: nat) -> int
    decreases n
{ if n <= p { 0 } else { tvq(s, p, (n - 1) as nat) + s[n - 1].0 as int * bp((n - 1 - p) as nat) } }

proof fn lemma_tv_factor(s: Seq<Limb>, p: nat, n: nat)
    requires p <= n
    ensures tv(s, p, n) == bp(p) * tvq(s, p, n), tvq(s, p, n) >= 0
    decreases n - p
{
    if n > p {
        lemma_tv_factor(s, p, (n - 1) as nat);
        lemma_bp_add(p, (n - 1 - p) as nat);
        lemma_bp_succ((n - 1 - p) as nat);
        let a = s[n - 1].0 as int; let e = bp((n - 1 - p) as nat);
        assert((p + (n - 1 - p)) as nat == (n - 1) as nat);
        assert(bp(p) * (tvq(s, p, (n - 1) as nat) + a * e) == bp(p) * tvq(s, p, (n - 1) as nat) + a * (bp(p) * e)) by (nonlinear_arith);
        assert(a * e >= 0) by (nonlinear_arith) requires a >= 0, e > 0;
    } else {
        assert(bp(p) * 0 == 0);
    }
}

/// normalisation: with shift = (64 - dbits % 64) % 64 the divisor fills its top limb
proof fn lemma_knuth_norm(rv: int, sv: int, dbits: nat, yc: nat, n: nat, shift: nat)
    requires rv > 0, dbits >= 1, rv < p2(dbits), rv >= p2((dbits - 1) as nat), yc as int == (dbits + 63) / 64,
        shift as int == (64 - (dbits % 64)) % 64, 0 <= sv < bp(n), 1 <= yc <= n,
    ensures
        ({ let s2 = p2(shift); let yv = rv * s2; let xv = sv * s2;
           &&& s2 > 0 &&& shift < 64 &&& 2 * yv >= bp(yc) &&& yv < bp(yc) &&& yv > 0
           &&& 0 <= xv &&& xv < yv * bp((n - yc + 1) as nat) })
{
    let s2 = p2(shift); let yv = rv * s2; let xv = sv * s2;
    lemma_pow2_pos(shift);
    lemma_pow2_64();
    lemma_bp_pow2(yc);
    assert(dbits + shift == 64 * yc);
    lemma_pow2_adds((dbits - 1) as nat, shift);
    lemma_pow2_adds(dbits, shift);
    lemma_pow2_unfold(64 * yc);
    assert((dbits - 1 + shift) as nat == (64 * yc - 1) as nat);
    assert(rv * s2 >= p2((dbits - 1) as nat) * s2) by (nonlinear_arith) requires rv >= p2((dbits - 1) as nat), s2 > 0;
    assert(rv * s2 < p2(dbits) * s2) by (nonlinear_arith) requires rv < p2(dbits), s2 > 0;
    assert(2 * yv >= bp(yc) && yv < bp(yc));
    lemma_bp_succ(yc);
    if shift < 63 { lemma_pow2_strictly_increases(shift, 63); }
    assert(s2 <= 0x8000_0000_0000_0000);
    lemma_bp_add(yc, (n - yc + 1) as nat);
    assert((yc + (n - yc + 1)) as nat == n + 1);
    lemma_bp_succ(n); lemma_bp_succ((n - yc + 1) as nat);
    assert(xv >= 0) by (nonlinear_arith) requires xv == sv * s2, sv >= 0, s2 > 0;
    assert(xv < s2 * bp(n)) by (nonlinear_arith) requires xv == sv * s2, sv < bp(n), s2 > 0;
    assert(s2 * bp(n) <= 0x8000_0000_0000_0000 * bp(n)) by (nonlinear_arith) requires s2 <= 0x8000_0000_0000_0000, bp(n) > 0;
    assert(2 * (yv * bp((n - yc + 1) as nat)) >= bp(yc) * bp((n - yc + 1) as nat)) by (nonlinear_arith)
        requires 2 * yv >= bp(yc), bp((n - yc + 1) as nat) > 0;
}

/// a normalised divisor has the top bit of its top limb set
proof fn lemma_knuth_top_norm(ys: Seq<Limb>, yc: nat)
    requires yc >= 1, 2 * val(ys, yc) >= bp(yc)
    ensures ys[yc - 1].0 as int >= B() / 2, ys[yc - 1].0 != 0
{
    lemma_val_bound(ys, (yc - 1) as nat);
    lemma_bp_succ((yc - 1) as nat);
    let top = ys[yc - 1].0 as int; let pt = bp((yc - 1) as nat);
    assert(2 * top >= B() - 1) by (nonlinear_arith)
        requires 2 * (val(ys, (yc - 1) as nat) + top * pt) >= B() * pt, val(ys, (yc - 1) as nat) <= pt - 1, pt > 0;
}

/// undo the normalisation: the remainder of the shifted problem is the shifted remainder
proof fn lemma_knuth_unshift(sv: int, rv: int, s2: int, qacc: int, rem_n: int, hi: int, lo: int)
    requires s2 > 0, rv > 0, sv * s2 == qacc * (rv * s2) + rem_n, rem_n == hi + lo, hi >= 0, lo >= 0, rem_n < rv * s2,
    ensures qacc * rv + rem_n / s2 == sv, 0 <= rem_n / s2 < rv
{
    let rr = sv - qacc * rv;
    assert(rem_n == rr * s2) by (nonlinear_arith) requires sv * s2 == qacc * (rv * s2) + rem_n, rr == sv - qacc * rv;
    assert(0 <= rr < rv) by (nonlinear_arith) requires rem_n == rr * s2, 0 <= rem_n, rem_n < rv * s2, s2 > 0;
    lemma_div_multiples_vanish(rr, s2);
    assert(rr * s2 == s2 * rr) by (nonlinear_arith);
    lemma_div_by_multiple(rr, s2);
}

/// scaled window value of one Knuth iteration: limbs p..k of x (p = k - yc) with the extra top limb h
spec fn kn_wsc(xb: Seq<Limb>, h: int, k: nat, yc: nat) -> int { tv(xb, (k - yc) as nat, k) + h * bp(k) }
/// the true quotient digit of the iteration
spec fn kn_qt(xb: Seq<Limb>, h: int, k: nat, yc: nat, yv: int) -> int { kn_wsc(xb, h, k, yc) / (yv * bp((k - yc) as nat)) }

/// the top dividend limb does not exceed the top divisor limb (precondition of div3by2)
proof fn lemma_knuth_top(xb: Seq<Limb>, ys: Seq<Limb>, h: int, k: nat, yc: nat, yv: int)
    requires 2 <= yc <= k, yv == val(ys, yc), h >= 0,
        h * bp(k) + val(xb, k) < yv * bp((k - yc + 1) as nat),
    ensures h <= ys[yc - 1].0 as int
{
    let p = (k - yc) as nat; let pp = bp(p);
    lemma_bp_succ(p); lemma_bp_succ((yc - 1) as nat); lemma_bp_succ(k);
    lemma_bp_add(p, yc);
    lemma_val_bound(xb, k); lemma_val_bound(ys, (yc - 1) as nat);
    let top = ys[yc - 1].0 as int;
    let pt = bp((yc - 1) as nat);
    assert(yv == val(ys, (yc - 1) as nat) + top * pt);
    assert(yv < (top + 1) * pt) by (nonlinear_arith)
        requires yv == val(ys, (yc - 1) as nat) + top * pt, val(ys, (yc - 1) as nat) <= pt - 1;
    assert(B() * pp > 0) by (nonlinear_arith) requires pp > 0;
    assert(yv * (B() * pp) < (top + 1) * pt * (B() * pp)) by (nonlinear_arith)
        requires yv < (top + 1) * pt, B() * pp > 0;
    assert((top + 1) * pt * (B() * pp) == (top + 1) * bp(k)) by (nonlinear_arith)
        requires bp(k) == pp * bp(yc), bp(yc) == B() * pt;
    assert((k - yc + 1) as nat == p + 1);
    assert(yv * bp((k - yc + 1) as nat) == yv * (B() * pp));
    assert(h < top + 1) by (nonlinear_arith) requires h * bp(k) < (top + 1) * bp(k), bp(k) > 0;
}

/// the 3-by-2 estimate is the true digit qt or qt + 1
proof fn lemma_knuth_quo(xb: Seq<Limb>, ys: Seq<Limb>, h: int, k: nat, yc: nat, yv: int, quo: int)
    requires 2 <= yc <= k, yv == val(ys, yc), 2 * yv >= bp(yc), yv < bp(yc), 0 <= h,
        h * bp(k) + val(xb, k) < yv * bp((k - yc + 1) as nat),
        ys[yc - 1].0 as int >= B() / 2,
        quo == min_int(B() - 1, ((h * B() + xb[k - 1].0 as int) * B() + xb[k - 2].0 as int) / (ys[yc - 1].0 as int * B() + ys[yc - 2].0 as int)),
    ensures
        kn_qt(xb, h, k, yc, yv) <= quo <= kn_qt(xb, h, k, yc, yv) + 1,
        0 <= kn_qt(xb, h, k, yc, yv) <= B() - 1,
        kn_qt(xb, h, k, yc, yv) * yv * bp((k - yc) as nat) <= kn_wsc(xb, h, k, yc) < (kn_qt(xb, h, k, yc, yv) + 1) * yv * bp((k - yc) as nat),
        kn_wsc(xb, h, k, yc) >= 0, yv * bp((k - yc) as nat) > 0,
{
    let p = (k - yc) as nat; let pp = bp(p);
    let xi = (k - 1) as nat;
    let wsc = kn_wsc(xb, h, k, yc);
    let qt = kn_qt(xb, h, k, yc, yv);
    let e = bp((yc - 2) as nat);
    lemma_bp_succ(p); lemma_bp_succ(0); lemma_bp_succ(k); lemma_bp_succ((yc - 1) as nat); lemma_bp_succ((yc - 2) as nat);
    lemma_bp_add(p, yc); lemma_bp_add(p, (yc - 1) as nat); lemma_bp_add(p, (yc - 2) as nat);
    lemma_tv_bound(xb, 0, k); lemma_tv_bound(xb, 0, p); lemma_tv_bound(xb, p, k); assert(val(xb, 0) == 0);
    lemma_tv_bound(ys, 0, (yc - 1) as nat); lemma_tv_bound(ys, 0, (yc - 2) as nat); assert(val(ys, 0) == 0);
    assert((k - yc + 1) as nat == p + 1);
    let top = ys[yc - 1].0 as int; let y2 = ys[yc - 2].0 as int;
    let x1 = xb[xi as int].0 as int; let x0 = xb[xi - 1].0 as int;
    let u3 = (h * B() + x1) * B() + x0;
    let v2 = top * B() + y2;
    let wl_sc = tv(xb, p, (xi - 1) as nat);
    lemma_tv_bound(xb, p, (xi - 1) as nat);
    lemma_bp_succ((xi - 1) as nat); lemma_bp_succ(xi);
    assert((p + (yc - 2)) as nat == (xi - 1) as nat);
    assert(bp((xi - 1) as nat) == pp * e);
    assert(val(xb, k) == val(xb, xi) + x1 * bp(xi));
    assert(val(xb, xi) == val(xb, (xi - 1) as nat) + x0 * bp((xi - 1) as nat));
    assert(wsc == wl_sc + u3 * (pp * e)) by (nonlinear_arith)
        requires wsc == wl_sc + x0 * bp((xi - 1) as nat) + x1 * bp(xi) + h * bp(k),
            bp(xi) == B() * bp((xi - 1) as nat), bp(k) == B() * bp(xi), bp((xi - 1) as nat) == pp * e,
            u3 == (h * B() + x1) * B() + x0;
    let yl = val(ys, (yc - 2) as nat);
    assert(val(ys, yc) == val(ys, (yc - 1) as nat) + top * bp((yc - 1) as nat));
    assert(val(ys, (yc - 1) as nat) == yl + y2 * e);
    assert(yv == v2 * e + yl) by (nonlinear_arith)
        requires yv == yl + y2 * e + top * bp((yc - 1) as nat), bp((yc - 1) as nat) == B() * e, v2 == top * B() + y2;
    assert(yv * pp == v2 * (pp * e) + yl * pp) by (nonlinear_arith) requires yv == v2 * e + yl;
    assert(0 <= yl * pp < pp * e) by (nonlinear_arith) requires 0 <= yl < e, pp > 0;
    assert(wl_sc < pp * e);
    assert(wsc <= h * bp(k) + val(xb, k));
    assert(wsc < (yv * pp) * B()) by (nonlinear_arith)
        requires wsc <= h * bp(k) + val(xb, k), h * bp(k) + val(xb, k) < yv * (B() * pp);
    assert(2 * (yv * pp) >= B() * B() * (pp * e)) by (nonlinear_arith)
        requires 2 * yv >= bp(yc), bp(yc) == B() * bp((yc - 1) as nat), bp((yc - 1) as nat) == B() * e, pp > 0;
    assert(pp * e >= 1) by (nonlinear_arith) requires pp >= 1, e >= 1;
    assert(u3 >= 0) by (nonlinear_arith) requires u3 == (h * B() + x1) * B() + x0, h >= 0, x1 >= 0, x0 >= 0;
    assert(v2 > 0) by (nonlinear_arith) requires v2 == top * B() + y2, top >= B() / 2, y2 >= 0;
    assert(wsc >= 0) by (nonlinear_arith) requires wsc == wl_sc + u3 * (pp * e), wl_sc >= 0, u3 >= 0, pp * e >= 1;
    lemma_knuth_digit(wsc, yv * pp, u3, v2, wl_sc, yl * pp, pp * e, quo);
    assert(yv * pp > 0) by (nonlinear_arith) requires 2 * yv >= bp(yc), bp(yc) > 0, pp > 0;
    lemma_fundamental_div_mod(wsc, yv * pp);
    lemma_mod_bound(wsc, yv * pp);
    assert(qt * yv * pp <= wsc < (qt + 1) * yv * pp) by (nonlinear_arith)
        requires wsc == (yv * pp) * qt + wsc % (yv * pp), 0 <= wsc % (yv * pp) < yv * pp;
}

/// one limb of the multiply-and-subtract loop
proof fn lemma_knuth_sub_step(xb: Seq<Limb>, xo: Seq<Limb>, xn: Seq<Limb>, ys: Seq<Limb>, p: nat, i: nat, q: int,
        c0: int, c1: int, b0: int, b1: int, tm: int)
    requires
        forall|j: int| 0 <= j < p + i ==> xn[j] == xo[j],
        xo[(p + i) as int] == xb[(p + i) as int],
        tv(xo, p, p + i) == tv(xb, p, p + i) - q * val(ys, i) * bp(p) + c0 * bp(p + i) + b0 * bp(p + i),
        tm + c1 * B() == ys[i as int].0 as int * q + c0,
        xn[(p + i) as int].0 as int - b1 * B() == xb[(p + i) as int].0 as int - tm - b0,
    ensures
        tv(xn, p, p + i + 1) == tv(xb, p, p + i + 1) - q * val(ys, i + 1) * bp(p) + c1 * bp(p + i + 1) + b1 * bp(p + i + 1),
{
    let kk = p + i; let pp = bp(p);
    lemma_val_ext(xo, xn, kk);
    lemma_val_ext(xo, xn, p);
    lemma_bp_succ(kk);
    lemma_bp_add(p, i);
    let pk = bp(kk);
    let xov = xb[kk as int].0 as int; let xnv = xn[kk as int].0 as int;
    let yi = ys[i as int].0 as int;
    assert(val(xn, kk + 1) == val(xn, kk) + xnv * pk);
    assert(val(xb, kk + 1) == val(xb, kk) + xov * pk);
    assert(val(ys, i + 1) == val(ys, i) + yi * bp(i));
    assert(xnv * pk == xov * pk - (yi * q) * pk + c1 * (B() * pk) - c0 * pk + b1 * (B() * pk) - b0 * pk) by (nonlinear_arith)
        requires tm + c1 * B() == yi * q + c0, xnv - b1 * B() == xov - tm - b0;
    assert((yi * q) * pk == q * (yi * bp(i)) * pp) by (nonlinear_arith) requires pk == pp * bp(i);
    assert(q * (val(ys, i) + yi * bp(i)) * pp == q * val(ys, i) * pp + q * (yi * bp(i)) * pp) by (nonlinear_arith);
}

/// after the top limb: the borrow tells whether the estimate was one too large
proof fn lemma_knuth_sub_final(xb: Seq<Limb>, xs: Seq<Limb>, h: int, k: nat, yc: nat, yv: int, q: int, c: int, b0: int, b1: int)
    requires 2 <= yc <= k, 0 < yv <= bp(yc),
        kn_qt(xb, h, k, yc, yv) <= q <= kn_qt(xb, h, k, yc, yv) + 1,
        kn_qt(xb, h, k, yc, yv) * yv * bp((k - yc) as nat) <= kn_wsc(xb, h, k, yc) < (kn_qt(xb, h, k, yc, yv) + 1) * yv * bp((k - yc) as nat),
        tv(xs, (k - yc) as nat, k) == tv(xb, (k - yc) as nat, k) - q * yv * bp((k - yc) as nat) + c * bp(k) + b0 * bp(k),
        b0 == 0 || b0 == 1, b1 == 0 || b1 == 1, 0 <= c < B(), 0 <= h < B(),
        (b1 == 1) <==> (h - c - b0 < 0),
    ensures
        (b1 == 1) <==> (q == kn_qt(xb, h, k, yc, yv) + 1),
        tv(xs, (k - yc) as nat, k) == (if b1 == 1 { bp(k) + (kn_wsc(xb, h, k, yc) - kn_qt(xb, h, k, yc, yv) * yv * bp((k - yc) as nat)) - yv * bp((k - yc) as nat) }
                                       else { kn_wsc(xb, h, k, yc) - kn_qt(xb, h, k, yc, yv) * yv * bp((k - yc) as nat) }),
{
    let p = (k - yc) as nat; let pp = bp(p);
    let wsc = kn_wsc(xb, h, k, yc); let qt = kn_qt(xb, h, k, yc, yv);
    let tt = h - c - b0 + b1 * B();
    assert(0 <= tt <= B() - 1);
    lemma_bp_add(p, yc);
    lemma_bp_succ(k); lemma_bp_succ(p);
    let pt = bp(k);
    assert(tt * pt - b1 * (B() * pt) == h * pt - c * pt - b0 * pt) by (nonlinear_arith)
        requires tt - b1 * B() == h - c - b0;
    let l = tv(xs, p, k);
    assert(l + tt * pt == wsc - q * yv * pp + b1 * (B() * pt));
    lemma_tv_bound(xs, p, k);
    assert(0 <= tt * pt <= (B() - 1) * pt) by (nonlinear_arith) requires 0 <= tt <= B() - 1, pt > 0;
    assert((B() - 1) * pt == B() * pt - pt) by (nonlinear_arith);
    assert(yv * pp <= bp(yc) * pp) by (nonlinear_arith) requires yv <= bp(yc), pp > 0;
    assert(bp(yc) * pp == pt) by (nonlinear_arith) requires pt == pp * bp(yc);
    assert(q * yv * pp == qt * yv * pp + (q - qt) * (yv * pp)) by (nonlinear_arith);
    assert((qt + 1) * yv * pp == qt * yv * pp + yv * pp) by (nonlinear_arith);
    let tpt = tt * pt; let bpt = B() * pt;
    let rprime = wsc - qt * yv * pp;
    assert(0 <= rprime < yv * pp);
    assert(tt >= 1 ==> tpt >= pt) by (nonlinear_arith) requires tpt == tt * pt, pt > 0;
    assert(tt <= B() - 2 ==> tpt <= bpt - 2 * pt) by (nonlinear_arith) requires tpt == tt * pt, bpt == B() * pt, pt > 0;
    assert(tpt >= 0) by (nonlinear_arith) requires tpt == tt * pt, tt >= 0, pt > 0;
    assert(b1 == 0 ==> b1 * bpt == 0) by (nonlinear_arith);
    assert(b1 == 1 ==> b1 * bpt == bpt) by (nonlinear_arith);
    if q == qt {
        assert((q - qt) * (yv * pp) == 0) by (nonlinear_arith) requires q - qt == 0;
        assert(l + tpt == rprime + b1 * bpt);
        assert(b1 == 0);
        assert(tt == 0);
        assert(tpt == 0) by (nonlinear_arith) requires tpt == tt * pt, tt == 0;
        assert(l == rprime);
    } else {
        assert(q == qt + 1);
        assert((q - qt) * (yv * pp) == yv * pp) by (nonlinear_arith) requires q - qt == 1;
        assert(l + tpt == rprime - yv * pp + b1 * bpt);
        assert(b1 == 1);
        assert(tt == B() - 1);
        assert(tpt == bpt - pt) by (nonlinear_arith) requires tpt == tt * pt, bpt == B() * pt, tt == B() - 1;
        assert(l == pt + rprime - yv * pp);
    }
}

/// one limb of the conditional add-back loop
proof fn lemma_knuth_add_step(xs: Seq<Limb>, xo: Seq<Limb>, xn: Seq<Limb>, ys: Seq<Limb>, p: nat, i: nat, m: int, sel: int,
        c0: int, c1: int)
    requires
        forall|j: int| 0 <= j < p + i ==> xn[j] == xo[j],
        xo[(p + i) as int] == xs[(p + i) as int],
        tv(xo, p, p + i) + c0 * bp(p + i) == tv(xs, p, p + i) + m * val(ys, i) * bp(p),
        (m == 1 && sel == ys[i as int].0 as int) || (m == 0 && sel == 0),
        xn[(p + i) as int].0 as int + c1 * B() == xs[(p + i) as int].0 as int + sel + c0,
    ensures
        tv(xn, p, p + i + 1) + c1 * bp(p + i + 1) == tv(xs, p, p + i + 1) + m * val(ys, i + 1) * bp(p),
{
    let kk = p + i; let pp = bp(p);
    lemma_val_ext(xo, xn, kk);
    lemma_val_ext(xo, xn, p);
    lemma_bp_succ(kk);
    lemma_bp_add(p, i);
    let pk = bp(kk);
    let xov = xs[kk as int].0 as int; let xnv = xn[kk as int].0 as int; let yi = ys[i as int].0 as int;
    assert(val(xn, kk + 1) == val(xn, kk) + xnv * pk);
    assert(val(xs, kk + 1) == val(xs, kk) + xov * pk);
    assert(val(ys, i + 1) == val(ys, i) + yi * bp(i));
    assert(m * yi == sel) by (nonlinear_arith) requires (m == 1 && sel == yi) || (m == 0 && sel == 0);
    assert(xnv * pk + c1 * (B() * pk) == xov * pk + m * yi * pk + c0 * pk) by (nonlinear_arith)
        requires xnv + c1 * B() == xov + m * yi + c0;
    assert(m * yi * pk == m * (yi * bp(i)) * pp) by (nonlinear_arith) requires pk == pp * bp(i);
    assert(m * (val(ys, i) + yi * bp(i)) * pp == m * val(ys, i) * pp + m * (yi * bp(i)) * pp) by (nonlinear_arith);
}

/// after the add-back loop the window holds the true partial remainder
proof fn lemma_knuth_add_final(xs: Seq<Limb>, xa: Seq<Limb>, k: nat, yc: nat, yv: int, m: int, c: int, rp: int)
    requires 2 <= yc <= k, 0 < yv <= bp(yc), m == 0 || m == 1, c >= 0,
        tv(xa, (k - yc) as nat, k) + c * bp(k) == tv(xs, (k - yc) as nat, k) + m * yv * bp((k - yc) as nat),
        tv(xs, (k - yc) as nat, k) == (if m == 1 { bp(k) + rp - yv * bp((k - yc) as nat) } else { rp }),
        0 <= rp < yv * bp((k - yc) as nat),
    ensures tv(xa, (k - yc) as nat, k) == rp
{
    let p = (k - yc) as nat; let pp = bp(p);
    lemma_bp_add(p, yc); lemma_bp_succ(p); lemma_bp_succ(k);
    lemma_tv_bound(xa, p, k);
    let pt = bp(k);
    let cpt = c * pt;
    assert(yv * pp <= bp(yc) * pp) by (nonlinear_arith) requires yv <= bp(yc), pp > 0;
    assert(bp(yc) * pp == pt) by (nonlinear_arith) requires pt == pp * bp(yc);
    assert(c == 0 ==> cpt == 0) by (nonlinear_arith) requires cpt == c * pt;
    assert(c == 1 ==> cpt == pt) by (nonlinear_arith) requires cpt == c * pt;
    assert(c >= 2 ==> cpt >= 2 * pt) by (nonlinear_arith) requires cpt == c * pt, pt > 0;
    if m == 1 {
        assert(m * yv * pp == yv * pp) by (nonlinear_arith) requires m == 1;
    } else {
        assert(m * yv * pp == 0) by (nonlinear_arith) requires m == 0;
    }
}

/// the partial remainder below the window plus the reduced window stays below yv * B^p
proof fn lemma_knuth_rem_bound(xb: Seq<Limb>, h: int, k: nat, yc: nat, yv: int, qt: int)
    requires 2 <= yc <= k,
        kn_wsc(xb, h, k, yc) - qt * yv * bp((k - yc) as nat) < yv * bp((k - yc) as nat),
    ensures val(xb, (k - yc) as nat) + (kn_wsc(xb, h, k, yc) - qt * yv * bp((k - yc) as nat)) < yv * bp((k - yc) as nat)
{
    let p = (k - yc) as nat; let pp = bp(p);
    let wsc = kn_wsc(xb, h, k, yc);
    let rp = wsc - qt * yv * pp;
    lemma_bp_add(p, yc); lemma_bp_succ(p);
    lemma_val_bound(xb, p);
    lemma_tv_factor(xb, p, k);
    let w = tvq(xb, p, k);
    let byc = bp(yc);
    let z = w + h * byc - qt * yv;
    assert(h * (pp * byc) == pp * (h * byc)) by (nonlinear_arith);
    assert(qt * yv * pp == pp * (qt * yv)) by (nonlinear_arith);
    assert(pp * (w + h * byc - qt * yv) == pp * w + pp * (h * byc) - pp * (qt * yv)) by (nonlinear_arith);
    assert(rp == pp * z);
    assert(z < yv) by (nonlinear_arith) requires pp * z < yv * pp, pp > 0;
    assert(pp * z <= pp * (yv - 1)) by (nonlinear_arith) requires z <= yv - 1, pp > 0;
    assert(pp * (yv - 1) == yv * pp - pp) by (nonlinear_arith);
}

/// end of one iteration of div_rem_vartime: the outer invariant moves from k to k - 1
proof fn lemma_knuth_iter_vt(xb: Seq<Limb>, xa: Seq<Limb>, xn: Seq<Limb>, h: int, k: nat, yc: nat, n: nat, yv: int, qt: int, qacc: int, xv: int)
    requires 2 <= yc <= k <= n, yv > 0,
        0 <= kn_wsc(xb, h, k, yc) - qt * yv * bp((k - yc) as nat) < yv * bp((k - yc) as nat),
        tv(xa, (k - yc) as nat, k) == kn_wsc(xb, h, k, yc) - qt * yv * bp((k - yc) as nat),
        forall|j: int| 0 <= j < n && !(k - yc <= j < k) ==> xa[j] == xb[j],
        forall|j: int| 0 <= j < n && j != k - 1 ==> xn[j] == xa[j],
        xn[k - 1].0 as int == qt,
        xv == qacc * yv + h * bp(k) + val(xb, k),
        tv(xb, k, n) == qacc * bp((yc - 1) as nat),
    ensures
        xv == (qacc + qt * bp((k - yc) as nat)) * yv + xa[k - 1].0 as int * bp((k - 1) as nat) + val(xn, (k - 1) as nat),
        xa[k - 1].0 as int * bp((k - 1) as nat) + val(xn, (k - 1) as nat) < yv * bp((k - yc) as nat),
        tv(xn, (k - 1) as nat, n) == (qacc + qt * bp((k - yc) as nat)) * bp((yc - 1) as nat),
{
    let p = (k - yc) as nat; let pp = bp(p); let xi = (k - 1) as nat;
    let wsc = kn_wsc(xb, h, k, yc);
    let rp = wsc - qt * yv * pp;
    let hn = xa[xi as int].0 as int;
    lemma_val_ext(xa, xn, xi);
    lemma_val_ext(xb, xa, p);
    lemma_tv_ext(xn, xa, k, n);
    lemma_tv_ext(xa, xb, k, n);
    lemma_bp_succ(xi);
    lemma_bp_add(p, (yc - 1) as nat);
    assert((p + (yc - 1)) as nat == xi);
    assert(val(xa, k) == val(xa, xi) + hn * bp(xi));
    assert(hn * bp(xi) + val(xn, xi) == val(xb, p) + rp);
    assert(h * bp(k) + val(xb, k) == val(xb, p) + wsc);
    assert(val(xn, k) == val(xn, xi) + qt * bp(xi));
    assert(tv(xn, xi, n) == tv(xn, k, n) + qt * bp(xi));
    assert(qt * bp(xi) == (qt * pp) * bp((yc - 1) as nat)) by (nonlinear_arith) requires bp(xi) == pp * bp((yc - 1) as nat);
    assert((qacc + qt * pp) * bp((yc - 1) as nat) == qacc * bp((yc - 1) as nat) + (qt * pp) * bp((yc - 1) as nat)) by (nonlinear_arith);
    assert((qacc + qt * pp) * yv == qacc * yv + qt * yv * pp) by (nonlinear_arith);
    lemma_knuth_rem_bound(xb, h, k, yc, yv, qt);
}

// ---------------------------------------------------------------- rem2k_vartime

/// reduction modulo 2^(64*idx + base): keep idx limbs and the low `base` bits of limb idx
proof fn lemma_val_mod_pow2(s: Seq<Limb>, n: nat, idx: nat, base: nat)
    requires idx < n, base < 64
    ensures p2(64 * idx + base) == bp(idx) * p2(base),
        val(s, n) % p2(64 * idx + base) == val(s, idx) + (s[idx as int].0 as int % p2(base)) * bp(idx)
{
    let pb = p2(base); let pi = bp(idx); let m = pi * pb;
    let pc = p2((64 - base) as nat);
    lemma_pow2_pos(base); lemma_pow2_pos((64 - base) as nat); lemma_pow2_64();
    lemma_pow2_adds(64 * idx, base);
    lemma_bp_pow2(idx);
    lemma_pow2_adds((64 - base) as nat, base);
    assert(pc * pb == B());
    lemma_bp_succ(idx);
    assert(m > 0) by (nonlinear_arith) requires m == pi * pb, pi > 0, pb > 0;
    // the limbs above idx contribute a multiple of m
    lemma_tv_factor(s, idx + 1, n);
    let hh = tvq(s, idx + 1, n);
    assert(val(s, n) == val(s, idx + 1) + bp(idx + 1) * hh);
    assert(bp(idx + 1) * hh == m * (pc * hh)) by (nonlinear_arith) requires bp(idx + 1) == B() * pi, pc * pb == B(), m == pi * pb;
    lemma_mod_multiples_vanish(pc * hh, val(s, idx + 1), m);
    // limb idx = pb * qd + rd
    let a = s[idx as int].0 as int;
    let qd = a / pb; let rd = a % pb;
    lemma_fundamental_div_mod(a, pb);
    lemma_mod_bound(a, pb);
    assert(val(s, idx + 1) == val(s, idx) + a * pi);
    assert(a * pi == m * qd + rd * pi) by (nonlinear_arith) requires a == pb * qd + rd, m == pi * pb;
    lemma_mod_multiples_vanish(qd, val(s, idx) + rd * pi, m);
    lemma_val_bound(s, idx);
    assert(rd * pi <= (pb - 1) * pi) by (nonlinear_arith) requires rd <= pb - 1, pi > 0;
    assert((pb - 1) * pi == m - pi) by (nonlinear_arith) requires m == pi * pb;
    assert(rd * pi >= 0) by (nonlinear_arith) requires rd >= 0, pi > 0;
    lemma_small_mod((val(s, idx) + rd * pi) as nat, m as nat);
}

// ---------------------------------------------------------------- rem_wide_vartime

/// t = s moved up by one limb with a new low limb
proof fn lemma_shift_up1(s: Seq<Limb>, t: Seq<Limb>, m: nat)
    requires forall|j: int| 1 <= j <= m ==> t[j] == s[j - 1]
    ensures val(t, m + 1) == t[0].0 as int + B() * val(s, m)
    decreases m
{
    lemma_bp1();
    if m == 0 {
        assert(val(t, 1) == val(t, 0) + t[0].0 as int * bp(0));
        assert(val(t, 0) == 0 && val(s, 0) == 0);
    } else {
        let m1 = (m - 1) as nat;
        lemma_shift_up1(s, t, m1);
        lemma_bp_succ(m1);
        let a = s[m1 as int].0 as int; let q = bp(m1); let v = val(s, m1);
        assert(t[m as int] == s[m - 1]);
        assert(val(t, m + 1) == val(t, m) + a * bp(m));
        assert(val(s, m) == v + a * q);
        assert(B() * (v + a * q) == B() * v + a * (B() * q)) by (nonlinear_arith);
    }
}

/// the Knuth step seen from the wide remainder: A = h * B^k + val(xb, k) loses qt * yv * B^p
proof fn lemma_wide_iter(xb: Seq<Limb>, xa: Seq<Limb>, h: int, k: nat, yc: nat, n: nat, yv: int, qt: int, qacc: int, xv: int, be: int, lov: int)
    requires 2 <= yc <= k <= n, yv > 0,
        0 <= kn_wsc(xb, h, k, yc) - qt * yv * bp((k - yc) as nat) < yv * bp((k - yc) as nat),
        tv(xa, (k - yc) as nat, k) == kn_wsc(xb, h, k, yc) - qt * yv * bp((k - yc) as nat),
        forall|j: int| 0 <= j < n && !(k - yc <= j < k) ==> xa[j] == xb[j],
        xv == qacc * yv + (h * bp(k) + val(xb, k)) * be + lov,
    ensures
        val(xa, k) == h * bp(k) + val(xb, k) - qt * yv * bp((k - yc) as nat),
        0 <= val(xa, k) < yv * bp((k - yc) as nat),
        xv == (qacc + qt * bp((k - yc) as nat) * be) * yv + val(xa, k) * be + lov,
{
    let p = (k - yc) as nat; let pp = bp(p);
    let wsc = kn_wsc(xb, h, k, yc);
    let a = h * bp(k) + val(xb, k);
    let d = qt * yv * pp;
    lemma_val_ext(xb, xa, p);
    lemma_val_bound(xa, k);
    lemma_knuth_rem_bound(xb, h, k, yc, yv, qt);
    assert(val(xa, k) == a - d);
    assert((a - d) * be == a * be - d * be) by (nonlinear_arith);
    assert((qacc + qt * pp * be) * yv == qacc * yv + d * be) by (nonlinear_arith) requires d == qt * yv * pp;
}

/// fetching the next low limb: x moves up by one limb, the old top limb becomes x_hi
proof fn lemma_wide_fetch(xa: Seq<Limb>, xn: Seq<Limb>, los: Seq<Limb>, n: nat, e: nat, bound: int)
    requires n >= 1, e >= 1, xn[0] == los[e - 1], forall|j: int| 1 <= j < n ==> xn[j] == xa[j - 1],
        0 <= val(xa, n) < bound,
    ensures
        (xa[n - 1].0 as int * bp(n) + val(xn, n)) * bp((e - 1) as nat) + val(los, (e - 1) as nat) == val(xa, n) * bp(e) + val(los, e),
        xa[n - 1].0 as int * bp(n) + val(xn, n) < bound * B(),
{
    let n1 = (n - 1) as nat; let e1 = (e - 1) as nat;
    lemma_shift_up1(xa, xn, n1);
    lemma_bp_succ(n1); lemma_bp_succ(e1);
    let top = xa[n1 as int].0 as int; let l0 = xn[0].0 as int;
    let an = top * bp(n) + val(xn, n);
    let va = val(xa, n);
    assert(va == val(xa, n1) + top * bp(n1));
    assert(an == B() * va + l0) by (nonlinear_arith)
        requires an == top * bp(n) + l0 + B() * val(xa, n1), bp(n) == B() * bp(n1), va == val(xa, n1) + top * bp(n1);
    assert(val(los, e) == val(los, e1) + l0 * bp(e1));
    assert((B() * va + l0) * bp(e1) == va * (B() * bp(e1)) + l0 * bp(e1)) by (nonlinear_arith);
    assert(B() * va + B() <= bound * B()) by (nonlinear_arith) requires va + 1 <= bound;
}

//@@ subst \b(Self|Uint)::(ZERO|ONE|MAX|BITS|LOG2_BITS)\b(?!\() => \1::\2()
//@@ subst \bUint::<(\w+)>::(ZERO|ONE|MAX|BITS)\b(?!\() => Uint::<\1>::\2()
//@@ fn src/uint/div.rs | impl<const LIMBS: usize> Uint<LIMBS> | shl_limb_vartime | body | props C02 C11
impl<const LIMBS: usize> Uint<LIMBS> {
pub const fn shl_limb_vartime(&self, shift: u32, limbs_num: usize) -> (ret__: (Self, Limb))
//@+
    requires shift < 64, 1 <= limbs_num <= LIMBS
    ensures val(ret__.0.limbs@, limbs_num as nat) + ret__.1.0 as int * bp(limbs_num as nat) == val(self.limbs@, limbs_num as nat) * p2(shift as nat),
        forall|k: int| limbs_num <= k < LIMBS ==> ret__.0.limbs@[k] == (if shift == 0 { self.limbs@[k] } else { Limb(0) }),
        val(ret__.0.limbs@, limbs_num as nat) == (val(self.limbs@, limbs_num as nat) * p2(shift as nat)) % bp(limbs_num as nat),
        ret__.1.0 as int == (val(self.limbs@, limbs_num as nat) * p2(shift as nat)) / bp(limbs_num as nat),
        shift == 0 ==> ret__.0 == *self && ret__.1.0 == 0,
        shift > 0 ==> ret__.0.limbs@[0].0 == self.limbs@[0].0 << shift && ret__.1.0 == self.limbs@[limbs_num - 1].0 >> ((64 - shift) as u32)
//@-
{
//@+
    let ghost n = limbs_num as nat;
    let ghost xs = val(self.limbs@, n) * p2(shift as nat);
    proof { lemma_val_bound(self.limbs@, n); lemma_pow2_64(); }
//@-
        if shift == 0 {
//@+
    proof {
        assert(val(self.limbs@, n) * 1 == val(self.limbs@, n)) by (nonlinear_arith);
        assert(0 * bp(n) == 0) by (nonlinear_arith);
        lemma_fundamental_div_mod_converse(xs, bp(n), 0, val(self.limbs@, n));
    }
//@-
            return (*self, Limb::ZERO);
        }
        let mut limbs = [Limb::ZERO; LIMBS];
        let lshift = shift;
        let rshift = Limb::BITS - shift;
        let carry = self.limbs[limbs_num - 1].0 >> rshift;
        let mut i = limbs_num - 1;
        while i > 0
//@+
    invariant 0 <= i <= limbs_num - 1, 1 <= limbs_num <= LIMBS, 0 < shift < 64, lshift == shift, rshift == 64 - shift,
        forall|j: int| i < j < limbs_num ==> limbs@[j].0 == (self.limbs@[j].0 << shift) | (self.limbs@[j - 1].0 >> rshift),
        forall|j: int| 0 <= j < LIMBS && !(i < j < limbs_num) ==> limbs@[j] == Limb(0),
    decreases i,
//@-
{
            limbs[i] = Limb((self.limbs[i].0 << lshift) | (self.limbs[i - 1].0 >> rshift));
            i -= 1;
        }
        limbs[0] = Limb(self.limbs[0].0 << lshift);
//@+
    proof {
        lemma_shl_limbs(self.limbs@, limbs@, n, shift);
        lemma_val_bound(limbs@, n);
        lemma_fundamental_div_mod_converse(xs, bp(n), carry as int, val(limbs@, n));
    }
//@-
        (Uint::<LIMBS>::new(limbs), Limb(carry))
    }
}
//@@ end
//@@ fn src/uint/div.rs | impl<const LIMBS: usize> Uint<LIMBS> | shr_limb_vartime | body | props C02 C11
impl<const LIMBS: usize> Uint<LIMBS> {
pub const fn shr_limb_vartime(&self, shift: u32, limbs_num: usize) -> (ret__: Self)
//@+
    requires shift < 64, 1 <= limbs_num <= LIMBS
    ensures val(ret__.limbs@, limbs_num as nat) == val(self.limbs@, limbs_num as nat) / p2(shift as nat),
        forall|k: int| limbs_num <= k < LIMBS ==> ret__.limbs@[k] == (if shift == 0 { self.limbs@[k] } else { Limb(0) }),
        (forall|k: int| limbs_num <= k < LIMBS ==> self.limbs@[k].0 == 0) ==> ret__.v() == val(self.limbs@, limbs_num as nat) / p2(shift as nat)
//@-
{
//@+
    let ghost n = limbs_num as nat;
    proof { lemma_pow2_64(); }
//@-
        if shift == 0 {
//@+
    proof {
        assert(val(self.limbs@, n) / 1 == val(self.limbs@, n)) by (nonlinear_arith);
        if forall|k: int| limbs_num <= k < LIMBS ==> self.limbs@[k].0 == 0 { lemma_val_hi_zero(self.limbs@, n, LIMBS as nat); }
    }
//@-
            return *self;
        }
        let mut limbs = [Limb::ZERO; LIMBS];
        let lshift = Limb::BITS - shift;
        let rshift = shift;
        let mut i = 0;
        while i < limbs_num - 1
//@+
    invariant 0 <= i <= limbs_num - 1, 1 <= limbs_num <= LIMBS, 0 < shift < 64, rshift == shift, lshift == 64 - shift,
        forall|j: int| 0 <= j < i ==> limbs@[j].0 == (self.limbs@[j].0 >> shift) | (self.limbs@[j + 1].0 << lshift),
        forall|j: int| i <= j < LIMBS ==> limbs@[j] == Limb(0),
    decreases limbs_num - 1 - i,
//@-
{
            limbs[i] = Limb((self.limbs[i].0 >> rshift) | (self.limbs[i + 1].0 << lshift));
            i += 1;
        }
        limbs[limbs_num - 1] = Limb(self.limbs[limbs_num - 1].0 >> rshift);
//@+
    proof {
        let m = (n - 1) as nat;
        let pr = p2(shift as nat);
        let s0 = self.limbs@[0].0;
        let h0 = (s0 >> shift) as int;
        let hm = (self.limbs@[m as int].0 >> shift) as int;
        lemma_shr_limbs(self.limbs@, limbs@, m, shift);
        assert(val(limbs@, n) == val(limbs@, m) + hm * bp(m));
        assert(pr * (val(limbs@, m) + hm * bp(m)) == pr * val(limbs@, m) + pr * hm * bp(m)) by (nonlinear_arith);
        lemma_u64_shr_div(s0, shift);
        lemma_pow2_pos(shift as nat);
        lemma_fundamental_div_mod(s0 as int, pr);
        lemma_mod_bound(s0 as int, pr);
        let rem0 = s0 as int - pr * h0;
        assert(val(self.limbs@, n) == val(limbs@, n) * pr + rem0) by (nonlinear_arith)
            requires pr * val(limbs@, n) + rem0 == val(self.limbs@, n);
        lemma_fundamental_div_mod_converse(val(self.limbs@, n), pr, val(limbs@, n), rem0);
        lemma_val_hi_zero(limbs@, n, LIMBS as nat);
    }
//@-
        Uint::<LIMBS>::new(limbs)
    }
}
//@@ end
//@@ fn src/uint/div.rs | impl<const LIMBS: usize> Uint<LIMBS> | div_rem_vartime | body | props C02 C11 C15
impl<const LIMBS: usize> Uint<LIMBS> {
pub const fn div_rem_vartime<const RHS_LIMBS: usize>(
        &self,
        rhs: &NonZero<Uint<RHS_LIMBS>>,
    ) -> (ret__: (Self, Uint<RHS_LIMBS>))
//@+
    requires 1 <= LIMBS < 0x400_0000, 1 <= RHS_LIMBS < 0x400_0000, rhs.0.v() != 0
    ensures ret__.0.v() * rhs.0.v() + ret__.1.v() == self.v(), 0 <= ret__.1.v() < rhs.0.v(),
        ret__.0.v() == self.v() / rhs.0.v(), ret__.1.v() == self.v() % rhs.0.v()
//@-
{
        // Based on Section 4.3.1, of The Art of Computer Programming, Volume 2, by Donald E. Knuth.
        // Further explanation at https://janmr.com/blog/2014/04/basic-multiple-precision-long-division/
        let dbits = rhs.0.bits_vartime();
        let yc = dbits.div_ceil(Limb::BITS) as usize;
//@+
    let ghost rv = rhs.0.v();
    let ghost sv = self.v();
    proof {
        lemma_val_bound(rhs.0.limbs@, RHS_LIMBS as nat); lemma_val_bound(self.limbs@, LIMBS as nat);
        lemma_bp1();
        lemma_bp_pow2(yc as nat);
        lemma_bp_pow2(LIMBS as nat);
        if (dbits as nat) < 64 * (yc as nat) { lemma_pow2_strictly_increases(dbits as nat, 64 * (yc as nat)); }
        assert(rv < bp(yc as nat));
        lemma_val_small(rhs.0.limbs@, yc as nat, RHS_LIMBS as nat);
    }
//@-
        // Short circuit for small or extra large divisors
        if yc == 1 {
            // If the divisor is a single limb, use limb division
//@+
    proof { lemma_val_single(rhs.0.limbs@, RHS_LIMBS as nat); }
//@-
            let (q, r) = div_rem_limb_with_reciprocal(
                self,
                &Reciprocal::new(rhs.0.limbs[0].to_nz().expect("zero divisor")),
            );
//@+
    proof { lemma_fundamental_div_mod_converse(sv, rv, q.v(), r.0 as int); }
//@-
            return (q, Uint::from_word(r.0));
        }
        if yc > LIMBS {
            // Divisor is greater than dividend. Return zero and the dividend as the
            // quotient and remainder
//@+
    proof {
        // rv >= 2^(dbits-1) >= 2^(64*LIMBS) > sv
        assert(dbits as int - 1 >= 64 * LIMBS);
        if (dbits - 1) as nat > 64 * (LIMBS as nat) { lemma_pow2_strictly_increases(64 * (LIMBS as nat), (dbits - 1) as nat); }
        assert(0 * rv == 0);
        lemma_fundamental_div_mod_converse(sv, rv, 0, sv);
    }
//@-
            return (Uint::ZERO(), self.resize());
        }
        // The shift needed to set the MSB of the highest nonzero limb of the divisor.
        // 2^shift == d in the algorithm above.
        let shift = (Limb::BITS - (dbits % Limb::BITS)) % Limb::BITS;
//@+
    let ghost s2 = p2(shift as nat);
    let ghost yv = rv * s2;   // normalised divisor
    let ghost xv = sv * s2;   // shifted dividend
//@-
        let (x, mut x_hi) = self.shl_limb_vartime(shift, LIMBS);
        let mut x = x.to_limbs();
        let (y, _) = rhs.0.shl_limb_vartime(shift, yc);
        let mut y = y.to_limbs();
//@+
    proof {
        lemma_knuth_norm(rv, sv, dbits as nat, yc as nat, LIMBS as nat, shift as nat);
        lemma_small_mod(yv as nat, bp(yc as nat) as nat);
        assert(val(y@, yc as nat) == yv);
        assert(forall|j: int| yc <= j < RHS_LIMBS ==> y@[j].0 == 0);
        assert(val(x@, LIMBS as nat) + x_hi.0 as int * bp(LIMBS as nat) == xv);
        lemma_knuth_top_norm(y@, yc as nat);
    }
//@-
        let reciprocal = Reciprocal::new(y[yc - 1].to_nz().expect("zero divisor"));
        let mut i;
        let mut xi = LIMBS - 1;
//@+
    let ghost mut k: nat = LIMBS as nat;    // Rem = x_hi * B^k + val(x, k)
    let ghost mut qacc: int = 0;
    proof {
        assert(0 * yv == 0);
        assert(tv(x@, LIMBS as nat, LIMBS as nat) == 0);
        assert(0 * bp((yc - 1) as nat) == 0);
    }
//@-
        loop
//@+
    invariant_except_break
        k == xi + 1,
    invariant
        2 <= yc <= LIMBS, yc <= RHS_LIMBS, yc - 1 <= xi < LIMBS, 1 <= LIMBS < 0x400_0000,
        yc - 1 <= k <= LIMBS,
        val(y@, yc as nat) == yv, 2 * yv >= bp(yc as nat), yv < bp(yc as nat), yv > 0,
        forall|j: int| yc <= j < RHS_LIMBS ==> y@[j].0 == 0,
        reciprocal.wf(), reciprocal.shift == 0, reciprocal.divisor_normalized == y@[yc - 1].0,
        xv == qacc * yv + x_hi.0 as int * bp(k) + val(x@, k),
        x_hi.0 as int * bp(k) + val(x@, k) < yv * bp((k - yc + 1) as nat),
        tv(x@, k, LIMBS as nat) == qacc * bp((yc - 1) as nat),
    ensures
        k == xi, xi == yc - 1,
    decreases xi,
//@-
{
//@+
    let ghost p = (xi + 1 - yc) as nat;
    let ghost pp = bp(p);
    let ghost xb = x@;
    let ghost hb = x_hi.0 as int;
    let ghost wsc = kn_wsc(xb, hb, k, yc as nat);
    let ghost qt = kn_qt(xb, hb, k, yc as nat, yv);
    let ghost rp = wsc - qt * yv * pp;
    proof { lemma_knuth_top(xb, y@, hb, k, yc as nat, yv); }
//@-
            // Divide high dividend words by the high divisor word to estimate the quotient word
            let mut quo = div3by2(x_hi.0, x[xi].0, x[xi - 1].0, &reciprocal, y[yc - 2].0);
//@+
    let ghost q = quo as int;
    proof {
        lemma_knuth_quo(xb, y@, hb, k, yc as nat, yv, q);
        assert((qt + 1) * yv * pp == qt * yv * pp + yv * pp) by (nonlinear_arith);
        assert(0 <= rp < yv * pp);
    }
//@-
            // Subtract q*divisor from the dividend
            let borrow = {
                let mut carry = Limb::ZERO;
                let mut borrow = Limb::ZERO;
                let mut tmp;
                i = 0;
//@+
    proof { assert(q * val(y@, 0) * pp == 0) by (nonlinear_arith) requires val(y@, 0) == 0; assert(0 * bp((p + 0) as nat) == 0); }
//@-
                while i < yc
//@+
    invariant
        2 <= yc <= LIMBS, yc <= RHS_LIMBS, xi < LIMBS, xi + 1 >= yc, LIMBS < 0x400_0000,
        p == xi + 1 - yc, pp == bp(p), q == quo as int, 0 <= i <= yc,
        borrow.0 == 0 || borrow.0 == u64::MAX,
        forall|kq: int| 0 <= kq < LIMBS && !(p <= kq < p + i) ==> x@[kq] == xb[kq],
        tv(x@, p, (p + i) as nat) == tv(xb, p, (p + i) as nat) - q * val(y@, i as nat) * pp
            + carry.0 as int * bp((p + i) as nat) + bb(borrow) * bp((p + i) as nat),
    decreases yc - i,
//@-
{
//@+
    let ghost x_before = x@; let ghost carry_b = carry; let ghost borrow_b = borrow;
//@-
                    let (__t0, __t1) = Limb::ZERO.mac(y[i], Limb(quo), carry); tmp = __t0; carry = __t1;
                    let (__t2, __t3) = x[xi + i + 1 - yc].sbb(tmp, borrow); x[xi + i + 1 - yc] = __t2; borrow = __t3;
//@+
    proof {
        lemma_knuth_sub_step(xb, x_before, x@, y@, p, i as nat, q, carry_b.0 as int, carry.0 as int, bb(borrow_b), bb(borrow), tmp.0 as int);
    }
//@-
                    i += 1;
                }
//@+
    let ghost bprev = borrow;
//@-
                let (_, __t4) = x_hi.sbb(carry, borrow); borrow = __t4;
//@+
    proof {
        assert((bb(borrow) == 1) <==> (hb - carry.0 as int - bb(bprev) < 0));
        assert((p + yc) as nat == k);
        lemma_knuth_sub_final(xb, x@, hb, k, yc as nat, yv, q, carry.0 as int, bb(bprev), bb(borrow));
    }
//@-
                borrow
            };
//@+
    let ghost xs = x@;
    proof {
        assert((bb(borrow) == 1) <==> (q == qt + 1));
        assert(tv(xs, p, k) == (if bb(borrow) == 1 { bp(k) + rp - yv * pp } else { rp }));
    }
//@-
            // If the subtraction borrowed, then decrement q and add back the divisor
            // The probability of this being needed is very low, about 2/(Limb::MAX+1)
            quo = {
                let ct_borrow = ConstChoice::from_word_mask(borrow.0);
                let mut carry = Limb::ZERO;
                i = 0;
//@+
    let ghost m: int = if ct_borrow.t() { 1 } else { 0 };
    proof { assert(m * val(y@, 0) * pp == 0) by (nonlinear_arith) requires val(y@, 0) == 0; assert(0 * bp((p + 0) as nat) == 0); }
//@-
                while i < yc
//@+
    invariant
        2 <= yc <= LIMBS, yc <= RHS_LIMBS, xi < LIMBS, xi + 1 >= yc, LIMBS < 0x400_0000,
        p == xi + 1 - yc, pp == bp(p), 0 <= i <= yc, ct_borrow.wf(), m == (if ct_borrow.t() { 1int } else { 0int }),
        forall|kq: int| 0 <= kq < LIMBS && !(p <= kq < p + i) ==> x@[kq] == xs[kq],
        tv(x@, p, (p + i) as nat) + carry.0 as int * bp((p + i) as nat)
            == tv(xs, p, (p + i) as nat) + m * val(y@, i as nat) * pp,
    decreases yc - i,
//@-
{
//@+
    let ghost x_before = x@; let ghost carry_b = carry;
//@-
                    let (__t5, __t6) = x[xi + i + 1 - yc].adc(Limb::select(Limb::ZERO, y[i], ct_borrow), carry); x[xi + i + 1 - yc] = __t5; carry = __t6;
//@+
    proof {
        let sel = if ct_borrow.t() { y@[i as int].0 as int } else { 0int };
        lemma_knuth_add_step(xs, x_before, x@, y@, p, i as nat, m, sel, carry_b.0 as int, carry.0 as int);
    }
//@-
                    i += 1;
                }
//@+
    proof {
        assert((p + yc) as nat == k);
        lemma_knuth_add_final(xs, x@, k, yc as nat, yv, m, carry.0 as int, rp);
    }
//@-
                ct_borrow.select_word(quo, quo.wrapping_sub(1))
            };
//@+
    let ghost xa = x@;
    proof {
        assert(quo as int == qt);
        assert(forall|kq: int| 0 <= kq < LIMBS && !(p <= kq < k) ==> xa[kq] == xb[kq]);
        assert(tv(xa, p, k) == rp);
    }
//@-
            // Store the quotient within dividend and set x_hi to the current highest word
            x_hi = x[xi];
            x[xi] = Limb(quo);
//@+
    proof {
        lemma_knuth_iter_vt(xb, xa, x@, hb, k, yc as nat, LIMBS as nat, yv, qt, qacc, xv);
        qacc = qacc + qt * pp;
        k = xi as nat;
        assert((k - yc + 1) as nat == p);
    }
//@-
            if xi == yc - 1 {
                break;
            }
            xi -= 1;
        }
//@+
    // here: k == xi == yc - 1 ; Rem = x_hi * B^(yc-1) + val(x, yc-1) < yv ; xv == qacc * yv + Rem
    let ghost xq = x@;
    let ghost rem_n = x_hi.0 as int * bp((yc - 1) as nat) + val(xq, (yc - 1) as nat);
    proof { lemma_bp1(); assert(yv * bp(0) == yv) by (nonlinear_arith) requires bp(0) == 1; assert(rem_n < yv); }
//@-
        // Copy the remainder to divisor
        i = 0;
        while i < yc - 1
//@+
    invariant 2 <= yc <= LIMBS, yc <= RHS_LIMBS, 0 <= i <= yc - 1, x@ == xq,
        forall|j: int| 0 <= j < i ==> y@[j] == xq[j],
        forall|j: int| yc <= j < RHS_LIMBS ==> y@[j].0 == 0,
    decreases yc - 1 - i,
//@-
{
            y[i] = x[i];
            i += 1;
        }
        y[yc - 1] = x_hi;
//@+
    proof {
        lemma_val_ext(y@, xq, (yc - 1) as nat);
        assert(val(y@, yc as nat) == rem_n);
    }
//@-
        // Unshift the remainder from the earlier adjustment
        let y = Uint::new(y).shr_limb_vartime(shift, yc);
        // Shift the quotient to the low limbs within dividend
        i = 0;
        while i < LIMBS
//@+
    invariant 2 <= yc <= LIMBS, 0 <= i <= LIMBS,
        forall|j: int| 0 <= j < i && j <= LIMBS - yc ==> x@[j] == xq[j + yc - 1],
        forall|j: int| 0 <= j < i && j > LIMBS - yc ==> x@[j].0 == 0,
        forall|j: int| i <= j < LIMBS ==> x@[j] == xq[j],
    decreases LIMBS - i,
//@-
{
            if i <= (LIMBS - yc) {
                x[i] = x[i + yc - 1];
            } else {
                x[i] = Limb::ZERO;
            }
            i += 1;
        }
//@+
    proof {
        let m = (LIMBS - yc + 1) as nat; let d = (yc - 1) as nat;
        lemma_shift_down(xq, x@, d, LIMBS as nat, m);
        lemma_val_hi_zero(x@, m, LIMBS as nat);
        assert((m + d) as nat == LIMBS as nat);
        lemma_bp_succ(d);
        assert(val(x@, LIMBS as nat) == qacc) by (nonlinear_arith)
            requires val(x@, LIMBS as nat) * bp(d) == qacc * bp(d), bp(d) > 0;
        lemma_val_bound(xq, d);
        lemma_knuth_unshift(sv, rv, s2, qacc, rem_n, x_hi.0 as int * bp(d), val(xq, d));
        lemma_val_hi_zero(y.limbs@, yc as nat, RHS_LIMBS as nat);
        lemma_fundamental_div_mod_converse(sv, rv, qacc, rem_n / s2);
    }
//@-
        (Uint::new(x), y)
    }
}
//@@ end
//@@ fn src/uint/div.rs | impl<const LIMBS: usize> Uint<LIMBS> | rem_vartime | body | props C02 C11 C15
impl<const LIMBS: usize> Uint<LIMBS> {
pub const fn rem_vartime(&self, rhs: &NonZero<Self>) -> (ret__: Self)
//@+
    requires 1 <= LIMBS < 0x400_0000, rhs.0.v() != 0
    ensures ret__.v() == self.v() % rhs.0.v()
//@-
{
        self.div_rem_vartime(rhs).1
    }
}
//@@ end
//@@ fn src/uint/div.rs | impl<const LIMBS: usize> Uint<LIMBS> | wrapping_div_vartime | body | props C02 C11 C15
impl<const LIMBS: usize> Uint<LIMBS> {
pub const fn wrapping_div_vartime<const RHS: usize>(&self, rhs: &NonZero<Uint<RHS>>) -> (ret__: Self)
//@+
    requires 1 <= LIMBS < 0x400_0000, 1 <= RHS < 0x400_0000, rhs.0.v() != 0
    ensures ret__.v() == self.v() / rhs.0.v()
//@-
{
        self.div_rem_vartime(rhs).0
    }
}
//@@ end
//@@ fn src/uint/div.rs | impl<const LIMBS: usize> Uint<LIMBS> | wrapping_rem_vartime | body | props C02 C11 C15
impl<const LIMBS: usize> Uint<LIMBS> {
pub const fn wrapping_rem_vartime(&self, rhs: &Self) -> (ret__: Self)
//@+
    requires 1 <= LIMBS < 0x400_0000, rhs.v() != 0
    ensures ret__.v() == self.v() % rhs.v()
//@-
{
        let nz_rhs = rhs.to_nz().expect("non-zero divisor");
        self.rem_vartime(&nz_rhs)
    }
}
//@@ end
//@@ fn src/uint/div.rs | impl<const LIMBS: usize> Uint<LIMBS> | rem_wide_vartime | body | props C02 C11
impl<const LIMBS: usize> Uint<LIMBS> {
pub const fn rem_wide_vartime(lower_upper: (Self, Self), rhs: &NonZero<Self>) -> (ret__: Self)
//@+
    requires 1 <= LIMBS < 0x400_0000, rhs.0.v() != 0
    ensures ret__.v() == (lower_upper.0.v() + lower_upper.1.v() * bp(LIMBS as nat)) % rhs.0.v()
//@-
{
        let dbits = rhs.0.bits_vartime();
        let yc = dbits.div_ceil(Limb::BITS) as usize;
//@+
    let ghost rv = rhs.0.v();
    let ghost lov = lower_upper.0.v();
    let ghost hiv = lower_upper.1.v();
    let ghost nl = LIMBS as nat;
    let ghost sv = lov + hiv * bp(nl);
    proof {
        lemma_val_bound(rhs.0.limbs@, nl); lemma_val_bound(lower_upper.0.limbs@, nl); lemma_val_bound(lower_upper.1.limbs@, nl);
        lemma_bp1();
        lemma_bp_pow2(yc as nat);
        lemma_bp_pow2(nl);
        if (dbits as nat) < 64 * (yc as nat) { lemma_pow2_strictly_increases(dbits as nat, 64 * (yc as nat)); }
        assert(rv < bp(yc as nat));
        lemma_val_small(rhs.0.limbs@, yc as nat, nl);
        // 0 <= sv < B^(2 LIMBS)
        lemma_bp_add(nl, nl);
        assert(hiv * bp(nl) <= (bp(nl) - 1) * bp(nl)) by (nonlinear_arith) requires hiv <= bp(nl) - 1, bp(nl) > 0;
        assert((bp(nl) - 1) * bp(nl) == bp(nl) * bp(nl) - bp(nl)) by (nonlinear_arith);
        assert(hiv * bp(nl) >= 0) by (nonlinear_arith) requires hiv >= 0, bp(nl) > 0;
        assert(0 <= sv < bp(nl + nl));
    }
//@-
        // If the divisor is a single limb, use limb division
        if yc == 1 {
//@+
    proof { lemma_val_single(rhs.0.limbs@, nl); }
//@-
            let r = rem_limb_with_reciprocal_wide(
                (&lower_upper.0, &lower_upper.1),
                &Reciprocal::new(rhs.0.limbs[0].to_nz().expect("zero divisor")),
            );
            return Uint::from_word(r.0);
        }
        // The shift needed to set the MSB of the highest nonzero limb of the divisor.
        // 2^shift == d in the algorithm above.
        let shift = (Limb::BITS - (dbits % Limb::BITS)) % Limb::BITS;
//@+
    let ghost s2 = p2(shift as nat);
    let ghost yv = rv * s2;   // normalised divisor
    let ghost xv = sv * s2;   // shifted dividend
//@-
        let (y, _) = rhs.0.shl_limb_vartime(shift, yc);
        let y = y.to_limbs();
        let (x_lo, x_lo_carry) = lower_upper.0.shl_limb_vartime(shift, LIMBS);
        let (x, mut x_hi) = lower_upper.1.shl_limb_vartime(shift, LIMBS);
        let mut x = x.to_limbs();
//@+
    let ghost x0 = x@;
    let ghost cl = x_lo_carry.0 as int;
    proof {
        lemma_knuth_norm(rv, sv, dbits as nat, yc as nat, nl + nl, shift as nat);
        lemma_small_mod(yv as nat, bp(yc as nat) as nat);
        assert(val(y@, yc as nat) == yv);
        lemma_knuth_top_norm(y@, yc as nat);
        if shift > 0 { lemma_or_is_add(lower_upper.1.limbs@[0].0, lower_upper.0.limbs@[LIMBS - 1].0, shift); }
    }
//@-
        if shift > 0 {
            x[0] = Limb(x[0].0 | x_lo_carry.0);
        }
//@+
    proof {
        // x == x0 + carry of the low half
        assert(x@[0].0 as int == x0[0].0 as int + cl);
        lemma_tv_ext(x0, x@, 1, nl);
        assert(val(x@, 1) == val(x@, 0) + x@[0].0 as int * bp(0));
        assert(val(x0, 1) == val(x0, 0) + x0[0].0 as int * bp(0));
        assert(val(x@, nl) == val(x0, nl) + cl);
    }
//@-
        let reciprocal = Reciprocal::new(y[yc - 1].to_nz().expect("zero divisor"));
        let mut xi = LIMBS - 1;
        let mut extra_limbs = LIMBS;
        let mut i;
//@+
    let ghost mut k: nat = nl;      // Rem = (x_hi * B^k + val(x, k)) * B^extra + val(x_lo, extra)
    let ghost mut qacc: int = 0;
    proof {
        let a0 = x_hi.0 as int * bp(nl) + val(x@, nl);
        let l0 = val(x_lo.limbs@, nl);
        let bn = bp(nl);
        assert(0 * yv == 0);
        // xv = lov*s2 + hiv*s2*B^n
        assert(xv == lov * s2 + (hiv * s2) * bn) by (nonlinear_arith) requires xv == (lov + hiv * bn) * s2;
        assert((x_hi.0 as int * bn + val(x0, nl) + cl) * bn == (x_hi.0 as int * bn + val(x0, nl)) * bn + cl * bn) by (nonlinear_arith);
        assert(xv == a0 * bn + l0);
        // bound
        lemma_val_bound(x_lo.limbs@, nl);
        lemma_bp_add((nl - yc + 1) as nat, nl);
        assert(((nl - yc + 1) + nl) as nat == (nl + nl - yc + 1) as nat);
        let c = yv * bp((nl - yc + 1) as nat);
        assert(yv * bp((nl + nl - yc + 1) as nat) == c * bn) by (nonlinear_arith) requires bp((nl + nl - yc + 1) as nat) == bp((nl - yc + 1) as nat) * bn, c == yv * bp((nl - yc + 1) as nat);
        assert(a0 < c) by (nonlinear_arith) requires a0 * bn <= xv, xv < c * bn, bn > 0;
    }
//@-
        // Note that in the algorithm we only ever need to access the highest `yc` limbs
        // of the dividend, and since `yc < LIMBS`, we only need to access
        // the high half of the dividend.
        //
        // So we proceed similarly to `div_rem_vartime()` applied to the high half of the dividend,
        // fetching the limbs from the lower part as we go.
        loop
//@+
    invariant_except_break
        k == xi + 1,
    invariant
        2 <= yc <= LIMBS, yc - 1 <= xi < LIMBS, 1 <= LIMBS < 0x400_0000, nl == LIMBS,
        yc - 1 <= k <= LIMBS, 0 <= extra_limbs <= LIMBS, extra_limbs > 0 ==> xi == LIMBS - 1,
        val(y@, yc as nat) == yv, 2 * yv >= bp(yc as nat), yv < bp(yc as nat), yv > 0,
        reciprocal.wf(), reciprocal.shift == 0, reciprocal.divisor_normalized == y@[yc - 1].0,
        xv == qacc * yv + (x_hi.0 as int * bp(k) + val(x@, k)) * bp(extra_limbs as nat) + val(x_lo.limbs@, extra_limbs as nat),
        x_hi.0 as int * bp(k) + val(x@, k) < yv * bp((k - yc + 1) as nat),
        forall|j: int| xi < j < LIMBS ==> x@[j].0 == 0,
    ensures
        extra_limbs == 0, k == xi, xi == yc - 1, x_hi == x@[xi as int],
    decreases extra_limbs + xi,
//@-
{
//@+
    let ghost p = (xi + 1 - yc) as nat;
    let ghost pp = bp(p);
    let ghost xb = x@;
    let ghost hb = x_hi.0 as int;
    let ghost wsc = kn_wsc(xb, hb, k, yc as nat);
    let ghost qt = kn_qt(xb, hb, k, yc as nat, yv);
    let ghost rp = wsc - qt * yv * pp;
    let ghost be = bp(extra_limbs as nat);
    proof { lemma_knuth_top(xb, y@, hb, k, yc as nat, yv); }
//@-
            // Divide high dividend words by the high divisor word to estimate the quotient word
            let quo = div3by2(x_hi.0, x[xi].0, x[xi - 1].0, &reciprocal, y[yc - 2].0);
//@+
    let ghost q = quo as int;
    proof {
        lemma_knuth_quo(xb, y@, hb, k, yc as nat, yv, q);
        assert((qt + 1) * yv * pp == qt * yv * pp + yv * pp) by (nonlinear_arith);
        assert(0 <= rp < yv * pp);
    }
//@-
            // Subtract q*divisor from the dividend
            let borrow = {
                let mut carry = Limb::ZERO;
                let mut borrow = Limb::ZERO;
                let mut tmp;
                i = 0;
//@+
    proof { assert(q * val(y@, 0) * pp == 0) by (nonlinear_arith) requires val(y@, 0) == 0; assert(0 * bp((p + 0) as nat) == 0); }
//@-
                while i < yc
//@+
    invariant
        2 <= yc <= LIMBS, xi < LIMBS, xi + 1 >= yc, LIMBS < 0x400_0000,
        p == xi + 1 - yc, pp == bp(p), q == quo as int, 0 <= i <= yc,
        borrow.0 == 0 || borrow.0 == u64::MAX,
        forall|kq: int| 0 <= kq < LIMBS && !(p <= kq < p + i) ==> x@[kq] == xb[kq],
        tv(x@, p, (p + i) as nat) == tv(xb, p, (p + i) as nat) - q * val(y@, i as nat) * pp
            + carry.0 as int * bp((p + i) as nat) + bb(borrow) * bp((p + i) as nat),
    decreases yc - i,
//@-
{
//@+
    let ghost x_before = x@; let ghost carry_b = carry; let ghost borrow_b = borrow;
//@-
                    let (__t0, __t1) = Limb::ZERO.mac(y[i], Limb(quo), carry); tmp = __t0; carry = __t1;
                    let (__t2, __t3) = x[xi + i + 1 - yc].sbb(tmp, borrow); x[xi + i + 1 - yc] = __t2; borrow = __t3;
//@+
    proof {
        lemma_knuth_sub_step(xb, x_before, x@, y@, p, i as nat, q, carry_b.0 as int, carry.0 as int, bb(borrow_b), bb(borrow), tmp.0 as int);
    }
//@-
                    i += 1;
                }
//@+
    let ghost bprev = borrow;
//@-
                let (_, __t4) = x_hi.sbb(carry, borrow); borrow = __t4;
//@+
    proof {
        assert((bb(borrow) == 1) <==> (hb - carry.0 as int - bb(bprev) < 0));
        assert((p + yc) as nat == k);
        lemma_knuth_sub_final(xb, x@, hb, k, yc as nat, yv, q, carry.0 as int, bb(bprev), bb(borrow));
    }
//@-
                borrow
            };
//@+
    let ghost xs = x@;
    proof {
        assert(tv(xs, p, k) == (if bb(borrow) == 1 { bp(k) + rp - yv * pp } else { rp }));
    }
//@-
            // If the subtraction borrowed, then add back the divisor
            // The probability of this being needed is very low, about 2/(Limb::MAX+1)
            {
                let ct_borrow = ConstChoice::from_word_mask(borrow.0);
                let mut carry = Limb::ZERO;
                i = 0;
//@+
    let ghost m: int = if ct_borrow.t() { 1 } else { 0 };
    proof { assert(m * val(y@, 0) * pp == 0) by (nonlinear_arith) requires val(y@, 0) == 0; assert(0 * bp((p + 0) as nat) == 0); }
//@-
                while i < yc
//@+
    invariant
        2 <= yc <= LIMBS, xi < LIMBS, xi + 1 >= yc, LIMBS < 0x400_0000,
        p == xi + 1 - yc, pp == bp(p), 0 <= i <= yc, ct_borrow.wf(), m == (if ct_borrow.t() { 1int } else { 0int }),
        forall|kq: int| 0 <= kq < LIMBS && !(p <= kq < p + i) ==> x@[kq] == xs[kq],
        tv(x@, p, (p + i) as nat) + carry.0 as int * bp((p + i) as nat)
            == tv(xs, p, (p + i) as nat) + m * val(y@, i as nat) * pp,
    decreases yc - i,
//@-
{
//@+
    let ghost x_before = x@; let ghost carry_b = carry;
//@-
                    let (__t5, __t6) = x[xi + i + 1 - yc].adc(Limb::select(Limb::ZERO, y[i], ct_borrow), carry); x[xi + i + 1 - yc] = __t5; carry = __t6;
//@+
    proof {
        let sel = if ct_borrow.t() { y@[i as int].0 as int } else { 0int };
        lemma_knuth_add_step(xs, x_before, x@, y@, p, i as nat, m, sel, carry_b.0 as int, carry.0 as int);
    }
//@-
                    i += 1;
                }
//@+
    proof {
        assert((p + yc) as nat == k);
        lemma_knuth_add_final(xs, x@, k, yc as nat, yv, m, carry.0 as int, rp);
    }
//@-
            }
//@+
    let ghost xa = x@;
    proof {
        assert(forall|kq: int| 0 <= kq < LIMBS && !(p <= kq < k) ==> xa[kq] == xb[kq]);
        assert(tv(xa, p, k) == rp);
        lemma_wide_iter(xb, xa, hb, k, yc as nat, nl, yv, qt, qacc, xv, be, val(x_lo.limbs@, extra_limbs as nat));
        qacc = qacc + qt * pp * be;
        assert(val(xa, k) == val(xa, xi as nat) + xa[xi as int].0 as int * bp(xi as nat));
        assert(forall|j: int| xi < j < LIMBS ==> xa[j].0 == 0);
    }
//@-
            // Set x_hi to the current highest word
            x_hi = x[xi];
            // If we have lower limbs remaining, shift the divisor words one word left
            if extra_limbs > 0 {
                extra_limbs -= 1;
                i = LIMBS - 1;
                while i > 0
//@+
    invariant 0 <= i <= LIMBS - 1,
        forall|j: int| i < j < LIMBS ==> x@[j] == xa[j - 1],
        forall|j: int| 0 <= j <= i ==> x@[j] == xa[j],
    decreases i,
//@-
{
                    x[i] = x[i - 1];
                    i -= 1;
                }
                x[0] = x_lo.limbs[extra_limbs];
//@+
    proof {
        lemma_wide_fetch(xa, x@, x_lo.limbs@, nl, (extra_limbs + 1) as nat, yv * pp);
        lemma_bp_succ(p);
        assert((k - yc + 1) as nat == p + 1);
        assert(yv * bp((k - yc + 1) as nat) == (yv * pp) * B()) by (nonlinear_arith) requires bp((k - yc + 1) as nat) == B() * pp;
    }
//@-
            } else {
                if xi == yc - 1 {
//@+
    proof {
        k = xi as nat;
        assert((k - yc + 1) as nat == p);
        lemma_bp1();
        assert(val(x_lo.limbs@, 0) == 0);
    }
//@-
                    break;
                }
                x[xi] = Limb::ZERO;
                xi -= 1;
//@+
    proof {
        k = (xi + 1) as nat;
        lemma_val_ext(xa, x@, k);
        assert((k - yc + 1) as nat == p);
    }
//@-
            }
        }
//@+
    proof {
        // here: extra_limbs == 0, xi == yc - 1 == k, x_hi == x[yc - 1], xv == qacc * yv + val(x, yc), val(x, yc) < yv
        lemma_bp1();
        let a = val(x@, yc as nat);
        assert(a == val(x@, k) + x_hi.0 as int * bp(k));
        assert(val(x_lo.limbs@, 0) == 0);
        assert(a * bp(0) == a) by (nonlinear_arith) requires bp(0) == 1;
        assert(yv * bp(0) == yv) by (nonlinear_arith) requires bp(0) == 1;
        assert(xv == qacc * yv + a);
        lemma_val_bound(x@, yc as nat);
        lemma_knuth_unshift(sv, rv, s2, qacc, a, a, 0);
        lemma_fundamental_div_mod_converse(sv, rv, qacc, a / s2);
    }
//@-
        // Unshift the remainder from the earlier adjustment
        Uint::new(x).shr_limb_vartime(shift, yc)
    }
}
//@@ end
//@@ fn src/uint/div.rs | impl<const LIMBS: usize> Uint<LIMBS> | rem2k_vartime | body | props C02 C11
impl<const LIMBS: usize> Uint<LIMBS> {
pub const fn rem2k_vartime(&self, k: u32) -> (ret__: Self)
//@+
    requires 1 <= LIMBS < 0x400_0000
    ensures ret__.v() == self.v() % p2(k as nat)
//@-
{
        let highest = (LIMBS - 1) as u32;
        let index = k / Limb::BITS;
        let le = ConstChoice::from_u32_le(index, highest);
        let limb_num = le.select_u32(highest, index) as usize;
        let base = k % Limb::BITS;
//@+
    assert((1u64 << base) >= 1) by (bit_vector) requires base < 64;
//@-
        let mask = (1 << base) - 1;
        let mut out = *self;
        let outmask = Limb(out.limbs[limb_num].0 & mask);
        out.limbs[limb_num] = Limb::select(out.limbs[limb_num], outmask, le);
//@+
    let ghost out0 = out.limbs@;
    let ghost a = self.limbs@[limb_num as int].0;
    proof {
        let pb = p2(base as nat);
        let hi = a >> base;
        assert(a & mask == a - (hi << base)) by (bit_vector) requires mask == (1u64 << base) - 1, hi == a >> base, base < 64;
        assert(hi << base == hi << (base as u64)) by (bit_vector) requires base < 64;
        lemma_u64_shr_div(a, base);
        lemma_pow2_pos(base as nat);
        lemma_fundamental_div_mod(a as int, pb);
        lemma_mod_bound(a as int, pb);
        assert(pb * (hi as int) == hi as int * pb) by (nonlinear_arith);
        assert(hi as int * pb <= a as int) by (nonlinear_arith) requires a as int == pb * (hi as int) + a as int % pb, 0 <= a as int % pb;
        vstd::bits::lemma_u64_shl_is_mul(hi, base as u64);
        assert((a & mask) as int == a as int % pb);
        assert(forall|j: int| 0 <= j < LIMBS && j != limb_num ==> out0[j] == self.limbs@[j]);
        assert(out0[limb_num as int].0 as int == (if le.t() { a as int % p2(base as nat) } else { a as int }));
    }
//@-
        // TODO: this is not constant-time.
        let mut i = limb_num + 1;
        while i < LIMBS
//@+
    invariant limb_num < i <= LIMBS,
        forall|j: int| 0 <= j < limb_num ==> out.limbs@[j] == self.limbs@[j],
        out.limbs@[limb_num as int] == out0[limb_num as int],
        forall|j: int| limb_num < j < i ==> out.limbs@[j].0 == 0,
        forall|j: int| i <= j < LIMBS ==> out.limbs@[j] == self.limbs@[j],
    decreases LIMBS - i,
//@-
{
            out.limbs[i] = Limb::ZERO;
            i += 1;
        }
//@+
    proof {
        let idx = limb_num as nat; let n = LIMBS as nat;
        if le.t() {
            assert(k as nat == 64 * idx + base as nat);
            lemma_val_mod_pow2(self.limbs@, n, idx, base as nat);
            lemma_val_hi_zero(out.limbs@, idx + 1, n);
            lemma_val_ext(out.limbs@, self.limbs@, idx);
            assert(val(out.limbs@, idx + 1) == val(out.limbs@, idx) + out.limbs@[idx as int].0 as int * bp(idx));
        } else {
            assert(out.limbs@ =~= self.limbs@);
            lemma_val_bound(self.limbs@, n);
            lemma_bp_pow2(n);
            assert(k as nat >= 64 * n);
            if k as nat > 64 * n { lemma_pow2_strictly_increases(64 * n, k as nat); }
            lemma_small_mod(self.v() as nat, p2(k as nat) as nat);
        }
    }
//@-
        out
    }
}
//@@ end

} // verus!
