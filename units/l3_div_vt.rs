// L3: variable-time full division (src/uint/div.rs: div_rem_vartime, rem_vartime, rem_wide_vartime, rem2k_vartime, ...) -- C02
use vstd::prelude::*;
use vstd::arithmetic::power::*;
use vstd::arithmetic::power2::*;
use vstd::arithmetic::div_mod::*;
use crate::speclib::*;
use crate::speclib_bits::*;
use crate::l0_prim::*;
use crate::l1_choice::*;
use crate::l1_limb::*;
use crate::l2_core::*;
use crate::l2_shift::*;
use crate::l3_divlimb::*;
verus! {

// core integer method without a vstd specification (assumed; belongs next to the other core specs of speclib.rs)
pub assume_specification [u32::div_ceil] (a: u32, b: u32) -> (r: u32)
    requires b != 0
    ensures r as int == (a as int + b as int - 1) / (b as int);

// ---------------------------------------------------------------- limb-shift lemmas (shl_limb_vartime / shr_limb_vartime)

/// `(a << l) | (b >> (64-l))` has disjoint bit ranges, so the OR is a sum
proof fn lemma_or_is_add(a: u64, b: u64, l: u32)
    requires 0 < l < 64
    ensures ((a << l) | (b >> ((64 - l) as u32))) as int == (a << l) as int + (b >> ((64 - l) as u32)) as int
{
    let r = (64 - l) as u32;
    let x = a << l; let y = b >> r;
    assert(x & y == 0) by (bit_vector) requires 0 < l < 64, r == (64 - l) as u32, x == a << l, y == b >> r;
    assert((x | y) as int == x as int + y as int) by (bit_vector) requires x & y == 0;
}

/// t = s shifted left by l bits inside n limbs; the bits shifted out of the top limb are the carry
proof fn lemma_shl_limbs(s: Seq<Limb>, t: Seq<Limb>, n: nat, l: u32)
    requires 0 < l < 64, n >= 1, t[0].0 == s[0].0 << l,
        forall|j: int| 1 <= j < n ==> t[j].0 == (s[j].0 << l) | (s[j - 1].0 >> ((64 - l) as u32)),
    ensures val(t, n) + (s[n - 1].0 >> ((64 - l) as u32)) as int * bp(n) == val(s, n) * p2(l as nat),
    decreases n
{
    let r = (64 - l) as u32;
    let ps = p2(l as nat);
    lemma_bp1();
    if n == 1 {
        lemma_limb_shl_split(s[0].0, l);
        assert(val(t, 1) == val(t, 0) + t[0].0 as int * bp(0));
        assert(val(s, 1) == val(s, 0) + s[0].0 as int * bp(0));
        assert(val(t, 0) == 0 && val(s, 0) == 0);
    } else {
        let m = (n - 1) as nat;
        lemma_shl_limbs(s, t, m, l);
        lemma_limb_shl_split(s[m as int].0, l);
        lemma_or_is_add(s[m as int].0, s[m - 1].0, l);
        lemma_bp_succ(m);
        let lo = (s[m as int].0 << l) as int; let hi = (s[m as int].0 >> r) as int; let hp = (s[m - 1].0 >> r) as int;
        let pm = bp(m); let sm = s[m as int].0 as int; let tm = t[m as int].0 as int;
        assert(tm == lo + hp);
        assert(val(t, n) == val(t, m) + tm * pm);
        assert(val(s, n) == val(s, m) + sm * pm);
        assert(tm * pm + hi * (B() * pm) == hp * pm + (sm * ps) * pm) by (nonlinear_arith)
            requires tm == lo + hp, lo + hi * B() == sm * ps;
        assert((val(s, m) + sm * pm) * ps == val(s, m) * ps + (sm * ps) * pm) by (nonlinear_arith);
    }
}

/// t[j] = (s[j] >> r) | (s[j+1] << (64-r)) for j < m: prefix relation
proof fn lemma_shr_limbs(s: Seq<Limb>, t: Seq<Limb>, m: nat, r: u32)
    requires 0 < r < 64,
        forall|j: int| 0 <= j < m ==> t[j].0 == (s[j].0 >> r) | (s[j + 1].0 << ((64 - r) as u32)),
    ensures p2(r as nat) * val(t, m) + p2(r as nat) * (s[m as int].0 >> r) as int * bp(m)
            + (s[0].0 as int - p2(r as nat) * (s[0].0 >> r) as int) == val(s, m + 1),
    decreases m
{
    let l = (64 - r) as u32;
    let pr = p2(r as nat);
    lemma_bp1();
    if m == 0 {
        assert(val(s, 1) == val(s, 0) + s[0].0 as int * bp(0));
        assert(val(s, 0) == 0 && val(t, 0) == 0);
        let h0 = (s[0].0 >> r) as int;
        assert(pr * 0 + pr * h0 * 1 + (s[0].0 as int - pr * h0) == s[0].0 as int) by (nonlinear_arith);
    } else {
        let k = (m - 1) as nat;
        lemma_shr_limbs(s, t, k, r);
        let a = s[k as int].0; let b = s[m as int].0;
        lemma_or_is_add(b, a, l);
        assert((b << l) | (a >> r) == (a >> r) | (b << l)) by (bit_vector);
        lemma_limb_shl_split(b, l);
        lemma_pow2_adds(r as nat, l as nat);
        lemma_pow2_64();
        lemma_bp_succ(k);
        let pl = p2(l as nat);
        let ha = (a >> r) as int; let hb = (b >> r) as int; let lb = (b << l) as int;
        let tk = t[k as int].0 as int; let pk = bp(k); let bi = b as int;
        assert(tk == ha + lb);
        assert(pr * pl == B());
        assert(lb + hb * B() == bi * pl);
        // pr * tk == pr*ha + B*(b - pr*hb)
        assert(pr * tk == pr * ha + B() * (bi - pr * hb)) by (nonlinear_arith)
            requires tk == ha + lb, lb + hb * B() == bi * pl, pr * pl == B();
        assert(val(t, m) == val(t, k) + tk * pk);
        assert(val(s, m + 1) == val(s, m) + bi * bp(m));
        assert(pr * (val(t, k) + tk * pk) + pr * hb * (B() * pk) == pr * val(t, k) + pr * ha * pk + bi * (B() * pk)) by (nonlinear_arith)
            requires pr * tk == pr * ha + B() * (bi - pr * hb);
    }
}

//@@ subst \b(Self|Uint)::(ZERO|ONE|MAX|BITS|LOG2_BITS)\b(?!\() => \1::\2()
//@@ subst \bUint::<(\w+)>::(ZERO|ONE|MAX|BITS)\b(?!\() => Uint::<\1>::\2()
//@@ fn src/uint/div.rs | impl<const LIMBS: usize> Uint<LIMBS> | shl_limb_vartime | body | props C02 C11
impl<const LIMBS: usize> Uint<LIMBS> {
pub const fn shl_limb_vartime(&self, shift: u32, limbs_num: usize) -> (ret__: (Self, Limb))
//@+
    requires shift < 64, 1 <= limbs_num <= LIMBS
    ensures val(ret__.0.limbs@, limbs_num as nat) + ret__.1.0 as int * bp(limbs_num as nat) == val(self.limbs@, limbs_num as nat) * p2(shift as nat),
        forall|k: int| limbs_num <= k < LIMBS ==> ret__.0.limbs@[k] == (if shift == 0 { self.limbs@[k] } else { Limb(0) }),
        val(ret__.0.limbs@, limbs_num as nat) == (val(self.limbs@, limbs_num as nat) * p2(shift as nat)) % bp(limbs_num as nat),
        ret__.1.0 as int == (val(self.limbs@, limbs_num as nat) * p2(shift as nat)) / bp(limbs_num as nat),
        shift == 0 ==> ret__.0 == *self && ret__.1.0 == 0,
        shift > 0 ==> ret__.0.limbs@[0].0 == self.limbs@[0].0 << shift && ret__.1.0 == self.limbs@[limbs_num - 1].0 >> ((64 - shift) as u32)
//@-
{
//@+
    let ghost n = limbs_num as nat;
    let ghost xs = val(self.limbs@, n) * p2(shift as nat);
    proof { lemma_val_bound(self.limbs@, n); lemma_pow2_64(); }
//@-
        if shift == 0 {
//@+
    proof {
        assert(val(self.limbs@, n) * 1 == val(self.limbs@, n)) by (nonlinear_arith);
        assert(0 * bp(n) == 0) by (nonlinear_arith);
        lemma_fundamental_div_mod_converse(xs, bp(n), 0, val(self.limbs@, n));
    }
//@-
            return (*self, Limb::ZERO);
        }
        let mut limbs = [Limb::ZERO; LIMBS];
        let lshift = shift;
        let rshift = Limb::BITS - shift;
        let carry = self.limbs[limbs_num - 1].0 >> rshift;
        let mut i = limbs_num - 1;
        while i > 0
//@+
    invariant 0 <= i <= limbs_num - 1, 1 <= limbs_num <= LIMBS, 0 < shift < 64, lshift == shift, rshift == 64 - shift,
        forall|j: int| i < j < limbs_num ==> limbs@[j].0 == (self.limbs@[j].0 << shift) | (self.limbs@[j - 1].0 >> rshift),
        forall|j: int| 0 <= j < LIMBS && !(i < j < limbs_num) ==> limbs@[j] == Limb(0),
    decreases i,
//@-
{
            limbs[i] = Limb((self.limbs[i].0 << lshift) | (self.limbs[i - 1].0 >> rshift));
            i -= 1;
        }
        limbs[0] = Limb(self.limbs[0].0 << lshift);
//@+
    proof {
        lemma_shl_limbs(self.limbs@, limbs@, n, shift);
        lemma_val_bound(limbs@, n);
        lemma_fundamental_div_mod_converse(xs, bp(n), carry as int, val(limbs@, n));
    }
//@-
        (Uint::<LIMBS>::new(limbs), Limb(carry))
    }
}
//@@ end
//@@ fn src/uint/div.rs | impl<const LIMBS: usize> Uint<LIMBS> | shr_limb_vartime | body | props C02 C11
impl<const LIMBS: usize> Uint<LIMBS> {
pub const fn shr_limb_vartime(&self, shift: u32, limbs_num: usize) -> (ret__: Self)
//@+
    requires shift < 64, 1 <= limbs_num <= LIMBS
    ensures val(ret__.limbs@, limbs_num as nat) == val(self.limbs@, limbs_num as nat) / p2(shift as nat),
        forall|k: int| limbs_num <= k < LIMBS ==> ret__.limbs@[k] == (if shift == 0 { self.limbs@[k] } else { Limb(0) }),
        (forall|k: int| limbs_num <= k < LIMBS ==> self.limbs@[k].0 == 0) ==> ret__.v() == val(self.limbs@, limbs_num as nat) / p2(shift as nat)
//@-
{
//@+
    let ghost n = limbs_num as nat;
    proof { lemma_pow2_64(); }
//@-
        if shift == 0 {
//@+
    proof {
        assert(val(self.limbs@, n) / 1 == val(self.limbs@, n)) by (nonlinear_arith);
        if forall|k: int| limbs_num <= k < LIMBS ==> self.limbs@[k].0 == 0 { lemma_val_hi_zero(self.limbs@, n, LIMBS as nat); }
    }
//@-
            return *self;
        }
        let mut limbs = [Limb::ZERO; LIMBS];
        let lshift = Limb::BITS - shift;
        let rshift = shift;
        let mut i = 0;
        while i < limbs_num - 1
//@+
    invariant 0 <= i <= limbs_num - 1, 1 <= limbs_num <= LIMBS, 0 < shift < 64, rshift == shift, lshift == 64 - shift,
        forall|j: int| 0 <= j < i ==> limbs@[j].0 == (self.limbs@[j].0 >> shift) | (self.limbs@[j + 1].0 << lshift),
        forall|j: int| i <= j < LIMBS ==> limbs@[j] == Limb(0),
    decreases limbs_num - 1 - i,
//@-
{
            limbs[i] = Limb((self.limbs[i].0 >> rshift) | (self.limbs[i + 1].0 << lshift));
            i += 1;
        }
        limbs[limbs_num - 1] = Limb(self.limbs[limbs_num - 1].0 >> rshift);
//@+
    proof {
        let m = (n - 1) as nat;
        let pr = p2(shift as nat);
        let s0 = self.limbs@[0].0;
        let h0 = (s0 >> shift) as int;
        let hm = (self.limbs@[m as int].0 >> shift) as int;
        lemma_shr_limbs(self.limbs@, limbs@, m, shift);
        assert(val(limbs@, n) == val(limbs@, m) + hm * bp(m));
        assert(pr * (val(limbs@, m) + hm * bp(m)) == pr * val(limbs@, m) + pr * hm * bp(m)) by (nonlinear_arith);
        lemma_u64_shr_div(s0, shift);
        lemma_pow2_pos(shift as nat);
        lemma_fundamental_div_mod(s0 as int, pr);
        lemma_mod_bound(s0 as int, pr);
        let rem0 = s0 as int - pr * h0;
        assert(val(self.limbs@, n) == val(limbs@, n) * pr + rem0) by (nonlinear_arith)
            requires pr * val(limbs@, n) + rem0 == val(self.limbs@, n);
        lemma_fundamental_div_mod_converse(val(self.limbs@, n), pr, val(limbs@, n), rem0);
        lemma_val_hi_zero(limbs@, n, LIMBS as nat);
    }
//@-
        Uint::<LIMBS>::new(limbs)
    }
}
//@@ end
//@@ fn src/uint/div.rs | impl<const LIMBS: usize> Uint<LIMBS> | div_rem_vartime | stub | props C02 C11 C15
impl<const LIMBS: usize> Uint<LIMBS> {
#[verifier::external_body]
pub const fn div_rem_vartime<const RHS_LIMBS: usize>(
        &self,
        rhs: &NonZero<Uint<RHS_LIMBS>>,
    ) -> (ret__: (Self, Uint<RHS_LIMBS>))
//@+
    requires 1 <= LIMBS < 0x400_0000, 1 <= RHS_LIMBS < 0x400_0000, rhs.0.v() != 0
    ensures ret__.0.v() * rhs.0.v() + ret__.1.v() == self.v(), 0 <= ret__.1.v() < rhs.0.v()
//@-
{
    unimplemented!()
}
}
//@@ end
//@@ fn src/uint/div.rs | impl<const LIMBS: usize> Uint<LIMBS> | rem_vartime | stub | props C02 C11 C15
impl<const LIMBS: usize> Uint<LIMBS> {
#[verifier::external_body]
pub const fn rem_vartime(&self, rhs: &NonZero<Self>) -> (ret__: Self)
//@+
    requires 1 <= LIMBS < 0x400_0000, rhs.0.v() != 0
    ensures ret__.v() == self.v() % rhs.0.v()
//@-
{
    unimplemented!()
}
}
//@@ end
//@@ fn src/uint/div.rs | impl<const LIMBS: usize> Uint<LIMBS> | rem_wide_vartime | stub | props C02 C11
impl<const LIMBS: usize> Uint<LIMBS> {
#[verifier::external_body]
pub const fn rem_wide_vartime(lower_upper: (Self, Self), rhs: &NonZero<Self>) -> (ret__: Self)
//@+
    requires 1 <= LIMBS < 0x400_0000, rhs.0.v() != 0
    ensures ret__.v() == (lower_upper.0.v() + lower_upper.1.v() * bp(LIMBS as nat)) % rhs.0.v()
//@-
{
    unimplemented!()
}
}
//@@ end
//@@ fn src/uint/div.rs | impl<const LIMBS: usize> Uint<LIMBS> | rem2k_vartime | stub | props C02 C11
impl<const LIMBS: usize> Uint<LIMBS> {
#[verifier::external_body]
pub const fn rem2k_vartime(&self, k: u32) -> (ret__: Self)
//@+
    requires 1 <= LIMBS < 0x400_0000
    ensures ret__.v() == self.v() % p2(k as nat)
//@-
{
    unimplemented!()
}
}
//@@ end

} // verus!
