// L6: MontyParams / MontyForm (src/modular/monty_form.rs, monty_form/{add,sub,neg,mul,pow}.rs) -- C08, wrappers of C09
//
// Data-structure invariant + abstract view: every operation `requires wf` on its inputs and
// `ensures wf && view == op(views)`; induction over the operation history then gives C08 for histories of any length.
use vstd::prelude::*;
use vstd::arithmetic::power::*;
use vstd::arithmetic::power2::*;
use vstd::arithmetic::div_mod::*;
use crate::speclib::*;
use crate::speclib_bits::*;
use crate::l0_prim::*;
use crate::l1_choice::*;
use crate::l1_limb::*;
use crate::l2_core::*;
use crate::l2_shift::*;
use crate::l3_mul::*;
use crate::l3_div_vt::*;
use crate::l4_modular::*;
use crate::l5_monty::*;
use crate::l5_pow::*;
verus! {

//@@ item src/modular/monty_form.rs | struct MontyParams
//@@ end
//@@ item src/modular/monty_form.rs | struct MontyForm
//@@ end

//@@ subst \b(Self|Uint)::(ZERO|ONE|MAX|BITS|LOG2_BITS)\b(?!\() => \1::\2()
//@@ subst \bUint::<(\w+)>::(ZERO|ONE|MAX|BITS)\b(?!\() => Uint::<\1>::\2()
//@@ fn src/odd.rs | impl<T> Odd<T> | as_ref | body | props C08 C11
//@@ end
//@@ fn src/odd.rs | impl<T> Odd<T> | as_nz_ref | stub | props C08 C11
//@@ end
//@@ fn src/modular/monty_form.rs | impl<const LIMBS: usize> MontyParams<LIMBS> | new_vartime | body | props C08 C11
//@@ end
//@@ fn src/modular/monty_form.rs | impl<const LIMBS: usize> MontyParams<LIMBS> | modulus | body | props C08 C11
//@@ end
//@@ fn src/modular/monty_form.rs | impl<const LIMBS: usize> MontyForm<LIMBS> | new | body | props C08 C11
//@@ end
//@@ fn src/modular/monty_form.rs | impl<const LIMBS: usize> MontyForm<LIMBS> | retrieve | body | props C08 C11
//@@ end
//@@ fn src/modular/monty_form.rs | impl<const LIMBS: usize> MontyForm<LIMBS> | zero | body | props C08 C11
//@@ end
//@@ fn src/modular/monty_form.rs | impl<const LIMBS: usize> MontyForm<LIMBS> | one | body | props C08 C11
//@@ end
//@@ fn src/modular/monty_form.rs | impl<const LIMBS: usize> MontyForm<LIMBS> | params | body | props C08 C11
//@@ end
//@@ fn src/modular/monty_form.rs | impl<const LIMBS: usize> MontyForm<LIMBS> | as_montgomery | body | props C08 C11
//@@ end
//@@ fn src/modular/monty_form.rs | impl<const LIMBS: usize> MontyForm<LIMBS> | from_montgomery | body | props C08 C11
//@@ end
//@@ fn src/modular/monty_form.rs | impl<const LIMBS: usize> MontyForm<LIMBS> | to_montgomery | body | props C08 C11
//@@ end
//@@ fn src/modular/monty_form.rs | impl<const LIMBS: usize> MontyForm<LIMBS> | div_by_2 | body | props C08 C11
//@@ end
//@@ fn src/modular/monty_form/add.rs | impl<const LIMBS: usize> MontyForm<LIMBS> | add | body | props C08 C11
//@@ end
//@@ fn src/modular/monty_form/add.rs | impl<const LIMBS: usize> MontyForm<LIMBS> | double | body | props C08 C11
//@@ end
//@@ fn src/modular/monty_form/sub.rs | impl<const LIMBS: usize> MontyForm<LIMBS> | sub | body | props C08 C11
//@@ end
//@@ fn src/modular/monty_form/neg.rs | impl<const LIMBS: usize> MontyForm<LIMBS> | neg | body | props C08 C11
//@@ end
//@@ fn src/modular/monty_form/mul.rs | impl<const LIMBS: usize> MontyForm<LIMBS> | mul | body | props C08 C11
//@@ end
//@@ fn src/modular/monty_form/mul.rs | impl<const LIMBS: usize> MontyForm<LIMBS> | square | body | props C08 C11
//@@ end
//@@ fn src/modular/monty_form/pow.rs | impl<const LIMBS: usize> MontyForm<LIMBS> | pow | body | props C09 C11
//@@ end
//@@ fn src/modular/monty_form/pow.rs | impl<const LIMBS: usize> MontyForm<LIMBS> | pow_bounded_exp | body | props C09 C11
//@@ end

} // verus!
