// L6: MontyParams / MontyForm (src/modular/monty_form.rs, monty_form/{add,sub,neg,mul,pow}.rs) -- C08, wrappers of C09
//
// Data-structure invariant + abstract view: every operation `requires wf` on its inputs and
// `ensures wf && view == op(views)`; induction over the operation history then gives C08 for histories of any length.
// `MontyParams::wf` states that every field equals its definition; `lemma_params_unique` / `lemma_constructors_agree`
// show that the postcondition of the constructors determines every field from the modulus, i.e. the constructors
// return identical parameter sets.
//
// FINDING (C08, modulus m == 1): `MontyParams::new_vartime` and `MontyParams::new` (same expression) compute
// `one = ((R - 1) mod m) + 1`, which is R mod m for every odd m >= 3 (R is a unit mod m, lemma_one_def) but is 1,
// not R mod 1 == 0, for m == 1. So for the modulus 1 `params.one`, `MontyForm::one(params).as_montgomery()` and
// `pow_bounded_exp(_, 0)` are 1 >= m: not canonical, and `one != zero` although both represent 0 in Z/1Z
// (checked concretely: U128, modulus 1 -> as_montgomery() == 1, retrieve() == 0, one == zero is false).
// The contracts of `new_vartime` / `new` therefore give `wf` only for m != 1 and state `one == 1` for m == 1; all other
// fields (`wf_rest`) equal their definitions for every odd m.
//
// NOT COVERED here:
//  * `MontyParams::new` (constant-time constructor) is proved in unit l6_montyform_ct (it needs the `Concat`/`Split`
//    plumbing of l2_concat); it ensures the same `params_for(ret, modulus)` as `new_vartime` below.
//    `MontyParams::from_const_params` and `ConstMontyForm` are in unit l6_constmonty.
//  * `as_montgomery_mut` (hands out `&mut` to the representative: the invariant is the caller's business),
//    trait impls / operators / `DynMontyMultiplier` / `ConditionallySelectable` / `From<&ConstMontyForm>` (Engine B).
//  * `from_montgomery` is an unchecked constructor: the result is wf only if the argument is < m (stated as such).
// ASSUMED: `Odd::as_nz_ref` (`unsafe` pointer cast `&T -> &NonZero<T>`, NonZero is repr(transparent)): `ret.0 == self.0`.
use vstd::prelude::*;
use vstd::arithmetic::power::*;
use vstd::arithmetic::power2::*;
use vstd::arithmetic::div_mod::*;
use crate::speclib::*;
use crate::speclib_bits::*;
use crate::l0_prim::*;
use crate::l1_choice::*;
use crate::l1_limb::*;
use crate::l2_core::*;
use crate::l2_shift::*;
use crate::l3_mul::*;
use crate::l3_div_vt::*;
use crate::l4_modular::*;
use crate::l4_invmod::*;
use crate::l5_monty::*;
use crate::l5_pow::*;
verus! {

//@@ item src/modular/monty_form.rs | struct MontyParams
#[derive(Clone, Copy)]
pub struct MontyParams<const LIMBS: usize> {
    pub modulus: Odd<Uint<LIMBS>>,
    pub one: Uint<LIMBS>,
    pub r2: Uint<LIMBS>,
    pub r3: Uint<LIMBS>,
    pub mod_neg_inv: Limb,
    pub mod_leading_zeros: u32,
}
//@@ end
//@@ item src/modular/monty_form.rs | struct MontyForm
#[derive(Clone, Copy)]
pub struct MontyForm<const LIMBS: usize> {
    pub montgomery_form: Uint<LIMBS>,
    pub params: MontyParams<LIMBS>,
}
//@@ end


// ---- data-structure invariant and abstract view

/// c is the leading-zero count of v as a `bits`-bit number, clamped to 63 (Word::BITS - 1):
/// c < 63: 2^(bits-c-1) <= v < 2^(bits-c);  c == 63: v < 2^(bits-63)
pub open spec fn clamped_lz(v: int, bits: nat, c: int) -> bool {
    0 <= c <= 63 && v < p2((bits - c) as nat) && (c < 63 ==> v >= p2((bits - c - 1) as nat))
}

impl<const LIMBS: usize> MontyParams<LIMBS> {
    /// the modulus as an integer
    pub open spec fn m(&self) -> int { self.modulus.0.v() }
    /// R = B^LIMBS
    pub open spec fn big_r(&self) -> int { bp(LIMBS as nat) }
    /// every derived field except `one` equals its definition (R = B^LIMBS):
    /// modulus odd, r2 == R^2 mod m, r3 == R^3 mod m, mod_neg_inv * m[0] == -1 (mod B), clamped leading zeros.
    /// (LIMBS < 2^26 is the width restriction under which the callees are proved.)
    pub open spec fn wf_rest(&self) -> bool {
        let m = self.modulus.0.v(); let r = bp(LIMBS as nat);
        &&& 1 <= LIMBS < 0x400_0000
        &&& m % 2 == 1
        &&& self.r2.v() == (r * r) % m
        &&& self.r3.v() == (r * r * r) % m
        &&& neg_inv_ok(self.mod_neg_inv, self.modulus.0.limbs@[0])
        &&& clamped_lz(m, (64 * LIMBS) as nat, self.mod_leading_zeros as int)
    }
    /// all fields equal their definitions: wf_rest and one == R mod m
    pub open spec fn wf(&self) -> bool {
        self.wf_rest() && self.one.v() == bp(LIMBS as nat) % self.modulus.0.v()
    }
}

impl<const LIMBS: usize> MontyForm<LIMBS> {
    /// parameters well formed and the stored representative canonical (< m)
    pub open spec fn wf(&self) -> bool {
        self.params.wf() && self.montgomery_form.v() < self.params.modulus.0.v()
    }
    /// the element of Z/mZ (as an integer in [0, m)) represented by this value
    pub open spec fn view(&self) -> int {
        mont_repr(self.montgomery_form.v(), self.params.modulus.0.v(), LIMBS as nat)
    }
}

// ---- lemmas

/// what the runtime constructors return for `modulus`: every field but `one` equals its definition (wf_rest);
/// `one` is R mod m, except that the code yields 1 for m == 1 (see FINDING in the header)
pub open spec fn params_for<const LIMBS: usize>(p: MontyParams<LIMBS>, modulus: Odd<Uint<LIMBS>>) -> bool {
    p.modulus == modulus && p.wf_rest()
        && p.one.v() == (if modulus.0.v() == 1 { 1 } else { bp(LIMBS as nat) % modulus.0.v() })
}

/// wf_rest (plus the value of `one`) determines every field from the modulus
pub proof fn lemma_params_unique<const LIMBS: usize>(a: MontyParams<LIMBS>, b: MontyParams<LIMBS>)
    requires a.wf_rest(), b.wf_rest(), a.modulus.0.v() == b.modulus.0.v(), a.one.v() == b.one.v()
    ensures a == b
{
    let n = LIMBS as nat;
    lemma_val_inj(a.modulus.0.limbs@, b.modulus.0.limbs@, n);
    lemma_val_inj(a.one.limbs@, b.one.limbs@, n);
    lemma_val_inj(a.r2.limbs@, b.r2.limbs@, n);
    lemma_val_inj(a.r3.limbs@, b.r3.limbs@, n);
    assert(a.modulus.0.limbs@ =~= b.modulus.0.limbs@);
    assert(a.one.limbs@ =~= b.one.limbs@);
    assert(a.r2.limbs@ =~= b.r2.limbs@);
    assert(a.r3.limbs@ =~= b.r3.limbs@);
    lemma_neg_inv_unique(a.mod_neg_inv.0 as int, b.mod_neg_inv.0 as int, a.modulus.0.limbs@[0].0 as int);
    lemma_clamped_lz_unique(a.modulus.0.v(), (64 * LIMBS) as nat, a.mod_leading_zeros as int, b.mod_leading_zeros as int);
    assert(a.modulus.0.limbs =~= b.modulus.0.limbs);
    assert(a.one.limbs =~= b.one.limbs);
    assert(a.r2.limbs =~= b.r2.limbs);
    assert(a.r3.limbs =~= b.r3.limbs);
    assert(a.mod_neg_inv.0 == b.mod_neg_inv.0);
}

/// two well-formed parameter sets for the same modulus value are equal
pub proof fn lemma_params_wf_unique<const LIMBS: usize>(a: MontyParams<LIMBS>, b: MontyParams<LIMBS>)
    requires a.wf(), b.wf(), a.modulus.0.v() == b.modulus.0.v()
    ensures a == b
{
    lemma_params_unique(a, b);
}

/// the constant-time and the vartime constructor (both `ensures params_for(ret, modulus)`) return identical
/// parameter sets, for every odd modulus including 1
pub proof fn lemma_constructors_agree<const LIMBS: usize>(a: MontyParams<LIMBS>, b: MontyParams<LIMBS>, modulus: Odd<Uint<LIMBS>>)
    requires params_for(a, modulus), params_for(b, modulus)
    ensures a == b
{
    lemma_params_unique(a, b);
}

/// k * m0 == -1 (mod B) has at most one solution k in [0, B)
proof fn lemma_neg_inv_unique(k1: int, k2: int, m0: int)
    requires 0 <= k1 < B(), 0 <= k2 < B(), 0 <= m0 < B(), (k1 * m0) % B() == B() - 1, (k2 * m0) % B() == B() - 1
    ensures k1 == k2
{
    // k1 == k1 * (-(k2*m0)) == k2 * (-(k1*m0)) == k2  (mod B)
    let b = B();
    assert(k1 * (k2 * m0) == k2 * (k1 * m0)) by (nonlinear_arith);
    lemma_mul_mod_noop_right(k1, k2 * m0, b);
    lemma_mul_mod_noop_right(k2, k1 * m0, b);
    assert((k1 * (b - 1)) % b == (k2 * (b - 1)) % b);
    assert(k1 * (b - 1) == k1 * b - k1) by (nonlinear_arith);
    assert(k2 * (b - 1) == k2 * b - k2) by (nonlinear_arith);
    lemma_mod_multiples_vanish(k1, -k1, b);
    lemma_mod_multiples_vanish(k2, -k2, b);
    assert(b * k1 + (-k1) == k1 * b - k1) by (nonlinear_arith);
    assert(b * k2 + (-k2) == k2 * b - k2) by (nonlinear_arith);
    assert((-k1) % b == (-k2) % b);
    if k1 != 0 { lemma_mod_add_multiples_vanish(-k1, b); lemma_small_mod((b - k1) as nat, b as nat); } else { lemma_small_mod(0, b as nat); }
    if k2 != 0 { lemma_mod_add_multiples_vanish(-k2, b); lemma_small_mod((b - k2) as nat, b as nat); } else { lemma_small_mod(0, b as nat); }
}

pub proof fn lemma_p2_mono(a: nat, b: nat)
    requires a <= b
    ensures p2(a) <= p2(b), p2(a) > 0
{
    lemma_pow2_pos(a);
    if a < b { lemma_pow2_strictly_increases(a, b); }
}

proof fn lemma_clamped_lz_unique(v: int, bits: nat, c1: int, c2: int)
    requires bits >= 64, clamped_lz(v, bits, c1), clamped_lz(v, bits, c2)
    ensures c1 == c2
{
    if c1 < c2 {
        // v >= 2^(bits-c1-1) >= 2^(bits-c2) > v
        lemma_p2_mono((bits - c2) as nat, (bits - c1 - 1) as nat);
    } else if c2 < c1 {
        lemma_p2_mono((bits - c1) as nat, (bits - c2 - 1) as nat);
    }
}

/// R is a unit modulo an odd m > 1, hence R mod m != 0 and ((R - 1) mod m) + 1 == R mod m
proof fn lemma_one_def(m: int, n: nat)
    requires m > 1, m % 2 == 1
    ensures (bp(n) - 1) % m + 1 == bp(n) % m
{
    let r = bp(n);
    let ir = lemma_r_inv(m, n);
    lemma_small_mod(1, m as nat);
    lemma_mul_mod_noop_left(r, ir, m);
    let c = r % m;
    lemma_mod_bound(r, m);
    if c == 0 {
        assert(0 * ir == 0);
        lemma_small_mod(0, m as nat);
        assert(false);
    }
    lemma_fundamental_div_mod(r, m);
    lemma_fundamental_div_mod_converse(r - 1, m, r / m, c - 1);
}

/// the stored `one` is congruent to R in every case (for m == 1 the code yields one == 1)
pub proof fn lemma_one_cong(one: int, m: int, n: nat)
    requires m >= 1, m % 2 == 1, one == (bp(n) - 1) % m + 1
    ensures one % m == bp(n) % m, m > 1 ==> one == bp(n) % m, m == 1 ==> one == 1, 1 <= one <= m
{
    lemma_mod_bound(bp(n) - 1, m);
    if m > 1 {
        lemma_one_def(m, n);
        lemma_mod_twice(bp(n), m);
    } else {
        assert(one % 1 == 0);
        assert(bp(n) % 1 == 0);
    }
}

/// r2 == one^2 mod m == R^2 mod m
pub proof fn lemma_r2_def(one: int, m: int, r: int)
    requires m >= 1, one % m == r % m
    ensures (one * one) % m == (r * r) % m
{
    lemma_mul_mod_noop_general(one, one, m);
    lemma_mul_mod_noop_general(r, r, m);
}

/// r3 == r2^2 * R^-1 mod m == R^3 mod m
pub proof fn lemma_r3_def(r3: int, r2: int, m: int, n: nat)
    requires m >= 1, m % 2 == 1, r2 == (bp(n) * bp(n)) % m, mont_red(r3, r2 * r2, m, bp(n))
    ensures r3 == (bp(n) * bp(n) * bp(n)) % m
{
    let r = bp(n);
    lemma_mod_twice(r * r, m);
    lemma_mul_mod_noop_general(r2, r2, m);
    lemma_mul_mod_noop_general(r * r, r * r, m);
    assert((r * r) * (r * r) == (r * r * r) * r) by (nonlinear_arith);
    lemma_mont_cancel(r3, r * r * r, m, n);
    lemma_small_mod(r3 as nat, m as nat);
}

/// mod_neg_inv from the inverse of m modulo B
pub proof fn lemma_neg_inv_def(k: int, inv0: int, inv: int, m0: int, mv: int)
    requires 0 <= k < B(), 0 <= inv0 < B(), 0 <= m0 < B(),
        k == (if 0 - inv0 >= 0 { 0 - inv0 } else { 0 - inv0 + B() }),
        inv % B() == inv0, mv % B() == m0, (mv * inv) % B() == 1
    ensures (k * m0) % B() == B() - 1
{
    let b = B();
    lemma_mul_mod_noop_general(mv, inv, b);
    assert((m0 * inv0) % b == 1);
    if inv0 == 0 {
        assert(m0 * 0 == 0);
        lemma_small_mod(0, b as nat);
        assert(false);
    }
    assert(k == b - inv0);
    assert(k * m0 == b * m0 + (-(m0 * inv0))) by (nonlinear_arith) requires k == b - inv0;
    lemma_mod_multiples_vanish(m0, -(m0 * inv0), b);
    // (-(x)) % b for x % b == 1
    let x = m0 * inv0;
    lemma_fundamental_div_mod(x, b);
    lemma_fundamental_div_mod_converse(-x, b, -(x / b) - 1, b - 1);
}

/// conversion into Montgomery form: x * r2 * R^-1 == x * R (mod m)
pub proof fn lemma_to_mont(x: int, r2: int, m: int, n: nat)
    requires m >= 1, m % 2 == 1, r2 == (bp(n) * bp(n)) % m
    ensures mont_repr(x * r2, m, n) == (x * bp(n)) % m,
        mont_repr((x * bp(n)) % m, m, n) == x % m
{
    let r = bp(n);
    let c = (x * r) % m;
    lemma_mod_bound(x * r, m);
    lemma_mul_mod_noop_left(x * r, r, m);
    lemma_mul_mod_noop_right(x, r * r, m);
    assert((x * r) * r == x * (r * r)) by (nonlinear_arith);
    assert(mont_red(c, x * r2, m, r));
    lemma_mont_repr_unique(c, x * r2, m, n);
    lemma_mont_repr_of(x, m, n);
}

/// 0 represents 0
pub proof fn lemma_repr_zero(m: int, n: nat)
    requires m >= 1, m % 2 == 1
    ensures mont_repr(0, m, n) == 0
{
    assert(0 * bp(n) == 0);
    lemma_mont_repr_unique(0, 0, m, n);
}

/// negation: (m - a) mod m represents -repr(a) mod m
pub proof fn lemma_repr_neg(a: int, m: int, n: nat)
    requires m >= 1, m % 2 == 1
    ensures mont_repr((m - a) % m, m, n) == (-mont_repr(a, m, n)) % m
{
    lemma_repr_zero(m, n);
    lemma_mont_repr_sub(0, a, m, n);
    lemma_mod_add_multiples_vanish(-a, m);
    assert(m + (-a) == m - a);
    assert(0 - a == -a);
}

/// halving: 2 * repr(r) == repr(a) (mod m) when 2r == a (mod m)
pub proof fn lemma_repr_half(r: int, a: int, m: int, n: nat)
    requires m >= 1, m % 2 == 1, (2 * r) % m == a
    ensures (2 * mont_repr(r, m, n)) % m == mont_repr(a, m, n)
{
    lemma_mont_repr_add(r, r, m, n);
    assert(r + r == 2 * r);
}

//@@ subst \b(Self|Uint)::(ZERO|ONE|MAX|BITS|LOG2_BITS)\b(?!\() => \1::\2()
//@@ subst \bUint::<(\w+)>::(ZERO|ONE|MAX|BITS)\b(?!\() => Uint::<\1>::\2()
// `Odd::as_ref` (src/odd.rs) lives in l4_invmod (shared with gcd_vartime): contract `ensures *ret__ == self.0`
//@@ fn src/odd.rs | impl<T> Odd<T> | as_nz_ref | stub | props C08 C11
impl<T> Odd<T> {
#[verifier::external_body]
pub const fn as_nz_ref(&self) -> (ret__: &NonZero<T>)
//@+
    ensures ret__.0 == self.0
//@-
{
    unimplemented!()
}
}
//@@ end
//@@ fn src/modular/monty_form.rs | impl<const LIMBS: usize> MontyParams<LIMBS> | new_vartime | body | props C08 C11
impl<const LIMBS: usize> MontyParams<LIMBS> {
pub const fn new_vartime(modulus: Odd<Uint<LIMBS>>) -> (ret__: Self)
//@+
    requires LIMBS < 0x400_0000, modulus.0.v() % 2 == 1
    ensures params_for(ret__, modulus), ret__.modulus == modulus, ret__.wf_rest(),
        modulus.0.v() != 1 ==> ret__.wf(),
        // the code yields one == 1 (not R mod m == 0) for the modulus 1: see FINDING in the unit header
        modulus.0.v() == 1 ==> ret__.one.v() == 1
//@-
{
//@+
    let ghost n = LIMBS as nat;
    let ghost m = modulus.0.v();
    let ghost r = bp(LIMBS as nat);
    proof {
        if LIMBS == 0 { assert(val(modulus.0.limbs@, 0) == 0); }
        lemma_val_bound(modulus.0.limbs@, n);
    }
//@-
        // `R mod modulus` where `R = 2^BITS`.
        // Represents 1 in Montgomery form.
        let one = Uint::MAX()
            .rem_vartime(modulus.as_nz_ref())
            .wrapping_add(&Uint::ONE());
//@+
    proof {
        lemma_mod_bound(r - 1, m);
        lemma_small_mod(((r - 1) % m + 1) as nat, r as nat);
        lemma_one_cong(one.v(), m, n);
    }
//@-
        // `R^2 mod modulus`, used to convert integers to Montgomery form.
        let r2 = Uint::rem_wide_vartime(one.square_wide(), modulus.as_nz_ref());
//@+
    proof {
        lemma_r2_def(one.v(), m, r);
        lemma_mod_bound(r * r, m);
    }
//@-
        // The modular inverse should always exist, because it was ensured odd above, which also ensures it's non-zero
        let inv_mod = modulus
            .as_ref()
            .inv_mod2k_full_vartime(Word::BITS)
            .expect("modular inverse should exist");
//@+
    proof {
        lemma_pow2_64();
        lemma_small_mod(1, B() as nat);
    }
//@-
        let mod_neg_inv = Limb(Word::MIN.wrapping_sub(inv_mod.limbs[0].0));
//@+
    proof {
        lemma_val_low(modulus.0.limbs@, n); lemma_val_low(inv_mod.limbs@, n);
        lemma_neg_inv_def(mod_neg_inv.0 as int, inv_mod.limbs@[0].0 as int, inv_mod.v(), modulus.0.limbs@[0].0 as int, m);
    }
//@-
        let mod_leading_zeros = modulus.as_ref().leading_zeros_vartime();
//@+
    let ghost z = mod_leading_zeros as int;
//@-
        let mod_leading_zeros = if mod_leading_zeros < Word::BITS - 1 {
            mod_leading_zeros
        } else {
            Word::BITS - 1
        };
//@+
    proof {
        if z >= 63 { lemma_p2_mono((64 * LIMBS - z) as nat, (64 * LIMBS - 63) as nat); }
        assert(r2.v() * r2.v() < m * r) by (nonlinear_arith) requires 0 <= r2.v() < m, m < r;
    }
//@-
        // `R^3 mod modulus`, used for inversion in Montgomery form.
        let r3 = montgomery_reduction(&r2.square_wide(), &modulus, mod_neg_inv);
//@+
    proof { lemma_r3_def(r3.v(), r2.v(), m, n); }
//@-
        Self {
            modulus,
            one,
            r2,
            r3,
            mod_neg_inv,
            mod_leading_zeros,
        }
    }
}
//@@ end
//@@ fn src/modular/monty_form.rs | impl<const LIMBS: usize> MontyParams<LIMBS> | modulus | body | props C08 C11
impl<const LIMBS: usize> MontyParams<LIMBS> {
pub const fn modulus(&self) -> (ret__: &Odd<Uint<LIMBS>>)
//@+
    ensures *ret__ == self.modulus
//@-
{
        &self.modulus
    }
}
//@@ end
//@@ fn src/modular/monty_form.rs | impl<const LIMBS: usize> MontyForm<LIMBS> | new | body | props C08 C11
impl<const LIMBS: usize> MontyForm<LIMBS> {
pub const fn new(integer: &Uint<LIMBS>, params: MontyParams<LIMBS>) -> (ret__: Self)
//@+
    requires params.wf()
    ensures ret__.wf(), ret__.params == params,
        ret__.view() == integer.v() % params.modulus.0.v(),
        ret__.montgomery_form.v() == (integer.v() * bp(LIMBS as nat)) % params.modulus.0.v()
//@-
{
        let product = integer.split_mul(&params.r2);
//@+
    proof {
        let n = LIMBS as nat; let m = params.modulus.0.v(); let x = integer.v(); let r2 = params.r2.v();
        lemma_val_bound(integer.limbs@, n); lemma_val_bound(params.modulus.0.limbs@, n);
        lemma_mod_bound(bp(n) * bp(n), m);
        assert(x * r2 < m * bp(n)) by (nonlinear_arith) requires 0 <= x < bp(n), 0 <= r2 < m;
        lemma_to_mont(x, r2, m, n);
    }
//@-
        let montgomery_form = montgomery_reduction(&product, &params.modulus, params.mod_neg_inv);
        Self {
            montgomery_form,
            params,
        }
    }
}
//@@ end
//@@ fn src/modular/monty_form.rs | impl<const LIMBS: usize> MontyForm<LIMBS> | retrieve | body | props C08 C11
impl<const LIMBS: usize> MontyForm<LIMBS> {
pub const fn retrieve(&self) -> (ret__: Uint<LIMBS>)
//@+
    requires self.wf()
    ensures ret__.v() == self.view(), ret__.v() < self.params.modulus.0.v()
//@-
{
//@+
    proof {
        let n = LIMBS as nat; let m = self.params.modulus.0.v();
        lemma_val_bound(self.montgomery_form.limbs@, n); lemma_val_bound(self.params.modulus.0.limbs@, n);
        assert(0 * bp(n) == 0);
        assert(m <= m * bp(n)) by (nonlinear_arith) requires m >= 0, bp(n) >= 1;
    }
//@-
        montgomery_reduction(
            &(self.montgomery_form, Uint::ZERO()),
            &self.params.modulus,
            self.params.mod_neg_inv,
        )
    }
}
//@@ end
//@@ fn src/modular/monty_form.rs | impl<const LIMBS: usize> MontyForm<LIMBS> | zero | body | props C08 C11
impl<const LIMBS: usize> MontyForm<LIMBS> {
pub const fn zero(params: MontyParams<LIMBS>) -> (ret__: Self)
//@+
    requires params.wf()
    ensures ret__.wf(), ret__.params == params, ret__.view() == 0, ret__.montgomery_form.v() == 0
//@-
{
//@+
    proof { lemma_val_bound(params.modulus.0.limbs@, LIMBS as nat); lemma_repr_zero(params.modulus.0.v(), LIMBS as nat); }
//@-
        Self {
            montgomery_form: Uint::<LIMBS>::ZERO(),
            params,
        }
    }
}
//@@ end
//@@ fn src/modular/monty_form.rs | impl<const LIMBS: usize> MontyForm<LIMBS> | one | body | props C08 C11
impl<const LIMBS: usize> MontyForm<LIMBS> {
pub const fn one(params: MontyParams<LIMBS>) -> (ret__: Self)
//@+
    requires params.wf()
    ensures ret__.wf(), ret__.params == params, ret__.view() == 1int % params.modulus.0.v(), ret__.montgomery_form == params.one
//@-
{
//@+
    proof {
        let n = LIMBS as nat; let m = params.modulus.0.v();
        lemma_val_bound(params.modulus.0.limbs@, n);
        lemma_mod_bound(bp(n), m);
        assert(1 * bp(n) == bp(n));
        lemma_mont_repr_of(1, m, n);
    }
//@-
        Self {
            montgomery_form: params.one,
            params,
        }
    }
}
//@@ end
//@@ fn src/modular/monty_form.rs | impl<const LIMBS: usize> MontyForm<LIMBS> | params | body | props C08 C11
impl<const LIMBS: usize> MontyForm<LIMBS> {
pub const fn params(&self) -> (ret__: &MontyParams<LIMBS>)
//@+
    ensures *ret__ == self.params
//@-
{
        &self.params
    }
}
//@@ end
//@@ fn src/modular/monty_form.rs | impl<const LIMBS: usize> MontyForm<LIMBS> | as_montgomery | body | props C08 C11
impl<const LIMBS: usize> MontyForm<LIMBS> {
pub const fn as_montgomery(&self) -> (ret__: &Uint<LIMBS>)
//@+
    ensures *ret__ == self.montgomery_form
//@-
{
        &self.montgomery_form
    }
}
//@@ end
//@@ fn src/modular/monty_form.rs | impl<const LIMBS: usize> MontyForm<LIMBS> | from_montgomery | body | props C08 C11
impl<const LIMBS: usize> MontyForm<LIMBS> {
pub const fn from_montgomery(integer: Uint<LIMBS>, params: MontyParams<LIMBS>) -> (ret__: Self)
//@+
    ensures ret__.montgomery_form == integer, ret__.params == params,
        (params.wf() && integer.v() < params.modulus.0.v()) ==> ret__.wf()
//@-
{
        Self {
            montgomery_form: integer,
            params,
        }
    }
}
//@@ end
//@@ fn src/modular/monty_form.rs | impl<const LIMBS: usize> MontyForm<LIMBS> | to_montgomery | body | props C08 C11
impl<const LIMBS: usize> MontyForm<LIMBS> {
pub const fn to_montgomery(&self) -> (ret__: Uint<LIMBS>)
//@+
    ensures ret__ == self.montgomery_form
//@-
{
        self.montgomery_form
    }
}
//@@ end
//@@ fn src/modular/monty_form.rs | impl<const LIMBS: usize> MontyForm<LIMBS> | div_by_2 | body | props C08 C11
impl<const LIMBS: usize> MontyForm<LIMBS> {
pub const fn div_by_2(&self) -> (ret__: Self)
//@+
    requires self.wf()
    ensures ret__.wf(), ret__.params == self.params, (2 * ret__.view()) % self.params.modulus.0.v() == self.view()
//@-
{
//@+
    proof {
        let n = LIMBS as nat; let m = self.params.modulus.0.v(); let a = self.montgomery_form.v();
        lemma_val_bound(self.params.modulus.0.limbs@, n);
        assert forall|r: int| (2 * r) % m == a implies (2 * #[trigger] mont_repr(r, m, n)) % m == mont_repr(a, m, n) by {
            lemma_repr_half(r, a, m, n);
        }
    }
//@-
        Self {
            montgomery_form: div_by_2(&self.montgomery_form, &self.params.modulus),
            params: self.params,
        }
    }
}
//@@ end
//@@ fn src/modular/monty_form/add.rs | impl<const LIMBS: usize> MontyForm<LIMBS> | add | body | props C08 C11
impl<const LIMBS: usize> MontyForm<LIMBS> {
pub const fn add(&self, rhs: &Self) -> (ret__: Self)
//@+
    requires self.wf(), rhs.wf(), rhs.params.modulus.0.v() == self.params.modulus.0.v()
    ensures ret__.wf(), ret__.params == self.params, ret__.view() == (self.view() + rhs.view()) % self.params.modulus.0.v()
//@-
{
        Self {
            montgomery_form: add_montgomery_form(
                &self.montgomery_form,
                &rhs.montgomery_form,
                &self.params.modulus,
            ),
            params: self.params,
        }
    }
}
//@@ end
//@@ fn src/modular/monty_form/add.rs | impl<const LIMBS: usize> MontyForm<LIMBS> | double | body | props C08 C11
impl<const LIMBS: usize> MontyForm<LIMBS> {
pub const fn double(&self) -> (ret__: Self)
//@+
    requires self.wf()
    ensures ret__.wf(), ret__.params == self.params, ret__.view() == (2 * self.view()) % self.params.modulus.0.v()
//@-
{
        Self {
            montgomery_form: double_montgomery_form(&self.montgomery_form, &self.params.modulus),
            params: self.params,
        }
    }
}
//@@ end
//@@ fn src/modular/monty_form/sub.rs | impl<const LIMBS: usize> MontyForm<LIMBS> | sub | body | props C08 C11
impl<const LIMBS: usize> MontyForm<LIMBS> {
pub const fn sub(&self, rhs: &Self) -> (ret__: Self)
//@+
    requires self.wf(), rhs.wf(), rhs.params.modulus.0.v() == self.params.modulus.0.v()
    ensures ret__.wf(), ret__.params == self.params, ret__.view() == (self.view() - rhs.view()) % self.params.modulus.0.v()
//@-
{
        Self {
            montgomery_form: sub_montgomery_form(
                &self.montgomery_form,
                &rhs.montgomery_form,
                &self.params.modulus,
            ),
            params: self.params,
        }
    }
}
//@@ end
//@@ fn src/modular/monty_form/neg.rs | impl<const LIMBS: usize> MontyForm<LIMBS> | neg | body | props C08 C11
impl<const LIMBS: usize> MontyForm<LIMBS> {
pub const fn neg(&self) -> (ret__: Self)
//@+
    requires self.wf()
    ensures ret__.wf(), ret__.params == self.params, ret__.view() == (-self.view()) % self.params.modulus.0.v()
//@-
{
//@+
    proof {
        lemma_val_bound(self.params.modulus.0.limbs@, LIMBS as nat);
        lemma_repr_neg(self.montgomery_form.v(), self.params.modulus.0.v(), LIMBS as nat);
    }
//@-
        Self {
            montgomery_form: self.montgomery_form.neg_mod(self.params.modulus.as_ref()),
            params: self.params,
        }
    }
}
//@@ end
//@@ fn src/modular/monty_form/mul.rs | impl<const LIMBS: usize> MontyForm<LIMBS> | mul | body | props C08 C11
impl<const LIMBS: usize> MontyForm<LIMBS> {
pub const fn mul(&self, rhs: &Self) -> (ret__: Self)
//@+
    requires self.wf(), rhs.wf(), rhs.params.modulus.0.v() == self.params.modulus.0.v()
    ensures ret__.wf(), ret__.params == self.params, ret__.view() == (self.view() * rhs.view()) % self.params.modulus.0.v()
//@-
{
        Self {
            montgomery_form: mul_montgomery_form(
                &self.montgomery_form,
                &rhs.montgomery_form,
                &self.params.modulus,
                self.params.mod_neg_inv,
            ),
            params: self.params,
        }
    }
}
//@@ end
//@@ fn src/modular/monty_form/mul.rs | impl<const LIMBS: usize> MontyForm<LIMBS> | square | body | props C08 C11
impl<const LIMBS: usize> MontyForm<LIMBS> {
pub const fn square(&self) -> (ret__: Self)
//@+
    requires self.wf()
    ensures ret__.wf(), ret__.params == self.params, ret__.view() == (self.view() * self.view()) % self.params.modulus.0.v()
//@-
{
        Self {
            montgomery_form: square_montgomery_form(
                &self.montgomery_form,
                &self.params.modulus,
                self.params.mod_neg_inv,
            ),
            params: self.params,
        }
    }
}
//@@ end
//@@ fn src/modular/monty_form/pow.rs | impl<const LIMBS: usize> MontyForm<LIMBS> | pow | body | props C09 C11
impl<const LIMBS: usize> MontyForm<LIMBS> {
pub const fn pow<const RHS_LIMBS: usize>(
        &self,
        exponent: &Uint<RHS_LIMBS>,
    ) -> (ret__: MontyForm<LIMBS>)
//@+
    requires self.wf(), 1 <= RHS_LIMBS < 0x400_0000
    ensures ret__.wf(), ret__.params == self.params,
        ret__.view() == pow(self.view(), exponent.v() as nat) % self.params.modulus.0.v()
//@-
{
//@+
    proof {
        lemma_val_bound(exponent.limbs@, RHS_LIMBS as nat);
        lemma_bp_pow2(RHS_LIMBS as nat);
        lemma_small_mod(exponent.v() as nat, p2((64 * RHS_LIMBS) as nat) as nat);
    }
//@-
        self.pow_bounded_exp(exponent, Uint::<RHS_LIMBS>::BITS())
    }
}
//@@ end
//@@ fn src/modular/monty_form/pow.rs | impl<const LIMBS: usize> MontyForm<LIMBS> | pow_bounded_exp | body | props C09 C11
impl<const LIMBS: usize> MontyForm<LIMBS> {
pub const fn pow_bounded_exp<const RHS_LIMBS: usize>(
        &self,
        exponent: &Uint<RHS_LIMBS>,
        exponent_bits: u32,
    ) -> (ret__: Self)
//@+
    requires self.wf(), 1 <= RHS_LIMBS, (exponent_bits as int) <= 64 * RHS_LIMBS
    ensures ret__.wf(), ret__.params == self.params,
        ret__.view() == pow(self.view(), (exponent.v() % p2(exponent_bits as nat)) as nat) % self.params.modulus.0.v(),
        exponent_bits == 0 ==> ret__.montgomery_form == self.params.one
//@-
{
        Self {
            montgomery_form: pow_montgomery_form(
                &self.montgomery_form,
                exponent,
                exponent_bits,
                &self.params.modulus,
                &self.params.one,
                self.params.mod_neg_inv,
            ),
            params: self.params,
        }
    }
}
//@@ end

// KNOWN FINDING F13 (see /verif/known_findings.json): expected to FAIL. The property's claim is that the constructed
// parameters equal their definitions for EVERY odd modulus including m = 1; the code sets one = (MAX mod m) + 1 = 1 for
// m = 1 although R mod 1 = 0, so `one` (and MontyForm::one(p)) is not canonical (1 >= m).
// Witness: MontyParams::<2>::new_vartime(Odd(1)).one == 1.
proof fn known_finding_C08_F13<const LIMBS: usize>(modulus: Odd<Uint<LIMBS>>, p: MontyParams<LIMBS>)
    requires 1 <= LIMBS < 0x400_0000, modulus.0.v() % 2 == 1,
        call_ensures(MontyParams::<LIMBS>::new_vartime, (modulus,), p)
    ensures p.wf()
{ }

} // verus!
