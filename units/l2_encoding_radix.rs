// L2: radix string decoding (src/uint/encoding.rs) -- C17, decode side
// body (proved, every LIMBS / every target): radix_preprocess_str, SliceDecodeByLimb::new / push_limb / limbs_mut, radix_decode_str_digits
//   (generic radix), radix_decode_str_aligned_digits (radix 2/4/16), radix_decode_str, Uint::from_str_radix_vartime.
//   radix_validate_digits (Ok <=> every byte is a digit of the radix or '_').
// Contract (`decode_result`, exact -- lemma_decode_result_exact): Ok <=> the string is a numeral of the radix (`is_numeral`: optional '+', digits
//   and interior '_', either case) whose value is < B^capacity, and then the decoded limbs have exactly its value; Err(Empty) <=> nothing after
//   the optional '+'; Err(InvalidDigit) <=> non-empty and not a numeral; Err(InputSize) <=> numeral with value >= B^capacity; never
//   Err(Precision). No panic for radix in 2..=36 (precondition), no truncated value.
// assumed: `u64::ilog`, `u64::pow` (assume_specification), shim slice_strip_prefix_1 (= `<[u8]>::strip_prefix`), `<[T]>::fill` (l7_boxed_slices);
//   use-site rewrites: `.iter().copied()` -> `.iter()` + `*c` (see the note at the substs). Hand-written: trait DecodeByLimb (declaration +
//   contract), `limbs_mut` of the SliceDecodeByLimb impl (hand copy of a one-line method, verified; see the note there).
use vstd::prelude::*;
use vstd::arithmetic::power::*;
use vstd::arithmetic::power2::*;
use vstd::arithmetic::div_mod::*;
use vstd::arithmetic::mul::*;
use vstd::string::*;
use vstd::std_specs::slice::*;
use vstd::std_specs::bits::*;
use crate::speclib::*;
use crate::l0_prim::*;
use crate::l1_choice::*;
use crate::l1_limb::*;
use crate::l2_core::*;
#[allow(unused_imports)]
use crate::l7_boxed_slices::*;   // holds the assumed specification of `<[T]>::fill` (one per crate)
verus! {

//@@ rawconst src/uint/encoding.rs | - | RADIX_ENCODING_MIN
pub const RADIX_ENCODING_MIN: u32 = 2;
//@@ end
//@@ rawconst src/uint/encoding.rs | - | RADIX_ENCODING_MAX
pub const RADIX_ENCODING_MAX: u32 = 36;
//@@ end
//@@ item src/traits.rs | enum DecodeError
pub enum DecodeError {
    /// The input value was empty.
    Empty,

    /// The input was not consistent with the format restrictions.
    InvalidDigit,

    /// Input size is too small to fit in the given precision.
    InputSize,

    /// The deserialized number is larger than the given precision.
    Precision,
}
//@@ end

// ---------------------------------------------------------------- spec vocabulary: numerals in a radix 2..=36
/// value of an ASCII digit or letter as a digit (0..=35, either case); -1 for every other byte
pub open spec fn digit_val(c: u8) -> int {
    if 0x30 <= c <= 0x39 { c - 0x30 } else if 0x61 <= c <= 0x7a { c - 0x61 + 10 } else if 0x41 <= c <= 0x5a { c - 0x41 + 10 } else { -1 }
}
/// c is a digit of the radix, or the separator '_'
pub open spec fn char_ok(c: u8, radix: int) -> bool { c == 0x5f || 0 <= digit_val(c) < radix }
/// every byte of s[a..b) is a digit of the radix or a separator
pub open spec fn seg_ok(s: Seq<u8>, a: int, b: int, radix: int) -> bool { forall|k: int| a <= k < b ==> char_ok(#[trigger] s[k], radix) }
/// number of digits (non-separators) in s[a..b)
pub open spec fn seg_cnt(s: Seq<u8>, a: int, b: int) -> nat
    decreases b - a
{ if b <= a { 0 } else { seg_cnt(s, a, b - 1) + if s[b - 1] == 0x5f { 0nat } else { 1nat } } }
/// value of the digits in s[a..b), most significant first, separators skipped
pub open spec fn seg_val(s: Seq<u8>, a: int, b: int, radix: int) -> int
    decreases b - a
{ if b <= a { 0 } else if s[b - 1] == 0x5f { seg_val(s, a, b - 1, radix) } else { seg_val(s, a, b - 1, radix) * radix + digit_val(s[b - 1]) } }
/// the string without its optional leading '+'
pub open spec fn numeral_body(s: Seq<u8>) -> Seq<u8> { if s.len() > 0 && s[0] == 0x2b { s.subrange(1, s.len() as int) } else { s } }
/// s is a numeral of the radix: optional '+', then a non-empty string of digits and separators that neither starts nor ends with a separator
pub open spec fn is_numeral(s: Seq<u8>, radix: int) -> bool {
    let b = numeral_body(s);
    b.len() > 0 && b[0] != 0x5f && b[b.len() - 1] != 0x5f && seg_ok(b, 0, b.len() as int, radix)
}
/// the value denoted by s in the radix; None if s is not a numeral
pub open spec fn numeral_val(s: Seq<u8>, radix: int) -> Option<nat> {
    if is_numeral(s, radix) { Some(seg_val(numeral_body(s), 0, numeral_body(s).len() as int, radix) as nat) } else { None }
}
/// value of the digit buffer b[0..n), b[0] most significant
pub open spec fn hv(b: Seq<u8>, n: nat, r: int) -> int
    decreases n
{ if n == 0 { 0 } else { hv(b, (n - 1) as nat, r) * r + b[n - 1] as int } }
/// value of the digit buffer b[0..n), b[0] least significant
pub open spec fn lev(b: Seq<u8>, n: nat, r: int) -> int
    decreases n
{ if n == 0 { 0 } else { lev(b, (n - 1) as nat, r) + b[n - 1] as int * pow(r, (n - 1) as nat) } }

// hand-declared (trait declarations are not extracted): src/uint/encoding.rs `pub(crate) trait DecodeByLimb`, with its contract.
//   lv(): the limbs decoded so far (least significant first);  cap(): number of limbs the target can hold;
//   spare(): the storage behind lv() that push_limb will use;  fin(): the content of the underlying storage when the target is dropped
pub trait DecodeByLimb {
    spec fn lv(&self) -> Seq<Limb>;
    spec fn cap(&self) -> nat;
    spec fn spare(&self) -> Seq<Limb>;
    spec fn wf(&self) -> bool;
    #[verifier::prophetic]
    spec fn fin(&self) -> Seq<Limb>;
    proof fn lemma_wf(&self)
        requires self.wf()
        ensures self.lv().len() + self.spare().len() == self.cap();
    fn limbs_mut(&mut self) -> (r: &mut [Limb])
        requires old(self).wf()
        ensures r@ == old(self).lv(), final(self).lv() == final(r)@, final(self).wf(),
            final(self).cap() == old(self).cap(), final(self).spare() == old(self).spare(), final(self).fin() == old(self).fin();
    fn push_limb(&mut self, limb: Limb) -> (r: bool)
        requires old(self).wf()
        ensures final(self).wf(), final(self).cap() == old(self).cap(), final(self).fin() == old(self).fin(),
            r == (old(self).lv().len() < old(self).cap()),
            r ==> final(self).lv() == old(self).lv().push(limb) && final(self).spare() == old(self).spare().drop_first(),
            !r ==> final(self).lv() == old(self).lv() && final(self).spare() == old(self).spare();
}
//@@ item src/uint/encoding.rs | struct SliceDecodeByLimb
pub struct SliceDecodeByLimb<'de> {
    pub limbs: &'de mut [Limb],
    pub len: usize,
}
//@@ end

// ---------------------------------------------------------------- core integer methods without a vstd specification (assumed)
pub assume_specification [u64::ilog] (a: u64, b: u64) -> (r: u32)
    requires a > 0, b >= 2
    ensures pow(b as int, r as nat) <= a < pow(b as int, (r + 1) as nat);
pub assume_specification [u64::pow] (a: u64, e: u32) -> (r: u64)
    requires pow(a as int, e as nat) <= u64::MAX
    ensures r == pow(a as int, e as nat);

// ---------------------------------------------------------------- lemmas: numerals
pub proof fn lemma_pow_succ(r: int, n: nat)
    requires r >= 1
    ensures pow(r, n + 1) == r * pow(r, n), pow(r, n) >= 1, pow(r, 0) == 1
{ reveal(pow); lemma_pow_positive(r, n); lemma_pow0(r); }

pub proof fn lemma_seg_split(s: Seq<u8>, a: int, b: int, c: int, r: int)
    requires a <= b <= c, r >= 1
    ensures seg_val(s, a, c, r) == seg_val(s, a, b, r) * pow(r, seg_cnt(s, b, c)) + seg_val(s, b, c, r),
        seg_cnt(s, a, c) == seg_cnt(s, a, b) + seg_cnt(s, b, c)
    decreases c - b
{
    lemma_pow_succ(r, 0);
    if c > b {
        lemma_seg_split(s, a, b, c - 1, r);
        if s[c - 1] != 0x5f {
            let (x, y, d, n) = (seg_val(s, a, b, r), seg_val(s, b, c - 1, r), digit_val(s[c - 1]), seg_cnt(s, b, c - 1));
            lemma_pow_succ(r, n);
            let p = pow(r, n);
            assert((x * p + y) * r + d == x * (r * p) + (y * r + d)) by (nonlinear_arith);
        }
    } else {
        let x = seg_val(s, a, b, r);
        assert(x * pow(r, 0) == x) by (nonlinear_arith) requires pow(r, 0) == 1;
    }
}

pub proof fn lemma_seg_bound(s: Seq<u8>, a: int, b: int, r: int)
    requires a <= b, r >= 1, seg_ok(s, a, b, r)
    ensures 0 <= seg_val(s, a, b, r) < pow(r, seg_cnt(s, a, b))
    decreases b - a
{
    lemma_pow_succ(r, 0);
    if b > a {
        lemma_seg_bound(s, a, b - 1, r);
        assert(char_ok(s[b - 1], r));
        if s[b - 1] != 0x5f {
            let n = seg_cnt(s, a, b - 1); lemma_pow_succ(r, n);
            let (x, p, d) = (seg_val(s, a, b - 1, r), pow(r, n), digit_val(s[b - 1]));
            assert(0 <= x * r + d < r * p) by (nonlinear_arith) requires 0 <= x < p, 0 <= d < r;
        }
    }
}

/// t[a..b) is s[a+off..b+off)
pub proof fn lemma_seg_shift(s: Seq<u8>, t: Seq<u8>, off: int, a: int, b: int, r: int)
    requires a <= b, forall|k: int| a <= k < b ==> t[k] == s[k + off]
    ensures seg_val(t, a, b, r) == seg_val(s, a + off, b + off, r), seg_cnt(t, a, b) == seg_cnt(s, a + off, b + off),
        seg_ok(t, a, b, r) == seg_ok(s, a + off, b + off, r)
    decreases b - a
{
    if b > a { lemma_seg_shift(s, t, off, a, b - 1, r); }
    if seg_ok(t, a, b, r) { assert forall|k: int| a + off <= k < b + off implies char_ok(#[trigger] s[k], r) by { assert(char_ok(t[k - off], r)); } }
    if seg_ok(s, a + off, b + off, r) { assert forall|k: int| a <= k < b implies char_ok(#[trigger] t[k], r) by { assert(char_ok(s[k + off], r)); } }
}

/// a run of '0' and '_' has value 0
pub proof fn lemma_seg_zeros(s: Seq<u8>, a: int, b: int, r: int)
    requires a <= b, r >= 1, forall|k: int| a <= k < b ==> s[k] == 0x30 || s[k] == 0x5f
    ensures seg_val(s, a, b, r) == 0, seg_ok(s, a, b, r)
    decreases b - a
{ if b > a { lemma_seg_zeros(s, a, b - 1, r); } }

/// the string returned by radix_preprocess_str denotes the same value and is well-formed iff the body is
pub proof fn lemma_strip_val(b: Seq<u8>, d: Seq<u8>, r: int)
    requires stripped(b, d), r >= 1
    ensures seg_val(b, 0, b.len() as int, r) == seg_val(d, 0, d.len() as int, r),
        seg_ok(b, 0, b.len() as int, r) == seg_ok(d, 0, d.len() as int, r)
{
    let off = b.len() - d.len(); let n = b.len() as int;
    lemma_seg_zeros(b, 0, off, r);
    lemma_seg_split(b, 0, off, n, r);
    lemma_seg_shift(b, d, off, 0, d.len() as int, r);
    assert(0 * pow(r, seg_cnt(b, off, n)) == 0);
    if seg_ok(b, off, n, r) { assert forall|k: int| 0 <= k < n implies char_ok(#[trigger] b[k], r) by { } }
}

/// a numeral whose first character is a non-zero digit is at least radix^(number of digits - 1)
pub proof fn lemma_seg_lead(s: Seq<u8>, n: int, r: int)
    requires n >= 1, r >= 1, seg_ok(s, 0, n, r), s[0] != 0x5f, s[0] != 0x30
    ensures seg_cnt(s, 0, n) >= 1, seg_val(s, 0, n, r) >= pow(r, (seg_cnt(s, 0, n) - 1) as nat)
{
    lemma_seg_split(s, 0, 1, n, r);
    assert(seg_ok(s, 1, n, r));
    lemma_seg_bound(s, 1, n, r);
    assert(char_ok(s[0], r));
    assert(seg_val(s, 0, 1, r) == seg_val(s, 0, 0, r) * r + digit_val(s[0]));
    assert(seg_cnt(s, 0, 1) == seg_cnt(s, 0, 0) + 1);
    let (d, p) = (digit_val(s[0]), pow(r, seg_cnt(s, 1, n)));
    assert(seg_val(s, 0, 0, r) == 0 && seg_cnt(s, 0, 0) == 0);
    assert(0 * r == 0);
    assert(seg_val(s, 0, 1, r) == d);
    assert(d >= 1);
    lemma_pow_succ(r, seg_cnt(s, 1, n));
    assert(d * p >= p) by (nonlinear_arith) requires d >= 1, p >= 0;
    assert((seg_cnt(s, 0, n) - 1) as nat == seg_cnt(s, 1, n));
}

/// prefixes of a well-formed digit string have smaller values
pub proof fn lemma_seg_mono(s: Seq<u8>, m: int, n: int, r: int)
    requires 0 <= m <= n, r >= 1, seg_ok(s, 0, n, r)
    ensures seg_val(s, 0, m, r) <= seg_val(s, 0, n, r)
{
    lemma_seg_split(s, 0, m, n, r);
    assert(seg_ok(s, m, n, r)); assert(seg_ok(s, 0, m, r));
    lemma_seg_bound(s, m, n, r); lemma_seg_bound(s, 0, m, r);
    lemma_pow_succ(r, seg_cnt(s, m, n));
    let (x, p) = (seg_val(s, 0, m, r), pow(r, seg_cnt(s, m, n)));
    assert(x * p >= x) by (nonlinear_arith) requires x >= 0, p >= 1;
}

pub proof fn lemma_hv_ext(a: Seq<u8>, b: Seq<u8>, n: nat, r: int)
    requires forall|k: int| 0 <= k < n ==> a[k] == b[k]
    ensures hv(a, n, r) == hv(b, n, r)
    decreases n
{ if n > 0 { lemma_hv_ext(a, b, (n - 1) as nat, r); } }

pub proof fn lemma_lev_ext(a: Seq<u8>, b: Seq<u8>, n: nat, r: int)
    requires forall|k: int| 0 <= k < n ==> a[k] == b[k]
    ensures lev(a, n, r) == lev(b, n, r)
    decreases n
{ if n > 0 { lemma_lev_ext(a, b, (n - 1) as nat, r); } }

pub proof fn lemma_hv_bound(b: Seq<u8>, n: nat, r: int)
    requires r >= 1, forall|k: int| 0 <= k < n ==> (b[k] as int) < r
    ensures 0 <= hv(b, n, r) < pow(r, n)
    decreases n
{
    lemma_pow_succ(r, 0);
    if n > 0 {
        lemma_hv_bound(b, (n - 1) as nat, r); lemma_pow_succ(r, (n - 1) as nat);
        let (x, p, d) = (hv(b, (n - 1) as nat, r), pow(r, (n - 1) as nat), b[n - 1] as int);
        assert(0 <= x * r + d < r * p) by (nonlinear_arith) requires 0 <= x < p, 0 <= d < r;
    }
}

pub proof fn lemma_lev_bound(b: Seq<u8>, n: nat, r: int)
    requires r >= 1, forall|k: int| 0 <= k < n ==> (b[k] as int) < r
    ensures 0 <= lev(b, n, r) < pow(r, n)
    decreases n
{
    lemma_pow_succ(r, 0);
    if n > 0 {
        lemma_lev_bound(b, (n - 1) as nat, r); lemma_pow_succ(r, (n - 1) as nat);
        let (x, p, d) = (lev(b, (n - 1) as nat, r), pow(r, (n - 1) as nat), b[n - 1] as int);
        assert(0 <= x + d * p < r * p) by (nonlinear_arith) requires 0 <= x < p, 0 <= d < r;
    }
}

pub proof fn lemma_tz8(radix: u8)
    requires radix == 2 || radix == 4 || radix == 16
    ensures u8_trailing_zeros(radix) == (if radix == 2 { 1u32 } else if radix == 4 { 2u32 } else { 4u32 })
{
    axiom_u8_trailing_zeros(radix);
    let t = u8_trailing_zeros(radix) as u8;
    assert(t < 8 && (radix >> t) & 1u8 == 1u8 ==> (radix == 2 ==> t == 1) && (radix == 4 ==> t == 2) && (radix == 16 ==> t == 4)) by (bit_vector);
}

pub proof fn lemma_radix_pow()
    ensures pow(2, 64) == B(), pow(4, 32) == B(), pow(16, 16) == B()
{
    lemma_pow2(64); lemma_pow2(2); lemma_pow2(4); lemma2_to64(); lemma2_to64_rest();
    lemma_pow_multiplies(2, 2, 32); lemma_pow_multiplies(2, 4, 16);
}

/// B^n == (r^ld)^n == r^(ld*n) when r^ld == B
pub proof fn lemma_bp_radix(r: int, ld: nat, n: nat)
    requires pow(r, ld) == B()
    ensures bp(n) == pow(r, ld * n)
{ lemma_pow_multiplies(r, ld, n); }

/// what a decoder run establishes about its result `r` for the input string s: lv = the decoded limbs, cap = capacity of the target.
/// The four conditions are mutually exclusive and exhaustive, so every "=>" below is an "<=>" (lemma_decode_result_exact).
pub open spec fn decode_result(s: Seq<u8>, radix: int, lv: Seq<Limb>, cap: nat, r: Result<(), DecodeError>) -> bool {
    let b = numeral_body(s); let v = seg_val(b, 0, b.len() as int, radix);
    match r {
        Ok(()) => is_numeral(s, radix) && v < bp(cap) && val(lv, lv.len()) == v && lv.len() <= cap,
        Err(DecodeError::Empty) => b.len() == 0,
        Err(DecodeError::InvalidDigit) => b.len() > 0 && !is_numeral(s, radix),
        Err(DecodeError::InputSize) => is_numeral(s, radix) && v >= bp(cap),
        Err(DecodeError::Precision) => false,
    }
}

/// the outcome is determined by the input: Ok <=> numeral that fits; Empty <=> empty body; InvalidDigit <=> non-empty non-numeral;
/// InputSize <=> numeral with value >= B^cap
pub proof fn lemma_decode_result_exact(s: Seq<u8>, radix: int, lv: Seq<Limb>, cap: nat, r: Result<(), DecodeError>)
    requires decode_result(s, radix, lv, cap, r)
    ensures ({ let b = numeral_body(s); let v = seg_val(b, 0, b.len() as int, radix);
        &&& (r is Ok) == (is_numeral(s, radix) && v < bp(cap))
        &&& (r == Err::<(), DecodeError>(DecodeError::Empty)) == (b.len() == 0)
        &&& (r == Err::<(), DecodeError>(DecodeError::InvalidDigit)) == (b.len() > 0 && !is_numeral(s, radix))
        &&& (r == Err::<(), DecodeError>(DecodeError::InputSize)) == (is_numeral(s, radix) && v >= bp(cap))
        &&& r != Err::<(), DecodeError>(DecodeError::Precision) })
{ }

//@@ subst \b(Self|Uint)::(ZERO|ONE|MAX|BITS|LOG2_BITS)\b(?!\() => \1::\2()
//@@ fn src/uint/encoding.rs | impl<'de>SliceDecodeByLimb<'de> | new | body | props C17 C11
impl<'de>SliceDecodeByLimb<'de> {
pub fn new(limbs: &'de mut [Limb]) -> (ret__: Self)
//@+
    ensures ret__.len == 0, ret__.limbs@ == old(limbs)@, final(ret__.limbs)@ == final(limbs)@
//@-
{
        Self { limbs, len: 0 }
    }
}
//@@ end
//@@ fn src/uint/encoding.rs | impl DecodeByLimb for SliceDecodeByLimb<'_> | push_limb | body | props C17 C11
impl DecodeByLimb for SliceDecodeByLimb<'_> {
//@+
    open spec fn lv(&self) -> Seq<Limb> { self.limbs@.subrange(0, self.len as int) }
    open spec fn cap(&self) -> nat { self.limbs@.len() }
    open spec fn spare(&self) -> Seq<Limb> { self.limbs@.subrange(self.len as int, self.limbs@.len() as int) }
    open spec fn wf(&self) -> bool { self.len <= self.limbs@.len() }
    #[verifier::prophetic]
    open spec fn fin(&self) -> Seq<Limb> { final(self.limbs)@ }
    proof fn lemma_wf(&self) { }
    // hand copy of the second method of this impl (src/uint/encoding.rs: `fn limbs_mut(&mut self) -> &mut [Limb] { &mut self.limbs[..self.len] }`):
    // a region emits one `impl` block per method, and a trait impl must be complete. Verified against the trait contract.
    fn limbs_mut(&mut self) -> (r: &mut [Limb])
    {
        &mut self.limbs[..self.len]
    }
//@-
fn push_limb(&mut self, limb: Limb) -> (ret__: bool)
{
        if self.len < self.limbs.len() {
            self.limbs[self.len] = limb;
            self.len += 1;
//@+
            proof {
                assert(final(self).lv() =~= old(self).lv().push(limb));
                assert(final(self).spare() =~= old(self).spare().drop_first());
            }
//@-
            true
        } else {
            false
        }
    }
}
//@@ end
// `<[T]>::strip_prefix` is generic over the unstable trait `core::slice::SlicePattern`; an `assume_specification` for it needs
// `#![feature(slice_pattern)]` in the crate root (not enabled). The single call `src_b.strip_prefix(b"+")` is routed through this
// `external_body` shim (whose body is the original call) by the use-site `subst` below; reported as assumed.
#[verifier::external_body]
pub fn slice_strip_prefix_1<'a>(s: &'a [u8], p: &[u8; 1]) -> (r: Option<&'a [u8]>)
    ensures match r {
        Some(t) => s@.len() > 0 && s@[0] == p@[0] && t@ == s@.subrange(1, s@.len() as int),
        None => s@.len() == 0 || s@[0] != p@[0],
    }
{ s.strip_prefix(p) }

/// what radix_preprocess_str returns for the body b: b without its leading '0' / '_' characters
pub open spec fn stripped(b: Seq<u8>, d: Seq<u8>) -> bool {
    &&& d.len() <= b.len()
    &&& d == b.subrange(b.len() - d.len(), b.len() as int)
    &&& forall|k: int| 0 <= k < b.len() - d.len() ==> b[k] == 0x30 || b[k] == 0x5f
    &&& d.len() > 0 ==> d[0] != 0x30 && d[0] != 0x5f
}

//@@ subst \bsrc_b\.strip_prefix\(b"\+"\) => slice_strip_prefix_1(src_b, b"+")
//@@ fn src/uint/encoding.rs | - | radix_preprocess_str | body | props C17 C11
pub fn radix_preprocess_str(src: &str) -> (ret__: Result<&[u8], DecodeError>)
//@+
    ensures match ret__ {
        Ok(d) => { let b = numeral_body(src.spec_bytes()); b.len() > 0 && b[0] != 0x5f && b[b.len() - 1] != 0x5f && stripped(b, d@) },
        Err(DecodeError::Empty) => numeral_body(src.spec_bytes()).len() == 0,
        Err(DecodeError::InvalidDigit) => { let b = numeral_body(src.spec_bytes()); b.len() > 0 && (b[0] == 0x5f || b[b.len() - 1] == 0x5f) },
        Err(_) => false,
    }
//@-
{
//@+
    proof { reveal_byteslit(b"+"); reveal_byteslit(b"_"); }
//@-
    // Treat the input as ascii bytes
    let src_b = src.as_bytes();
    let mut digits = slice_strip_prefix_1(src_b, b"+").unwrap_or(src_b);
//@+
    let ghost body = numeral_body(src.spec_bytes());
    assert(digits@ =~= body);
    let ghost mut off: int = 0;
//@-
    if digits.is_empty() {
        // Blank string or plain "+" not allowed
        Err(DecodeError::Empty)
    } else if digits.starts_with(b"_") || digits.ends_with(b"_") {
        // Leading or trailing underscore not allowed
        Err(DecodeError::InvalidDigit)
    } else {
        // Strip leading zeroes to simplify parsing
        while digits[0] == b'0' || digits[0] == b'_'
//@+
            invariant_except_break digits@.len() > 0
            invariant 0 <= off <= body.len(), digits@ =~= body.subrange(off, body.len() as int),
                forall|k: int| 0 <= k < off ==> body[k] == 0x30 || body[k] == 0x5f,
            ensures digits@.len() > 0 ==> digits@[0] != 0x30 && digits@[0] != 0x5f
            decreases digits@.len()
//@-
{
            digits = &digits[1..];
//@+
            proof { off = off + 1; }
//@-
            if digits.is_empty() {
                break;
            }
        }
        Ok(digits)
    }
}
//@@ end
/// frame of a decoder run: o = target at entry (nothing decoded yet), c = target now
#[verifier::prophetic]
pub open spec fn dec_frame<D: DecodeByLimb>(o: D, c: D) -> bool {
    &&& c.wf() && c.cap() == o.cap() && c.fin() == o.fin()
    &&& c.lv().len() <= c.cap() && o.spare().len() == o.cap()
    &&& c.spare() =~= o.spare().skip(c.lv().len() as int)
}

/// one step of the radix 2/4/16 limb assembly: shifting in a digit is multiply-add
pub proof fn lemma_shift_or(w: u64, c: u64, shift: u32)
    requires shift == 1 || shift == 2 || shift == 4, c < (1u64 << shift), (w as int) * (1u64 << shift) as int + c < B()
    ensures shift < 64, ((w << shift) | c) as int == (w as int) * (1u64 << shift) as int + c
{
    assert(1u64 << 1u32 == 2 && 1u64 << 2u32 == 4 && 1u64 << 4u32 == 16) by (bit_vector);
    assert(shift == 1u32 && c < 2 && w < 0x8000_0000_0000_0000u64 ==> (w << shift) | c == w * 2 + c) by (bit_vector);
    assert(shift == 2u32 && c < 4 && w < 0x4000_0000_0000_0000u64 ==> (w << shift) | c == w * 4 + c) by (bit_vector);
    assert(shift == 4u32 && c < 16 && w < 0x1000_0000_0000_0000u64 ==> (w << shift) | c == w * 16 + c) by (bit_vector);
}

/// the digit computed by the decoders' `match` for the byte ch
pub open spec fn match_digit(ch: u8, radix: u8) -> u8 { if digit_val(ch) >= 0 { digit_val(ch) as u8 } else { radix } }

// `.iter().copied()` (core::iter::Copied) has no vstd specification and cannot be given one (provided trait method); the two
// digit-buffer loops are rewritten to iterate by reference: `for c in X.iter().copied() { .. (c as Word) .. }` becomes
// `for c in X.iter() { .. (*c as Word) .. }` (same values in the same order).
//@@ subst \.iter\(\)\.copied\(\) => .iter()
//@@ subst \.iter\(\)\.rev\(\)\.copied\(\) => .iter().rev()
//@@ subst \(c as Word\) => (*c as Word)
//@@ fn src/uint/encoding.rs | - | radix_validate_digits | body | props C17 C11
pub fn radix_validate_digits(digits: &[u8], radix: u8) -> (ret__: Result<(), DecodeError>)
//@+
    requires radix >= 1
    ensures match ret__ {
        Ok(()) => seg_ok(digits@, 0, digits@.len() as int, radix as int),
        Err(DecodeError::InvalidDigit) => !seg_ok(digits@, 0, digits@.len() as int, radix as int),
        Err(_) => false,
    }
//@-
{
    let mut i = 0;
    while i < digits.len()
//@+
        invariant i <= digits@.len(), radix >= 1, seg_ok(digits@, 0, i as int, radix as int)
        decreases digits@.len() - i
//@-
{
//@+
        let ghost ch = digits@[i as int];
//@-
        let digit = match digits[i] {
            b @ b'0'..=b'9' => b - b'0',
            b @ b'a'..=b'z' => b + 10 - b'a',
            b @ b'A'..=b'Z' => b + 10 - b'A',
            b'_' => 0,
            _ => radix,
        };
//@+
        assert((digit < radix) == char_ok(ch, radix as int));
//@-
        if digit >= radix {
            return Err(DecodeError::InvalidDigit);
        }
        i += 1;
    }
    Ok(())
}
//@@ end
/// r >= 2 ==> r^n >= 2^n
pub proof fn lemma_pow_base2(r: int, n: nat)
    requires r >= 2
    ensures pow(r, n) >= pow(2, n), pow(2, n) >= 1
    decreases n
{
    lemma_pow_succ(r, 0); lemma_pow_succ(2, 0);
    if n > 0 {
        lemma_pow_base2(r, (n - 1) as nat); lemma_pow_succ(r, (n - 1) as nat); lemma_pow_succ(2, (n - 1) as nat);
        let (a, c) = (pow(r, (n - 1) as nat), pow(2, (n - 1) as nat));
        assert(r * a >= 2 * c) by (nonlinear_arith) requires r >= 2, a >= c, c >= 1;
    }
}

/// the number of base-r digits that fit a limb is between 1 and 63
pub proof fn lemma_limb_digits(r: int, l: nat)
    requires 2 <= r <= 36, pow(r, l) <= u64::MAX < pow(r, l + 1)
    ensures 1 <= l <= 63
{
    lemma_pow1(r);
    if l >= 64 { lemma_pow_base2(r, l); lemma_pow_increases(2, 64, l); lemma_radix_pow(); }
}

//@@ fn src/uint/encoding.rs | - | radix_decode_str_digits | body | props C17 C11
pub fn radix_decode_str_digits<D: DecodeByLimb>(
    src: &str,
    radix: u8,
    out: &mut D,
) -> (ret__: Result<(), DecodeError>)
//@+
    requires 2 <= radix <= 36, old(out).wf(), old(out).lv().len() == 0
    ensures dec_frame(*old(out), *final(out)),
        decode_result(src.spec_bytes(), radix as int, final(out).lv(), old(out).cap(), ret__)
//@-
{
//@+
    proof { out.lemma_wf(); assert(out.spare().skip(0) =~= out.spare()); }
//@-
    let digits = radix_preprocess_str(src)?;
//@+
    let ghost body = numeral_body(src.spec_bytes()); let ghost r = radix as int;
    let ghost dg = digits@; let ghost n = dg.len() as int;
    proof { lemma_strip_val(body, dg, r); }
//@-
    let mut buf = [0u8; Limb::BITS as _];
    let mut limb_digits = Word::MAX.ilog(radix as _) as usize;
//@+
    proof { lemma_limb_digits(r, limb_digits as nat); }
//@-
    let mut limb_max = Limb(Word::pow(radix as _, limb_digits as _));
    let mut digits_pos = 0;
    let mut buf_pos = 0;
    while digits_pos < digits.len()
//@+
        invariant 2 <= radix <= 36, r == radix as int, digits@ == dg, n == dg.len(), n > 0 ==> dg[n - 1] != 0x5f,
            body == numeral_body(src.spec_bytes()), body.len() > 0, body[0] != 0x5f, body[body.len() - 1] != 0x5f, stripped(body, dg),
            seg_val(body, 0, body.len() as int, r) == seg_val(dg, 0, n, r), seg_ok(body, 0, body.len() as int, r) == seg_ok(dg, 0, n, r),
            1 <= limb_digits <= 63, limb_max.0 as int == pow(r, limb_digits as nat),
            0 <= digits_pos <= n, buf_pos == 0,
            dec_frame(*old(out), *out),
            seg_ok(dg, 0, digits_pos as int, r), seg_val(dg, 0, digits_pos as int, r) == val(out.lv(), out.lv().len()),
        decreases n - digits_pos
//@-
{
//@+
        let ghost p0 = digits_pos as int;
        let ghost ld0 = limb_digits as nat;
//@-
        // Parse digits from most significant, to fill buffer limb
        loop
//@+
            invariant_except_break digits_pos < n, buf_pos < limb_digits
            invariant 2 <= radix <= 36, r == radix as int, digits@ == dg, n == dg.len(), n > 0 ==> dg[n - 1] != 0x5f,
                body == numeral_body(src.spec_bytes()), body.len() > 0, stripped(body, dg),
                seg_ok(body, 0, body.len() as int, r) == seg_ok(dg, 0, n, r),
                1 <= limb_digits <= 63, limb_digits == ld0,
                p0 <= digits_pos <= n, buf_pos <= limb_digits,
                dec_frame(*old(out), *out),
                seg_ok(dg, 0, digits_pos as int, r),
                buf_pos == seg_cnt(dg, p0, digits_pos as int), seg_val(dg, p0, digits_pos as int, r) == hv(buf@, buf_pos as nat, r),
                forall|k: int| 0 <= k < buf_pos ==> (buf@[k] as int) < r,
            ensures buf_pos >= 1, digits_pos == n || buf_pos == limb_digits
            decreases n - digits_pos
//@-
{
//@+
            let ghost ch = dg[digits_pos as int];
//@-
            let digit = match digits[digits_pos] {
                b @ b'0'..=b'9' => b - b'0',
                b @ b'a'..=b'z' => b + 10 - b'a',
                b @ b'A'..=b'Z' => b + 10 - b'A',
                b'_' => {
                    digits_pos += 1;
                    continue;
                }
                _ => radix,
            };
//@+
            assert(ch != 0x5f && digit == match_digit(ch, radix));
//@-
            if digit >= radix {
//@+
                assert(!char_ok(ch, r)); assert(!seg_ok(dg, 0, n, r));
//@-
                return Err(DecodeError::InvalidDigit);
            }
//@+
            let ghost buf0 = buf@;
//@-
            buf[buf_pos] = digit;
//@+
            proof { lemma_hv_ext(buf0, buf@, buf_pos as nat, r); }
//@-
            buf_pos += 1;
            digits_pos += 1;
            if digits_pos == digits.len() || buf_pos == limb_digits {
                break;
            }
        }
//@+
        proof { lemma_pow_increases(r as nat, buf_pos as nat, limb_digits as nat); }
//@-
        // On the final loop, there may be fewer digits to process
        if buf_pos < limb_digits {
            limb_digits = buf_pos;
            limb_max = Limb(Word::pow(radix as _, limb_digits as _));
        }
        // Combine the digit bytes into a limb
        let mut carry = Limb::ZERO;
//@+
        proof { lemma_pow_succ(r, 0); }
//@-
        for c in buf[..limb_digits].iter()
//@+
            invariant 2 <= radix <= 36, r == radix as int, 1 <= limb_digits <= 63, limb_digits == buf_pos, pow(r, limb_digits as nat) <= u64::MAX,
                VERUS_ghost_iter.seq().len() == limb_digits, forall|k: int| 0 <= k < limb_digits ==> *VERUS_ghost_iter.seq()[k] == buf@[k],
                forall|k: int| 0 <= k < buf_pos ==> (buf@[k] as int) < r,
                carry.0 as int == hv(buf@, VERUS_ghost_iter.index() as nat, r),
//@-
{
//@+
            proof {
                let i = VERUS_ghost_iter.index() as nat;
                lemma_hv_bound(buf@, i, r); lemma_hv_bound(buf@, i + 1, r);
                lemma_pow_increases(r as nat, i + 1, limb_digits as nat);
            }
//@-
            carry = Limb(carry.0 * (radix as Word) + (*c as Word));
        }
//@+
        let ghost c0 = carry.0 as int;
        let ghost lv0 = out.lv();
        let ghost len = lv0.len();
        let ghost m = limb_max.0 as int;
        let ghost mut news: Seq<Limb> = Seq::empty();
        proof { lemma_bp_succ(0); assert(c0 * bp(0) == c0) by (nonlinear_arith) requires bp(0) == 1; assert(0 * m == 0); }
//@-
        // Multiply the existing limbs by `radix` ^ `limb_digits`,
        // and add the new least-significant limb
        for limb in out.limbs_mut().iter_mut()
//@+
            invariant m == limb_max.0 as int, VERUS_ghost_iter.seq().len() == len, len == lv0.len(),
                forall|k: int| 0 <= k < len ==> *VERUS_ghost_iter.seq()[k] == lv0[k],
                news.len() == VERUS_ghost_iter.index(),
                forall|k: int| 0 <= k < VERUS_ghost_iter.index() ==> *final(VERUS_ghost_iter.seq()[k]) == news[k],
                val(news, VERUS_ghost_iter.index() as nat) + carry.0 as int * bp(VERUS_ghost_iter.index() as nat) == val(lv0, VERUS_ghost_iter.index() as nat) * m + c0,
//@-
{
//@+
            let ghost i = VERUS_ghost_iter.index() as nat;
            let ghost cy0 = carry.0 as int;
            let ghost news0 = news;
            assert(limb.0 == lv0[i as int].0);
//@-
            let (__t0, __t1) = Limb::ZERO.mac(*limb, limb_max, carry); *limb = __t0; carry = __t1;
//@+
            proof {
                news = news.push(*limb);
                lemma_val_ext(news0, news, i); lemma_val_step(news, i); lemma_val_step(lv0, i); lemma_bp_succ(i);
                let (t0, t1, x, pb, a) = (limb.0 as int, carry.0 as int, lv0[i as int].0 as int, bp(i), val(lv0, i));
                assert((a + x * pb) * m == a * m + (x * m) * pb) by (nonlinear_arith);
                assert(t0 * pb + t1 * (B() * pb) == (x * m + cy0) * pb) by (nonlinear_arith) requires t0 + t1 * B() == x * m + cy0;
                assert((x * m + cy0) * pb == (x * m) * pb + cy0 * pb) by (nonlinear_arith);
            }
//@-
        }
//@+
        assert(out.lv() =~= news);
        let ghost lv1 = out.lv();
        let ghost cy = carry.0 as int;
        let ghost pv = seg_val(dg, 0, digits_pos as int, r);
        proof {
            lemma_seg_split(dg, 0, p0, digits_pos as int, r);
            assert(pv == val(lv1, len) + cy * bp(len));
            lemma_val_bound(lv1, len);
        }
//@-
        // Append the new carried limb, if any
        if carry.0 != 0 && !out.push_limb(carry) {
            // a malformed numeral is reported as such even when it is also too long
//@+
            proof {
                let sub = dg.subrange(digits_pos as int, n);
                lemma_seg_shift(dg, sub, digits_pos as int, 0, n - digits_pos, r);
                if seg_ok(dg, digits_pos as int, n, r) { assert(seg_ok(dg, 0, n, r)); } else { assert(!seg_ok(dg, 0, n, r)); }
            }
//@-
            radix_validate_digits(&digits[digits_pos..], radix)?;
//@+
            proof {
                assert(seg_ok(dg, 0, n, r));
                assert(is_numeral(src.spec_bytes(), r));
                if is_numeral(src.spec_bytes(), r) {
                    lemma_seg_mono(dg, digits_pos as int, n, r);
                    let pb = bp(len);
                    assert(cy * pb >= pb) by (nonlinear_arith) requires cy >= 1, pb >= 0;
                }
            }
//@-
            return Err(DecodeError::InputSize);
        }
//@+
        proof {
            if cy != 0 {
                lemma_val_ext(lv1, out.lv(), len); lemma_val_step(out.lv(), len);
                out.lemma_wf();
                assert(old(out).spare().skip(len as int).drop_first() =~= old(out).spare().skip(len as int + 1));
                assert(out.lv().len() == len + 1);
                assert(val(out.lv(), len + 1) == pv);
            } else {
                assert(cy * bp(len) == 0) by (nonlinear_arith) requires cy == 0;
                assert(out.lv() == lv1);
            }
        }
//@-
        buf_pos = 0;
        buf[..limb_digits].fill(0);
    }
//@+
    proof {
        let len = out.lv().len();
        lemma_val_bound(out.lv(), len); lemma_bp_succ(0);
        if len < out.cap() { lemma_pow_increases(B() as nat, len, out.cap()); }
    }
//@-
    Ok(())
}
//@@ end
//@@ fn src/uint/encoding.rs | - | radix_decode_str_aligned_digits | body | props C17 C11
pub fn radix_decode_str_aligned_digits<D: DecodeByLimb>(
    src: &str,
    radix: u8,
    out: &mut D,
) -> (ret__: Result<(), DecodeError>)
//@+
    requires radix == 2 || radix == 4 || radix == 16, old(out).wf(), old(out).lv().len() == 0
    ensures dec_frame(*old(out), *final(out)),
        decode_result(src.spec_bytes(), radix as int, final(out).lv(), old(out).cap(), ret__)
//@-
{
//@+
    proof { out.lemma_wf(); assert(out.spare().skip(0) =~= out.spare()); }
//@-
    debug_assert!(radix == 2 || radix == 4 || radix == 16);
    let digits = radix_preprocess_str(src)?;
//@+
    let ghost body = numeral_body(src.spec_bytes()); let ghost r = radix as int;
    let ghost dg = digits@; let ghost n = dg.len() as int;
    proof { lemma_strip_val(body, dg, r); lemma_tz8(radix); lemma_radix_pow(); }
//@-
    let shift = radix.trailing_zeros();
    let limb_digits = (Limb::BITS / shift) as usize;
//@+
    let ghost ld = limb_digits as nat;
    assert(shift == (if radix == 2 { 1u32 } else if radix == 4 { 2u32 } else { 4u32 }));
    assert(Limb::BITS == 64);
    assert(shift == 1 ==> Limb::BITS / shift == 64) by (nonlinear_arith) requires Limb::BITS == 64;
    assert(shift == 2 ==> Limb::BITS / shift == 32) by (nonlinear_arith) requires Limb::BITS == 64;
    assert(shift == 4 ==> Limb::BITS / shift == 16) by (nonlinear_arith) requires Limb::BITS == 64;
    assert(ld == (if radix == 2 { 64nat } else if radix == 4 { 32nat } else { 16nat }));
    assert(pow(r, ld) == B());
    assert(1u64 << 1u32 == 2 && 1u64 << 2u32 == 4 && 1u64 << 4u32 == 16) by (bit_vector);
//@-
    let mut buf = [0u8; Limb::BITS as _];
    let mut buf_pos = 0;
    let mut digits_pos = digits.len();
    while digits_pos > 0
//@+
        invariant radix == 2 || radix == 4 || radix == 16, r == radix as int, shift == (if radix == 2 { 1u32 } else if radix == 4 { 2u32 } else { 4u32 }),
            (1u64 << shift) == radix as u64, limb_digits == ld, 1 <= ld <= 64, pow(r, ld) == B(),
            digits@ == dg, n == dg.len(), 0 <= digits_pos <= n, buf_pos == 0,
            body == numeral_body(src.spec_bytes()), body.len() > 0, body[0] != 0x5f, body[body.len() - 1] != 0x5f, stripped(body, dg),
            seg_val(body, 0, body.len() as int, r) == seg_val(dg, 0, n, r), seg_ok(body, 0, body.len() as int, r) == seg_ok(dg, 0, n, r),
            dec_frame(*old(out), *out),
            seg_ok(dg, digits_pos as int, n, r), seg_val(dg, digits_pos as int, n, r) == val(out.lv(), out.lv().len()),
            digits_pos > 0 ==> seg_cnt(dg, digits_pos as int, n) == ld * out.lv().len(),
        decreases digits_pos
//@-
{
//@+
        let ghost p0 = digits_pos as int;
//@-
        // Parse digits from the least significant, to fill the buffer limb
        loop
//@+
            invariant_except_break 0 < digits_pos, buf_pos < ld
            invariant radix == 2 || radix == 4 || radix == 16, r == radix as int, limb_digits == ld, 1 <= ld <= 64,
                digits@ == dg, n == dg.len(), 0 <= digits_pos <= p0 <= n, buf_pos <= ld,
                body == numeral_body(src.spec_bytes()), body.len() > 0, stripped(body, dg),
                seg_ok(body, 0, body.len() as int, r) == seg_ok(dg, 0, n, r),
                dec_frame(*old(out), *out),
                buf_pos == seg_cnt(dg, digits_pos as int, p0), seg_val(dg, digits_pos as int, p0, r) == lev(buf@, buf_pos as nat, r),
                forall|k: int| 0 <= k < buf_pos ==> (buf@[k] as int) < r,
                seg_ok(dg, digits_pos as int, n, r),
            ensures buf_pos >= 1, digits_pos == 0 || buf_pos == ld
            decreases digits_pos
//@-
{
            digits_pos -= 1;
//@+
            let ghost ch = dg[digits_pos as int];
            proof { lemma_seg_split(dg, digits_pos as int, digits_pos + 1, p0, r); assert(seg_val(dg, digits_pos as int, digits_pos as int, r) == 0); assert(seg_cnt(dg, digits_pos as int, digits_pos as int) == 0); assert(0 * r == 0); }
//@-
            let digit = match digits[digits_pos] {
                b @ b'0'..=b'9' => b - b'0',
                b @ b'a'..=b'z' => b + 10 - b'a',
                b @ b'A'..=b'Z' => b + 10 - b'A',
                b'_' => {
                    // cannot occur when c == 0
//@+
                    assert(digits_pos > 0);
                    assert(0 * pow(r, seg_cnt(dg, digits_pos + 1, p0)) == 0);
//@-
                    continue;
                }
                _ => radix,
            };
//@+
            assert(ch != 0x5f && digit == match_digit(ch, radix));
//@-
            if digit >= radix {
//@+
                assert(!char_ok(ch, r)); assert(!seg_ok(dg, 0, n, r));
//@-
                return Err(DecodeError::InvalidDigit);
            }
//@+
            let ghost buf0 = buf@;
//@-
            buf[buf_pos] = digit;
//@+
            proof { lemma_lev_ext(buf0, buf@, buf_pos as nat, r); }
//@-
            buf_pos += 1;
            if digits_pos == 0 || buf_pos == limb_digits {
                break;
            }
        }
        if buf_pos > 0 {
            // Combine the digit bytes into a limb
            let mut w: Word = 0;
//@+
            proof { lemma_lev_bound(buf@, buf_pos as nat, r); lemma_pow_succ(r, 0); lemma_pow_increases(r as nat, buf_pos as nat, ld); }
//@-
            for c in buf[..buf_pos].iter().rev()
//@+
                invariant radix == 2 || radix == 4 || radix == 16, r == radix as int, shift == (if radix == 2 { 1u32 } else if radix == 4 { 2u32 } else { 4u32 }),
                    (1u64 << shift) == radix as u64, 1 <= buf_pos <= 64,
                    VERUS_ghost_iter.seq().len() == buf_pos, forall|k: int| 0 <= k < buf_pos ==> *VERUS_ghost_iter.seq()[k] == buf@[buf_pos - 1 - k],
                    forall|k: int| 0 <= k < buf_pos ==> (buf@[k] as int) < r,
                    lev(buf@, buf_pos as nat, r) < B(),
                    lev(buf@, buf_pos as nat, r) == lev(buf@, (buf_pos - VERUS_ghost_iter.index()) as nat, r) + pow(r, (buf_pos - VERUS_ghost_iter.index()) as nat) * w,
//@-
{
//@+
                proof {
                    let m = (buf_pos - VERUS_ghost_iter.index()) as nat;     // digits still to be shifted in, m >= 1; c == buf[m - 1]
                    lemma_pow_succ(r, (m - 1) as nat);
                    let (p, lo, cc, ww) = (pow(r, (m - 1) as nat), lev(buf@, (m - 1) as nat, r), *c as int, w as int);
                    lemma_lev_bound(buf@, (m - 1) as nat, r);
                    assert(lev(buf@, m, r) == lo + cc * p);
                    assert((r * p) * ww == p * (ww * r)) by (nonlinear_arith);
                    assert(p * (ww * r) + cc * p == p * (ww * r + cc)) by (nonlinear_arith);
                    assert(ww * r + cc < B()) by (nonlinear_arith) requires lo + p * (ww * r + cc) < B(), p >= 1, lo >= 0, ww * r + cc >= 0;
                    lemma_shift_or(w, *c as u64, shift);
                }
//@-
                w = (w << shift) | (*c as Word);
            }
//@+
            proof { lemma_pow_succ(r, 0); assert(pow(r, 0) * (w as int) == w as int) by (nonlinear_arith) requires pow(r, 0) == 1; assert(w as int == lev(buf@, buf_pos as nat, r)); }
            let ghost lv0 = out.lv();
//@-
            // Append the new most-significant limb
            if !out.push_limb(Limb(w)) {
                // a malformed numeral is reported as such even when it is also too long
//@+
                proof {
                    let sub = dg.subrange(0, digits_pos as int);
                    lemma_seg_shift(dg, sub, 0, 0, digits_pos as int, r);
                    if seg_ok(dg, 0, digits_pos as int, r) { assert(seg_ok(dg, 0, n, r)); } else { assert(!seg_ok(dg, 0, n, r)); }
                }
//@-
                radix_validate_digits(&digits[..digits_pos], radix)?;
//@+
                proof {
                    assert(seg_ok(dg, 0, n, r));
                    assert(is_numeral(src.spec_bytes(), r));
                    // more digits than the target holds, and the leading digit is not zero
                    if is_numeral(src.spec_bytes(), r) {
                        lemma_seg_split(dg, 0, digits_pos as int, n, r); lemma_seg_split(dg, digits_pos as int, p0, n, r);
                        lemma_seg_lead(dg, n, r);
                        lemma_bp_radix(r, ld, lv0.len());
                        lemma_pow_increases(r as nat, ld * lv0.len(), (seg_cnt(dg, 0, n) - 1) as nat);
                    }
                }
//@-
                return Err(DecodeError::InputSize);
            }
//@+
            proof {
                let len = lv0.len();
                lemma_seg_split(dg, digits_pos as int, p0, n, r);
                lemma_bp_radix(r, ld, len);
                lemma_val_ext(lv0, out.lv(), len); lemma_val_step(out.lv(), len);
                out.lemma_wf();
                assert(old(out).spare().skip(len as int).drop_first() =~= old(out).spare().skip(len as int + 1));
                assert(ld * (len + 1) == ld * len + ld) by (nonlinear_arith);
            }
//@-
            buf_pos = 0;
            buf[..limb_digits].fill(0);
        }
    }
//@+
    proof {
        let len = out.lv().len();
        lemma_val_bound(out.lv(), len); lemma_bp_succ(0);
        if len < out.cap() { lemma_pow_increases(B() as nat, len, out.cap()); }
    }
//@-
    Ok(())
}
//@@ end
//@@ fn src/uint/encoding.rs | - | radix_decode_str | body | props C17 C11
pub fn radix_decode_str<D: DecodeByLimb>(
    src: &str,
    radix: u32,
    out: &mut D,
) -> (ret__: Result<(), DecodeError>)
//@+
    requires 2 <= radix <= 36, old(out).wf(), old(out).lv().len() == 0
    ensures dec_frame(*old(out), *final(out)),
        decode_result(src.spec_bytes(), radix as int, final(out).lv(), old(out).cap(), ret__)
//@-
{
    if !(RADIX_ENCODING_MIN..=RADIX_ENCODING_MAX).contains(&radix) {
        panic!("unsupported radix");
    }
    if radix == 2 || radix == 4 || radix == 16 {
        radix_decode_str_aligned_digits(src, radix as u8, out)
    } else {
        radix_decode_str_digits(src, radix as u8, out)
    }
}
//@@ end
/// a slice target that started empty over zeroed storage l0 and now holds l with k decoded limbs: the whole storage has the value of the decoded limbs
pub proof fn lemma_slice_dec_val(l0: Seq<Limb>, l: Seq<Limb>, k: nat)
    requires l.len() == l0.len(), k <= l.len(), forall|j: int| 0 <= j < l0.len() ==> l0[j].0 == 0,
        l.subrange(k as int, l.len() as int) =~= l0.skip(k as int)
    ensures val(l, l.len()) == val(l.subrange(0, k as int), k)
{
    let n = l.len();
    assert forall|j: int| k <= j < n implies l[j].0 == 0 by { assert(l[j] == l.subrange(k as int, n as int)[j - k]); }
    lemma_val_hi_zero(l, k, n);
    lemma_val_ext(l, l.subrange(0, k as int), k);
}

//@@ fn src/uint/encoding.rs | impl<const LIMBS:usize>Uint<LIMBS> | from_str_radix_vartime | body | props C17 C11
impl<const LIMBS:usize>Uint<LIMBS> {
pub fn from_str_radix_vartime(src: &str, radix: u32) -> (ret__: Result<Self, DecodeError>)
//@+
    requires 2 <= radix <= 36, LIMBS >= 1
    ensures match ret__ {
            Ok(u) => numeral_val(src.spec_bytes(), radix as int) == Some(u.v() as nat),
            Err(e) => decode_result(src.spec_bytes(), radix as int, Seq::empty(), LIMBS as nat, Err(e)),
        },
        // exact outcome (B^LIMBS = 2^BITS)
        ({ let s = src.spec_bytes(); let r = radix as int; let b = numeral_body(s); let v = seg_val(b, 0, b.len() as int, r);
           &&& (ret__ is Ok) == (is_numeral(s, r) && v < bp(LIMBS as nat))
           &&& (ret__ matches Err(DecodeError::Empty)) == (b.len() == 0)
           &&& (ret__ matches Err(DecodeError::InvalidDigit)) == (b.len() > 0 && !is_numeral(s, r))
           &&& (ret__ matches Err(DecodeError::InputSize)) == (is_numeral(s, r) && v >= bp(LIMBS as nat))
           &&& !(ret__ matches Err(DecodeError::Precision)) })
//@-
{
        let mut slf = Self::ZERO();
//@+
        proof {
            assert forall|d0: SliceDecodeByLimb, d: SliceDecodeByLimb| #[trigger] dec_frame(d0, d) && d0.len == 0 && (forall|k: int| 0 <= k < d0.limbs@.len() ==> d0.limbs@[k].0 == 0)
                implies val(d.limbs@, d.limbs@.len()) == val(d.lv(), d.lv().len()) && d.limbs@.len() == d0.limbs@.len() by {
                    assert(d0.spare() =~= d0.limbs@);
                    lemma_slice_dec_val(d0.limbs@, d.limbs@, d.lv().len());
                }
        }
//@-
        radix_decode_str(src, radix, &mut SliceDecodeByLimb::new(&mut slf.limbs))?;
        Ok(slf)
    }
}
//@@ end

} // verus!
