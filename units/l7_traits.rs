// L7: trait impls and CtOption-returning forms over the proved inherent functions -- shared vocabulary.
// (the regions live in l7_traits_limb / _uint / _int / _monty / _ops / _divops / _wrap)
//
// This unit holds
// (a) the rest of the model of the external crate `subtle` 2.6.1 that the trait forms need: operators on `Choice`
//     (`& | !`, `ct_ne`), `CtOption::{expect, unwrap, is_none, and_then, map}`, `ConstantTimeEq for u64`,
//     `From<Choice> for bool`, and the ghost trait `CtDefault` (what `<T as Default>::default()` is for the types that
//     `and_then` / `map` are used with) -- ASSUMED, same status as the model in l2_subtle.rs (`external_body`);
// (b) hand-written declarations of the crate traits of /repo/src/traits.rs (`CheckedAdd/Sub/Mul/Div`, `DivVartime`,
//     `AddMod/SubMod/NegMod/MulMod`, `Zero`) and same-named LOCAL stand-ins of the `num_traits` traits the crate
//     implements (`WrappingAdd/Sub/Mul/Neg`): trait declarations are not extracted;
// (c) `uint_of` / `int_of`: spec-level construction of a `Uint` / `Int` from its value (proved), used where an operator
//     result has to be stated as a vstd `*_spec` value;
// (d) the /repo glue that the other l7 units share: `From<ConstCtOption<T>> for CtOption<T>`, `ConstantTimeEq for Limb`,
//     `NonZero::new` (generic over `T: Zero`), and the `Zero` instances for Limb / Uint (hand-written, verified).
//
// Preconditions of trait methods.  Verus does not allow a `requires` on a method of a trait *impl*. The inherent
// functions that the impls forward to carry `requires LIMBS >= 1` (and similar), so each hand-declared trait has,
// next to every method `m`, two ghost functions `spec fn m_req(..) -> bool` and `spec fn m_ens(.., r) -> bool`, and `m` is
// declared `requires self.m_req(..) ensures self.m_ens(.., r)` (the pattern of vstd's `AddSpecImpl::add_req` for
// `core::ops`). The executable signatures are those of /repo/src/traits.rs; only methods that some region uses are
// declared. An impl states its contract by defining `m_req` / `m_ens` (`open spec fn`) in an annotation block in
// front of the method; the method itself then carries no `requires` / `ensures`. (`m_ens` instead of an `ensures` on the
// impl method because Verus types the result binder of such an `ensures` with `self.m(args)`, which resolves to the
// *inherent* method of the same name and fails to compile when that has a different signature, e.g.
// `Limb::wrapping_add(&self, rhs: Self)` vs `WrappingAdd::wrapping_add(&self, v: &Self)`.) Generic code
// (`Wrapping<T>`, `Checked<T>`, `NonZero::new`) is verified against `T::m_req` / `T::m_ens`.
use vstd::prelude::*;
use vstd::arithmetic::div_mod::*;
use crate::speclib::*;
use crate::l1_choice::*;
use crate::l1_limb::*;
use crate::l2_core::*;
use crate::l2_subtle::*;
use crate::l4_int::*;
verus! {

// ------------------------------------------------------------------------------------------------
// model of subtle 2.6.1, continued (external crate; ASSUMED)
// ------------------------------------------------------------------------------------------------

pub open spec fn choice_and(a: Choice, b: Choice) -> Choice { Choice(a.0 & b.0) }
pub open spec fn choice_or(a: Choice, b: Choice) -> Choice { Choice(a.0 | b.0) }
pub open spec fn choice_not(a: Choice) -> Choice { Choice(1u8 & (!a.0)) }

// subtle: `impl BitAnd for Choice { fn bitand(self, rhs) -> Choice { (self.0 & rhs.0).into() } }`
impl core::ops::BitAnd for Choice {
    type Output = Choice;
    #[verifier::external_body]
    fn bitand(self, rhs: Choice) -> (r: Choice)
    { Choice(self.0 & rhs.0) }
}
impl vstd::std_specs::ops::BitAndSpecImpl<Choice> for Choice {
    open spec fn obeys_bitand_spec() -> bool { true }
    open spec fn bitand_req(self, rhs: Choice) -> bool { true }
    open spec fn bitand_spec(self, rhs: Choice) -> Choice { choice_and(self, rhs) }
}
// subtle: `impl BitOr for Choice { fn bitor(self, rhs) -> Choice { (self.0 | rhs.0).into() } }`
impl core::ops::BitOr for Choice {
    type Output = Choice;
    #[verifier::external_body]
    fn bitor(self, rhs: Choice) -> (r: Choice)
    { Choice(self.0 | rhs.0) }
}
impl vstd::std_specs::ops::BitOrSpecImpl<Choice> for Choice {
    open spec fn obeys_bitor_spec() -> bool { true }
    open spec fn bitor_req(self, rhs: Choice) -> bool { true }
    open spec fn bitor_spec(self, rhs: Choice) -> Choice { choice_or(self, rhs) }
}
// subtle: `impl Not for Choice { fn not(self) -> Choice { (1u8 & (!self.0)).into() } }`
impl core::ops::Not for Choice {
    type Output = Choice;
    #[verifier::external_body]
    fn not(self) -> (r: Choice)
    { Choice(1u8 & (!self.0)) }
}
impl vstd::std_specs::ops::NotSpecImpl for Choice {
    open spec fn obeys_not_spec() -> bool { true }
    open spec fn not_req(self) -> bool { true }
    open spec fn not_spec(self) -> Choice { choice_not(self) }
}

pub proof fn lemma_choice_ops(a: Choice, b: Choice)
    requires a.wf(), b.wf()
    ensures
        choice_and(a, b).wf(), choice_and(a, b).t() == (a.t() && b.t()),
        choice_or(a, b).wf(), choice_or(a, b).t() == (a.t() || b.t()),
        choice_not(a).wf(), choice_not(a).t() == !a.t(),
{
    let x = a.0; let y = b.0;
    assert((x == 0 || x == 1) && (y == 0 || y == 1) ==> ((x & y) == 0 || (x & y) == 1) && ((x & y) == 1) == (x == 1 && y == 1)
        && ((x | y) == 0 || (x | y) == 1) && ((x | y) == 1) == (x == 1 || y == 1)
        && ((1u8 & (!x)) == 0 || (1u8 & (!x)) == 1) && ((1u8 & (!x)) == 1) == (x != 1)) by (bit_vector);
}

impl Choice {
    // subtle: `impl ConstantTimeEq for Choice { fn ct_eq(&self, rhs) -> Choice { !(*self ^ *rhs) } }`, `ct_ne = !ct_eq`
    // (declared as inherent methods: the trait `ConstantTimeEq` of l2_subtle.rs declares `ct_eq` only)
    #[verifier::external_body]
    pub fn ct_ne(&self, other: &Choice) -> (r: Choice)
        ensures self.wf() && other.wf() ==> r.wf() && r.t() == (self.t() != other.t())
    { Choice((self.0 ^ other.0) & 1) }
}

impl<T> CtOption<T> {
    // subtle: `assert_eq!(self.is_some.unwrap_u8(), 1, "{}", msg); self.value`  -- panics unless is_some
    #[verifier::external_body]
    pub fn expect(self, msg: &str) -> (r: T)
        requires self.is_some.t()
        ensures r == self.value
    { self.value }

    // subtle: `assert_eq!(self.is_some.unwrap_u8(), 1); self.value`
    #[verifier::external_body]
    pub fn unwrap(self) -> (r: T)
        requires self.is_some.t()
        ensures r == self.value
    { self.value }

    // subtle: `!self.is_some`
    #[verifier::external_body]
    pub fn is_none(&self) -> (r: Choice)
        ensures r == choice_not(self.is_some)
    { Choice(1u8 & (!self.is_some.0)) }
}

/// Ghost stand-in for `<T as Default>::default()`, which `CtOption::and_then` / `map` pass to the closure when the
/// option is none: `is_default(x)` is what is known about that value. Instances (hand-written from the `Default` impls
/// of /repo: `Int::default() == Int::ZERO`, `Uint::default() == Uint::ZERO`, `NonZero::<T>::default() == NonZero(T::ONE)`;
/// ASSUMED, those impls are not extracted).
pub trait CtDefault: Sized {
    spec fn is_default(x: Self) -> bool;
}
impl<const LIMBS: usize> CtDefault for Uint<LIMBS> {
    open spec fn is_default(x: Self) -> bool { x.v() == 0 }
}
impl<const LIMBS: usize> CtDefault for Int<LIMBS> {
    open spec fn is_default(x: Self) -> bool { x.iv() == 0 }
}
impl<const LIMBS: usize> CtDefault for NonZero<Uint<LIMBS>> {
    open spec fn is_default(x: Self) -> bool { x.0.v() == 1 }
}
impl<const LIMBS: usize> CtDefault for NonZero<Int<LIMBS>> {
    open spec fn is_default(x: Self) -> bool { x.0.iv() == 1 }
}

/// the argument that `and_then` / `map` hand to the closure:
/// `T::conditional_select(&T::default(), &self.value, self.is_some)`
pub open spec fn ct_closure_arg<T: CtDefault>(o: CtOption<T>, x: T) -> bool {
    if o.is_some.t() { x == o.value } else { T::is_default(x) }
}

impl<T: CtDefault> CtOption<T> {
    // subtle: `let mut tmp = f(T::conditional_select(&T::default(), &self.value, self.is_some)); tmp.is_some &= self.is_some; tmp`
    // (bounds `T: Default + ConditionallySelectable` replaced by the ghost bound `CtDefault`). The closure is ALWAYS called.
    #[verifier::external_body]
    pub fn and_then<U, F: FnOnce(T) -> CtOption<U>>(self, f: F) -> (r: CtOption<U>)
        requires self.is_some.wf(), forall|x: T| ct_closure_arg(self, x) ==> call_requires(f, (x,))
        ensures exists|x: T, tmp: CtOption<U>| ct_closure_arg(self, x) && call_ensures(f, (x,), tmp)
            && r.value == tmp.value && r.is_some == choice_and(tmp.is_some, self.is_some)
    { unimplemented!() }

    // subtle: `CtOption::new(f(T::conditional_select(&T::default(), &self.value, self.is_some)), self.is_some)`
    #[verifier::external_body]
    pub fn map<U, F: FnOnce(T) -> U>(self, f: F) -> (r: CtOption<U>)
        requires self.is_some.wf(), forall|x: T| ct_closure_arg(self, x) ==> call_requires(f, (x,))
        ensures exists|x: T| ct_closure_arg(self, x) && call_ensures(f, (x,), r.value),
            r.is_some == self.is_some
    { unimplemented!() }
}

// subtle: `impl ConstantTimeEq for u64` (generated by `generate_integer_equal!`): 1 iff equal
impl ConstantTimeEq for u64 {
    #[verifier::external_body]
    fn ct_eq(&self, other: &u64) -> (r: Choice)
        ensures r.wf(), r.t() == (*self == *other)
    { Choice((*self == *other) as u8) }
}

// subtle: `impl From<Choice> for bool { fn from(source: Choice) -> bool { debug_assert!((source.0 == 0u8) | (source.0 == 1u8)); source.0 != 0 } }`
impl From<Choice> for bool {
    #[verifier::external_body]
    fn from(source: Choice) -> (r: bool)
        ensures r == (source.0 != 0)
    { source.0 != 0 }
}
impl vstd::std_specs::convert::FromSpecImpl<Choice> for bool {
    open spec fn obeys_from_spec() -> bool { true }
    open spec fn from_spec(source: Choice) -> bool { source.0 != 0 }
}

// ------------------------------------------------------------------------------------------------
// crate traits (/repo/src/traits.rs), hand-declared: executable signatures as in /repo, plus `*_req` (see head)
// ------------------------------------------------------------------------------------------------

pub trait CheckedAdd<Rhs = Self>: Sized {
    spec fn checked_add_req(&self, rhs: &Rhs) -> bool;
    spec fn checked_add_ens(&self, rhs: &Rhs, r: CtOption<Self>) -> bool;
    fn checked_add(&self, rhs: &Rhs) -> (r: CtOption<Self>)
        requires self.checked_add_req(rhs)
        ensures self.checked_add_ens(rhs, r);
}
pub trait CheckedSub<Rhs = Self>: Sized {
    spec fn checked_sub_req(&self, rhs: &Rhs) -> bool;
    spec fn checked_sub_ens(&self, rhs: &Rhs, r: CtOption<Self>) -> bool;
    fn checked_sub(&self, rhs: &Rhs) -> (r: CtOption<Self>)
        requires self.checked_sub_req(rhs)
        ensures self.checked_sub_ens(rhs, r);
}
pub trait CheckedMul<Rhs = Self>: Sized {
    spec fn checked_mul_req(&self, rhs: &Rhs) -> bool;
    spec fn checked_mul_ens(&self, rhs: &Rhs, r: CtOption<Self>) -> bool;
    fn checked_mul(&self, rhs: &Rhs) -> (r: CtOption<Self>)
        requires self.checked_mul_req(rhs)
        ensures self.checked_mul_ens(rhs, r);
}
pub trait CheckedDiv<Rhs = Self>: Sized {
    spec fn checked_div_req(&self, rhs: &Rhs) -> bool;
    spec fn checked_div_ens(&self, rhs: &Rhs, r: CtOption<Self>) -> bool;
    fn checked_div(&self, rhs: &Rhs) -> (r: CtOption<Self>)
        requires self.checked_div_req(rhs)
        ensures self.checked_div_ens(rhs, r);
}
pub trait DivVartime: Sized {
    spec fn div_vartime_req(&self, rhs: &NonZero<Self>) -> bool;
    spec fn div_vartime_ens(&self, rhs: &NonZero<Self>, r: Self) -> bool;
    fn div_vartime(&self, rhs: &NonZero<Self>) -> (r: Self)
        requires self.div_vartime_req(rhs)
        ensures self.div_vartime_ens(rhs, r);
}
pub trait AddMod<Rhs = Self> {
    type Output;
    spec fn add_mod_req(&self, rhs: &Rhs, p: &Self) -> bool;
    spec fn add_mod_ens(&self, rhs: &Rhs, p: &Self, r: Self::Output) -> bool;
    fn add_mod(&self, rhs: &Rhs, p: &Self) -> (r: Self::Output)
        requires self.add_mod_req(rhs, p)
        ensures self.add_mod_ens(rhs, p, r);
}
pub trait SubMod<Rhs = Self> {
    type Output;
    spec fn sub_mod_req(&self, rhs: &Rhs, p: &Self) -> bool;
    spec fn sub_mod_ens(&self, rhs: &Rhs, p: &Self, r: Self::Output) -> bool;
    fn sub_mod(&self, rhs: &Rhs, p: &Self) -> (r: Self::Output)
        requires self.sub_mod_req(rhs, p)
        ensures self.sub_mod_ens(rhs, p, r);
}
pub trait NegMod {
    type Output;
    spec fn neg_mod_req(&self, p: &Self) -> bool;
    spec fn neg_mod_ens(&self, p: &Self, r: Self::Output) -> bool;
    fn neg_mod(&self, p: &Self) -> (r: Self::Output)
        requires self.neg_mod_req(p)
        ensures self.neg_mod_ens(p, r);
}
pub trait MulMod<Rhs = Self> {
    type Output;
    spec fn mul_mod_req(&self, rhs: &Rhs, p: &Self) -> bool;
    spec fn mul_mod_ens(&self, rhs: &Rhs, p: &Self, r: Self::Output) -> bool;
    fn mul_mod(&self, rhs: &Rhs, p: &Self) -> (r: Self::Output)
        requires self.mul_mod_req(rhs, p)
        ensures self.mul_mod_ens(rhs, p, r);
}

/// `Zero` of /repo/src/traits.rs: only `is_zero` is declared here (`zero`, `set_zero`, `zero_like` are not used by any
/// region). In /repo `is_zero` is a provided method (`self.ct_eq(&Self::zero())`) and every `ConstZero + ConstantTimeEq`
/// type gets `Zero` through a blanket impl; here the trait carries the specification of `is_zero` (so that generic code
/// such as `NonZero::new` can be verified) and the three instances used (Limb, Uint, Int) are written out below with the
/// body of the provided method, each verified against that specification.
pub trait Zero: ConstantTimeEq + Sized {
    spec fn is_zero_req(&self) -> bool;
    spec fn is_zero_spec(&self) -> bool;
    fn is_zero(&self) -> (r: Choice)
        requires self.is_zero_req()
        ensures r.wf(), r.t() == self.is_zero_spec();
}

// ------------------------------------------------------------------------------------------------
// num_traits 0.2 traits that the crate implements: same-named LOCAL stand-ins (num_traits is an external crate;
// its supertrait bounds `Add<Self, Output = Self>` etc. are dropped)
// ------------------------------------------------------------------------------------------------
pub trait WrappingAdd: Sized {
    spec fn wrapping_add_req(&self, v: &Self) -> bool;
    spec fn wrapping_add_ens(&self, v: &Self, r: Self) -> bool;
    fn wrapping_add(&self, v: &Self) -> (r: Self)
        requires self.wrapping_add_req(v)
        ensures self.wrapping_add_ens(v, r);
}
pub trait WrappingSub: Sized {
    spec fn wrapping_sub_req(&self, v: &Self) -> bool;
    spec fn wrapping_sub_ens(&self, v: &Self, r: Self) -> bool;
    fn wrapping_sub(&self, v: &Self) -> (r: Self)
        requires self.wrapping_sub_req(v)
        ensures self.wrapping_sub_ens(v, r);
}
pub trait WrappingMul: Sized {
    spec fn wrapping_mul_req(&self, v: &Self) -> bool;
    spec fn wrapping_mul_ens(&self, v: &Self, r: Self) -> bool;
    fn wrapping_mul(&self, v: &Self) -> (r: Self)
        requires self.wrapping_mul_req(v)
        ensures self.wrapping_mul_ens(v, r);
}
pub trait WrappingNeg: Sized {
    spec fn wrapping_neg_req(&self) -> bool;
    spec fn wrapping_neg_ens(&self, r: Self) -> bool;
    fn wrapping_neg(&self) -> (r: Self)
        requires self.wrapping_neg_req()
        ensures self.wrapping_neg_ens(r);
}

// ------------------------------------------------------------------------------------------------
// spec-level construction of a `Uint` / `Int` from its value (used to state vstd-level operator results `*_spec` where an
// `ensures` cannot be attached to the impl method)
// ------------------------------------------------------------------------------------------------

/// the array whose first k limbs are the base-2^64 digits of x
pub open spec fn digits_arr<const L: usize>(x: int, k: nat) -> [Limb; L]
    decreases k
{
    if k == 0 { arbitrary() }
    else { vstd::array::spec_array_update(digits_arr::<L>(x, (k - 1) as nat), k - 1, Limb(((x / bp((k - 1) as nat)) % B()) as u64)) }
}
/// the `Uint<L>` with value x (for 0 <= x < B^L)
pub open spec fn uint_of<const L: usize>(x: int) -> Uint<L> { Uint { limbs: digits_arr::<L>(x, L as nat) } }

pub proof fn lemma_digits<const L: usize>(x: int, k: nat)
    requires x >= 0, k <= L
    ensures val(digits_arr::<L>(x, k)@, k) == x % bp(k)
    decreases k
{
    lemma_bp_succ(0);
    if k == 0 {
        assert(x % 1 == 0);
    } else {
        let j = (k - 1) as nat;
        lemma_digits::<L>(x, j);
        lemma_bp_succ(j);
        let prev = digits_arr::<L>(x, j); let cur = digits_arr::<L>(x, k);
        let d = (x / bp(j)) % B();
        lemma_mod_bound(x / bp(j), B());
        assert(cur@ == prev@.update(j as int, Limb(d as u64)));
        lemma_val_ext(prev@, cur@, j);
        assert(cur@[j as int].0 as int == d);
        lemma_mod_breakdown(x, bp(j), B());
        assert(bp(k) == bp(j) * B()) by (nonlinear_arith) requires bp(k) == B() * bp(j);
        assert(d * bp(j) == bp(j) * d) by (nonlinear_arith);
    }
}

pub proof fn lemma_uint_of<const L: usize>(x: int)
    requires 0 <= x < bp(L as nat)
    ensures uint_of::<L>(x).v() == x
{
    lemma_digits::<L>(x, L as nat);
    lemma_small_mod(x as nat, bp(L as nat) as nat);
}

pub proof fn lemma_uint_eq<const L: usize>(a: Uint<L>, b: Uint<L>)
    requires a.v() == b.v()
    ensures a == b
{
    lemma_val_inj(a.limbs@, b.limbs@, L as nat);
    assert(forall|k: int| 0 <= k < L ==> a.limbs@[k] == b.limbs@[k]);
    assert(a.limbs =~= b.limbs);
}

/// the `Int<L>` with two's complement value x (for -W/2 <= x < W/2)
pub open spec fn int_of<const L: usize>(x: int) -> Int<L> { Int(uint_of::<L>(x % bp(L as nat))) }

pub proof fn lemma_int_of<const L: usize>(x: int)
    requires L >= 1, in_range(x, L as nat)
    ensures int_of::<L>(x).iv() == x
{
    lemma_half(L as nat);
    lemma_mod_bound(x, bp(L as nat));
    lemma_uint_of::<L>(x % bp(L as nat));
    lemma_iv_from_mod(x % bp(L as nat), x, L as nat);
}

pub proof fn lemma_int_eq<const L: usize>(a: Int<L>, b: Int<L>)
    requires L >= 1, a.iv() == b.iv()
    ensures a == b
{
    lemma_val_bound(a.0.limbs@, L as nat); lemma_val_bound(b.0.limbs@, L as nat);
    lemma_iv_bounds(a.0.v(), L as nat); lemma_iv_bounds(b.0.v(), L as nat);
    lemma_uint_eq(a.0, b.0);
}

// ------------------------------------------------------------------------------------------------
// /repo glue
// ------------------------------------------------------------------------------------------------

// no vstd-level from_spec is claimed; the behaviour is the `ensures` of the extracted function
impl<T> vstd::std_specs::convert::FromSpecImpl<ConstCtOption<T>> for CtOption<T> {
    open spec fn obeys_from_spec() -> bool { false }
    open spec fn from_spec(c: ConstCtOption<T>) -> CtOption<T> { arbitrary() }
}

//@@ fn src/const_choice.rs | impl<T> From<ConstCtOption<T>> for CtOption<T> | from | body | props C06 C11
impl<T> From<ConstCtOption<T>> for CtOption<T> {
fn from(value: ConstCtOption<T>) -> (ret__: Self)
//@+
    ensures ret__.value == value.value,
        value.is_some.wf() ==> ret__.is_some.wf() && ret__.is_some.t() == value.is_some.t()
//@-
{
        CtOption::new(value.value, value.is_some.into())
    }
}
//@@ end

//@@ fn src/limb/cmp.rs | impl ConstantTimeEq for Limb | ct_eq | body | props C06 C11
impl ConstantTimeEq for Limb {
fn ct_eq(&self, other: &Self) -> (ret__: Choice)
//@+
    ensures ret__.wf(), ret__.t() == (self.0 == other.0)
//@-
{
        self.0.ct_eq(&other.0)
    }
}
//@@ end

// `Zero` instances (hand-written: blanket impl + provided method of /repo/src/traits.rs, see the trait above)
impl Zero for Limb {
    open spec fn is_zero_req(&self) -> bool { true }
    open spec fn is_zero_spec(&self) -> bool { self.0 == 0 }
    fn is_zero(&self) -> (r: Choice)
    { self.ct_eq(&Limb::ZERO) }
}
impl<const LIMBS: usize> Zero for Uint<LIMBS> {
    open spec fn is_zero_req(&self) -> bool { LIMBS >= 1 }
    open spec fn is_zero_spec(&self) -> bool { self.v() == 0 }
    fn is_zero(&self) -> (r: Choice)
    { self.ct_eq(&Uint::ZERO()) }
}

//@@ fn src/non_zero.rs | impl<T> NonZero<T> | new | body | props C06 C11 C12
impl<T> NonZero<T> {
pub fn new(n: T) -> (ret__: CtOption<Self>)
where
        T: Zero,
//@+
    requires n.is_zero_req()
    ensures ret__.value.0 == n, ret__.is_some.wf(), ret__.is_some.t() == !n.is_zero_spec()
//@-
{
        let is_zero = n.is_zero();
//@+
    proof { lemma_choice_ops(is_zero, is_zero); }
//@-
        CtOption::new(Self(n), !is_zero)
    }
}
//@@ end

} // verus!
