// L8: second methods of the crate traits implemented for the boxed Montgomery form (companion of l8_boxed_monty.rs) -- C10 C08 C15
// A region emits one `impl` block per method, so a trait with two methods needs two modules, each with its own hand declaration of the
// trait (the local declaration shadows the glob import of the l8_boxed_monty.rs one): the `*_vartime` inverters and
// `MontyMultiplier::square_assign` live here. Contracts are literally those of the constant-time twins (C15: same results).
use vstd::prelude::*;
use vstd::arithmetic::div_mod::*;
extern crate alloc;
use alloc::sync::Arc;
use crate::speclib::*;
use crate::l0_corespec::*;
use crate::l1_limb::*;
use crate::l2_subtle::*;
use crate::l4_invmod::gcd;
use crate::l5_monty::*;
use crate::l7_traits::*;
use crate::l7_boxed_div::*;
use crate::l8_boxed_methods::*;
use crate::l8_boxed_pow::*;
use crate::l8_boxed_monty::*;
use crate::l8_boxed_safegcd::SG_BOXED_MAX_SAT;
verus! {

// `trait Inverter` (method `invert_vartime`) and its PROVED impl for BoxedSafeGcdInverter: l8_boxed_safegcd_top2.rs
pub use crate::l8_boxed_safegcd_top2::Inverter;
pub trait Invert: Sized {
    type Output;
    spec fn invert_vartime_req(&self) -> bool;
    spec fn invert_vartime_ens(&self, r: Self::Output) -> bool;
    fn invert_vartime(&self) -> (r: Self::Output)
        requires self.invert_vartime_req()
        ensures self.invert_vartime_ens(r);
}
pub trait MontyMultiplier<'a> {
    type Monty;
    spec fn square_assign_req(&self, lhs: &Self::Monty) -> bool;
    spec fn square_assign_ens(&self, lhs: &Self::Monty, s2: &Self, lhs2: &Self::Monty) -> bool;
    fn square_assign(&mut self, lhs: &mut Self::Monty)
        requires old(self).square_assign_req(old(lhs))
        ensures old(self).square_assign_ens(old(lhs), final(self), final(lhs));
}

//@@ fn src/modular/boxed_monty_form/inv.rs | impl Inverter for BoxedMontyFormInverter | invert_vartime | body | props C10 C08 C15 C11
impl Inverter for BoxedMontyFormInverter {
//@+
    type Output = BoxedMontyForm;
    open spec fn invert_vartime_req(&self, value: &BoxedMontyForm) -> bool { self.wf() && value.wf() && same_modulus(&self.params, &value.params) }
    open spec fn invert_vartime_ens(&self, value: &BoxedMontyForm, r: CtOption<BoxedMontyForm>) -> bool { bmf_invert_post(value, r) }
//@-
fn invert_vartime(&self, value: &BoxedMontyForm) -> (ret__: CtOption<Self::Output>)
{
//@+
    let ghost m = value.params.modulus.0.v(); let ghost n = value.params.modulus.0.nl(); let ghost t = value.montgomery_form.v();
    proof {
        lemma_params_rng(&value.params); lemma_bparams_wf_unique(&self.params, &value.params);
        lemma_val_bound(value.montgomery_form.limbs@, n);
        lemma_mod_bound(bp(n) * bp(n), m);
        lemma_mont_repr(t, m, n);
        lemma_small_mod(t as nat, m as nat);
        lemma_gcd_repr(t, value.view(), m, n);
    }
//@-
        debug_assert_eq!(self.params, value.params);
        let montgomery_form = self.inverter.invert_vartime(&value.montgomery_form);
        let is_some = montgomery_form.is_some();
        let montgomery_form2 = value.montgomery_form.clone();
//@+
    proof {
        lemma_sgi_invert_post(&self.inverter, &value.montgomery_form, montgomery_form);
        if is_some.t() {
            lemma_inv_repr(montgomery_form.value.v(), t, value.params.r2.v(), m, n);
        }
    }
//@-
        let ret = BoxedMontyForm {
            montgomery_form: Option::from(montgomery_form).unwrap_or(montgomery_form2),
            params: value.params.clone(),
        };
        CtOption::new(ret, is_some)
    }
}
//@@ end
//@@ fn src/modular/boxed_monty_form/inv.rs | impl BoxedMontyForm | invert_vartime | body | props C10 C08 C15 C11
impl BoxedMontyForm {
pub fn invert_vartime(&self) -> (ret__: CtOption<Self>)
//@+
    // size: the Bernstein-Yang inverter computes its iteration count in u32 (overflow beyond SG_BOXED_MAX_SAT() = 1_369_567 limbs)
    requires self.wf(), self.params.modulus.0.nl() <= SG_BOXED_MAX_SAT()
    ensures bmf_invert_post(self, ret__)
//@-
{
        self.params.precompute_inverter().invert_vartime(self)
    }
}
//@@ end
//@@ fn src/modular/boxed_monty_form/inv.rs | impl Invert for BoxedMontyForm | invert_vartime | body | props C10 C08 C15 C11
impl Invert for BoxedMontyForm {
//@+
    type Output = CtOption<Self>;
    open spec fn invert_vartime_req(&self) -> bool { self.wf() && self.params.modulus.0.nl() <= SG_BOXED_MAX_SAT() }
    open spec fn invert_vartime_ens(&self, r: CtOption<Self>) -> bool { bmf_invert_post(self, r) }
//@-
fn invert_vartime(&self) -> (ret__: Self::Output)
{
        self.invert_vartime()
    }
}
//@@ end
//@@ fn src/modular/boxed_monty_form/mul.rs | impl<'a> MontyMultiplier<'a> for BoxedMontyMultiplier<'a> | square_assign | body | props C08 C11
impl<'a> MontyMultiplier<'a> for BoxedMontyMultiplier<'a> {
//@+
    type Monty = BoxedMontyForm;
    open spec fn square_assign_req(&self, lhs: &BoxedMontyForm) -> bool { lhs.wf() && mm_for(self, &lhs.params) }
    open spec fn square_assign_ens(&self, lhs: &BoxedMontyForm, s2: &Self, lhs2: &BoxedMontyForm) -> bool {
        s2.wf() && s2.same(self) && bmf_is(*lhs2, *lhs, lhs.view() * lhs.view())
    }
//@-
fn square_assign(&mut self, lhs: &mut Self::Monty)
{
//@+
    let ghost a0 = *lhs;
    proof {
        lemma_params_rng(&lhs.params);
        assert forall|r: int| mont_red(r, a0.montgomery_form.v() * a0.montgomery_form.v(), a0.params.modulus.0.v(), bp(a0.params.modulus.0.nl()))
            implies #[trigger] mont_repr(r, a0.params.modulus.0.v(), a0.params.modulus.0.nl()) == (a0.view() * a0.view()) % a0.params.modulus.0.v() by {
            lemma_mont_repr_mul(r, a0.montgomery_form.v(), a0.montgomery_form.v(), a0.params.modulus.0.v(), a0.params.modulus.0.nl());
        }
    }
//@-
        self.square_assign(&mut lhs.montgomery_form);
    }
}
//@@ end

} // verus!
