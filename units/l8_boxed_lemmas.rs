// L8 (lemma library): number-theory lemmas shared by l8_boxed_methods.rs (boxed gcd wrapper) and l8_boxed_invmod.rs (boxed inv_mod):
// powers of two, limb-wise AND with 2^k - 1, the Garner / CRT recombination step for the modulus s * 2^k, gcd(2^k a, 2^k b).
// COPIES (made `pub`) of the private lemmas of l4_invmod.rs, unchanged (lemma_inv2k_init: const generic LIMBS -> ghost n); `gcd` is the pub spec function of l4_invmod.rs.
// No regions: nothing of /repo is mirrored here.
use vstd::prelude::*;
use vstd::arithmetic::power::*;
use vstd::arithmetic::power2::*;
use vstd::arithmetic::div_mod::*;
use vstd::arithmetic::mul::*;
use vstd::std_specs::bits::*;
use vstd::bits::*;
use crate::speclib::*;
use crate::speclib_bits::*;
use crate::l4_invmod::*;
verus! {

pub proof fn lemma_p2_pos(n: nat)
    ensures p2(n) >= 1
{ lemma_pow2_pos(n); }

pub proof fn lemma_p2_succ(n: nat)
    ensures p2(n + 1) == 2 * p2(n), p2(0) == 1
{ lemma_pow2_unfold(n + 1); lemma2_to64(); }

/// 2^a * 2^b == 2^(a+b)
pub proof fn lemma_p2_add(a: nat, b: nat)
    ensures p2(a) * p2(b) == p2(a + b)
{ lemma_pow2_adds(a, b); }

/// for k <= 64 n:  B^n == 2^k * 2^(64n - k)
pub proof fn lemma_bp_split(n: nat, k: nat)
    requires k <= 64 * n
    ensures bp(n) == p2(k) * p2((64 * n - k) as nat), bp(n) % p2(k) == 0, p2(k) <= bp(n)
{
    lemma_bp_pow2(n);
    lemma_p2_add(k, (64 * n - k) as nat);
    let a = p2(k); let c = p2((64 * n - k) as nat);
    lemma_p2_pos(k); lemma_p2_pos((64 * n - k) as nat);
    assert(a * c == c * a + 0) by (nonlinear_arith);
    lemma_fundamental_div_mod_converse(bp(n), a, c, 0);
    assert(a <= a * c) by (nonlinear_arith) requires a >= 1, c >= 1;
}

pub proof fn lemma_p2_mono(a: nat, b: nat)
    requires a <= b
    ensures p2(a) <= p2(b)
{
    if a < b { lemma_pow2_strictly_increases(a, b); }
}

// ---------------------------------------------------------------- inverse mod 2^k: one step of the bit-serial loop

pub proof fn lemma_and_mask(a: Seq<Limb>, m: Seq<Limb>, r: Seq<Limb>, n: nat, k: nat)
    requires k <= 64 * n, val(m, n) == p2(k) - 1,
        forall|j: int| 0 <= j < n ==> r[j].0 == a[j].0 & m[j].0
    ensures val(r, n) == val(a, n) % p2(k)
    decreases n
{
    lemma_p2_pos(k);
    if n == 0 {
        lemma_p2_succ(0);
        lemma_small_mod(0, 1);
    } else {
        let q = (n - 1) as nat;
        let at = a[q as int].0; let mt = m[q as int].0; let rt = r[q as int].0;
        let pq = bp(q);
        lemma_val_bound(a, q); lemma_val_bound(m, q); lemma_val_bound(r, q); lemma_bp_succ(q);
        assert(rt == at & mt);
        if k <= 64 * q {
            lemma_bp_split(q, k);
            assert(mt == 0) by (nonlinear_arith)
                requires val(m, q) + mt as int * pq == p2(k) - 1, p2(k) <= pq, val(m, q) >= 0, mt >= 0;
            assert(at & mt == 0) by (bit_vector) requires mt == 0;
            assert(rt as int * pq == 0 && mt as int * pq == 0) by (nonlinear_arith) requires rt == 0, mt == 0;
            lemma_and_mask(a, m, r, q, k);
            let c = p2((64 * q - k) as nat);
            assert(at as int * pq == p2(k) * (at as int * c)) by (nonlinear_arith) requires pq == p2(k) * c;
            lemma_mod_multiples_vanish(at as int * c, val(a, q), p2(k));
        } else {
            let sh = (k - 64 * q) as nat;
            lemma_bp_pow2(q); lemma_p2_add(sh, 64 * q); lemma_p2_pos(sh);
            let ps = p2(sh);
            assert(p2(k) == ps * pq);
            let dlt = ps - mt as int;
            assert(dlt * pq == val(m, q) + 1) by (nonlinear_arith)
                requires val(m, q) + mt as int * pq == ps * pq - 1, dlt == ps - mt as int;
            assert(dlt == 1) by (nonlinear_arith)
                requires dlt * pq == val(m, q) + 1, 0 <= val(m, q) < pq, pq > 0;
            assert(val(m, q) == pq - 1) by (nonlinear_arith) requires dlt * pq == val(m, q) + 1, dlt == 1;
            // the low limbs of m are all ones
            let mx = Seq::new(q, |j: int| Limb(u64::MAX));
            lemma_val_all_max(mx, q);
            lemma_val_inj(m, mx, q);
            assert forall|j: int| 0 <= j < q implies r[j].0 == a[j].0 by {
                let x = a[j].0; let y = m[j].0;
                assert(y == mx[j].0);
                assert(x & y == x) by (bit_vector) requires y == 0xffff_ffff_ffff_ffffu64;
            }
            lemma_val_eq_iff(r, a, q);
            // top limb: at & (2^sh - 1) == at mod 2^sh
            if sh == 64 {
                lemma_pow2_64();
                assert(at & mt == at) by (bit_vector) requires mt == 0xffff_ffff_ffff_ffffu64;
                lemma_small_mod(at as nat, ps as nat);
            } else {
                let shu = sh as u64;
                lemma_one_shl(shu);
                let one = 1u64 << shu;
                assert(mt == (one - 1) as u64);
                assert(at & mt == at % one) by (bit_vector) requires one == 1u64 << shu, shu < 64, mt == sub(one, 1);
            }
            assert(rt as int == at as int % ps);
            let hi = at as int / ps; let lo = at as int % ps;
            lemma_fundamental_div_mod(at as int, ps); lemma_mod_bound(at as int, ps);
            assert(val(a, n) == (ps * pq) * hi + (val(a, q) + lo * pq)) by (nonlinear_arith)
                requires val(a, n) == val(a, q) + at as int * pq, at as int == ps * hi + lo;
            assert(0 <= val(a, q) + lo * pq < ps * pq) by (nonlinear_arith)
                requires 0 <= val(a, q) < pq, 0 <= lo <= ps - 1;
            lemma_fundamental_div_mod_converse(val(a, n), p2(k), hi, val(a, q) + lo * pq);
        }
    }
}

// ---------------------------------------------------------------- CRT recombination (Garner step) for the modulus s * 2^k
/// s odd and 2^k | s*u   ==>   2^k | u
pub proof fn lemma_odd_cancel(s: int, u: int, k: nat)
    requires s % 2 == 1, (s * u) % p2(k) == 0
    ensures u % p2(k) == 0
    decreases k
{
    if k == 0 { lemma_p2_succ(0); }
    else {
        let k1 = (k - 1) as nat; lemma_p2_succ(k1); lemma_p2_pos(k1);
        let p = p2(k1);
        lemma_fundamental_div_mod(s * u, 2 * p);
        let z = (s * u) / (2 * p);
        let sh = s / 2;
        assert(s == 2 * sh + 1);
        let u2 = p * z - sh * u;
        assert(u == 2 * u2) by (nonlinear_arith) requires s * u == (2 * p) * z, s == 2 * sh + 1, u2 == p * z - sh * u;
        assert(s * u2 == p * z + 0) by (nonlinear_arith) requires s * u == (2 * p) * z, u == 2 * u2;
        lemma_fundamental_div_mod_converse(s * u2, p, z, 0);
        lemma_odd_cancel(s, u2, k1);
        lemma_fundamental_div_mod(u2, p);
        let y = u2 / p;
        assert(u == (2 * p) * y + 0) by (nonlinear_arith) requires u == 2 * u2, u2 == p * y;
        lemma_fundamental_div_mod_converse(u, 2 * p, y, 0);
    }
}

/// res = av + s*((bv - av)*s^-1 mod 2^k) is the inverse of x modulo m = s*2^k, given the inverses av mod s, bv mod 2^k
pub proof fn lemma_garner(x: int, m: int, s: int, k: nat, w: int, av: int, bv: int, sinv: int, tv: int, res: int)
    requires x >= 0, s >= 1, s % 2 == 1, m == s * p2(k), m < w, w % p2(k) == 0, w > 0,
        0 <= av <= s, s >= 2 ==> av < s, (x * av) % s == 1int % s,
        0 <= bv < p2(k), (x * bv) % p2(k) == 1int % p2(k),
        0 <= sinv < p2(k), (s * sinv) % p2(k) == 1int % p2(k),
        tv == ((((bv - av) % w) * sinv) % w) % p2(k),
        res == (av + (s * tv) % w) % w,
    ensures 0 <= res, m >= 2 ==> res < m, (x * res) % m == 1int % m
{
    let pk = p2(k);
    lemma_p2_pos(k);
    let d = (bv - av) % w; let q1 = (bv - av) / w;
    let e = (d * sinv) % w; let q2 = (d * sinv) / w;
    let q3 = e / pk;
    lemma_fundamental_div_mod(bv - av, w); lemma_fundamental_div_mod(d * sinv, w); lemma_fundamental_div_mod(e, pk);
    lemma_mod_bound(e, pk);
    assert(0 <= tv < pk);
    // no wrap-around in res
    assert(0 <= s * tv <= m - s) by (nonlinear_arith) requires 0 <= tv <= pk - 1, s >= 1, m == s * pk;
    lemma_small_mod((s * tv) as nat, w as nat);
    lemma_small_mod((av + s * tv) as nat, w as nat);
    assert(res == av + s * tv);
    // modulo s
    assert(x * res == s * (x * tv) + x * av) by (nonlinear_arith) requires res == av + s * tv;
    lemma_mod_multiples_vanish(x * tv, x * av, s);
    assert((x * res) % s == 1int % s);
    // modulo 2^k
    if k == 0 {
        lemma_p2_succ(0);
        assert(pk == 1);
        assert((x * res) % pk == 1int % pk);
    } else {
        lemma_p2_succ((k - 1) as nat); lemma_p2_pos((k - 1) as nat);
        lemma_small_mod(1, pk as nat);
        lemma_fundamental_div_mod(w, pk);
        let c = w / pk;
        lemma_fundamental_div_mod(s * sinv, pk);
        let q4 = (s * sinv) / pk;
        assert(s * sinv == pk * q4 + 1);
        assert(w * q1 == pk * (c * q1) && w * q2 == pk * (c * q2)) by (nonlinear_arith) requires w == pk * c;
        assert(d * sinv == (bv - av) * sinv - pk * (c * q1 * sinv)) by (nonlinear_arith)
            requires bv - av == w * q1 + d, w * q1 == pk * (c * q1);
        let z1 = c * q1 * sinv + c * q2 + q3;
        assert(tv == (bv - av) * sinv - pk * z1) by (nonlinear_arith)
            requires e == pk * q3 + tv, d * sinv == w * q2 + e, w * q2 == pk * (c * q2),
                d * sinv == (bv - av) * sinv - pk * (c * q1 * sinv), z1 == c * q1 * sinv + c * q2 + q3;
        assert(s * tv == (bv - av) * (s * sinv) - pk * (s * z1)) by (nonlinear_arith)
            requires tv == (bv - av) * sinv - pk * z1;
        assert((bv - av) * (s * sinv) == (bv - av) + pk * ((bv - av) * q4)) by (nonlinear_arith)
            requires s * sinv == pk * q4 + 1;
        let zz = (bv - av) * q4 - s * z1;
        assert(res == bv + pk * zz) by (nonlinear_arith)
            requires res == av + s * tv, s * tv == (bv - av) * (s * sinv) - pk * (s * z1),
                (bv - av) * (s * sinv) == (bv - av) + pk * ((bv - av) * q4), zz == (bv - av) * q4 - s * z1;
        assert(x * res == pk * (x * zz) + x * bv) by (nonlinear_arith) requires res == bv + pk * zz;
        lemma_mod_multiples_vanish(x * zz, x * bv, pk);
        assert((x * res) % pk == 1int % pk);
    }
    // combine: s | D, 2^k | D, s odd  ==>  s*2^k | D
    let dd = x * res - 1;
    lemma_mod_equivalence(x * res, 1, s);
    lemma_mod_equivalence(x * res, 1, pk);
    assert(dd % s == 0 && dd % pk == 0);
    lemma_fundamental_div_mod(dd, s);
    let u = dd / s;
    assert(dd == s * u);
    lemma_odd_cancel(s, u, k);
    lemma_fundamental_div_mod(u, pk);
    let y = u / pk;
    assert(m >= 1) by (nonlinear_arith) requires m == s * pk, s >= 1, pk >= 1;
    assert(dd == m * y + 0) by (nonlinear_arith) requires dd == s * u, u == pk * y, m == s * pk;
    lemma_fundamental_div_mod_converse(dd, m, y, 0);
    lemma_mod_equivalence(x * res, 1, m);
    // range
    if m >= 2 {
        if s == 1 {
            assert(m == pk) by (nonlinear_arith) requires m == s * pk, s == 1;
            if res == m {
                lemma_mod_multiples_basic(x, pk);
                assert(x * res == x * pk);
                lemma_small_mod(1, pk as nat);
                assert(false);
            }
        }
    }
}


/// gcd(x, s*2^k) == 1  ==>  both residue inverses exist: gcd(x, s) == 1 and (k == 0 or x odd)
pub proof fn lemma_inv_mod_decide(x: int, m: int, s: int, k: nat)
    requires x >= 0, s >= 1, m == s * p2(k), gcd(x as nat, m as nat) == 1
    ensures gcd(x as nat, s as nat) == 1, k == 0 || x % 2 == 1
{
    lemma_p2_pos(k);
    let pk = p2(k);
    assert(m >= 1) by (nonlinear_arith) requires m == s * pk, s >= 1, pk >= 1;
    assert(m == s * pk + 0);
    lemma_fundamental_div_mod_converse(m, s, pk, 0);
    lemma_coprime_divisor(x as nat, m as nat, s as nat);
    if k != 0 {
        lemma_p2_succ((k - 1) as nat);
        let h = p2((k - 1) as nat);
        assert(m == 2 * (s * h) + 0) by (nonlinear_arith) requires m == s * pk, pk == 2 * h;
        lemma_fundamental_div_mod_converse(m, 2, s * h, 0);
        lemma_coprime_even(x as nat, m as nat);
    }
}

/// common power of two: a = 2^k*s1, b = 2^k*s2, both < w   ==>   (gcd(s1, s2) * 2^k) mod w == gcd(a, b), either argument order
pub proof fn lemma_gcd_pow2_split(a: int, b: int, k: nat, s1: int, s2: int, w: int)
    requires a >= 0, b >= 0, a > 0 || b > 0, a < w, b < w, a % p2(k) == 0, b % p2(k) == 0, s1 == a / p2(k), s2 == b / p2(k)
    ensures s1 >= 0, s2 >= 0,
        (gcd(s1 as nat, s2 as nat) * p2(k)) % w == gcd(a as nat, b as nat),
        (gcd(s2 as nat, s1 as nat) * p2(k)) % w == gcd(a as nat, b as nat),
{
    let pk = p2(k);
    lemma_p2_pos(k);
    lemma_fundamental_div_mod(a, pk); lemma_fundamental_div_mod(b, pk);
    assert(s1 >= 0) by (nonlinear_arith) requires a == pk * s1, a >= 0, pk >= 1;
    assert(s2 >= 0) by (nonlinear_arith) requires b == pk * s2, b >= 0, pk >= 1;
    lemma_gcd_scale(s1 as nat, s2 as nat, pk as nat);
    lemma_gcd_sym(s1 as nat, s2 as nat);
    assert((pk as nat) * (s1 as nat) == a as nat && (pk as nat) * (s2 as nat) == b as nat);
    let g = gcd(a as nat, b as nat) as int;
    if a > 0 { lemma_gcd_le(a as nat, b as nat); }
    else { lemma_gcd_sym(a as nat, b as nat); lemma_gcd_le(b as nat, a as nat); }
    lemma_small_mod(g as nat, w as nat);
    assert(gcd(s1 as nat, s2 as nat) * pk == g) by (nonlinear_arith)
        requires g == (pk as nat) * gcd(s1 as nat, s2 as nat), pk >= 1;
}

/// x divisible by 2^k1 and k <= k1  ==>  x divisible by 2^k
pub proof fn lemma_p2_divides_mono(x: int, k: nat, k1: nat)
    requires k <= k1, x % p2(k1) == 0
    ensures x % p2(k) == 0
{
    lemma_p2_add(k, (k1 - k) as nat); lemma_p2_pos(k); lemma_p2_pos(k1);
    lemma_fundamental_div_mod(x, p2(k1));
    let z = x / p2(k1); let c = p2((k1 - k) as nat);
    assert(x == p2(k) * (c * z) + 0) by (nonlinear_arith) requires x == p2(k1) * z, p2(k1) == p2(k) * c;
    lemma_fundamental_div_mod_converse(x, p2(k), c * z, 0);
}

/// invariant a*x + b*2^i == 1 (mod w) is preserved by   x_i = b mod 2,  b' = (b - a*x_i mod w) / 2,  x' = x + x_i*2^i
pub proof fn lemma_inv2k_step(a: int, x: int, b: int, i: nat, w: int, xi: int, c: int, b2: int, x2: int)
    requires a % 2 == 1, a >= 0, w > 1, w % 2 == 0,
        0 <= x < p2(i), 0 <= b < w,
        (a * x + b * p2(i)) % w == 1,
        xi == b % 2,
        c == (if xi == 1 { (b - a) % w } else { b }),
        b2 == c / 2,
        x2 == x + xi * p2(i),
    ensures 0 <= x2 < p2(i + 1), 0 <= b2 < w, (a * x2 + b2 * p2(i + 1)) % w == 1
{
    lemma_p2_succ(i); lemma_p2_pos(i);
    let p = p2(i);
    if xi == 0 {
        assert(b == 2 * b2);
        assert(b2 * (2 * p) == b * p) by (nonlinear_arith) requires b == 2 * b2;
        assert(x2 == x) by (nonlinear_arith) requires x2 == x + xi * p, xi == 0;
    } else {
        assert(xi == 1);
        lemma_fundamental_div_mod(b - a, w);
        lemma_mod_bound(b - a, w);
        let q = (b - a) / w;
        let wh = w / 2;
        assert(w == 2 * wh);
        // c = (b - a) - q*w is even
        assert(q * w == 2 * (q * wh)) by (nonlinear_arith) requires w == 2 * wh;
        assert(c == 2 * (b / 2 - a / 2 - q * wh)) by (nonlinear_arith)
            requires b - a == w * q + c, q * w == 2 * (q * wh), b == 2 * (b / 2) + 1, a == 2 * (a / 2) + 1;
        assert(c % 2 == 0);
        assert(c == 2 * b2);
        assert(x2 == x + p) by (nonlinear_arith) requires x2 == x + xi * p, xi == 1;
        assert(a * x2 + b2 * (2 * p) == (-(q * p)) * w + (a * x + b * p)) by (nonlinear_arith)
            requires x2 == x + p, c == 2 * b2, b - a == w * q + c;
        lemma_mod_multiples_vanish(-(q * p), a * x + b * p, w);
    }
}

/// at i == k the invariant gives the inverse modulo 2^k
pub proof fn lemma_inv2k_final(a: int, x: int, b: int, k: nat, w: int)
    requires w > 1, w % p2(k) == 0, (a * x + b * p2(k)) % w == 1
    ensures (a * x) % p2(k) == 1int % p2(k)
{
    let p = p2(k);
    lemma_p2_pos(k);
    lemma_fundamental_div_mod(a * x + b * p, w);
    let q = (a * x + b * p) / w;
    lemma_fundamental_div_mod(w, p);
    let t = w / p;
    assert(a * x == p * (q * t - b) + 1) by (nonlinear_arith)
        requires a * x + b * p == w * q + 1, w == p * t;
    lemma_mod_multiples_vanish(q * t - b, 1, p);
    assert(p * (q * t - b) + 1 == 1 + (q * t - b) * p) by (nonlinear_arith);
}


/// initial state of the bit-serial inversion: x = 0, b = 1
pub proof fn lemma_inv2k_init(n: nat, a: int)
    requires n >= 1
    ensures bp(n) > 1, bp(n) % 2 == 0, (a * 0 + 1 * p2(0)) % bp(n) == 1, p2(0) == 1
{
    lemma_bp_succ((n - 1) as nat); lemma_p2_succ(0);
    let w = bp(n); let r = bp((n - 1) as nat);
    assert(w == 2 * (0x8000_0000_0000_0000 * r)) by (nonlinear_arith) requires w == B() * r;
    assert(w >= B()) by (nonlinear_arith) requires w == B() * r, r >= 1;
    assert(a * 0 + 1 * 1 == 1) by (nonlinear_arith);
    lemma_small_mod(1, w as nat);
}

/// set_bit on a bit that is known to be clear (x < 2^i): the result is x + c*2^i < 2^(i+1)
pub proof fn lemma_set_bit_fresh(x: int, i: nat, c: int, r: int)
    requires 0 <= x < p2(i), c == 0 || c == 1,
        r == x - ((x / p2(i)) % 2) * p2(i) + (if c == 1 { 1int } else { 0int }) * p2(i)
    ensures r == x + c * p2(i), 0 <= r < p2(i + 1), c == 0 ==> r == x
{
    lemma_p2_succ(i); lemma_p2_pos(i);
    lemma_basic_div(x, p2(i));
    let p = p2(i);
    assert(((x / p) % 2) * p == 0) by (nonlinear_arith) requires x / p == 0;
    assert(c * p == (if c == 1 { p } else { 0 })) by (nonlinear_arith) requires c == 0 || c == 1;
    assert((if c == 1 { 1int } else { 0int }) * p == c * p) by (nonlinear_arith) requires c == 0 || c == 1;
}

// ---------------------------------------------------------------- limb-wise OR with a single disjoint bit

// ------------------------------------------------------------------------------------------------
// single-bit writes (BoxedUint::set_bit / set_bit_vartime, l8_boxed_invmod.rs). COPIES of the private lemmas lemma_bit_of_sum,
// lemma_val_update, lemma_word_set_bit, lemma_set_bit_value of l2_shift.rs (lemma_val_bit re-derived from the pub lemma_val_mod).
// ------------------------------------------------------------------------------------------------
/// bit e+r of  l + (a + h*2^64) * 2^e  is bit r of a   (0 <= l < 2^e, r < 64)
pub proof fn lemma_bit_of_sum(l: int, a: int, h: int, e: nat, r: nat)
    requires 0 <= l < p2(e), a >= 0, h >= 0, r < 64
    ensures ((l + (a + h * B()) * p2(e)) / p2(e + r)) % 2 == (a / p2(r)) % 2
{
    let pe = p2(e); let pr = p2(r);
    let w = a + h * B();
    let v = l + w * pe;
    lemma_pow2_pos(e); lemma_pow2_pos(r); lemma_pow2_adds(e, r);
    assert(w >= 0) by (nonlinear_arith) requires a >= 0, h >= 0, w == a + h * B(), B() > 0;
    assert(w * pe >= 0) by (nonlinear_arith) requires w >= 0, pe > 0;
    lemma_div_denominator(v, pe, pr);
    lemma_fundamental_div_mod_converse(v, pe, w, l);
    assert(v / pe == w);
    let k = p2((64 - r) as nat);
    lemma_pow2_adds(r, (64 - r) as nat); lemma_pow2_64();
    assert(pr * k == B());
    let q = a / pr; let m = a % pr;
    lemma_fundamental_div_mod(a, pr); lemma_mod_bound(a, pr);
    assert(w == (q + h * k) * pr + m) by (nonlinear_arith) requires w == a + h * B(), a == pr * q + m, pr * k == B();
    lemma_fundamental_div_mod_converse(w, pr, q + h * k, m);
    assert(w / pr == q + h * k);
    let k2 = p2((63 - r) as nat);
    lemma_pow2_adds(1, (63 - r) as nat); lemma2_to64();
    assert(k == 2 * k2);
    assert(q + h * k == 2 * (h * k2) + q) by (nonlinear_arith) requires k == 2 * k2;
    lemma_mod_multiples_vanish(h * k2, q, 2);
    assert(v / p2(e + r) == (v / pe) / pr);
}

/// bit 64j+r of val(s, n) is bit r of limb j
pub proof fn lemma_val_bit(s: Seq<Limb>, n: nat, j: nat, r: nat)
    requires j < n, r < 64
    ensures (val(s, n) / p2(64 * j + r)) % 2 == (s[j as int].0 as int / p2(r)) % 2
{
    let v = val(s, n); let p1 = bp(j + 1); let p = bp(j); let a = s[j as int].0 as int;
    lemma_val_mod(s, j + 1, n);
    lemma_bp_succ(j); lemma_bp_succ(j + 1);
    lemma_fundamental_div_mod(v, p1);
    let h = v / p1;
    lemma_val_bound(s, n);
    lemma_div_pos_is_pos(v, p1);
    assert(val(s, j + 1) == val(s, j) + a * p);
    assert(p1 * h == (h * B()) * p) by (nonlinear_arith) requires p1 == B() * p;
    assert((a + h * B()) * p == a * p + (h * B()) * p) by (nonlinear_arith);
    lemma_val_bound(s, j); lemma_bp_pow2(j);
    lemma_bit_of_sum(val(s, j), a, h, 64 * j, r);
}

/// t differs from s only at limb j
pub proof fn lemma_val_update(s: Seq<Limb>, t: Seq<Limb>, j: nat, n: nat)
    requires j < n, forall|k: int| 0 <= k < n && k != j ==> s[k] == t[k]
    ensures val(t, n) - val(s, n) == (t[j as int].0 as int - s[j as int].0 as int) * bp(j)
    decreases n
{
    if n == j + 1 {
        lemma_val_ext(s, t, j);
        let a = s[j as int].0 as int; let b = t[j as int].0 as int; let p = bp(j);
        assert((b - a) * p == b * p - a * p) by (nonlinear_arith);
    } else {
        lemma_val_update(s, t, j, (n - 1) as nat);
        assert(s[n - 1] == t[n - 1]);
    }
}

/// clearing / setting bit r of a word, at the integer level
pub proof fn lemma_word_set_bit(x: u64, r: u32)
    requires r < 64
    ensures (1u64 << r) as int == p2(r as nat),
        (x & !(1u64 << r)) as int == x as int - (if (x as int / p2(r as nat)) % 2 == 1 { p2(r as nat) } else { 0 }),
        (x | (1u64 << r)) as int == x as int + (if (x as int / p2(r as nat)) % 2 == 1 { 0 } else { p2(r as nat) }),
{
    let m = 1u64 << r; let y = x >> r;
    lemma_one_shl(r as u64);
    assert(1u64 << r == 1u64 << (r as u64)) by (bit_vector) requires r < 64;
    lemma_u64_shr_div(x, r);
    assert(y % 2 == 1 ==> (x & !m) == x - m && (x | m) == x) by (bit_vector) requires y == x >> r, m == 1u64 << r, r < 64;
    assert(y % 2 != 1 ==> (x & !m) == x && (x | m) == x + m) by (bit_vector) requires y == x >> r, m == 1u64 << r, r < 64;
}

/// value-level effect of replacing limb j (bit r cleared, then set to c)
pub proof fn lemma_set_bit_value(s: Seq<Limb>, t: Seq<Limb>, n: nat, j: nat, r: nat, c: int)
    requires j < n, r < 64, c == 0 || c == 1, forall|k: int| 0 <= k < n && k != j ==> s[k] == t[k],
        t[j as int].0 as int == s[j as int].0 as int
            - (if (s[j as int].0 as int / p2(r)) % 2 == 1 { p2(r) } else { 0 }) + (if c == 1 { p2(r) } else { 0 })
    ensures val(t, n) == val(s, n) - ((val(s, n) / p2(64 * j + r)) % 2) * p2(64 * j + r) + c * p2(64 * j + r)
{
    let a = s[j as int].0 as int; let b = t[j as int].0 as int; let pr = p2(r); let p = bp(j); let pi = p2(64 * j + r);
    let bit = (a / pr) % 2;
    lemma_val_update(s, t, j, n);
    lemma_val_bit(s, n, j, r);
    lemma_bp_pow2(j); lemma_pow2_adds(64 * j, r);
    assert(pi == p * pr);
    assert(bit == 0 || bit == 1);
    assert(b - a == (c - bit) * pr) by (nonlinear_arith)
        requires bit == 0 || bit == 1, c == 0 || c == 1, b - a == (if c == 1 { pr } else { 0 }) - (if bit == 1 { pr } else { 0 });
    assert((b - a) * p == c * pi - bit * pi) by (nonlinear_arith) requires b - a == (c - bit) * pr, pi == p * pr;
}

// ------------------------------------------------------------------------------------------------
// shifts (BoxedUint::shl_vartime_into / shr_vartime_into / overflowing_shl_assign / overflowing_shr_assign, l8_boxed_methods.rs).
// COPIES (made `pub`, unchanged) of private lemmas: lemma_or_is_add, lemma_shl_limbs, lemma_shr_limbs of l7_boxed_div.rs;
// lemma_shift_up, lemma_shift_down, lemma_shl_limbs_mod, lemma_shl_finish, lemma_shl_rem0, lemma_shr_limbs_div, lemma_shl_compose,
// lemma_shr_compose, lemma_one_shl32, lemma_ladder_step of l2_shift.rs.
// ------------------------------------------------------------------------------------------------

/// `(a << l) | (b >> (64-l))` has disjoint bit ranges, so the OR is a sum
pub proof fn lemma_or_is_add(a: u64, b: u64, l: u32)
    requires 0 < l < 64
    ensures ((a << l) | (b >> ((64 - l) as u32))) as int == (a << l) as int + (b >> ((64 - l) as u32)) as int
{
    let r = (64 - l) as u32;
    let x = a << l; let y = b >> r;
    assert(x & y == 0) by (bit_vector) requires 0 < l < 64, r == (64 - l) as u32, x == a << l, y == b >> r;
    assert((x | y) as int == x as int + y as int) by (bit_vector) requires x & y == 0;
}

/// t = s shifted left by l bits inside n limbs; the bits shifted out of the top limb are the carry
pub proof fn lemma_shl_limbs(s: Seq<Limb>, t: Seq<Limb>, n: nat, l: u32)
    requires 0 < l < 64, n >= 1, t[0].0 == s[0].0 << l,
        forall|j: int| 1 <= j < n ==> t[j].0 == (s[j].0 << l) | (s[j - 1].0 >> ((64 - l) as u32)),
    ensures val(t, n) + (s[n - 1].0 >> ((64 - l) as u32)) as int * bp(n) == val(s, n) * p2(l as nat),
    decreases n
{
    let r = (64 - l) as u32;
    let ps = p2(l as nat);
    lemma_bp1();
    if n == 1 {
        lemma_limb_shl_split(s[0].0, l);
        assert(val(t, 1) == val(t, 0) + t[0].0 as int * bp(0));
        assert(val(s, 1) == val(s, 0) + s[0].0 as int * bp(0));
        assert(val(t, 0) == 0 && val(s, 0) == 0);
    } else {
        let m = (n - 1) as nat;
        lemma_shl_limbs(s, t, m, l);
        lemma_limb_shl_split(s[m as int].0, l);
        lemma_or_is_add(s[m as int].0, s[m - 1].0, l);
        lemma_bp_succ(m);
        let lo = (s[m as int].0 << l) as int; let hi = (s[m as int].0 >> r) as int; let hp = (s[m - 1].0 >> r) as int;
        let pm = bp(m); let sm = s[m as int].0 as int; let tm = t[m as int].0 as int;
        assert(tm == lo + hp);
        assert(val(t, n) == val(t, m) + tm * pm);
        assert(val(s, n) == val(s, m) + sm * pm);
        assert(tm * pm + hi * (B() * pm) == hp * pm + (sm * ps) * pm) by (nonlinear_arith)
            requires tm == lo + hp, lo + hi * B() == sm * ps;
        assert((val(s, m) + sm * pm) * ps == val(s, m) * ps + (sm * ps) * pm) by (nonlinear_arith);
    }
}

/// t[j] = (s[j] >> r) | (s[j+1] << (64-r)) for j < m: prefix relation
pub proof fn lemma_shr_limbs(s: Seq<Limb>, t: Seq<Limb>, m: nat, r: u32)
    requires 0 < r < 64,
        forall|j: int| 0 <= j < m ==> t[j].0 == (s[j].0 >> r) | (s[j + 1].0 << ((64 - r) as u32)),
    ensures p2(r as nat) * val(t, m) + p2(r as nat) * (s[m as int].0 >> r) as int * bp(m)
            + (s[0].0 as int - p2(r as nat) * (s[0].0 >> r) as int) == val(s, m + 1),
    decreases m
{
    let l = (64 - r) as u32;
    let pr = p2(r as nat);
    lemma_bp1();
    if m == 0 {
        assert(val(s, 1) == val(s, 0) + s[0].0 as int * bp(0));
        assert(val(s, 0) == 0 && val(t, 0) == 0);
        let h0 = (s[0].0 >> r) as int;
        assert(pr * 0 + pr * h0 * 1 + (s[0].0 as int - pr * h0) == s[0].0 as int) by (nonlinear_arith);
    } else {
        let k = (m - 1) as nat;
        lemma_shr_limbs(s, t, k, r);
        let a = s[k as int].0; let b = s[m as int].0;
        lemma_or_is_add(b, a, l);
        assert((b << l) | (a >> r) == (a >> r) | (b << l)) by (bit_vector);
        lemma_limb_shl_split(b, l);
        lemma_pow2_adds(r as nat, l as nat);
        lemma_pow2_64();
        lemma_bp_succ(k);
        let pl = p2(l as nat);
        let ha = (a >> r) as int; let hb = (b >> r) as int; let lb = (b << l) as int;
        let tk = t[k as int].0 as int; let pk = bp(k); let bi = b as int;
        assert(tk == ha + lb);
        assert(pr * pl == B());
        assert(lb + hb * B() == bi * pl);
        // pr * tk == pr*ha + B*(b - pr*hb)
        assert(pr * tk == pr * ha + B() * (bi - pr * hb)) by (nonlinear_arith)
            requires tk == ha + lb, lb + hb * B() == bi * pl, pr * pl == B();
        assert(val(t, m) == val(t, k) + tk * pk);
        assert(val(s, m + 1) == val(s, m) + bi * bp(m));
        assert(pr * (val(t, k) + tk * pk) + pr * hb * (B() * pk) == pr * val(t, k) + pr * ha * pk + bi * (B() * pk)) by (nonlinear_arith)
            requires pr * tk == pr * ha + B() * (bi - pr * hb);
    }
}

/// t = s moved up by d limbs (low d limbs zero): val(t, d + m) == val(s, m) * B^d
pub proof fn lemma_shift_up(s: Seq<Limb>, t: Seq<Limb>, d: nat, m: nat)
    requires forall|j: int| 0 <= j < d ==> t[j].0 == 0, forall|j: int| 0 <= j < m ==> t[j + d] == s[j],
    ensures val(t, d + m) == val(s, m) * bp(d),
    decreases m
{
    if m > 0 {
        lemma_shift_up(s, t, d, (m - 1) as nat);
        lemma_bp_add((m - 1) as nat, d);
        assert(t[m - 1 + d] == s[m - 1]);
        let a = s[m - 1].0 as int;
        assert((val(s, (m - 1) as nat) + a * bp((m - 1) as nat)) * bp(d) == val(s, (m - 1) as nat) * bp(d) + a * (bp((m - 1) as nat) * bp(d))) by (nonlinear_arith);
        assert((d + m - 1) as nat == ((m - 1) + d) as nat);
    } else { lemma_val_zero(t, d); assert(0 * bp(d) == 0); }
}

/// t = s moved down by d limbs: val(s, d + m) == val(s, d) + val(t, m) * B^d
pub proof fn lemma_shift_down(s: Seq<Limb>, t: Seq<Limb>, d: nat, m: nat)
    requires forall|j: int| 0 <= j < m ==> t[j] == s[j + d],
    ensures val(s, d + m) == val(s, d) + val(t, m) * bp(d),
    decreases m
{
    if m > 0 {
        lemma_shift_down(s, t, d, (m - 1) as nat);
        lemma_bp_add((m - 1) as nat, d);
        assert(t[m - 1] == s[m - 1 + d]);
        let a = t[m - 1].0 as int;
        assert((val(t, (m - 1) as nat) + a * bp((m - 1) as nat)) * bp(d) == val(t, (m - 1) as nat) * bp(d) + a * (bp((m - 1) as nat) * bp(d))) by (nonlinear_arith);
        assert((d + m - 1) as nat == ((m - 1) + d) as nat);
    } else { assert(0 * bp(d) == 0); }
}

/// shifting left by 64*sn + rem modulo B^n only depends on the low n - sn limbs
pub proof fn lemma_shl_limbs_mod(s: Seq<Limb>, n: nat, sn: nat, rem: nat, shift: nat)
    requires sn < n, rem < 64, shift == 64 * sn + rem
    ensures (val(s, n) * p2(shift)) % bp(n) == (val(s, (n - sn) as nat) * bp(sn) * p2(rem)) % bp(n)
{
    let m = (n - sn) as nat;
    lemma_val_mod(s, m, n);
    lemma_bp_succ(m);
    lemma_fundamental_div_mod(val(s, n), bp(m));
    let low = val(s, m); let hq = val(s, n) / bp(m);
    lemma_bp_pow2(sn); lemma_pow2_adds(64 * sn, rem); lemma_pow2_pos(rem);
    lemma_bp_add(m, sn); lemma_bp_succ(n);
    let k = p2(rem);
    assert((m + sn) as nat == n);
    assert(val(s, n) * p2(shift) == low * bp(sn) * k + bp(n) * (hq * k)) by (nonlinear_arith)
        requires val(s, n) == bp(m) * hq + low, p2(shift) == bp(sn) * k, bp(n) == bp(m) * bp(sn);
    lemma_mod_multiples_vanish(hq * k, low * bp(sn) * k, bp(n));
}

/// the final step of a left shift: result limbs + spilled carry == surviving limbs shifted
pub proof fn lemma_shl_finish(s: Seq<Limb>, res: int, c: int, n: nat, sn: nat, rem: nat, shift: nat)
    requires sn < n, rem < 64, shift == 64 * sn + rem, 0 <= res < bp(n),
        res + c * bp(n) == val(s, (n - sn) as nat) * bp(sn) * p2(rem)
    ensures res == (val(s, n) * p2(shift)) % bp(n)
{
    let ww = bp(n);
    assert(ww * c == c * ww) by (nonlinear_arith);
    lemma_fundamental_div_mod_converse(val(s, (n - sn) as nat) * bp(sn) * p2(rem), ww, c, res);
    lemma_shl_limbs_mod(s, n, sn, rem, shift);
}

/// limb-aligned left shift (rem == 0): kept out of the big function context, where the same three steps were flaky
pub proof fn lemma_shl_rem0(s: Seq<Limb>, p1: Seq<Limb>, n: nat, sn: nat, shift: nat)
    requires sn < n, shift == 64 * sn, val(p1, n) == val(s, (n - sn) as nat) * bp(sn)
    ensures val(p1, n) == (val(s, n) * p2(shift)) % bp(n)
{
    let x = val(p1, n);
    lemma_pow2_64(); lemma_val_bound(p1, n);
    assert(p2(0) == 1) by { lemma2_to64(); }
    assert(x + 0 * bp(n) == val(s, (n - sn) as nat) * bp(sn) * p2(0)) by (nonlinear_arith)
        requires x == val(s, (n - sn) as nat) * bp(sn), p2(0) == 1;
    lemma_shl_finish(s, x, 0, n, sn, 0, shift);
}

/// dividing by 2^(64*sn + rem) drops the low sn limbs, then divides by 2^rem
pub proof fn lemma_shr_limbs_div(v: int, lo: int, hi: int, sn: nat, rem: nat, shift: nat)
    requires v == lo + hi * bp(sn), 0 <= lo < bp(sn), hi >= 0, shift == 64 * sn + rem
    ensures v / p2(shift) == hi / p2(rem), rem == 0 ==> v / p2(shift) == hi
{
    lemma_bp_pow2(sn); lemma_pow2_adds(64 * sn, rem); lemma_pow2_pos(rem); lemma_bp_succ(sn);
    assert(bp(sn) * hi == hi * bp(sn)) by (nonlinear_arith);
    lemma_fundamental_div_mod_converse(v, bp(sn), hi, lo);
    assert(v >= 0) by (nonlinear_arith) requires v == lo + hi * bp(sn), lo >= 0, hi >= 0, bp(sn) > 0;
    lemma_div_denominator(v, bp(sn), p2(rem));
    lemma_pow2_64();
    if rem == 0 { assert(hi / 1 == hi); }
}

/// ((x * 2^a) mod w) * 2^b mod w == x * 2^(a+b) mod w
pub proof fn lemma_shl_compose(x: int, a: nat, b: nat, w: int)
    requires w > 0
    ensures (((x * p2(a)) % w) * p2(b)) % w == (x * p2(a + b)) % w
{
    lemma_pow2_adds(a, b);
    lemma_mul_mod_noop_left(x * p2(a), p2(b), w);
    assert((x * p2(a)) * p2(b) == x * (p2(a) * p2(b))) by (nonlinear_arith);
}

/// (x / 2^a) / 2^b == x / 2^(a+b)
pub proof fn lemma_shr_compose(x: int, a: nat, b: nat)
    requires x >= 0
    ensures (x / p2(a)) / p2(b) == x / p2(a + b)
{
    lemma_pow2_adds(a, b); lemma_pow2_pos(a); lemma_pow2_pos(b);
    lemma_div_denominator(x, p2(a), p2(b));
}

pub proof fn lemma_one_shl32(n: u32)
    requires n < 32
    ensures (1u32 << n) as int == p2(n as nat), p2(n as nat) <= 0x8000_0000
{
    lemma_u32_pow2_no_overflow(n as nat);
    lemma_u32_shl_is_mul(1, n);
    lemma2_to64();
    if n < 31 { lemma_pow2_strictly_increases(n as nat, 31); }
}

/// one rung of the constant-time shift ladder: bit i of s extends s mod 2^i to s mod 2^(i+1)
pub proof fn lemma_ladder_step(s: u32, i: u32)
    requires i < 32
    ensures ((s >> i) & 1u32) <= 1, (1u32 << i) as int == p2(i as nat),
        (s as int) % p2((i + 1) as nat) == (s as int) % p2(i as nat) + ((s >> i) & 1u32) as int * p2(i as nat),
{
    lemma_one_shl32(i);
    lemma_u32_shr_is_div(s, i);
    let q = s >> i; let b = q & 1u32;
    assert(b <= 1 && b == q % 2) by (bit_vector) requires b == q & 1u32;
    let pi = p2(i as nat);
    lemma_pow2_pos(i as nat);
    lemma_pow2_adds(i as nat, 1); lemma2_to64();
    lemma_fundamental_div_mod(s as int, pi); lemma_mod_bound(s as int, pi);
    let r = s as int % pi; let q2 = q as int / 2;
    assert(s as int == (2 * pi) * q2 + (b as int * pi + r)) by (nonlinear_arith) requires s as int == pi * (q as int) + r, q as int == 2 * q2 + b as int;
    assert(b as int * pi + r < 2 * pi) by (nonlinear_arith) requires b <= 1, 0 <= r < pi;
    assert(b as int * pi >= 0) by (nonlinear_arith) requires b >= 0, pi > 0;
    lemma_fundamental_div_mod_converse(s as int, 2 * pi, q2, b as int * pi + r);
}

} // verus!
