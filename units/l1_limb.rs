// L1: Limb operations (src/limb/*.rs inherent impls)
use vstd::prelude::*;
use vstd::arithmetic::power2::*;
use vstd::arithmetic::div_mod::*;
use crate::speclib::*;
use crate::l0_prim::*;
use crate::l1_choice::*;
use crate::speclib_bits::*;
use vstd::std_specs::bits::*;
verus! {

//@@ fn src/limb/add.rs | impl Limb | overflowing_add | body | props C04 C11
impl Limb {
pub const fn overflowing_add(self, rhs: Limb) -> (ret__: (Limb, Limb))
//@+
    ensures ret__.0.0 as int + ret__.1.0 as int * B() == self.0 as int + rhs.0 as int, ret__.1.0 <= 1
//@-
{
        let (res, carry) = overflowing_add(self.0, rhs.0);
        (Limb(res), Limb(carry))
    }
}
//@@ end
//@@ fn src/limb/add.rs | impl Limb | adc | body | props C04 C11
impl Limb {
pub const fn adc(self, rhs: Limb, carry: Limb) -> (ret__: (Limb, Limb))
//@+
    ensures ret__.0.0 as int + ret__.1.0 as int * B() == self.0 as int + rhs.0 as int + carry.0 as int, ret__.1.0 <= 2
//@-
{
        let (res, carry) = adc(self.0, rhs.0, carry.0);
        (Limb(res), Limb(carry))
    }
}
//@@ end
//@@ fn src/limb/add.rs | impl Limb | saturating_add | body | props C04 C11
impl Limb {
pub const fn saturating_add(&self, rhs: Self) -> (ret__: Self)
//@+
    ensures ret__.0 as int == min_int(self.0 as int + rhs.0 as int, B() - 1)
//@-
{
        Limb(self.0.saturating_add(rhs.0))
    }
}
//@@ end
//@@ fn src/limb/add.rs | impl Limb | wrapping_add | body | props C04 C11
impl Limb {
pub const fn wrapping_add(&self, rhs: Self) -> (ret__: Self)
//@+
    ensures ret__.0 as int == (self.0 as int + rhs.0 as int) % B()
//@-
{
        Limb(self.0.wrapping_add(rhs.0))
    }
}
//@@ end
//@@ fn src/limb/sub.rs | impl Limb | sbb | body | props C04 C11
impl Limb {
pub const fn sbb(self, rhs: Limb, borrow: Limb) -> (ret__: (Limb, Limb))
//@+
    ensures ret__.1.0 == 0 || ret__.1.0 == u64::MAX,
        ret__.0.0 as int - bb(ret__.1) * B() == self.0 as int - rhs.0 as int - (borrow.0 >> 63) as int,
        (borrow.0 == 0 || borrow.0 == u64::MAX) ==> ret__.0.0 as int - bb(ret__.1) * B() == self.0 as int - rhs.0 as int - bb(borrow)
//@-
{
//@+
    let ghost bw = borrow.0;
    assert((bw == 0 || bw == 0xffff_ffff_ffff_ffffu64) ==> bw >> 63 == (if bw == 0xffff_ffff_ffff_ffffu64 { 1u64 } else { 0u64 })) by (bit_vector);
//@-
        let (res, borrow) = sbb(self.0, rhs.0, borrow.0);
        (Limb(res), Limb(borrow))
    }
}
//@@ end
//@@ fn src/limb/sub.rs | impl Limb | saturating_sub | body | props C04 C11
impl Limb {
pub const fn saturating_sub(&self, rhs: Self) -> (ret__: Self)
//@+
    ensures ret__.0 as int == max_int(self.0 as int - rhs.0 as int, 0)
//@-
{
        Limb(self.0.saturating_sub(rhs.0))
    }
}
//@@ end
//@@ fn src/limb/sub.rs | impl Limb | wrapping_sub | body | props C04 C11
impl Limb {
pub const fn wrapping_sub(&self, rhs: Self) -> (ret__: Self)
//@+
    ensures ret__.0 as int == (self.0 as int - rhs.0 as int) % B()
//@-
{
        Limb(self.0.wrapping_sub(rhs.0))
    }
}
//@@ end
//@@ fn src/limb/mul.rs | impl Limb | mac | body | props C03 C04 C11
impl Limb {
pub const fn mac(self, b: Limb, c: Limb, carry: Limb) -> (ret__: (Limb, Limb))
//@+
    ensures ret__.0.0 as int + ret__.1.0 as int * B() == self.0 as int + b.0 as int * c.0 as int + carry.0 as int
//@-
{
        let (res, carry) = mac(self.0, b.0, c.0, carry.0);
        (Limb(res), Limb(carry))
    }
}
//@@ end
//@@ fn src/limb/mul.rs | impl Limb | saturating_mul | body | props C03 C11
impl Limb {
pub const fn saturating_mul(&self, rhs: Self) -> (ret__: Self)
//@+
    ensures ret__.0 as int == min_int(self.0 as int * rhs.0 as int, B() - 1)
//@-
{
        Limb(self.0.saturating_mul(rhs.0))
    }
}
//@@ end
//@@ fn src/limb/mul.rs | impl Limb | wrapping_mul | body | props C03 C11
impl Limb {
pub const fn wrapping_mul(&self, rhs: Self) -> (ret__: Self)
//@+
    ensures ret__.0 as int == (self.0 as int * rhs.0 as int) % B()
//@-
{
        Limb(self.0.wrapping_mul(rhs.0))
    }
}
//@@ end
//@@ fn src/limb/mul.rs | impl Limb | mul_wide | body | props C03 C11
impl Limb {
pub const fn mul_wide(&self, rhs: Self) -> (ret__: (Self, Self))
//@+
    ensures ret__.0.0 as int + ret__.1.0 as int * B() == self.0 as int * rhs.0 as int
//@-
{
        let (lo, hi) = mul_wide(self.0, rhs.0);
        (Limb(lo), Limb(hi))
    }
}
//@@ end
//@@ fn src/limb/neg.rs | impl Limb | wrapping_neg | body | props C04 C11
impl Limb {
pub const fn wrapping_neg(self) -> (ret__: Self)
//@+
    ensures ret__.0 as int == (B() - self.0 as int) % B()
//@-
{
        Limb(self.0.wrapping_neg())
    }
}
//@@ end
//@@ fn src/limb/shl.rs | impl Limb | shl | body | props C05 C11
impl Limb {
pub const fn shl(self, shift: u32) -> (ret__: Self)
//@+
    requires shift < 64
    ensures ret__.0 as int == (self.0 as int * p2(shift as nat)) % B()
//@-
{
        // explicit check: without overflow checks (release builds) `self.0 << shift` silently masks the shift amount
        assert!(shift < Self::BITS, "`shift` within the bit size of the limb");
//@+
    proof { lemma_u64_shl_mod(self.0, shift); }
//@-
        Limb(self.0 << shift)
    }
}
//@@ end
//@@ fn src/limb/shl.rs | impl Limb | shl1 | body | props C05 C11
impl Limb {
pub const fn shl1(self) -> (ret__: (Self, Self))
//@+
    ensures ret__.0.0 as int + ret__.1.0 as int * B() == 2 * self.0 as int, ret__.1.0 <= 1
//@-
{
//@+
    proof { lemma_limb_shl_split(self.0, 1); lemma2_to64(); }
//@-
        (Self(self.0 << 1), Self(self.0 >> Self::HI_BIT))
    }
}
//@@ end
//@@ fn src/limb/shr.rs | impl Limb | shr | body | props C05 C11
impl Limb {
pub const fn shr(self, shift: u32) -> (ret__: Self)
//@+
    requires shift < 64
    ensures ret__.0 as int == self.0 as int / p2(shift as nat)
//@-
{
        // explicit check: without overflow checks (release builds) `self.0 >> shift` silently masks the shift amount
        assert!(shift < Self::BITS, "`shift` within the bit size of the limb");
//@+
    proof { lemma_u64_shr_div(self.0, shift); }
//@-
        Limb(self.0 >> shift)
    }
}
//@@ end
//@@ fn src/limb/shr.rs | impl Limb | shr1 | body | props C05 C11
impl Limb {
pub const fn shr1(self) -> (ret__: (Self, Self))
//@+
    ensures 2 * ret__.0.0 as int + (ret__.1.0 >> 63) as int == self.0 as int, ret__.1.0 == 0 || ret__.1.0 == 0x8000_0000_0000_0000u64
//@-
{
//@+
    let ghost x = self.0;
    assert(2 * ((x >> 1u32) as int) + (((x << 63u32) >> 63u32) as int) == x as int) by (bit_vector);
    assert((x << 63u32) == 0 || (x << 63u32) == 0x8000_0000_0000_0000u64) by (bit_vector);
//@-
        (Self(self.0 >> 1), Self(self.0 << Self::HI_BIT))
    }
}
//@@ end
//@@ fn src/limb/bits.rs | impl Limb | bits | body | props C05 C11
impl Limb {
pub const fn bits(self) -> (ret__: u32)
//@+
    ensures ret__ <= 64, (ret__ == 0) == (self.0 == 0), (self.0 as int) < p2(ret__ as nat), ret__ > 0 ==> self.0 as int >= p2((ret__ - 1) as nat)
//@-
{
//@+
    proof { lemma_lz64(self.0); }
//@-
        Limb::BITS - self.0.leading_zeros()
    }
}
//@@ end
//@@ fn src/limb/bits.rs | impl Limb | leading_zeros | body | props C05 C11
impl Limb {
pub const fn leading_zeros(self) -> (ret__: u32)
//@+
    ensures ret__ <= 64, (ret__ == 64) == (self.0 == 0), (self.0 as int) < p2((64 - ret__) as nat), ret__ < 64 ==> self.0 as int >= p2((63 - ret__) as nat)
//@-
{
//@+
    proof { lemma_lz64(self.0); }
//@-
        self.0.leading_zeros()
    }
}
//@@ end
//@@ fn src/limb/bits.rs | impl Limb | trailing_zeros | body | props C05 C11
impl Limb {
pub const fn trailing_zeros(self) -> (ret__: u32)
//@+
    ensures ret__ <= 64, (ret__ == 64) == (self.0 == 0), (self.0 as int) % p2(ret__ as nat) == 0, ret__ < 64 ==> (self.0 as int / p2(ret__ as nat)) % 2 == 1
//@-
{
//@+
    proof { lemma_tz64(self.0); }
//@-
        self.0.trailing_zeros()
    }
}
//@@ end
//@@ fn src/limb/bits.rs | impl Limb | trailing_ones | body | props C05 C11
impl Limb {
pub const fn trailing_ones(self) -> (ret__: u32)
//@+
    ensures ret__ <= 64, (ret__ == 64) == (self.0 == u64::MAX), (self.0 as int + 1) % p2(ret__ as nat) == 0, ret__ < 64 ==> (self.0 as int / p2(ret__ as nat)) % 2 == 0
//@-
{
//@+
    proof { lemma_to64(self.0); }
//@-
        self.0.trailing_ones()
    }
}
//@@ end
//@@ fn src/limb/cmp.rs | impl Limb | eq_vartime | body | props C06 C11
impl Limb {
pub const fn eq_vartime(&self, other: &Self) -> (ret__: bool)
//@+
    ensures ret__ == (self.0 == other.0)
//@-
{
        self.0 == other.0
    }
}
//@@ end
//@@ fn src/limb/cmp.rs | impl Limb | select | body | props C06 C11
impl Limb {
pub const fn select(a: Self, b: Self, c: ConstChoice) -> (ret__: Self)
//@+
    requires c.wf()
    ensures ret__ == (if c.t() { b } else { a })
//@-
{
        Self(c.select_word(a.0, b.0))
    }
}
//@@ end
//@@ fn src/limb/cmp.rs | impl Limb | is_nonzero | body | props C06 C11
impl Limb {
pub const fn is_nonzero(&self) -> (ret__: ConstChoice)
//@+
    ensures ret__.wf(), ret__.t() == (self.0 != 0)
//@-
{
        ConstChoice::from_word_nonzero(self.0)
    }
}
//@@ end
//@@ fn src/limb/bit_and.rs | impl Limb | bitand | body | props C05 C11
impl Limb {
pub const fn bitand(self, rhs: Self) -> (ret__: Self)
//@+
    ensures ret__.0 == self.0 & rhs.0
//@-
{
        Limb(self.0 & rhs.0)
    }
}
//@@ end
//@@ fn src/limb/bit_or.rs | impl Limb | bitor | body | props C05 C11
impl Limb {
pub const fn bitor(self, rhs: Self) -> (ret__: Self)
//@+
    ensures ret__.0 == self.0 | rhs.0
//@-
{
        Limb(self.0 | rhs.0)
    }
}
//@@ end
//@@ fn src/limb/bit_xor.rs | impl Limb | bitxor | body | props C05 C11
impl Limb {
pub const fn bitxor(self, rhs: Self) -> (ret__: Self)
//@+
    ensures ret__.0 == self.0 ^ rhs.0
//@-
{
        Limb(self.0 ^ rhs.0)
    }
}
//@@ end
//@@ fn src/limb/bit_not.rs | impl Limb | not | body | props C05 C11
impl Limb {
pub const fn not(self) -> (ret__: Self)
//@+
    ensures ret__.0 == !self.0
//@-
{
        Limb(!self.0)
    }
}
//@@ end

} // verus!
