// L6: linear combination (src/modular/lincomb.rs, monty_form/lincomb.rs, const_monty_form/lincomb.rs) -- C09
use vstd::prelude::*;
use vstd::arithmetic::power::*;
use vstd::arithmetic::power2::*;
use vstd::arithmetic::div_mod::*;
use vstd::arithmetic::mul::*;
use core::marker::PhantomData;
use crate::speclib::*;
use crate::speclib_bits::*;
use crate::l0_prim::*;
use crate::l1_choice::*;
use crate::l1_limb::*;
use crate::l2_core::*;
use crate::l4_modular::*;
use crate::l5_monty::*;
use crate::l6_montyform::*;
use crate::l6_constmonty::*;

macro_rules! impl_longa_monty_lincomb {
    ($a_b:expr, $u:expr, $modulus:expr, $mod_neg_inv:expr, $nlimbs:expr) => {
        longa_lincomb_monty::<$nlimbs>($a_b, &mut $u, &$modulus, $mod_neg_inv)
    };
}

verus! {

//@@ subst \b(Self|Uint)::(ZERO|ONE|MAX|BITS|LOG2_BITS)\b(?!\() => \1::\2()
//@@ subst \bUint::<(\w+)>::(ZERO|ONE|MAX|BITS)\b(?!\() => Uint::<\1>::\2()
//@@ macroblock src/modular/lincomb.rs | impl_longa_monty_lincomb | arm 0 | a_b=a_b,u=u,modulus=modulus,mod_neg_inv=mod_neg_inv,nlimbs=LIMBS | longa_lincomb_monty | body | props C09 C11 | sig pub fn longa_lincomb_monty<const LIMBS: usize>(a_b: &[(&MontyForm<LIMBS>, &MontyForm<LIMBS>)], u: &mut [Limb; LIMBS], modulus: &[Limb; LIMBS], mod_neg_inv: Limb) -> Limb | invocation impl_longa_monty_lincomb!(products, ret.limbs, modulus.0.limbs, mod_neg_inv, LIMBS); | invocation impl_longa_monty_lincomb!(window, buf.limbs, modulus.0.limbs, mod_neg_inv, LIMBS);
pub fn longa_lincomb_monty<const LIMBS: usize>(a_b: &[(&MontyForm<LIMBS>, &MontyForm<LIMBS>)], u: &mut [Limb; LIMBS], modulus: &[Limb; LIMBS], mod_neg_inv: Limb) -> (ret__: Limb)
{
        let len = a_b.len();
        let mut hi_carry = Limb::ZERO;
        let mut hi;
        let mut carry;
        let mut j = 0;
        while j < LIMBS
{
            hi = hi_carry;
            hi_carry = Limb::ZERO;
            let mut i = 0;
            while i < len
{
                let (ai, bi) = &a_b[i];
                carry = Limb::ZERO;
                let mut k = 0;
                while k < LIMBS
{
                    let (__t0, __t1) = u[k].mac( ai.as_montgomery().limbs[j], bi.as_montgomery().limbs[k], carry, ); u[k] = __t0; carry = __t1;
                    k += 1;
                }
                let (__t2, __t3) = hi.adc(carry, Limb::ZERO); hi = __t2; carry = __t3;
                hi_carry = hi_carry.wrapping_add(carry);
                i += 1;
            }
            let q = u[0].wrapping_mul(mod_neg_inv);
            let (_, __t4) = u[0].mac(q, modulus[0], Limb::ZERO); carry = __t4;
            i = 1;
            while i < LIMBS
{
                let (__t5, __t6) = u[i].mac(q, modulus[i], carry); u[i - 1] = __t5; carry = __t6;
                i += 1;
            }
            let (__t7, __t8) = hi.adc(carry, Limb::ZERO); u[LIMBS - 1] = __t7; carry = __t8;
            hi_carry = hi_carry.wrapping_add(carry);
            j += 1;
        }
        hi_carry
    }
//@@ end
//@@ fn src/modular/lincomb.rs | - | lincomb_monty_form | body | props C09 C11
pub const fn lincomb_monty_form<const LIMBS: usize>(
    mut products: &[(&MontyForm<LIMBS>, &MontyForm<LIMBS>)],
    modulus: &Odd<Uint<LIMBS>>,
    mod_neg_inv: Limb,
    mod_leading_zeros: u32,
) -> (ret__: Uint<LIMBS>)
{
    let max_accum = 1 << (mod_leading_zeros as usize);
    let mut ret = Uint::ZERO();
    let mut remain = products.len();
    if remain <= max_accum {
        let carry =
            impl_longa_monty_lincomb!(products, ret.limbs, modulus.0.limbs, mod_neg_inv, LIMBS);
        ret.sub_mod_with_carry(carry, &modulus.0, &modulus.0)
    } else {
        let mut window;
        while remain > 0
{
            let mut count = remain;
            if count > max_accum {
                count = max_accum;
            }
            let (__t0, __t1) = products.split_at(count); window = __t0; products = __t1;
            let mut buf = Uint::ZERO();
            let carry =
                impl_longa_monty_lincomb!(window, buf.limbs, modulus.0.limbs, mod_neg_inv, LIMBS);
            buf = buf.sub_mod_with_carry(carry, &modulus.0, &modulus.0);
            ret = ret.add_mod(&buf, &modulus.0);
            remain -= count;
        }
        ret
    }
}
//@@ end

} // verus!
