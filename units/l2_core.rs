// L2: Uint core: constants, constructors, comparison, add/sub/neg, resize
use vstd::prelude::*;
use vstd::arithmetic::power::*;
use vstd::arithmetic::power2::*;
use vstd::arithmetic::div_mod::*;
use core::cmp::Ordering;
use crate::speclib::*;
use crate::l0_prim::*;
use crate::l1_choice::*;
use crate::l1_limb::*;
verus! {

//@@ item src/const_choice.rs | struct ConstCtOption
#[derive(Clone)]
pub struct ConstCtOption<T> {
    pub value: T,
    pub is_some: ConstChoice,
}
//@@ end

//@@ fn src/const_choice.rs | impl<T> ConstCtOption<T> | new | body | props C06 C11
impl<T> ConstCtOption<T> {
pub const fn new(value: T, is_some: ConstChoice) -> (ret__: Self)
//@+
    ensures ret__.value == value, ret__.is_some == is_some
//@-
{
        Self { value, is_some }
    }
}
//@@ end
//@@ fn src/const_choice.rs | impl<T> ConstCtOption<T> | some | body | props C06 C11
impl<T> ConstCtOption<T> {
pub const fn some(value: T) -> (ret__: Self)
//@+
    ensures ret__.value == value, ret__.is_some.t(), ret__.is_some.wf()
//@-
{
        Self {
            value,
            is_some: ConstChoice::TRUE,
        }
    }
}
//@@ end
//@@ fn src/const_choice.rs | impl<T> ConstCtOption<T> | none | body | props C06 C11
impl<T> ConstCtOption<T> {
pub const fn none(dummy_value: T) -> (ret__: Self)
//@+
    ensures ret__.value == dummy_value, !ret__.is_some.t(), ret__.is_some.wf()
//@-
{
        Self {
            value: dummy_value,
            is_some: ConstChoice::FALSE,
        }
    }
}
//@@ end
//@@ fn src/const_choice.rs | impl<T> ConstCtOption<T> | components_ref | body | props C06 C11
impl<T> ConstCtOption<T> {
pub const fn components_ref(&self) -> (ret__: (&T, ConstChoice))
//@+
    ensures *ret__.0 == self.value, ret__.1 == self.is_some
//@-
{
        // Since Rust is not smart enough to tell that we would be moving the value,
        // and hence no destructors will be called, we have to return a reference instead.
        // See https://github.com/rust-lang/rust/issues/66753
        (&self.value, self.is_some)
    }
}
//@@ end
//@@ fn src/const_choice.rs | impl<T> ConstCtOption<T> | is_some | body | props C06 C11
impl<T> ConstCtOption<T> {
pub const fn is_some(&self) -> (ret__: ConstChoice)
//@+
    ensures ret__ == self.is_some
//@-
{
        self.is_some
    }
}
//@@ end
//@@ fn src/const_choice.rs | impl<T> ConstCtOption<T> | is_none | body | props C06 C11
impl<T> ConstCtOption<T> {
pub const fn is_none(&self) -> (ret__: ConstChoice)
//@+
    requires self.is_some.wf()
    ensures ret__.wf(), ret__.t() == !self.is_some.t()
//@-
{
        self.is_some.not()
    }
}
//@@ end
//@@ subst \b(Self|Uint)::(ZERO|ONE|MAX|BITS|LOG2_BITS)\b(?!\() => \1::\2()
//@@ const src/uint.rs | impl<const LIMBS: usize> Uint<LIMBS> | ZERO
impl<const LIMBS: usize> Uint<LIMBS> {
pub const fn ZERO() -> (ret__: Self)
//@+
    requires LIMBS >= 1
    ensures ret__.v() == 0, forall|k: int| 0 <= k < LIMBS ==> ret__.limbs@[k].0 == 0
//@-
{
    Self::from_u8(0)
}
}
//@@ end
//@@ const src/uint.rs | impl<const LIMBS: usize> Uint<LIMBS> | ONE
impl<const LIMBS: usize> Uint<LIMBS> {
pub const fn ONE() -> (ret__: Self)
//@+
    requires LIMBS >= 1
    ensures ret__.v() == 1, ret__.limbs@[0].0 == 1, forall|k: int| 1 <= k < LIMBS ==> ret__.limbs@[k].0 == 0
//@-
{
    Self::from_u8(1)
}
}
//@@ end
//@@ const src/uint.rs | impl<const LIMBS: usize> Uint<LIMBS> | MAX
impl<const LIMBS: usize> Uint<LIMBS> {
pub const fn MAX() -> (ret__: Self)
//@+
    ensures ret__.v() == bp(LIMBS as nat) - 1, forall|k: int| 0 <= k < LIMBS ==> ret__.limbs@[k].0 == u64::MAX
//@-
{
//@+
    assert forall|s: Seq<Limb>| (forall|k: int| 0 <= k < LIMBS ==> s[k].0 == u64::MAX) implies #[trigger] val(s, LIMBS as nat) == bp(LIMBS as nat) - 1 by { lemma_val_all_max(s, LIMBS as nat); }
//@-
    Self {
            limbs: [Limb::MAX; LIMBS],
        }
}
}
//@@ end
//@@ const src/uint.rs | impl<const LIMBS: usize> Uint<LIMBS> | BITS
impl<const LIMBS: usize> Uint<LIMBS> {
pub const fn BITS() -> (ret__: u32)
//@+
    requires LIMBS < 0x400_0000
    ensures ret__ as int == 64 * LIMBS
//@-
{
    LIMBS as u32 * Limb::BITS
}
}
//@@ end
//@@ fn src/uint.rs | impl<const LIMBS: usize> Uint<LIMBS> | new | body | props C16 C11
impl<const LIMBS: usize> Uint<LIMBS> {
pub const fn new(limbs: [Limb; LIMBS]) -> (ret__: Self)
//@+
    ensures ret__.limbs == limbs
//@-
{
        Self { limbs }
    }
}
//@@ end
//@@ fn src/uint.rs | impl<const LIMBS: usize> Uint<LIMBS> | to_limbs | body | props C16 C11
impl<const LIMBS: usize> Uint<LIMBS> {
pub const fn to_limbs(self) -> (ret__: [Limb; LIMBS])
//@+
    ensures ret__ == self.limbs
//@-
{
        self.limbs
    }
}
//@@ end
//@@ fn src/uint.rs | impl<const LIMBS: usize> Uint<LIMBS> | as_limbs | body | props C16 C11
impl<const LIMBS: usize> Uint<LIMBS> {
pub const fn as_limbs(&self) -> (ret__: &[Limb; LIMBS])
//@+
    ensures *ret__ == self.limbs
//@-
{
        &self.limbs
    }
}
//@@ end
//@@ fn src/uint.rs | impl<const LIMBS: usize> Uint<LIMBS> | to_nz | body | props C12 C11
impl<const LIMBS: usize> Uint<LIMBS> {
pub const fn to_nz(self) -> (ret__: ConstCtOption<NonZero<Self>>)
//@+
    ensures ret__.value.0 == self, ret__.is_some.wf(), ret__.is_some.t() == (self.v() != 0)
//@-
{
        ConstCtOption::new(NonZero(self), self.is_nonzero())
    }
}
//@@ end
//@@ fn src/uint.rs | impl<const LIMBS: usize> Uint<LIMBS> | to_odd | body | props C12 C11
impl<const LIMBS: usize> Uint<LIMBS> {
pub const fn to_odd(self) -> (ret__: ConstCtOption<Odd<Self>>)
//@+
    requires LIMBS >= 1
    ensures ret__.value.0 == self, ret__.is_some.wf(), ret__.is_some.t() == (self.v() % 2 == 1)
//@-
{
        ConstCtOption::new(Odd(self), self.is_odd())
    }
}
//@@ end
//@@ fn src/uint/from.rs | impl<const LIMBS: usize> Uint<LIMBS> | from_u8 | body | props C16 C11
impl<const LIMBS: usize> Uint<LIMBS> {
pub const fn from_u8(n: u8) -> (ret__: Self)
//@+
    requires LIMBS >= 1
    ensures ret__.v() == n as int, ret__.limbs@[0].0 == n as u64, forall|k: int| 1 <= k < LIMBS ==> ret__.limbs@[k].0 == 0
//@-
{
        assert!(LIMBS >= 1, "number of limbs must be greater than zero");
        let mut limbs = [Limb::ZERO; LIMBS];
        limbs[0].0 = n as Word;
//@+
    proof { lemma_val_single(limbs@, LIMBS as nat); }
//@-
        Self { limbs }
    }
}
//@@ end
//@@ fn src/uint/from.rs | impl<const LIMBS: usize> Uint<LIMBS> | from_u16 | body | props C16 C11
impl<const LIMBS: usize> Uint<LIMBS> {
pub const fn from_u16(n: u16) -> (ret__: Self)
//@+
    requires LIMBS >= 1
    ensures ret__.v() == n as int, ret__.limbs@[0].0 == n as u64, forall|k: int| 1 <= k < LIMBS ==> ret__.limbs@[k].0 == 0
//@-
{
        assert!(LIMBS >= 1, "number of limbs must be greater than zero");
        let mut limbs = [Limb::ZERO; LIMBS];
        limbs[0].0 = n as Word;
//@+
    proof { lemma_val_single(limbs@, LIMBS as nat); }
//@-
        Self { limbs }
    }
}
//@@ end
//@@ fn src/uint/from.rs | impl<const LIMBS: usize> Uint<LIMBS> | from_u32 | body | props C16 C11
impl<const LIMBS: usize> Uint<LIMBS> {
pub const fn from_u32(n: u32) -> (ret__: Self)
//@+
    requires LIMBS >= 1
    ensures ret__.v() == n as int, ret__.limbs@[0].0 == n as u64, forall|k: int| 1 <= k < LIMBS ==> ret__.limbs@[k].0 == 0
//@-
{
        assert!(LIMBS >= 1, "number of limbs must be greater than zero");
        let mut limbs = [Limb::ZERO; LIMBS];
        limbs[0].0 = n as Word;
//@+
    proof { lemma_val_single(limbs@, LIMBS as nat); }
//@-
        Self { limbs }
    }
}
//@@ end
//@@ fn src/uint/from.rs | impl<const LIMBS: usize> Uint<LIMBS> | from_u64 | body | props C16 C11
impl<const LIMBS: usize> Uint<LIMBS> {
pub const fn from_u64(n: u64) -> (ret__: Self)
//@+
    requires LIMBS >= 1
    ensures ret__.v() == n as int, ret__.limbs@[0].0 == n as u64, forall|k: int| 1 <= k < LIMBS ==> ret__.limbs@[k].0 == 0
//@-
{
        assert!(LIMBS >= 1, "number of limbs must be greater than zero");
        let mut limbs = [Limb::ZERO; LIMBS];
        limbs[0].0 = n;
//@+
    proof { lemma_val_single(limbs@, LIMBS as nat); }
//@-
        Self { limbs }
    }
}
//@@ end
//@@ fn src/uint/from.rs | impl<const LIMBS: usize> Uint<LIMBS> | from_word | body | props C16 C11
impl<const LIMBS: usize> Uint<LIMBS> {
pub const fn from_word(n: Word) -> (ret__: Self)
//@+
    requires LIMBS >= 1
    ensures ret__.v() == n as int, ret__.limbs@[0].0 == n as u64, forall|k: int| 1 <= k < LIMBS ==> ret__.limbs@[k].0 == 0
//@-
{
        assert!(LIMBS >= 1, "number of limbs must be greater than zero");
        let mut limbs = [Limb::ZERO; LIMBS];
        limbs[0].0 = n;
//@+
    proof { lemma_val_single(limbs@, LIMBS as nat); }
//@-
        Self { limbs }
    }
}
//@@ end
//@@ fn src/uint/from.rs | impl<const LIMBS: usize> Uint<LIMBS> | from_wide_word | body | props C16 C11
impl<const LIMBS: usize> Uint<LIMBS> {
pub const fn from_wide_word(n: WideWord) -> (ret__: Self)
//@+
    requires LIMBS >= 2
    ensures ret__.v() == n as int
//@-
{
        assert!(LIMBS >= 2, "number of limbs must be two or greater");
        let mut limbs = [Limb::ZERO; LIMBS];
        limbs[0].0 = n as Word;
        limbs[1].0 = (n >> Limb::BITS) as Word;
//@+
    proof {
        lemma_val_hi_zero(limbs@, 2, LIMBS as nat); lemma_bp1(); lemma_split128(n);
        assert(val(limbs@, 2) == val(limbs@, 1) + limbs@[1].0 as int * bp(1));
        assert(val(limbs@, 1) == val(limbs@, 0) + limbs@[0].0 as int * bp(0));
    }
//@-
        Self { limbs }
    }
}
//@@ end
//@@ fn src/uint/cmp.rs | impl<const LIMBS: usize> Uint<LIMBS> | select | body | props C06 C11
impl<const LIMBS: usize> Uint<LIMBS> {
pub const fn select(a: &Self, b: &Self, c: ConstChoice) -> (ret__: Self)
//@+
    requires c.wf()
    ensures ret__ == (if c.t() { *b } else { *a })
//@-
{
        let mut limbs = [Limb::ZERO; LIMBS];
        let mut i = 0;
        while i < LIMBS
//@+
    invariant i <= LIMBS, c.wf(), forall|k: int| 0 <= k < i ==> limbs@[k] == (if c.t() { b.limbs@[k] } else { a.limbs@[k] }),
    decreases LIMBS - i,
//@-
{
            limbs[i] = Limb::select(a.limbs[i], b.limbs[i], c);
            i += 1;
        }
//@+
    assert(limbs =~= (if c.t() { b.limbs } else { a.limbs }));
//@-
        Uint { limbs }
    }
}
//@@ end
//@@ fn src/uint/cmp.rs | impl<const LIMBS: usize> Uint<LIMBS> | is_nonzero | body | props C06 C11
impl<const LIMBS: usize> Uint<LIMBS> {
pub const fn is_nonzero(&self) -> (ret__: ConstChoice)
//@+
    ensures ret__.wf(), ret__.t() == (self.v() != 0)
//@-
{
        let mut b = 0;
        let mut i = 0;
        while i < LIMBS
//@+
    invariant i <= LIMBS, (b == 0) == (forall|k: int| 0 <= k < i ==> self.limbs@[k].0 == 0),
    decreases LIMBS - i,
//@-
{
//@+
    let ghost b0 = b; let ghost x = self.limbs@[i as int].0;
    assert(((b0 | x) == 0) == (b0 == 0 && x == 0)) by (bit_vector);
//@-
            b |= self.limbs[i].0;
            i += 1;
        }
//@+
    proof { lemma_val_zero_iff(self.limbs@, LIMBS as nat); }
//@-
        Limb(b).is_nonzero()
    }
}
//@@ end
//@@ fn src/uint/cmp.rs | impl<const LIMBS: usize> Uint<LIMBS> | is_odd | body | props C06 C11
impl<const LIMBS: usize> Uint<LIMBS> {
pub const fn is_odd(&self) -> (ret__: ConstChoice)
//@+
    requires LIMBS >= 1
    ensures ret__.wf(), ret__.t() == (self.v() % 2 == 1)
//@-
{
//@+
    proof { lemma_val_low(self.limbs@, LIMBS as nat); }
//@-
//@+
    let ghost x0 = self.limbs@[0].0;
    assert((x0 & 1) == 0 || (x0 & 1) == 1) by (bit_vector);
    assert(((x0 & 1) == 1) == (x0 % 2 == 1)) by (bit_vector);
    
//@-
        ConstChoice::from_word_lsb(self.limbs[0].0 & 1)
    }
}
//@@ end
//@@ fn src/uint/cmp.rs | impl<const LIMBS: usize> Uint<LIMBS> | eq | body | props C06 C11
impl<const LIMBS: usize> Uint<LIMBS> {
pub const fn eq(lhs: &Self, rhs: &Self) -> (ret__: ConstChoice)
//@+
    ensures ret__.wf(), ret__.t() == (lhs.v() == rhs.v())
//@-
{
        let mut acc = 0;
        let mut i = 0;
        while i < LIMBS
//@+
    invariant i <= LIMBS, (acc == 0) == (forall|k: int| 0 <= k < i ==> lhs.limbs@[k].0 == rhs.limbs@[k].0),
    decreases LIMBS - i,
//@-
{
//@+
    let ghost a0 = acc; let ghost x = lhs.limbs@[i as int].0; let ghost y = rhs.limbs@[i as int].0;
    assert(((a0 | (x ^ y)) == 0) == (a0 == 0 && x == y)) by (bit_vector);
//@-
            acc |= lhs.limbs[i].0 ^ rhs.limbs[i].0;
            i += 1;
        }
        // acc == 0 if and only if self == rhs
//@+
    proof { lemma_val_eq_iff(lhs.limbs@, rhs.limbs@, LIMBS as nat); }
//@-
        Limb(acc).is_nonzero().not()
    }
}
//@@ end
//@@ fn src/uint/cmp.rs | impl<const LIMBS: usize> Uint<LIMBS> | lt | body | props C06 C11
impl<const LIMBS: usize> Uint<LIMBS> {
pub const fn lt(lhs: &Self, rhs: &Self) -> (ret__: ConstChoice)
//@+
    ensures ret__.wf(), ret__.t() == (lhs.v() < rhs.v())
//@-
{
        // We could use the same approach as in Limb::ct_lt(),
        // but since we have to use Uint::wrapping_sub(), which calls `sbb()`,
        // there are no savings compared to just calling `sbb()` directly.
        let (_res, borrow) = lhs.sbb(rhs, Limb::ZERO);
//@+
    proof { lemma_val_bound(_res.limbs@, LIMBS as nat); lemma_val_bound(lhs.limbs@, LIMBS as nat); lemma_val_bound(rhs.limbs@, LIMBS as nat); assert(0u64 >> 63 == 0) by (bit_vector); }
//@-
        ConstChoice::from_word_mask(borrow.0)
    }
}
//@@ end
//@@ fn src/uint/cmp.rs | impl<const LIMBS: usize> Uint<LIMBS> | lte | body | props C06 C11
impl<const LIMBS: usize> Uint<LIMBS> {
pub const fn lte(lhs: &Self, rhs: &Self) -> (ret__: ConstChoice)
//@+
    ensures ret__.wf(), ret__.t() == (lhs.v() <= rhs.v())
//@-
{
        Self::gt(lhs, rhs).not()
    }
}
//@@ end
//@@ fn src/uint/cmp.rs | impl<const LIMBS: usize> Uint<LIMBS> | gt | body | props C06 C11
impl<const LIMBS: usize> Uint<LIMBS> {
pub const fn gt(lhs: &Self, rhs: &Self) -> (ret__: ConstChoice)
//@+
    ensures ret__.wf(), ret__.t() == (lhs.v() > rhs.v())
//@-
{
        let (_res, borrow) = rhs.sbb(lhs, Limb::ZERO);
//@+
    proof { lemma_val_bound(_res.limbs@, LIMBS as nat); lemma_val_bound(lhs.limbs@, LIMBS as nat); lemma_val_bound(rhs.limbs@, LIMBS as nat); assert(0u64 >> 63 == 0) by (bit_vector); }
//@-
        ConstChoice::from_word_mask(borrow.0)
    }
}
//@@ end
//@@ fn src/uint/cmp.rs | impl<const LIMBS: usize> Uint<LIMBS> | cmp | body | props C06 C11
impl<const LIMBS: usize> Uint<LIMBS> {
pub const fn cmp(lhs: &Self, rhs: &Self) -> (ret__: i8)
//@+
    ensures ret__ as int == (if lhs.v() < rhs.v() { -1int } else if lhs.v() == rhs.v() { 0int } else { 1int })
//@-
{
//@+
    let ghost mut ws: Seq<Limb> = Seq::empty();
    proof { lemma_bp1(); }
//@-
        let mut i = 0;
        let mut borrow = Limb::ZERO;
        let mut diff = Limb::ZERO;
        while i < LIMBS
//@+
    invariant i <= LIMBS, ws.len() == i, borrow.0 == 0 || borrow.0 == u64::MAX,
        val(ws, i as nat) - bb(borrow) * bp(i as nat) == val(rhs.limbs@, i as nat) - val(lhs.limbs@, i as nat),
        (diff.0 == 0) == (forall|k: int| 0 <= k < i ==> ws[k].0 == 0),
    decreases LIMBS - i,
//@-
{
            let (w, b) = rhs.limbs[i].sbb(lhs.limbs[i], borrow);
//@+
    let ghost d0 = diff.0; let ghost ws0 = ws;
    let ghost ww = w.0;
    assert(((d0 | ww) == 0) == (d0 == 0 && ww == 0)) by (bit_vector);
    proof {
        ws = ws.push(w);
        assert(ws[i as int] == w);
        assert(forall|k: int| 0 <= k < i ==> ws[k] == ws0[k]);
        lemma_val_ext(ws0, ws, i as nat);
        lemma_bp_succ(i as nat);
        let p = bp(i as nat);
        let bw0 = borrow.0;
    assert(bw0 >> 63 == (if bw0 == 0xffff_ffff_ffff_ffffu64 { 1u64 } else { 0u64 })) by (bit_vector) requires bw0 == 0 || bw0 == 0xffff_ffff_ffff_ffffu64;
        assert((w.0 as int - bb(b) * B()) * p == (rhs.limbs@[i as int].0 as int - lhs.limbs@[i as int].0 as int - bb(borrow)) * p);
        assert((w.0 as int - bb(b) * B()) * p == w.0 as int * p - bb(b) * (B() * p)) by (nonlinear_arith);
        assert((rhs.limbs@[i as int].0 as int - lhs.limbs@[i as int].0 as int - bb(borrow)) * p == rhs.limbs@[i as int].0 as int * p - lhs.limbs@[i as int].0 as int * p - bb(borrow) * p) by (nonlinear_arith);
    }
//@-
            diff = diff.bitor(w);
            borrow = b;
            i += 1;
        }
//@+
    proof {
        lemma_val_bound(ws, LIMBS as nat); lemma_val_bound(lhs.limbs@, LIMBS as nat); lemma_val_bound(rhs.limbs@, LIMBS as nat);
        lemma_val_zero_iff(ws, LIMBS as nat);
    }
    let ghost bw = borrow.0;
    assert((bw & 2) == (if bw == 0xffff_ffff_ffff_ffffu64 { 2u64 } else { 0u64 })) by (bit_vector) requires bw == 0 || bw == 0xffff_ffff_ffff_ffffu64;
//@-
        let sgn = ((borrow.0 & 2) as i8) - 1;
//@+
    let ghost nz: int = if diff.0 != 0 { 1 } else { 0 };
    assert(nz * (sgn as int) == (if diff.0 != 0 { sgn as int } else { 0int })) by (nonlinear_arith) requires nz == (if diff.0 != 0 { 1int } else { 0int });
//@-
        (diff.is_nonzero().to_u8() as i8) * sgn
    }
}
//@@ end
//@@ fn src/uint/cmp.rs | impl<const LIMBS: usize> Uint<LIMBS> | cmp_vartime | body | props C06 C11 C15
impl<const LIMBS: usize> Uint<LIMBS> {
pub const fn cmp_vartime(&self, rhs: &Self) -> (ret__: Ordering)
//@+
    requires LIMBS >= 1
    ensures (ret__ == Ordering::Less) == (self.v() < rhs.v()), (ret__ == Ordering::Equal) == (self.v() == rhs.v()), (ret__ == Ordering::Greater) == (self.v() > rhs.v())
//@-
{
        let mut i = LIMBS - 1;
        loop
//@+
    invariant i < LIMBS, forall|k: int| i < k < LIMBS ==> self.limbs@[k].0 == rhs.limbs@[k].0,
    decreases i,
//@-
{
            let (val, borrow) = self.limbs[i].sbb(rhs.limbs[i], Limb::ZERO);
//@+
    assert(0u64 >> 63 == 0) by (bit_vector);
    let ghost a = self.limbs@[i as int].0; let ghost b = rhs.limbs@[i as int].0;
    proof {
        if val.0 != 0 {
            if borrow.0 != 0 { assert(a < b); lemma_val_cmp_top(self.limbs@, rhs.limbs@, i as nat, LIMBS as nat); }
            else { assert(b < a); lemma_val_cmp_top(rhs.limbs@, self.limbs@, i as nat, LIMBS as nat); }
        } else {
            assert(a == b);
            if i == 0 { lemma_val_eq_iff(self.limbs@, rhs.limbs@, LIMBS as nat); }
        }
    }
//@-
            if val.0 != 0 {
                return if borrow.0 != 0 {
                    Ordering::Less
                } else {
                    Ordering::Greater
                };
            }
            if i == 0 {
                return Ordering::Equal;
            }
            i -= 1;
        }
    }
}
//@@ end
//@@ fn src/uint/add.rs | impl<const LIMBS: usize> Uint<LIMBS> | adc | body | props C04 C11
impl<const LIMBS: usize> Uint<LIMBS> {
pub const fn adc(&self, rhs: &Self, mut carry: Limb) -> (ret__: (Self, Limb))
//@+
    ensures ret__.0.v() + ret__.1.0 as int * bp(LIMBS as nat) == self.v() + rhs.v() + carry.0 as int,
        carry.0 <= 1 ==> ret__.1.0 <= 1,
        ret__.0.v() == (self.v() + rhs.v() + carry.0 as int) % bp(LIMBS as nat)
//@-
{
//@+
    let ghost carry0 = carry;
    proof { lemma_bp1(); }
//@-
        let mut limbs = [Limb::ZERO; LIMBS];
        let mut i = 0;
        while i < LIMBS
//@+
    invariant i <= LIMBS, carry0.0 <= 1 ==> carry.0 <= 1,
        val(limbs@, i as nat) + carry.0 as int * bp(i as nat) == val(self.limbs@, i as nat) + val(rhs.limbs@, i as nat) + carry0.0 as int,
    decreases LIMBS - i,
//@-
{
//@+
    let ghost limbs0 = limbs@; let ghost c0 = carry;
//@-
            let (w, c) = self.limbs[i].adc(rhs.limbs[i], carry);
            limbs[i] = w;
            carry = c;
//@+
    proof {
        lemma_val_ext(limbs0, limbs@, i as nat);
        lemma_bp_succ(i as nat);
        let p = bp(i as nat); let a = self.limbs@[i as int].0 as int; let b = rhs.limbs@[i as int].0 as int;
        assert((w.0 as int + c.0 as int * B()) * p == (a + b + c0.0 as int) * p);
        assert((w.0 as int + c.0 as int * B()) * p == w.0 as int * p + c.0 as int * (B() * p)) by (nonlinear_arith);
        assert((a + b + c0.0 as int) * p == a * p + b * p + c0.0 as int * p) by (nonlinear_arith);
        if c0.0 <= 1 { assert(c.0 <= 1) by (nonlinear_arith) requires w.0 as int + c.0 as int * B() == a + b + c0.0 as int, a < B(), b < B(), c0.0 <= 1, w.0 >= 0; }
    }
//@-
            i += 1;
        }
//@+
    proof { lemma_val_bound(limbs@, LIMBS as nat); lemma_fundamental_div_mod_converse(self.v() + rhs.v() + carry0.0 as int, bp(LIMBS as nat), carry.0 as int, val(limbs@, LIMBS as nat)); }
//@-
        (Self { limbs }, carry)
    }
}
//@@ end
//@@ fn src/uint/add.rs | impl<const LIMBS: usize> Uint<LIMBS> | saturating_add | body | props C04 C11
impl<const LIMBS: usize> Uint<LIMBS> {
pub const fn saturating_add(&self, rhs: &Self) -> (ret__: Self)
//@+
    ensures ret__.v() == min_int(self.v() + rhs.v(), bp(LIMBS as nat) - 1)
//@-
{
        let (res, overflow) = self.adc(rhs, Limb::ZERO);
//@+
    proof { lemma_val_bound(res.limbs@, LIMBS as nat); lemma_val_bound(self.limbs@, LIMBS as nat); lemma_val_bound(rhs.limbs@, LIMBS as nat); }
//@-
        Self::select(&res, &Self::MAX(), ConstChoice::from_word_lsb(overflow.0))
    }
}
//@@ end
//@@ fn src/uint/add.rs | impl<const LIMBS: usize> Uint<LIMBS> | wrapping_add | body | props C04 C11
impl<const LIMBS: usize> Uint<LIMBS> {
pub const fn wrapping_add(&self, rhs: &Self) -> (ret__: Self)
//@+
    ensures ret__.v() == (self.v() + rhs.v()) % bp(LIMBS as nat)
//@-
{
        self.adc(rhs, Limb::ZERO).0
    }
}
//@@ end
//@@ fn src/uint/sub.rs | impl<const LIMBS: usize> Uint<LIMBS> | sbb | body | props C04 C11
impl<const LIMBS: usize> Uint<LIMBS> {
pub const fn sbb(&self, rhs: &Self, mut borrow: Limb) -> (ret__: (Self, Limb))
//@+
    requires LIMBS >= 1 || borrow.0 == 0 || borrow.0 == u64::MAX
    ensures ret__.1.0 == 0 || ret__.1.0 == u64::MAX,
        ret__.0.v() - bb(ret__.1) * bp(LIMBS as nat) == self.v() - rhs.v() - (borrow.0 >> 63) as int,
        ret__.0.v() == (self.v() - rhs.v() - (borrow.0 >> 63) as int) % bp(LIMBS as nat),
        (borrow.0 == 0 || borrow.0 == u64::MAX) ==> ret__.0.v() - bb(ret__.1) * bp(LIMBS as nat) == self.v() - rhs.v() - bb(borrow)
//@-
{
//@+
    let ghost bw = borrow.0;
    assert((bw == 0 || bw == 0xffff_ffff_ffff_ffffu64) ==> bw >> 63 == (if bw == 0xffff_ffff_ffff_ffffu64 { 1u64 } else { 0u64 })) by (bit_vector);
//@-
//@+
    let ghost borrow0 = borrow;
    proof { lemma_bp1(); }
//@-
        let mut limbs = [Limb::ZERO; LIMBS];
        let mut i = 0;
        while i < LIMBS
//@+
    invariant i <= LIMBS, i > 0 ==> (borrow.0 == 0 || borrow.0 == u64::MAX), i == 0 ==> borrow == borrow0,
        val(limbs@, i as nat) - (if i == 0 { (borrow0.0 >> 63) as int } else { bb(borrow) }) * bp(i as nat) == val(self.limbs@, i as nat) - val(rhs.limbs@, i as nat) - (borrow0.0 >> 63) as int,
    decreases LIMBS - i,
//@-
{
//@+
    let ghost limbs0 = limbs@; let ghost b0 = borrow;
//@-
            let (w, b) = self.limbs[i].sbb(rhs.limbs[i], borrow);
            limbs[i] = w;
            borrow = b;
//@+
    proof {
        lemma_val_ext(limbs0, limbs@, i as nat);
        lemma_bp_succ(i as nat);
        let p = bp(i as nat); let a = self.limbs@[i as int].0 as int; let c = rhs.limbs@[i as int].0 as int;
        let bin = (b0.0 >> 63) as int;
        let b0w = b0.0;
        if i > 0 { assert(b0w >> 63 == (if b0w == 0xffff_ffff_ffff_ffffu64 { 1u64 } else { 0u64 })) by (bit_vector) requires b0w == 0 || b0w == 0xffff_ffff_ffff_ffffu64; }
        assert((w.0 as int - bb(b) * B()) * p == (a - c - bin) * p);
        assert((w.0 as int - bb(b) * B()) * p == w.0 as int * p - bb(b) * (B() * p)) by (nonlinear_arith);
        assert((a - c - bin) * p == a * p - c * p - bin * p) by (nonlinear_arith);
    }
//@-
            i += 1;
        }
//@+
    proof { if LIMBS == 0 { let bw = borrow.0; assert(bw >> 63 == (if bw == 0xffff_ffff_ffff_ffffu64 { 1u64 } else { 0u64 })) by (bit_vector) requires bw == 0 || bw == 0xffff_ffff_ffff_ffffu64; } }
//@-
//@+
    proof { lemma_val_bound(limbs@, LIMBS as nat); assert((-bb(borrow)) * bp(LIMBS as nat) == -(bb(borrow) * bp(LIMBS as nat))) by (nonlinear_arith); lemma_fundamental_div_mod_converse(self.v() - rhs.v() - (borrow0.0 >> 63) as int, bp(LIMBS as nat), -bb(borrow), val(limbs@, LIMBS as nat)); }
//@-
        (Self { limbs }, borrow)
    }
}
//@@ end
//@@ fn src/uint/sub.rs | impl<const LIMBS: usize> Uint<LIMBS> | saturating_sub | body | props C04 C11
impl<const LIMBS: usize> Uint<LIMBS> {
pub const fn saturating_sub(&self, rhs: &Self) -> (ret__: Self)
//@+
    requires LIMBS >= 1
    ensures ret__.v() == max_int(self.v() - rhs.v(), 0)
//@-
{
        let (res, underflow) = self.sbb(rhs, Limb::ZERO);
//@+
    proof { lemma_val_bound(res.limbs@, LIMBS as nat); lemma_val_bound(self.limbs@, LIMBS as nat); lemma_val_bound(rhs.limbs@, LIMBS as nat); assert(0u64 >> 63 == 0) by (bit_vector); }
//@-
        Self::select(&res, &Self::ZERO(), ConstChoice::from_word_mask(underflow.0))
    }
}
//@@ end
//@@ fn src/uint/sub.rs | impl<const LIMBS: usize> Uint<LIMBS> | wrapping_sub | body | props C04 C11
impl<const LIMBS: usize> Uint<LIMBS> {
pub const fn wrapping_sub(&self, rhs: &Self) -> (ret__: Self)
//@+
    ensures ret__.v() == (self.v() - rhs.v()) % bp(LIMBS as nat)
//@-
{
//@+
    assert(0u64 >> 63 == 0) by (bit_vector);
//@-
        self.sbb(rhs, Limb::ZERO).0
    }
}
//@@ end
//@@ fn src/uint/neg.rs | impl<const LIMBS: usize> Uint<LIMBS> | wrapping_neg | body | props C04 C11
impl<const LIMBS: usize> Uint<LIMBS> {
pub const fn wrapping_neg(&self) -> (ret__: Self)
//@+
    ensures ret__.v() == (bp(LIMBS as nat) - self.v()) % bp(LIMBS as nat)
//@-
{
        self.carrying_neg().0
    }
}
//@@ end
//@@ fn src/uint/neg.rs | impl<const LIMBS: usize> Uint<LIMBS> | carrying_neg | body | props C04 C11
impl<const LIMBS: usize> Uint<LIMBS> {
pub const fn carrying_neg(&self) -> (ret__: (Self, ConstChoice))
//@+
    ensures ret__.0.v() == (bp(LIMBS as nat) - self.v()) % bp(LIMBS as nat), ret__.1.wf(), ret__.1.t() == (self.v() == 0)
//@-
{
        let mut ret = [Limb::ZERO; LIMBS];
        let mut carry = 1;
//@+
    proof { lemma_bp1(); }
//@-
        let mut i = 0;
        while i < LIMBS
//@+
    invariant i <= LIMBS, carry <= 1,
        val(ret@, i as nat) + carry as int * bp(i as nat) == bp(i as nat) - val(self.limbs@, i as nat),
    decreases LIMBS - i,
//@-
{
//@+
    let ghost ret0 = ret@; let ghost c0 = carry; let ghost a = self.limbs@[i as int].0;
    assert((!a) as int == 0xffff_ffff_ffff_ffff - a as int) by (bit_vector);
//@-
            let r = (!self.limbs[i].0 as WideWord) + carry;
            ret[i] = Limb(r as Word);
            carry = r >> Limb::BITS;
//@+
    proof {
        lemma_split128(r);
        lemma_val_ext(ret0, ret@, i as nat);
        lemma_bp_succ(i as nat);
        let p = bp(i as nat);
        let lo = (r as u64) as int; let hi = ((r >> 64) as u64) as int;
        assert(r >> 64 <= 1) by (bit_vector) requires r <= 0x1_0000_0000_0000_0000u128;
        assert((r >> 64) as u64 == r >> 64) by (bit_vector) requires r <= 0x1_0000_0000_0000_0000u128;
        assert((hi * B() + lo) * p == (B() - 1 - a as int + c0 as int) * p);
        assert((hi * B() + lo) * p == hi * (B() * p) + lo * p) by (nonlinear_arith);
        assert((B() - 1 - a as int + c0 as int) * p == B() * p - p - a as int * p + c0 as int * p) by (nonlinear_arith);
    }
//@-
            i += 1;
        }
//@+
    proof {
        lemma_val_bound(ret@, LIMBS as nat); lemma_val_bound(self.limbs@, LIMBS as nat);
        let w = bp(LIMBS as nat); let v = self.v();
        if v == 0 { lemma_mod_self_0(w); } else { lemma_small_mod((w - v) as nat, w as nat); }
        assert(carry as u64 == carry) by (bit_vector) requires carry <= 1;
    }
//@-
        (Uint::new(ret), ConstChoice::from_word_lsb(carry as Word))
    }
}
//@@ end
//@@ fn src/uint/neg.rs | impl<const LIMBS: usize> Uint<LIMBS> | wrapping_neg_if | body | props C04 C11
impl<const LIMBS: usize> Uint<LIMBS> {
pub const fn wrapping_neg_if(&self, negate: ConstChoice) -> (ret__: Self)
//@+
    requires negate.wf()
    ensures ret__.v() == (if negate.t() { (bp(LIMBS as nat) - self.v()) % bp(LIMBS as nat) } else { self.v() })
//@-
{
        Uint::select(self, &self.wrapping_neg(), negate)
    }
}
//@@ end
//@@ fn src/uint/resize.rs | impl<const LIMBS: usize> Uint<LIMBS> | resize | body | props C16 C11
impl<const LIMBS: usize> Uint<LIMBS> {
pub const fn resize<const T: usize>(&self) -> (ret__: Uint<T>)
//@+
    requires T >= 1
    ensures T >= LIMBS ==> ret__.v() == self.v(), T < LIMBS ==> ret__.v() == self.v() % bp(T as nat),
        forall|k: int| 0 <= k < T ==> ret__.limbs@[k] == (if k < LIMBS { self.limbs@[k] } else { Limb(0) })
//@-
{
        let mut res = Uint::ZERO();
        let mut i = 0;
        let dim = if T < LIMBS { T } else { LIMBS };
        while i < dim
//@+
    invariant i <= dim, dim <= T, dim <= LIMBS, forall|k: int| 0 <= k < i ==> res.limbs@[k] == self.limbs@[k], forall|k: int| i <= k < T ==> res.limbs@[k].0 == 0,
    decreases dim - i,
//@-
{
            res.limbs[i] = self.limbs[i];
            i += 1;
        }
//@+
    proof {
        lemma_val_hi_zero(res.limbs@, dim as nat, T as nat);
        lemma_val_ext(res.limbs@, self.limbs@, dim as nat);
        if T < LIMBS { lemma_val_mod(self.limbs@, T as nat, LIMBS as nat); }
    }
//@-
        res
    }
}
//@@ end
//@@ fn src/const_choice.rs | impl<const LIMBS: usize> ConstCtOption<Uint<LIMBS>> | unwrap_or | body | props C06 C11
impl<const LIMBS: usize> ConstCtOption<Uint<LIMBS>> {
pub const fn unwrap_or(self, def: Uint<LIMBS>) -> (ret__: Uint<LIMBS>)
//@+
    requires self.is_some.wf()
    ensures ret__ == (if self.is_some.t() { self.value } else { def })
//@-
{
        Uint::select(&def, &self.value, self.is_some)
    }
}
//@@ end
//@@ fn src/const_choice.rs | impl<const LIMBS: usize> ConstCtOption<Uint<LIMBS>> | expect | body | props C06 C11
impl<const LIMBS: usize> ConstCtOption<Uint<LIMBS>> {
pub const fn expect(self, msg: &str) -> (ret__: Uint<LIMBS>)
//@+
    requires self.is_some.t()
    ensures ret__ == self.value
//@-
{
        assert!(self.is_some.is_true_vartime(), "{}", msg);
        self.value
    }
}
//@@ end
//@@ fn src/const_choice.rs | impl<const LIMBS: usize> ConstCtOption<(Uint<LIMBS>, Uint<LIMBS>)> | expect | body | props C06 C11
impl<const LIMBS: usize> ConstCtOption<(Uint<LIMBS>, Uint<LIMBS>)> {
pub const fn expect(self, msg: &str) -> (ret__: (Uint<LIMBS>, Uint<LIMBS>))
//@+
    requires self.is_some.t()
    ensures ret__ == self.value
//@-
{
        assert!(self.is_some.is_true_vartime(), "{}", msg);
        self.value
    }
}
//@@ end
//@@ fn src/const_choice.rs | impl<const LIMBS: usize> ConstCtOption<NonZero<Uint<LIMBS>>> | expect | body | props C12 C11
impl<const LIMBS: usize> ConstCtOption<NonZero<Uint<LIMBS>>> {
pub const fn expect(self, msg: &str) -> (ret__: NonZero<Uint<LIMBS>>)
//@+
    requires self.is_some.t()
    ensures ret__ == self.value
//@-
{
        assert!(self.is_some.is_true_vartime(), "{}", msg);
        self.value
    }
}
//@@ end
//@@ fn src/const_choice.rs | impl<const LIMBS: usize> ConstCtOption<Odd<Uint<LIMBS>>> | expect | body | props C12 C11
impl<const LIMBS: usize> ConstCtOption<Odd<Uint<LIMBS>>> {
pub const fn expect(self, msg: &str) -> (ret__: Odd<Uint<LIMBS>>)
//@+
    requires self.is_some.t()
    ensures ret__ == self.value
//@-
{
        assert!(self.is_some.is_true_vartime(), "{}", msg);
        self.value
    }
}
//@@ end
//@@ fn src/const_choice.rs | impl ConstCtOption<NonZero<Limb>> | expect | body | props C12 C11
impl ConstCtOption<NonZero<Limb>> {
pub const fn expect(self, msg: &str) -> (ret__: NonZero<Limb>)
//@+
    requires self.is_some.t()
    ensures ret__ == self.value
//@-
{
        assert!(self.is_some.is_true_vartime(), "{}", msg);
        self.value
    }
}
//@@ end
//@@ fn src/limb.rs | impl Limb | to_nz | body | props C12 C11
impl Limb {
pub const fn to_nz(self) -> (ret__: ConstCtOption<NonZero<Self>>)
//@+
    ensures ret__.value.0 == self, ret__.is_some.wf(), ret__.is_some.t() == (self.0 != 0)
//@-
{
        ConstCtOption::new(NonZero(self), self.is_nonzero())
    }
}
//@@ end
//@@ fn src/uint.rs | impl<const LIMBS: usize> Uint<LIMBS> | from_words | body | props C16 C11
impl<const LIMBS: usize> Uint<LIMBS> {
pub const fn from_words(arr: [Word; LIMBS]) -> (ret__: Self)
//@+
    ensures forall|k: int| 0 <= k < LIMBS ==> ret__.limbs@[k].0 == arr@[k]
//@-
{
        let mut limbs = [Limb::ZERO; LIMBS];
        let mut i = 0;
        while i < LIMBS
//@+
    invariant i <= LIMBS, forall|k: int| 0 <= k < i ==> limbs@[k].0 == arr@[k],
    decreases LIMBS - i,
//@-
{
            limbs[i] = Limb(arr[i]);
            i += 1;
        }
        Self { limbs }
    }
}
//@@ end
//@@ fn src/uint.rs | impl<const LIMBS: usize> Uint<LIMBS> | to_words | body | props C16 C11
impl<const LIMBS: usize> Uint<LIMBS> {
pub const fn to_words(self) -> (ret__: [Word; LIMBS])
//@+
    ensures forall|k: int| 0 <= k < LIMBS ==> ret__@[k] == self.limbs@[k].0
//@-
{
        let mut arr = [0; LIMBS];
        let mut i = 0;
        while i < LIMBS
//@+
    invariant i <= LIMBS, forall|k: int| 0 <= k < i ==> arr@[k] == self.limbs@[k].0,
    decreases LIMBS - i,
//@-
{
            arr[i] = self.limbs[i].0;
            i += 1;
        }
        arr
    }
}
//@@ end

} // verus!
