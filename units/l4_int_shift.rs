// L4: signed shifts and bitwise operators of `Int` (src/int/{shr,shl,bit_and,bit_or,bit_xor,bit_not}.rs) -- C05 C13
use vstd::prelude::*;
use vstd::arithmetic::power::*;
use vstd::arithmetic::power2::*;
use vstd::arithmetic::div_mod::*;
use vstd::arithmetic::mul::*;
use crate::speclib::*;
use crate::speclib_bits::*;
use crate::l0_prim::*;
use crate::l1_choice::*;
use crate::l1_limb::*;
use crate::l2_core::*;
use crate::l2_shift::*;
use crate::l3_karatsuba::*;
use crate::l3_mul::*;
use crate::l4_int::*;
use crate::l4_invmod::*;
use crate::l4_modular::*;
use crate::l7_traits_int::*;
verus! {

//@@ subst \b(Self|Uint|Int)::(ZERO|ONE|MINUS_ONE|MIN|MAX|SIGN_MASK|FULL_MASK|BITS|LIMBS|LOG2_BITS)\b(?!\() => \1::\2()
//@@ subst \b(Uint|Int)::<(\w+)>::(ZERO|ONE|MAX|MIN|BITS)\b(?!\() => \1::<\2>::\3()
//@@ fn src/const_choice.rs | impl<const LIMBS: usize> ConstCtOption<Uint<LIMBS>> | as_int | body | props C06 C13 C11
impl<const LIMBS: usize> ConstCtOption<Uint<LIMBS>> {
pub const fn as_int(&self) -> (ret__: ConstCtOption<Int<LIMBS>>)
{
        ConstCtOption::new(self.value.as_int(), self.is_some)
    }
}
//@@ end
//@@ fn src/int/shr.rs | impl<const LIMBS: usize> Int<LIMBS> | overflowing_shr_vartime | body | props C05 C13 C11 C15
impl<const LIMBS: usize> Int<LIMBS> {
pub const fn overflowing_shr_vartime(&self, shift: u32) -> (ret__: ConstCtOption<Self>)
{
        let is_negative = self.is_negative();
        if shift >= Self::BITS() {
            return ConstCtOption::none(Self::select(&Self::ZERO(), &Self::MINUS_ONE(), is_negative));
        }
        // Select the base limb, based on the sign of this value.
        let base = Limb::select(Limb::ZERO, Limb::MAX, is_negative);
        let mut limbs = [base; LIMBS];
        let shift_num = (shift / Limb::BITS) as usize;
        let rem = shift % Limb::BITS;
        let mut i = 0;
        while i < LIMBS - shift_num
{
            limbs[i] = self.0.limbs[i + shift_num];
            i += 1;
        }
        if rem == 0 {
            return ConstCtOption::some(Self(Uint::new(limbs)));
        }
        // construct the carry s.t. the `rem`-most significant bits of `carry` are 1 when self
        // is negative, i.e., shift in 1s when the msb is 1.
        let mut carry = Limb::select(Limb::ZERO, Limb::MAX, is_negative);
        carry = carry.bitxor(carry.shr(rem)); // logical shift right; shifts in zeroes.
        while i > 0
{
            i -= 1;
            let shifted = limbs[i].shr(rem);
            let new_carry = limbs[i].shl(Limb::BITS - rem);
            limbs[i] = shifted.bitor(carry);
            carry = new_carry;
        }
        ConstCtOption::some(Self(Uint::new(limbs)))
    }
}
//@@ end
//@@ fn src/int/shr.rs | impl<const LIMBS: usize> Int<LIMBS> | overflowing_shr | body | props C05 C13 C11 C15
impl<const LIMBS: usize> Int<LIMBS> {
pub const fn overflowing_shr(&self, shift: u32) -> (ret__: ConstCtOption<Self>)
{
        // `floor(log2(BITS - 1))` is the number of bits in the representation of `shift`
        // (which lies in range `0 <= shift < BITS`).
        let shift_bits = u32::BITS - (Self::BITS() - 1).leading_zeros();
        let overflow = ConstChoice::from_u32_lt(shift, Self::BITS()).not();
        let shift = shift % Self::BITS();
        let mut result = *self;
        let mut i = 0;
        while i < shift_bits
{
            let bit = ConstChoice::from_u32_lsb((shift >> i) & 1);
            result = Int::select(
                &result,
                &result
                    .overflowing_shr_vartime(1 << i)
                    .expect("shift within range"),
                bit,
            );
            i += 1;
        }
        ConstCtOption::new(result, overflow.not())
    }
}
//@@ end
//@@ fn src/int/shr.rs | impl<const LIMBS: usize> Int<LIMBS> | shr | body | props C05 C13 C11 C15
impl<const LIMBS: usize> Int<LIMBS> {
pub const fn shr(&self, shift: u32) -> (ret__: Self)
{
        self.overflowing_shr(shift)
            .expect("`shift` within the bit size of the integer")
    }
}
//@@ end
//@@ fn src/int/shr.rs | impl<const LIMBS: usize> Int<LIMBS> | shr_vartime | body | props C05 C13 C11 C15
impl<const LIMBS: usize> Int<LIMBS> {
pub const fn shr_vartime(&self, shift: u32) -> (ret__: Self)
{
        self.overflowing_shr_vartime(shift)
            .expect("`shift` within the bit size of the integer")
    }
}
//@@ end
//@@ fn src/int/shr.rs | impl<const LIMBS: usize> Int<LIMBS> | wrapping_shr | body | props C05 C13 C11 C15
impl<const LIMBS: usize> Int<LIMBS> {
pub const fn wrapping_shr(&self, shift: u32) -> (ret__: Self)
{
        let default = Self::select(&Self::ZERO(), &Self::MINUS_ONE(), self.is_negative());
        self.overflowing_shr(shift).unwrap_or(default)
    }
}
//@@ end
//@@ fn src/int/shr.rs | impl<const LIMBS: usize> Int<LIMBS> | wrapping_shr_vartime | body | props C05 C13 C11 C15
impl<const LIMBS: usize> Int<LIMBS> {
pub const fn wrapping_shr_vartime(&self, shift: u32) -> (ret__: Self)
{
        let default = Self::select(&Self::ZERO(), &Self::MINUS_ONE(), self.is_negative());
        self.overflowing_shr_vartime(shift).unwrap_or(default)
    }
}
//@@ end
//@@ fn src/int/shl.rs | impl<const LIMBS: usize> Int<LIMBS> | shl | body | props C05 C13 C11 C15
impl<const LIMBS: usize> Int<LIMBS> {
pub const fn shl(&self, shift: u32) -> (ret__: Self)
{
        Self(Uint::shl(&self.0, shift))
    }
}
//@@ end
//@@ fn src/int/shl.rs | impl<const LIMBS: usize> Int<LIMBS> | shl_vartime | body | props C05 C13 C11 C15
impl<const LIMBS: usize> Int<LIMBS> {
pub const fn shl_vartime(&self, shift: u32) -> (ret__: Self)
{
        Self(Uint::shl_vartime(&self.0, shift))
    }
}
//@@ end
//@@ fn src/int/shl.rs | impl<const LIMBS: usize> Int<LIMBS> | overflowing_shl | body | props C05 C13 C11 C15
impl<const LIMBS: usize> Int<LIMBS> {
pub const fn overflowing_shl(&self, shift: u32) -> (ret__: ConstCtOption<Self>)
{
        self.0.overflowing_shl(shift).as_int()
    }
}
//@@ end
//@@ fn src/int/shl.rs | impl<const LIMBS: usize> Int<LIMBS> | overflowing_shl_vartime | body | props C05 C13 C11 C15
impl<const LIMBS: usize> Int<LIMBS> {
pub const fn overflowing_shl_vartime(&self, shift: u32) -> (ret__: ConstCtOption<Self>)
{
        self.0.overflowing_shl_vartime(shift).as_int()
    }
}
//@@ end
//@@ fn src/int/shl.rs | impl<const LIMBS: usize> Int<LIMBS> | wrapping_shl | body | props C05 C13 C11 C15
impl<const LIMBS: usize> Int<LIMBS> {
pub const fn wrapping_shl(&self, shift: u32) -> (ret__: Self)
{
        Self(self.0.wrapping_shl(shift))
    }
}
//@@ end
//@@ fn src/int/shl.rs | impl<const LIMBS: usize> Int<LIMBS> | wrapping_shl_vartime | body | props C05 C13 C11 C15
impl<const LIMBS: usize> Int<LIMBS> {
pub const fn wrapping_shl_vartime(&self, shift: u32) -> (ret__: Self)
{
        Self(self.0.wrapping_shl_vartime(shift))
    }
}
//@@ end
//@@ fn src/int/bit_and.rs | impl<const LIMBS: usize> Int<LIMBS> | bitand | body | props C05 C13 C11
impl<const LIMBS: usize> Int<LIMBS> {
pub const fn bitand(&self, rhs: &Self) -> (ret__: Self)
{
        Self(Uint::bitand(&self.0, &rhs.0))
    }
}
//@@ end
//@@ fn src/int/bit_and.rs | impl<const LIMBS: usize> Int<LIMBS> | bitand_limb | body | props C05 C13 C11
impl<const LIMBS: usize> Int<LIMBS> {
pub const fn bitand_limb(&self, rhs: Limb) -> (ret__: Self)
{
        Self(Uint::bitand_limb(&self.0, rhs))
    }
}
//@@ end
//@@ fn src/int/bit_and.rs | impl<const LIMBS: usize> Int<LIMBS> | wrapping_and | body | props C05 C13 C11 C15
impl<const LIMBS: usize> Int<LIMBS> {
pub const fn wrapping_and(&self, rhs: &Self) -> (ret__: Self)
{
        self.bitand(rhs)
    }
}
//@@ end
//@@ fn src/int/bit_and.rs | impl<const LIMBS: usize> Int<LIMBS> | checked_and | body | props C05 C13 C11 C15
impl<const LIMBS: usize> Int<LIMBS> {
pub const fn checked_and(&self, rhs: &Self) -> (ret__: ConstCtOption<Self>)
{
        ConstCtOption::some(self.bitand(rhs))
    }
}
//@@ end
//@@ fn src/int/bit_or.rs | impl<const LIMBS: usize> Int<LIMBS> | bitor | body | props C05 C13 C11
impl<const LIMBS: usize> Int<LIMBS> {
pub const fn bitor(&self, rhs: &Self) -> (ret__: Self)
{
        Self(Uint::bitor(&self.0, &rhs.0))
    }
}
//@@ end
//@@ fn src/int/bit_or.rs | impl<const LIMBS: usize> Int<LIMBS> | wrapping_or | body | props C05 C13 C11 C15
impl<const LIMBS: usize> Int<LIMBS> {
pub const fn wrapping_or(&self, rhs: &Self) -> (ret__: Self)
{
        self.bitor(rhs)
    }
}
//@@ end
//@@ fn src/int/bit_or.rs | impl<const LIMBS: usize> Int<LIMBS> | checked_or | body | props C05 C13 C11 C15
impl<const LIMBS: usize> Int<LIMBS> {
pub const fn checked_or(&self, rhs: &Self) -> (ret__: ConstCtOption<Self>)
{
        ConstCtOption::some(self.bitor(rhs))
    }
}
//@@ end
//@@ fn src/int/bit_xor.rs | impl<const LIMBS: usize> Int<LIMBS> | bitxor | body | props C05 C13 C11
impl<const LIMBS: usize> Int<LIMBS> {
pub const fn bitxor(&self, rhs: &Self) -> (ret__: Self)
{
        Self(Uint::bitxor(&self.0, &rhs.0))
    }
}
//@@ end
//@@ fn src/int/bit_xor.rs | impl<const LIMBS: usize> Int<LIMBS> | wrapping_xor | body | props C05 C13 C11 C15
impl<const LIMBS: usize> Int<LIMBS> {
pub const fn wrapping_xor(&self, rhs: &Self) -> (ret__: Self)
{
        self.bitxor(rhs)
    }
}
//@@ end
//@@ fn src/int/bit_xor.rs | impl<const LIMBS: usize> Int<LIMBS> | checked_xor | body | props C05 C13 C11 C15
impl<const LIMBS: usize> Int<LIMBS> {
pub fn checked_xor(&self, rhs: &Self) -> (ret__: ConstCtOption<Self>)
{
        ConstCtOption::some(self.bitxor(rhs))
    }
}
//@@ end
//@@ fn src/int/bit_not.rs | impl<const LIMBS: usize> Int<LIMBS> | not | body | props C05 C13 C11
impl<const LIMBS: usize> Int<LIMBS> {
pub const fn not(&self) -> (ret__: Self)
{
        Self(Uint::not(&self.0))
    }
}
//@@ end

} // verus!
