// L4: the `Gcd` trait routes, constant-time method `gcd` (src/uint/gcd.rs, src/int/gcd.rs) -- C10 C15
// Both route units state the SAME postcondition (result == gcd(|a|, |b|)) for `gcd` and `gcd_vartime`, so the constant-time and the
// variable-time routes provably agree.  The trait is split over two units (l4_gcd_routes: `gcd`, l4_gcd_routes_vt: `gcd_vartime`)
// because every `//@@ fn` region emits its own `impl .. Gcd for X { .. }` block (two regions of one impl would be two conflicting impls).
// NOT COVERED: `impl Gcd<Uint> for Odd<Uint>` (src/uint/gcd.rs:63): its bound `Odd<Odd<Uint>>: PrecomputeInverter` is never satisfied.
use vstd::prelude::*;
use crate::speclib::*;
use crate::l1_choice::*;
use crate::l2_core::*;
use crate::l2_subtle::*;
use crate::l4_int::*;
use crate::l4_safegcd::*;
use crate::l4_invmod::*;
verus! {

//@@ subst \b(Self|Uint)::(ZERO|ONE|MAX|BITS|LOG2_BITS)\b(?!\() => \1::\2()

/// `Gcd` of /repo/src/traits.rs, method `gcd` (hand-declared: a trait impl method cannot carry `requires` / `ensures`, so
/// the contract is stated once at trait level through the two spec fns each impl defines)
pub trait Gcd<Rhs = Self>: Sized {
    type Output;
    spec fn gcd_req(&self, rhs: &Rhs) -> bool;
    spec fn gcd_ens(&self, rhs: &Rhs, r: Self::Output) -> bool;
    fn gcd(&self, rhs: &Rhs) -> (r: Self::Output)
        requires self.gcd_req(rhs)
        ensures self.gcd_ens(rhs, r);
}

//@@ fn src/uint/gcd.rs | impl<const SAT_LIMBS: usize, const UNSAT_LIMBS: usize> Gcd for Uint<SAT_LIMBS> where Odd<Self>: PrecomputeInverter<Inverter = SafeGcdInverter<SAT_LIMBS, UNSAT_LIMBS>>, | gcd | body | props C10 C15 C11
impl<const SAT_LIMBS: usize, const UNSAT_LIMBS: usize> Gcd for Uint<SAT_LIMBS> where Odd<Self>: PrecomputeInverter<Inverter = SafeGcdInverter<SAT_LIMBS, UNSAT_LIMBS>>, {
//@+
    type Output = Uint<SAT_LIMBS>;
    open spec fn gcd_req(&self, rhs: &Self) -> bool { sg_sizes(SAT_LIMBS as int, UNSAT_LIMBS as int) }
    open spec fn gcd_ens(&self, rhs: &Self, r: Uint<SAT_LIMBS>) -> bool { r.v() == gcd(self.v() as nat, rhs.v() as nat) }
//@-
fn gcd(&self, rhs: &Self) -> (ret__: Self)
//@+
    // (restated so that a failure is reported inside this function; the trait-level contract is gcd_req / gcd_ens)
    ensures ret__.v() == gcd(self.v() as nat, rhs.v() as nat)
//@-
{
        self.gcd(rhs)
    }
}
//@@ end
//@@ fn src/uint/gcd.rs | impl<const SAT_LIMBS: usize, const UNSAT_LIMBS: usize> Gcd<Int<SAT_LIMBS>> for Uint<SAT_LIMBS> where Odd<Uint<SAT_LIMBS>>: PrecomputeInverter<Inverter = SafeGcdInverter<SAT_LIMBS, UNSAT_LIMBS>>, | gcd | body | props C10 C15 C11
impl<const SAT_LIMBS: usize, const UNSAT_LIMBS: usize> Gcd<Int<SAT_LIMBS>> for Uint<SAT_LIMBS> where Odd<Uint<SAT_LIMBS>>: PrecomputeInverter<Inverter = SafeGcdInverter<SAT_LIMBS, UNSAT_LIMBS>>, {
//@+
    type Output = Uint<SAT_LIMBS>;
    open spec fn gcd_req(&self, rhs: &Int<SAT_LIMBS>) -> bool { sg_sizes(SAT_LIMBS as int, UNSAT_LIMBS as int) }
    open spec fn gcd_ens(&self, rhs: &Int<SAT_LIMBS>, r: Uint<SAT_LIMBS>) -> bool { r.v() == gcd(self.v() as nat, abs_i(rhs.iv()) as nat) }
//@-
fn gcd(&self, rhs: &Int<SAT_LIMBS>) -> (ret__: Self::Output)
{
        self.gcd(&rhs.abs())
    }
}
//@@ end
//@@ fn src/int/gcd.rs | impl<const SAT_LIMBS: usize, const UNSAT_LIMBS: usize> Gcd for Int<SAT_LIMBS> where Odd<Uint<SAT_LIMBS>>: PrecomputeInverter<Inverter = SafeGcdInverter<SAT_LIMBS, UNSAT_LIMBS>>, | gcd | body | props C10 C15 C11
impl<const SAT_LIMBS: usize, const UNSAT_LIMBS: usize> Gcd for Int<SAT_LIMBS> where Odd<Uint<SAT_LIMBS>>: PrecomputeInverter<Inverter = SafeGcdInverter<SAT_LIMBS, UNSAT_LIMBS>>, {
//@+
    type Output = Uint<SAT_LIMBS>;
    open spec fn gcd_req(&self, rhs: &Self) -> bool { sg_sizes(SAT_LIMBS as int, UNSAT_LIMBS as int) }
    open spec fn gcd_ens(&self, rhs: &Self, r: Uint<SAT_LIMBS>) -> bool { r.v() == gcd(abs_i(self.iv()) as nat, abs_i(rhs.iv()) as nat) }
//@-
fn gcd(&self, rhs: &Self) -> (ret__: Self::Output)
//@+
    // (restated so that a failure is reported inside this function; the trait-level contract is gcd_req / gcd_ens)
    ensures ret__.v() == gcd(abs_i(self.iv()) as nat, abs_i(rhs.iv()) as nat)
//@-
{
        self.abs().gcd(&rhs.abs())
    }
}
//@@ end
//@@ fn src/int/gcd.rs | impl<const SAT_LIMBS: usize, const UNSAT_LIMBS: usize> Gcd<Uint<SAT_LIMBS>> for Int<SAT_LIMBS> where Odd<Uint<SAT_LIMBS>>: PrecomputeInverter<Inverter = SafeGcdInverter<SAT_LIMBS, UNSAT_LIMBS>>, | gcd | body | props C10 C15 C11
impl<const SAT_LIMBS: usize, const UNSAT_LIMBS: usize> Gcd<Uint<SAT_LIMBS>> for Int<SAT_LIMBS> where Odd<Uint<SAT_LIMBS>>: PrecomputeInverter<Inverter = SafeGcdInverter<SAT_LIMBS, UNSAT_LIMBS>>, {
//@+
    type Output = Uint<SAT_LIMBS>;
    open spec fn gcd_req(&self, rhs: &Uint<SAT_LIMBS>) -> bool { sg_sizes(SAT_LIMBS as int, UNSAT_LIMBS as int) }
    open spec fn gcd_ens(&self, rhs: &Uint<SAT_LIMBS>, r: Uint<SAT_LIMBS>) -> bool { r.v() == gcd(abs_i(self.iv()) as nat, rhs.v() as nat) }
//@-
fn gcd(&self, rhs: &Uint<SAT_LIMBS>) -> (ret__: Self::Output)
//@+
    // (restated so that a failure is reported inside this function; the trait-level contract is gcd_req / gcd_ens)
    ensures ret__.v() == gcd(abs_i(self.iv()) as nat, rhs.v() as nat)
//@-
{
        self.abs().gcd(rhs)
    }
}
//@@ end

} // verus!
