// L7: trait impls and CtOption-returning forms of `Int` over the proved inherent functions
// (src/int/{add,sub,mul,mul_uint,div}.rs, src/const_choice.rs) -- C13 C14 C11 C15
// Vocabulary (model of `subtle`, hand-declared traits, `*_req` / `*_ens` convention): see l7_traits.rs.
use vstd::prelude::*;
use vstd::arithmetic::div_mod::*;
use crate::speclib::*;
use crate::l0_prim::*;
use crate::l1_choice::*;
use crate::l1_limb::*;
use crate::l2_core::*;
use crate::l2_subtle::*;
use crate::l3_mul::*;
use crate::l3_div_vt::*;
use crate::l3_div_ct::*;
use crate::l4_int::*;
use crate::l4_int_div::*;
use crate::l7_traits::*;
use crate::l7_traits_uint::*;

// /repo names a closure parameter `int` (`.and_then(|int| ...)`, src/int/mul.rs, src/int/mul_uint.rs). Inside `verus!`
// the prelude's `int` is a unit struct, so the pattern `int` would denote that constant instead of a new binding
// ("interpreted as a unit struct, not a new binding"). This private function shadows the prelude's `int` in the VALUE
// namespace of this module only (the type `int` is untouched), which makes `|int|` an ordinary binding again.
#[allow(dead_code)]
fn int() {}

verus! {

//@@ subst \b(Self|Uint|Int)::(ZERO|ONE|MAX|MIN|MINUS_ONE|BITS|LOG2_BITS)\b(?!\() => \1::\2()

// ---- lemmas

/// signed subtraction from the unsigned wrapping difference (counterpart of l4_int::lemma_iadd)
proof fn lemma_isub(av: int, bv: int, rv: int, n: nat)
    requires n >= 1, 0 <= av < bp(n), 0 <= bv < bp(n), rv == (av - bv) % bp(n)
    ensures
        iv_of(rv, n) == wrap_i(iv_of(av, n) - iv_of(bv, n), n),
        in_range(iv_of(av, n) - iv_of(bv, n), n) ==> iv_of(rv, n) == iv_of(av, n) - iv_of(bv, n),
        (((iv_of(av, n) < 0) != (iv_of(bv, n) < 0)) && ((iv_of(av, n) < 0) != (iv_of(rv, n) < 0))) == !in_range(iv_of(av, n) - iv_of(bv, n), n)
{
    let w = bp(n);
    lemma_half(n);
    lemma_iv_bounds(av, n); lemma_iv_bounds(bv, n);
    let a = iv_of(av, n); let b = iv_of(bv, n);
    let k: int = (if a < 0 { 1int } else { 0int }) - (if b < 0 { 1int } else { 0int });
    assert(av - bv == (a - b) + k * w) by (nonlinear_arith) requires av == (if a < 0 { a + w } else { a }), bv == (if b < 0 { b + w } else { b }), k == (if a < 0 { 1int } else { 0int }) - (if b < 0 { 1int } else { 0int });
    lemma_wrap_shift(a - b, k, n);
    assert(iv_of(rv, n) == wrap_i(a - b, n));
    if in_range(a - b, n) { lemma_wrap_id(a - b, n); }
    else if a - b < 0 { lemma_wrap_shift(a - b, 1, n); assert(a - b + 1 * w == a - b + w) by (nonlinear_arith); lemma_wrap_id(a - b + w, n); }
    else { lemma_wrap_shift(a - b, -1, n); assert(a - b + (-1) * w == a - b - w) by (nonlinear_arith); lemma_wrap_id(a - b - w, n); }
}

/// checked signed product from (magnitude lo + hi*W, sign): the product is in [MIN, MAX] exactly when the high part is zero
/// and the low part passes `new_from_abs_sign` (<= MAX, or == |MIN| when negative)
proof fn lemma_checked_mul(ab: int, lo: int, hi: int, neg: bool, n: nat)
    requires n >= 1, 0 <= lo < bp(n), hi >= 0, (lo + hi * bp(n)) * (if neg { -1int } else { 1int }) == ab
    ensures in_range(ab, n) == (hi == 0 && (lo <= ih(n) - 1 || (neg && lo == ih(n)))),
        hi == 0 ==> ab == (if neg { -lo } else { lo })
{
    let w = bp(n);
    lemma_half(n);
    if hi >= 1 { assert(hi * w >= w) by (nonlinear_arith) requires hi >= 1, w > 0; }
    else { assert(hi * w == 0) by (nonlinear_arith) requires hi == 0; }
    let p = lo + hi * w;
    assert(p * -1int == -p) by (nonlinear_arith);
    assert(p * 1int == p) by (nonlinear_arith);
}

//@@ fn src/int/cmp.rs | impl<const LIMBS: usize> ConstantTimeEq for Int<LIMBS> | ct_eq | body | props C06 C11 C15
impl<const LIMBS: usize> ConstantTimeEq for Int<LIMBS> {
fn ct_eq(&self, other: &Self) -> (ret__: Choice)
//@+
    ensures ret__.wf(), ret__.t() == (self.iv() == other.iv()), ret__.t() == (self.0.v() == other.0.v())
//@-
{
        Int::eq(self, other).into()
    }
}
//@@ end
// `Zero` instance (hand-written: blanket impl + provided method of /repo/src/traits.rs, see `Zero` in l7_traits.rs)
impl<const LIMBS: usize> Zero for Int<LIMBS> {
    open spec fn is_zero_req(&self) -> bool { LIMBS >= 1 }
    open spec fn is_zero_spec(&self) -> bool { self.iv() == 0 }
    fn is_zero(&self) -> (r: Choice)
    { self.ct_eq(&Int::ZERO()) }
}
//@@ fn src/const_choice.rs | impl<const LIMBS: usize> ConstCtOption<Int<LIMBS>> | expect | body | props C06 C11
impl<const LIMBS: usize> ConstCtOption<Int<LIMBS>> {
pub const fn expect(self, msg: &str) -> (ret__: Int<LIMBS>)
//@+
    requires self.is_some.t()
    ensures ret__ == self.value
//@-
{
        assert!(self.is_some.is_true_vartime(), "{}", msg);
        self.value
    }
}
//@@ end
//@@ fn src/const_choice.rs | impl<const LIMBS: usize> ConstCtOption<Int<LIMBS>> | unwrap_or | body | props C06 C11
impl<const LIMBS: usize> ConstCtOption<Int<LIMBS>> {
pub const fn unwrap_or(self, def: Int<LIMBS>) -> (ret__: Int<LIMBS>)
//@+
    requires self.is_some.wf()
    ensures ret__ == (if self.is_some.t() { self.value } else { def })
//@-
{
        Int::select(&def, &self.value, self.is_some)
    }
}
//@@ end
//@@ fn src/int/add.rs | impl<const LIMBS: usize> CheckedAdd for Int<LIMBS> | checked_add | body | props C13 C11 C15
impl<const LIMBS: usize> CheckedAdd for Int<LIMBS> {
//@+
    open spec fn checked_add_req(&self, rhs: &Self) -> bool { LIMBS >= 1 }
    open spec fn checked_add_ens(&self, rhs: &Self, r: CtOption<Self>) -> bool { r.is_some.wf() && r.is_some.t() == in_range(self.iv() + rhs.iv(), LIMBS as nat) && (r.is_some.t() ==> r.value.iv() == self.iv() + rhs.iv()) && r.value.iv() == wrap_i(self.iv() + rhs.iv(), LIMBS as nat) }
//@-
fn checked_add(&self, rhs: &Self) -> (ret__: CtOption<Self>)
{
        self.checked_add(rhs).into()
    }
}
//@@ end
//@@ fn src/int/add.rs | impl<const LIMBS: usize> WrappingAdd for Int<LIMBS> | wrapping_add | body | props C13 C11 C15
impl<const LIMBS: usize> WrappingAdd for Int<LIMBS> {
//@+
    open spec fn wrapping_add_req(&self, v: &Self) -> bool { LIMBS >= 1 }
    open spec fn wrapping_add_ens(&self, v: &Self, r: Self) -> bool { r.iv() == wrap_i(self.iv() + v.iv(), LIMBS as nat) && (in_range(self.iv() + v.iv(), LIMBS as nat) ==> r.iv() == self.iv() + v.iv()) }
//@-
fn wrapping_add(&self, v: &Self) -> (ret__: Self)
{
        self.wrapping_add(v)
    }
}
//@@ end
//@@ fn src/int/sub.rs | impl<const LIMBS: usize> CheckedSub for Int<LIMBS> | checked_sub | body | props C13 C11 C15
impl<const LIMBS: usize> CheckedSub for Int<LIMBS> {
//@+
    open spec fn checked_sub_req(&self, rhs: &Self) -> bool { LIMBS >= 1 }
    open spec fn checked_sub_ens(&self, rhs: &Self, r: CtOption<Self>) -> bool { r.is_some.wf() && r.is_some.t() == in_range(self.iv() - rhs.iv(), LIMBS as nat) && (r.is_some.t() ==> r.value.iv() == self.iv() - rhs.iv()) && r.value.iv() == wrap_i(self.iv() - rhs.iv(), LIMBS as nat) }
//@-
fn checked_sub(&self, rhs: &Self) -> (ret__: CtOption<Self>)
{
//@+
    proof {
        lemma_val_bound(self.0.limbs@, LIMBS as nat); lemma_val_bound(rhs.0.limbs@, LIMBS as nat);
        lemma_isub(self.0.v(), rhs.0.v(), (self.0.v() - rhs.0.v()) % bp(LIMBS as nat), LIMBS as nat);
    }
    assert forall|a: Choice, b: Choice| a.wf() && b.wf() implies (#[trigger] choice_and(a, b)).wf() && choice_and(a, b).t() == (a.t() && b.t()) by { lemma_choice_ops(a, b); }
//@-
        // Step 1. subtract operands
        let res = Self(self.0.wrapping_sub(&rhs.0));
        // Step 2. check whether underflow happened.
        // Note:
        // - underflow can only happen when the inputs have opposing signs, and then
        // - underflow occurs if and only if the result and the lhs have opposing signs.
        //
        // We can thus express the overflow flag as: (self.msb != rhs.msb) & (self.msb != res.msb)
        let self_msb: Choice = self.is_negative().into();
        let underflow =
            self_msb.ct_ne(&rhs.is_negative().into()) & self_msb.ct_ne(&res.is_negative().into());
        // Step 3. Construct result
//@+
    proof { lemma_choice_ops(underflow, underflow); }
//@-
        CtOption::new(res, !underflow)
    }
}
//@@ end
//@@ fn src/int/sub.rs | impl<const LIMBS: usize> WrappingSub for Int<LIMBS> | wrapping_sub | body | props C13 C11 C15
impl<const LIMBS: usize> WrappingSub for Int<LIMBS> {
//@+
    open spec fn wrapping_sub_req(&self, v: &Self) -> bool { LIMBS >= 1 }
    open spec fn wrapping_sub_ens(&self, v: &Self, r: Self) -> bool { r.iv() == wrap_i(self.iv() - v.iv(), LIMBS as nat) && (in_range(self.iv() - v.iv(), LIMBS as nat) ==> r.iv() == self.iv() - v.iv()) }
//@-
fn wrapping_sub(&self, v: &Self) -> (ret__: Self)
{
//@+
    proof {
        lemma_val_bound(self.0.limbs@, LIMBS as nat); lemma_val_bound(v.0.limbs@, LIMBS as nat);
        lemma_isub(self.0.v(), v.0.v(), (self.0.v() - v.0.v()) % bp(LIMBS as nat), LIMBS as nat);
    }
//@-
        Self(self.0.wrapping_sub(&v.0))
    }
}
//@@ end
//@@ fn src/int/mul.rs | impl<const LIMBS: usize, const RHS_LIMBS: usize> CheckedMul<Int<RHS_LIMBS>> for Int<LIMBS> | checked_mul | body | props C13 C11 C15
impl<const LIMBS: usize, const RHS_LIMBS: usize> CheckedMul<Int<RHS_LIMBS>> for Int<LIMBS> {
//@+
    open spec fn checked_mul_req(&self, rhs: &Int<RHS_LIMBS>) -> bool { 1 <= LIMBS < 0x400_0000 && RHS_LIMBS >= 1 && LIMBS + RHS_LIMBS <= usize::MAX }
    open spec fn checked_mul_ens(&self, rhs: &Int<RHS_LIMBS>, r: CtOption<Self>) -> bool { r.is_some.wf() && r.is_some.t() == in_range(self.iv() * rhs.iv(), LIMBS as nat) && (r.is_some.t() ==> r.value.iv() == self.iv() * rhs.iv()) }
//@-
fn checked_mul(&self, rhs: &Int<RHS_LIMBS>) -> (ret__: CtOption<Self>)
{
        let (lo, hi, is_negative) = self.split_mul(rhs);
        let val = Self::new_from_abs_sign(lo, is_negative);
//@+
    proof { lemma_val_bound(lo.limbs@, LIMBS as nat); lemma_val_bound(hi.limbs@, RHS_LIMBS as nat); lemma_checked_mul(self.iv() * rhs.iv(), lo.v(), hi.v(), is_negative.t(), LIMBS as nat); }
    assert forall|a: Choice, b: Choice| a.wf() && b.wf() implies (#[trigger] choice_and(a, b)).wf() && choice_and(a, b).t() == (a.t() && b.t()) by { lemma_choice_ops(a, b); }
//@-
        CtOption::from(val).and_then(|int|
//@+
    -> (r__: CtOption<Int<LIMBS>>)
        ensures r__.value == int, r__.is_some.wf(), r__.is_some.t() == (hi.v() == 0)
//@-
{
CtOption::new(int, hi.is_zero())
})
    }
}
//@@ end
//@@ fn src/int/mul_uint.rs | impl<const LIMBS: usize, const RHS_LIMBS: usize> CheckedMul<Uint<RHS_LIMBS>> for Int<LIMBS> | checked_mul | body | props C13 C11 C15
impl<const LIMBS: usize, const RHS_LIMBS: usize> CheckedMul<Uint<RHS_LIMBS>> for Int<LIMBS> {
//@+
    open spec fn checked_mul_req(&self, rhs: &Uint<RHS_LIMBS>) -> bool { 1 <= LIMBS < 0x400_0000 && RHS_LIMBS >= 1 && LIMBS + RHS_LIMBS <= usize::MAX }
    open spec fn checked_mul_ens(&self, rhs: &Uint<RHS_LIMBS>, r: CtOption<Self>) -> bool { r.is_some.wf() && r.is_some.t() == in_range(self.iv() * rhs.v(), LIMBS as nat) && (r.is_some.t() ==> r.value.iv() == self.iv() * rhs.v()) }
//@-
fn checked_mul(&self, rhs: &Uint<RHS_LIMBS>) -> (ret__: CtOption<Self>)
{
        let (lo, hi, is_negative) = self.split_mul_uint(rhs);
        let val = Self::new_from_abs_sign(lo, is_negative);
//@+
    proof { lemma_val_bound(lo.limbs@, LIMBS as nat); lemma_val_bound(hi.limbs@, RHS_LIMBS as nat); lemma_checked_mul(self.iv() * rhs.v(), lo.v(), hi.v(), is_negative.t(), LIMBS as nat); }
    assert forall|a: Choice, b: Choice| a.wf() && b.wf() implies (#[trigger] choice_and(a, b)).wf() && choice_and(a, b).t() == (a.t() && b.t()) by { lemma_choice_ops(a, b); }
//@-
        CtOption::from(val).and_then(|int|
//@+
    -> (r__: CtOption<Int<LIMBS>>)
        ensures r__.value == int, r__.is_some.wf(), r__.is_some.t() == (hi.v() == 0)
//@-
{
CtOption::new(int, hi.is_zero())
})
    }
}
//@@ end
//@@ fn src/int/mul_uint.rs | impl<const LIMBS: usize> Int<LIMBS> | checked_mul_uint_right | body | props C13 C11 C15
impl<const LIMBS: usize> Int<LIMBS> {
pub fn checked_mul_uint_right<const RHS_LIMBS: usize>(
        &self,
        rhs: &Uint<RHS_LIMBS>,
    ) -> (ret__: CtOption<Int<RHS_LIMBS>>)
//@+
    requires LIMBS >= 1, 1 <= RHS_LIMBS < 0x400_0000, LIMBS + RHS_LIMBS <= usize::MAX
    ensures ret__.is_some.wf(), ret__.is_some.t() == in_range(self.iv() * rhs.v(), RHS_LIMBS as nat),
        ret__.is_some.t() ==> ret__.value.iv() == self.iv() * rhs.v()
//@-
{
        let (lo, hi, is_negative) = self.split_mul_uint_right(rhs);
        let val = Int::<RHS_LIMBS>::new_from_abs_sign(lo, is_negative);
//@+
    proof { lemma_val_bound(lo.limbs@, RHS_LIMBS as nat); lemma_val_bound(hi.limbs@, LIMBS as nat); assert(rhs.v() * self.iv() == self.iv() * rhs.v()) by (nonlinear_arith);
        lemma_checked_mul(self.iv() * rhs.v(), lo.v(), hi.v(), is_negative.t(), RHS_LIMBS as nat); }
    assert forall|a: Choice, b: Choice| a.wf() && b.wf() implies (#[trigger] choice_and(a, b)).wf() && choice_and(a, b).t() == (a.t() && b.t()) by { lemma_choice_ops(a, b); }
//@-
        CtOption::from(val).and_then(|int|
//@+
    -> (r__: CtOption<Int<RHS_LIMBS>>)
        ensures r__.value == int, r__.is_some.wf(), r__.is_some.t() == (hi.v() == 0)
//@-
{
CtOption::new(int, hi.is_zero())
})
    }
}
//@@ end
//@@ fn src/int/div.rs | impl<const LIMBS: usize> Int<LIMBS> | checked_div | body | props C14 C11 C15
impl<const LIMBS: usize> Int<LIMBS> {
pub fn checked_div(&self, rhs: &Self) -> (ret__: CtOption<Self>)
//@+
    requires 1 <= LIMBS < 0x400_0000
    ensures ret__.is_some.wf(), ret__.is_some.t() == (rhs.iv() != 0 && !(self.iv() == -ih(LIMBS as nat) && rhs.iv() == -1)),
        ret__.is_some.t() ==> ret__.value.iv() == trunc_q(self.iv(), rhs.iv())
//@-
{
//@+
    assert forall|a: Choice, b: Choice| a.wf() && b.wf() implies (#[trigger] choice_and(a, b)).wf() && choice_and(a, b).t() == (a.t() && b.t()) by { lemma_choice_ops(a, b); }
//@-
        NonZero::new(*rhs).and_then(|rhs|
//@+
    -> (r__: CtOption<Int<LIMBS>>)
        requires rhs.0.iv() != 0
        ensures r__.is_some.wf(), r__.is_some.t() == !(self.iv() == -ih(LIMBS as nat) && rhs.0.iv() == -1),
            r__.is_some.t() ==> r__.value.iv() == trunc_q(self.iv(), rhs.0.iv())
//@-
{
self.checked_div_rem(&rhs).0.into()
})
    }
}
//@@ end
//@@ fn src/int/div.rs | impl<const LIMBS: usize> Int<LIMBS> | checked_div_vartime | body | props C14 C11 C15
impl<const LIMBS: usize> Int<LIMBS> {
pub fn checked_div_vartime<const RHS_LIMBS: usize>(
        &self,
        rhs: &Int<RHS_LIMBS>,
    ) -> (ret__: CtOption<Self>)
//@+
    requires 1 <= LIMBS < 0x400_0000, 1 <= RHS_LIMBS < 0x400_0000
    ensures ret__.is_some.wf(), ret__.is_some.t() == (rhs.iv() != 0 && !(self.iv() == -ih(LIMBS as nat) && rhs.iv() == -1)),
        ret__.is_some.t() ==> ret__.value.iv() == trunc_q(self.iv(), rhs.iv())
//@-
{
//@+
    assert forall|a: Choice, b: Choice| a.wf() && b.wf() implies (#[trigger] choice_and(a, b)).wf() && choice_and(a, b).t() == (a.t() && b.t()) by { lemma_choice_ops(a, b); }
//@-
        NonZero::new(*rhs).and_then(|rhs|
//@+
    -> (r__: CtOption<Int<LIMBS>>)
        requires rhs.0.iv() != 0
        ensures r__.is_some.wf(), r__.is_some.t() == !(self.iv() == -ih(LIMBS as nat) && rhs.0.iv() == -1),
            r__.is_some.t() ==> r__.value.iv() == trunc_q(self.iv(), rhs.0.iv())
//@-
{
self.checked_div_rem_vartime(&rhs).0.into()
})
    }
}
//@@ end
//@@ fn src/int/div.rs | impl<const LIMBS: usize> Int<LIMBS> | checked_div_floor_vartime | body | props C14 C11 C15
impl<const LIMBS: usize> Int<LIMBS> {
pub fn checked_div_floor_vartime<const RHS_LIMBS: usize>(
        &self,
        rhs: &Int<RHS_LIMBS>,
    ) -> (ret__: CtOption<Self>)
//@+
    requires 1 <= LIMBS < 0x400_0000, 1 <= RHS_LIMBS < 0x400_0000
    ensures ret__.is_some.wf(), ret__.is_some.t() == (rhs.iv() != 0 && !(self.iv() == -ih(LIMBS as nat) && rhs.iv() == -1)),
        ret__.is_some.t() ==> ret__.value.iv() == floor_q(self.iv(), rhs.iv())
//@-
{
//@+
    assert forall|a: Choice, b: Choice| a.wf() && b.wf() implies (#[trigger] choice_and(a, b)).wf() && choice_and(a, b).t() == (a.t() && b.t()) by { lemma_choice_ops(a, b); }
//@-
        NonZero::new(*rhs).and_then(|rhs|
//@+
    -> (r__: CtOption<Int<LIMBS>>)
        requires rhs.0.iv() != 0
        ensures r__.is_some.wf(), r__.is_some.t() == !(self.iv() == -ih(LIMBS as nat) && rhs.0.iv() == -1),
            r__.is_some.t() ==> r__.value.iv() == floor_q(self.iv(), rhs.0.iv())
//@-
{
self.checked_div_rem_floor_vartime(&rhs).0.into()
})
    }
}
//@@ end
//@@ fn src/int/div.rs | impl<const LIMBS: usize> Int<LIMBS> | checked_div_floor | body | props C14 C11 C15
impl<const LIMBS: usize> Int<LIMBS> {
pub fn checked_div_floor(&self, rhs: &Self) -> (ret__: CtOption<Self>)
//@+
    requires 1 <= LIMBS < 0x400_0000
    ensures ret__.is_some.wf(), ret__.is_some.t() == (rhs.iv() != 0 && !(self.iv() == -ih(LIMBS as nat) && rhs.iv() == -1)),
        ret__.is_some.t() ==> ret__.value.iv() == floor_q(self.iv(), rhs.iv())
//@-
{
//@+
    assert forall|a: Choice, b: Choice| a.wf() && b.wf() implies (#[trigger] choice_and(a, b)).wf() && choice_and(a, b).t() == (a.t() && b.t()) by { lemma_choice_ops(a, b); }
//@-
        NonZero::new(*rhs).and_then(|rhs|
//@+
    -> (r__: CtOption<Int<LIMBS>>)
        requires rhs.0.iv() != 0
        ensures r__.is_some.wf(), r__.is_some.t() == !(self.iv() == -ih(LIMBS as nat) && rhs.0.iv() == -1),
            r__.is_some.t() ==> r__.value.iv() == floor_q(self.iv(), rhs.0.iv())
//@-
{
self.checked_div_rem_floor(&rhs).0.into()
})
    }
}
//@@ end
//@@ fn src/int/div.rs | impl<const LIMBS: usize> CheckedDiv for Int<LIMBS> | checked_div | body | props C14 C11 C15
impl<const LIMBS: usize> CheckedDiv for Int<LIMBS> {
//@+
    open spec fn checked_div_req(&self, rhs: &Int<LIMBS>) -> bool { 1 <= LIMBS < 0x400_0000 }
    open spec fn checked_div_ens(&self, rhs: &Int<LIMBS>, r: CtOption<Self>) -> bool { r.is_some.wf() && r.is_some.t() == (rhs.iv() != 0 && !(self.iv() == -ih(LIMBS as nat) && rhs.iv() == -1)) && (r.is_some.t() ==> r.value.iv() == trunc_q(self.iv(), rhs.iv())) }
//@-
fn checked_div(&self, rhs: &Int<LIMBS>) -> (ret__: CtOption<Self>)
{
        self.checked_div(rhs)
    }
}
//@@ end
//@@ fn src/int/div.rs | impl<const LIMBS: usize> DivVartime for Int<LIMBS> | div_vartime | body | props C14 C11 C15
impl<const LIMBS: usize> DivVartime for Int<LIMBS> {
//@+
    // documented panic (since fix 98a36a6): MIN / -1 overflows (`new_from_abs_sign(2^(BITS-1), positive)` is none); hence the
    // third conjunct of the precondition. Before the fix the `expect` message claimed this could not happen.
    open spec fn div_vartime_req(&self, rhs: &NonZero<Int<LIMBS>>) -> bool { 1 <= LIMBS < 0x400_0000 && rhs.0.iv() != 0 && !(self.iv() == -ih(LIMBS as nat) && rhs.0.iv() == -1) }
    open spec fn div_vartime_ens(&self, rhs: &NonZero<Int<LIMBS>>, r: Self) -> bool { r.iv() == trunc_q(self.iv(), rhs.0.iv()) }
//@-
fn div_vartime(&self, rhs: &NonZero<Int<LIMBS>>) -> (ret__: Self)
{
        let (q, _r, lhs_sign, rhs_sign) = self.div_rem_base_vartime(rhs);
        let opposing_signs = lhs_sign.xor(rhs_sign);
//@+
    proof {
        let n = self.iv(); let d = rhs.0.iv();
        lemma_half(LIMBS as nat);
        lemma_val_bound(q.limbs@, LIMBS as nat); lemma_val_bound(_r.limbs@, LIMBS as nat);
        lemma_val_bound(self.0.limbs@, LIMBS as nat); lemma_val_bound(rhs.0.0.limbs@, LIMBS as nat);
        lemma_iv_bounds(self.0.v(), LIMBS as nat); lemma_iv_bounds(rhs.0.0.v(), LIMBS as nat);
        lemma_trunc(n, d, q.v(), _r.v());
        lemma_qbound(n, d, q.v(), _r.v(), ih(LIMBS as nat));
    }
//@-
        let q = Int::new_from_abs_sign(q, opposing_signs);
        q.expect("attempted to divide with overflow")
    }
}
//@@ end

} // verus!
