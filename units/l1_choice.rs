// L1: ConstChoice word predicates and selects (src/const_choice.rs)
use vstd::prelude::*;
use crate::speclib::*;
verus! {

//@@ rawconst src/const_choice.rs | impl ConstChoice | FALSE
impl ConstChoice {
pub const FALSE: Self = Self(0);
}
//@@ end
//@@ rawconst src/const_choice.rs | impl ConstChoice | TRUE
impl ConstChoice {
pub const TRUE: Self = Self(Word::MAX);
}
//@@ end

//@@ fn src/const_choice.rs | impl ConstChoice | as_u32_mask | body | props C06 C11
impl ConstChoice {
pub const fn as_u32_mask(&self) -> (ret__: u32)
//@+
    requires self.wf()
    ensures ret__ == (if self.t() { u32::MAX } else { 0u32 })
//@-
{
//@+
    let ghost sm = self.0;
    assert((sm as u32) == (if sm == 0xffff_ffff_ffff_ffffu64 { 0xffff_ffffu32 } else { 0u32 })) by (bit_vector) requires sm == 0 || sm == 0xffff_ffff_ffff_ffffu64;
//@-
        self.0 as u32
    }
}
//@@ end
//@@ fn src/const_choice.rs | impl ConstChoice | as_u64_mask | body | props C06 C11
impl ConstChoice {
pub const fn as_u64_mask(&self) -> (ret__: u64)
//@+
    ensures ret__ == self.0
//@-
{
        self.0
    }
}
//@@ end
//@@ fn src/const_choice.rs | impl ConstChoice | from_word_mask | body | props C06 C11
impl ConstChoice {
pub const fn from_word_mask(value: Word) -> (ret__: Self)
//@+
    requires value == 0 || value == u64::MAX
    ensures ret__.0 == value, ret__.wf(), ret__.t() == (value == u64::MAX)
//@-
{
        debug_assert!(value == Self::FALSE.0 || value == Self::TRUE.0);
        Self(value)
    }
}
//@@ end
//@@ fn src/const_choice.rs | impl ConstChoice | from_word_lsb | body | props C06 C11
impl ConstChoice {
pub const fn from_word_lsb(value: Word) -> (ret__: Self)
//@+
    requires value == 0 || value == 1
    ensures ret__.wf(), ret__.t() == (value == 1)
//@-
{
        debug_assert!(value == 0 || value == 1);
        Self(value.wrapping_neg())
    }
}
//@@ end
//@@ fn src/const_choice.rs | impl ConstChoice | from_word_msb | body | props C06 C11
impl ConstChoice {
pub const fn from_word_msb(value: Word) -> (ret__: Self)
//@+
    ensures ret__.wf(), ret__.t() == (value >= 0x8000_0000_0000_0000u64)
//@-
{
//@+
    assert((value >> 63) == 0 || (value >> 63) == 1) by (bit_vector);
    assert(((value >> 63) == 1) == (value >= 0x8000_0000_0000_0000u64)) by (bit_vector);
//@-
        Self::from_word_lsb(value >> (Word::BITS - 1))
    }
}
//@@ end
//@@ fn src/const_choice.rs | impl ConstChoice | from_wide_word_lsb | body | props C06 C11
impl ConstChoice {
pub const fn from_wide_word_lsb(value: WideWord) -> (ret__: Self)
//@+
    requires value == 0 || value == 1
    ensures ret__.wf(), ret__.t() == (value == 1)
//@-
{
//@+
    assert((0xffff_ffff_ffff_ffff_ffff_ffff_ffff_ffffu128 as u64) == 0xffff_ffff_ffff_ffffu64) by (bit_vector);
//@-
        debug_assert!(value == 0 || value == 1);
        Self(value.wrapping_neg() as Word)
    }
}
//@@ end
//@@ fn src/const_choice.rs | impl ConstChoice | from_u32_lsb | body | props C06 C11
impl ConstChoice {
pub const fn from_u32_lsb(value: u32) -> (ret__: Self)
//@+
    requires value == 0 || value == 1
    ensures ret__.wf(), ret__.t() == (value == 1)
//@-
{
        debug_assert!(value == 0 || value == 1);
        Self((value as Word).wrapping_neg())
    }
}
//@@ end
//@@ fn src/const_choice.rs | impl ConstChoice | from_u64_lsb | body | props C06 C11
impl ConstChoice {
pub const fn from_u64_lsb(value: u64) -> (ret__: Self)
//@+
    requires value == 0 || value == 1
    ensures ret__.wf(), ret__.t() == (value == 1)
//@-
{
        debug_assert!(value == 0 || value == 1);
        Self((value as Word).wrapping_neg())
    }
}
//@@ end
//@@ fn src/const_choice.rs | impl ConstChoice | from_u32_nonzero | body | props C06 C11
impl ConstChoice {
pub const fn from_u32_nonzero(value: u32) -> (ret__: Self)
//@+
    ensures ret__.wf(), ret__.t() == (value != 0)
//@-
{
//@+
    let ghost n = wneg32(value);
    proof { lemma_wneg_u32(value, n); }
    assert(((value | n) >> 31) == (if value == 0 { 0u32 } else { 1u32 })) by (bit_vector) requires n == sub(0u32, value);
//@-
        Self::from_u32_lsb((value | value.wrapping_neg()) >> (u32::BITS - 1))
    }
}
//@@ end
//@@ fn src/const_choice.rs | impl ConstChoice | from_u64_nonzero | body | props C06 C11
impl ConstChoice {
pub const fn from_u64_nonzero(value: u64) -> (ret__: Self)
//@+
    ensures ret__.wf(), ret__.t() == (value != 0)
//@-
{
//@+
    let ghost n = wneg64(value);
    proof { lemma_wneg_u64(value, n); }
    assert(((value | n) >> 63) == (if value == 0 { 0u64 } else { 1u64 })) by (bit_vector) requires n == sub(0u64, value);
//@-
        Self::from_u64_lsb((value | value.wrapping_neg()) >> (u64::BITS - 1))
    }
}
//@@ end
//@@ fn src/const_choice.rs | impl ConstChoice | from_word_nonzero | body | props C06 C11
impl ConstChoice {
pub const fn from_word_nonzero(value: Word) -> (ret__: Self)
//@+
    ensures ret__.wf(), ret__.t() == (value != 0)
//@-
{
//@+
    let ghost n = wneg64(value);
    proof { lemma_wneg_u64(value, n); }
    assert(((value | n) >> 63) == (if value == 0 { 0u64 } else { 1u64 })) by (bit_vector) requires n == sub(0u64, value);
//@-
        Self::from_word_lsb((value | value.wrapping_neg()) >> (Word::BITS - 1))
    }
}
//@@ end
//@@ fn src/const_choice.rs | impl ConstChoice | from_u32_eq | body | props C06 C11
impl ConstChoice {
pub const fn from_u32_eq(x: u32, y: u32) -> (ret__: Self)
//@+
    ensures ret__.wf(), ret__.t() == (x == y)
//@-
{
//@+
    assert(((x ^ y) == 0) == (x == y)) by (bit_vector);
//@-
        Self::from_u32_nonzero(x ^ y).not()
    }
}
//@@ end
//@@ fn src/const_choice.rs | impl ConstChoice | from_u64_eq | body | props C06 C11
impl ConstChoice {
pub const fn from_u64_eq(x: u64, y: u64) -> (ret__: Self)
//@+
    ensures ret__.wf(), ret__.t() == (x == y)
//@-
{
//@+
    assert(((x ^ y) == 0) == (x == y)) by (bit_vector);
//@-
        Self::from_u64_nonzero(x ^ y).not()
    }
}
//@@ end
//@@ fn src/const_choice.rs | impl ConstChoice | from_word_eq | body | props C06 C11
impl ConstChoice {
pub const fn from_word_eq(x: Word, y: Word) -> (ret__: Self)
//@+
    ensures ret__.wf(), ret__.t() == (x == y)
//@-
{
//@+
    assert(((x ^ y) == 0) == (x == y)) by (bit_vector);
//@-
        Self::from_word_nonzero(x ^ y).not()
    }
}
//@@ end
//@@ fn src/const_choice.rs | impl ConstChoice | from_word_lt | body | props C06 C11
impl ConstChoice {
pub const fn from_word_lt(x: Word, y: Word) -> (ret__: Self)
//@+
    ensures ret__.wf(), ret__.t() == (x < y)
//@-
{
//@+
    let ghost w = x.wrapping_sub(y);
    proof { lemma_wsub_u64(x, y, w); }
    assert(((((!x) & y) | (((!x) | y) & w)) >> 63) == (if x < y { 1u64 } else { 0u64 })) by (bit_vector) requires w == sub(x, y);
//@-
        // See "Hacker's Delight" 2nd ed, section 2-12 (Comparison predicates)
        let bit = (((!x) & y) | (((!x) | y) & (x.wrapping_sub(y)))) >> (Word::BITS - 1);
        Self::from_word_lsb(bit)
    }
}
//@@ end
//@@ fn src/const_choice.rs | impl ConstChoice | from_word_gt | body | props C06 C11
impl ConstChoice {
pub const fn from_word_gt(x: Word, y: Word) -> (ret__: Self)
//@+
    ensures ret__.wf(), ret__.t() == (x > y)
//@-
{
        Self::from_word_lt(y, x)
    }
}
//@@ end
//@@ fn src/const_choice.rs | impl ConstChoice | from_u32_lt | body | props C06 C11
impl ConstChoice {
pub const fn from_u32_lt(x: u32, y: u32) -> (ret__: Self)
//@+
    ensures ret__.wf(), ret__.t() == (x < y)
//@-
{
//@+
    let ghost w = x.wrapping_sub(y);
    proof { lemma_wsub_u32(x, y, w); }
    assert(((((!x) & y) | (((!x) | y) & w)) >> 31) == (if x < y { 1u32 } else { 0u32 })) by (bit_vector) requires w == sub(x, y);
//@-
        // See "Hacker's Delight" 2nd ed, section 2-12 (Comparison predicates)
        let bit = (((!x) & y) | (((!x) | y) & (x.wrapping_sub(y)))) >> (u32::BITS - 1);
        Self::from_u32_lsb(bit)
    }
}
//@@ end
//@@ fn src/const_choice.rs | impl ConstChoice | from_word_le | body | props C06 C11
impl ConstChoice {
pub const fn from_word_le(x: Word, y: Word) -> (ret__: Self)
//@+
    ensures ret__.wf(), ret__.t() == (x <= y)
//@-
{
//@+
    let ghost w = y.wrapping_sub(x);
    proof { lemma_wsub_u64(y, x, w); }
    assert(((((!x) | y) & ((x ^ y) | !w)) >> 63) == (if x <= y { 1u64 } else { 0u64 })) by (bit_vector) requires w == sub(y, x);
//@-
        // See "Hacker's Delight" 2nd ed, section 2-12 (Comparison predicates)
        let bit = (((!x) | y) & ((x ^ y) | !(y.wrapping_sub(x)))) >> (Word::BITS - 1);
        Self::from_word_lsb(bit)
    }
}
//@@ end
//@@ fn src/const_choice.rs | impl ConstChoice | from_wide_word_le | body | props C06 C11
impl ConstChoice {
pub const fn from_wide_word_le(x: WideWord, y: WideWord) -> (ret__: Self)
//@+
    ensures ret__.wf(), ret__.t() == (x <= y)
//@-
{
//@+
    let ghost w = y.wrapping_sub(x);
    proof { lemma_wsub_u128(y, x, w); }
    assert(((((!x) | y) & ((x ^ y) | !w)) >> 127) == (if x <= y { 1u128 } else { 0u128 })) by (bit_vector) requires w == sub(y, x);
//@-
        // See "Hacker's Delight" 2nd ed, section 2-12 (Comparison predicates)
        let bit = (((!x) | y) & ((x ^ y) | !(y.wrapping_sub(x)))) >> (WideWord::BITS - 1);
        Self::from_wide_word_lsb(bit)
    }
}
//@@ end
//@@ fn src/const_choice.rs | impl ConstChoice | from_u32_le | body | props C06 C11
impl ConstChoice {
pub const fn from_u32_le(x: u32, y: u32) -> (ret__: Self)
//@+
    ensures ret__.wf(), ret__.t() == (x <= y)
//@-
{
//@+
    let ghost w = y.wrapping_sub(x);
    proof { lemma_wsub_u32(y, x, w); }
    assert(((((!x) | y) & ((x ^ y) | !w)) >> 31) == (if x <= y { 1u32 } else { 0u32 })) by (bit_vector) requires w == sub(y, x);
//@-
        // See "Hacker's Delight" 2nd ed, section 2-12 (Comparison predicates)
        let bit = (((!x) | y) & ((x ^ y) | !(y.wrapping_sub(x)))) >> (u32::BITS - 1);
        Self::from_u32_lsb(bit)
    }
}
//@@ end
//@@ fn src/const_choice.rs | impl ConstChoice | from_u64_lt | body | props C06 C11
impl ConstChoice {
pub const fn from_u64_lt(x: u64, y: u64) -> (ret__: Self)
//@+
    ensures ret__.wf(), ret__.t() == (x < y)
//@-
{
//@+
    let ghost w = x.wrapping_sub(y);
    proof { lemma_wsub_u64(x, y, w); }
    assert(((((!x) & y) | (((!x) | y) & w)) >> 63) == (if x < y { 1u64 } else { 0u64 })) by (bit_vector) requires w == sub(x, y);
//@-
        // See "Hacker's Delight" 2nd ed, section 2-12 (Comparison predicates)
        let bit = (((!x) & y) | (((!x) | y) & (x.wrapping_sub(y)))) >> (u64::BITS - 1);
        Self::from_u64_lsb(bit)
    }
}
//@@ end
//@@ fn src/const_choice.rs | impl ConstChoice | from_u64_gt | body | props C06 C11
impl ConstChoice {
pub const fn from_u64_gt(x: u64, y: u64) -> (ret__: Self)
//@+
    ensures ret__.wf(), ret__.t() == (x > y)
//@-
{
        Self::from_u64_lt(y, x)
    }
}
//@@ end
//@@ fn src/const_choice.rs | impl ConstChoice | not | body | props C06 C11
impl ConstChoice {
pub const fn not(&self) -> (ret__: Self)
//@+
    requires self.wf()
    ensures ret__.wf(), ret__.t() == !self.t()
//@-
{
//@+
    let ghost sm = self.0;
    assert((!sm) == (if sm == 0xffff_ffff_ffff_ffffu64 { 0u64 } else { 0xffff_ffff_ffff_ffffu64 })) by (bit_vector) requires sm == 0 || sm == 0xffff_ffff_ffff_ffffu64;
//@-
        Self(!self.0)
    }
}
//@@ end
//@@ fn src/const_choice.rs | impl ConstChoice | or | body | props C06 C11
impl ConstChoice {
pub const fn or(&self, other: Self) -> (ret__: Self)
//@+
    requires self.wf(), other.wf()
    ensures ret__.wf(), ret__.t() == (self.t() || other.t())
//@-
{
//@+
    let ghost sm = self.0; let ghost om = other.0;
    assert((sm | om) == (if sm == 0xffff_ffff_ffff_ffffu64 || om == 0xffff_ffff_ffff_ffffu64 { 0xffff_ffff_ffff_ffffu64 } else { 0u64 })) by (bit_vector) requires sm == 0 || sm == 0xffff_ffff_ffff_ffffu64, om == 0 || om == 0xffff_ffff_ffff_ffffu64;
//@-
        Self(self.0 | other.0)
    }
}
//@@ end
//@@ fn src/const_choice.rs | impl ConstChoice | and | body | props C06 C11
impl ConstChoice {
pub const fn and(&self, other: Self) -> (ret__: Self)
//@+
    requires self.wf(), other.wf()
    ensures ret__.wf(), ret__.t() == (self.t() && other.t())
//@-
{
//@+
    let ghost sm = self.0; let ghost om = other.0;
    assert((sm & om) == (if sm == 0xffff_ffff_ffff_ffffu64 && om == 0xffff_ffff_ffff_ffffu64 { 0xffff_ffff_ffff_ffffu64 } else { 0u64 })) by (bit_vector) requires sm == 0 || sm == 0xffff_ffff_ffff_ffffu64, om == 0 || om == 0xffff_ffff_ffff_ffffu64;
//@-
        Self(self.0 & other.0)
    }
}
//@@ end
//@@ fn src/const_choice.rs | impl ConstChoice | xor | body | props C06 C11
impl ConstChoice {
pub const fn xor(&self, other: Self) -> (ret__: Self)
//@+
    requires self.wf(), other.wf()
    ensures ret__.wf(), ret__.t() == (self.t() != other.t())
//@-
{
//@+
    let ghost sm = self.0; let ghost om = other.0;
    assert((sm ^ om) == (if (sm == 0xffff_ffff_ffff_ffffu64) != (om == 0xffff_ffff_ffff_ffffu64) { 0xffff_ffff_ffff_ffffu64 } else { 0u64 })) by (bit_vector) requires sm == 0 || sm == 0xffff_ffff_ffff_ffffu64, om == 0 || om == 0xffff_ffff_ffff_ffffu64;
//@-
        Self(self.0 ^ other.0)
    }
}
//@@ end
//@@ fn src/const_choice.rs | impl ConstChoice | ne | body | props C06 C11
impl ConstChoice {
pub const fn ne(&self, other: Self) -> (ret__: Self)
//@+
    requires self.wf(), other.wf()
    ensures ret__.wf(), ret__.t() == (self.t() != other.t())
//@-
{
        Self::xor(self, other)
    }
}
//@@ end
//@@ fn src/const_choice.rs | impl ConstChoice | eq | body | props C06 C11
impl ConstChoice {
pub const fn eq(&self, other: Self) -> (ret__: Self)
//@+
    requires self.wf(), other.wf()
    ensures ret__.wf(), ret__.t() == (self.t() == other.t())
//@-
{
        Self::ne(self, other).not()
    }
}
//@@ end
//@@ fn src/const_choice.rs | impl ConstChoice | select_word | body | props C06 C11
impl ConstChoice {
pub const fn select_word(&self, a: Word, b: Word) -> (ret__: Word)
//@+
    requires self.wf()
    ensures ret__ == (if self.t() { b } else { a })
//@-
{
//@+
    let ghost m = self.0;
    assert((a ^ (m & (a ^ b))) == (if m == 0xffff_ffff_ffff_ffffu64 { b } else { a })) by (bit_vector) requires m == 0 || m == 0xffff_ffff_ffff_ffffu64;
//@-
        a ^ (self.0 & (a ^ b))
    }
}
//@@ end
//@@ fn src/const_choice.rs | impl ConstChoice | select_wide_word | body | props C06 C11
impl ConstChoice {
pub const fn select_wide_word(&self, a: WideWord, b: WideWord) -> (ret__: WideWord)
//@+
    requires self.wf()
    ensures ret__ == (if self.t() { b } else { a })
//@-
{
//@+
    let ghost m = self.0;
    assert((a ^ ((((m as u128) << 64) | (m as u128)) & (a ^ b))) == (if m == 0xffff_ffff_ffff_ffffu64 { b } else { a })) by (bit_vector) requires m == 0 || m == 0xffff_ffff_ffff_ffffu64;
//@-
        let mask = ((self.0 as WideWord) << Word::BITS) | (self.0 as WideWord);
        a ^ (mask & (a ^ b))
    }
}
//@@ end
//@@ fn src/const_choice.rs | impl ConstChoice | select_u32 | body | props C06 C11
impl ConstChoice {
pub const fn select_u32(&self, a: u32, b: u32) -> (ret__: u32)
//@+
    requires self.wf()
    ensures ret__ == (if self.t() { b } else { a })
//@-
{
//@+
    let ghost m = if self.t() { u32::MAX } else { 0u32 };
    assert((a ^ (m & (a ^ b))) == (if m == 0xffff_ffffu32 { b } else { a })) by (bit_vector) requires m == 0 || m == 0xffff_ffffu32;
//@-
        a ^ (self.as_u32_mask() & (a ^ b))
    }
}
//@@ end
//@@ fn src/const_choice.rs | impl ConstChoice | select_u64 | body | props C06 C11
impl ConstChoice {
pub const fn select_u64(&self, a: u64, b: u64) -> (ret__: u64)
//@+
    requires self.wf()
    ensures ret__ == (if self.t() { b } else { a })
//@-
{
//@+
    let ghost m = self.0;
    assert((a ^ (m & (a ^ b))) == (if m == 0xffff_ffff_ffff_ffffu64 { b } else { a })) by (bit_vector) requires m == 0 || m == 0xffff_ffff_ffff_ffffu64;
//@-
        a ^ (self.as_u64_mask() & (a ^ b))
    }
}
//@@ end
//@@ fn src/const_choice.rs | impl ConstChoice | if_true_word | body | props C06 C11
impl ConstChoice {
pub const fn if_true_word(&self, x: Word) -> (ret__: Word)
//@+
    requires self.wf()
    ensures ret__ == (if self.t() { x } else { 0 })
//@-
{
//@+
    let ghost m = self.0;
    assert((x & m) == (if m == 0xffff_ffff_ffff_ffffu64 { x } else { 0u64 })) by (bit_vector) requires m == 0 || m == 0xffff_ffff_ffff_ffffu64;
//@-
        x & self.0
    }
}
//@@ end
//@@ fn src/const_choice.rs | impl ConstChoice | if_true_u32 | body | props C06 C11
impl ConstChoice {
pub const fn if_true_u32(&self, x: u32) -> (ret__: u32)
//@+
    requires self.wf()
    ensures ret__ == (if self.t() { x } else { 0 })
//@-
{
//@+
    let ghost m = if self.t() { u32::MAX } else { 0u32 };
    assert((x & m) == (if m == 0xffff_ffffu32 { x } else { 0u32 })) by (bit_vector) requires m == 0 || m == 0xffff_ffffu32;
//@-
        x & self.as_u32_mask()
    }
}
//@@ end
//@@ fn src/const_choice.rs | impl ConstChoice | is_true_vartime | body | props C06 C11
impl ConstChoice {
pub const fn is_true_vartime(&self) -> (ret__: bool)
//@+
    ensures ret__ == self.t()
//@-
{
        self.0 == ConstChoice::TRUE.0
    }
}
//@@ end
//@@ fn src/const_choice.rs | impl ConstChoice | to_u8 | body | props C06 C11
impl ConstChoice {
pub const fn to_u8(self) -> (ret__: u8)
//@+
    ensures ret__ <= 1, self.wf() ==> ret__ == (if self.t() { 1u8 } else { 0u8 })
//@-
{
//@+
    let ghost m = self.0;
    assert((m == 0 || m == 0xffff_ffff_ffff_ffffu64) ==> ((m as u8) & 1) == (if m == 0xffff_ffff_ffff_ffffu64 { 1u8 } else { 0u8 })) by (bit_vector);
    assert(((m as u8) & 1) <= 1) by (bit_vector);
//@-
        (self.0 as u8) & 1
    }
}
//@@ end
//@@ fn src/const_choice.rs | impl ConstChoice | to_bool_vartime | body | props C06 C11
impl ConstChoice {
pub const fn to_bool_vartime(self) -> (ret__: bool)
//@+
    requires self.wf()
    ensures ret__ == self.t()
//@-
{
        self.to_u8() != 0
    }
}
//@@ end

} // verus!
