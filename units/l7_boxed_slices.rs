// L7: slice-level functions under the heap-allocated BoxedUint arithmetic -- C03 (boxed Karatsuba), C08 (boxed AMM)
//
// Everything here is a plain free function over `&[Limb]` / `&mut [Limb]`; `BoxedUint` itself (Box / Vec / iterators) is not touched.
//   src/uint/mul/karatsuba.rs (alloc part): adc_mul_limbs, conditional_wrapping_neg_assign, karatsuba_mul_limbs, karatsuba_square_limbs
//   src/uint/mul.rs (alloc part):           mul_limbs, square_limbs          (over l3_mul::schoolbook_multiplication / schoolbook_squaring)
//   src/modular/boxed_monty_form/mul.rs:    add_mul_carry, add_mul_carry_and_shift, conditional_sub, almost_montgomery_mul, almost_montgomery_mul_by_one
//   src/limb/bit_not.rs:                    impl Not for Limb  (karatsuba_square_limbs writes `out[i] = !out[i]`)
// All regions are `body`.  Verus accepts `split_at_mut`, `&mut s[a..b]`, `&mut s[..a]`, `&mut s[a..]`, `s[..a].fill(v)`, `usize::min`,
// `saturating_sub`, `is_empty` as they stand in /repo (vstd specs).  Assumed library specifications used by this unit:
//   `<[T]>::fill` (below); `core::panicking::assert_failed` (debug_assert_eq!, in l0_corespec.rs);
//   `NotSpecImpl for Limb` below is the spec side of the verified `impl Not for Limb` (no assumption).
// karatsuba_mul_limbs carries `#[verifier::rlimit(40)]`: its straight-line body is one SMT query of ~25-35M rlimit units (about 3 s),
// slightly above the default budget of 30M; `val` is hidden in the two Karatsuba bodies (all facts about it come from lemmas).
use vstd::prelude::*;
use vstd::arithmetic::power::*;
use vstd::arithmetic::power2::*;
use vstd::arithmetic::div_mod::*;
use core::ops::Not;
use crate::speclib::*;
use crate::speclib_bits::*;
use crate::l0_prim::*;
use crate::l0_corespec::*;
use crate::l1_choice::*;
use crate::l1_limb::*;
use crate::l2_core::*;
use crate::l3_mul::*;
use crate::l5_monty::*;
verus! {

// ---- library functions without a vstd specification (assumed)
pub assume_specification<T: Clone> [<[T]>::fill] (s: &mut [T], v: T)
    ensures final(s).len() == old(s).len(), forall|k: int| 0 <= k < old(s).len() ==> final(s)[k] == v;
// debug_assert_eq!(a, b) reaches `core::panicking::assert_failed` on inequality; its `requires false` is assumed in l0_corespec.rs

// ---- lemmas (slice level)

/// val(s, h + m) == val(s[0..h], h) + val(s[h..], m) * B^h
proof fn lemma_bs_val_split(s: Seq<Limb>, h: nat, m: nat)
    requires h + m <= s.len()
    ensures val(s, h + m) == val(s.subrange(0, h as int), h) + val(s.subrange(h as int, s.len() as int), m) * bp(h),
        val(s, h) == val(s.subrange(0, h as int), h)
    decreases m
{
    if m > 0 {
        lemma_bs_val_split(s, h, (m - 1) as nat);
        lemma_bp_add(h, (m - 1) as nat);
        let t = s.subrange(h as int, s.len() as int);
        assert(t[m - 1] == s[h + m - 1]);
        let a = t[m - 1].0 as int;
        assert((val(t, (m - 1) as nat) + a * bp((m - 1) as nat)) * bp(h) == val(t, (m - 1) as nat) * bp(h) + a * (bp(h) * bp((m - 1) as nat))) by (nonlinear_arith);
        assert((h + m - 1) as nat == (h + (m - 1)) as nat);
    } else {
        lemma_val_ext(s, s.subrange(0, h as int), h);
        assert(0 * bp(h) == 0);
    }
}

/// val of a window s[a..b] (as its own sequence): val(s, b) == val(s, a) + val(s[a..b], b - a) * B^a
proof fn lemma_bs_window(s: Seq<Limb>, a: nat, b: nat)
    requires a <= b <= s.len()
    ensures val(s, b) == val(s, a) + val(s.subrange(a as int, b as int), (b - a) as nat) * bp(a)
{
    lemma_bs_val_split(s, a, (b - a) as nat);
    let t = s.subrange(a as int, s.len() as int); let w = s.subrange(a as int, b as int);
    assert forall|k: int| 0 <= k < b - a implies t[k] == w[k] by { }
    lemma_val_ext(t, w, (b - a) as nat);
    assert((a + (b - a)) as nat == b);
}

/// one multiply-accumulate step of a schoolbook row: position k = i + j receives x·y[j]
proof fn lemma_bs_mac_step(ca: Seq<Limb>, cold: Seq<Limb>, ys: Seq<Limb>, i: nat, j: nat, x: int, carry: int, carry_before: int)
    requires
        ca[(i + j) as int].0 as int + carry * B() == cold[(i + j) as int].0 as int + x * ys[j as int].0 as int + carry_before,
    ensures
        val(ca, i + j + 1) + carry * bp(i + j + 1) - val(cold, i + j + 1)
            == val(ca, i + j) + carry_before * bp(i + j) - val(cold, i + j)
               + x * val(ys, j + 1) * bp(i) - x * val(ys, j) * bp(i)
{
    let k = i + j;
    let pk = bp(k);
    lemma_bp_succ(k);
    lemma_bp_add(i, j);
    let w = ca[k as int].0 as int;
    let c0 = cold[k as int].0 as int;
    let y = ys[j as int].0 as int;
    assert(w * pk + carry * (B() * pk) == c0 * pk + x * y * pk + carry_before * pk) by (nonlinear_arith)
        requires w + carry * B() == c0 + x * y + carry_before;
    assert(x * y * pk == x * (y * bp(j)) * bp(i)) by (nonlinear_arith)
        requires pk == bp(i) * bp(j);
    assert(x * (val(ys, j) + y * bp(j)) * bp(i) == x * val(ys, j) * bp(i) + x * (y * bp(j)) * bp(i)) by (nonlinear_arith);
    assert(val(ys, j + 1) == val(ys, j) + y * bp(j));
    assert(val(ca, k + 1) == val(ca, k) + w * pk);
    assert(val(cold, k + 1) == val(cold, k) + c0 * pk);
}

/// writing limb k with carry-out `cout`: if the limbs below k agree and ca[k] + cout·B == rhs then …
proof fn lemma_bs_limb_step(ca: Seq<Limb>, cb: Seq<Limb>, k: nat, cout: int, rhs: int)
    requires forall|j: int| 0 <= j < k ==> ca[j] == cb[j], ca[k as int].0 as int + cout * B() == rhs
    ensures val(ca, k + 1) + cout * bp(k + 1) == val(cb, k) + rhs * bp(k)
{
    lemma_val_ext(ca, cb, k); lemma_bp_succ(k);
    let w = ca[k as int].0 as int; let pk = bp(k);
    assert((w + cout * B()) * pk == w * pk + cout * (B() * pk)) by (nonlinear_arith);
}

/// end of a row of adc_mul_limbs: the row carry and the pending carry are added into limb i + m
proof fn lemma_bs_row_end(ca: Seq<Limb>, cb: Seq<Limb>, cold: Seq<Limb>, o0: Seq<Limb>, i: nat, m: nat,
    cout: int, carry2: int, carry: int, x: int, lv: int, rv: int)
    requires
        forall|j: int| 0 <= j < i + m ==> ca[j] == cb[j],
        cb[(i + m) as int] == cold[(i + m) as int], cold[(i + m) as int] == o0[(i + m) as int],
        ca[(i + m) as int].0 as int + cout * B() == cb[(i + m) as int].0 as int + carry2 + carry,
        0 <= carry <= 1, 0 <= carry2 < B(), cout >= 0,
        val(cb, i + m) + carry2 * bp(i + m) == val(cold, i + m) + x * rv * bp(i),
        val(cold, i + m) + carry * bp(i + m) == val(o0, i + m) + lv * rv,
    ensures
        val(ca, i + m + 1) + cout * bp(i + m + 1) == val(o0, i + m + 1) + (lv + x * bp(i)) * rv,
        cout <= 1
{
    let k = i + m; let a = cb[k as int].0 as int; let pk = bp(k);
    lemma_bs_limb_step(ca, cb, k, cout, a + carry2 + carry);
    assert((a + carry2 + carry) * pk == a * pk + carry2 * pk + carry * pk) by (nonlinear_arith);
    assert(val(o0, k + 1) == val(o0, k) + a * pk);
    assert((lv + x * bp(i)) * rv == lv * rv + x * rv * bp(i)) by (nonlinear_arith);
    assert(cout <= 1) by (nonlinear_arith) requires ca[k as int].0 as int + cout * B() == a + carry2 + carry, ca[k as int].0 >= 0, a < B(), carry2 < B(), carry <= 1;
}

// ---- lemmas for the boxed Karatsuba recursion

/// the Karatsuba block size chosen by karatsuba_mul_limbs: the largest even number <= min(a, b)
pub open spec fn ks_size(a: nat, b: nat) -> nat {
    let o = if a <= b { a } else { b };
    if o % 2 == 1 { (o - 1) as nat } else { o }
}

/// one limb of a borrow chain: la = lb with limb i written, (la[i], bo) = xs[i] - ys[i] - bi
proof fn lemma_bs_sbb_step(la: Seq<Limb>, lb: Seq<Limb>, xs: Seq<Limb>, ys: Seq<Limb>, i: nat, bo: int, bi: int)
    requires
        forall|k: int| 0 <= k < i ==> la[k] == lb[k],
        la[i as int].0 as int - bo * B() == xs[i as int].0 as int - ys[i as int].0 as int - bi,
        val(lb, i) - bi * bp(i) == val(xs, i) - val(ys, i),
    ensures val(la, i + 1) - bo * bp(i + 1) == val(xs, i + 1) - val(ys, i + 1)
{
    lemma_val_ext(la, lb, i);
    lemma_bp_succ(i);
    let pk = bp(i);
    let w = la[i as int].0 as int; let x = xs[i as int].0 as int; let y = ys[i as int].0 as int;
    assert((w - bo * B()) * pk == (x - y - bi) * pk);
    assert((w - bo * B()) * pk == w * pk - bo * (B() * pk)) by (nonlinear_arith);
    assert((x - y - bi) * pk == x * pk - y * pk - bi * pk) by (nonlinear_arith);
}

/// lv - b·β == a - c with everything in range: b is the sign of a - c and the conditional negation gives |a - c|
proof fn lemma_bs_abs(lv: int, b: int, be: int, a: int, c: int)
    requires lv - b * be == a - c, 0 <= lv < be, 0 <= a < be, 0 <= c < be, b == 0 || b == 1
    ensures (b == 1) == (a < c), b == 1 ==> (be - lv) % be == c - a, b == 0 ==> lv == a - c
{
    assert(b * be == (if b == 1 { be } else { 0 })) by (nonlinear_arith) requires b == 0 || b == 1;
    if b == 1 {
        lemma_small_mod((be - lv) as nat, be as nat);
    }
}

proof fn lemma_bs_val0(s: Seq<Limb>)
    ensures val(s, 0) == 0
{ }

/// 0 <= a < pa, 0 <= b < pb  ==>  0 <= a*b < pa*pb
proof fn lemma_bs_prod_bound(a: int, b: int, pa: int, pb: int)
    requires 0 <= a < pa, 0 <= b < pb
    ensures 0 <= a * b < pa * pb
{
    assert(0 <= a * b) by (nonlinear_arith) requires 0 <= a, 0 <= b;
    assert(a * b < pa * pb) by (nonlinear_arith) requires 0 <= a < pa, 0 <= b < pb;
}

/// v + c·p == t with v, c >= 0 and t < p: the carry is zero
proof fn lemma_bs_no_carry(v: int, c: int, p: int, t: int)
    requires v + c * p == t, 0 <= v, 0 <= c, t < p, p > 0
    ensures c == 0, v == t
{
    assert(c >= 1 ==> c * p >= p) by (nonlinear_arith) requires p > 0;
    assert(c == 0 ==> c * p == 0);
}

/// rr and xy in [0, w), rr + k·w == xy  ==>  k == 0
proof fn lemma_bs_no_wrap(rr: int, xy: int, k: int, w: int)
    requires 0 <= rr < w, 0 <= xy < w, rr + k * w == xy
    ensures k == 0, rr == xy
{
    assert(k >= 1 ==> k * w >= w) by (nonlinear_arith) requires w > 0;
    assert(k <= -1 ==> k * w <= -w) by (nonlinear_arith) requires w > 0;
    assert(k == 0 ==> k * w == 0);
}

/// (x0 + x1β)(y0 + y1β) = z0 + (d0·d1 + z0 + z2)β + z2β²  with z0 = x0y0, z2 = x1y1, d0 = x0 - x1, d1 = y1 - y0
proof fn lemma_bs_karatsuba_identity(x0: int, x1: int, y0: int, y1: int, be: int)
    ensures (x0 + x1 * be) * (y0 + y1 * be) == x0 * y0 + ((x0 - x1) * (y1 - y0) + x0 * y0 + x1 * y1) * be + (x1 * y1) * (be * be)
{
    let pa = x0; let pb = x1 * be; let pc = y0; let pd = y1 * be;
    let cross = x0 * y1 + x1 * y0;
    assert((pa + pb) * (pc + pd) == pa * pc + pa * pd + pb * pc + pb * pd) by (nonlinear_arith);
    assert(pa * pd == (x0 * y1) * be) by (nonlinear_arith) requires pa == x0, pd == y1 * be;
    assert(pb * pc == (x1 * y0) * be) by (nonlinear_arith) requires pb == x1 * be, pc == y0;
    assert(pb * pd == (x1 * y1) * (be * be)) by (nonlinear_arith) requires pb == x1 * be, pd == y1 * be;
    assert((x0 * y1) * be + (x1 * y0) * be == cross * be) by (nonlinear_arith) requires cross == x0 * y1 + x1 * y0;
    assert((x0 - x1) * (y1 - y0) == x0 * y1 - x0 * y0 - x1 * y1 + x1 * y0) by (nonlinear_arith);
}

/// the middle term after the conditional negation of the 2s-limb window holding |d0|·|d1|·β:
/// nv ≡ d0·d1·β (mod B^2s), as nv == d0·d1·β + e·B^2s with e in {0, 1}
proof fn lemma_bs_neg_mid(a0: int, a1: int, d0: int, d1: int, neg: bool, be: int, p2s: int, v: int, nv: int) -> (e: int)
    requires be >= 1, p2s >= be * (be * be),
        0 <= a0 < be, 0 <= a1 < be,
        a0 == (if d0 < 0 { -d0 } else { d0 }), a1 == (if d1 < 0 { -d1 } else { d1 }),
        neg == ((d0 < 0) != (d1 < 0)),
        v == a0 * a1 * be,
        nv == (if neg { (p2s - v) % p2s } else { v }),
    ensures nv == d0 * d1 * be + e * p2s, e == 0 || e == 1
{
    lemma_bs_prod_bound(a0, a1, be, be);
    let z = a0 * a1;
    assert(z * be < (be * be) * be) by (nonlinear_arith) requires z < be * be, be >= 1;
    assert((be * be) * be == be * (be * be)) by (nonlinear_arith);
    assert(z * be >= 0) by (nonlinear_arith) requires z >= 0, be >= 1;
    let sgn: int = if neg { -1 } else { 1 };
    assert(d0 * d1 == sgn * z) by (nonlinear_arith)
        requires z == a0 * a1, a0 == (if d0 < 0 { -d0 } else { d0 }), a1 == (if d1 < 0 { -d1 } else { d1 }),
            sgn == (if (d0 < 0) != (d1 < 0) { -1int } else { 1int });
    assert(d0 * d1 * be == sgn * (z * be)) by (nonlinear_arith) requires d0 * d1 == sgn * z;
    if neg {
        if v == 0 {
            lemma_mod_self_0(p2s);
            assert(0 * p2s == 0);
            0
        } else {
            lemma_small_mod((p2s - v) as nat, p2s as nat);
            assert(1 * p2s == p2s);
            1
        }
    } else {
        assert(0 * p2s == 0);
        0
    }
}

/// the 2s-limb buffer holding w in limbs half..size+half and zeros elsewhere has value w·B^half
proof fn lemma_bs_mid_val(o: Seq<Limb>, h: nat, s: nat, w: int)
    requires h + h == s, o.len() >= 2 * s,
        forall|k: int| 0 <= k < h ==> o[k].0 == 0,
        forall|k: int| s + h <= k < 2 * s ==> o[k].0 == 0,
        val(o.subrange(h as int, (s + h) as int), s) == w,
    ensures val(o, 2 * s) == w * bp(h), val(o.subrange(0, 2 * s as int), 2 * s) == w * bp(h)
{
    lemma_bs_window(o, h, s + h);
    lemma_val_zero(o, h);
    lemma_val_hi_zero(o, s + h, 2 * s);
    assert(((s + h) - h) as nat == s);
    lemma_val_ext(o, o.subrange(0, 2 * s as int), 2 * s);
}

/// the values of the pieces lhs = x ++ xt, x = x0 ++ x1 produced by split_at
proof fn lemma_bs_split_vals(l: Seq<Limb>, x: Seq<Limb>, xt: Seq<Limb>, x0: Seq<Limb>, x1: Seq<Limb>, n: nat, s: nat, h: nat)
    requires l.len() == n, h + h == s, s <= n,
        x == l.subrange(0, s as int), xt == l.subrange(s as int, n as int),
        x0 == x.subrange(0, h as int), x1 == x.subrange(h as int, s as int),
    ensures
        val(l, n) == val(x, s) + val(xt, (n - s) as nat) * bp(s),
        val(x, s) == val(x0, h) + val(x1, h) * bp(h),
        0 <= val(x0, h) < bp(h), 0 <= val(x1, h) < bp(h), 0 <= val(x, s) < bp(s), 0 <= val(xt, (n - s) as nat),
        n == s ==> val(xt, (n - s) as nat) == 0
{
    lemma_bs_val_split(l, s, (n - s) as nat);
    lemma_bs_val_split(x, h, h);
    assert((s + (n - s)) as nat == n);
    lemma_val_bound(x0, h); lemma_val_bound(x1, h); lemma_val_bound(x, s); lemma_val_bound(xt, (n - s) as nat);
}

/// lemma_bs_abs on the limbs of a difference
proof fn lemma_bs_abs_seq(d: Seq<Limb>, h: nat, b: int, a: int, c: int)
    requires val(d, h) - b * bp(h) == a - c, 0 <= a < bp(h), 0 <= c < bp(h), b == 0 || b == 1
    ensures (b == 1) == (a < c),
        (if b == 1 { (bp(h) - val(d, h)) % bp(h) } else { val(d, h) }) == (if a - c < 0 { c - a } else { a - c })
{
    lemma_val_bound(d, h);
    lemma_bs_abs(val(d, h), b, bp(h), a, c);
}

/// adding t·B^s to the first ll limbs does not overflow  ==>  adding t to the window [s, ll) does not overflow it
proof fn lemma_bs_tail_fit(o: Seq<Limb>, s: nat, ll: nat, t: int)
    requires s <= ll <= o.len(), val(o, ll) + t * bp(s) < bp(ll)
    ensures val(o.subrange(s as int, ll as int), (ll - s) as nat) + t < bp((ll - s) as nat)
{
    lemma_bs_window(o, s, ll); lemma_bp_add(s, (ll - s) as nat); lemma_val_bound(o, s); lemma_bp_succ(s);
    assert((s + (ll - s)) as nat == ll);
    let wb = val(o.subrange(s as int, ll as int), (ll - s) as nat); let q = bp((ll - s) as nat); let ps = bp(s);
    assert((wb + t) * ps == wb * ps + t * ps) by (nonlinear_arith);
    assert(wb + t < q) by (nonlinear_arith) requires (wb + t) * ps < ps * q, ps >= 1;
}

/// one limb of the ones' complement pass
proof fn lemma_bs_not_step(oa: Seq<Limb>, ob: Seq<Limb>, o0: Seq<Limb>, i: nat)
    requires forall|k: int| 0 <= k < i ==> oa[k] == ob[k], oa[i as int].0 == !o0[i as int].0,
        val(ob, i) == bp(i) - 1 - val(o0, i),
    ensures val(oa, i + 1) == bp(i + 1) - 1 - val(o0, i + 1)
{
    lemma_val_ext(oa, ob, i);
    lemma_bp_succ(i);
    let x = o0[i as int].0; let nx = oa[i as int].0;
    assert(!x == 0xffff_ffff_ffff_ffffu64 - x) by (bit_vector);
    let p = bp(i);
    assert((B() - 1 - x as int) * p == B() * p - p - x as int * p) by (nonlinear_arith);
}

/// state of a carry-propagating window addition  out[off + k] += src[k]  for k in lo..i  (carry pending at off + i):
#[verifier::opaque]
pub open spec fn adc_win(out: Seq<Limb>, o0: Seq<Limb>, src: Seq<Limb>, off: nat, lo: nat, i: nat, carry: int, cin: int) -> bool {
    val(out, off + i) + carry * bp(off + i) == val(o0, off + i) + cin * bp(off + lo) + val(src, i) * bp(off) - val(src, lo) * bp(off)
}

proof fn lemma_bs_adc_step(oa: Seq<Limb>, ob: Seq<Limb>, o0: Seq<Limb>, src: Seq<Limb>, off: nat, lo: nat, i: nat, cout: int, ci: int, cin: int)
    requires
        forall|k: int| 0 <= k < off + i ==> oa[k] == ob[k],
        ob[(off + i) as int] == o0[(off + i) as int],
        oa[(off + i) as int].0 as int + cout * B() == ob[(off + i) as int].0 as int + src[i as int].0 as int + ci,
        adc_win(ob, o0, src, off, lo, i, ci, cin),
    ensures adc_win(oa, o0, src, off, lo, i + 1, cout, cin)
{
    reveal(adc_win);
    let k = off + i; let a = ob[k as int].0 as int; let x = src[i as int].0 as int; let pk = bp(k);
    lemma_bs_limb_step(oa, ob, k, cout, a + x + ci);
    lemma_bp_add(off, i);
    assert((a + x + ci) * pk == a * pk + x * pk + ci * pk) by (nonlinear_arith);
    assert(x * pk == x * bp(i) * bp(off)) by (nonlinear_arith) requires pk == bp(off) * bp(i);
    assert((val(src, i) + x * bp(i)) * bp(off) == val(src, i) * bp(off) + x * bp(i) * bp(off)) by (nonlinear_arith);
    assert(val(o0, k + 1) == val(o0, k) + a * pk);
    assert((off + (i + 1)) as nat == k + 1);
}

/// after the window loop: the same equation on the first t limbs (limbs off + hi .. t untouched)
proof fn lemma_bs_adc_done(out: Seq<Limb>, o0: Seq<Limb>, src: Seq<Limb>, off: nat, lo: nat, hi: nat, t: nat, t2: nat, carry: int, cin: int)
    requires off + hi <= t <= t2, forall|k: int| off + hi <= k < t2 ==> out[k] == o0[k],
        adc_win(out, o0, src, off, lo, hi, carry, cin),
    ensures val(out, t) + carry * bp(off + hi) == val(o0, t) + cin * bp(off + lo) + val(src, hi) * bp(off) - val(src, lo) * bp(off),
        val(out, t2) - val(out, t) == val(o0, t2) - val(o0, t)
{
    reveal(adc_win);
    lemma_tv_ext(out, o0, off + hi, t);
    lemma_tv_ext(out, o0, t, t2);
}

/// start of a window loop (carry c pending at off + lo)
proof fn lemma_bs_adc_init(o: Seq<Limb>, src: Seq<Limb>, off: nat, lo: nat, c: int)
    ensures adc_win(o, o, src, off, lo, lo, c, c)
{
    reveal(adc_win);
}

/// the six window additions of karatsuba_mul_limbs put together (β = B^half, ps = B^size, …):
/// nv is the (conditionally negated) middle product, z0 = x0·y0 and z2 = x1·y1 are added at offsets 0, half and half, size.
proof fn lemma_bs_kmul_arith(p0: int, be: int, ps: int, psh: int, p2s: int,
    x0: int, x1: int, y0: int, y1: int, nv: int, e: int,
    zz0: int, z0l: int, z0v: int, zz2: int, z2l: int, z2v: int,
    v1: int, ca: int, v2: int, cb: int, v3: int, cc: int, v4: int, cd: int, v5: int, ce: int, v6: int, cf: int)
    requires
        p0 == 1, be >= 1, ps == be * be, psh == ps * be, p2s == ps * ps,
        0 <= x0 < be, 0 <= x1 < be, 0 <= y0 < be, 0 <= y1 < be,
        nv == (x0 - x1) * (y1 - y0) * be + e * p2s,
        zz0 == 0, zz2 == 0, z0v == x0 * y0, z2v == x1 * y1,
        v1 + ca * ps == nv + z0v * p0 - zz0 * p0,
        v2 + cb * ps == v1 + z0l * be - zz0 * be,
        v3 + cc * psh == v2 + (ca + cb) * ps + z0v * be - z0l * be,
        v4 + cd * psh == v3 + z2v * be - zz2 * be,
        v5 + ce * psh == v4 + z2l * ps - zz2 * ps,
        v6 + cf * p2s == v5 + (cc + cd + ce) * psh + z2v * ps - z2l * ps,
        0 <= v6 < p2s,
    ensures v6 == (x0 + x1 * be) * (y0 + y1 * be)
{
    assert(z0v * p0 == z0v) by (nonlinear_arith) requires p0 == 1;
    assert(zz0 * p0 == 0 && zz0 * be == 0 && zz2 * be == 0 && zz2 * ps == 0) by (nonlinear_arith) requires zz0 == 0, zz2 == 0;
    assert((ca + cb) * ps == ca * ps + cb * ps) by (nonlinear_arith);
    assert((cc + cd + ce) * psh == cc * psh + cd * psh + ce * psh) by (nonlinear_arith);
    // everything summed up
    assert(v6 + cf * p2s == nv + z0v + z0v * be + z2v * be + z2v * ps);
    let d = (x0 - x1) * (y1 - y0);
    lemma_bs_karatsuba_identity(x0, x1, y0, y1, be);
    let xy = (x0 + x1 * be) * (y0 + y1 * be);
    assert((d + z0v + z2v) * be == d * be + z0v * be + z2v * be) by (nonlinear_arith);
    assert(xy == z0v + d * be + z0v * be + z2v * be + z2v * ps);
    assert(v6 + cf * p2s == xy + e * p2s);
    assert((cf - e) * p2s == cf * p2s - e * p2s) by (nonlinear_arith);
    let xv = x0 + x1 * be; let yv = y0 + y1 * be;
    assert(x1 * be <= (be - 1) * be) by (nonlinear_arith) requires 0 <= x1 <= be - 1, be >= 1;
    assert(y1 * be <= (be - 1) * be) by (nonlinear_arith) requires 0 <= y1 <= be - 1, be >= 1;
    assert(x1 * be >= 0 && y1 * be >= 0) by (nonlinear_arith) requires 0 <= x1, 0 <= y1, be >= 1;
    assert((be - 1) * be == ps - be) by (nonlinear_arith) requires ps == be * be;
    lemma_bs_prod_bound(xv, yv, ps, ps);
    lemma_bs_no_wrap(v6, xy, cf - e, p2s);
}

/// trailing limbs: lhs = x + xt·B^s, rhs = y + yt·B^s
proof fn lemma_bs_tail(xv: int, xt: int, yv: int, yt: int, ps: int, lv: int, rv: int)
    requires lv == xv + xt * ps, rv == yv + yt * ps, 0 <= xv, 0 <= xt, 0 <= yv, 0 <= yt, ps >= 1
    ensures lv * rv == xv * yv + xt * rv * ps + yt * xv * ps,
        0 <= xv * yv + xt * rv * ps <= lv * rv
{
    assert((xv + xt * ps) * rv == xv * rv + xt * rv * ps) by (nonlinear_arith);
    assert(xv * (yv + yt * ps) == xv * yv + yt * xv * ps) by (nonlinear_arith);
    assert(yt * xv * ps >= 0) by (nonlinear_arith) requires yt >= 0, xv >= 0, ps >= 1;
    assert(xv * yv >= 0) by (nonlinear_arith) requires xv >= 0, yv >= 0;
    assert(rv >= 0) by (nonlinear_arith) requires rv == yv + yt * ps, yv >= 0, yt >= 0, ps >= 1;
    assert(xt * rv * ps >= 0) by (nonlinear_arith) requires xt >= 0, rv >= 0, ps >= 1;
}

/// adding a product into the window [a, b) of `out` (carry c out of the window)
proof fn lemma_bs_window_add(oa: Seq<Limb>, ob: Seq<Limb>, a: nat, b: nat, c: int, prod: int)
    requires a <= b <= oa.len(), oa.len() == ob.len(),
        forall|k: int| 0 <= k < a ==> oa[k] == ob[k],
        val(oa.subrange(a as int, b as int), (b - a) as nat) + c * bp((b - a) as nat) == val(ob.subrange(a as int, b as int), (b - a) as nat) + prod,
    ensures val(oa, b) + c * bp(b) == val(ob, b) + prod * bp(a)
{
    lemma_bs_window(oa, a, b); lemma_bs_window(ob, a, b);
    lemma_val_ext(oa, ob, a);
    lemma_bp_add(a, (b - a) as nat);
    assert((a + (b - a)) as nat == b);
    let wa = val(oa.subrange(a as int, b as int), (b - a) as nat); let wb = val(ob.subrange(a as int, b as int), (b - a) as nat);
    assert((wa + c * bp((b - a) as nat)) * bp(a) == wa * bp(a) + c * (bp(a) * bp((b - a) as nat))) by (nonlinear_arith);
    assert((wb + prod) * bp(a) == wb * bp(a) + prod * bp(a)) by (nonlinear_arith);
}

// spec side of `impl Not for Limb` (vstd's specification of core::ops::Not): `!limb` is the bitwise complement
impl vstd::std_specs::ops::NotSpecImpl for Limb {
    open spec fn obeys_not_spec() -> bool { true }
    open spec fn not_req(self) -> bool { true }
    open spec fn not_spec(self) -> Limb { Limb(!self.0) }
}
//@@ fn src/limb/bit_not.rs | impl Not for Limb | not | body | props C05 C11
impl Not for Limb {
//@+
    type Output = Limb;
//@-
fn not(self) -> (ret__: <Self as Not>::Output)
//@+
    ensures ret__.0 == !self.0
//@-
{
        self.not()
    }
}
//@@ end
//@@ rawconst src/uint/mul/karatsuba.rs | - | KARATSUBA_MAX_REDUCE_LIMBS
pub const KARATSUBA_MAX_REDUCE_LIMBS: usize = 24;
//@@ end
//@@ fn src/uint/mul/karatsuba.rs | - | adc_mul_limbs | body | props C03 C11
pub fn adc_mul_limbs(lhs: &[Limb], rhs: &[Limb], out: &mut [Limb]) -> (ret__: Limb)
//@+
    requires lhs.len() + rhs.len() == old(out).len()
    ensures final(out).len() == old(out).len(), ret__.0 <= 1,
        val(final(out)@, old(out).len() as nat) + ret__.0 as int * bp(old(out).len() as nat)
            == val(old(out)@, old(out).len() as nat) + val(lhs@, lhs.len() as nat) * val(rhs@, rhs.len() as nat),
        val(old(out)@, old(out).len() as nat) + val(lhs@, lhs.len() as nat) * val(rhs@, rhs.len() as nat) < bp(old(out).len() as nat) ==> ret__.0 == 0
            && val(final(out)@, old(out).len() as nat) == val(old(out)@, old(out).len() as nat) + val(lhs@, lhs.len() as nat) * val(rhs@, rhs.len() as nat)
//@-
{
    if lhs.len() + rhs.len() != out.len() {
        panic!("adc_mul_limbs length mismatch");
    }
//@+
    let ghost n = lhs.len() as nat; let ghost m = rhs.len() as nat;
    let ghost o0 = out@;
    proof { assert(val(lhs@, 0) * val(rhs@, m) == 0) by (nonlinear_arith) requires val(lhs@, 0) == 0; }
//@-
    let mut carry = Limb::ZERO;
    let mut i = 0;
    while i < lhs.len()
//@+
        invariant
            n == lhs.len(), m == rhs.len(), out.len() == n + m, o0.len() == n + m, i <= n, carry.0 <= 1,
            forall|k: int| i + m <= k < n + m ==> out@[k] == o0[k],
            val(out@, (i + m) as nat) + carry.0 as int * bp((i + m) as nat) == val(o0, (i + m) as nat) + val(lhs@, i as nat) * val(rhs@, m),
        decreases n - i
//@-
{
        let mut j = 0;
        let mut carry2 = Limb::ZERO;
        let xi = lhs[i];
//@+
        let ghost cold = out@;
        proof {
            lemma_bp_succ(0);
            assert(xi.0 as int * val(rhs@, 0) * bp(i as nat) == 0) by (nonlinear_arith) requires val(rhs@, 0) == 0;
        }
//@-
        while j < rhs.len()
//@+
            invariant
                n == lhs.len(), m == rhs.len(), out.len() == n + m, cold.len() == n + m, i < n, j <= m, xi == lhs[i as int],
                forall|k: int| i + j <= k < n + m ==> out@[k] == cold[k],
                val(out@, (i + j) as nat) + carry2.0 as int * bp((i + j) as nat) == val(cold, (i + j) as nat) + xi.0 as int * val(rhs@, j as nat) * bp(i as nat),
            decreases m - j
//@-
{
            let k = i + j;
//@+
            let ghost c_before = out@;
            let ghost carry_before = carry2;
//@-
            let (__t0, __t1) = out[k].mac(xi, rhs[j], carry2); out[k] = __t0; carry2 = __t1;
//@+
            proof {
                lemma_val_ext(c_before, out@, k as nat);
                assert(c_before[k as int] == cold[k as int]);
                lemma_bs_mac_step(out@, cold, rhs@, i as nat, j as nat, xi.0 as int, carry2.0 as int, carry_before.0 as int);
            }
//@-
            j += 1;
        }
        // `carry + carry2` can exceed a limb when `out` already holds data: add both with carry propagation
//@+
        let ghost c_before = out@;
        let ghost carry_b = carry;
//@-
        let (__t2, __t3) = out[i + j].adc(carry2, carry); out[i + j] = __t2; carry = __t3;
//@+
        proof {
            lemma_bs_row_end(out@, c_before, cold, o0, i as nat, m, carry.0 as int, carry2.0 as int, carry_b.0 as int,
                xi.0 as int, val(lhs@, i as nat), val(rhs@, m));
            assert((i + 1 + m) as nat == (i + m + 1) as nat);
        }
//@-
        i += 1;
    }
//@+
    proof {
        let t = val(o0, (n + m) as nat) + val(lhs@, n) * val(rhs@, m);
        lemma_val_bound(out@, (n + m) as nat); lemma_bp_succ((n + m) as nat);
        if t < bp((n + m) as nat) { lemma_bs_no_carry(val(out@, (n + m) as nat), carry.0 as int, bp((n + m) as nat), t); }
    }
//@-
    carry
}
//@@ end
//@@ fn src/uint/mul/karatsuba.rs | - | conditional_wrapping_neg_assign | body | props C03 C11
pub fn conditional_wrapping_neg_assign(limbs: &mut [Limb], choice: ConstChoice)
//@+
    requires choice.wf()
    ensures final(limbs).len() == old(limbs).len(),
        !choice.t() ==> final(limbs)@ == old(limbs)@,
        val(final(limbs)@, old(limbs).len() as nat) == (if choice.t() { (bp(old(limbs).len() as nat) - val(old(limbs)@, old(limbs).len() as nat)) % bp(old(limbs).len() as nat) } else { val(old(limbs)@, old(limbs).len() as nat) })
//@-
{
    let mut carry = choice.select_word(0, 1) as WideWord;
    let mut r;
    let mut i = 0;
//@+
    let ghost l0 = limbs@; let ghost n = limbs.len() as nat;
    proof { lemma_bp1(); }
//@-
    while i < limbs.len()
//@+
        invariant
            limbs.len() == n, l0.len() == n, i <= n, carry <= 1, choice.wf(),
            forall|k: int| i <= k < n ==> limbs@[k] == l0[k],
            !choice.t() ==> carry == 0 && forall|k: int| 0 <= k < i ==> limbs@[k] == l0[k],
            choice.t() ==> val(limbs@, i as nat) + carry as int * bp(i as nat) == bp(i as nat) - val(l0, i as nat),
        decreases n - i
//@-
{
//@+
        let ghost lb = limbs@; let ghost c0 = carry; let ghost a = limbs@[i as int].0;
        assert((!a) as int == 0xffff_ffff_ffff_ffff - a as int) by (bit_vector);
//@-
        r = (choice.select_word(limbs[i].0, !limbs[i].0) as WideWord) + carry;
        limbs[i].0 = r as Word;
        carry = r >> Word::BITS;
//@+
        proof {
            lemma_split128(r);
            assert(r >> 64 <= 1) by (bit_vector) requires r <= 0x1_0000_0000_0000_0000u128;
            assert((r >> 64) as u64 == r >> 64) by (bit_vector) requires r <= 0x1_0000_0000_0000_0000u128;
            if choice.t() {
                lemma_val_ext(lb, limbs@, i as nat);
                lemma_bp_succ(i as nat);
                let p = bp(i as nat);
                let lo = (r as u64) as int; let hi = ((r >> 64) as u64) as int;
                assert((hi * B() + lo) * p == (B() - 1 - a as int + c0 as int) * p);
                assert((hi * B() + lo) * p == hi * (B() * p) + lo * p) by (nonlinear_arith);
                assert((B() - 1 - a as int + c0 as int) * p == B() * p - p - a as int * p + c0 as int * p) by (nonlinear_arith);
            } else {
                assert(r == a as u128);
                assert(r >> 64 == 0) by (bit_vector) requires r <= 0xffff_ffff_ffff_ffffu128;
                assert(r as u64 == a);
                assert(limbs@[i as int] == l0[i as int]);
            }
        }
//@-
        i += 1;
    }
//@+
    proof {
        if choice.t() {
            lemma_val_bound(limbs@, n); lemma_val_bound(l0, n);
            let w = bp(n); let v = val(l0, n);
            if v == 0 { lemma_mod_self_0(w); } else { lemma_small_mod((w - v) as nat, w as nat); }
        } else {
            assert(limbs@ =~= l0);
        }
    }
//@-
}
//@@ end
//@@ fn src/uint/mul.rs | - | mul_limbs | body | props C03 C11
pub fn mul_limbs(lhs: &[Limb], rhs: &[Limb], out: &mut [Limb])
//@+
    requires lhs.len() + rhs.len() == old(out).len(),
        forall|k: int| 0 <= k < old(out).len() ==> old(out)[k].0 == 0,
    ensures final(out).len() == old(out).len(),
        val(final(out)@, old(out).len() as nat) == val(lhs@, lhs.len() as nat) * val(rhs@, rhs.len() as nat)
//@-
{
    debug_assert_eq!(lhs.len() + rhs.len(), out.len());
    let (lo, hi) = out.split_at_mut(lhs.len());
    schoolbook_multiplication(lhs, rhs, lo, hi);
//@+
    proof { assert(out@ =~= lo@ + hi@); }
//@-
}
//@@ end
//@@ fn src/uint/mul.rs | - | square_limbs | body | props C03 C11
pub fn square_limbs(limbs: &[Limb], out: &mut [Limb])
//@+
    requires limbs.len() >= 1, limbs.len() * 2 == old(out).len(),
        forall|k: int| 0 <= k < old(out).len() ==> old(out)[k].0 == 0,
    ensures final(out).len() == old(out).len(),
        val(final(out)@, old(out).len() as nat) == val(limbs@, limbs.len() as nat) * val(limbs@, limbs.len() as nat)
//@-
{
    debug_assert_eq!(limbs.len() * 2, out.len());
    let (lo, hi) = out.split_at_mut(limbs.len());
    schoolbook_squaring(limbs, lo, hi);
//@+
    proof { assert(out@ =~= lo@ + hi@); }
//@-
}
//@@ end
//@@ fn src/uint/mul/karatsuba.rs | - | karatsuba_mul_limbs | body | props C03 C11
//@+
#[verifier::rlimit(40)]
//@-
pub fn karatsuba_mul_limbs(
    lhs: &[Limb],
    rhs: &[Limb],
    out: &mut [Limb],
    scratch: &mut [Limb],
)
//@+
    requires lhs.len() + rhs.len() == old(out).len(),
        ks_size(lhs.len() as nat, rhs.len() as nat) > 24 ==> old(scratch).len() >= 2 * ks_size(lhs.len() as nat, rhs.len() as nat),
    ensures final(out).len() == old(out).len(), final(scratch).len() == old(scratch).len(),
        val(final(out)@, old(out).len() as nat) == val(lhs@, lhs.len() as nat) * val(rhs@, rhs.len() as nat)
    decreases lhs.len() + rhs.len()
//@-
{
//@+
    hide(val);
    let ghost n = lhs.len() as nat; let ghost m = rhs.len() as nat; let ghost ll = (n + m) as nat;
    let ghost lhsv = val(lhs@, n); let ghost rhsv = val(rhs@, m);
    proof {
        lemma_val_bound(lhs@, n); lemma_val_bound(rhs@, m); lemma_bp_add(n, m);
        lemma_bs_prod_bound(lhsv, rhsv, bp(n), bp(m));
    }
//@-
    let size = {
        let overlap = lhs.len().min(rhs.len());
//@+
        assert(((overlap & 1) == 1) == (overlap % 2 == 1)) by (bit_vector);
//@-
        if (overlap & 1) == 1 {
            overlap.saturating_sub(1)
        } else {
            overlap
        }
    };
//@+
    assert(size == ks_size(n, m));
//@-
    if size <= KARATSUBA_MAX_REDUCE_LIMBS {
        out.fill(Limb::ZERO);
//@+
        let ghost oz = out@;
        proof { lemma_val_zero(oz, ll); }
//@-
        adc_mul_limbs(lhs, rhs, out);
//@+
//@-
        return;
    }
    if lhs.len() + rhs.len() != out.len() || scratch.len() < 2 * size {
        panic!("invalid arguments to karatsuba_mul_limbs");
    }
    let half = size / 2;
//@+
    let ghost s = size as nat; let ghost h = half as nat;
    let ghost be = bp(h); let ghost ps = bp(s); let ghost psh = bp(s + h); let ghost p2s = bp(2 * s);
    proof {
        assert(h + h == s);
        lemma_bp_add(h, h); lemma_bp_add(s, h); lemma_bp_add(s, s); lemma_bp_succ(h); lemma_bp_succ(0);
        assert((s + s) as nat == 2 * s);
        assert(ks_size(h, h) <= h);
    }
//@-
    let (scratch, ext_scratch) = scratch.split_at_mut(size);
    let (x, xt) = lhs.split_at(size);
    let (y, yt) = rhs.split_at(size);
    let (x0, x1) = x.split_at(half);
    let (y0, y1) = y.split_at(half);
//@+
    let ghost x0v = val(x0@, h); let ghost x1v = val(x1@, h); let ghost y0v = val(y0@, h); let ghost y1v = val(y1@, h);
    let ghost xv = val(x@, s); let ghost yv = val(y@, s);
    let ghost xtv = val(xt@, (n - s) as nat); let ghost ytv = val(yt@, (m - s) as nat);
    proof {
        lemma_bs_split_vals(lhs@, x@, xt@, x0@, x1@, n, s, h);
        lemma_bs_split_vals(rhs@, y@, yt@, y0@, y1@, m, s, h);
    }
//@-
    // Initialize output buffer
    out.fill(Limb::ZERO);
    // Calculate abs(x0 - x1) and abs(y1 - y0)
    let mut i = 0;
    let mut borrow0 = Limb::ZERO;
    let mut borrow1 = Limb::ZERO;
//@+
    proof {
        lemma_bs_val0(scratch@); lemma_bs_val0(scratch@.subrange(h as int, s as int));
        lemma_bs_val0(x0@); lemma_bs_val0(x1@); lemma_bs_val0(y0@); lemma_bs_val0(y1@);
    }
//@-
    while i < half
//@+
        invariant i <= h, h == half, h + h == s, scratch.len() == s, x0.len() == h, x1.len() == h, y0.len() == h, y1.len() == h,
            borrow0.0 == 0 || borrow0.0 == u64::MAX, borrow1.0 == 0 || borrow1.0 == u64::MAX,
            val(scratch@, i as nat) - bb(borrow0) * bp(i as nat) == val(x0@, i as nat) - val(x1@, i as nat),
            val(scratch@.subrange(h as int, s as int), i as nat) - bb(borrow1) * bp(i as nat) == val(y1@, i as nat) - val(y0@, i as nat),
        decreases h - i
//@-
{
//@+
        let ghost sa = scratch@; let ghost b0 = borrow0; let ghost b1 = borrow1;
//@-
        let (__t0, __t1) = x0[i].sbb(x1[i], borrow0); scratch[i] = __t0; borrow0 = __t1;
        let (__t2, __t3) = y1[i].sbb(y0[i], borrow1); scratch[i + half] = __t2; borrow1 = __t3;
//@+
        proof {
            lemma_bs_sbb_step(scratch@, sa, x0@, x1@, i as nat, bb(borrow0), bb(b0));
            lemma_bs_sbb_step(scratch@.subrange(h as int, s as int), sa.subrange(h as int, s as int), y1@, y0@, i as nat, bb(borrow1), bb(b1));
        }
//@-
        i += 1;
    }
//@+
    let ghost s1 = scratch@;
    let ghost d0 = x0v - x1v; let ghost d1 = y1v - y0v;
    let ghost a0: int = if d0 < 0 { -d0 } else { d0 }; let ghost a1: int = if d1 < 0 { -d1 } else { d1 };
    let ghost neg0 = borrow0.0 == u64::MAX; let ghost neg1 = borrow1.0 == u64::MAX;
    let ghost lv0 = val(s1.subrange(0, h as int), h); let ghost lv1 = val(s1.subrange(h as int, s as int), h);
    proof {
        lemma_val_ext(s1, s1.subrange(0, h as int), h);
        lemma_bs_abs_seq(s1.subrange(0, h as int), h, bb(borrow0), x0v, x1v);
        lemma_bs_abs_seq(s1.subrange(h as int, s as int), h, bb(borrow1), y1v, y0v);
    }
//@-
    // Conditionally negate terms depending whether they borrowed
    conditional_wrapping_neg_assign(&mut scratch[..half], ConstChoice::from_word_mask(borrow0.0));
//@+
    let ghost s1b = scratch@;
    proof {
        assert(s1b.subrange(h as int, s as int) =~= s1.subrange(h as int, s as int));
        assert(val(s1b.subrange(0, h as int), h) == a0);
    }
//@-
    conditional_wrapping_neg_assign(
        &mut scratch[half..size],
        ConstChoice::from_word_mask(borrow1.0),
    );
//@+
    let ghost s2 = scratch@;
    let ghost o1 = out@;
    proof {
        assert(s2.subrange(0, h as int) =~= s1b.subrange(0, h as int));
        assert(val(s2.subrange(h as int, s as int), h) == a1);
    }
//@-
    // Calculate abs(z1) = abs(x0 - x1)•abs(y1 - y0)
    karatsuba_mul_limbs(
        &scratch[..half],
        &scratch[half..size],
        &mut out[half..size + half],
        ext_scratch,
    );
    let z1_neg = ConstChoice::from_word_mask(borrow0.0).xor(ConstChoice::from_word_mask(borrow1.0));
//@+
    let ghost o2 = out@;
    let ghost vmid = a0 * a1 * be;
    proof {
        assert(((s + h) - h) as nat == s);
        lemma_bs_mid_val(o2, h, s, a0 * a1);
    }
//@-
    // Conditionally negate the output
    conditional_wrapping_neg_assign(&mut out[..2 * size], z1_neg);
//@+
    let ghost o3 = out@;
    let ghost nv = val(o3, 2 * s);
    let ghost e: int;
    proof {
        lemma_val_ext(o3, o3.subrange(0, 2 * s as int), 2 * s);
        assert(z1_neg.t() == (neg0 != neg1));
        assert(nv == (if z1_neg.t() { (p2s - vmid) % p2s } else { vmid }));
        assert(ps * ps >= be * (be * be)) by (nonlinear_arith) requires ps == be * be, be >= 1;
        e = lemma_bs_neg_mid(a0, a1, d0, d1, z1_neg.t(), be, p2s, vmid, nv);
        assert(forall|k: int| 2 * s <= k < ll ==> o3[k].0 == 0);
    }
//@-
    // Calculate z0 = x0•y0 into scratch
    karatsuba_mul_limbs(x0, y0, scratch, ext_scratch);
    // Add z0•(1 + b) to output
    let mut carry = Limb::ZERO;
    let mut carry2 = Limb::ZERO;
    i = 0;
//@+
    let ghost z0 = scratch@;
    proof { lemma_bs_val0(z0); lemma_bs_adc_init(o3, z0, 0, 0, 0); }
//@-
    while i < size
//@+
        invariant i <= s, s == size, 2 * s <= ll, out.len() == ll, o3.len() == ll, scratch.len() == s, carry.0 <= 2,
            forall|k: int| i <= k < ll ==> #[trigger] out@[k] == o3[k],
            adc_win(out@, o3, scratch@, 0, 0, i as nat, carry.0 as int, 0),
        decreases s - i
//@-
{
//@+
        let ghost ob = out@; let ghost cb = carry;
//@-
        let (__t4, __t5) = out[i].adc(scratch[i], carry); out[i] = __t4; carry = __t5; // add z0
//@+
        proof { lemma_bs_adc_step(out@, ob, o3, scratch@, 0, 0, i as nat, carry.0 as int, cb.0 as int, 0); }
//@-
        i += 1;
    }
    i = 0;
//@+
    let ghost o4 = out@; let ghost v1 = val(o4, 2 * s); let ghost ca = carry.0 as int;
    proof { lemma_bs_adc_done(o4, o3, z0, 0, 0, s, 2 * s, ll, ca, 0); lemma_bs_adc_init(o4, z0, h, 0, 0); }
//@-
    while i < half
//@+
        invariant i <= h, h == half, h + h == s, 2 * s <= ll, out.len() == ll, o4.len() == ll, scratch.len() == s, carry2.0 <= 2,
            forall|k: int| h + i <= k < ll ==> #[trigger] out@[k] == o4[k],
            adc_win(out@, o4, scratch@, h, 0, i as nat, carry2.0 as int, 0),
        decreases h - i
//@-
{
//@+
        let ghost ob = out@; let ghost cb = carry2;
//@-
        let (__t6, __t7) = out[i + half].adc(scratch[i], carry2); out[i + half] = __t6; carry2 = __t7; // add z0.0
//@+
        proof { lemma_bs_adc_step(out@, ob, o4, scratch@, h, 0, i as nat, carry2.0 as int, cb.0 as int, 0); }
//@-
        i += 1;
    }
//@+
    let ghost o5 = out@; let ghost v2 = val(o5, 2 * s); let ghost cb = carry2.0 as int;
    proof {
        lemma_bs_adc_done(o5, o4, z0, h, 0, h, 2 * s, ll, cb, 0);
        lemma_small_mod((ca + cb) as nat, B() as nat);
        lemma_bs_adc_init(o5, z0, h, h, ca + cb);
    }
//@-
    carry = carry.wrapping_add(carry2);
    while i < size
//@+
        invariant h <= i <= s, h == half, s == size, h + h == s, 2 * s <= ll, out.len() == ll, o5.len() == ll, scratch.len() == s, carry.0 <= 4,
            forall|k: int| h + i <= k < ll ==> #[trigger] out@[k] == o5[k],
            adc_win(out@, o5, scratch@, h, h, i as nat, carry.0 as int, ca + cb),
        decreases s - i
//@-
{
//@+
        let ghost ob = out@; let ghost cbb = carry;
//@-
        let (__t8, __t9) = out[i + half].adc(scratch[i], carry); out[i + half] = __t8; carry = __t9; // add z0.1
//@+
        proof { lemma_bs_adc_step(out@, ob, o5, scratch@, h, h, i as nat, carry.0 as int, cbb.0 as int, ca + cb); }
//@-
        i += 1;
    }
//@+
    let ghost o6 = out@; let ghost v3 = val(o6, 2 * s); let ghost cc = carry.0 as int;
    proof { lemma_bs_adc_done(o6, o5, z0, h, h, s, 2 * s, ll, cc, ca + cb); }
//@-
    // Calculate z2 = x1•y1 into scratch
    karatsuba_mul_limbs(x1, y1, scratch, ext_scratch);
    // Add z2•(b + b^2) to output
    carry2 = Limb::ZERO;
    i = 0;
//@+
    let ghost z2 = scratch@;
    proof { lemma_bs_val0(z2); lemma_bs_adc_init(o6, z2, h, 0, 0); }
//@-
    while i < size
//@+
        invariant i <= s, h == half, s == size, h + h == s, 2 * s <= ll, out.len() == ll, o6.len() == ll, scratch.len() == s, carry2.0 <= 2,
            forall|k: int| h + i <= k < ll ==> #[trigger] out@[k] == o6[k],
            adc_win(out@, o6, scratch@, h, 0, i as nat, carry2.0 as int, 0),
        decreases s - i
//@-
{
//@+
        let ghost ob = out@; let ghost cbb = carry2;
//@-
        let (__t10, __t11) = out[i + half].adc(scratch[i], carry2); out[i + half] = __t10; carry2 = __t11; // add z2
//@+
        proof { lemma_bs_adc_step(out@, ob, o6, scratch@, h, 0, i as nat, carry2.0 as int, cbb.0 as int, 0); }
//@-
        i += 1;
    }
//@+
    let ghost o7 = out@; let ghost v4 = val(o7, 2 * s); let ghost cd = carry2.0 as int;
    proof {
        lemma_bs_adc_done(o7, o6, z2, h, 0, s, 2 * s, ll, cd, 0);
        lemma_small_mod((cc + cd) as nat, B() as nat);
        lemma_bs_adc_init(o7, z2, s, 0, 0);
    }
//@-
    carry = carry.wrapping_add(carry2);
    carry2 = Limb::ZERO;
    i = 0;
    while i < half
//@+
        invariant i <= h, h == half, s == size, h + h == s, 2 * s <= ll, out.len() == ll, o7.len() == ll, scratch.len() == s, carry2.0 <= 2,
            forall|k: int| s + i <= k < ll ==> #[trigger] out@[k] == o7[k],
            adc_win(out@, o7, scratch@, s, 0, i as nat, carry2.0 as int, 0),
        decreases h - i
//@-
{
//@+
        let ghost ob = out@; let ghost cbb = carry2;
//@-
        let (__t12, __t13) = out[i + size].adc(scratch[i], carry2); out[i + size] = __t12; carry2 = __t13; // add z2.0
//@+
        proof { lemma_bs_adc_step(out@, ob, o7, scratch@, s, 0, i as nat, carry2.0 as int, cbb.0 as int, 0); }
//@-
        i += 1;
    }
//@+
    let ghost o8 = out@; let ghost v5 = val(o8, 2 * s); let ghost ce = carry2.0 as int;
    proof {
        lemma_bs_adc_done(o8, o7, z2, s, 0, h, 2 * s, ll, ce, 0);
        lemma_small_mod((cc + cd + ce) as nat, B() as nat);
        lemma_bs_adc_init(o8, z2, s, h, cc + cd + ce);
    }
//@-
    carry = carry.wrapping_add(carry2);
    while i < size
//@+
        invariant h <= i <= s, h == half, s == size, h + h == s, 2 * s <= ll, out.len() == ll, o8.len() == ll, scratch.len() == s, carry.0 <= 8,
            forall|k: int| s + i <= k < ll ==> #[trigger] out@[k] == o8[k],
            adc_win(out@, o8, scratch@, s, h, i as nat, carry.0 as int, cc + cd + ce),
        decreases s - i
//@-
{
//@+
        let ghost ob = out@; let ghost cbb = carry;
//@-
        let (__t14, __t15) = out[i + size].adc(scratch[i], carry); out[i + size] = __t14; carry = __t15; // add z2.1
//@+
        proof { lemma_bs_adc_step(out@, ob, o8, scratch@, s, h, i as nat, carry.0 as int, cbb.0 as int, cc + cd + ce); }
//@-
        i += 1;
    }
//@+
    let ghost o9 = out@; let ghost v6 = val(o9, 2 * s); let ghost cf = carry.0 as int;
    proof {
        lemma_bs_adc_done(o9, o8, z2, s, h, s, 2 * s, ll, cf, cc + cd + ce);
        lemma_val_bound(o9, 2 * s);
        assert((h + h) as nat == s); assert((h + s) as nat == s + h); assert((s + s) as nat == 2 * s);
        lemma_bs_kmul_arith(bp(0), be, ps, psh, p2s, x0v, x1v, y0v, y1v, nv, e,
            val(z0, 0), val(z0, h), val(z0, s), val(z2, 0), val(z2, h), val(z2, s),
            v1, ca, v2, cb, v3, cc, v4, cd, v5, ce, v6, cf);
        assert(v6 == xv * yv);
        lemma_val_hi_zero(o3, 2 * s, ll);
        lemma_bs_tail(xv, xtv, yv, ytv, ps, lhsv, rhsv);
    }
//@-
    // Handle trailing limbs
//@+
    proof {
        // the product added into out[size..] does not overflow that window
        lemma_bs_tail_fit(o9, s, ll, xtv * rhsv);
    }
//@-
    if !xt.is_empty() {
        adc_mul_limbs(xt, rhs, &mut out[size..]);
    }
//@+
    let ghost o10 = out@;
    proof {
        if n > s {
            assert(0 * bp((ll - s) as nat) == 0);
            lemma_bs_window_add(o10, o9, s, ll, 0, xtv * rhsv);
            assert(0 * bp(ll) == 0);
        } else {
            assert(xtv == 0);
            assert(xtv * rhsv * ps == 0) by (nonlinear_arith) requires xtv == 0;
        }
        assert(val(o10, ll) == xv * yv + xtv * rhsv * ps);
    }
//@-
    if !yt.is_empty() {
        let end_pos = 2 * size + yt.len();
        carry = adc_mul_limbs(yt, x, &mut out[size..end_pos]);
        i = end_pos;
//@+
        let ghost o11 = out@; let ghost ep = end_pos as nat;
        proof {
            assert(ep == s + m);
            lemma_bs_window_add(o11, o10, s, ep, carry.0 as int, ytv * xv);
        }
//@-
        while i < out.len()
//@+
            invariant ep <= i <= ll, out.len() == ll, o10.len() == ll,
                forall|k: int| i <= k < ll ==> #[trigger] out@[k] == o10[k],
                val(out@, i as nat) + carry.0 as int * bp(i as nat) == val(o10, i as nat) + ytv * xv * ps,
            decreases ll - i
//@-
{
//@+
            let ghost ob = out@; let ghost cbb = carry;
//@-
            let (__t16, __t17) = out[i].adc(Limb::ZERO, carry); out[i] = __t16; carry = __t17;
//@+
            proof {
                lemma_bs_limb_step(out@, ob, i as nat, carry.0 as int, ob[i as int].0 as int + cbb.0 as int);
                let a = ob[i as int].0 as int; let pk = bp(i as nat);
                assert((a + cbb.0 as int) * pk == a * pk + cbb.0 as int * pk) by (nonlinear_arith);
                lemma_val_step(o10, i as nat);
            }
//@-
            i += 1;
        }
//@+
        proof {
            lemma_val_bound(out@, ll);
            lemma_bs_no_carry(val(out@, ll), carry.0 as int, bp(ll), lhsv * rhsv);
        }
//@-
    }
//@+
    proof {
        if m == s {
            assert(ytv == 0);
            assert(ytv * xv * ps == 0) by (nonlinear_arith) requires ytv == 0;
        }
    }
//@-
}
//@@ end
//@@ fn src/uint/mul/karatsuba.rs | - | karatsuba_square_limbs | body | props C03 C11
pub fn karatsuba_square_limbs(limbs: &[Limb], out: &mut [Limb], scratch: &mut [Limb])
//@+
    requires limbs.len() >= 1, 2 * limbs.len() == old(out).len(),
        (limbs.len() > 48 && limbs.len() % 2 == 0) ==> old(scratch).len() >= old(out).len(),
    ensures final(out).len() == old(out).len(), final(scratch).len() == old(scratch).len(),
        val(final(out)@, old(out).len() as nat) == val(limbs@, limbs.len() as nat) * val(limbs@, limbs.len() as nat)
    decreases limbs.len()
//@-
{
//@+
    hide(val);
//@-
    let size = limbs.len();
//@+
    assert(((size & 1) == 1) == (size % 2 == 1)) by (bit_vector);
//@-
    if size <= KARATSUBA_MAX_REDUCE_LIMBS * 2 || (size & 1) == 1 {
        out.fill(Limb::ZERO);
        square_limbs(limbs, out);
        return;
    }
    if 2 * size != out.len() || scratch.len() < out.len() {
        panic!("invalid arguments to karatsuba_square_limbs");
    }
    let half = size / 2;
//@+
    let ghost s = size as nat; let ghost h = half as nat; let ghost ll = (2 * s) as nat;
    let ghost be = bp(h); let ghost ps = bp(s); let ghost psh = bp(s + h); let ghost p2s = bp(2 * s);
    proof {
        assert(h + h == s);
        lemma_bp_add(h, h); lemma_bp_add(s, h); lemma_bp_add(s, s); lemma_bp_succ(h); lemma_bp_succ(0);
        assert((s + s) as nat == 2 * s);
    }
//@-
    let (scratch, ext_scratch) = scratch.split_at_mut(size);
    let (x0, x1) = limbs.split_at(half);
//@+
    let ghost x0v = val(x0@, h); let ghost x1v = val(x1@, h); let ghost xv = val(limbs@, s);
    proof {
        assert(limbs@.subrange(0, s as int) =~= limbs@);
        lemma_bs_split_vals(limbs@, limbs@, limbs@.subrange(s as int, s as int), x0@, x1@, s, s, h);
    }
//@-
    // Initialize output buffer
    out[..2 * size].fill(Limb::ZERO);
    // Calculate x0 - x1
    let mut i = 0;
    let mut borrow = Limb::ZERO;
//@+
    proof { lemma_bs_val0(scratch@); lemma_bs_val0(x0@); lemma_bs_val0(x1@); }
//@-
    while i < half
//@+
        invariant i <= h, h == half, h + h == s, scratch.len() == s, x0.len() == h, x1.len() == h,
            borrow.0 == 0 || borrow.0 == u64::MAX,
            val(scratch@, i as nat) - bb(borrow) * bp(i as nat) == val(x0@, i as nat) - val(x1@, i as nat),
        decreases h - i
//@-
{
//@+
        let ghost sa = scratch@; let ghost b0 = borrow;
//@-
        let (__t0, __t1) = x0[i].sbb(x1[i], borrow); scratch[i] = __t0; borrow = __t1;
//@+
        proof { lemma_bs_sbb_step(scratch@, sa, x0@, x1@, i as nat, bb(borrow), bb(b0)); }
//@-
        i += 1;
    }
//@+
    let ghost s1 = scratch@;
    let ghost d0 = x0v - x1v;
    let ghost a0: int = if d0 < 0 { -d0 } else { d0 };
    proof {
        lemma_val_ext(s1, s1.subrange(0, h as int), h);
        lemma_bs_abs_seq(s1.subrange(0, h as int), h, bb(borrow), x0v, x1v);
    }
//@-
    // Conditionally negate depending whether subtraction borrowed
    conditional_wrapping_neg_assign(&mut scratch[..half], ConstChoice::from_word_mask(borrow.0));
//@+
    let ghost o1 = out@;
    proof { assert(val(scratch@.subrange(0, h as int), h) == a0); }
//@-
    // Calculate z1 = (x0 - x1)^2 into output
    karatsuba_square_limbs(&scratch[..half], &mut out[half..3 * half], ext_scratch);
    // Negate the output (will add 1 to produce the wrapping negative)
    i = 0;
//@+
    let ghost o2 = out@;
    proof {
        assert((3 * h - h) as nat == s); assert((s + h) as nat == 3 * h);
        lemma_bs_mid_val(o2, h, s, a0 * a0);
        lemma_bs_val0(o2);
    }
//@-
    while i < 2 * size
//@+
        invariant i <= 2 * s, s == size, out.len() == 2 * s, o2.len() == 2 * s,
            forall|k: int| i <= k < 2 * s ==> #[trigger] out@[k] == o2[k],
            val(out@, i as nat) == bp(i as nat) - 1 - val(o2, i as nat),
        decreases 2 * s - i
//@-
{
//@+
        let ghost ob = out@;
//@-
        out[i] = !out[i];
//@+
        proof { lemma_bs_not_step(out@, ob, o2, i as nat); }
//@-
        i += 1;
    }
//@+
    let ghost o3 = out@;
    let ghost nv = val(o3, 2 * s) + 1;
//@-
    // Calculate z0 = x0^2 into scratch
    karatsuba_square_limbs(x0, scratch, ext_scratch);
    // Add z0•(1 + b) to output
    let mut carry = Limb::ONE; // add 1 to complete wrapping negative
    let mut carry2 = Limb::ZERO;
    i = 0;
//@+
    let ghost z0 = scratch@;
    proof { lemma_bs_val0(z0); lemma_bs_adc_init(o3, z0, 0, 0, 1); }
//@-
    while i < size
//@+
        invariant i <= s, s == size, out.len() == ll, ll == 2 * s, o3.len() == ll, scratch.len() == s, carry.0 <= 2,
            forall|k: int| i <= k < ll ==> #[trigger] out@[k] == o3[k],
            adc_win(out@, o3, scratch@, 0, 0, i as nat, carry.0 as int, 1),
        decreases s - i
//@-
{
//@+
        let ghost ob = out@; let ghost cb = carry;
//@-
        let (__t2, __t3) = out[i].adc(scratch[i], carry); out[i] = __t2; carry = __t3; // add z0
//@+
        proof { lemma_bs_adc_step(out@, ob, o3, scratch@, 0, 0, i as nat, carry.0 as int, cb.0 as int, 1); }
//@-
        i += 1;
    }
    i = 0;
//@+
    let ghost o4 = out@; let ghost v1 = val(o4, 2 * s); let ghost ca = carry.0 as int;
    proof { lemma_bs_adc_done(o4, o3, z0, 0, 0, s, 2 * s, ll, ca, 1); lemma_bs_adc_init(o4, z0, h, 0, 0); }
//@-
    while i < half
//@+
        invariant i <= h, h == half, h + h == s, out.len() == ll, ll == 2 * s, o4.len() == ll, scratch.len() == s, carry2.0 <= 2,
            forall|k: int| h + i <= k < ll ==> #[trigger] out@[k] == o4[k],
            adc_win(out@, o4, scratch@, h, 0, i as nat, carry2.0 as int, 0),
        decreases h - i
//@-
{
//@+
        let ghost ob = out@; let ghost cb = carry2;
//@-
        let (__t4, __t5) = out[i + half].adc(scratch[i], carry2); out[i + half] = __t4; carry2 = __t5; // add z0.0
//@+
        proof { lemma_bs_adc_step(out@, ob, o4, scratch@, h, 0, i as nat, carry2.0 as int, cb.0 as int, 0); }
//@-
        i += 1;
    }
//@+
    let ghost o5 = out@; let ghost v2 = val(o5, 2 * s); let ghost cb = carry2.0 as int;
    proof {
        lemma_bs_adc_done(o5, o4, z0, h, 0, h, 2 * s, ll, cb, 0);
        lemma_small_mod((ca + cb) as nat, B() as nat);
        lemma_bs_adc_init(o5, z0, h, h, ca + cb);
    }
//@-
    carry = carry.wrapping_add(carry2);
    while i < size
//@+
        invariant h <= i <= s, h == half, s == size, h + h == s, out.len() == ll, ll == 2 * s, o5.len() == ll, scratch.len() == s, carry.0 <= 4,
            forall|k: int| h + i <= k < ll ==> #[trigger] out@[k] == o5[k],
            adc_win(out@, o5, scratch@, h, h, i as nat, carry.0 as int, ca + cb),
        decreases s - i
//@-
{
//@+
        let ghost ob = out@; let ghost cbb = carry;
//@-
        let (__t6, __t7) = out[i + half].adc(scratch[i], carry); out[i + half] = __t6; carry = __t7; // add z0.1
//@+
        proof { lemma_bs_adc_step(out@, ob, o5, scratch@, h, h, i as nat, carry.0 as int, cbb.0 as int, ca + cb); }
//@-
        i += 1;
    }
//@+
    let ghost o6 = out@; let ghost v3 = val(o6, 2 * s); let ghost cc = carry.0 as int;
    proof { lemma_bs_adc_done(o6, o5, z0, h, h, s, 2 * s, ll, cc, ca + cb); }
//@-
    // Calculate z2 = x1^2 into scratch
    karatsuba_square_limbs(x1, scratch, ext_scratch);
    // Add z2•(b + b^2) to output
    carry2 = Limb::ZERO;
    i = 0;
//@+
    let ghost z2 = scratch@;
    proof { lemma_bs_val0(z2); lemma_bs_adc_init(o6, z2, h, 0, 0); }
//@-
    while i < size
//@+
        invariant i <= s, h == half, s == size, h + h == s, out.len() == ll, ll == 2 * s, o6.len() == ll, scratch.len() == s, carry2.0 <= 2,
            forall|k: int| h + i <= k < ll ==> #[trigger] out@[k] == o6[k],
            adc_win(out@, o6, scratch@, h, 0, i as nat, carry2.0 as int, 0),
        decreases s - i
//@-
{
//@+
        let ghost ob = out@; let ghost cbb = carry2;
//@-
        let (__t8, __t9) = out[i + half].adc(scratch[i], carry2); out[i + half] = __t8; carry2 = __t9; // add z2
//@+
        proof { lemma_bs_adc_step(out@, ob, o6, scratch@, h, 0, i as nat, carry2.0 as int, cbb.0 as int, 0); }
//@-
        i += 1;
    }
//@+
    let ghost o7 = out@; let ghost v4 = val(o7, 2 * s); let ghost cd = carry2.0 as int;
    proof {
        lemma_bs_adc_done(o7, o6, z2, h, 0, s, 2 * s, ll, cd, 0);
        lemma_small_mod((cc + cd) as nat, B() as nat);
        lemma_bs_adc_init(o7, z2, s, 0, 0);
    }
//@-
    carry = carry.wrapping_add(carry2);
    carry2 = Limb::ZERO;
    i = 0;
    while i < half
//@+
        invariant i <= h, h == half, s == size, h + h == s, out.len() == ll, ll == 2 * s, o7.len() == ll, scratch.len() == s, carry2.0 <= 2,
            forall|k: int| s + i <= k < ll ==> #[trigger] out@[k] == o7[k],
            adc_win(out@, o7, scratch@, s, 0, i as nat, carry2.0 as int, 0),
        decreases h - i
//@-
{
//@+
        let ghost ob = out@; let ghost cbb = carry2;
//@-
        let (__t10, __t11) = out[i + size].adc(scratch[i], carry2); out[i + size] = __t10; carry2 = __t11; // add z2.0
//@+
        proof { lemma_bs_adc_step(out@, ob, o7, scratch@, s, 0, i as nat, carry2.0 as int, cbb.0 as int, 0); }
//@-
        i += 1;
    }
//@+
    let ghost o8 = out@; let ghost v5 = val(o8, 2 * s); let ghost ce = carry2.0 as int;
    proof {
        lemma_bs_adc_done(o8, o7, z2, s, 0, h, 2 * s, ll, ce, 0);
        lemma_small_mod((cc + cd + ce) as nat, B() as nat);
        lemma_bs_adc_init(o8, z2, s, h, cc + cd + ce);
    }
//@-
    carry = carry.wrapping_add(carry2);
    while i < size
//@+
        invariant h <= i <= s, h == half, s == size, h + h == s, out.len() == ll, ll == 2 * s, o8.len() == ll, scratch.len() == s, carry.0 <= 8,
            forall|k: int| s + i <= k < ll ==> #[trigger] out@[k] == o8[k],
            adc_win(out@, o8, scratch@, s, h, i as nat, carry.0 as int, cc + cd + ce),
        decreases s - i
//@-
{
//@+
        let ghost ob = out@; let ghost cbb = carry;
//@-
        let (__t12, __t13) = out[i + size].adc(scratch[i], carry); out[i + size] = __t12; carry = __t13; // add z2.1
//@+
        proof { lemma_bs_adc_step(out@, ob, o8, scratch@, s, h, i as nat, carry.0 as int, cbb.0 as int, cc + cd + ce); }
//@-
        i += 1;
    }
//@+
    proof {
        let o9 = out@; let v6 = val(o9, 2 * s); let cf = carry.0 as int;
        lemma_bs_adc_done(o9, o8, z2, s, h, s, 2 * s, ll, cf, cc + cd + ce);
        lemma_val_bound(o9, 2 * s);
        assert((h + h) as nat == s); assert((h + s) as nat == s + h); assert((s + s) as nat == 2 * s);
        let d1 = x1v - x0v;
        assert(d0 * d1 == -(a0 * a0)) by (nonlinear_arith) requires d1 == -d0, a0 == (if d0 < 0 { -d0 } else { d0 });
        assert(d0 * d1 * be == -(a0 * a0 * be)) by (nonlinear_arith) requires d0 * d1 == -(a0 * a0);
        assert(1 * p2s == p2s);
        assert(nv == d0 * d1 * be + 1 * p2s);
        lemma_bs_kmul_arith(bp(0), be, ps, psh, p2s, x0v, x1v, x0v, x1v, nv, 1,
            val(z0, 0), val(z0, h), val(z0, s), val(z2, 0), val(z2, h), val(z2, s),
            v1, ca, v2, cb, v3, cc, v4, cd, v5, ce, v6, cf);
    }
//@-
}
//@@ end

// ---- boxed Montgomery multiplication (src/modular/boxed_monty_form/mul.rs) -- C08

// ---- lemmas for the boxed almost-Montgomery multiplication

/// one multiply-accumulate step of  z += x·y  (y a single limb)
proof fn lemma_bs_amc_step(za: Seq<Limb>, zb: Seq<Limb>, z0: Seq<Limb>, xs: Seq<Limb>, i: nat, y: int, cout: int, cin: int)
    requires
        forall|k: int| 0 <= k < i ==> za[k] == zb[k],
        zb[i as int] == z0[i as int],
        za[i as int].0 as int + cout * B() == zb[i as int].0 as int + xs[i as int].0 as int * y + cin,
        val(zb, i) + cin * bp(i) == val(z0, i) + val(xs, i) * y,
    ensures val(za, i + 1) + cout * bp(i + 1) == val(z0, i + 1) + val(xs, i + 1) * y
{
    let a = zb[i as int].0 as int; let x = xs[i as int].0 as int; let p = bp(i);
    lemma_bs_limb_step(za, zb, i, cout, a + x * y + cin);
    assert((a + x * y + cin) * p == a * p + x * y * p + cin * p) by (nonlinear_arith);
    assert((val(xs, i) + x * p) * y == val(xs, i) * y + x * y * p) by (nonlinear_arith);
}

/// one step of  z = (z + x·y) / B : limb i of the sum is written to position i - 1
proof fn lemma_bs_shift_step(za: Seq<Limb>, zb: Seq<Limb>, z0: Seq<Limb>, xs: Seq<Limb>, i: nat, y: int, lw: int, cout: int, cin: int)
    requires i >= 1,
        forall|k: int| 0 <= k < i - 1 ==> za[k] == zb[k],
        za[i - 1].0 as int + cout * B() == z0[i as int].0 as int + xs[i as int].0 as int * y + cin,
        val(zb, (i - 1) as nat) * B() + lw + cin * bp(i) == val(z0, i) + val(xs, i) * y,
    ensures val(za, i) * B() + lw + cout * bp(i + 1) == val(z0, i + 1) + val(xs, i + 1) * y
{
    let i1 = (i - 1) as nat;
    let a = z0[i as int].0 as int; let x = xs[i as int].0 as int; let p = bp(i); let w = za[i1 as int].0 as int;
    lemma_val_ext(za, zb, i1);
    lemma_bp_succ(i1); lemma_bp_succ(i);
    assert(val(za, i) == val(za, i1) + w * bp(i1));
    assert((val(za, i1) + w * bp(i1)) * B() == val(za, i1) * B() + w * (B() * bp(i1))) by (nonlinear_arith);
    assert((w + cout * B()) * p == w * p + cout * (B() * p)) by (nonlinear_arith);
    assert((a + x * y + cin) * p == a * p + x * y * p + cin * p) by (nonlinear_arith);
    assert((val(xs, i) + x * p) * y == val(xs, i) * y + x * y * p) by (nonlinear_arith);
}

/// (a + ((a*k) % B) * m0) % B == 0 when (k*m0) % B == B-1
proof fn lemma_bs_low_word_zero(a: int, k: int, m0: int)
    requires 0 <= a < B(), 0 <= k < B(), 0 <= m0 < B(), (k * m0) % B() == B() - 1
    ensures (a + m0 * ((a * k) % B())) % B() == 0
{
    let b = B();
    let u = (a * k) % b;
    lemma_mul_mod_noop_left(a * k, m0, b);
    assert((u * m0) % b == ((a * k) * m0) % b);
    assert((a * k) * m0 == a * (k * m0)) by (nonlinear_arith);
    lemma_mul_mod_noop_right(a, k * m0, b);
    assert((a * (k * m0)) % b == (a * (b - 1)) % b);
    assert(a * (b - 1) == a * b - a) by (nonlinear_arith);
    lemma_add_mod_noop_right(a, u * m0, b);
    lemma_add_mod_noop_right(a, a * (b - 1), b);
    assert((a + u * m0) % b == (a + a * (b - 1)) % b);
    assert(a + a * (b - 1) == a * b);
    lemma_mod_multiples_basic(a, b);
    assert(u * m0 == m0 * u) by (nonlinear_arith);
}

proof fn lemma_bs_bp_ge(n: nat)
    requires n >= 1
    ensures bp(n) >= B()
{
    lemma_bp_succ((n - 1) as nat);
    let p = bp((n - 1) as nat);
    assert(B() * p >= B()) by (nonlinear_arith) requires p >= 1;
}

/// k·m0 ≡ -1 (mod B) forces m0 != 0
proof fn lemma_bs_neg_inv_nonzero(k: int, m0: int)
    requires (k * m0) % B() == B() - 1
    ensures m0 != 0
{
    if m0 == 0 { assert(k * m0 == 0) by (nonlinear_arith) requires m0 == 0; }
}

/// one round of the CIOS loop on integers: with Z = zv + ts·R the round computes Z' = (Z + x·y_i + m·t) / B
proof fn lemma_bs_amm_step(r: int, pn1: int, pi: int, zv: int, ts: int, xv: int, yi: int, mv: int, t: int,
    zav: int, c1: int, tsp: int, c2: int, zbl: int, c3: int, w: int, c4: int, tsn: int, yacc: int, uacc: int)
    requires
        r == pn1 * B(), pn1 > 0, pi > 0,
        zav + c1 * r == zv + xv * yi,
        tsp + c2 * B() == ts + c1,
        zbl * B() + c3 * r == zav + mv * t,
        w + c4 * B() == tsp + c3,
        tsn == c2 + c4,
        (zv + ts * r) * pi == xv * yacc + mv * uacc,
        0 <= xv < r, 0 <= mv < r, 0 <= yacc < pi, 0 <= yi < B(), 0 <= uacc < pi, 0 <= t < B(),
        0 <= zbl, 0 <= w, 0 <= tsn,
    ensures
        (zbl + w * pn1 + tsn * r) * (pi * B()) == xv * (yacc + yi * pi) + mv * (uacc + t * pi),
        0 <= uacc + t * pi < pi * B(), 0 <= yacc + yi * pi < pi * B(),
        tsn <= 1
{
    let b = B();
    let zn = zbl + w * pn1 + tsn * r;
    // zn·B == Z + x·y_i + m·t
    assert(zn * b == zbl * b + w * (pn1 * b) + tsn * (r * b)) by (nonlinear_arith) requires zn == zbl + w * pn1 + tsn * r;
    assert(w * r == (tsp + c3 - c4 * b) * r) by (nonlinear_arith) requires w == tsp + c3 - c4 * b;
    assert((tsp + c3 - c4 * b) * r == tsp * r + c3 * r - c4 * (r * b)) by (nonlinear_arith);
    assert(tsn * (r * b) == c2 * (r * b) + c4 * (r * b)) by (nonlinear_arith) requires tsn == c2 + c4;
    assert(tsp * r == (ts + c1 - c2 * b) * r) by (nonlinear_arith) requires tsp == ts + c1 - c2 * b;
    assert((ts + c1 - c2 * b) * r == ts * r + c1 * r - c2 * (r * b)) by (nonlinear_arith);
    assert(zn * b == zv + ts * r + xv * yi + mv * t);
    // scale by B^i
    let z = zv + ts * r;
    assert(zn * (pi * b) == (zn * b) * pi) by (nonlinear_arith);
    assert((z + xv * yi + mv * t) * pi == z * pi + xv * (yi * pi) + mv * (t * pi)) by (nonlinear_arith);
    assert(xv * (yacc + yi * pi) == xv * yacc + xv * (yi * pi)) by (nonlinear_arith);
    assert(mv * (uacc + t * pi) == mv * uacc + mv * (t * pi)) by (nonlinear_arith);
    // ranges of the accumulators
    assert(0 <= t * pi <= (b - 1) * pi) by (nonlinear_arith) requires 0 <= t <= b - 1, pi > 0;
    assert(0 <= yi * pi <= (b - 1) * pi) by (nonlinear_arith) requires 0 <= yi <= b - 1, pi > 0;
    assert((b - 1) * pi + pi == pi * b) by (nonlinear_arith);
    // zn < 2R, hence the top word is a bit
    let ya = yacc + yi * pi; let ua = uacc + t * pi; let q = pi * b;
    lemma_bs_prod_bound(xv, ya, r, q);
    lemma_bs_prod_bound(mv, ua, r, q);
    assert(zn * q < 2 * (r * q));
    assert(zn < 2 * r) by (nonlinear_arith) requires zn * q < 2 * (r * q), q > 0;
    assert(w * pn1 >= 0) by (nonlinear_arith) requires w >= 0, pn1 > 0;
    assert(tsn <= 1) by (nonlinear_arith) requires tsn * r < 2 * r, r > 0;
}

/// end of AMM: Z = zv + ts·R with Z·R == x·y + m·U; the conditional subtraction of m gives rv
proof fn lemma_bs_amm_final(zv: int, ts: int, rv: int, xv: int, yv: int, mv: int, u: int, r: int)
    requires (zv + ts * r) * r == xv * yv + mv * u, 0 <= zv < r, ts == 0 || ts == 1, 0 <= u < r,
        0 <= xv < r, 0 <= yv < r, 0 < mv < r,
        rv == (if ts == 1 { (zv - mv) % r } else { zv }),
    ensures (rv * r) % mv == (xv * yv) % mv, 0 <= rv < r, (xv < mv && yv < mv) ==> rv < 2 * mv,
        rv == zv + ts * r - ts * mv,
        rv * r < xv * yv + mv * r
{
    let z = zv + ts * r;
    lemma_bs_prod_bound(xv, yv, r, r);
    assert(mv * u < mv * r) by (nonlinear_arith) requires 0 <= u < r, 0 < mv;
    assert(mv * u >= 0) by (nonlinear_arith) requires 0 <= u, 0 < mv;
    assert(mv * r == r * mv) by (nonlinear_arith);
    // z < r + mv
    assert(z < r + mv) by (nonlinear_arith) requires z * r < r * r + r * mv, r > 0;
    assert(ts * r == (if ts == 1 { r } else { 0 })) by (nonlinear_arith) requires ts == 0 || ts == 1;
    assert(ts * mv == (if ts == 1 { mv } else { 0 })) by (nonlinear_arith) requires ts == 0 || ts == 1;
    if ts == 1 {
        // zv - mv < 0 <= zv - mv + r < r
        lemma_fundamental_div_mod_converse(zv - mv, r, -1, zv - mv + r);
    }
    assert(rv == z - ts * mv);
    assert(rv * r == z * r - ts * mv * r) by (nonlinear_arith) requires rv == z - ts * mv;
    assert(ts * mv * r == mv * (ts * r)) by (nonlinear_arith);
    assert(mv * u - mv * (ts * r) == mv * (u - ts * r)) by (nonlinear_arith);
    lemma_mod_multiples_vanish(u - ts * r, xv * yv, mv);
    if xv < mv && yv < mv {
        lemma_bs_prod_bound(xv, yv, mv, mv);
        assert(z < 2 * mv) by (nonlinear_arith) requires z * r < mv * mv + mv * r, 0 < mv < r;
        assert(ts * mv >= 0);
    }
    assert(rv * r <= z * r) by (nonlinear_arith) requires rv <= z, r > 0;
}

/// end of AMM by one: Z·R == x + m·U, so Z <= m, and Z < m for x < m
proof fn lemma_bs_amm1_final(z: int, xv: int, mv: int, u: int, r: int)
    requires z * r == xv + mv * u, 0 <= z, 0 <= u < r, 0 <= xv < r, 0 < mv < r
    ensures z <= mv, xv < mv ==> z < mv, (z * r) % mv == xv % mv
{
    assert(mv * u <= mv * (r - 1)) by (nonlinear_arith) requires 0 <= u <= r - 1, 0 < mv;
    assert(mv * (r - 1) == mv * r - mv) by (nonlinear_arith);
    assert(z <= mv) by (nonlinear_arith) requires z * r < r + mv * r - mv, r > 0, mv > 0, z >= 0;
    if xv < mv && z >= mv {
        assert(z * r >= mv * r) by (nonlinear_arith) requires z >= mv, r > 0;
        assert(false);
    }
    lemma_mod_multiples_vanish(u, xv, mv);
}

//@@ fn src/modular/boxed_monty_form/mul.rs | - | add_mul_carry | body | props C08 C11
pub const fn add_mul_carry(z: &mut [Limb], x: &[Limb], y: Limb) -> (ret__: Limb)
//@+
    requires old(z).len() == x.len()
    ensures final(z).len() == old(z).len(),
        val(final(z)@, x.len() as nat) + ret__.0 as int * bp(x.len() as nat) == val(old(z)@, x.len() as nat) + val(x@, x.len() as nat) * y.0 as int
//@-
{
    let n = z.len();
    if n != x.len() {
        panic!("Failed preconditions in `add_mul_carry`");
    }
    let mut c = Limb::ZERO;
    let mut i = 0;
//@+
    let ghost z0 = z@;
    proof { lemma_bp_succ(0); assert(val(x@, 0) * y.0 as int == 0) by (nonlinear_arith) requires val(x@, 0) == 0; }
//@-
    while i < n
//@+
        invariant i <= n, n == z.len(), n == x.len(), z0.len() == n,
            forall|k: int| i <= k < n ==> #[trigger] z@[k] == z0[k],
            val(z@, i as nat) + c.0 as int * bp(i as nat) == val(z0, i as nat) + val(x@, i as nat) * y.0 as int,
        decreases n - i
//@-
{
//@+
        let ghost zb = z@; let ghost cb = c;
//@-
        let (__t0, __t1) = z[i].mac(x[i], y, c); z[i] = __t0; c = __t1;
//@+
        proof { lemma_bs_amc_step(z@, zb, z0, x@, i as nat, y.0 as int, c.0 as int, cb.0 as int); }
//@-
        i += 1;
    }
    c
}
//@@ end
//@@ fn src/modular/boxed_monty_form/mul.rs | - | add_mul_carry_and_shift | body | props C08 C11
pub const fn add_mul_carry_and_shift(z: &mut [Limb], x: &[Limb], y: Limb) -> (ret__: Limb)
//@+
    requires old(z).len() == x.len(), x.len() >= 1
    ensures final(z).len() == old(z).len(), final(z)[x.len() - 1] == old(z)[x.len() - 1],
        val(final(z)@, (x.len() - 1) as nat) * B() + (old(z)[0].0 as int + x[0].0 as int * y.0 as int) % B() + ret__.0 as int * bp(x.len() as nat)
            == val(old(z)@, x.len() as nat) + val(x@, x.len() as nat) * y.0 as int
//@-
{
    let n = z.len();
    if n != x.len() {
        panic!("Failed preconditions in `add_mul_carry_and_shift`");
    }
    let (_, mut c) = z[0].mac(x[0], y, Limb::ZERO);
    let mut i = 1;
    let mut i1 = 0;
//@+
    let ghost z0 = z@;
    let ghost lw = (z0[0].0 as int + x@[0].0 as int * y.0 as int) % B();
    proof {
        lemma_bp1();
        let t = z0[0].0 as int + x@[0].0 as int * y.0 as int;
        lemma_fundamental_div_mod(t, B());
        lemma_mod_bound(t, B());
        // the discarded low limb of the first mac is t % B
        let l = t - c.0 as int * B();
        lemma_fundamental_div_mod_converse(t, B(), c.0 as int, l);
        assert(val(z0, 1) == z0[0].0 as int) by { reveal_with_fuel(val, 2); }
        assert(val(x@, 1) == x@[0].0 as int) by { reveal_with_fuel(val, 2); }
        assert(val(z@, 0) * B() == 0) by (nonlinear_arith) requires val(z@, 0) == 0;
    }
//@-
    // Help the compiler elide bound checking
    while i < n && i1 < n
//@+
        invariant 1 <= i <= n, i1 + 1 == i, n == z.len(), n == x.len(), z0.len() == n,
            forall|k: int| i1 <= k < n ==> #[trigger] z@[k] == z0[k],
            val(z@, i1 as nat) * B() + lw + c.0 as int * bp(i as nat) == val(z0, i as nat) + val(x@, i as nat) * y.0 as int,
        decreases n - i
//@-
{
//@+
        let ghost zb = z@; let ghost cb = c;
//@-
        let (__t0, __t1) = z[i].mac(x[i], y, c); z[i1] = __t0; c = __t1;
//@+
        proof { lemma_bs_shift_step(z@, zb, z0, x@, i as nat, y.0 as int, lw, c.0 as int, cb.0 as int); }
//@-
        i += 1;
        i1 += 1;
    }
    c
}
//@@ end
//@@ fn src/modular/boxed_monty_form/mul.rs | - | conditional_sub | body | props C08 C11
pub const fn conditional_sub(z: &mut [Limb], x: &[Limb], c: ConstChoice)
//@+
    requires old(z).len() == x.len(), c.wf()
    ensures final(z).len() == old(z).len(),
        val(final(z)@, x.len() as nat) == (if c.t() { (val(old(z)@, x.len() as nat) - val(x@, x.len() as nat)) % bp(x.len() as nat) } else { val(old(z)@, x.len() as nat) })
//@-
{
    let n = z.len();
    if n != x.len() {
        panic!("Failed preconditions in `conditional_sub`");
    }
    let mut borrow = Limb::ZERO;
    let mut i = 0;
//@+
    let ghost z0 = z@;
    proof { lemma_bp1(); }
//@-
    while i < n
//@+
        invariant i <= n, n == z.len(), n == x.len(), z0.len() == n, c.wf(),
            borrow.0 == 0 || borrow.0 == u64::MAX,
            forall|k: int| i <= k < n ==> #[trigger] z@[k] == z0[k],
            c.t() ==> val(z@, i as nat) - bb(borrow) * bp(i as nat) == val(z0, i as nat) - val(x@, i as nat),
            !c.t() ==> borrow.0 == 0 && val(z@, i as nat) == val(z0, i as nat),
        decreases n - i
//@-
{
//@+
        let ghost zb = z@; let ghost b0 = borrow;
//@-
        let (zi, new_borrow) = z[i].sbb(Limb(c.if_true_word(x[i].0)), borrow);
        z[i] = zi;
        borrow = new_borrow;
//@+
        proof {
            if c.t() {
                lemma_bs_sbb_step(z@, zb, z0, x@, i as nat, bb(borrow), bb(b0));
            } else {
                assert(zi == z0[i as int]);
                lemma_val_ext(zb, z@, i as nat);
            }
        }
//@-
        i += 1;
    }
//@+
    proof {
        if c.t() {
            lemma_val_bound(z@, n as nat);
            let d = val(z0, n as nat) - val(x@, n as nat);
            assert((-bb(borrow)) * bp(n as nat) == -(bb(borrow) * bp(n as nat))) by (nonlinear_arith);
            lemma_fundamental_div_mod_converse(d, bp(n as nat), -bb(borrow), val(z@, n as nat));
        }
    }
//@-
}
//@@ end
//@@ fn src/modular/boxed_monty_form/mul.rs | - | almost_montgomery_mul | body | props C08 C11
pub const fn almost_montgomery_mul(
    z: &mut [Limb],
    x: &[Limb],
    y: &[Limb],
    m: &[Limb],
    k: Limb,
)
//@+
    requires old(z).len() == x.len(), y.len() == x.len(), m.len() == x.len(), x.len() >= 1,
        neg_inv_ok(k, m[0]),
        forall|j: int| 0 <= j < old(z).len() ==> old(z)[j].0 == 0,
    ensures final(z).len() == old(z).len(),
        0 <= val(final(z)@, x.len() as nat) < bp(x.len() as nat),
        val(m@, m.len() as nat) > 0,
        (val(final(z)@, x.len() as nat) * bp(x.len() as nat)) % val(m@, m.len() as nat) == (val(x@, x.len() as nat) * val(y@, y.len() as nat)) % val(m@, m.len() as nat),
        (val(x@, x.len() as nat) < val(m@, m.len() as nat) && val(y@, y.len() as nat) < val(m@, m.len() as nat)) ==> val(final(z)@, x.len() as nat) < 2 * val(m@, m.len() as nat),
        val(final(z)@, x.len() as nat) * bp(x.len() as nat) < val(x@, x.len() as nat) * val(y@, y.len() as nat) + val(m@, m.len() as nat) * bp(x.len() as nat),
//@-
{
    let n = z.len();
    // This preconditions check allows compiler to remove bound checks later in the code.
    if !(x.len() == n && y.len() == n && m.len() == n) {
        panic!("Failed preconditions in `almost_montgomery_mul`");
    }
    let mut ts = Limb::ZERO;
    let mut i = 0;
//@+
    let ghost nn = n as nat; let ghost r = bp(nn);
    let ghost xv = val(x@, nn); let ghost yv = val(y@, nn); let ghost mv = val(m@, nn);
    let ghost mut uacc: int = 0;
    proof {
        lemma_val_bound(x@, nn); lemma_val_bound(y@, nn); lemma_val_bound(m@, nn);
        lemma_val_zero(z@, nn); lemma_bp_succ(0); lemma_bp_succ((nn - 1) as nat);
        lemma_bs_neg_inv_nonzero(k.0 as int, m@[0].0 as int);
        lemma_val_low(m@, nn);
        assert(xv * val(y@, 0) + mv * uacc == 0) by (nonlinear_arith) requires val(y@, 0) == 0, uacc == 0;
        assert((val(z@, nn) + ts.0 as int * r) * bp(0) == 0) by (nonlinear_arith) requires val(z@, nn) == 0, ts.0 == 0;
    }
//@-
    while i < n
//@+
        invariant i <= n, n == z.len(), n == x.len(), n == y.len(), n == m.len(), n >= 1, nn == n, r == bp(nn),
            xv == val(x@, nn), mv == val(m@, nn), 0 <= xv < r, 0 < mv < r,
            neg_inv_ok(k, m[0]), ts.0 <= 1,
            0 <= uacc < bp(i as nat),
            (val(z@, nn) + ts.0 as int * r) * bp(i as nat) == xv * val(y@, i as nat) + mv * uacc,
        decreases n - i
//@-
{
//@+
        let ghost zs = z@; let ghost ts0 = ts;
//@-
        let mut c = add_mul_carry(z, x, y[i]);
//@+
        let ghost za = z@; let ghost c1 = c;
//@-
        let (__t0, __t1) = ts.overflowing_add(c); ts = __t0; c = __t1;
        let ts1 = c;
        let t = z[0].wrapping_mul(k);
//@+
        let ghost tsp = ts;
//@-
        c = add_mul_carry_and_shift(z, m, t);
//@+
        let ghost zb = z@; let ghost c3 = c;
//@-
        let (__t2, __t3) = ts.overflowing_add(c); z[n - 1] = __t2; c = __t3;
//@+
        proof { lemma_small_mod((ts1.0 + c.0) as nat, B() as nat); }
//@-
        ts = ts1.wrapping_add(c);
//@+
        proof {
            let a = za[0].0 as int; let m0 = m@[0].0 as int;
            lemma_bs_low_word_zero(a, k.0 as int, m0);
            lemma_val_ext(zb, z@, (nn - 1) as nat);
            lemma_val_step(z@, (nn - 1) as nat);
            lemma_val_bound(zb, (nn - 1) as nat);
            lemma_val_bound(y@, i as nat);
            lemma_bp_succ((nn - 1) as nat); lemma_bp_succ(i as nat);
            assert(bp(nn) == bp((nn - 1) as nat) * B()) by (nonlinear_arith) requires bp(nn) == B() * bp((nn - 1) as nat);
            lemma_bs_amm_step(r, bp((nn - 1) as nat), bp(i as nat), val(zs, nn), ts0.0 as int, xv, y@[i as int].0 as int, mv, t.0 as int,
                val(za, nn), c1.0 as int, tsp.0 as int, ts1.0 as int, val(zb, (nn - 1) as nat), c3.0 as int, __t2.0 as int, c.0 as int, ts.0 as int,
                val(y@, i as nat), uacc);
            uacc = uacc + t.0 as int * bp(i as nat);
            lemma_val_step(y@, i as nat);
            assert(bp(i as nat) * B() == bp((i + 1) as nat)) by (nonlinear_arith) requires bp((i + 1) as nat) == B() * bp(i as nat);
        }
//@-
        i += 1;
    }
    // If the result overflows the integer size, subtract the modulus.
    let overflow = ConstChoice::from_word_lsb(ts.0);
//@+
    let ghost zf = z@;
    proof { lemma_val_bound(zf, nn); lemma_val_bound(y@, nn); }
//@-
    conditional_sub(z, m, overflow);
//@+
    proof { lemma_bs_amm_final(val(zf, nn), ts.0 as int, val(z@, nn), xv, yv, mv, uacc, r); }
//@-
}
//@@ end
//@@ fn src/modular/boxed_monty_form/mul.rs | - | almost_montgomery_mul_by_one | body | props C08 C11
pub const fn almost_montgomery_mul_by_one(z: &mut [Limb], x: &[Limb], m: &[Limb], k: Limb)
//@+
    requires old(z).len() == x.len(), m.len() == x.len(), x.len() >= 1,
        neg_inv_ok(k, m[0]),
        forall|j: int| 0 <= j < old(z).len() ==> old(z)[j].0 == 0,
    ensures final(z).len() == old(z).len(),
        val(m@, m.len() as nat) > 0,
        0 <= val(final(z)@, x.len() as nat) <= val(m@, m.len() as nat),
        (val(final(z)@, x.len() as nat) * bp(x.len() as nat)) % val(m@, m.len() as nat) == val(x@, x.len() as nat) % val(m@, m.len() as nat),
        val(x@, x.len() as nat) < val(m@, m.len() as nat) ==> val(final(z)@, x.len() as nat) < val(m@, m.len() as nat),
//@-
{
    let n = z.len();
    // This preconditions check allows compiler to remove bound checks later in the code.
    if !(x.len() == n && m.len() == n) {
        panic!("Failed preconditions in `almost_montgomery_mul_by_one`");
    }
    let mut ts = Limb::ZERO;
    let mut i = 0;
//@+
    let ghost nn = n as nat; let ghost r = bp(nn);
    let ghost xv = val(x@, nn); let ghost mv = val(m@, nn);
    let ghost mut uacc: int = 0;
    let ghost mut yacc: int = 0;
    proof {
        lemma_val_bound(x@, nn); lemma_val_bound(m@, nn);
        lemma_val_zero(z@, nn); lemma_bp_succ(0); lemma_bp_succ((nn - 1) as nat);
        lemma_bs_neg_inv_nonzero(k.0 as int, m@[0].0 as int);
        lemma_val_low(m@, nn);
        assert(xv * yacc + mv * uacc == 0) by (nonlinear_arith) requires yacc == 0, uacc == 0;
        assert((val(z@, nn) + ts.0 as int * r) * bp(0) == 0) by (nonlinear_arith) requires val(z@, nn) == 0, ts.0 == 0;
    }
//@-
    while i < n
//@+
        invariant i <= n, n == z.len(), n == x.len(), n == m.len(), n >= 1, nn == n, r == bp(nn),
            xv == val(x@, nn), mv == val(m@, nn), 0 <= xv < r, 0 < mv < r,
            neg_inv_ok(k, m[0]), ts.0 <= 1,
            0 <= uacc < bp(i as nat), yacc == (if i == 0 { 0int } else { 1int }),
            (val(z@, nn) + ts.0 as int * r) * bp(i as nat) == xv * yacc + mv * uacc,
        decreases n - i
//@-
{
//@+
        let ghost zs = z@; let ghost ts0 = ts;
        let ghost yi: int = if i == 0 { 1 } else { 0 };
//@-
        let mut c = if i == 0 {
            add_mul_carry(z, x, Limb::ONE)
        } else {
            Limb::ZERO
        };
//@+
        let ghost za = z@; let ghost c1 = c;
        proof {
            assert(xv * yi == (if i == 0 { xv } else { 0 })) by (nonlinear_arith) requires yi == (if i == 0 { 1int } else { 0int });
            assert(0 * r == 0);
        }
//@-
        let (__t0, __t1) = ts.overflowing_add(c); ts = __t0; c = __t1;
        let ts1 = c;
        let t = z[0].wrapping_mul(k);
//@+
        let ghost tsp = ts;
//@-
        c = add_mul_carry_and_shift(z, m, t);
//@+
        let ghost zb = z@; let ghost c3 = c;
//@-
        let (__t2, __t3) = ts.overflowing_add(c); z[n - 1] = __t2; c = __t3;
//@+
        proof { lemma_small_mod((ts1.0 + c.0) as nat, B() as nat); }
//@-
        ts = ts1.wrapping_add(c);
//@+
        proof {
            let a = za[0].0 as int; let m0 = m@[0].0 as int;
            lemma_bs_low_word_zero(a, k.0 as int, m0);
            lemma_val_ext(zb, z@, (nn - 1) as nat);
            lemma_val_step(z@, (nn - 1) as nat);
            lemma_val_bound(zb, (nn - 1) as nat);
            lemma_bp_succ((nn - 1) as nat); lemma_bp_succ(i as nat);
            assert(bp(nn) == bp((nn - 1) as nat) * B()) by (nonlinear_arith) requires bp(nn) == B() * bp((nn - 1) as nat);
            if i >= 1 { lemma_bs_bp_ge(i as nat); }
            lemma_bs_amm_step(r, bp((nn - 1) as nat), bp(i as nat), val(zs, nn), ts0.0 as int, xv, yi, mv, t.0 as int,
                val(za, nn), c1.0 as int, tsp.0 as int, ts1.0 as int, val(zb, (nn - 1) as nat), c3.0 as int, __t2.0 as int, c.0 as int, ts.0 as int,
                yacc, uacc);
            uacc = uacc + t.0 as int * bp(i as nat);
            assert(yi * bp(i as nat) == (if i == 0 { 1int } else { 0int })) by (nonlinear_arith) requires yi == (if i == 0 { 1int } else { 0int }), i == 0 ==> bp(i as nat) == 1;
            yacc = 1;
            assert(bp(i as nat) * B() == bp((i + 1) as nat)) by (nonlinear_arith) requires bp((i + 1) as nat) == B() * bp(i as nat);
        }
//@-
        i += 1;
    }
    // If the result overflows the integer size, subtract the modulus.
    let overflow = ConstChoice::from_word_lsb(ts.0);
//@+
    let ghost zf = z@;
    proof {
        lemma_val_bound(zf, nn);
        assert(xv * yacc == xv) by (nonlinear_arith) requires yacc == 1;
        lemma_bs_amm1_final(val(zf, nn) + ts.0 as int * r, xv, mv, uacc, r);
        // Z <= m < R: the top word is zero and nothing is subtracted
        assert(ts.0 == 0) by (nonlinear_arith) requires val(zf, nn) + ts.0 as int * r < r, val(zf, nn) >= 0, r > 0;
        assert(0 * r == 0);
    }
//@-
    conditional_sub(z, m, overflow);
}
//@@ end

} // verus!
