// L8: BoxedUint algorithms over assumed primitives (WIP)
use vstd::prelude::*;
use vstd::arithmetic::power::*;
use vstd::arithmetic::power2::*;
use vstd::arithmetic::div_mod::*;
use crate::speclib::*;
use crate::speclib_bits::*;
use crate::l0_prim::*;
use crate::l0_corespec::*;
use crate::l1_choice::*;
use crate::l1_limb::*;
use crate::l2_core::*;
use crate::l2_subtle::*;
use crate::l4_sqrt::*;
use crate::l7_traits::*;
use crate::l7_boxed_div::*;
verus! {

pub assume_specification [<BoxedUint as Clone>::clone] (x: &BoxedUint) -> (r: BoxedUint)
    ensures r.limbs@ == x.limbs@;

fn probe_clone(x: &BoxedUint) -> (r: BoxedUint)
    ensures r.limbs@ == x.limbs@
{
    x.clone()
}

//@@ fn src/traits.rs | trait BitOps | log2_bits | body | props C20
trait BitOps {
//@+
    spec fn bp_spec(&self) -> u32;
    fn bits_precision(&self) -> (r: u32)
        ensures r == self.bp_spec();
//@-
pub fn log2_bits(&self) -> (ret__: u32)
//@+
    requires self.bp_spec() >= 1
    ensures pow2(ret__ as nat) <= self.bp_spec() < pow2((ret__ + 1) as nat)
//@-
{
        u32::BITS - self.bits_precision().leading_zeros() - 1
    }
}
//@@ end

} // verus!
